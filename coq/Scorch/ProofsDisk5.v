(* Scorch engine — persistence proofs, part 5: [DInv] holds in every reachable state, and the
   C03 theorems: committed records are whole-batch prefixes (I4), crash + recovery yields the
   prefix covered by the newest committed record, acknowledged batches survive, recovery ignores
   files no committed record names, and everything keeps holding after a recovery. *)
From Coq Require Import ZArith List Bool Arith Lia Permutation.
From Verif Require Import Scorch.Model Scorch.ProofsCore1 Scorch.ProofsCore2 Scorch.ProofsCore3
  Scorch.Disk Scorch.ProofsDisk1 Scorch.ProofsDisk2 Scorch.ProofsDisk3 Scorch.ProofsDisk4.
Import ListNotations.
Local Open Scope Z_scope.

(* ---------- every step, every run ---------- *)

Lemma DInv_step : forall ef d ev d',
  DInv ef d -> dstep d ev = Some d' -> DInv (eff_step d ef ev) d'.
Proof.
  intros ef d ev d' I H. destruct ev.
  - exact (DInv_core ef d e d' I H).
  - exact (DInv_file_written ef d sid d' I H).
  - exact (DInv_prepare ef d r d' I H).
  - exact (DInv_commit ef d d' I H).
  - exact (DInv_ack ef d k d' I H).
  - exact (DInv_purge ef d epochs d' I H).
  - exact (DInv_remove_zap ef d sid d' I H).
  - exact (DInv_merge_abort ef d newid d' I H).
  - exact (DInv_copy_start ef d d' I H).
  - exact (DInv_copy_end ef d sids d' I H).
  - exact (DInv_crash ef d d' I H).
  - exact (DInv_recover ef d d' I H).
  - exact (DInv_rollback ef d e d' I H).
Qed.

Lemma DInv_run : forall evs ef d d',
  DInv ef d -> drun d evs = Some d' -> DInv (eff_from d ef evs) d'.
Proof.
  induction evs as [|ev evs IH]; intros ef d d' I Hrun; cbn [drun eff_from] in *.
  - injection Hrun as Hrun. subst d'. exact I.
  - destruct (dstep d ev) as [d1|] eqn:Hs; [|discriminate].
    exact (IH _ d1 d' (DInv_step ef d ev d1 I Hs) Hrun).
Qed.

(* recover_then_continue: the invariant holds after ANY accepted history, in particular after
   any number of crashes, recoveries and rollbacks; so all theorems keep holding for traces
   that continue after a recovery *)
Theorem reachable_DInv : forall evs d,
  drun dinit evs = Some d -> DInv (eff evs) d.
Proof. intros evs d Hrun. exact (DInv_run evs [] dinit d DInv_init Hrun). Qed.

Theorem recover_then_continue : forall evs d,
  drun dinit evs = Some d -> d_up d = true ->
  Inv (d_core d)
  /\ (forall id, root_lookup (root (d_core d)) id = replay (eff evs) id)
  /\ (forall id, (root_live_copies (root (d_core d)) id <= 1)%nat)
  /\ d_batches d = length (eff evs).
Proof.
  intros evs d Hrun Hup. assert (I := reachable_DInv evs d Hrun).
  split; [exact (di_core _ d I Hup)|]. split; [exact (di_root _ d I Hup)|]. split.
  - intros id. rewrite root_live_copies_live. apply nodup_keys_count.
    exact (inv_I1 _ (di_core _ d I Hup)).
  - exact (di_batches _ d I).
Qed.

(* the same, one step at a time: the state right after a recovery satisfies the invariant for
   the truncated history *)
Theorem recovered_state_DInv : forall evs d d1,
  drun dinit evs = Some d -> dstep d DRecover = Some d1 ->
  DInv (firstn (covered d) (eff evs)) d1.
Proof.
  intros evs d d1 Hrun Hs. exact (DInv_recover _ d d1 (reachable_DInv evs d Hrun) Hs).
Qed.

(* ---------- I4 ---------- *)

Theorem record_is_prefix : forall evs d,
  drun dinit evs = Some d ->
  forall r, In r (d_bolt d) ->
  (exists rr k, rec_root (d_segdocs d) (br_segs r) = Some rr
     /\ assocZ (br_epoch r) (d_nb d) = Some k
     /\ (k <= length (eff evs))%nat
     /\ forall id, root_lookup rr id = replay (firstn k (eff evs)) id)
  /\ (forall id, In id (named_by r) -> In id (d_files d)).
Proof.
  intros evs d Hrun r Hr. assert (I := reachable_DInv evs d Hrun).
  destruct (di_bolt _ d I r Hr) as [He [_ [_ [rr [k [Hrr [Hk [Hc _]]]]]]]].
  split; [|intros id Hid; exact (di_named _ d I r id Hr Hid)].
  exists rr, k. split; [exact Hrr|]. split; [exact Hk|]. split; [|exact Hc].
  exact (di_nble _ d I _ k He Hk).
Qed.

(* committed records are ordered by epoch, and a newer record covers at least as many batches *)
Theorem records_monotone : forall evs d,
  drun dinit evs = Some d ->
  bsorted (d_bolt d)
  /\ forall r1 r2 k1 k2, In r1 (d_bolt d) -> In r2 (d_bolt d) -> br_epoch r1 <= br_epoch r2 ->
       assocZ (br_epoch r1) (d_nb d) = Some k1 -> assocZ (br_epoch r2) (d_nb d) = Some k2 ->
       (k1 <= k2)%nat.
Proof.
  intros evs d Hrun. assert (I := reachable_DInv evs d Hrun).
  split; [exact (di_sorted _ d I)|].
  intros r1 r2 k1 k2 H1 H2 Hle Hk1 Hk2.
  exact (di_mono _ d I _ _ k1 k2 Hle (proj1 (di_bolt _ d I r2 H2)) Hk1 Hk2).
Qed.

(* ---------- crash and recovery ---------- *)

Lemma crash_shape : forall d d1, dstep d DCrash = Some d1 ->
  d_up d1 = false /\ d_bolt d1 = d_bolt d /\ d_nb d1 = d_nb d /\ d_files d1 = d_files d
  /\ d_segdocs d1 = d_segdocs d /\ d_acked d1 = d_acked d /\ covered d1 = covered d.
Proof.
  intros d d1 H. cbn [dstep] in H. injection H as H. subst d1. unfold covered.
  cbn [d_up d_bolt d_nb d_files d_segdocs d_acked]. repeat split; reflexivity.
Qed.

Lemma recover_prefix : forall ef d d2,
  DInv ef d -> dstep d DRecover = Some d2 ->
  forall id, root_lookup (root (d_core d2)) id = replay (firstn (covered d) ef) id.
Proof.
  intros ef d d2 I H. assert (I2 := DInv_recover ef d d2 I H).
  apply (di_root _ d2 I2).
  destruct (recover_shape d d2 H) as [n [r [_ [_ [_ [_ Hd]]]]]]. subst d2. reflexivity.
Qed.

Theorem crash_recovers_prefix : forall evs d,
  drun dinit evs = Some d ->
  forall d1 d2, dstep d DCrash = Some d1 -> dstep d1 DRecover = Some d2 ->
  forall id, root_lookup (root (d_core d2)) id = replay (firstn (covered d) (eff evs)) id.
Proof.
  intros evs d Hrun d1 d2 Hc Hr id.
  assert (I1 := DInv_crash _ d d1 (reachable_DInv evs d Hrun) Hc).
  destruct (crash_shape d d1 Hc) as [_ [_ [_ [_ [_ [_ Hcov]]]]]]. rewrite <- Hcov.
  exact (recover_prefix _ d1 d2 I1 Hr id).
Qed.

(* recovery never fails once something was committed, and it uses exactly the newest record (its
   segments loaded in ascending id order) *)
Lemma recover_enabled : forall ef d,
  DInv ef d -> d_up d = false -> d_bolt d <> [] ->
  exists n rr, newest (d_bolt d) = Some n /\ rec_root (d_segdocs d) (sort_segs (br_segs n)) = Some rr
    /\ dstep d DRecover = Some (recovered d n rr (covered d)).
Proof.
  intros ef d I Hup Hne. destruct (newest_Some _ Hne) as [n En].
  assert (Hn := newest_In _ _ En).
  destruct (di_bolt ef d I n Hn) as [_ [_ [_ [rr0 [k [Hrr0 [Hk [_ Hnd0]]]]]]]].
  destruct (rec_root_sorted _ _ rr0 Hrr0 Hnd0) as [rr [Hrr _]].
  exists n, rr. split; [exact En|]. split; [exact Hrr|].
  cbn [dstep]. rewrite Hup, En, Hrr.
  assert (Hf : forallb (fun id => mem_id id (d_files d)) (named_by n) = true).
  { apply forallb_forall. intros id Hid. apply mem_id_In. exact (di_named ef d I n id Hn Hid). }
  rewrite Hf. unfold recovered, covered, named_files. rewrite En. reflexivity.
Qed.

Theorem recover_succeeds : forall evs d,
  drun dinit evs = Some d -> d_bolt d <> [] ->
  forall d1, dstep d DCrash = Some d1 ->
  exists n rr d2, newest (d_bolt d) = Some n
    /\ rec_root (d_segdocs d) (sort_segs (br_segs n)) = Some rr
    /\ dstep d1 DRecover = Some d2
    /\ root (d_core d2) = rr /\ internal (d_core d2) = br_int n /\ epoch (d_core d2) = br_epoch n
    /\ d_bolt d2 = d_bolt d.
Proof.
  intros evs d Hrun Hne d1 Hc.
  assert (I1 := DInv_crash _ d d1 (reachable_DInv evs d Hrun) Hc).
  destruct (crash_shape d d1 Hc) as [Hup [Hb [_ [_ [Hsd _]]]]].
  assert (Hne1 : d_bolt d1 <> []) by (rewrite Hb; exact Hne).
  destruct (recover_enabled _ d1 I1 Hup Hne1) as [n [rr [En [Hrr Hs]]]].
  exists n, rr, (recovered d1 n rr (covered d1)).
  rewrite <- Hb, <- Hsd. split; [exact En|]. split; [exact Hrr|]. split; [exact Hs|].
  repeat split; reflexivity.
Qed.

(* ---------- rollback (shape; the C13 theorems are in ProofsDisk6.v) ---------- *)

Lemma rollback_shape : forall d e d1, dstep d (DRollback e) = Some d1 ->
  d_up d = false /\ (exists b, In b (d_bolt d) /\ br_epoch b = e)
  /\ d_bolt d1 = filter (fun b => br_epoch b <=? e) (d_bolt d)
  /\ d_nb d1 = d_nb d /\ d_files d1 = d_files d /\ d_up d1 = false
  /\ d_acked d1 = filter (fun a => Nat.leb a (match assocZ e (d_nb d) with Some k => k | None => 0%nat end))
                          (d_acked d).
Proof.
  intros d e d1 H. cbn [dstep] in H. destruct (d_up d); [discriminate|].
  match type of H with (if ?c then _ else _) = _ => destruct c eqn:Hc end; [|discriminate].
  injection H as H. subst d1. split; [reflexivity|]. split.
  - apply existsb_exists in Hc. destruct Hc as [b [Hb He]]. exists b. split; [exact Hb|].
    apply Z.eqb_eq. exact He.
  - repeat split; reflexivity.
Qed.

Lemma rollback_covered : forall ef d e d1 k,
  DInv ef d -> dstep d (DRollback e) = Some d1 -> assocZ e (d_nb d) = Some k -> covered d1 = k.
Proof.
  intros ef d e d1 k I H Hk.
  destruct (rollback_shape d e d1 H) as [_ [[b [Hb He]] [Hbolt [Hnb _]]]].
  assert (Hb1 : In b (d_bolt d1)).
  { rewrite Hbolt. apply filter_In. split; [exact Hb|]. apply Z.leb_le. lia. }
  destruct (newest_Some (d_bolt d1)) as [n En]; [intros Hnil; rewrite Hnil in Hb1; destruct Hb1|].
  assert (Hs1 : bsorted (d_bolt d1)) by (rewrite Hbolt; apply bsorted_filter; exact (di_sorted ef d I)).
  assert (Hge := bsorted_max _ n Hs1 En b Hb1).
  assert (Hn := newest_In _ _ En). rewrite Hbolt in Hn. apply filter_In in Hn.
  destruct Hn as [_ Hle]. apply Z.leb_le in Hle.
  assert (Hen : br_epoch n = e) by lia.
  unfold covered. rewrite En, Hnb, Hen, Hk. reflexivity.
Qed.

(* the epoch of a rollback point has its number of batches recorded *)
Lemma rollback_point_nb : forall ef d e d1,
  DInv ef d -> dstep d (DRollback e) = Some d1 -> exists k, assocZ e (d_nb d) = Some k.
Proof.
  intros ef d e d1 I H. destruct (rollback_shape d e d1 H) as [_ [[b [Hb He]] _]].
  destruct (di_bolt ef d I b Hb) as [_ [_ [_ [rr [k [_ [Hk _]]]]]]]. exists k. rewrite <- He. exact Hk.
Qed.

(* ---------- acknowledged batches ---------- *)

Definition acks_le (d : dstate) : Prop := forall k, In k (d_acked d) -> (k <= covered d)%nat.

Definition is_rollback (ev : devent) : bool := match ev with DRollback _ => true | _ => false end.
Definition no_rollback (evs : list devent) : bool := forallb (fun ev => negb (is_rollback ev)) evs.

Lemma covered_same : forall d d', d_bolt d' = d_bolt d -> d_nb d' = d_nb d -> covered d' = covered d.
Proof. intros d d' Hb Hn. unfold covered. rewrite Hb, Hn. reflexivity. Qed.

Lemma acks_same : forall d d',
  acks_le d -> d_acked d' = d_acked d -> covered d' = covered d -> acks_le d'.
Proof. intros d d' H Ha Hc k Hk. rewrite Hc. apply H. rewrite <- Ha. exact Hk. Qed.

Lemma covered_Some : forall ef d n, DInv ef d -> newest (d_bolt d) = Some n ->
  assocZ (br_epoch n) (d_nb d) = Some (covered d).
Proof.
  intros ef d n I En. destruct (di_bolt ef d I n (newest_In _ _ En)) as [_ [_ [_ [rr [k [_ [Hk _]]]]]]].
  unfold covered. rewrite En, Hk. reflexivity.
Qed.

Lemma acks_step : forall ef d ev d',
  DInv ef d -> acks_le d -> dstep d ev = Some d' -> acks_le d'.
Proof.
  intros ef d ev d' I A H. destruct ev.
  - (* DCore *)
    apply (acks_same d d' A).
    + cbn [dstep] in H. destruct (negb (d_up d)); [discriminate|].
      destruct (step (d_core d) e); [|discriminate].
      match type of H with (if ?c then _ else _) = _ => destruct c end; [|discriminate].
      injection H as H. subst d'. reflexivity.
    + cbn [dstep] in H. destruct (negb (d_up d)); [discriminate|].
      destruct (step (d_core d) e) as [s'|] eqn:Hs; [|discriminate].
      match type of H with (if ?c then _ else _) = _ => destruct c end; [|discriminate].
      injection H as H. subst d'. unfold covered. cbn [d_bolt d_nb].
      destruct (newest (d_bolt d)) as [n|] eqn:En; [|reflexivity].
      destruct (swaps_root e) eqn:Hsw; [|reflexivity].
      rewrite assocZ_cons_ne; [reflexivity|].
      assert (Hep := step_epoch _ _ _ Hs). rewrite Hsw in Hep.
      assert (Hle := proj1 (di_bolt ef d I n (newest_In _ _ En))). lia.
  - need_up H Hup. injection H as H. subst d'. apply (acks_same d _ A); reflexivity.
  - need_up H Hup. destruct (d_tx d); [discriminate|].
    destruct (assocZ (br_epoch r) (d_pub d)) as [[? ?]|]; [|discriminate].
    destruct (rec_root (d_segdocs d) (br_segs r)); [|discriminate].
    match type of H with (if ?c then _ else _) = _ => destruct c end; [|discriminate].
    injection H as H. subst d'. apply (acks_same d _ A); reflexivity.
  - (* DCommit: the newest record is replaced by one that covers at least as much *)
    need_up H Hup. destruct (d_tx d) as [r|] eqn:Htx; [|discriminate].
    match type of H with (if ?c then _ else _) = _ => destruct c eqn:Hc end; [|discriminate].
    injection H as H. subst d'. apply andb_true_iff in Hc. destruct Hc as [_ Hnew].
    intros k Hk. cbn [d_acked] in Hk. specialize (A k Hk).
    destruct (di_tx ef d I r Htx) as [Her [_ [_ [rr [kr [_ [Hkr _]]]]]]].
    unfold covered at 1. cbn [d_bolt d_nb]. rewrite newest_app_one, Hkr.
    destruct (newest (d_bolt d)) as [n|] eqn:En.
    + apply Z.leb_le in Hnew. assert (Hc := covered_Some ef d n I En).
      assert (Hm := di_mono ef d I _ _ _ _ Hnew Her Hc Hkr). lia.
    + unfold covered in A. rewrite En in A. lia.
  - (* DAck *)
    need_up H Hup.
    match type of H with (if ?c then _ else _) = _ => destruct c eqn:Hc end; [|discriminate].
    injection H as H. subst d'. intros k0 Hk0. cbn [d_acked] in Hk0.
    replace (covered _) with (covered d) by reflexivity.
    destruct Hk0 as [Hk0|Hk0]; [subst k0|exact (A k0 Hk0)].
    apply existsb_exists in Hc. destruct Hc as [b [Hb Hc]].
    destruct (assocZ (br_epoch b) (d_nb d)) as [nbk|] eqn:Hnbk; [|discriminate].
    apply Nat.leb_le in Hc.
    destruct (newest_Some (d_bolt d)) as [n En]; [intros He; rewrite He in Hb; destruct Hb|].
    assert (Hcov := covered_Some ef d n I En).
    assert (Hle := bsorted_max _ n (di_sorted ef d I) En b Hb).
    assert (Hen := proj1 (di_bolt ef d I n (newest_In _ _ En))).
    assert (Hm := di_mono ef d I _ _ _ _ Hle Hen Hnbk Hcov). lia.
  - (* DPurgeBolt *)
    need_up H Hup. destruct (newest (d_bolt d)) as [n|] eqn:En; [|discriminate].
    destruct (mem_id (br_epoch n) epochs) eqn:Hm; [discriminate|].
    injection H as H. subst d'. apply (acks_same d _ A); [reflexivity|].
    unfold covered. cbn [d_bolt d_nb]. rewrite En.
    rewrite (newest_filter_keep _ _ n En); [reflexivity|]. rewrite Hm. reflexivity.
  - need_up H Hup.
    match type of H with (if ?c then _ else _) = _ => destruct c end; [discriminate|].
    injection H as H. subst d'. apply (acks_same d _ A); reflexivity.
  - need_up H Hup. injection H as H. subst d'. apply (acks_same d _ A); reflexivity.
  - need_up H Hup. injection H as H. subst d'. apply (acks_same d _ A); reflexivity.
  - need_up H Hup. injection H as H. subst d'. apply (acks_same d _ A); reflexivity.
  - destruct (crash_shape d d' H) as [_ [_ [_ [_ [_ [Ha Hc]]]]]]. exact (acks_same d d' A Ha Hc).
  - (* DRecover *)
    destruct (recover_shape d d' H) as [n [r [_ [En [_ [_ Hd]]]]]]. subst d'.
    apply (acks_same d _ A); [reflexivity|].
    unfold covered at 1. unfold recovered. cbn [d_bolt d_nb]. rewrite En, assocZ_cons_eq. reflexivity.
  - (* DRollback: acknowledgements of discarded batches are discarded with them *)
    destruct (rollback_point_nb ef d e d' I H) as [k Hk].
    destruct (rollback_shape d e d' H) as [_ [_ [_ [_ [_ [_ Ha]]]]]]. rewrite Hk in Ha.
    intros k0 Hk0. rewrite (rollback_covered ef d e d' k I H Hk). rewrite Ha in Hk0. apply filter_In in Hk0. apply Nat.leb_le. exact (proj2 Hk0).
Qed.

Lemma acks_run : forall evs ef d d',
  DInv ef d -> acks_le d -> drun d evs = Some d' -> acks_le d'.
Proof.
  induction evs as [|ev evs IH]; intros ef d d' I A Hrun; cbn [drun] in *.
  - injection Hrun as Hrun. subst d'. exact A.
  - destruct (dstep d ev) as [d1|] eqn:Hs; [|discriminate].
    exact (IH _ d1 d' (DInv_step ef d ev d1 I Hs) (acks_step ef d ev d1 I A Hs) Hrun).
Qed.

(* acked_survive: in every reachable state (up or down, so in particular right after a crash
   and right after the following recovery) every acknowledged batch is covered by the newest
   committed record.  (A rollback deliberately discards the batches after the rollback point
   together with their acknowledgements.) *)
Theorem acked_survive : forall evs d,
  drun dinit evs = Some d ->
  forall k, In k (d_acked d) -> (k <= covered d)%nat.
Proof.
  intros evs d Hrun.
  apply (acks_run evs [] dinit d DInv_init); try assumption. intros k [].
Qed.

(* ... and therefore in the recovered contents: the recovered root is the replay of a prefix
   that includes every acknowledged batch *)
Theorem acked_in_recovered_prefix : forall evs d d1 d2,
  drun dinit evs = Some d ->
  dstep d DCrash = Some d1 -> dstep d1 DRecover = Some d2 ->
  exists n, (forall k, In k (d_acked d) -> (k <= n)%nat) /\ (n <= length (eff evs))%nat
    /\ forall id, root_lookup (root (d_core d2)) id = replay (firstn n (eff evs)) id.
Proof.
  intros evs d d1 d2 Hrun Hc Hr. exists (covered d).
  split; [exact (acked_survive evs d Hrun)|].
  split; [|exact (crash_recovers_prefix evs d Hrun d1 d2 Hc Hr)].
  assert (I := reachable_DInv evs d Hrun). unfold covered.
  destruct (newest (d_bolt d)) as [n|] eqn:En; [|lia].
  destruct (di_bolt _ d I n (newest_In _ _ En)) as [He [_ [_ [rr [k [_ [Hk _]]]]]]].
  rewrite Hk. exact (di_nble _ d I _ k He Hk).
Qed.

(* ---------- garbage tolerance ---------- *)

Definition with_files (d : dstate) (fs : list Z) : dstate :=
  mkD (d_core d) (d_pub d) (d_nb d) (d_batches d) (d_segdocs d) (d_bolt d) (d_tx d) fs
      (d_copy d) (d_acked d) (d_up d).

(* recovery looks only at the committed records, at the registry entries of the segments they
   name and at the presence of the files they name *)
Lemma recover_files_irrelevant : forall d d2 fs,
  dstep d DRecover = Some d2 ->
  (forall id, (exists b, In b (d_bolt d) /\ In id (named_by b)) -> (In id fs <-> In id (d_files d))) ->
  exists d2', dstep (with_files d fs) DRecover = Some d2'
    /\ root (d_core d2') = root (d_core d2) /\ internal (d_core d2') = internal (d_core d2)
    /\ epoch (d_core d2') = epoch (d_core d2) /\ d_bolt d2' = d_bolt d2
    /\ (forall f, In f (d_files d2') <-> In f (d_files d2)).
Proof.
  intros d d2 fs H Hfs.
  destruct (recover_shape d d2 H) as [n [r [Hup [En [Hr [Hfiles Hd]]]]]]. subst d2.
  assert (Hf : forallb (fun id => mem_id id fs) (named_by n) = true).
  { apply forallb_forall. intros id Hid. apply mem_id_In. apply Hfs.
    - exists n. split; [exact (newest_In _ _ En) | exact Hid].
    - exact (Hfiles id Hid). }
  eexists. cbn [dstep with_files d_up d_bolt d_segdocs d_files]. rewrite Hup, En, Hr, Hf.
  split; [reflexivity|]. unfold recovered. cbn [d_core root internal epoch d_bolt d_files].
  repeat split; try reflexivity.
  - intros Hin. apply filter_In in Hin. destruct Hin as [Hin Hex]. apply In_named_files.
    apply existsb_exists in Hex. destruct Hex as [b [Hb Hm]]. apply mem_id_In in Hm.
    split; [|exists b; split; assumption]. apply Hfs; [exists b; split; assumption | exact Hin].
  - intros Hin. apply In_named_files in Hin. destruct Hin as [Hin [b [Hb Hm]]].
    apply filter_In. split.
    + apply Hfs; [exists b; split; assumption | exact Hin].
    + apply existsb_exists. exists b. split; [exact Hb|]. apply mem_id_In. exact Hm.
Qed.

Theorem garbage_tolerant : forall evs d d1 d2 fs,
  drun dinit evs = Some d ->
  dstep d DCrash = Some d1 -> dstep d1 DRecover = Some d2 ->
  (forall id, (exists b, In b (d_bolt d1) /\ In id (named_by b)) -> (In id fs <-> In id (d_files d1))) ->
  exists d2', dstep (with_files d1 fs) DRecover = Some d2'
    /\ root (d_core d2') = root (d_core d2)
    /\ (forall id, root_lookup (root (d_core d2')) id = replay (firstn (covered d) (eff evs)) id)
    /\ (forall f, In f (d_files d2') <-> In f (d_files d2)).
Proof.
  intros evs d d1 d2 fs Hrun Hc Hr Hfs.
  destruct (recover_files_irrelevant d1 d2 fs Hr Hfs) as [d2' [Hs [Hroot [_ [_ [_ Hf]]]]]].
  exists d2'. split; [exact Hs|]. split; [exact Hroot|]. split; [|exact Hf].
  intros id. rewrite Hroot. exact (crash_recovers_prefix evs d Hrun d1 d2 Hc Hr id).
Qed.
