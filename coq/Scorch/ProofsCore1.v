(* Scorch engine — proofs, part 1: list library for the segment model
   (assoc_first / is_del / live_from / union_nat / docnums_of), the flattened view
   [root_live] of a root, and the effect of introduceSegment / introducePersist on it.

   Key idea used throughout ProofsCore*: a root is abstracted by
     root_live r = the list of live (doc id, version) pairs, segment by segment,
   so that  root_lookup r d      = assoc_first d (root_live r)
            root_live_copies r d = number of entries with key d
            root_live_count r    = length (root_live r)
   and every introducer step is described as an operation on that list
   (introduce: filter + append; merge: a permutation; persist: identity). *)
From Coq Require Import ZArith List Bool Arith Lia Permutation.
From Verif Require Import Scorch.Model.
Import ListNotations.
Local Open Scope Z_scope.

(* ---------- membership tests ---------- *)

Lemma mem_id_In : forall d ids, mem_id d ids = true <-> In d ids.
Proof.
  intros d ids. unfold mem_id. rewrite existsb_exists. split.
  - intros [x [Hin Heq]]. apply Z.eqb_eq in Heq. subst x. exact Hin.
  - intros Hin. exists d. split; [exact Hin | apply Z.eqb_refl].
Qed.

Lemma mem_id_false : forall d ids, mem_id d ids = false <-> ~ In d ids.
Proof.
  intros d ids. rewrite <- mem_id_In. destruct (mem_id d ids); split; congruence.
Qed.

Lemma is_del_In : forall dl i, is_del dl i = true <-> In i dl.
Proof.
  intros dl i. unfold is_del. rewrite existsb_exists. split.
  - intros [x [Hin Heq]]. apply Nat.eqb_eq in Heq. subst x. exact Hin.
  - intros Hin. exists i. split; [exact Hin | apply Nat.eqb_refl].
Qed.

Lemma is_del_false : forall dl i, is_del dl i = false <-> ~ In i dl.
Proof.
  intros dl i. rewrite <- is_del_In. destruct (is_del dl i); split; congruence.
Qed.

Lemma is_del_cons : forall x dl i, is_del (x :: dl) i = Nat.eqb i x || is_del dl i.
Proof. reflexivity. Qed.

Lemma is_del_app : forall a b i, is_del (a ++ b) i = is_del a i || is_del b i.
Proof. intros. unfold is_del. apply existsb_app. Qed.

Lemma nodupZ_NoDup : forall l, nodupZ l = true <-> NoDup l.
Proof.
  induction l as [|x l IH]; cbn [nodupZ].
  - split; [constructor | reflexivity].
  - rewrite andb_true_iff, negb_true_iff, mem_id_false, IH. split.
    + intros [Hn Hd]. constructor; assumption.
    + intros Hnd. inversion Hnd; subst. split; assumption.
Qed.

(* ---------- assoc_first ---------- *)

Lemma assoc_first_app : forall {A} d (l1 l2 : list (Z * A)),
  assoc_first d (l1 ++ l2) =
  match assoc_first d l1 with Some v => Some v | None => assoc_first d l2 end.
Proof.
  intros A d l1 l2. induction l1 as [|[k v] l1 IH]; cbn [assoc_first app].
  - reflexivity.
  - destruct (k =? d); [reflexivity | exact IH].
Qed.

Lemma assoc_first_None : forall {A} d (l : list (Z * A)),
  assoc_first d l = None <-> ~ In d (map fst l).
Proof.
  intros A d l. induction l as [|[k v] l IH]; cbn [assoc_first map fst In].
  - split; [intros _ H; exact H | reflexivity].
  - destruct (Z.eqb_spec k d) as [He|Hne].
    + split; [discriminate | intros Hn; exfalso; apply Hn; left; exact He].
    + rewrite IH. split.
      * intros Hn [He|Hin]; [exact (Hne He) | exact (Hn Hin)].
      * intros Hn Hin. apply Hn. right. exact Hin.
Qed.

Lemma assoc_first_Some_In : forall {A} d (v : A) (l : list (Z * A)),
  assoc_first d l = Some v -> In (d, v) l.
Proof.
  intros A d v l. induction l as [|[k w] l IH]; cbn [assoc_first In].
  - discriminate.
  - destruct (Z.eqb_spec k d) as [He|Hne].
    + intros H. injection H as H. subst. left. reflexivity.
    + intros H. right. exact (IH H).
Qed.

Lemma assoc_first_In_nodup : forall {A} d (v : A) (l : list (Z * A)),
  NoDup (map fst l) -> In (d, v) l -> assoc_first d l = Some v.
Proof.
  intros A d v l. induction l as [|[k w] l IH]; cbn [assoc_first In map fst].
  - intros _ [].
  - intros Hnd Hin. inversion Hnd as [|x xs Hnotin Hnd']; subst.
    destruct Hin as [He|Hin].
    + injection He as He1 He2. subst. rewrite Z.eqb_refl. reflexivity.
    + destruct (Z.eqb_spec k d) as [He|Hne].
      * subst k. exfalso. apply Hnotin. apply (in_map fst) in Hin. exact Hin.
      * exact (IH Hnd' Hin).
Qed.

Lemma assoc_first_perm : forall {A} d (l l' : list (Z * A)),
  Permutation l l' -> NoDup (map fst l) -> assoc_first d l = assoc_first d l'.
Proof.
  intros A d l l' Hp Hnd.
  assert (Hnd' : NoDup (map fst l')).
  { eapply Permutation_NoDup; [apply Permutation_map; exact Hp | exact Hnd]. }
  destruct (assoc_first d l) as [v|] eqn:E.
  - symmetry. apply assoc_first_In_nodup; [exact Hnd'|].
    eapply Permutation_in; [exact Hp|]. apply assoc_first_Some_In. exact E.
  - symmetry. apply assoc_first_None. intros Hin.
    apply assoc_first_None in E. apply E.
    eapply Permutation_in; [apply Permutation_map; apply Permutation_sym; exact Hp | exact Hin].
Qed.

Lemma filter_key_nil : forall {A} d (l : list (Z * A)),
  ~ In d (map fst l) -> filter (fun p => fst p =? d) l = [].
Proof.
  intros A d l. induction l as [|[k v] l IH]; cbn [filter map fst In].
  - reflexivity.
  - intros Hn. destruct (Z.eqb_spec k d) as [He|Hne].
    + exfalso. apply Hn. left. exact He.
    + apply IH. intros Hin. apply Hn. right. exact Hin.
Qed.

Lemma nodup_keys_count : forall {A} d (l : list (Z * A)),
  NoDup (map fst l) -> (length (filter (fun p => (fst p =? d)%Z) l) <= 1)%nat.
Proof.
  intros A d l. induction l as [|[k v] l IH]; cbn [filter map fst length].
  - intros _. lia.
  - intros Hnd. inversion Hnd as [|x xs Hnotin Hnd']; subst.
    destruct (Z.eqb_spec k d) as [He|Hne].
    + subst k. rewrite (filter_key_nil d l Hnotin). cbn [length]. lia.
    + exact (IH Hnd').
Qed.

(* ---------- generic list facts ---------- *)

Lemma filter_map_comm : forall {A B} (g : B -> bool) (f : A -> B) (l : list A),
  filter g (map f l) = map f (filter (fun x => g (f x)) l).
Proof.
  intros A B g f l. induction l as [|x l IH]; cbn [filter map].
  - reflexivity.
  - destruct (g (f x)); cbn [map]; rewrite IH; reflexivity.
Qed.

Lemma filter_flat_map : forall {A B} (g : B -> bool) (f : A -> list B) (l : list A),
  filter g (flat_map f l) = flat_map (fun x => filter g (f x)) l.
Proof.
  intros A B g f l. induction l as [|x l IH]; cbn [flat_map filter].
  - reflexivity.
  - rewrite filter_app, IH. reflexivity.
Qed.

Lemma NoDup_app_intro : forall {A} (a b : list A),
  NoDup a -> NoDup b -> (forall x, In x a -> In x b -> False) -> NoDup (a ++ b).
Proof.
  intros A a b Ha Hb Hd. induction a as [|x a IH]; cbn [app].
  - exact Hb.
  - inversion Ha as [|y ys Hn Ha']; subst. constructor.
    + intros Hin. apply in_app_or in Hin. destruct Hin as [Hin|Hin].
      * exact (Hn Hin).
      * apply (Hd x); [left; reflexivity | exact Hin].
    + apply IH; [exact Ha'|]. intros y Hy Hy'. apply (Hd y); [right; exact Hy | exact Hy'].
Qed.

Lemma NoDup_app_l : forall {A} (a b : list A), NoDup (a ++ b) -> NoDup a.
Proof.
  intros A a b. induction a as [|x a IH]; cbn [app]; intros H.
  - constructor.
  - inversion H as [|y ys Hn H']; subst. constructor.
    + intros Hin. apply Hn. apply in_or_app. left. exact Hin.
    + exact (IH H').
Qed.

Lemma NoDup_app_r : forall {A} (a b : list A), NoDup (a ++ b) -> NoDup b.
Proof.
  intros A a b. induction a as [|x a IH]; cbn [app]; intros H.
  - exact H.
  - inversion H; subst. apply IH. assumption.
Qed.

Lemma NoDup_app_disj : forall {A} (a b : list A) x,
  NoDup (a ++ b) -> In x a -> In x b -> False.
Proof.
  intros A a b x. induction a as [|y a IH]; cbn [app]; intros H Ha Hb.
  - exact Ha.
  - inversion H as [|z zs Hn H']; subst. destruct Ha as [He|Ha].
    + subst y. apply Hn. apply in_or_app. right. exact Hb.
    + exact (IH H' Ha Hb).
Qed.

Lemma NoDup_filter : forall {A} (f : A -> bool) (l : list A), NoDup l -> NoDup (filter f l).
Proof.
  intros A f l H. induction H as [|x l Hn H IH]; cbn [filter].
  - constructor.
  - destruct (f x); [|exact IH]. constructor; [|exact IH].
    intros Hin. apply filter_In in Hin. exact (Hn (proj1 Hin)).
Qed.

Lemma NoDup_map_filter : forall {A B} (g : A -> B) (f : A -> bool) (l : list A),
  NoDup (map g l) -> NoDup (map g (filter f l)).
Proof.
  intros A B g f l. induction l as [|x l IH]; cbn [filter map]; intros H.
  - constructor.
  - inversion H as [|y ys Hn H']; subst. destruct (f x); cbn [map].
    + constructor; [|exact (IH H')]. intros Hin. apply Hn.
      apply in_map_iff in Hin. destruct Hin as [z [Hz Hin]]. apply filter_In in Hin.
      rewrite <- Hz. apply in_map. exact (proj1 Hin).
    + exact (IH H').
Qed.

(* ---------- live_from ---------- *)

Lemma live_from_ext : forall docs i dl dl',
  (forall j, is_del dl j = is_del dl' j) -> live_from i docs dl = live_from i docs dl'.
Proof.
  induction docs as [|d ds IH]; intros i dl dl' H; cbn [live_from].
  - reflexivity.
  - rewrite (H i), (IH (S i) dl dl' H). reflexivity.
Qed.

Lemma live_from_app : forall a b i dl,
  live_from i (a ++ b) dl = live_from i a dl ++ live_from (i + length a) b dl.
Proof.
  induction a as [|d a IH]; intros b i dl; cbn [live_from app length].
  - rewrite Nat.add_0_r. reflexivity.
  - rewrite IH. replace (S i + length a)%nat with (i + S (length a))%nat by lia.
    destruct (is_del dl i); reflexivity.
Qed.

Lemma live_from_nil_del : forall docs i, map snd (live_from i docs []) = docs.
Proof.
  induction docs as [|d ds IH]; intros i; cbn [live_from map snd is_del existsb].
  - reflexivity.
  - rewrite IH. reflexivity.
Qed.

Lemma live_from_In : forall docs i dl j dv,
  In (j, dv) (live_from i docs dl) ->
  (i <= j)%nat /\ nth_error docs (j - i) = Some dv /\ is_del dl j = false.
Proof.
  induction docs as [|d ds IH]; intros i dl j dv; cbn [live_from].
  - intros [].
  - destruct (is_del dl i) eqn:E.
    + intros Hin. apply IH in Hin. destruct Hin as [Hle [Hn Hd]].
      split; [lia|]. split; [|exact Hd].
      replace (j - i)%nat with (S (j - S i))%nat by lia. exact Hn.
    + intros [He|Hin].
      * injection He as He1 He2. subst. split; [lia|]. rewrite Nat.sub_diag.
        split; [reflexivity | exact E].
      * apply IH in Hin. destruct Hin as [Hle [Hn Hd]].
        split; [lia|]. split; [|exact Hd].
        replace (j - i)%nat with (S (j - S i))%nat by lia. exact Hn.
Qed.

Lemma live_from_fst_NoDup : forall docs i dl, NoDup (map fst (live_from i docs dl)).
Proof.
  induction docs as [|d ds IH]; intros i dl; cbn [live_from].
  - constructor.
  - destruct (is_del dl i); [apply IH|]. cbn [map fst]. constructor; [|apply IH].
    intros Hin. apply in_map_iff in Hin. destruct Hin as [[j dv] [Hj Hin]].
    cbn [fst] in Hj. subst j. apply live_from_In in Hin. lia.
Qed.

(* deleted set grown by a per-document criterion = filter of the previous live list *)
Lemma live_from_filter_gen : forall docs i dl dl' (f : nat -> Z * Z -> bool),
  (forall k dv, nth_error docs k = Some dv ->
                is_del dl' (i + k) = is_del dl (i + k) || f (i + k)%nat dv) ->
  live_from i docs dl' = filter (fun p => negb (f (fst p) (snd p))) (live_from i docs dl).
Proof.
  induction docs as [|d ds IH]; intros i dl dl' f H; cbn [live_from].
  - reflexivity.
  - assert (H0 := H 0%nat d eq_refl). rewrite Nat.add_0_r in H0.
    assert (IH' : live_from (S i) ds dl' =
                  filter (fun p => negb (f (fst p) (snd p))) (live_from (S i) ds dl)).
    { apply IH. intros k dv Hk. replace (S i + k)%nat with (i + S k)%nat by lia.
      apply H. exact Hk. }
    rewrite H0. destruct (is_del dl i); cbn [orb filter fst snd].
    + exact IH'.
    + destruct (f i d); cbn [negb]; rewrite IH'; reflexivity.
Qed.

(* monotone growth of the deleted set *)
Lemma live_from_grow : forall docs i dl dl',
  (forall j, is_del dl j = true -> is_del dl' j = true) ->
  live_from i docs dl' = filter (fun p => negb (is_del dl' (fst p))) (live_from i docs dl).
Proof.
  intros docs i dl dl' H.
  apply (live_from_filter_gen docs i dl dl' (fun j _ => is_del dl' j)).
  intros k dv _. specialize (H (i + k)%nat).
  destruct (is_del dl (i + k)) eqn:E1; destruct (is_del dl' (i + k)) eqn:E2; try reflexivity.
  specialize (H eq_refl). discriminate.
Qed.

(* a list of (docnum, doc) re-numbered from [off]: which survive a deleted set [D] that
   is described position-wise by a criterion [f] on the old doc numbers *)
Lemma live_from_positions : forall (L : list (nat * (Z * Z))) off D (f : nat -> bool),
  (forall k i dv, nth_error L k = Some (i, dv) -> is_del D (off + k) = f i) ->
  map snd (live_from off (map snd L) D) = map snd (filter (fun p => negb (f (fst p))) L).
Proof.
  induction L as [|[i dv] L IH]; intros off D f H; cbn [map live_from filter snd fst].
  - reflexivity.
  - assert (H0 := H 0%nat i dv eq_refl). rewrite Nat.add_0_r in H0.
    assert (IH' : map snd (live_from (S off) (map snd L) D) =
                  map snd (filter (fun p => negb (f (fst p))) L)).
    { apply IH. intros k i' dv' Hk. replace (S off + k)%nat with (off + S k)%nat by lia.
      apply (H (S k) i' dv'). exact Hk. }
    rewrite H0. destruct (f i); cbn [negb map snd]; rewrite IH'; reflexivity.
Qed.

(* ---------- union_nat, docnums_of ---------- *)

Lemma is_del_union : forall b a i, is_del (union_nat a b) i = is_del a i || is_del b i.
Proof.
  induction b as [|x b IH]; intros a i; cbn [union_nat].
  - cbn [is_del existsb]. rewrite orb_false_r. reflexivity.
  - rewrite is_del_cons. destruct (is_del a x) eqn:E.
    + rewrite IH. destruct (Nat.eqb_spec i x) as [He|Hne].
      * subst i. rewrite E. reflexivity.
      * reflexivity.
    + rewrite IH, is_del_app, is_del_cons. cbn [is_del existsb].
      rewrite orb_false_r, orb_assoc. reflexivity.
Qed.

Lemma is_del_docnums_lt : forall docs j ids k,
  (k < j)%nat -> is_del (docnums_of j docs ids) k = false.
Proof.
  induction docs as [|d ds IH]; intros j ids k Hlt; cbn [docnums_of].
  - reflexivity.
  - destruct (mem_id (fst d) ids).
    + rewrite is_del_cons. destruct (Nat.eqb_spec k j) as [He|Hne]; [lia|].
      apply IH. lia.
    + apply IH. lia.
Qed.

Lemma is_del_docnums : forall docs j ids k dv,
  nth_error docs k = Some dv ->
  is_del (docnums_of j docs ids) (j + k) = mem_id (fst dv) ids.
Proof.
  induction docs as [|d ds IH]; intros j ids k dv Hk.
  - destruct k; discriminate.
  - destruct k as [|k]; cbn [nth_error] in Hk; cbn [docnums_of].
    + injection Hk as Hk. subst d. rewrite Nat.add_0_r.
      destruct (mem_id (fst dv) ids).
      * rewrite is_del_cons, Nat.eqb_refl. reflexivity.
      * apply is_del_docnums_lt. lia.
    + replace (j + S k)%nat with (S j + k)%nat by lia.
      destruct (mem_id (fst d) ids).
      * rewrite is_del_cons. destruct (Nat.eqb_spec (S j + k) j) as [He|Hne]; [lia|].
        apply IH. exact Hk.
      * apply IH. exact Hk.
Qed.

(* ---------- the flattened view of a root ---------- *)

Definition seg_live (s : seg) : list (Z * Z) := map snd (live_docs s).
Definition root_live (r : list seg) : list (Z * Z) := flat_map seg_live r.

Lemma root_live_app : forall r1 r2, root_live (r1 ++ r2) = root_live r1 ++ root_live r2.
Proof. intros. unfold root_live. apply flat_map_app. Qed.

Lemma root_lookup_live : forall r d, root_lookup r d = assoc_first d (root_live r).
Proof.
  induction r as [|s r IH]; intros d; cbn [root_lookup root_live flat_map].
  - reflexivity.
  - rewrite assoc_first_app. fold (root_live r). rewrite <- IH.
    unfold seg_lookup, seg_live. reflexivity.
Qed.

Lemma root_live_copies_live : forall r d,
  root_live_copies r d = length (filter (fun p => fst p =? d) (root_live r)).
Proof.
  induction r as [|s r IH]; intros d; cbn [root_live_copies root_live flat_map fold_right].
  - reflexivity.
  - fold (root_live_copies r d). fold (root_live r).
    rewrite filter_app, app_length, <- IH. f_equal.
    unfold seg_live_copies, seg_live. rewrite filter_map_comm, map_length. reflexivity.
Qed.

Lemma root_live_count_live : forall r, root_live_count r = length (root_live r).
Proof.
  induction r as [|s r IH]; cbn [root_live_count root_live flat_map fold_right].
  - reflexivity.
  - fold (root_live_count r). fold (root_live r). rewrite app_length, <- IH.
    unfold live_count, seg_live. rewrite map_length. reflexivity.
Qed.

Lemma has_live_false_live : forall s, has_live s = false -> seg_live s = [].
Proof.
  intros s H. unfold has_live in H. apply negb_false_iff in H. apply Nat.eqb_eq in H.
  unfold live_count in H. unfold seg_live. destruct (live_docs s); [reflexivity | discriminate].
Qed.

Lemma root_live_filter_has_live : forall r, root_live (filter has_live r) = root_live r.
Proof.
  induction r as [|s r IH]; cbn [filter root_live flat_map].
  - reflexivity.
  - fold (root_live r). destruct (has_live s) eqn:E; cbn [root_live flat_map].
    + fold (root_live (filter has_live r)). rewrite IH. reflexivity.
    + rewrite (has_live_false_live s E). exact IH.
Qed.

(* filtering by any predicate that keeps every segment with live docs *)
Lemma root_live_filter_and_has_live : forall (P : seg -> bool) r,
  root_live (filter (fun s => P s && has_live s) r) = root_live (filter P r).
Proof.
  intros P. induction r as [|s r IH]; cbn [filter].
  - reflexivity.
  - destruct (P s); cbn [andb]; [|exact IH].
    destruct (has_live s) eqn:E; cbn [root_live flat_map].
    + fold (root_live (filter (fun s => P s && has_live s) r)). fold (root_live (filter P r)).
      rewrite IH. reflexivity.
    + fold (root_live (filter P r)). rewrite (has_live_false_live s E). exact IH.
Qed.

(* ---------- introduceSegment ---------- *)

Lemma seg_live_obsolete : forall ids s,
  seg_live (obsolete ids s) = filter (fun p => negb (mem_id (fst p) ids)) (seg_live s).
Proof.
  intros ids s. unfold seg_live, live_docs, obsolete. cbn [sdocs sdel].
  rewrite (live_from_filter_gen (sdocs s) 0 (sdel s)
             (union_nat (sdel s) (docnums_of 0 (sdocs s) ids))
             (fun _ dv => mem_id (fst dv) ids)).
  - rewrite filter_map_comm. reflexivity.
  - intros k dv Hk. rewrite is_del_union. f_equal.
    exact (is_del_docnums (sdocs s) 0 ids k dv Hk).
Qed.

Lemma root_live_map_obsolete : forall ids r,
  root_live (map (obsolete ids) r) = filter (fun p => negb (mem_id (fst p) ids)) (root_live r).
Proof.
  intros ids. induction r as [|s r IH]; cbn [map root_live flat_map].
  - reflexivity.
  - fold (root_live (map (obsolete ids) r)). fold (root_live r).
    rewrite filter_app, IH, seg_live_obsolete. reflexivity.
Qed.

Lemma root_live_introduce : forall newsid b r,
  root_live (introduce_root newsid b r) =
  filter (fun p => negb (mem_id (fst p) (map fst b))) (root_live r) ++ batch_updates b.
Proof.
  intros newsid b r. unfold introduce_root.
  assert (H : root_live (filter has_live (map (obsolete (map fst b)) r)) =
              filter (fun p => negb (mem_id (fst p) (map fst b))) (root_live r)).
  { rewrite root_live_filter_has_live. apply root_live_map_obsolete. }
  destruct (batch_updates b) as [|u upd] eqn:E.
  - rewrite app_nil_r. exact H.
  - rewrite root_live_app, H. f_equal.
    cbn [root_live flat_map]. rewrite app_nil_r. unfold seg_live, live_docs. cbn [sdocs sdel].
    apply live_from_nil_del.
Qed.

(* the updates of a batch with distinct ids *)
Lemma batch_updates_keys_incl : forall (b : batch) d,
  In d (map fst (batch_updates b)) -> In d (map fst b).
Proof.
  induction b as [|[k ov] b IH]; intros d; cbn [batch_updates flat_map map fst snd].
  - intros [].
  - fold (batch_updates b). destruct ov as [v|]; cbn [app map fst In].
    + intros [He|Hin]; [left; exact He | right; exact (IH d Hin)].
    + intros Hin. right. exact (IH d Hin).
Qed.

Lemma batch_updates_keys_NoDup : forall (b : batch),
  NoDup (map fst b) -> NoDup (map fst (batch_updates b)).
Proof.
  induction b as [|[k ov] b IH]; cbn [batch_updates flat_map map fst snd]; intros H.
  - constructor.
  - fold (batch_updates b). inversion H as [|x xs Hn H']; subst.
    destruct ov as [v|]; cbn [app map fst].
    + constructor; [|exact (IH H')]. intros Hin. apply Hn. apply batch_updates_keys_incl. exact Hin.
    + exact (IH H').
Qed.

Lemma assoc_first_batch_updates : forall (b : batch) d,
  NoDup (map fst b) ->
  assoc_first d (batch_updates b) =
  match assoc_first d b with Some (Some v) => Some v | _ => None end.
Proof.
  induction b as [|[k ov] b IH]; intros d H; cbn [batch_updates flat_map assoc_first fst snd].
  - reflexivity.
  - fold (batch_updates b). inversion H as [|x xs Hn H']; subst.
    destruct ov as [v|]; cbn [app assoc_first].
    + destruct (k =? d); [reflexivity | exact (IH d H')].
    + destruct (Z.eqb_spec k d) as [He|Hne]; [|exact (IH d H')].
      subst k. apply assoc_first_None. intros Hin. apply Hn.
      apply batch_updates_keys_incl. exact Hin.
Qed.

Lemma assoc_first_filter_notin : forall (l : list (Z * Z)) ids d,
  assoc_first d (filter (fun p => negb (mem_id (fst p) ids)) l) =
  if mem_id d ids then None else assoc_first d l.
Proof.
  induction l as [|[k v] l IH]; intros ids d; cbn [filter assoc_first fst].
  - destruct (mem_id d ids); reflexivity.
  - destruct (mem_id k ids) eqn:Ek; cbn [negb assoc_first].
    + rewrite IH. destruct (Z.eqb_spec k d) as [He|Hne]; [|reflexivity].
      subst k. rewrite Ek. reflexivity.
    + rewrite IH. destruct (Z.eqb_spec k d) as [He|Hne]; [|reflexivity].
      subst k. rewrite Ek. reflexivity.
Qed.

Lemma assoc_first_mem_keys : forall {A} d (b : list (Z * A)),
  mem_id d (map fst b) = match assoc_first d b with Some _ => true | None => false end.
Proof.
  intros A d b. destruct (assoc_first d b) as [ov|] eqn:E.
  - apply mem_id_In. destruct (in_dec Z.eq_dec d (map fst b)) as [Hin|Hn]; [exact Hin|].
    apply assoc_first_None in Hn. congruence.
  - apply mem_id_false. apply assoc_first_None. exact E.
Qed.

(* contents after introducing a batch = the batch applied to the contents before *)
Lemma introduce_lookup : forall newsid (b : batch) r d,
  NoDup (map fst b) ->
  root_lookup (introduce_root newsid b r) d = spec_apply_batch b (root_lookup r) d.
Proof.
  intros newsid b r d Hnd. unfold spec_apply_batch.
  rewrite !root_lookup_live, root_live_introduce, assoc_first_app.
  rewrite assoc_first_filter_notin, assoc_first_batch_updates by exact Hnd.
  rewrite (assoc_first_mem_keys d b).
  destruct (assoc_first d b) as [[v|]|]; try reflexivity.
  destruct (assoc_first d (root_live r)); reflexivity.
Qed.

Lemma introduce_keys_NoDup : forall newsid (b : batch) r,
  NoDup (map fst b) -> NoDup (map fst (root_live r)) ->
  NoDup (map fst (root_live (introduce_root newsid b r))).
Proof.
  intros newsid b r Hb Hr. rewrite root_live_introduce, map_app.
  apply NoDup_app_intro.
  - apply NoDup_map_filter. exact Hr.
  - apply batch_updates_keys_NoDup. exact Hb.
  - intros x Hx Hx'. apply batch_updates_keys_incl in Hx'.
    apply in_map_iff in Hx. destruct Hx as [p [Hp Hin]]. apply filter_In in Hin.
    destruct Hin as [_ Hf]. apply negb_true_iff in Hf. apply mem_id_false in Hf.
    apply Hf. rewrite Hp. exact Hx'.
Qed.

(* ---------- introducePersist ---------- *)

Lemma root_live_persist : forall ids r, root_live (introduce_persist_root ids r) = root_live r.
Proof.
  intros ids. induction r as [|s r IH]; cbn [introduce_persist_root map root_live flat_map].
  - reflexivity.
  - fold (introduce_persist_root ids r). fold (root_live (introduce_persist_root ids r)).
    fold (root_live r). rewrite IH. f_equal. destruct (mem_id (sid s) ids); reflexivity.
Qed.

(* ---------- the internal key/value store ---------- *)

Lemma int_set_keys : forall k v m x, In x (map fst (int_set k v m)) <-> x = k \/ In x (map fst m).
Proof.
  intros k v. induction m as [|[k' v'] m IH]; intros x; cbn [int_set map fst In].
  - split; [intros [H|[]]; left; symmetry; exact H | intros [H|[]]; left; symmetry; exact H].
  - destruct (Z.eqb_spec k' k) as [He|Hne]; cbn [map fst In].
    + subst k'. split; [intros [H|H]; [left; symmetry; exact H | right; right; exact H]
                       | intros [H|[H|H]]; [left; symmetry; exact H | left; exact H | right; exact H]].
    + rewrite IH. split.
      * intros [H|[H|H]]; [right; left; exact H | left; exact H | right; right; exact H].
      * intros [H|[H|H]]; [right; left; exact H | left; exact H | right; right; exact H].
Qed.

Lemma int_set_NoDup : forall k v m, NoDup (map fst m) -> NoDup (map fst (int_set k v m)).
Proof.
  intros k v. induction m as [|[k' v'] m IH]; cbn [int_set map fst]; intros H.
  - constructor; [intros [] | constructor].
  - inversion H as [|x xs Hn H']; subst.
    destruct (Z.eqb_spec k' k) as [He|Hne]; cbn [map fst].
    + subst k'. constructor; assumption.
    + constructor; [|exact (IH H')]. intros Hin. apply int_set_keys in Hin.
      destruct Hin as [He|Hin]; [exact (Hne He) | exact (Hn Hin)].
Qed.

Lemma int_del_keys : forall k m x, In x (map fst (int_del k m)) -> In x (map fst m).
Proof.
  intros k. induction m as [|[k' v'] m IH]; intros x; cbn [int_del map fst In].
  - intros [].
  - destruct (k' =? k); cbn [map fst In].
    + intros H. right. exact H.
    + intros [H|H]; [left; exact H | right; exact (IH x H)].
Qed.

Lemma int_del_NoDup : forall k m, NoDup (map fst m) -> NoDup (map fst (int_del k m)).
Proof.
  intros k. induction m as [|[k' v'] m IH]; cbn [int_del map fst]; intros H.
  - constructor.
  - inversion H as [|x xs Hn H']; subst. destruct (k' =? k); cbn [map fst].
    + exact H'.
    + constructor; [|exact (IH H')]. intros Hin. apply Hn. exact (int_del_keys k m k' Hin).
Qed.

Lemma assoc_first_int_set : forall k v m x,
  assoc_first x (int_set k v m) = if k =? x then Some v else assoc_first x m.
Proof.
  intros k v. induction m as [|[k' v'] m IH]; intros x; cbn [int_set assoc_first].
  - reflexivity.
  - destruct (Z.eqb_spec k' k) as [He|Hne]; cbn [assoc_first].
    + subst k'. destruct (k =? x); reflexivity.
    + rewrite IH. destruct (Z.eqb_spec k' x) as [He'|Hne'].
      * subst k'. destruct (Z.eqb_spec k x) as [He''|_]; [congruence | reflexivity].
      * reflexivity.
Qed.

Lemma assoc_first_int_del : forall k m x,
  NoDup (map fst m) ->
  assoc_first x (int_del k m) = if k =? x then None else assoc_first x m.
Proof.
  intros k. induction m as [|[k' v'] m IH]; intros x H; cbn [int_del assoc_first].
  - destruct (k =? x); reflexivity.
  - inversion H as [|y ys Hn H']; subst.
    destruct (Z.eqb_spec k' k) as [He|Hne]; cbn [assoc_first].
    + subst k'. destruct (Z.eqb_spec k x) as [He'|Hne'].
      * subst x. apply assoc_first_None. exact Hn.
      * reflexivity.
    + rewrite (IH x H'). destruct (Z.eqb_spec k' x) as [He'|Hne'].
      * subst k'. destruct (Z.eqb_spec k x) as [He''|_]; [congruence | reflexivity].
      * reflexivity.
Qed.

Lemma int_apply_spec : forall iops m,
  NoDup (map fst m) ->
  NoDup (map fst (int_apply iops m)) /\
  forall x, assoc_first x (int_apply iops m) = spec_apply_ops iops (fun y => assoc_first y m) x.
Proof.
  unfold int_apply, spec_apply_ops.
  induction iops as [|[k ov] iops IH]; intros m H; cbn [fold_left fst snd].
  - split; [exact H | reflexivity].
  - destruct ov as [v|].
    + destruct (IH (int_set k v m) (int_set_NoDup k v m H)) as [IH1 IH2].
      split; [exact IH1|]. intros x. rewrite IH2. clear IH IH1 IH2.
      assert (G : forall (f g : Z -> option Z), (forall y, f y = g y) ->
                  forall x, fold_left (fun acc p => fun d => if fst p =? d then snd p else acc d) iops f x =
                            fold_left (fun acc p => fun d => if fst p =? d then snd p else acc d) iops g x).
      { clear. induction iops as [|p iops IH]; intros f g Hfg x; cbn [fold_left].
        - apply Hfg.
        - apply IH. intros y. rewrite Hfg. reflexivity. }
      apply G. intros y. apply assoc_first_int_set.
    + destruct (IH (int_del k m) (int_del_NoDup k m H)) as [IH1 IH2].
      split; [exact IH1|]. intros x. rewrite IH2. clear IH IH1 IH2.
      assert (G : forall (f g : Z -> option Z), (forall y, f y = g y) ->
                  forall x, fold_left (fun acc p => fun d => if fst p =? d then snd p else acc d) iops f x =
                            fold_left (fun acc p => fun d => if fst p =? d then snd p else acc d) iops g x).
      { clear. induction iops as [|p iops IH]; intros f g Hfg x; cbn [fold_left].
        - apply Hfg.
        - apply IH. intros y. rewrite Hfg. reflexivity. }
      apply G. intros y. apply assoc_first_int_del. exact H.
Qed.
