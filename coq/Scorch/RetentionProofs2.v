(* Scorch retention arithmetic — checkpoints order, monotonicity of the sampling, refuted
   statements and examples (C13).  Continues Scorch/RetentionProofs.v. *)
From Coq Require Import ZArith List Bool Lia ZifyBool Permutation Sorted.
From Verif Require Import Scorch.Retention Scorch.RetentionProofs.
Import ListNotations.
Local Open Scope Z_scope.

(* ------------------------------------------------------------------ newCheckPoints *)
Lemma insert_desc_perm : forall x l, Permutation (insert_desc x l) (x :: l).
Proof.
  intros x l. induction l as [|y l IH]; cbn [insert_desc]; [apply Permutation_refl|].
  destruct (s_ts y <=? s_ts x); [apply Permutation_refl|].
  eapply Permutation_trans; [apply perm_skip; exact IH|apply perm_swap].
Qed.

Lemma new_checkpoints_perm : forall p, Permutation (new_checkpoints p) p.
Proof.
  intros p. unfold new_checkpoints. induction p as [|x p IH]; cbn [fold_right]; [constructor|].
  eapply Permutation_trans; [apply insert_desc_perm|apply perm_skip; exact IH].
Qed.

Lemma insert_desc_sorted : forall x l,
  StronglySorted ts_desc l -> StronglySorted ts_desc (insert_desc x l).
Proof.
  intros x l H. induction H as [|y l Hs IH Hall]; cbn [insert_desc].
  - constructor; constructor.
  - destruct (s_ts y <=? s_ts x) eqn:E.
    + constructor; [constructor; assumption|].
      constructor; [unfold ts_desc; lia|].
      rewrite Forall_forall in *. intros z Hz. specialize (Hall z Hz). unfold ts_desc in *. lia.
    + constructor; [exact IH|].
      rewrite Forall_forall in *. intros z Hz.
      apply (Permutation_in _ (insert_desc_perm x l)) in Hz. destruct Hz as [<-|Hz].
      * unfold ts_desc. lia.
      * apply Hall. exact Hz.
Qed.

(* newest time stamp first *)
Lemma new_checkpoints_sorted : forall p, StronglySorted ts_desc (new_checkpoints p).
Proof.
  intros p. unfold new_checkpoints. induction p as [|x p IH]; cbn [fold_right]; [constructor|].
  apply insert_desc_sorted. exact IH.
Qed.

(* getBoundaryCheckPoint reads only the sequence of time stamps of s.checkPoints *)
Lemma boundary_only_timestamps : forall fbits c1 c2 ts,
  map s_ts c1 = map s_ts c2 -> get_boundary fbits c1 ts = get_boundary fbits c2 ts.
Proof.
  intros fbits c1 c2 ts H. unfold get_boundary.
  assert (Hlen : length c1 = length c2) by (rewrite <- (map_length s_ts c1), H; apply map_length).
  rewrite Hlen. destruct (_ =? 0); [reflexivity|].
  unfold nth_snap.
  assert (Hn : forall i, s_ts (nth i c1 default_snap) = s_ts (nth i c2 default_snap)).
  { intros i. rewrite <- !(map_nth s_ts). rewrite H. reflexivity. }
  rewrite Hn. reflexivity.
Qed.

Lemma desc_perm_eq : forall a b : list Z,
  StronglySorted (fun x y => y <= x) a -> StronglySorted (fun x y => y <= x) b ->
  Permutation a b -> a = b.
Proof.
  intros a. induction a as [|x a IH]; intros b Ha Hb Hp.
  - apply Permutation_nil in Hp. subst. reflexivity.
  - destruct b as [|y b]; [apply Permutation_sym, Permutation_nil in Hp; discriminate|].
    inversion Ha as [|x' a' Ha' Hxa]; subst. inversion Hb as [|y' b' Hb' Hyb]; subst.
    rewrite Forall_forall in Hxa, Hyb.
    assert (Hxy : x = y).
    { assert (H1 : In x (y :: b)) by (apply (Permutation_in _ Hp); left; reflexivity).
      assert (H2 : In y (x :: a)) by (apply (Permutation_in _ (Permutation_sym Hp)); left; reflexivity).
      destruct H1 as [H1|H1]; [congruence|]. destruct H2 as [H2|H2]; [congruence|].
      specialize (Hxa y H2). specialize (Hyb x H1). lia. }
    subst y. f_equal. apply IH; [exact Ha'|exact Hb'|]. eapply Permutation_cons_inv. exact Hp.
Qed.

Lemma sorted_map_ts : forall c, StronglySorted ts_desc c -> StronglySorted (fun x y => y <= x) (map s_ts c).
Proof.
  intros c H. induction H as [|x c Hs IH Hall]; cbn [map]; constructor; [exact IH|].
  rewrite Forall_forall in *. intros z Hz. apply in_map_iff in Hz. destruct Hz as [s [<- Hs']].
  apply Hall. exact Hs'.
Qed.

(* two orderings of the same entries that are both newest-first have the same time-stamp
   sequence: whatever order Go's map iteration gives to equal time stamps ... *)
Lemma sorted_perm_same_timestamps : forall c1 c2,
  StronglySorted ts_desc c1 -> StronglySorted ts_desc c2 -> Permutation c1 c2 ->
  map s_ts c1 = map s_ts c2.
Proof.
  intros c1 c2 H1 H2 Hp. apply desc_perm_eq; [apply sorted_map_ts; exact H1|apply sorted_map_ts; exact H2|].
  apply Permutation_map. exact Hp.
Qed.

(* ... getBoundaryCheckPoint answers as it does on the model's [new_checkpoints] *)
Lemma checkpoints_order_irrelevant : forall fbits p c ts,
  Permutation c p -> StronglySorted ts_desc c ->
  get_boundary fbits c ts = get_boundary fbits (new_checkpoints p) ts.
Proof.
  intros fbits p c ts Hp Hs. apply boundary_only_timestamps.
  apply sorted_perm_same_timestamps; [exact Hs|apply new_checkpoints_sorted|].
  eapply Permutation_trans; [exact Hp|apply Permutation_sym, new_checkpoints_perm].
Qed.

(* the boundary never moves the cutoff forward *)
Lemma boundary_le : forall fbits cps ts, get_boundary fbits cps ts <= ts.
Proof.
  intros fbits cps ts. unfold get_boundary. destruct (_ =? 0); [lia|].
  match goal with |- context [if ?b <? ts then _ else _] => destruct (b <? ts) eqn:E end; lia.
Qed.

(* ------------------------------------------------------------------ monotonicity of the sampling *)
(* (1) the series is sampled from the oldest snapshot towards the newest, never going back:
       it is [map (nth_snap snaps) idxs] for strictly decreasing positions *)
Lemma decreasing_snoc : forall l a b, decreasing (l ++ [a]) -> (b < a)%nat -> decreasing ((l ++ [a]) ++ [b]).
Proof.
  intros l a b H Hb. unfold decreasing in *. remember (l ++ [a]) as m eqn:Em.
  assert (Hall : Forall (fun x => (a <= x)%nat) m).
  { subst m. clear Hb. induction l as [|x l IH]; cbn in *.
    - constructor; [lia|constructor].
    - inversion H as [|x' l' Hs Hf]; subst. constructor; [|apply IH; exact Hs].
      rewrite Forall_forall in Hf. specialize (Hf a). assert (In a (l ++ [a])) by (apply in_or_app; right; left; reflexivity).
      specialize (Hf H0). lia. }
  clear Em. induction H as [|x m Hs IH Hf]; cbn.
  - constructor; constructor.
  - inversion Hall as [|x' m' Hx Hall']; subst. constructor; [apply IH; exact Hall'|].
    rewrite Forall_forall in *. intros z Hz. apply in_app_or in Hz. destruct Hz as [Hz|[<-|[]]].
    + apply Hf. exact Hz.
    + lia.
Qed.

Lemma ts_loop_positions : forall maxp interval snaps k l ptr cnt,
  (k <= ptr)%nat -> decreasing (l ++ [ptr]) ->
  exists idxs, ts_loop maxp interval snaps k (map (nth_snap snaps) (l ++ [ptr])) ptr cnt
               = map (nth_snap snaps) idxs
          /\ decreasing idxs /\ (exists ext, idxs = (l ++ [ptr]) ++ ext).
Proof.
  intros maxp interval snaps k. induction k as [|i IH]; intros l ptr cnt Hk Hd; cbn [ts_loop].
  - exists (l ++ [ptr]). repeat split; [exact Hd|]. exists []. symmetry. apply app_nil_r.
  - assert (Hstop : exists idxs, map (nth_snap snaps) (l ++ [ptr]) = map (nth_snap snaps) idxs
                      /\ decreasing idxs /\ (exists ext, idxs = (l ++ [ptr]) ++ ext)).
    { exists (l ++ [ptr]). repeat split; [exact Hd|]. exists []. symmetry. apply app_nil_r. }
    destruct (cnt <? maxp); [|exact Hstop].
    destruct (interval <=? _); [|apply IH; [lia|exact Hd]].
    match goal with |- context [mem_epoch ?e ?m] => destruct (mem_epoch e m) eqn:Hm end;
      [apply IH; [lia|exact Hd]|].
    set (idx := if interval <? _ then S i else i) in *.
    assert (Hidx : (idx < ptr)%nat).
    { assert (idx <= ptr)%nat by (subst idx; destruct (interval <? _); lia).
      destruct (Nat.eq_dec idx ptr) as [E|E]; [|lia]. exfalso.
      rewrite E in Hm. apply mem_epoch_false in Hm. apply Hm.
      rewrite map_map, map_app. apply in_or_app. right. left. reflexivity. }
    replace (map (nth_snap snaps) (l ++ [ptr]) ++ [nth_snap snaps idx])
      with (map (nth_snap snaps) ((l ++ [ptr]) ++ [idx])) by (rewrite (map_app _ (l ++ [ptr])); reflexivity).
    destruct (IH (l ++ [ptr]) idx (cnt + 1)) as [idxs [He [Hdec [ext Hext]]]].
    + subst idx. destruct (interval <? _); lia.
    + apply decreasing_snoc; assumption.
    + exists idxs. repeat split; [exact He|exact Hdec|]. exists (idx :: ext). rewrite Hext, <- !app_assoc. reflexivity.
Qed.

Lemma time_series_oldest_to_newest : forall maxp interval snaps,
  exists idxs, time_series maxp interval snaps = map (nth_snap snaps) idxs /\ decreasing idxs /\
               Forall (fun i => (i < length snaps)%nat) idxs.
Proof.
  intros maxp interval snaps. unfold time_series.
  destruct (_ || _ || _) eqn:Hc.
  - exists []. repeat split; constructor.
  - assert (Hlen : (length snaps <> 0)%nat).
    { intros H. rewrite H in Hc. cbn in Hc. rewrite orb_true_r in Hc. discriminate. }
    destruct (ts_loop_positions maxp interval snaps (length snaps - 1) [] (length snaps - 1) 1)
      as [idxs [He [Hdec [ext Hext]]]]; [lia|cbn; constructor; constructor|].
    exists idxs. cbn [app map] in He. repeat split; [exact He|exact Hdec|].
    subst idxs. cbn [app] in *. inversion Hdec as [|x m Hs Hf]; subst.
    constructor; [lia|]. rewrite Forall_forall in *. intros z Hz. specialize (Hf z Hz). lia.
Qed.

(* the series always starts at the oldest snapshot *)
Lemma time_series_starts_at_oldest : forall maxp interval snaps,
  interval <> 0 -> snaps <> [] -> 0 < maxp ->
  exists ext, time_series maxp interval snaps = nth_snap snaps (length snaps - 1) :: ext.
Proof.
  intros maxp interval snaps Hi Hs Hm. unfold time_series.
  replace (interval =? 0) with false by lia. replace (maxp <=? 0) with false by lia.
  destruct snaps as [|s0 snaps]; [congruence|]. cbn [length Nat.eqb orb].
  destruct (ts_loop_app maxp interval (s0 :: snaps) (S (length snaps) - 1)
              [nth_snap (s0 :: snaps) (S (length snaps) - 1)] (S (length snaps) - 1) 1) as [ext Hext].
  exists ext. exact Hext.
Qed.

(* (2) asking for one more data point only extends the series, by at most one point *)
Lemma ts_loop_succ : forall m interval snaps k rv ptr cnt,
  cnt = Z.of_nat (length rv) ->
  exists ext, ts_loop (m + 1) interval snaps k rv ptr cnt = ts_loop m interval snaps k rv ptr cnt ++ ext
              /\ (length ext <= 1)%nat.
Proof.
  intros m interval snaps k. induction k as [|i IH]; intros rv ptr cnt Hc; cbn [ts_loop].
  - exists []. split; [symmetry; apply app_nil_r|cbn; lia].
  - destruct (cnt <? m) eqn:Hlt.
    + replace (cnt <? m + 1) with true by lia.
      destruct (interval <=? _); [|apply IH; exact Hc].
      match goal with |- context [mem_epoch ?e rv] => destruct (mem_epoch e rv) end; [apply IH; exact Hc|].
      apply IH. rewrite app_length. cbn [length]. lia.
    + destruct (cnt <? m + 1) eqn:Hlt1; [|exists []; split; [symmetry; apply app_nil_r|cbn; lia]].
      (* cnt = m: the longer run may add one point, after which it is at its bound too *)
      assert (Hcm : cnt = m) by lia.
      destruct (interval <=? _).
      * match goal with |- context [mem_epoch ?e rv] => destruct (mem_epoch e rv) end.
        -- pose proof (IH rv ptr cnt Hc) as [ext [He Hl]].
           assert (Hstop : ts_loop m interval snaps i rv ptr cnt = rv).
           { destruct i; cbn [ts_loop]; [reflexivity|]. rewrite Hlt. reflexivity. }
           rewrite Hstop in He. exists ext. split; assumption.
        -- match goal with |- context [ts_loop _ _ _ i (rv ++ [?c]) ?idx ?n] =>
             assert (Hstop : ts_loop (m + 1) interval snaps i (rv ++ [c]) idx n = rv ++ [c]);
             [destruct i; cbn [ts_loop]; [reflexivity|]; replace (n <? m + 1) with false by lia; reflexivity|];
             rewrite Hstop; exists [c]; split; [reflexivity|cbn; lia] end.
      * pose proof (IH rv ptr cnt Hc) as [ext [He Hl]].
        assert (Hstop : ts_loop m interval snaps i rv ptr cnt = rv).
        { destruct i; cbn [ts_loop]; [reflexivity|]. rewrite Hlt. reflexivity. }
        rewrite Hstop in He. exists ext. split; assumption.
Qed.

Lemma time_series_mono_points : forall m interval snaps,
  exists ext, time_series (m + 1) interval snaps = time_series m interval snaps ++ ext
              /\ (length ext <= 1)%nat.
Proof.
  intros m interval snaps.
  destruct (Z_le_gt_dec m 0) as [Hm|Hm].
  - assert (H0 : time_series m interval snaps = []).
    { unfold time_series. replace (m <=? 0) with true by lia. rewrite !orb_true_r. reflexivity. }
    rewrite H0. exists (time_series (m + 1) interval snaps). split; [reflexivity|].
    pose proof (time_series_len (m + 1) interval snaps). lia.
  - unfold time_series. replace (m <=? 0) with false by lia. replace (m + 1 <=? 0) with false by lia.
    destruct (_ || _ || _); [exists []; split; [reflexivity|cbn; lia]|].
    apply ts_loop_succ. reflexivity.
Qed.

(* (3) raising numSnapshotsToKeep never drops a rollback point that was protected before *)
Lemma fill_mono : forall l N N' p p' cnt cnt',
  N - cnt <= N' - cnt' ->
  (forall e, mem_epoch e p = true -> mem_epoch e p' = true) ->
  forall e, mem_epoch e (fill N l p cnt) = true -> mem_epoch e (fill N' l p' cnt') = true.
Proof.
  intros l. induction l as [|s l IH]; intros N N' p p' cnt cnt' Hd Hsub e; cbn [fill].
  - apply Hsub.
  - destruct (cnt <? N) eqn:Hlt.
    + replace (cnt' <? N') with true by lia.
      destruct (mem_epoch (s_epoch s) p) eqn:Hm.
      * rewrite (Hsub _ Hm). apply IH; assumption.
      * destruct (mem_epoch (s_epoch s) p') eqn:Hm'.
        -- apply IH; [lia|]. intros e0. rewrite mem_epoch_app. intros H. apply orb_prop in H.
           destruct H as [H|H]; [apply Hsub; exact H|].
           cbn in H. rewrite orb_false_r in H. apply Z.eqb_eq in H. rewrite <- H. exact Hm'.
        -- apply IH; [lia|]. intros e0. rewrite !mem_epoch_app. intros H. apply orb_prop in H.
           destruct H as [H|H]; [rewrite (Hsub _ H); reflexivity|rewrite H; apply orb_true_r].
    + intros H. apply Hsub in H.
      destruct (fill_app N' (s :: l) p' cnt') as [ext Hext]. cbn [fill] in Hext. rewrite Hext.
      rewrite mem_epoch_app, H. reflexivity.
Qed.

Lemma protected_mono_N : forall N interval live p p',
  get_protected N interval live = Some p -> get_protected (N + 1) interval live = Some p' ->
  incl (map s_epoch p) (map s_epoch p').
Proof.
  intros N interval [|latest rest] p p' H H'; [discriminate|].
  rewrite get_protected_cons in H, H'. injection H as <-. injection H' as <-.
  intros e He. apply mem_epoch_In. apply mem_epoch_In in He. revert e He.
  unfold prot_p1. replace (N + 1 - 1) with (N - 1 + 1) by lia.
  destruct (time_series_mono_points (N - 1) interval (latest :: rest)) as [ext [Hext Hl]].
  rewrite Hext. set (T := time_series (N - 1) interval (latest :: rest)) in *.
  apply fill_mono.
  - destruct (mem_epoch (s_epoch latest) T) eqn:Hm.
    + rewrite mem_epoch_app, Hm. cbn [orb]. rewrite app_length. lia.
    + destruct (mem_epoch (s_epoch latest) (T ++ ext)); rewrite !app_length; cbn [length]; lia.
  - intros e. destruct (mem_epoch (s_epoch latest) T) eqn:Hm.
    + rewrite mem_epoch_app, Hm. cbn [orb]. rewrite mem_epoch_app. intros ->. reflexivity.
    + rewrite mem_epoch_app. intros H. apply orb_prop in H.
      destruct (mem_epoch (s_epoch latest) (T ++ ext)) eqn:Hm'.
      * destruct H as [H|H]; [rewrite mem_epoch_app, H; reflexivity|].
        cbn in H. rewrite orb_false_r in H. apply Z.eqb_eq in H. rewrite <- H. exact Hm'.
      * rewrite !mem_epoch_app. destruct H as [H|H]; [rewrite H; reflexivity|rewrite H; apply orb_true_r].
Qed.

(* ------------------------------------------------------------------ refuted: spacing *)
(* "two sampled points are at least one sampling interval apart" is FALSE even for sorted,
   distinct input: when the interval is overshot the code takes the older neighbour, which lies
   inside the interval.  interval 10, stamps 20, 8, 0 (newest first): sampled 0 and 8. *)
Lemma sampling_spacing_refuted : exists maxp interval snaps,
  0 < interval /\ ts_sorted snaps /\ NoDup (map s_epoch snaps) /\
  ~ spaced interval (time_series maxp interval snaps).
Proof.
  exists 2, 10, [mkSnap 3 20; mkSnap 2 8; mkSnap 1 0].
  split; [lia|]. split.
  - cbn. repeat split; intros b Hb; repeat (destruct Hb as [<-|Hb]; [cbn; lia|]); destruct Hb.
  - split.
    + cbn. repeat constructor; cbn; intuition lia.
    + assert (Hts : time_series 2 10 [mkSnap 3 20; mkSnap 2 8; mkSnap 1 0] = [mkSnap 1 0; mkSnap 2 8])
        by (vm_compute; reflexivity).
      rewrite Hts. intros H.
      specialize (H (mkSnap 1 0) (mkSnap 2 8) (or_introl eq_refl) (or_intror (or_introl eq_refl))).
      assert (Hne : mkSnap 1 0 <> mkSnap 2 8) by discriminate. specialize (H Hne).
      cbn [s_ts] in H. lia.
Qed.

(* ------------------------------------------------------------------ examples (hypotheses are satisfiable) *)
Definition ex_live : list snap :=
  [mkSnap 100 6000; mkSnap 99 5950; mkSnap 88 5900; mkSnap 50 5550; mkSnap 35 5280; mkSnap 10 4800].

Example ex_live_distinct : NoDup (map s_epoch ex_live).
Proof. cbn. repeat constructor; cbn; intuition lia. Qed.

(* sampling on (interval 600): latest 100, and the series 10 -> 35 (older neighbour of 50) *)
Example ex_protected_sampled :
  get_protected 3 600 ex_live = Some [mkSnap 10 4800; mkSnap 35 5280; mkSnap 100 6000].
Proof. vm_compute. reflexivity. Qed.

Example ex_protected_interval0 :
  get_protected 3 0 ex_live = Some [mkSnap 100 6000; mkSnap 99 5950; mkSnap 88 5900]
  /\ ex_live <> [].
Proof. split; [vm_compute; reflexivity|discriminate]. Qed.

Example ex_protected_mono :
  get_protected 3 600 ex_live = Some [mkSnap 10 4800; mkSnap 35 5280; mkSnap 100 6000] /\
  get_protected 4 600 ex_live = Some [mkSnap 10 4800; mkSnap 35 5280; mkSnap 50 5550; mkSnap 100 6000].
Proof. split; vm_compute; reflexivity. Qed.

Example ex_partition :
  partition_eligible [mkSnap 10 4800; mkSnap 35 5280; mkSnap 100 6000] [99; 35; 7; 88; 100]
  = ([99; 7; 88], [35; 100]).
Proof. vm_compute. reflexivity. Qed.

(* a purge with sampling on: now = 6100, N = 3, interval 600, factor 0.5, no checkpoints yet:
   cutoff 4900 drops 10 from the live list; protected = 35, 50 (sampled) and 100 (latest); the
   eligible 99, 88 and the never-persisted 7 are removed; 10 is not eligible and stays *)
Definition ex_state : rstate := mkR ex_live [99; 88; 7] [].
Example ex_purge :
  remove_old 3 600 4602678819172646912 6100 ex_state =
  Some (mkR [mkSnap 100 6000; mkSnap 50 5550; mkSnap 35 5280; mkSnap 10 4800]
            []
            [mkSnap 100 6000; mkSnap 50 5550; mkSnap 35 5280], 3)
  /\ NoDup (map s_epoch (r_bolt ex_state)).
Proof. split; [vm_compute; reflexivity|exact ex_live_distinct]. Qed.

(* the float product is rounded before it is floored: 10 checkpoints, factor 0.7 -> index 7 *)
Example ex_mul_floor_rounds : mul_floor 10 4604480259023595110 = 7.
Proof. vm_compute. reflexivity. Qed.

Example ex_checkpoints_tie :
  new_checkpoints [mkSnap 5 30; mkSnap 9 40; mkSnap 7 30] = [mkSnap 9 40; mkSnap 5 30; mkSnap 7 30].
Proof. vm_compute. reflexivity. Qed.

(* another admissible result of newCheckPoints for the same map: equal stamps swapped *)
Example ex_checkpoints_other_order :
  Permutation [mkSnap 9 40; mkSnap 7 30; mkSnap 5 30] [mkSnap 5 30; mkSnap 9 40; mkSnap 7 30] /\
  StronglySorted ts_desc [mkSnap 9 40; mkSnap 7 30; mkSnap 5 30] /\
  [mkSnap 9 40; mkSnap 7 30; mkSnap 5 30] <> new_checkpoints [mkSnap 5 30; mkSnap 9 40; mkSnap 7 30].
Proof.
  split; [|split].
  - eapply perm_trans; [|apply perm_swap]. apply perm_skip. apply perm_swap.
  - repeat constructor; unfold ts_desc; cbn; lia.
  - vm_compute. discriminate.
Qed.

(* in [ex_purge] the snapshot of epoch 88 leaves the bolt, and it was eligible *)
Example ex_purge_removed :
  In (mkSnap 88 5900) (r_bolt ex_state) /\
  ~ In (mkSnap 88 5900) [mkSnap 100 6000; mkSnap 50 5550; mkSnap 35 5280; mkSnap 10 4800] /\
  In 88 (r_eligible ex_state).
Proof.
  split; [cbn; tauto|]. split; [|cbn; tauto].
  cbn. intros H. repeat (destruct H as [H|H]; [discriminate H|]). exact H.
Qed.
