(* Scorch snapshot-epoch key codec — correspondence cases: what encodeUvarintAscending /
   decodeUvarintAscending of /repo/index/scorch/int.go returned (through
   /repo/index/scorch/verif_export_epoch.go), checked against Scorch/EpochCodec.v.
   Cases files are written in Z_scope: bytes and values arrive as Z and are converted. *)
From Coq Require Import NArith ZArith List Bool.
From Verif Require Import Common.Bytes Scorch.EpochCodec.
Import ListNotations.
Local Open Scope Z_scope.

Definition nb (l : list Z) : list N := map Z.to_N l.
Definition zb (l : list N) : list Z := map Z.of_N l.

Definition in_u64 (v : Z) : bool := (0 <=? v) && (v <? 18446744073709551616).

Definition zbytes_eqb := list_eqb Z.eqb.
Definition res_eqb (a b : option (list Z * Z)) : bool :=
  option_eqb (fun x y => zbytes_eqb (fst x) (fst y) && (snd x =? snd y)) a b.

Definition enc (v : Z) : list Z := zb (encode (Z.to_N v)).
Definition dec (b : list Z) : option (list Z * Z) :=
  match decode (nb b) with
  | Some (r, v) => Some (zb r, Z.of_N v)
  | None => None
  end.

Definition cmpZ (c : comparison) : Z := match c with Lt => -1 | Eq => 0 | Gt => 1 end.

(* the content of a bolt bucket: distinct keys in bytes.Compare order *)
Fixpoint insert_key (k : list Z) (l : list (list Z)) : list (list Z) :=
  match l with
  | [] => [k]
  | x :: l' =>
      match bcompare k x with
      | Lt => k :: l
      | Eq => l
      | Gt => x :: insert_key k l'
      end
  end.
Definition bucket_keys (ks : list (list Z)) : list (list Z) := fold_right insert_key [] ks.

(* the loops of RollbackPoints / RootBoltSnapshotEpochs: cursor.Last() .. Prev(), keys that do
   not decode are skipped, the remainder after the value is ignored *)
Definition cursor_epochs (sorted_keys : list (list Z)) : list Z :=
  flat_map (fun k => match dec k with Some (_, v) => [v] | None => [] end) (rev sorted_keys).

(* specification side for buckets written by the encoder only: distinct epochs, descending *)
Fixpoint insert_desc (e : Z) (l : list Z) : list Z :=
  match l with
  | [] => [e]
  | x :: l' => if x <? e then e :: l else if x =? e then l else x :: insert_desc e l'
  end.
Definition epochs_desc (es : list Z) : list Z := fold_right insert_desc [] es.

Inductive case :=
(* encodeUvarintAscending(nil, v) *)
| CEnc (v : Z) (impl : list Z)
(* encodeUvarintAscending(pre, v) *)
| CEncTo (pre : list Z) (v : Z) (impl : list Z)
(* decodeUvarintAscending(b): Some (remainder, value), None = error *)
| CDec (b : list Z) (impl : option (list Z * Z))
(* decodeUvarintAscending(append(encodeUvarintAscending(nil, v), trail...)) *)
| CRound (v : Z) (trail : list Z) (impl : option (list Z * Z))
(* bytes.Compare(encodeUvarintAscending(nil, a), encodeUvarintAscending(nil, b)) *)
| COrder (a b : Z) (cmp : Z)
(* a real root.bolt whose snapshots bucket got one sub-bucket per epoch (key from the real
   encoder) and per raw key: the keys as a bolt cursor lists them (First .. Next), the epochs of
   scorch.RollbackPoints(dir) and those of the method Scorch.RootBoltSnapshotEpochs *)
| CBolt (epochs : list Z) (raw : list (list Z)) (impl_keys : list (list Z))
        (impl_points impl_epochs : list Z).

Definition Zs_eqb := list_eqb Z.eqb.

Definition check (c : case) : bool :=
  match c with
  | CEnc v impl =>
      in_u64 v && zbytes_eqb (enc v) impl &&
      (* spec: what was written reads back as v with nothing left over *)
      res_eqb (dec impl) (Some ([], v))
  | CEncTo pre v impl =>
      in_u64 v && valid_bytes pre && zbytes_eqb (zb (encode_to (nb pre) (Z.to_N v))) impl
  | CDec b impl => valid_bytes b && res_eqb (dec b) impl
  | CRound v trail impl =>
      in_u64 v && valid_bytes trail &&
      (* spec (decode_encode) *)
      res_eqb impl (Some (trail, v)) &&
      (* model *)
      res_eqb (dec (enc v ++ trail)) impl
  | COrder a b cmp =>
      in_u64 a && in_u64 b &&
      (cmpZ (bcmp (encode (Z.to_N a)) (encode (Z.to_N b))) =? cmp) &&
      (* spec (encode_order): byte order = numeric order *)
      (cmpZ (a ?= b) =? cmp)
  | CBolt epochs raw impl_keys impl_points impl_epochs =>
      forallb in_u64 epochs && forallb valid_bytes raw &&
      let keys := bucket_keys (map enc epochs ++ raw) in
      list_eqb zbytes_eqb keys impl_keys &&
      Zs_eqb (cursor_epochs keys) impl_points &&
      Zs_eqb (cursor_epochs keys) impl_epochs &&
      (* spec: with encoder-written keys only, the rollback points are the distinct epochs,
         newest (largest) first *)
      match raw with
      | [] => Zs_eqb (epochs_desc epochs) impl_points
      | _ => true
      end
  end.

(* what the model expects, for replay files *)
Inductive expl :=
| EBytes (b : list Z)
| ERes (r : option (list Z * Z))
| ECmp (model spec : Z)
| EBolt (keys : list (list Z)) (points : list Z).

Definition explain (c : case) : expl :=
  match c with
  | CEnc v _ => EBytes (enc v)
  | CEncTo pre v _ => EBytes (zb (encode_to (nb pre) (Z.to_N v)))
  | CDec b _ => ERes (dec b)
  | CRound v trail _ => ERes (Some (trail, v))
  | COrder a b _ => ECmp (cmpZ (bcmp (encode (Z.to_N a)) (encode (Z.to_N b)))) (cmpZ (a ?= b))
  | CBolt epochs raw _ _ _ =>
      let keys := bucket_keys (map enc epochs ++ raw) in EBolt keys (cursor_epochs keys)
  end.
