(* Scorch engine — correspondence cases.
   CHist : an API-level history (any index type) with observations after every step, checked
           against the SPEC (last-write-wins replay);
   CTrace: the event trace the verif-tagged scorch emitted (T3), which the model's [step] must
           accept event by event with matching root projections. *)
From Coq Require Import ZArith List Bool Arith.
From Verif Require Import Common.Bytes Scorch.Model.
Import ListNotations.
Local Open Scope Z_scope.

(* ---------- API-level histories vs the spec ---------- *)

Record obs := mkObs {
  o_count : Z;                          (* DocCount *)
  o_docs : list (Z * option Z);         (* Document(id) for every id of the universe: stored version *)
  o_matchall : list (Z * Z);            (* match-all hits (id, stored version), sorted by id *)
  o_docids : list Z;                    (* doc-id query over the whole universe, sorted *)
  o_ints : list (Z * option Z)          (* GetInternal for every key of the universe *)
}.

Record hstep := mkHStep {
  h_ops : list (Z * option Z);          (* Index/Delete calls of the batch in call order *)
  h_iops : list (Z * option Z);         (* SetInternal/DeleteInternal calls in call order *)
  h_obs : option obs
}.

Definition optZ_eqb := option_eqb Z.eqb.
Definition pairZoZ_eqb (a b : Z * option Z) := (fst a =? fst b) && optZ_eqb (snd a) (snd b).
Definition pairZZ_eqb (a b : Z * Z) := (fst a =? fst b) && (snd a =? snd b).

(* abstract state as association lists (latest binding first) *)
Definition al := list (Z * option Z).
Definition al_get (m : al) (k : Z) : option Z :=
  match assoc_first k m with Some ov => ov | None => None end.
Definition al_apply (ops : list (Z * option Z)) (m : al) : al := rev ops ++ m.

Fixpoint insert_sorted (x : Z) (l : list Z) : list Z :=
  match l with
  | [] => [x]
  | y :: l' => if x <=? y then x :: l else y :: insert_sorted x l'
  end.
Definition sortZ (l : list Z) : list Z := fold_right insert_sorted [] l.

Definition expected_obs (docs ints : al) (universe keys : list Z) : obs :=
  let live := filter (fun d => match al_get docs d with Some _ => true | None => false end) (sortZ universe) in
  mkObs (Z.of_nat (length live))
        (map (fun d => (d, al_get docs d)) universe)
        (flat_map (fun d => match al_get docs d with Some v => [(d, v)] | None => [] end) live)
        live
        (map (fun k => (k, al_get ints k)) keys).

Definition obs_eqb (a b : obs) : bool :=
  (o_count a =? o_count b) && list_eqb pairZoZ_eqb (o_docs a) (o_docs b) &&
  list_eqb pairZZ_eqb (o_matchall a) (o_matchall b) && list_eqb Z.eqb (o_docids a) (o_docids b) &&
  list_eqb pairZoZ_eqb (o_ints a) (o_ints b).

Fixpoint check_hist (steps : list hstep) (docs ints : al) (universe keys : list Z) : bool :=
  match steps with
  | [] => true
  | s :: rest =>
      let docs' := al_apply (h_ops s) docs in
      let ints' := al_apply (h_iops s) ints in
      (match h_obs s with
       | None => true
       | Some o => obs_eqb (expected_obs docs' ints' universe keys) o
       end) && check_hist rest docs' ints' universe keys
  end.

(* ---------- T3 traces vs the model ---------- *)

Definition pseg := (Z * Z * list nat * bool)%type.   (* id, Count, deleted doc numbers (ascending), file-backed *)

(* [offs]: the global doc number of each segment's first document (IndexSnapshot.offsets), which
   must be the running sum of the segments' document counts *)
Inductive tev :=
| TIntroduce (newsid : Z) (b : batch) (iops : list (Z * option Z)) (proj : list pseg) (offs : list Z)
| TMergeStart (file : bool) (groups : list (Z * list (Z * list nat)))  (* new id, captured (id, deleted at capture) *)
| TMergeFinish (news : list Z) (proj : list pseg) (offs : list Z)
| TPersist (ids : list Z) (proj : list pseg) (offs : list Z).

Fixpoint insert_nat (x : nat) (l : list nat) : list nat :=
  match l with
  | [] => [x]
  | y :: l' => if Nat.leb x y then x :: l else y :: insert_nat x l'
  end.
Definition sort_nat (l : list nat) : list nat := fold_right insert_nat [] l.

Definition project (r : list seg) : list pseg :=
  map (fun s => (sid s, Z.of_nat (length (sdocs s)), sort_nat (sdel s), sfile s)) r.

Definition pseg_eqb (a b : pseg) : bool :=
  let '(i1, c1, d1, f1) := a in let '(i2, c2, d2, f2) := b in
  (i1 =? i2) && (c1 =? c2) && list_eqb Nat.eqb d1 d2 && Bool.eqb f1 f2.

Definition proj_eqb (r : list seg) (p : list pseg) : bool := list_eqb pseg_eqb (project r) p.

Fixpoint offsets_from (acc : Z) (r : list seg) : list Z :=
  match r with
  | [] => []
  | s :: r' => acc :: offsets_from (acc + Z.of_nat (length (sdocs s))) r'
  end.
Definition offs_eqb (r : list seg) (offs : list Z) : bool := list_eqb Z.eqb (offsets_from 0 r) offs.

Fixpoint find_merge (news : list Z) (ms : list merge) (k : nat) : option nat :=
  match ms with
  | [] => None
  | m :: ms' => if list_eqb Z.eqb (map t_new (m_tasks m)) news then Some k else find_merge news ms' (S k)
  end.

Fixpoint list_eqb2 {A B} (eqb : A -> B -> bool) (a : list A) (b : list B) : bool :=
  match a, b with
  | [], [] => true
  | x :: a', y :: b' => eqb x y && list_eqb2 eqb a' b'
  | _, _ => false
  end.

(* the captured deleted sets the implementation logged must be the ones the model captures *)
Definition captured_matches (m : merge) (groups : list (Z * list (Z * list nat))) : bool :=
  list_eqb2 (fun (t : task) (g : Z * list (Z * list nat)) =>
              (t_new t =? fst g) &&
              list_eqb2 (fun (c : seg) (p : Z * list nat) => (sid c =? fst p) && list_eqb Nat.eqb (sort_nat (sdel c)) (snd p))
                       (t_caps t) (snd g))
           (m_tasks m) groups.

Definition tstep (s : st) (e : tev) : option st :=
  match e with
  | TIntroduce newsid b iops proj offs =>
      match step s (EIntroduce newsid b iops) with
      | Some s' => if proj_eqb (root s') proj && offs_eqb (root s') offs then Some s' else None
      | None => None
      end
  | TMergeStart file groups =>
      (* the implementation lists only captured segments that had live documents; the model's
         [capture] filters the same way, so pass exactly the logged ids *)
      match step s (EMergeStart file (map (fun g => (fst g, map fst (snd g))) groups)) with
      | Some s' =>
          match last (inflight s') (mkMerge [] false) with
          | m => if captured_matches m groups then Some s' else None
          end
      | None => None
      end
  | TMergeFinish news proj offs =>
      match find_merge news (inflight s) 0 with
      | Some k =>
          match step s (EMergeFinish k) with
          | Some s' => if proj_eqb (root s') proj && offs_eqb (root s') offs then Some s' else None
          | None => None
          end
      | None => None
      end
  | TPersist ids proj offs =>
      match step s (EPersist ids) with
      | Some s' => if proj_eqb (root s') proj && offs_eqb (root s') offs then Some s' else None
      | None => None
      end
  end.

(* index of the first rejected event, or None when the whole trace is accepted *)
Fixpoint trun (s : st) (evs : list tev) (i : Z) : (option Z) * st :=
  match evs with
  | [] => (None, s)
  | e :: evs' => match tstep s e with
                 | Some s' => trun s' evs' (i + 1)
                 | None => (Some i, s)
                 end
  end.

Definition to_event (e : tev) : list event :=
  match e with
  | TIntroduce n b io _ _ => [EIntroduce n b io]
  | _ => []
  end.

(* ---------- concurrent observations (C04) ----------
   W writers; writer w owns a family of documents and its j-th batch rewrites the whole family
   with version j (and sets its internal key to j).  An observation is taken from ONE snapshot
   (one Search, or one held reader): per family the versions seen.  The spec: every family is
   internally at one version j (never part of a batch), acked_w <= j <= submitted_w where
   acked_w batches of w had returned before the read began and submitted_w had been submitted
   when it ended, and per client the j-vector never goes backwards. *)
Record cobs := mkCObs {
  c_client : Z;
  c_acked : list Z;
  c_submitted : list Z;
  c_seen : list (list (option Z));     (* per writer: version of each family document *)
  c_ints : list (option Z)             (* per writer: its internal key *)
}.

Definition family_version (vs : list (option Z)) (ik : option Z) : option Z :=
  match vs with
  | [] => None
  | v :: rest =>
      if forallb (fun x => optZ_eqb x v) rest && optZ_eqb ik v
      then Some (match v with Some j => j | None => 0 end) else None
  end.

Fixpoint vec_of (seen : list (list (option Z))) (ints : list (option Z)) : option (list Z) :=
  match seen, ints with
  | [], [] => Some []
  | vs :: seen', ik :: ints' =>
      match family_version vs ik, vec_of seen' ints' with
      | Some j, Some r => Some (j :: r)
      | _, _ => None
      end
  | _, _ => None
  end.

Fixpoint vec_le (a b : list Z) : bool :=
  match a, b with
  | [], [] => true
  | x :: a', y :: b' => (x <=? y) && vec_le a' b'
  | _, _ => false
  end.

Definition cobs_ok (o : cobs) : bool :=
  match vec_of (c_seen o) (c_ints o) with
  | Some v => vec_le (c_acked o) v && vec_le v (c_submitted o)
  | None => false
  end.

(* per client, observations (in the order taken) never go backwards *)
Fixpoint monotone_from (last : list (Z * list Z)) (os : list cobs) : bool :=
  match os with
  | [] => true
  | o :: rest =>
      match vec_of (c_seen o) (c_ints o) with
      | None => false
      | Some v =>
          (match assoc_first (c_client o) last with
           | Some prev => vec_le prev v
           | None => true
           end) && monotone_from ((c_client o, v) :: last) rest
      end
  end.

Inductive case :=
| CConc (obs : list cobs)
| CHist (universe keys : list Z) (steps : list hstep)
| CTrace (universe : list Z) (evs : list tev) (final_docs : list (Z * option Z))
| CMulti (cs : list case).

Fixpoint check (c : case) : bool :=
  match c with
  | CMulti cs => forallb check cs
  | CConc os => forallb cobs_ok os && monotone_from [] os
  | CHist universe keys steps => check_hist steps [] [] universe keys
  | CTrace universe evs final =>
      match trun init evs 0 with
      | (None, s) =>
          (* accepted: the implementation's final contents are the model root's contents
             (= the replay, by scorch_refines_replay) *)
          list_eqb pairZoZ_eqb (map (fun d => (d, root_lookup (root s) d)) universe) final &&
          list_eqb pairZoZ_eqb (map (fun d => (d, replay (batches_of (flat_map to_event evs)) d)) universe) final
      | (Some _, _) => false
      end
  end.

Inductive expl :=
| EHist (expected : list obs)
| ETrace (rejected_at : option Z) (model_root : list pseg) (lookup : list (Z * option Z))
| EMulti (l : list (bool * expl))
| EConc (bad : list cobs).

Fixpoint explain_hist (steps : list hstep) (docs ints : al) (universe keys : list Z) : list obs :=
  match steps with
  | [] => []
  | s :: rest =>
      let docs' := al_apply (h_ops s) docs in
      let ints' := al_apply (h_iops s) ints in
      expected_obs docs' ints' universe keys :: explain_hist rest docs' ints' universe keys
  end.

Fixpoint explain (c : case) : expl :=
  match c with
  | CMulti cs => EMulti (map (fun c' => (check c', explain c')) cs)
  | CConc os => EConc (filter (fun o => negb (cobs_ok o)) os)
  | CHist universe keys steps => EHist (explain_hist steps [] [] universe keys)
  | CTrace universe evs _ =>
      let '(r, s) := trun init evs 0 in
      ETrace r (project (root s)) (map (fun d => (d, root_lookup (root s) d)) universe)
  end.
