(* Scorch engine — persistence proofs, part 2: [DInv] is preserved by core events. *)
From Coq Require Import ZArith List Bool Arith Lia Permutation.
From Verif Require Import Scorch.Model Scorch.ProofsCore1 Scorch.ProofsCore2 Scorch.ProofsCore3
  Scorch.Disk Scorch.ProofsDisk1.
Import ListNotations.
Local Open Scope Z_scope.

Lemma length_step_batches : forall (ef : list batch) e n,
  n = length ef ->
  (if is_introduce e then S n else n) = length (ef ++ step_batches e).
Proof.
  intros ef e n Hn. rewrite app_length. subst n.
  destruct e; cbn [is_introduce step_batches length]; lia.
Qed.

Lemma DInv_core : forall ef d e d',
  DInv ef d -> dstep d (DCore e) = Some d' -> DInv (eff_step d ef (DCore e)) d'.
Proof.
  intros ef d e d' I Hstep. rewrite eff_step_core. cbn [dstep] in Hstep.
  destruct (d_up d) eqn:Hup; cbn [negb] in Hstep; [|discriminate].
  destruct (step (d_core d) e) as [s'|] eqn:Hs; [|discriminate].
  match type of Hstep with (if ?c then _ else _) = _ => destruct c eqn:Hfiles end; [|discriminate].
  injection Hstep as Hstep. subst d'.
  assert (Ic := di_core ef d I Hup).
  assert (Ic' := Inv_step _ _ _ Ic Hs).
  assert (Hep := step_epoch _ _ _ Hs).
  assert (Hlen := length_step_batches ef e (d_batches d) (di_batches ef d I)).
  set (ef' := ef ++ step_batches e) in *.
  set (nb' := if is_introduce e then S (d_batches d) else d_batches d) in *.
  assert (Hroot : forall id, root_lookup (root s') id = replay ef' id).
  { intros id. rewrite (step_lookup _ _ _ Ic Hs id). unfold ef'. rewrite replay_app.
    apply apply_batches_ext. exact (di_root ef d I Hup). }
  assert (Hfirst : forall e0 k, e0 <= epoch (d_core d) -> assocZ e0 (d_nb d) = Some k ->
                                firstn k ef' = firstn k ef).
  { intros e0 k He0 Hk. unfold ef'. apply firstn_app_le. exact (di_nble ef d I e0 k He0 Hk). }
  assert (Hepge : epoch (d_core d) <= epoch s').
  { rewrite Hep. destruct (swaps_root e); lia. }
  (* the ghost tables, as functions on the epochs up to the old root epoch, are unchanged *)
  assert (Hnb_old : forall e0, e0 <= epoch (d_core d) ->
            assocZ e0 (if swaps_root e then (epoch s', nb') :: d_nb d else d_nb d) = assocZ e0 (d_nb d)).
  { intros e0 He0. destruct (swaps_root e); [|reflexivity]. apply assocZ_cons_ne. lia. }
  assert (Hpub_old : forall e0, e0 <= epoch (d_core d) ->
            assocZ e0 (if swaps_root e then (epoch s', (root s', internal s')) :: d_pub d else d_pub d)
            = assocZ e0 (d_pub d)).
  { intros e0 He0. destruct (swaps_root e); [|reflexivity]. apply assocZ_cons_ne. lia. }
  assert (Hrec : forall r, rec_ok ef (epoch (d_core d)) (d_nb d) (d_segdocs d) r ->
            rec_ok ef' (epoch s') (if swaps_root e then (epoch s', nb') :: d_nb d else d_nb d)
                   (register_segs (root s') (d_segdocs d)) r).
  { intros r Hr. assert (Her : br_epoch r <= epoch (d_core d)) by exact (proj1 Hr).
    eapply rec_ok_transport; [exact Hr | exact Hepge | exact (Hnb_old _ Her) | |].
    - intros rr Hrr. eapply rec_root_mono; [|exact Hrr]. intros k v. apply register_segs_keep.
    - intros k Hk. exact (Hfirst _ k Her Hk). }
  constructor; cbn [d_batches d_up d_core d_files d_pub d_nb d_bolt d_tx d_segdocs].
  - exact Hlen.
  - intros _. exact Ic'.
  - intros _. exact Hroot.
  - intros _. exact (forallb_mem_In _ _ Hfiles).
  - (* di_pub *)
    intros e0 ri He0 Hri.
    destruct (Z_le_gt_dec e0 (epoch (d_core d))) as [Hle|Hgt].
    + rewrite (Hpub_old e0 Hle) in Hri.
      eapply pub_ok_transport; [exact (di_pub ef d I e0 ri Hle Hri) | exact (Hnb_old e0 Hle) |].
      intros k Hk. exact (Hfirst e0 k Hle Hk).
    + destruct (swaps_root e) eqn:Hsw; [|lia].
      assert (e0 = epoch s') by lia. subst e0.
      rewrite assocZ_cons_eq in Hri. injection Hri as Hri. subst ri.
      exists nb'. split; [apply assocZ_cons_eq|]. cbn [fst snd]. split; [|split].
      * intros id. rewrite Hlen, firstn_all. apply Hroot.
      * exact (inv_I1 _ Ic').
      * exact (inv_internal _ Ic').
  - (* di_mono *)
    intros e1 e2 k1 k2 H12 H2 Hk1 Hk2.
    destruct (Z_le_gt_dec e2 (epoch (d_core d))) as [Hle|Hgt].
    + rewrite Hnb_old in Hk1 by lia. rewrite Hnb_old in Hk2 by lia.
      exact (di_mono ef d I e1 e2 k1 k2 H12 Hle Hk1 Hk2).
    + destruct (swaps_root e) eqn:Hsw; [|lia].
      assert (e2 = epoch s') by lia. subst e2.
      rewrite assocZ_cons_eq in Hk2. injection Hk2 as Hk2. subst k2.
      destruct (Z.eq_dec e1 (epoch s')) as [He1|He1].
      * subst e1. rewrite assocZ_cons_eq in Hk1. injection Hk1 as Hk1. subst k1. lia.
      * rewrite assocZ_cons_ne in Hk1 by congruence.
        assert (Hb := di_nble ef d I e1 k1 ltac:(lia) Hk1).
        rewrite Hlen. unfold ef'. rewrite app_length. lia.
  - (* di_nble *)
    intros e0 k He0 Hk.
    destruct (Z_le_gt_dec e0 (epoch (d_core d))) as [Hle|Hgt].
    + rewrite Hnb_old in Hk by lia. assert (Hb := di_nble ef d I e0 k Hle Hk).
      unfold ef'. rewrite app_length. lia.
    + destruct (swaps_root e) eqn:Hsw; [|lia].
      assert (e0 = epoch s') by lia. subst e0.
      rewrite assocZ_cons_eq in Hk. injection Hk as Hk. subst k. rewrite Hlen. lia.
  - intros r Hr. exact (Hrec r (di_bolt ef d I r Hr)).
  - exact (di_named ef d I).
  - intros r Hr. exact (Hrec r (di_tx ef d I r Hr)).
  - exact (di_sorted ef d I).
Qed.
