(* Scorch snapshot-epoch key codec — proofs over Scorch/EpochCodec.v
   (encodeUvarintAscending / decodeUvarintAscending of /repo/index/scorch/int.go). *)
From Coq Require Import NArith ZArith List Bool Sorted Lia ZifyBool ZifyN.
From Verif Require Import Scorch.EpochCodec.
Import ListNotations.
Local Open Scope N_scope.

(* ---------- 1: bytes and shifts as arithmetic ---------- *)

Lemma byte_mod v : byte v = v mod 256.
Proof. unfold byte. change 255 with (N.ones 8). rewrite N.land_ones. reflexivity. Qed.

Lemma shr8 v : N.shiftr v 8 = v / 256.
Proof. rewrite N.shiftr_div_pow2. reflexivity. Qed.

Lemma byte_lt v : byte v < 256.
Proof. rewrite byte_mod. apply N.mod_lt. discriminate. Qed.

Lemma two64_val : two64 = 18446744073709551616.
Proof. reflexivity. Qed.

Lemma pow256_succ n : 256 ^ N.of_nat (S n) = 256 * 256 ^ N.of_nat n.
Proof. rewrite Nat2N.inj_succ, N.pow_succ_r'. reflexivity. Qed.

Lemma pow256_pos n : 1 <= 256 ^ N.of_nat n.
Proof.
  induction n as [|n IH]; [cbn; lia|]. rewrite pow256_succ. lia.
Qed.

Lemma div_mod256 v : v = 256 * (v / 256) + v mod 256 /\ v mod 256 < 256.
Proof.
  split; [apply N.div_mod; discriminate|apply N.mod_lt; discriminate].
Qed.

Lemma lor_add_low8 a t : t < 256 -> N.lor (a * 256) t = a * 256 + t.
Proof.
  intros Ht.
  assert (L : N.land (a * 256) t = 0).
  { apply N.bits_inj. intros k. rewrite N.land_spec, N.bits_0.
    destruct (N.ltb_spec k 8) as [Hlt|Hge].
    - change 256 with (2 ^ 8). rewrite N.mul_pow2_bits_low by exact Hlt. reflexivity.
    - replace t with (t mod 2 ^ 8) by (apply N.mod_small; exact Ht).
      rewrite N.mod_pow2_bits_high by exact Hge. apply andb_false_r. }
  rewrite <- N.lxor_lor by exact L. symmetry. apply N.add_nocarry_lxor. exact L.
Qed.

Lemma dec_step_add v t : v * 256 < two64 -> t < 256 -> dec_step v t = v * 256 + t.
Proof.
  intros Hv Ht. unfold dec_step. rewrite N.shiftl_mul_pow2. change (2 ^ 8) with 256.
  rewrite N.mod_small by exact Hv. apply lor_add_low8. exact Ht.
Qed.

(* ---------- 2: big-endian strings ---------- *)

Lemma be_length n v : length (be n v) = n.
Proof.
  revert v; induction n as [|n IH]; intros v; [reflexivity|].
  cbn [be]. rewrite app_length, IH. cbn. lia.
Qed.

Lemma be_bytes_ok n v : bytes_ok (be n v).
Proof.
  revert v; induction n as [|n IH]; intros v; [constructor|].
  cbn [be]. apply Forall_app. split; [apply IH|]. constructor; [apply byte_lt|constructor].
Qed.

Lemma be_val_snoc l t : be_val (l ++ [t]) = be_val l * 256 + t.
Proof. unfold be_val. rewrite fold_left_app. reflexivity. Qed.

Lemma be_val_be n v : v < 256 ^ N.of_nat n -> be_val (be n v) = v.
Proof.
  revert v; induction n as [|n IH]; intros v Hv.
  - cbn in Hv. cbn. lia.
  - cbn [be]. rewrite be_val_snoc, shr8, byte_mod.
    rewrite pow256_succ in Hv.
    destruct (div_mod256 v) as [E M].
    rewrite IH; [lia|].
    apply N.div_lt_upper_bound; [discriminate|exact Hv].
Qed.

Lemma be_val_lt l : bytes_ok l -> be_val l < 256 ^ N.of_nat (length l).
Proof.
  induction l as [|t l IH] using rev_ind; intros H.
  - cbn. lia.
  - apply Forall_app in H as [Hl Ht]. inversion Ht as [|? ? Ht' _]; subst.
    rewrite be_val_snoc, app_length. cbn [length].
    replace (length l + 1)%nat with (S (length l)) by lia.
    rewrite pow256_succ. specialize (IH Hl). lia.
Qed.

Lemma be_be_val l : bytes_ok l -> be (length l) (be_val l) = l.
Proof.
  induction l as [|t l IH] using rev_ind; intros H; [reflexivity|].
  apply Forall_app in H as [Hl Ht]. inversion Ht as [|? ? Ht' _]; subst.
  rewrite be_val_snoc, app_length. cbn [length].
  replace (length l + 1)%nat with (S (length l)) by lia.
  cbn [be]. rewrite shr8, byte_mod.
  assert (D : (be_val l * 256 + t) / 256 = be_val l).
  { symmetry. apply (N.div_unique _ 256 _ t); [exact Ht'|lia]. }
  assert (M : (be_val l * 256 + t) mod 256 = t).
  { symmetry. apply (N.mod_unique _ 256 (be_val l) t); [exact Ht'|lia]. }
  rewrite D, M, IH by exact Hl. reflexivity.
Qed.

(* the decoder's accumulator loop computes the big-endian value: no bit is shifted out as
   long as at most 8 bytes are read *)
Lemma dec_fold l v0 : bytes_ok l -> (v0 + 1) * 256 ^ N.of_nat (length l) <= two64 ->
  fold_left dec_step l v0 = fold_left (fun v t => v * 256 + t) l v0.
Proof.
  intros H. revert v0. induction H as [|t l Ht Hl IH]; intros v0 Hb; [reflexivity|].
  cbn [fold_left]. cbn [length] in Hb. rewrite pow256_succ in Hb.
  pose proof (pow256_pos (length l)) as P.
  rewrite dec_step_add; [|nia|exact Ht].
  apply IH. nia.
Qed.

Lemma dec_fold0 l : bytes_ok l -> (length l <= 8)%nat -> fold_left dec_step l 0 = be_val l.
Proof.
  intros H Hl. apply dec_fold; [exact H|].
  rewrite N.add_0_l, N.mul_1_l. change two64 with (256 ^ 8).
  apply N.pow_le_mono_r; [discriminate|lia].
Qed.

(* ---------- 3: the shape of an encoding ---------- *)

Lemma encode_small v : v <= intSmall -> encode v = [intZero + v].
Proof.
  intros H. unfold encode. destruct (N.leb_spec v intSmall) as [_|C]; [|lia].
  unfold badd. rewrite byte_mod.
  unfold intSmall, intMax, intZero, intMin, intMaxWidth in *.
  rewrite (N.mod_small v 256) by lia. rewrite N.mod_small by lia. reflexivity.
Qed.

Lemma encode_big v : intSmall < v -> encode v = encode_w (width v) v.
Proof.
  intros H. unfold encode, width.
  destruct (N.leb_spec v intSmall) as [C|_]; [lia|].
  repeat (match goal with |- context [?a <=? ?b] => destruct (N.leb_spec a b) end;
          [unfold encode_w; cbn [be app]; rewrite ?N.shiftr_shiftr; reflexivity|]).
  unfold encode_w; cbn [be app]; rewrite ?N.shiftr_shiftr; reflexivity.
Qed.

Lemma width_bounds v : intSmall < v -> v < two64 ->
  (1 <= width v <= 8)%nat /\ v < 256 ^ N.of_nat (width v).
Proof.
  intros H1 H2. rewrite two64_val in H2. unfold width.
  destruct (N.leb_spec v intSmall) as [C|_]; [lia|].
  repeat (match goal with |- context [?a <=? ?b] => destruct (N.leb_spec a b) end;
          [split; [lia|cbn; lia]|]).
  split; [lia|cbn; lia].
Qed.

Lemma width_small v : v <= intSmall -> width v = 0%nat.
Proof.
  intros H. unfold width. destruct (N.leb_spec v intSmall); [reflexivity|lia].
Qed.

Lemma width_mono a b : a <= b -> (width a <= width b)%nat.
Proof.
  intros H. unfold width, intSmall, intMax, intZero, intMin, intMaxWidth.
  repeat match goal with |- context [?x <=? ?y] => destruct (N.leb_spec x y) end; lia.
Qed.

Lemma encode_nonempty v : encode v <> [].
Proof.
  destruct (N.le_gt_cases v intSmall) as [H|H].
  - rewrite encode_small by exact H. discriminate.
  - rewrite encode_big by exact H. discriminate.
Qed.

Lemma encode_bytes_ok v : v < two64 -> bytes_ok (encode v).
Proof.
  intros Hv. destruct (N.le_gt_cases v intSmall) as [H|H].
  - rewrite encode_small by exact H. constructor; [|constructor].
    unfold intSmall, intMax, intZero, intMin, intMaxWidth in *. lia.
  - rewrite encode_big by exact H. destruct (width_bounds v H Hv) as [W _].
    unfold encode_w. constructor; [|apply be_bytes_ok].
    unfold intMax. lia.
Qed.

(* ---------- 4: decode ---------- *)

(* every length-prefixed form with 1..8 payload bytes is accepted, minimal or not *)
Lemma decode_w n v rest : (1 <= n <= 8)%nat -> v < 256 ^ N.of_nat n ->
  decode (encode_w n v ++ rest) = Some (rest, v).
Proof.
  intros Hn Hv. unfold encode_w. rewrite <- app_comm_cons. unfold decode.
  set (L := (Z.of_N (intMax - 8 + N.of_nat n) - Z.of_N intZero)%Z).
  assert (HL : L = (109 + Z.of_nat n)%Z)
    by (unfold L, intMax, intZero, intMin, intMaxWidth; lia).
  clearbody L. subst L.
  assert (HS : Z.of_N intSmall = 109%Z) by reflexivity. rewrite HS.
  destruct (Z.leb_spec (109 + Z.of_nat n) 109) as [C|_]; [lia|].
  replace (109 + Z.of_nat n - 109)%Z with (Z.of_nat n) by lia.
  destruct (Z.ltb_spec (Z.of_nat n) 0) as [C|_]; [lia|].
  destruct (Z.gtb_spec (Z.of_nat n) 8) as [C|_]; [lia|].
  cbn [orb].
  rewrite app_length, be_length.
  destruct (Z.ltb_spec (Z.of_nat (n + length rest)) (Z.of_nat n)) as [C|_]; [lia|].
  rewrite Nat2Z.id.
  rewrite <- (be_length n v) at 1. rewrite skipn_app, skipn_all, Nat.sub_diag. cbn [skipn app].
  rewrite <- (be_length n v) at 1. rewrite firstn_app, firstn_all, Nat.sub_diag.
  cbn [firstn]. rewrite app_nil_r.
  rewrite dec_fold0; [|apply be_bytes_ok|rewrite be_length; lia].
  rewrite be_val_be by exact Hv. reflexivity.
Qed.

Lemma uint64_of_int_nonneg z : (0 <= z < 2 ^ 64)%Z -> uint64_of_int z = Z.to_N z.
Proof. intros H. unfold uint64_of_int. rewrite Z.mod_small by exact H. reflexivity. Qed.

Lemma uint64_of_int_neg z : (- 2 ^ 64 <= z < 0)%Z -> uint64_of_int z = Z.to_N (z + 2 ^ 64).
Proof.
  intros H. unfold uint64_of_int. f_equal. symmetry.
  apply (Z.mod_unique z (2 ^ 64) (-1)); lia.
Qed.

Lemma decode_single b0 rest : intZero <= b0 <= intZero + intSmall ->
  decode (b0 :: rest) = Some (rest, b0 - intZero).
Proof.
  intros H. unfold decode, intSmall, intMax, intZero, intMin, intMaxWidth in *.
  destruct (Z.leb_spec (Z.of_N b0 - Z.of_N (128 + 8)) (Z.of_N (253 - (128 + 8) - 8))) as [_|C]; [|lia].
  rewrite uint64_of_int_nonneg by lia. f_equal. f_equal. lia.
Qed.

(* THEOREM decode_encode *)
Theorem decode_encode v rest : v < two64 -> decode (encode v ++ rest) = Some (rest, v).
Proof.
  intros Hv. destruct (N.le_gt_cases v intSmall) as [H|H].
  - rewrite encode_small by exact H. cbn [app].
    rewrite decode_single by lia. f_equal. f_equal. lia.
  - rewrite encode_big by exact H. destruct (width_bounds v H Hv) as [W B].
    apply decode_w; assumption.
Qed.

(* the tags below intZero (which cockroach uses for negative varints) are not rejected: the
   negative int [length] passes the [length <= intSmall] test and is converted to uint64 *)
Lemma decode_low_tag b0 rest : b0 < intZero ->
  decode (b0 :: rest) = Some (rest, two64 - intZero + b0).
Proof.
  intros H. unfold decode, intSmall, intMax, intZero, intMin, intMaxWidth in *.
  destruct (Z.leb_spec (Z.of_N b0 - Z.of_N (128 + 8)) (Z.of_N (253 - (128 + 8) - 8))) as [_|C]; [|lia].
  rewrite uint64_of_int_neg by lia. rewrite two64_val. f_equal. f_equal. lia.
Qed.

Lemma some_pair_inj {A B} (a a' : A) (b b' : B) : Some (a, b) = Some (a', b') -> a = a' /\ b = b'.
Proof. intros H. inversion H. auto. Qed.

(* what the decoder accepts, exactly *)
Inductive accepted (bs rest : list N) (v : N) : Prop :=
| acc_single b0 :          (* the canonical one-byte form of 0..109 *)
    bs = b0 :: rest -> intZero <= b0 <= intZero + intSmall -> v = b0 - intZero ->
    accepted bs rest v
| acc_prefixed n :         (* tag 246..253, then n = 1..8 payload bytes, big endian; canonical
                              iff n = width v (v > 109, no leading zero byte) *)
    (1 <= n <= 8)%nat -> v < 256 ^ N.of_nat n -> bs = encode_w n v ++ rest ->
    accepted bs rest v
| acc_low_tag b0 :         (* a tag below 136 yields a value in 2^64-136 .. 2^64-1 *)
    bs = b0 :: rest -> b0 < intZero -> v = two64 - intZero + b0 ->
    accepted bs rest v.

(* THEOREM decode_total: on arbitrary input the decoder either fails or returns exactly the
   value and remainder of one of the three accepted forms *)
Theorem decode_total bs rest v : bytes_ok bs ->
  decode bs = Some (rest, v) -> accepted bs rest v /\ v < two64.
Proof.
  intros Hok H. destruct bs as [|b0 r]; [discriminate|].
  inversion Hok as [|? ? Hb0 Hr]; subst.
  destruct (N.lt_ge_cases b0 intZero) as [Hlow|Hge].
  { rewrite decode_low_tag in H by exact Hlow. apply some_pair_inj in H as [<- <-].
    split; [eapply acc_low_tag; eauto|].
    unfold intZero, intMin, intMaxWidth in *. rewrite two64_val. lia. }
  destruct (N.le_gt_cases b0 (intZero + intSmall)) as [Hs|Hbig].
  { rewrite decode_single in H by lia. apply some_pair_inj in H as [<- <-].
    split; [eapply acc_single; eauto|].
    unfold intSmall, intMax, intZero, intMin, intMaxWidth in *. rewrite two64_val. lia. }
  unfold decode in H.
  unfold intSmall, intMax, intZero, intMin, intMaxWidth in *.
  destruct (Z.leb_spec (Z.of_N b0 - Z.of_N (128 + 8)) (Z.of_N (253 - (128 + 8) - 8))) as [C|_]; [lia|].
  set (L := (Z.of_N b0 - Z.of_N (128 + 8) - Z.of_N (253 - (128 + 8) - 8))%Z) in H.
  destruct (Z.ltb_spec L 0) as [C|L0]; [discriminate|].
  destruct (Z.gtb_spec L 8) as [C|L8]; [discriminate|].
  cbn [orb] in H.
  destruct (Z.ltb_spec (Z.of_nat (length r)) L) as [C|Len]; [discriminate|].
  apply some_pair_inj in H as [<- <-].
  set (n := Z.to_nat L) in *.
  assert (Hn : (1 <= n <= 8)%nat) by (unfold n, L in *; lia).
  assert (Hlen : length (firstn n r) = n) by (apply firstn_length_le; unfold n; lia).
  assert (Hpok : bytes_ok (firstn n r)).
  { unfold bytes_ok. rewrite <- (firstn_skipn n r) in Hr. apply Forall_app in Hr. tauto. }
  rewrite dec_fold0 by (try exact Hpok; lia).
  pose proof (be_val_lt _ Hpok) as Hlt. rewrite Hlen in Hlt.
  split.
  - apply (acc_prefixed _ _ _ n); [exact Hn|exact Hlt|].
    unfold encode_w. rewrite <- app_comm_cons. f_equal.
    + unfold intMax, n, L. lia.
    + rewrite <- Hlen at 1. rewrite be_be_val by exact Hpok. symmetry. apply firstn_skipn.
  - eapply N.lt_le_trans; [exact Hlt|]. change two64 with (256 ^ 8).
    apply N.pow_le_mono_r; [discriminate|lia].
Qed.

(* ... and conversely each accepted form decodes (decode_single, decode_w, decode_low_tag) *)
Theorem decode_accepts bs rest v : accepted bs rest v -> decode bs = Some (rest, v).
Proof.
  intros [b0 -> Hb ->|n Hn Hv ->|b0 -> Hb ->].
  - apply decode_single. exact Hb.
  - apply decode_w; assumption.
  - apply decode_low_tag. exact Hb.
Qed.

(* the error returns *)
Lemma decode_empty : decode [] = None.
Proof. reflexivity. Qed.

Lemma decode_bad_tag b0 r : intMax < b0 -> decode (b0 :: r) = None.
Proof.
  intros H. unfold decode, intSmall, intMax, intZero, intMin, intMaxWidth in *.
  destruct (Z.leb_spec (Z.of_N b0 - Z.of_N (128 + 8)) (Z.of_N (253 - (128 + 8) - 8))) as [C|_]; [lia|].
  destruct (Z.gtb_spec (Z.of_N b0 - Z.of_N (128 + 8) - Z.of_N (253 - (128 + 8) - 8)) 8) as [_|C]; [|lia].
  rewrite orb_true_r. reflexivity.
Qed.

Lemma decode_truncated n r : (1 <= n <= 8)%nat -> (length r < n)%nat ->
  decode ((intMax - 8 + N.of_nat n) :: r) = None.
Proof.
  intros Hn Hr. unfold decode, intSmall, intMax, intZero, intMin, intMaxWidth in *.
  match goal with |- context [(?a <=? ?b)%Z] => destruct (Z.leb_spec a b) as [C|_]; [lia|] end.
  match goal with |- context [(?a <? 0)%Z] => destruct (Z.ltb_spec a 0) as [C|_]; [lia|] end.
  match goal with |- context [(?a >? 8)%Z] => destruct (Z.gtb_spec a 8) as [C|_]; [lia|] end.
  cbn [orb].
  match goal with |- context [(?a <? ?b)%Z] => destruct (Z.ltb_spec a b) as [_|C]; [reflexivity|lia] end.
Qed.

(* a decoded value comes from the canonical encoding unless it used a padded or low-tag form:
   on keys the encoder wrote, decode is the inverse, and nothing else decodes to a key's
   epoch with the same length-minimal shape *)
Corollary decode_canonical bs rest v : bytes_ok bs -> decode bs = Some (rest, v) ->
  bs = encode v ++ rest \/
  (exists n, (1 <= n <= 8)%nat /\ n <> width v /\ bs = encode_w n v ++ rest) \/
  (exists b0, b0 < intZero /\ bs = b0 :: rest).
Proof.
  intros Hok H. destruct (decode_total _ _ _ Hok H) as [[b0 -> Hb ->|n Hn Hv ->|b0 -> Hb ->] Hlt].
  - left. rewrite encode_small by lia. cbn [app]. f_equal. lia.
  - destruct (Nat.eq_dec n (width v)) as [E|NE].
    + left. subst n. rewrite encode_big; [reflexivity|].
      destruct (N.le_gt_cases v intSmall) as [S|S]; [|exact S].
      rewrite width_small in Hn by exact S. lia.
    + right. left. exists n. auto.
  - right. right. exists b0. auto.
Qed.

(* ---------- 5: order ---------- *)

Lemma bcmp_refl a : bcmp a a = Eq.
Proof. induction a as [|x a IH]; cbn; [reflexivity|]. rewrite N.compare_refl. exact IH. Qed.

Lemma bcmp_eq a b : bcmp a b = Eq <-> a = b.
Proof.
  revert b; induction a as [|x a IH]; destruct b as [|y b]; cbn; split; intro H;
    try discriminate; try reflexivity.
  - destruct (x ?= y) eqn:E; try discriminate. apply N.compare_eq in E. apply IH in H. congruence.
  - inversion H; subst. rewrite N.compare_refl. apply bcmp_refl.
Qed.

Lemma bcmp_snoc l1 l2 x y : length l1 = length l2 ->
  bcmp (l1 ++ [x]) (l2 ++ [y]) = match bcmp l1 l2 with Eq => x ?= y | c => c end.
Proof.
  revert l2; induction l1 as [|a l1 IH]; intros [|b l2] H; try discriminate.
  - cbn. destruct (x ?= y); reflexivity.
  - cbn [app bcmp]. destruct (a ?= b); try reflexivity. apply IH. cbn in H. lia.
Qed.

Lemma be_cmp n a b : a < 256 ^ N.of_nat n -> b < 256 ^ N.of_nat n ->
  bcmp (be n a) (be n b) = (a ?= b).
Proof.
  revert a b; induction n as [|n IH]; intros a b Ha Hb.
  - cbn in Ha, Hb. assert (a = 0) by lia. assert (b = 0) by lia. subst. reflexivity.
  - cbn [be]. rewrite bcmp_snoc by (rewrite !be_length; reflexivity).
    rewrite pow256_succ in Ha, Hb.
    rewrite !shr8, !byte_mod.
    rewrite IH by (apply N.div_lt_upper_bound; [discriminate|assumption]).
    destruct (div_mod256 a) as [Ea Ma]. destruct (div_mod256 b) as [Eb Mb].
    destruct (N.compare_spec (a / 256) (b / 256)) as [E|E|E];
      destruct (N.compare_spec (a mod 256) (b mod 256)) as [F|F|F];
      destruct (N.compare_spec a b) as [G|G|G]; try reflexivity; lia.
Qed.

Lemma add_cmp_l p a b : (p + a ?= p + b) = (a ?= b).
Proof.
  destruct (N.compare_spec a b) as [E|E|E];
    [subst; apply N.compare_refl|apply N.compare_lt_iff; lia|apply N.compare_gt_iff; lia].
Qed.

(* bytes.Compare on encodings is numeric comparison *)
Lemma encode_cmp a b : a < two64 -> b < two64 -> bcmp (encode a) (encode b) = (a ?= b).
Proof.
  intros Ha Hb.
  destruct (N.le_gt_cases a intSmall) as [Sa|Sa]; destruct (N.le_gt_cases b intSmall) as [Sb|Sb].
  - rewrite !encode_small by assumption. cbn [bcmp].
    rewrite add_cmp_l. destruct (a ?= b); reflexivity.
  - rewrite encode_small, encode_big by assumption. unfold encode_w. cbn [bcmp].
    destruct (width_bounds b Sb Hb) as [W _].
    assert (L : intZero + a < intMax - 8 + N.of_nat (width b))
      by (unfold intSmall, intMax, intZero, intMin, intMaxWidth in *; lia).
    apply N.compare_lt_iff in L. rewrite L. symmetry. apply N.compare_lt_iff. lia.
  - rewrite encode_big, (encode_small b) by assumption. unfold encode_w. cbn [bcmp].
    destruct (width_bounds a Sa Ha) as [W _].
    assert (L : intZero + b < intMax - 8 + N.of_nat (width a))
      by (unfold intSmall, intMax, intZero, intMin, intMaxWidth in *; lia).
    apply N.compare_gt_iff in L. rewrite L. symmetry. apply N.compare_gt_iff. lia.
  - rewrite !encode_big by assumption. unfold encode_w. cbn [bcmp].
    destruct (width_bounds a Sa Ha) as [Wa Ba]. destruct (width_bounds b Sb Hb) as [Wb Bb].
    rewrite add_cmp_l.
    destruct (N.compare_spec (N.of_nat (width a)) (N.of_nat (width b))) as [E|E|E].
    + apply Nat2N.inj in E. rewrite E in *. apply be_cmp; assumption.
    + symmetry. apply N.compare_lt_iff.
      destruct (N.lt_ge_cases a b) as [G|G]; [exact G|]. pose proof (width_mono b a G). lia.
    + symmetry. apply N.compare_gt_iff.
      destruct (N.lt_ge_cases b a) as [G|G]; [exact G|]. pose proof (width_mono a b G). lia.
Qed.

(* THEOREM encode_order: byte order of keys = numeric order of epochs *)
Theorem encode_order a b : a < two64 -> b < two64 -> (a < b <-> lex_lt (encode a) (encode b)).
Proof.
  intros Ha Hb. unfold lex_lt. rewrite encode_cmp by assumption. symmetry. apply N.compare_lt_iff.
Qed.

(* THEOREM encode_injective *)
Theorem encode_injective a b : a < two64 -> b < two64 -> encode a = encode b -> a = b.
Proof.
  intros Ha Hb E. apply N.compare_eq. rewrite <- encode_cmp by assumption.
  rewrite E. apply bcmp_refl.
Qed.

(* THEOREM encode_prefix_free: no encoding is a prefix of another one (so two epochs never
   name the same bucket, nor one a bucket "inside" the other's key) *)
Theorem encode_prefix_free a b x : a < two64 -> b < two64 ->
  encode b = encode a ++ x -> a = b /\ x = [].
Proof.
  intros Ha Hb E.
  pose proof (decode_encode b [] Hb) as D1. rewrite app_nil_r, E in D1.
  rewrite decode_encode in D1 by exact Ha. inversion D1. auto.
Qed.

(* ---------- 6: the newest snapshot ---------- *)

Lemma max_epoch_lt e es : e < two64 -> Forall (fun x => x < two64) es -> max_epoch e es < two64.
Proof.
  intros He H. revert e He. induction H as [|x es Hx _ IH]; intros e He; [exact He|].
  cbn [max_epoch]. apply IH. lia.
Qed.

(* THEOREM max_key_is_max_epoch: among the buckets of epochs e :: es the last key in byte
   order (what cursor.Last() returns: "the newest snapshot") is the key of the largest epoch,
   and it decodes to that epoch *)
Theorem max_key_is_max_epoch e es : e < two64 -> Forall (fun x => x < two64) es ->
  max_key (encode e) (map encode es) = encode (max_epoch e es) /\
  decode (max_key (encode e) (map encode es)) = Some ([], max_epoch e es).
Proof.
  intros He H.
  assert (K : max_key (encode e) (map encode es) = encode (max_epoch e es)).
  { revert e He. induction H as [|x es Hx _ IH]; intros e He; [reflexivity|].
    cbn [map max_key max_epoch]. rewrite encode_cmp by assumption.
    destruct (N.compare_spec e x) as [E|E|E].
    - subst x. rewrite N.max_id. apply IH. exact He.
    - rewrite N.max_r by lia. apply IH. exact Hx.
    - rewrite N.max_l by lia. apply IH. exact He. }
  split; [exact K|]. rewrite K.
  rewrite <- (app_nil_r (encode _)). apply decode_encode. apply max_epoch_lt; assumption.
Qed.

(* a cursor walks the keys in byte order: that is epoch order *)
Theorem keys_sorted_iff_epochs_sorted es : Forall (fun x => x < two64) es ->
  (StronglySorted lex_lt (map encode es) <-> StronglySorted N.lt es).
Proof.
  induction 1 as [|x es Hx Hes IH]; cbn [map].
  - split; constructor.
  - split; intros S; inversion S as [|? ? S1 S2]; subst; constructor; try tauto.
    + rewrite Forall_forall in *. intros y Hy. apply encode_order; auto.
      apply S2. apply in_map. exact Hy.
    + rewrite Forall_forall in *. intros k Hk. apply in_map_iff in Hk as [y [<- Hy]].
      apply encode_order; auto.
Qed.

(* ---------- 7: the hypotheses are satisfiable, and the forms on concrete values ---------- *)

Example ex_encode_boundary :
  encode 0 = [136] /\ encode 109 = [245] /\ encode 110 = [246; 110] /\ encode 255 = [246; 255] /\
  encode 256 = [247; 1; 0] /\ encode (two64 - 1) = [253; 255; 255; 255; 255; 255; 255; 255; 255].
Proof. vm_compute. repeat split. Qed.

Example ex_decode_encode :
  109 < two64 /\ decode (encode 109 ++ [7]) = Some ([7], 109) /\
  decode (encode 65536 ++ [7]) = Some ([7], 65536).
Proof. vm_compute. repeat split. Qed.

Example ex_order :
  109 < two64 /\ 110 < two64 /\ 109 < 110 /\ lex_lt (encode 109) (encode 110) /\
  lex_lt (encode 255) (encode 256) /\ lex_lt (encode 65535) (encode 65536).
Proof. vm_compute. repeat split. Qed.

(* accepted non-canonical forms: 5 padded to two bytes; tag 0 *)
Example ex_decode_noncanonical :
  bytes_ok [247; 0; 5] /\ decode [247; 0; 5] = Some ([], 5) /\ encode 5 = [141] /\
  decode [0; 9] = Some ([9], two64 - 136) /\
  decode [254] = None /\ decode [247; 1] = None /\ decode [] = None.
Proof. vm_compute. repeat split; repeat constructor. Qed.

Example ex_prefix_free :
  300 < two64 /\ encode 300 = [247; 1; 44] /\ forall x, encode 300 <> encode 1 ++ x.
Proof. vm_compute. repeat split. intros x H. discriminate. Qed.

Example ex_max_key :
  Forall (fun x => x < two64) [110; 3; 70000] /\
  max_key (encode 109) (map encode [110; 3; 70000]) = encode 70000 /\
  max_epoch 109 [110; 3; 70000] = 70000.
Proof. split; [repeat constructor|split; vm_compute; reflexivity]. Qed.
