(* Scorch — snapshot retention arithmetic (C13): which persisted snapshots (rollback points) the
   purger keeps.  DEFINITIONS ONLY.  Transcribed from /repo/index/scorch/persister.go:

     getTimeSeriesSnapshots   -> [time_series]
     Scorch.getProtectedSnapshots -> [get_protected]
     newCheckPoints           -> [new_checkpoints]
     Scorch.getBoundaryCheckPoint -> [get_boundary]
     Scorch.getLiveSnapshots      -> [get_live]     (rootBoltSnapshotMetaData = the [meta] argument,
                                                       time.Now() = the [now] argument)
     Scorch.removeOldBoltSnapshots -> [partition_eligible], [remove_old]

   Conventions.  A time.Time is its Unix time in nanoseconds ([Z]); a time.Duration is a [Z] that
   is kept inside int64 by the explicit [dur_sub] (Time.Sub saturates) and [wrap64] (Duration
   multiplication and negation wrap).  Epochs are [Z].  Lists of snapshots are newest first, as
   rootBoltSnapshotMetaData returns them (bolt cursor from Last() backwards = descending epoch).

   map[uint64]time.Time.  The Go code only ever inserts into these maps under an
   "if _, ok := m[epoch]; !ok" guard (or into an empty map), never overwrites and never deletes;
   such a map is modelled as the association list of its entries in insertion order ([pmap]),
   membership by epoch.  The only place where Go's map ITERATION ORDER reaches a result is
   newCheckPoints: it collects the keys by ranging over the map and stable-sorts them by time
   stamp, newest first, so snapshots with EQUAL time stamps come out in an order that Go leaves
   unspecified.  [new_checkpoints] fixes one such order (insertion order among equals); the
   correspondence check compares the time-stamp sequence exactly and the entries as a set, and
   RetentionProofs.boundary_only_timestamps shows that the only consumer of s.checkPoints
   (getBoundaryCheckPoint) reads nothing but the time-stamp sequence, which every admissible order
   shares (RetentionProofs.sorted_perm_same_timestamps). *)
From Coq Require Import ZArith List Bool Sorted.
Import ListNotations.
Local Open Scope Z_scope.

Record snap := mkSnap { s_epoch : Z; s_ts : Z }.

Definition snap_eqb (a b : snap) : bool := (s_epoch a =? s_epoch b) && (s_ts a =? s_ts b).

(* ---------------------------------------------------------------- machine arithmetic *)
Definition min_i64 : Z := - 2 ^ 63.
Definition max_i64 : Z := 2 ^ 63 - 1.

(* int64 two's complement wrap-around (Duration * Duration, -Duration) *)
Definition wrap64 (x : Z) : Z := (x + 2 ^ 63) mod 2 ^ 64 - 2 ^ 63.

(* time.Time.Sub: "if the result exceeds the maximum (or minimum) value that can be stored in a
   Duration, the maximum (or minimum) duration will be returned" *)
Definition dur_sub (a b : Z) : Z :=
  let d := a - b in
  if d <? min_i64 then min_i64 else if max_i64 <? d then max_i64 else d.

(* ---------------------------------------------------------------- map[uint64]time.Time *)
Definition pmap := list snap.

Definition mem_epoch (e : Z) (m : pmap) : bool := existsb (fun s => s_epoch s =? e) m.

Definition default_snap : snap := mkSnap 0 0.
Definition nth_snap (l : list snap) (i : nat) : snap := nth i l default_snap.

(* ---------------------------------------------------------------- getTimeSeriesSnapshots *)
(* The loop  for i := ptr-1; i >= 0 && numSnapshotsProtected < maxDataPoints; i--  with
   [k = i + 1] as the structurally decreasing argument; state = (rv, ptr, numSnapshotsProtected). *)
Fixpoint ts_loop (maxp interval : Z) (snaps : list snap) (k : nat)
         (rv : pmap) (ptr : nat) (cnt : Z) : pmap :=
  match k with
  | O => rv
  | S i =>
      if cnt <? maxp then
        let since := dur_sub (s_ts (nth_snap snaps i)) (s_ts (nth_snap snaps ptr)) in
        if interval <=? since then
          let idx := if interval <? since then S i else i in
          let c := nth_snap snaps idx in
          if mem_epoch (s_epoch c) rv then ts_loop maxp interval snaps i rv ptr cnt
          else ts_loop maxp interval snaps i (rv ++ [c]) idx (cnt + 1)
        else ts_loop maxp interval snaps i rv ptr cnt
      else rv
  end.

Definition time_series (maxp interval : Z) (snaps : list snap) : pmap :=
  if (interval =? 0) || (Nat.eqb (length snaps) 0) || (maxp <=? 0) then []
  else
    let ptr := (length snaps - 1)%nat in
    ts_loop maxp interval snaps ptr [nth_snap snaps ptr] ptr 1.

(* ---------------------------------------------------------------- getProtectedSnapshots *)
(* the loop  for i := 1; i < len(live) && numProtected < N; i++  over live[1:] *)
Fixpoint fill (N : Z) (l : list snap) (p : pmap) (cnt : Z) : pmap :=
  match l with
  | [] => p
  | s :: l' =>
      if cnt <? N then
        if mem_epoch (s_epoch s) p then fill N l' p cnt
        else fill N l' (p ++ [s]) (cnt + 1)
      else p
  end.

(* [None]: the Go function panics (liveSnapshots[0] on an empty slice); removeOldBoltSnapshots
   returns before calling it when there are no live snapshots. *)
Definition get_protected (N interval : Z) (live : list snap) : option pmap :=
  match live with
  | [] => None
  | latest :: rest =>
      let p0 := time_series (N - 1) interval live in
      let p1 := if mem_epoch (s_epoch latest) p0 then p0 else p0 ++ [latest] in
      Some (fill N rest p1 (Z.of_nat (length p1)))
  end.

(* ---------------------------------------------------------------- newCheckPoints *)
(* stable sort, newest time stamp first: less(i,j) = ts(i).After(ts(j)) *)
Fixpoint insert_desc (x : snap) (l : list snap) : list snap :=
  match l with
  | [] => [x]
  | y :: l' => if s_ts y <=? s_ts x then x :: l else y :: insert_desc x l'
  end.

(* folding from the right (the head is inserted last, in front of its equals) keeps equal time
   stamps in their original relative order *)
Definition new_checkpoints (p : pmap) : list snap := fold_right insert_desc [] p.

(* ---------------------------------------------------------------- getBoundaryCheckPoint *)
(* float64 (rollbackRetentionFactor) as its IEEE-754 bit pattern; finite and non-negative
   (scorch.go rejects a configured factor outside [0,1]).  value = m * 2^e *)
Definition f64_decode (bits : Z) : Z * Z :=
  let ex := Z.shiftr bits 52 mod 2048 in
  let fr := bits mod 2 ^ 52 in
  if ex =? 0 then (fr, -1074) else (fr + 2 ^ 52, ex - 1075).

(* int(math.Floor(float64(n) * f)): the exact product n*m*2^e rounded to 53 significant bits,
   ties to even, then floored.  (n < 2^53 converts exactly; a product of a finite f <= 1 with such
   an n neither overflows nor lands in the subnormal range with lost bits.) *)
Definition mul_floor (n bits : Z) : Z :=
  let '(m, e) := f64_decode bits in
  let P := n * m in
  let k := Z.max 0 (Z.log2 P + 1 - 53) in
  let q := Z.shiftr P k in
  let r := P - Z.shiftl q k in
  let half := Z.shiftl 1 (k - 1) in
  let q' := if k =? 0 then q
            else if (half <? r) || ((r =? half) && Z.odd q) then q + 1 else q in
  let sh := e + k in
  if 0 <=? sh then Z.shiftl q' sh else Z.shiftr q' (- sh).

Definition get_boundary (fbits : Z) (cps : list snap) (ts : Z) : Z :=
  let n := Z.of_nat (length cps) in
  if n =? 0 then ts
  else
    let idx0 := mul_floor n fbits in
    let idx := if n <=? idx0 then n - 1 else idx0 in
    let b := s_ts (nth_snap cps (Z.to_nat idx)) in
    if b <? ts then b else ts.

(* ---------------------------------------------------------------- getLiveSnapshots *)
(* [None]: meta[:numSnapshotsToKeep] with a negative bound panics. *)
Definition get_live (N interval fbits : Z) (cps : list snap) (now : Z) (meta : list snap)
  : option (list snap) :=
  match meta with
  | [] => Some []
  | m0 :: rest =>
      if interval <=? 0 then
        if Z.of_nat (length meta) <=? N then Some meta
        else if N <? 0 then None
        else Some (firstn (Z.to_nat N) meta)
      else
        let extra := N - 1 in
        if extra <=? 0 then Some [m0]
        else
          let expiration := wrap64 (extra * interval) in
          let cutoff0 := now + wrap64 (- expiration) in
          let cutoff :=
            match find (fun s => s_ts s <? cutoff0) rest with
            | Some s =>
                let b := get_boundary fbits cps (s_ts s) in
                if b <? s_ts s then b else cutoff0
            | None => cutoff0
            end in
          Some (m0 :: filter (fun s => negb (s_ts s <? cutoff)) rest)
  end.

(* ---------------------------------------------------------------- removeOldBoltSnapshots *)
(* the loop over s.eligibleForRemoval: (epochsToRemove, newEligible), both in the order met *)
Definition partition_eligible (prot : pmap) (eligible : list Z) : list Z * list Z :=
  fold_left (fun acc e =>
               if mem_epoch e prot then (fst acc, snd acc ++ [e])
               else (fst acc ++ [e], snd acc))
            eligible ([], []).

(* the retention part of the persister's state *)
Record rstate := mkR {
  r_bolt : list snap;      (* snapshot buckets of root.bolt with their time stamps, newest first *)
  r_eligible : list Z;     (* s.eligibleForRemoval *)
  r_cps : list snap        (* s.checkPoints *)
}.

Definition in_Z (e : Z) (l : list Z) : bool := existsb (Z.eqb e) l.

(* One removeOldBoltSnapshots call: (new state, numRemoved).  DeleteBucket of an epoch that has
   no bucket counts as removed (ErrBucketNotFound is cleared); other bolt errors are not modelled.
   [None] only where Go panics (see get_live / get_protected). *)
Definition remove_old (N interval fbits now : Z) (st : rstate) : option (rstate * Z) :=
  match get_live N interval fbits (r_cps st) now (r_bolt st) with
  | None => None
  | Some [] => Some (st, 0)
  | Some live =>
      match get_protected N interval live with
      | None => None
      | Some prot =>
          let '(to_remove, new_eligible) := partition_eligible prot (r_eligible st) in
          Some (mkR (filter (fun s => negb (in_Z (s_epoch s) to_remove)) (r_bolt st))
                    new_eligible
                    (new_checkpoints prot),
                Z.of_nat (length to_remove))
      end
  end.

(* ================================================================ SPEC (independent of the code) *)
(* The newest [n] of a newest-first list. *)
Definition newest_n (n : Z) (l : list snap) : list snap := firstn (Z.to_nat n) l.

(* how many rollback points the configuration asks for: N, but never fewer than the latest one *)
Definition wanted (N : Z) (available : nat) : nat := Nat.min (Z.to_nat (Z.max 1 N)) available.

(* removal choice: an epoch is removed iff it is eligible and not protected *)
Definition spec_to_remove (prot_epochs eligible : list Z) : list Z :=
  filter (fun e => negb (in_Z e prot_epochs)) eligible.
Definition spec_new_eligible (prot_epochs eligible : list Z) : list Z :=
  filter (fun e => in_Z e prot_epochs) eligible.

(* time stamps newest first (what a well-behaved wall clock gives) *)
Fixpoint ts_sorted (l : list snap) : Prop :=
  match l with
  | [] => True
  | a :: l' => (forall b, In b l' -> s_ts b <= s_ts a) /\ ts_sorted l'
  end.

(* newest time stamp first (the order newCheckPoints establishes) *)
Definition ts_desc (a b : snap) : Prop := s_ts b <= s_ts a.

(* strictly decreasing positions in a newest-first list = going from older to newer *)
Definition decreasing (l : list nat) : Prop := StronglySorted (fun a b => (b < a)%nat) l.

(* a candidate property of the time series that does NOT hold (see RetentionProofs2): any two
   sampled points are at least one sampling interval apart *)
Definition spaced (interval : Z) (p : pmap) : Prop :=
  forall a b, In a p -> In b p -> a <> b -> interval <= Z.abs (s_ts a - s_ts b).
