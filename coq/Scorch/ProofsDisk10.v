(* Scorch engine — persistence proofs, part 10: the INTERNAL VALUES of persisted snapshots.

   [DInv] (ProofsDisk1) ties the documents of every published root and every committed record to
   the replay of a whole-batch prefix.  This file does the same for the internal key/value store:
   the internal values of the current root, of every published root of this life, of the bucket in
   the persister's open transaction and of every committed record (= every rollback point) are the
   SetInternal/DeleteInternal calls of the batches that snapshot covers, replayed one call at a
   time ([spec_internal]).  [ieff evs] = the internal calls of the batches in effect (parallel to
   [eff evs]; mirrors DiskCorr.x_ieff). *)
From Coq Require Import ZArith List Bool Arith Lia Permutation.
From Verif Require Import Scorch.Model Scorch.ProofsCore1 Scorch.ProofsCore2 Scorch.ProofsCore3
  Scorch.Disk Scorch.ProofsDisk1 Scorch.ProofsDisk3 Scorch.ProofsDisk4 Scorch.ProofsDisk5 Scorch.ProofsDisk6.
Import ListNotations.
Local Open Scope Z_scope.

Definition iops := list (Z * option Z).

Definition step_iopsl (e : event) : list iops :=
  match e with EIntroduce _ _ io => [io] | _ => [] end.

Definition ieff_step (d : dstate) (acc : list iops) (ev : devent) : list iops :=
  match ev with
  | DCore e => acc ++ step_iopsl e
  | DRecover => firstn (covered d) acc
  | _ => acc
  end.

Fixpoint ieff_from (d : dstate) (acc : list iops) (evs : list devent) : list iops :=
  match evs with
  | [] => acc
  | ev :: evs' =>
      match dstep d ev with
      | Some d' => ieff_from d' (ieff_step d acc ev) evs'
      | None => ieff_step d acc ev
      end
  end.

Definition ieff (evs : list devent) : list iops := ieff_from dinit [] evs.

(* internal values after the first k batches in effect (DiskCorr.ints_after) *)
Definition ival (ief : list iops) (k : nat) (key : Z) : option Z :=
  spec_internal (concat (firstn k ief)) key.

Definition int_ok (ief : list iops) (nb : list (Z * nat)) (e : Z) (ints : list (Z * Z)) : Prop :=
  exists k, assocZ e nb = Some k /\ forall key, assoc_first key ints = ival ief k key.

Record IInv (ief : list iops) (d : dstate) : Prop := mkIInv {
  ii_len : d_batches d = length ief;
  ii_cur : d_up d = true ->
           forall key, assoc_first key (internal (d_core d)) = spec_internal (concat ief) key;
  ii_pub : forall e ri, e <= epoch (d_core d) -> assocZ e (d_pub d) = Some ri ->
                        int_ok ief (d_nb d) e (snd ri);
  ii_bolt : forall r, In r (d_bolt d) -> int_ok ief (d_nb d) (br_epoch r) (br_int r);
  ii_tx : forall r, d_tx d = Some r -> int_ok ief (d_nb d) (br_epoch r) (br_int r)
}.

Lemma IInv_init : IInv [] dinit.
Proof.
  constructor; cbn [dinit d_batches d_up d_core d_pub d_nb d_bolt d_tx init internal epoch].
  - reflexivity.
  - intros _ key. reflexivity.
  - intros e ri He Hri. cbn [assocZ] in Hri. destruct (0 =? e) eqn:E; [|discriminate].
    injection Hri as Hri. subst ri. apply Z.eqb_eq in E. subst e. exists 0%nat.
    split; [reflexivity|]. intros key. reflexivity.
  - intros r [].
  - intros r H. discriminate.
Qed.

Lemma ival_all : forall ief key, ival ief (length ief) key = spec_internal (concat ief) key.
Proof. intros. unfold ival. rewrite firstn_all. reflexivity. Qed.

Lemma int_ok_transport : forall ief ief' nb nb' e ints,
  int_ok ief nb e ints ->
  assocZ e nb' = assocZ e nb ->
  (forall k, assocZ e nb = Some k -> firstn k ief' = firstn k ief) ->
  int_ok ief' nb' e ints.
Proof.
  intros ief ief' nb nb' e ints [k [Hk Hv]] Hnb Hf. exists k. split; [rewrite Hnb; exact Hk|].
  intros key. unfold ival. rewrite (Hf k Hk). apply Hv.
Qed.

(* frame: events that leave the core, the ghost tables and the batch count alone *)
Lemma IInv_frame : forall ief d d',
  IInv ief d ->
  epoch (d_core d') = epoch (d_core d) ->
  (d_up d' = true -> d_up d = true /\ internal (d_core d') = internal (d_core d)) ->
  d_pub d' = d_pub d -> d_nb d' = d_nb d -> d_batches d' = d_batches d ->
  (forall r, In r (d_bolt d') -> int_ok ief (d_nb d) (br_epoch r) (br_int r)) ->
  (forall r, d_tx d' = Some r -> int_ok ief (d_nb d) (br_epoch r) (br_int r)) ->
  IInv ief d'.
Proof.
  intros ief d d' I Hep Hup Hpub Hnb Hb Hbolt Htx.
  constructor; rewrite ?Hep, ?Hpub, ?Hnb, ?Hb.
  - exact (ii_len ief d I).
  - intros Hu. destruct (Hup Hu) as [Hu' Hc]. rewrite Hc. exact (ii_cur ief d I Hu').
  - exact (ii_pub ief d I).
  - exact Hbolt.
  - exact Htx.
Qed.

Lemma length_step_iopsl : forall ief e n,
  n = length ief ->
  (if is_introduce e then S n else n) = length (ief ++ step_iopsl e).
Proof.
  intros ief e n H. rewrite app_length. destruct e; cbn [is_introduce step_iopsl length]; lia.
Qed.

Lemma concat_step_iopsl : forall ief e, concat (ief ++ step_iopsl e) = concat ief ++ step_iops e.
Proof.
  intros ief e. rewrite concat_app. destruct e; cbn [step_iopsl step_iops concat]; rewrite ?app_nil_r; reflexivity.
Qed.

Lemma IInv_core : forall ef ief d e d',
  DInv ef d -> IInv ief d -> dstep d (DCore e) = Some d' -> IInv (ieff_step d ief (DCore e)) d'.
Proof.
  intros ef ief d e d' D I Hstep. cbn [ieff_step]. cbn [dstep] in Hstep.
  destruct (d_up d) eqn:Hup; cbn [negb] in Hstep; [|discriminate].
  destruct (step (d_core d) e) as [s'|] eqn:Hs; [|discriminate].
  match type of Hstep with (if ?c then _ else _) = _ => destruct c eqn:Hfiles end; [|discriminate].
  injection Hstep as Hstep. subst d'.
  assert (Ic := di_core ef d D Hup).
  assert (Hep := step_epoch _ _ _ Hs).
  assert (Hlen := length_step_iopsl ief e (d_batches d) (ii_len ief d I)).
  set (ief' := ief ++ step_iopsl e) in *.
  set (nb' := if is_introduce e then S (d_batches d) else d_batches d) in *.
  assert (Hcur : forall key, assoc_first key (internal s') = spec_internal (concat ief') key).
  { intros key. rewrite (step_internal _ _ _ Ic Hs key). unfold ief'. rewrite concat_step_iopsl.
    unfold spec_internal. rewrite spec_apply_ops_app. apply spec_apply_ops_ext.
    intros y. exact (ii_cur ief d I Hup y). }
  assert (Hlenef : length ef = length ief).
  { rewrite <- (di_batches ef d D). exact (ii_len ief d I). }
  assert (Hfirst : forall e0 k, e0 <= epoch (d_core d) -> assocZ e0 (d_nb d) = Some k ->
                                firstn k ief' = firstn k ief).
  { intros e0 k He0 Hk. unfold ief'. apply firstn_app_le. rewrite <- Hlenef.
    exact (di_nble ef d D e0 k He0 Hk). }
  assert (Hnb_old : forall e0, e0 <= epoch (d_core d) ->
            assocZ e0 (if swaps_root e then (epoch s', nb') :: d_nb d else d_nb d) = assocZ e0 (d_nb d)).
  { intros e0 He0. destruct (swaps_root e); [|reflexivity]. apply assocZ_cons_ne. lia. }
  assert (Hpub_old : forall e0, e0 <= epoch (d_core d) ->
            assocZ e0 (if swaps_root e then (epoch s', (root s', internal s')) :: d_pub d else d_pub d)
            = assocZ e0 (d_pub d)).
  { intros e0 He0. destruct (swaps_root e); [|reflexivity]. apply assocZ_cons_ne. lia. }
  assert (Hrec : forall r, br_epoch r <= epoch (d_core d) ->
            int_ok ief (d_nb d) (br_epoch r) (br_int r) ->
            int_ok ief' (if swaps_root e then (epoch s', nb') :: d_nb d else d_nb d) (br_epoch r) (br_int r)).
  { intros r Her Hr. eapply int_ok_transport; [exact Hr | exact (Hnb_old _ Her) |].
    intros k Hk. exact (Hfirst _ k Her Hk). }
  constructor; cbn [d_batches d_up d_core d_pub d_nb d_bolt d_tx].
  - exact Hlen.
  - intros _. exact Hcur.
  - intros e0 ri He0 Hri.
    destruct (Z_le_gt_dec e0 (epoch (d_core d))) as [Hle|Hgt].
    + rewrite (Hpub_old e0 Hle) in Hri.
      eapply int_ok_transport; [exact (ii_pub ief d I e0 ri Hle Hri) | exact (Hnb_old e0 Hle) |].
      intros k Hk. exact (Hfirst e0 k Hle Hk).
    + destruct (swaps_root e) eqn:Hsw; [|lia].
      assert (e0 = epoch s') by lia. subst e0.
      rewrite assocZ_cons_eq in Hri. injection Hri as Hri. subst ri. cbn [snd].
      exists nb'. split; [apply assocZ_cons_eq|]. intros key. rewrite Hlen.
      rewrite ival_all. apply Hcur.
  - intros r Hr. exact (Hrec r (proj1 (di_bolt ef d D r Hr)) (ii_bolt ief d I r Hr)).
  - intros r Hr. exact (Hrec r (proj1 (di_tx ef d D r Hr)) (ii_tx ief d I r Hr)).
Qed.

Lemma IInv_prepare : forall ef ief d r d',
  DInv ef d -> IInv ief d -> dstep d (DPrepare r) = Some d' -> IInv ief d'.
Proof.
  intros ef ief d r d' D I H.
  assert (D' := DInv_prepare ef d r d' D H).
  need_up H Hup.
  destruct (d_tx d) eqn:Htx; [discriminate|].
  destruct (assocZ (br_epoch r) (d_pub d)) as [[proot pint]|] eqn:Hpub; [|discriminate].
  destruct (rec_root (d_segdocs d) (br_segs r)) as [rr|] eqn:Hrr; [|discriminate].
  match type of H with (if ?c then _ else _) = _ => destruct c eqn:Hc end; [|discriminate].
  injection H as H. subst d'.
  apply andb_true_iff in Hc. destruct Hc as [Hc Hnd].
  apply andb_true_iff in Hc. destruct Hc as [Hc Hep].
  apply andb_true_iff in Hc. destruct Hc as [Hsame Hint].
  apply Z.leb_le in Hep.
  apply (IInv_frame ief d); cbn [d_batches d_up d_core d_pub d_nb d_bolt d_tx];
    try reflexivity; try exact I.
  - intros _. split; [exact Hup | reflexivity].
  - exact (ii_bolt ief d I).
  - intros r0 Hr0. injection Hr0 as Hr0. subst r0.
    destruct (ii_pub ief d I _ _ Hep Hpub) as [k [Hk Hv]]. cbn [snd] in Hv.
    exists k. split; [exact Hk|]. intros key. rewrite <- Hv.
    apply assoc_first_perm; [exact (canon_eq_perm _ _ Hint)|].
    destruct (di_tx ef _ D' r eq_refl) as [_ [_ [Hni _]]]. exact Hni.
Qed.

Lemma IInv_commit : forall ief d d',
  IInv ief d -> dstep d DCommit = Some d' -> IInv ief d'.
Proof.
  intros ief d d' I H. need_up H Hup.
  destruct (d_tx d) as [r|] eqn:Htx; [|discriminate].
  match type of H with (if ?c then _ else _) = _ => destruct c eqn:Hc end; [|discriminate].
  injection H as H. subst d'.
  apply (IInv_frame ief d); cbn [d_batches d_up d_core d_pub d_nb d_bolt d_tx];
    try reflexivity; try exact I.
  - intros _. split; [exact Hup | reflexivity].
  - intros r0 Hr0. apply in_app_or in Hr0. destruct Hr0 as [Hr0|[Hr0|[]]].
    + apply filter_In in Hr0. exact (ii_bolt ief d I r0 (proj1 Hr0)).
    + subst r0. exact (ii_tx ief d I r Htx).
  - intros r0 Hr0. discriminate.
Qed.

Lemma IInv_recover : forall ef ief d d',
  DInv ef d -> IInv ief d -> dstep d DRecover = Some d' -> IInv (firstn (covered d) ief) d'.
Proof.
  intros ef ief d d' D I H.
  destruct (recover_shape d d' H) as [n [r [Hup [En [Hr [Hfiles Hd']]]]]]. subst d'.
  assert (Hn : In n (d_bolt d)) by exact (newest_In _ _ En).
  destruct (di_bolt ef d D n Hn) as [Hen _].
  destruct (ii_bolt ief d I n Hn) as [k [Hk Hv]].
  assert (Hcov : covered d = k). { unfold covered. rewrite En, Hk. reflexivity. }
  rewrite Hcov.
  assert (Hlenef : length ef = length ief).
  { rewrite <- (di_batches ef d D). exact (ii_len ief d I). }
  assert (Hkle : (k <= length ief)%nat).
  { rewrite <- Hlenef. exact (di_nble ef d D _ k Hen Hk). }
  assert (Hlen : length (firstn k ief) = k) by (apply firstn_length_le; exact Hkle).
  assert (Hnb : forall e, assocZ e ((br_epoch n, k) :: d_nb d) = assocZ e (d_nb d)).
  { intros e. apply assocZ_shadow_same. exact Hk. }
  assert (Hfirst : forall e k0, e <= br_epoch n -> assocZ e (d_nb d) = Some k0 ->
                                firstn k0 (firstn k ief) = firstn k0 ief).
  { intros e k0 He Hk0. apply firstn_firstn_le.
    exact (di_mono ef d D e (br_epoch n) k0 k He Hen Hk0 Hk). }
  unfold recovered.
  constructor; cbn [d_batches d_up d_core d_pub d_nb d_bolt d_tx internal epoch].
  - symmetry. exact Hlen.
  - intros _ key. rewrite Hv. reflexivity.
  - intros e ri He Hri. destruct (Z.eq_dec e (br_epoch n)) as [Heq|Hne].
    + subst e. rewrite assocZ_cons_eq in Hri. injection Hri as Hri. subst ri. cbn [snd].
      exists k. split; [apply assocZ_cons_eq|]. intros key. unfold ival.
      rewrite firstn_firstn_le by lia. apply Hv.
    + rewrite assocZ_cons_ne in Hri by congruence.
      assert (He' : e <= epoch (d_core d)) by lia.
      eapply int_ok_transport; [exact (ii_pub ief d I e ri He' Hri) | apply Hnb |].
      intros k0 Hk0. exact (Hfirst e k0 He Hk0).
  - intros r0 Hr0.
    assert (Hle : br_epoch r0 <= br_epoch n) by exact (bsorted_max _ n (di_sorted ef d D) En r0 Hr0).
    eapply int_ok_transport; [exact (ii_bolt ief d I r0 Hr0) | apply Hnb |].
    intros k0 Hk0. exact (Hfirst _ k0 Hle Hk0).
  - intros r0 Hr0. discriminate.
Qed.

Lemma IInv_step : forall ef ief d ev d',
  DInv ef d -> IInv ief d -> dstep d ev = Some d' -> IInv (ieff_step d ief ev) d'.
Proof.
  intros ef ief d ev d' D I H. destruct ev; cbn [ieff_step].
  - exact (IInv_core ef ief d e d' D I H).
  - (* DFileWritten *)
    need_up H Hup. injection H as H. subst d'.
    apply (IInv_frame ief d); cbn [d_batches d_up d_core d_pub d_nb d_bolt d_tx]; try reflexivity; try exact I.
    + intros _. split; [exact Hup | reflexivity].
    + exact (ii_bolt ief d I).
    + exact (ii_tx ief d I).
  - exact (IInv_prepare ef ief d r d' D I H).
  - exact (IInv_commit ief d d' I H).
  - (* DAck *)
    need_up H Hup.
    match type of H with (if ?c then _ else _) = _ => destruct c end; [|discriminate].
    injection H as H. subst d'.
    apply (IInv_frame ief d); cbn [d_batches d_up d_core d_pub d_nb d_bolt d_tx]; try reflexivity; try exact I.
    + intros _. split; [exact Hup | reflexivity].
    + exact (ii_bolt ief d I).
    + exact (ii_tx ief d I).
  - (* DPurgeBolt *)
    need_up H Hup. destruct (newest (d_bolt d)) as [n|]; [|discriminate].
    match type of H with (if ?c then _ else _) = _ => destruct c end; [discriminate|].
    injection H as H. subst d'.
    apply (IInv_frame ief d); cbn [d_batches d_up d_core d_pub d_nb d_bolt d_tx]; try reflexivity; try exact I.
    + intros _. split; [exact Hup | reflexivity].
    + intros r Hr. apply filter_In in Hr. exact (ii_bolt ief d I r (proj1 Hr)).
    + exact (ii_tx ief d I).
  - (* DRemoveZap *)
    need_up H Hup.
    match type of H with (if ?c then _ else _) = _ => destruct c end; [discriminate|].
    injection H as H. subst d'.
    apply (IInv_frame ief d); cbn [d_batches d_up d_core d_pub d_nb d_bolt d_tx]; try reflexivity; try exact I.
    + intros _. split; [exact Hup | reflexivity].
    + exact (ii_bolt ief d I).
    + exact (ii_tx ief d I).
  - (* DMergeAbort *)
    need_up H Hup. injection H as H. subst d'.
    apply (IInv_frame ief d); cbn [d_batches d_up d_core d_pub d_nb d_bolt d_tx epoch internal]; try reflexivity; try exact I.
    + intros _. split; [exact Hup | reflexivity].
    + exact (ii_bolt ief d I).
    + exact (ii_tx ief d I).
  - (* DCopyStart *)
    need_up H Hup. injection H as H. subst d'.
    apply (IInv_frame ief d); cbn [d_batches d_up d_core d_pub d_nb d_bolt d_tx]; try reflexivity; try exact I.
    + intros _. split; [exact Hup | reflexivity].
    + exact (ii_bolt ief d I).
    + exact (ii_tx ief d I).
  - (* DCopyEnd *)
    need_up H Hup. injection H as H. subst d'.
    apply (IInv_frame ief d); cbn [d_batches d_up d_core d_pub d_nb d_bolt d_tx]; try reflexivity; try exact I.
    + intros _. split; [exact Hup | reflexivity].
    + exact (ii_bolt ief d I).
    + exact (ii_tx ief d I).
  - (* DCrash *)
    cbn [dstep] in H. injection H as H. subst d'.
    apply (IInv_frame ief d); cbn [d_batches d_up d_core d_pub d_nb d_bolt d_tx epoch]; try reflexivity; try exact I.
    + intros Hu. discriminate.
    + exact (ii_bolt ief d I).
    + intros r Hr. discriminate.
  - exact (IInv_recover ef ief d d' D I H).
  - (* DRollback *)
    cbn [dstep] in H. destruct (d_up d) eqn:Hup; [discriminate|].
    match type of H with (if ?c then _ else _) = _ => destruct c end; [|discriminate].
    injection H as H. subst d'.
    apply (IInv_frame ief d); cbn [d_batches d_up d_core d_pub d_nb d_bolt d_tx]; try reflexivity; try exact I.
    + intros Hu. discriminate.
    + intros r Hr. apply filter_In in Hr. exact (ii_bolt ief d I r (proj1 Hr)).
    + intros r Hr. discriminate.
Qed.

Lemma IInv_run : forall evs ef ief d d',
  DInv ef d -> IInv ief d -> drun d evs = Some d' -> IInv (ieff_from d ief evs) d'.
Proof.
  induction evs as [|ev evs IH]; intros ef ief d d' D I Hrun; cbn [drun ieff_from] in *.
  - injection Hrun as Hrun. subst d'. exact I.
  - destruct (dstep d ev) as [d1|] eqn:Hs; [|discriminate].
    exact (IH _ _ d1 d' (DInv_step ef d ev d1 D Hs) (IInv_step ef ief d ev d1 D I Hs) Hrun).
Qed.

Theorem reachable_IInv : forall evs d, drun dinit evs = Some d -> IInv (ieff evs) d.
Proof. intros evs d Hrun. exact (IInv_run evs [] [] dinit d DInv_init IInv_init Hrun). Qed.

(* [eff] and [ieff] run in parallel: one entry per batch in effect *)
Lemma eff_ieff_length : forall evs d, drun dinit evs = Some d -> length (eff evs) = length (ieff evs).
Proof.
  intros evs d Hrun. rewrite <- (di_batches _ d (reachable_DInv evs d Hrun)).
  exact (ii_len _ d (reachable_IInv evs d Hrun)).
Qed.

(* ---------- the C13 statements about internal values ---------- *)

(* every rollback point carries the internal values of the state it stands for: those of the
   first k batches in effect, k being the number of batches its record covers - the same k for
   which [rollback_points_are_states] gives the documents *)
Theorem rollback_point_internals : forall evs d,
  drun dinit evs = Some d ->
  forall r, In r (d_bolt d) ->
  exists k, assocZ (br_epoch r) (d_nb d) = Some k /\ (k <= length (ieff evs))%nat
    /\ forall key, assoc_first key (br_int r) = spec_internal (concat (firstn k (ieff evs))) key.
Proof.
  intros evs d Hrun r Hr.
  assert (D := reachable_DInv evs d Hrun). assert (I := reachable_IInv evs d Hrun).
  destruct (ii_bolt _ d I r Hr) as [k [Hk Hv]]. exists k. split; [exact Hk|]. split; [|exact Hv].
  rewrite <- (eff_ieff_length evs d Hrun).
  exact (di_nble _ d D _ k (proj1 (di_bolt _ d D r Hr)) Hk).
Qed.

(* in particular two points covering different batch counts are told apart by any key those
   batches set differently, and the newest point carries the values of the newest persisted state;
   after Rollback to the record of epoch e and reopening, the index shows exactly the internal
   values that point announced, which are those of the first k batches *)
Theorem rollback_restores_internals : forall evs d e d1 d2 k,
  drun dinit evs = Some d ->
  dstep d (DRollback e) = Some d1 -> dstep d1 DRecover = Some d2 ->
  assocZ e (d_nb d) = Some k ->
  exists r, In r (d_bolt d) /\ br_epoch r = e /\ internal (d_core d2) = br_int r
    /\ forall key, assoc_first key (internal (d_core d2)) = spec_internal (concat (firstn k (ieff evs))) key.
Proof.
  intros evs d e d1 d2 k Hrun H1 H2 Hk.
  assert (D := reachable_DInv evs d Hrun). assert (I := reachable_IInv evs d Hrun).
  assert (H1' := H1). cbn [dstep] in H1'. destruct (d_up d) eqn:Hup; [discriminate|].
  destruct (existsb (fun b => br_epoch b =? e) (d_bolt d)) eqn:Hex; [|discriminate].
  injection H1' as H1'.
  destruct (recover_shape d1 d2 H2) as [n [rr [_ [En [_ [_ Hd2]]]]]].
  assert (Hn1 : In n (d_bolt d1)) by exact (newest_In _ _ En).
  rewrite <- H1' in Hn1. cbn [d_bolt] in Hn1. apply filter_In in Hn1. destruct Hn1 as [Hn Hle].
  apply Z.leb_le in Hle.
  (* the newest remaining record is the one of epoch e *)
  apply existsb_exists in Hex. destruct Hex as [b [Hb Hbe]]. apply Z.eqb_eq in Hbe.
  assert (Hb1 : In b (d_bolt d1)).
  { rewrite <- H1'. cbn [d_bolt]. apply filter_In. split; [exact Hb|]. apply Z.leb_le. lia. }
  assert (Hs1 : bsorted (d_bolt d1)).
  { rewrite <- H1'. cbn [d_bolt]. apply bsorted_filter. exact (di_sorted _ d D). }
  assert (Hmax := bsorted_max _ n Hs1 En b Hb1).
  assert (Hne : br_epoch n = e) by lia.
  exists n. split; [exact Hn|]. split; [exact Hne|].
  subst d2. unfold recovered. cbn [d_core internal]. split; [reflexivity|].
  destruct (ii_bolt _ d I n Hn) as [k' [Hk' Hv]]. rewrite Hne, Hk in Hk'. injection Hk' as Hk'. subst k'.
  exact Hv.
Qed.

(* C03 for the internal values: a crash at any point followed by recovery shows exactly the
   internal calls of the batches the newest committed record covers - the same whole-batch prefix
   [crash_recovers_prefix] gives for the documents *)
Theorem crash_recovers_internals : forall evs d,
  drun dinit evs = Some d ->
  forall d1 d2, dstep d DCrash = Some d1 -> dstep d1 DRecover = Some d2 ->
  forall key, assoc_first key (internal (d_core d2))
              = spec_internal (concat (firstn (covered d) (ieff evs))) key.
Proof.
  intros evs d Hrun d1 d2 H1 H2 key.
  assert (D := reachable_DInv evs d Hrun). assert (I := reachable_IInv evs d Hrun).
  assert (D1 := DInv_step _ d DCrash d1 D H1).
  assert (I1 := IInv_step _ _ d DCrash d1 D I H1). cbn [eff_step ieff_step] in D1, I1.
  assert (I2 := IInv_recover _ _ d1 d2 D1 I1 H2).
  destruct (crash_shape d d1 H1) as [_ [_ [_ [_ [_ [_ Hcov]]]]]]. rewrite Hcov in I2.
  destruct (recover_shape d1 d2 H2) as [n [r [_ [_ [_ [_ Hd2]]]]]].
  apply (ii_cur _ d2 I2). subst d2. reflexivity.
Qed.

(* ---------- worked example: two rollback points with different internal values ---------- *)

(* batch 1 sets keys 7 and 999 (the tag), batch 2 deletes key 7, sets key 8 and moves the tag;
   both are persisted and committed: two rollback points *)
Definition exi_io1 : iops := [(7, Some 70); (999, Some 1)].
Definition exi_io2 : iops := [(7, None); (8, Some 80); (999, Some 2)].
Definition exi_tr : list devent :=
  [ DCore (EIntroduce 1 [(1, Some 10)] exi_io1); DFileWritten 1;
    DPrepare (mkBrec 1 [(1, [])] [(999, 1); (7, 70)]); DCore (EPersist [1]); DCommit;
    DCore (EIntroduce 2 [(2, Some 20)] exi_io2); DFileWritten 2;
    DPrepare (mkBrec 3 [(1, []); (2, [])] [(8, 80); (999, 2)]); DCore (EPersist [2]); DCommit;
    DCrash ].

Example exi_points :
  ieff exi_tr = [exi_io1; exi_io2]
  /\ option_map (fun d => map (fun r => (br_epoch r, map (fun key => assoc_first key (br_int r)) [7; 8; 999]))
                              (d_bolt d)) (drun dinit exi_tr)
     = Some [(1, [Some 70; None; Some 1]); (3, [None; Some 80; Some 2])]
  /\ map (fun k => map (spec_internal (concat (firstn k (ieff exi_tr)))) [7; 8; 999]) [1%nat; 2%nat]
     = [[Some 70; None; Some 1]; [None; Some 80; Some 2]].
Proof. vm_compute. repeat split; reflexivity. Qed.

(* a bucket whose internal values are not those of the root published at its epoch (here: the
   oldest snapshot's values under the newest epoch) is not accepted *)
Example exi_stale_internals_rejected :
  drun dinit (firstn 7 exi_tr ++ [DPrepare (mkBrec 3 [(1, []); (2, [])] [(999, 1); (7, 70)])]) = None.
Proof. vm_compute. reflexivity. Qed.

(* rollback_restores_internals: back to the first point *)
Example exi_rollback :
  exists d d1 d2,
    drun dinit exi_tr = Some d
    /\ dstep d (DRollback 1) = Some d1 /\ dstep d1 DRecover = Some d2
    /\ assocZ 1 (d_nb d) = Some 1%nat
    /\ map (fun key => assoc_first key (internal (d_core d2))) [7; 8; 999] = [Some 70; None; Some 1].
Proof.
  eexists. eexists. eexists.
  split; [vm_compute; reflexivity|].
  split; [vm_compute; reflexivity|]. split; [vm_compute; reflexivity|].
  vm_compute. repeat split; reflexivity.
Qed.
