(* Scorch engine — the bridge between the trace acceptance check (Scorch/DiskCorr.v, tie T3) and
   the theorems about Scorch/Disk.v: every candidate state the checker [xrun] carries satisfies
   the invariant [DInv] for ITS list of batches in effect [x_eff].  Consequently
     - at every XObserve the property test (contents = replay of the batches in effect) is
       implied by the model test (implementation = model): a trace the model accepts cannot
       violate C03's prefix property;
     - the contents test of XCopyDest against the replay prefix is implied by its model test;
     - the [acks_ok] test at XRecover can never fail: what protects acknowledged batches is the
       enabling condition of DAck.
     - likewise for the internal values ([IInv] of ProofsDisk10 for [x_ieff]): the replay tests of
       XObserveInt, XRollbackPoints and XPointState are implied by their model tests.
   This file depends on the exact shape of [xstep]; it is not imported by Props_*.v. *)
From Coq Require Import ZArith List Bool Arith Lia.
From Verif Require Import Common.Bytes Scorch.Model Scorch.Corr Scorch.Disk Scorch.DiskCorr
  Scorch.ProofsCore1 Scorch.ProofsCore3 Scorch.ProofsDisk1 Scorch.ProofsDisk5 Scorch.ProofsDisk9
  Scorch.ProofsDisk10.
Import ListNotations.
Local Open Scope Z_scope.

Ltac om H :=
  match type of H with
  | option_map _ ?o = Some _ =>
      let E := fresh "E" in destruct o eqn:E; cbn [option_map] in H; [|discriminate]; injection H as H
  end.

(* every step of the checker is a step of [dstep] (or leaves the model state alone), and its
   bookkeeping of the batches in effect is [eff_step] *)
Lemma xstep_sim : forall x e x', xstep x e = Some x' ->
  (x_d x' = x_d x /\ x_eff x' = x_eff x)
  \/ (exists ev, dstep (x_d x) ev = Some (x_d x') /\ x_eff x' = eff_step (x_d x) (x_eff x) ev
                  /\ (is_rollback ev = false \/ exists ep, e = XRollback ep)).
Proof.
  intros x e x' H. destruct e; cbn [xstep] in H.
  - (* XCore *)
    destruct (tev_event (d_core (x_d x)) t) as [ev|]; [|discriminate].
    destruct (tstep (d_core (x_d x)) t); [|discriminate].
    destruct (dstep (x_d x) (DCore ev)) as [d'|] eqn:E; [|discriminate].
    destruct (st_eqb_root (d_core d') s && sub_ok x ev); [|discriminate].
    injection H as H. subst x'. right. exists (DCore ev). cbn [x_d x_eff]. split; [exact E|].
    split; [destruct ev; reflexivity | left; reflexivity].
  - om H. subst x'. right. eexists. split; [exact E | split; [reflexivity | first [left; reflexivity | right; eexists; reflexivity]]].
  - om H. subst x'. right. eexists. split; [exact E | split; [reflexivity | first [left; reflexivity | right; eexists; reflexivity]]].
  - injection H as H. subst x'. left. split; reflexivity.
  - om H. subst x'. right. eexists. split; [exact E | split; [reflexivity | first [left; reflexivity | right; eexists; reflexivity]]].
  - injection H as H. subst x'. left. split; reflexivity.
  - destruct (assocZ tag (x_tags x)); [|discriminate].
    om H. subst x'. right. eexists. split; [exact E | split; [reflexivity | left; reflexivity]].
  - om H. subst x'. right. eexists. split; [exact E | split; [reflexivity | first [left; reflexivity | right; eexists; reflexivity]]].
  - om H. subst x'. right. eexists. split; [exact E | split; [reflexivity | first [left; reflexivity | right; eexists; reflexivity]]].
  - om H. subst x'. right. eexists. split; [exact E | split; [reflexivity | first [left; reflexivity | right; eexists; reflexivity]]].
  - om H. subst x'. right. eexists. split; [exact E | split; [reflexivity | first [left; reflexivity | right; eexists; reflexivity]]].
  - om H. subst x'. right. eexists. split; [exact E | split; [reflexivity | first [left; reflexivity | right; eexists; reflexivity]]].
  - om H. subst x'. right. eexists. split; [exact E | split; [reflexivity | first [left; reflexivity | right; eexists; reflexivity]]].
  - (* XRecover *)
    destruct (dstep (x_d x) DRecover) as [d'|] eqn:E; [|discriminate].
    injection H as H. subst x'. right. exists DRecover. split; [exact E | split; [reflexivity | left; reflexivity]].
  - om H. subst x'. right. eexists. split; [exact E | split; [reflexivity | first [left; reflexivity | right; eexists; reflexivity]]].
  - (* XObserve *)
    match type of H with (if ?c then _ else _) = _ => destruct c end; [|discriminate].
    injection H as H. subst x'. left. split; reflexivity.
  - match type of H with (if ?c then _ else _) = _ => destruct c end; [|discriminate].
    injection H as H. subst x'. left. split; reflexivity.
  - destruct (assocZ epoch (d_pub (x_d x))) as [[? ?]|]; [|discriminate].
    destruct (assocZ epoch (d_nb (x_d x))); [|discriminate].
    match type of H with (if ?c then _ else _) = _ => destruct c end; [|discriminate].
    injection H as H. subst x'. left. split; reflexivity.
  - injection H as H. subst x'. left. split; reflexivity.
  - match type of H with (if ?c then _ else _) = _ => destruct c end; [|discriminate].
    injection H as H. subst x'. left. split; reflexivity.
  - match type of H with (if ?c then _ else _) = _ => destruct c end; [|discriminate].
    injection H as H. subst x'. left. split; reflexivity.
  - (* XSubmit *) injection H as H. subst x'. left. split; reflexivity.
  - (* XObserveInt *)
    match type of H with (if ?c then _ else _) = _ => destruct c end; [|discriminate].
    injection H as H. subst x'. left. split; reflexivity.
  - (* XRollbackPoints *)
    match type of H with (if ?c then _ else _) = _ => destruct c end; [|discriminate].
    injection H as H. subst x'. left. split; reflexivity.
  - (* XPointState *)
    match type of H with (if ?c then _ else _) = _ => destruct c end; [|discriminate].
    injection H as H. subst x'. left. split; reflexivity.
  - (* XPointWrite *)
    match type of H with (if ?c then _ else _) = _ => destruct c end; [|discriminate].
    injection H as H. subst x'. left. split; reflexivity.
Qed.

Definition XInv (x : xs) : Prop := DInv (x_eff x) (x_d x).

Lemma XInv_init : XInv xinit.
Proof. exact DInv_init. Qed.

Lemma XInv_step : forall x e x', XInv x -> xstep x e = Some x' -> XInv x'.
Proof.
  intros x e x' I H. unfold XInv in *. destruct (xstep_sim x e x' H) as [[Hd He]|[ev [Hs [He _]]]].
  - rewrite Hd, He. exact I.
  - rewrite He. exact (DInv_step _ _ ev _ I Hs).
Qed.

Definition all_XInv (xl : list xs) : Prop := forall x, In x xl -> XInv x.

Lemma all_XInv_flat_step : forall xl e,
  all_XInv xl -> all_XInv (flat_map (fun x => match xstep x e with Some z => [z] | None => [] end) xl).
Proof.
  intros xl e A z Hz. apply in_flat_map in Hz. destruct Hz as [x [Hx Hz]].
  destruct (xstep x e) as [z'|] eqn:E; [|destruct Hz]. destruct Hz as [Hz|[]]. subst z'.
  exact (XInv_step x e z (A x Hx) E).
Qed.

Lemma all_XInv_crash_variants : forall x, XInv x -> all_XInv (crash_variants x).
Proof.
  intros x I. unfold crash_variants.
  set (l1 := [x] ++ (if x_ci x then match xstep x XCommit with Some x' => [x'] | None => [] end else [])).
  assert (A1 : all_XInv l1).
  { intros y Hy. unfold l1 in Hy. apply in_app_or in Hy. destruct Hy as [[Hy|[]]|Hy].
    - subst y. exact I.
    - destruct (x_ci x); [|destruct Hy]. destruct (xstep x XCommit) as [x'|] eqn:E; [|destruct Hy].
      destruct Hy as [Hy|[]]. subst y. exact (XInv_step x XCommit x' I E). }
  destruct (x_pi x) as [eps|]; [|exact A1].
  intros y Hy. apply in_app_or in Hy. destruct Hy as [Hy|Hy]; [exact (A1 y Hy)|].
  exact (all_XInv_flat_step l1 (XPurge eps) A1 y Hy).
Qed.

Lemma all_XInv_step_all : forall xl e, all_XInv xl -> all_XInv (xstep_all xl e).
Proof.
  intros xl e A.
  assert (G := all_XInv_flat_step xl e A).
  destruct e; try exact G; cbn [xstep_all].
  - (* XCrash *)
    intros z Hz. apply in_flat_map in Hz. destruct Hz as [x [Hx Hz]].
    exact (all_XInv_flat_step (crash_variants x) XCrash (all_XInv_crash_variants x (A x Hx)) z Hz).
  - (* XRecover *)
    intros z Hz. apply in_flat_map in Hz. destruct Hz as [x [Hx Hz]].
    destruct (acks_ok x); [|destruct Hz].
    destruct (xstep x XRecover) as [z'|] eqn:E; [|destruct Hz]. destruct Hz as [Hz|[]]. subst z'.
    exact (XInv_step x XRecover z (A x Hx) E).
Qed.

Lemma xrun_all_XInv : forall evs xl i r xl', all_XInv xl -> xrun xl evs i = (r, xl') -> all_XInv xl'.
Proof.
  induction evs as [|e evs IH]; intros xl i r xl' A H; cbn [xrun] in H.
  - injection H as _ H. subst xl'. exact A.
  - destruct (xstep_all xl e) as [|y ys] eqn:E.
    + injection H as _ H. subst xl'. exact A.
    + apply (IH (y :: ys) (i + 1) r xl'); [|exact H]. rewrite <- E. exact (all_XInv_step_all xl e A).
Qed.

(* every candidate state of the checker satisfies the invariant for its batches in effect *)
Theorem xrun_sound : forall evs r xl,
  xrun [xinit] evs 0 = (r, xl) -> forall x, In x xl -> DInv (x_eff x) (x_d x).
Proof.
  intros evs r xl H. apply (xrun_all_XInv evs [xinit] 0 r xl); [|exact H].
  intros x [Hx|[]]. subst x. exact XInv_init.
Qed.

(* in such a state the two tests of XObserve compare the observation with the same list: the
   property test is implied by the model test *)
Theorem observe_property_implied : forall x docs,
  DInv (x_eff x) (x_d x) -> d_up (x_d x) = true ->
  map (fun p : Z * option Z => (fst p, root_lookup (root (d_core (x_d x))) (fst p))) docs
  = map (fun p => (fst p, replay (x_eff x) (fst p))) docs.
Proof.
  intros x docs I Hup. apply map_ext. intros p. rewrite (di_root _ _ I Hup). reflexivity.
Qed.

(* likewise for the destination of an online copy taken at a published epoch of this life *)
Theorem copydest_property_implied : forall x ep proot pint k docs,
  DInv (x_eff x) (x_d x) -> ep <= epoch (d_core (x_d x)) ->
  assocZ ep (d_pub (x_d x)) = Some (proot, pint) -> assocZ ep (d_nb (x_d x)) = Some k ->
  map (fun p : Z * option Z => (fst p, root_lookup proot (fst p))) docs
  = map (fun p => (fst p, replay (firstn k (x_eff x)) (fst p))) docs.
Proof.
  intros x ep proot pint k docs I Hep Hpub Hk.
  destruct (di_pub _ _ I ep _ Hep Hpub) as [k' [Hk' [Hc _]]]. rewrite Hk in Hk'.
  injection Hk' as Hk'. subst k'. apply map_ext. intros p. cbn [fst] in Hc. rewrite Hc. reflexivity.
Qed.

(* ---------- acknowledgements ---------- *)

Definition XInvA (x : xs) : Prop := DInv (x_eff x) (x_d x) /\ acks_le (x_d x).
Definition all_XInvA (xl : list xs) : Prop := forall x, In x xl -> XInvA x.

Lemma XInvA_step : forall x e x', XInvA x -> xstep x e = Some x' -> XInvA x'.
Proof.
  intros x e x' [I A] H. split; [exact (XInv_step x e x' I H)|].
  destruct (xstep_sim x e x' H) as [[Hd _]|[ev [Hs _]]].
  - rewrite Hd. exact A.
  - exact (acks_step _ _ ev _ I A Hs).
Qed.

Lemma all_XInvA_flat_step : forall xl e,
  all_XInvA xl -> all_XInvA (flat_map (fun x => match xstep x e with Some z => [z] | None => [] end) xl).
Proof.
  intros xl e A z Hz. apply in_flat_map in Hz. destruct Hz as [x [Hx Hz]].
  destruct (xstep x e) as [z'|] eqn:E; [|destruct Hz]. destruct Hz as [Hz|[]]. subst z'.
  exact (XInvA_step x e z (A x Hx) E).
Qed.

Lemma all_XInvA_crash_variants : forall x, XInvA x -> all_XInvA (crash_variants x).
Proof.
  intros x I. unfold crash_variants.
  set (l1 := [x] ++ (if x_ci x then match xstep x XCommit with Some x' => [x'] | None => [] end else [])).
  assert (A1 : all_XInvA l1).
  { intros y Hy. unfold l1 in Hy. apply in_app_or in Hy. destruct Hy as [[Hy|[]]|Hy].
    - subst y. exact I.
    - destruct (x_ci x); [|destruct Hy]. destruct (xstep x XCommit) as [x'|] eqn:E; [|destruct Hy].
      destruct Hy as [Hy|[]]. subst y. exact (XInvA_step x XCommit x' I E). }
  destruct (x_pi x) as [eps|]; [|exact A1].
  intros y Hy. apply in_app_or in Hy. destruct Hy as [Hy|Hy]; [exact (A1 y Hy)|].
  exact (all_XInvA_flat_step l1 (XPurge eps) A1 y Hy).
Qed.

Lemma all_XInvA_step_all : forall xl e, all_XInvA xl -> all_XInvA (xstep_all xl e).
Proof.
  intros xl e A.
  assert (G := all_XInvA_flat_step xl e A).
  destruct e; try exact G; cbn [xstep_all].
  - intros z Hz. apply in_flat_map in Hz. destruct Hz as [x [Hx Hz]].
    exact (all_XInvA_flat_step (crash_variants x) XCrash (all_XInvA_crash_variants x (A x Hx)) z Hz).
  - intros z Hz. apply in_flat_map in Hz. destruct Hz as [x [Hx Hz]].
    destruct (acks_ok x); [|destruct Hz].
    destruct (xstep x XRecover) as [z'|] eqn:E; [|destruct Hz]. destruct Hz as [Hz|[]]. subst z'.
    exact (XInvA_step x XRecover z (A x Hx) E).
Qed.

Lemma xrun_all_XInvA : forall evs xl i r xl',
  all_XInvA xl -> xrun xl evs i = (r, xl') -> all_XInvA xl'.
Proof.
  induction evs as [|e evs IH]; intros xl i r xl' A H; cbn [xrun] in *.
  - injection H as _ H. subst xl'. exact A.
  - destruct (xstep_all xl e) as [|y ys] eqn:E.
    + injection H as _ H. subst xl'. exact A.
    + apply (IH (y :: ys) (i + 1) r xl'); [|exact H]. rewrite <- E.
      exact (all_XInvA_step_all xl e A).
Qed.

(* the acknowledgement test at XRecover never fails for any candidate state: the model's DAck is
   only enabled when a committed record covers the batch, and a rollback drops the
   acknowledgements of the batches it discards *)
Theorem acks_ok_never_fails : forall evs r xl,
  xrun [xinit] evs 0 = (r, xl) -> forall x, In x xl -> acks_ok x = true.
Proof.
  intros evs r xl H x Hx.
  assert (A : all_XInvA xl).
  { apply (xrun_all_XInvA evs [xinit] 0 r xl); [|exact H].
    intros y [Hy|[]]. subst y. split; [exact DInv_init | intros k []]. }
  destruct (A x Hx) as [_ Ha]. unfold acks_ok. apply forallb_forall. intros k Hk.
  apply Nat.leb_le. exact (Ha k Hk).
Qed.

(* ---------- internal values ---------- *)

Lemma xstep_sim_i : forall x e x', xstep x e = Some x' ->
  (x_d x' = x_d x /\ x_ieff x' = x_ieff x)
  \/ (exists ev, dstep (x_d x) ev = Some (x_d x') /\ x_ieff x' = ieff_step (x_d x) (x_ieff x) ev).
Proof.
  intros x e x' H. destruct e; cbn [xstep] in H;
    try (om H; subst x'; right; eexists; split; [exact E | reflexivity]);
    try (injection H as H; subst x'; left; split; reflexivity);
    try (match type of H with (if ?c then _ else _) = _ => destruct c end; [|discriminate];
         injection H as H; subst x'; left; split; reflexivity).
  - (* XCore *)
    destruct (tev_event (d_core (x_d x)) t) as [ev|]; [|discriminate].
    destruct (tstep (d_core (x_d x)) t); [|discriminate].
    destruct (dstep (x_d x) (DCore ev)) as [d'|] eqn:E; [|discriminate].
    destruct (st_eqb_root (d_core d') s && sub_ok x ev); [|discriminate].
    injection H as H. subst x'. right. exists (DCore ev). cbn [x_d x_ieff]. split; [exact E|].
    cbn [ieff_step]. destruct ev; cbn [step_iopsl]; rewrite ?app_nil_r; reflexivity.
  - (* XAck *)
    destruct (assocZ tag (x_tags x)); [|discriminate].
    om H. subst x'. right. eexists. split; [exact E | reflexivity].
  - (* XRecover *)
    destruct (dstep (x_d x) DRecover) as [d'|] eqn:E; [|discriminate].
    injection H as H. subst x'. right. exists DRecover. split; [exact E | reflexivity].
  - (* XCopyDest *)
    destruct (assocZ epoch (d_pub (x_d x))) as [[? ?]|]; [|discriminate].
    destruct (assocZ epoch (d_nb (x_d x))); [|discriminate].
    match type of H with (if ?c then _ else _) = _ => destruct c end; [|discriminate].
    injection H as H. subst x'. left. split; reflexivity.
Qed.

Definition XInvI (x : xs) : Prop := DInv (x_eff x) (x_d x) /\ IInv (x_ieff x) (x_d x).
Definition all_XInvI (xl : list xs) : Prop := forall x, In x xl -> XInvI x.

Lemma XInvI_step : forall x e x', XInvI x -> xstep x e = Some x' -> XInvI x'.
Proof.
  intros x e x' [D I] H. split; [exact (XInv_step x e x' D H)|].
  destruct (xstep_sim_i x e x' H) as [[Hd He]|[ev [Hs He]]].
  - rewrite Hd, He. exact I.
  - rewrite He. exact (IInv_step _ _ _ ev _ D I Hs).
Qed.

Lemma all_XInvI_flat_step : forall xl e,
  all_XInvI xl -> all_XInvI (flat_map (fun x => match xstep x e with Some z => [z] | None => [] end) xl).
Proof.
  intros xl e A z Hz. apply in_flat_map in Hz. destruct Hz as [x [Hx Hz]].
  destruct (xstep x e) as [z'|] eqn:E; [|destruct Hz]. destruct Hz as [Hz|[]]. subst z'.
  exact (XInvI_step x e z (A x Hx) E).
Qed.

Lemma all_XInvI_crash_variants : forall x, XInvI x -> all_XInvI (crash_variants x).
Proof.
  intros x I. unfold crash_variants.
  set (l1 := [x] ++ (if x_ci x then match xstep x XCommit with Some x' => [x'] | None => [] end else [])).
  assert (A1 : all_XInvI l1).
  { intros y Hy. unfold l1 in Hy. apply in_app_or in Hy. destruct Hy as [[Hy|[]]|Hy].
    - subst y. exact I.
    - destruct (x_ci x); [|destruct Hy]. destruct (xstep x XCommit) as [x'|] eqn:E; [|destruct Hy].
      destruct Hy as [Hy|[]]. subst y. exact (XInvI_step x XCommit x' I E). }
  destruct (x_pi x) as [eps|]; [|exact A1].
  intros y Hy. apply in_app_or in Hy. destruct Hy as [Hy|Hy]; [exact (A1 y Hy)|].
  exact (all_XInvI_flat_step l1 (XPurge eps) A1 y Hy).
Qed.

Lemma all_XInvI_step_all : forall xl e, all_XInvI xl -> all_XInvI (xstep_all xl e).
Proof.
  intros xl e A.
  assert (G := all_XInvI_flat_step xl e A).
  destruct e; try exact G; cbn [xstep_all].
  - intros z Hz. apply in_flat_map in Hz. destruct Hz as [x [Hx Hz]].
    exact (all_XInvI_flat_step (crash_variants x) XCrash (all_XInvI_crash_variants x (A x Hx)) z Hz).
  - intros z Hz. apply in_flat_map in Hz. destruct Hz as [x [Hx Hz]].
    destruct (acks_ok x); [|destruct Hz].
    destruct (xstep x XRecover) as [z'|] eqn:E; [|destruct Hz]. destruct Hz as [Hz|[]]. subst z'.
    exact (XInvI_step x XRecover z (A x Hx) E).
Qed.

Lemma xrun_all_XInvI : forall evs xl i r xl',
  all_XInvI xl -> xrun xl evs i = (r, xl') -> all_XInvI xl'.
Proof.
  induction evs as [|e evs IH]; intros xl i r xl' A H; cbn [xrun] in *.
  - injection H as _ H. subst xl'. exact A.
  - destruct (xstep_all xl e) as [|y ys] eqn:E.
    + injection H as _ H. subst xl'. exact A.
    + apply (IH (y :: ys) (i + 1) r xl'); [|exact H]. rewrite <- E.
      exact (all_XInvI_step_all xl e A).
Qed.

(* every candidate state of the checker satisfies the internal-value invariant for its [x_ieff] *)
Theorem xrun_sound_internals : forall evs r xl,
  xrun [xinit] evs 0 = (r, xl) -> forall x, In x xl -> IInv (x_ieff x) (x_d x).
Proof.
  intros evs r xl H x Hx.
  assert (A : all_XInvI xl).
  { apply (xrun_all_XInvI evs [xinit] 0 r xl); [|exact H].
    intros y [Hy|[]]. subst y. split; [exact DInv_init | exact IInv_init]. }
  exact (proj2 (A x Hx)).
Qed.

(* XObserveInt: the replay test is implied by the model test *)
Theorem observe_int_property_implied : forall x ints,
  IInv (x_ieff x) (x_d x) -> d_up (x_d x) = true ->
  map (fun p : Z * option Z => (fst p, assoc_first (fst p) (internal (d_core (x_d x))))) ints
  = map (fun p => (fst p, ints_after (x_ieff x) (length (x_ieff x)) (fst p))) ints.
Proof.
  intros x ints I Hup. apply map_ext. intros p. rewrite (ii_cur _ _ I Hup).
  unfold ints_after. rewrite firstn_all. reflexivity.
Qed.

(* XRollbackPoints / XPointState: for the record found under an epoch, the internal values the
   model test compares with are the replayed internal calls of the batches it covers *)
Theorem point_internals_property_implied : forall x ep b k ints,
  IInv (x_ieff x) (x_d x) ->
  find_rec ep (d_bolt (x_d x)) = Some b -> assocZ ep (d_nb (x_d x)) = Some k ->
  map (fun p : Z * option Z => (fst p, assoc_first (fst p) (br_int b))) ints
  = map (fun p => (fst p, ints_after (x_ieff x) k (fst p))) ints.
Proof.
  intros x ep b k ints I Hf Hk. unfold find_rec in Hf. apply find_some in Hf. destruct Hf as [Hb He].
  apply Z.eqb_eq in He. destruct (ii_bolt _ _ I b Hb) as [k' [Hk' Hv]]. rewrite He, Hk in Hk'.
  injection Hk' as Hk'. subst k'. apply map_ext. intros p. rewrite Hv. reflexivity.
Qed.
