(* C04 — the serialisability checker of Ser.v decides the spec:
     ser_check nids ws clients = true  <->  serialisable nids ws clients.
   Soundness: every search node is the greedy image of a real schedule prefix.
   Completeness: the greedy pointers dominate any explanation (exchange argument), pruning only
   removes nodes whose next observation can no longer be matched (prefix vectors only grow), and
   de-duplication keeps one copy of equal nodes. *)
From Coq Require Import ZArith List Bool Arith Lia.
From Verif Require Import Common.Bytes Scorch.Ser.
Import ListNotations.

(* ---------- small list facts ---------- *)

Lemma count_while_le {A} (f : A -> bool) l : count_while f l <= length l.
Proof. induction l as [|x l IH]; cbn; [lia|]. destruct (f x); cbn; lia. Qed.

Lemma count_while_firstn {A} (f : A -> bool) l o :
  In o (firstn (count_while f l) l) -> f o = true.
Proof.
  induction l as [|x l IH]; cbn; [tauto|].
  destruct (f x) eqn:E; cbn; [|tauto]. intros [<-|H]; auto.
Qed.

Lemma count_while_max {A} (f : A -> bool) l n :
  (forall o, In o (firstn n l) -> f o = true) -> n <= length l -> n <= count_while f l.
Proof.
  revert n; induction l as [|x l IH]; intros n H Hn; cbn in *; [lia|].
  destruct n as [|n]; [lia|]. cbn in H.
  rewrite (H x (or_introl eq_refl)). apply le_n_S, IH; [|lia]. intros o Ho; apply H; auto.
Qed.

Lemma skipn_add {A} a b (l : list A) : skipn a (skipn b l) = skipn (b + a) l.
Proof.
  revert l; induction b as [|b IH]; intro l; cbn; [reflexivity|].
  destruct l as [|x l]; [destruct a; reflexivity|]. apply IH.
Qed.

Lemma nth_error_skipn_head {A} (l : list A) n o :
  nth_error l n = Some o -> exists rest, skipn n l = o :: rest.
Proof.
  revert l; induction n as [|n IH]; intros [|x l] H; cbn in *; try discriminate.
  - inversion H; eauto.
  - apply IH; assumption.
Qed.

Lemma map2_map {A B C} (f : A -> B -> C) (g : A -> B) l :
  map2 f l (map g l) = map (fun a => f a (g a)) l.
Proof. induction l as [|a l IH]; cbn; [reflexivity|]. now rewrite IH. Qed.

Lemma forallb2_map {A B} (f : A -> B -> bool) (g : A -> B) l :
  forallb2 f l (map g l) = forallb (fun a => f a (g a)) l.
Proof. induction l as [|a l IH]; cbn; [reflexivity|]. now rewrite IH. Qed.

Lemma map_eq_in {A B} (f g : A -> B) l : map f l = map g l -> forall a, In a l -> f a = g a.
Proof.
  induction l as [|x l IH]; cbn; intros H a Ha; [destruct Ha|].
  inversion H. destruct Ha as [<-|Ha]; auto.
Qed.

Lemma last_default_irrel {A} (l : list A) y p q : last (y :: l) p = last (y :: l) q.
Proof. revert y; induction l as [|z l IH]; intro y; [reflexivity|]. change (last (z :: l) p = last (z :: l) q). apply IH. Qed.

Lemma last_cons_default {A} (l : list A) q p : last (q :: l) p = last l q.
Proof. destruct l as [|y l]; [reflexivity|]. change (last (y :: l) p = last (y :: l) q). apply last_default_irrel. Qed.

(* ---------- prefix vectors ---------- *)

Lemma nvec_le_refl a : nvec_le a a = true.
Proof. induction a as [|x a IH]; cbn; [reflexivity|]. rewrite Nat.leb_refl; exact IH. Qed.

Lemma nvec_le_trans a b c : nvec_le a b = true -> nvec_le b c = true -> nvec_le a c = true.
Proof.
  revert b c; induction a as [|x a IH]; intros [|y b] [|z c]; cbn; try discriminate; auto.
  intros H1 H2. apply andb_true_iff in H1 as [H1 H1']. apply andb_true_iff in H2 as [H2 H2'].
  apply andb_true_iff; split; [|eapply IH; eauto].
  apply Nat.leb_le in H1, H2. apply Nat.leb_le. lia.
Qed.

Lemma nvec_le_set_nth k w kw :
  nth_error k w = Some kw -> nvec_le k (set_nth w (S kw) k) = true.
Proof.
  revert w; induction k as [|x k IH]; intros [|w] H; cbn in *; try discriminate.
  - inversion H; subst. rewrite nvec_le_refl, andb_true_r. apply Nat.leb_le; lia.
  - rewrite Nat.leb_refl. apply IH; assumption.
Qed.

Fixpoint nsum (l : list nat) : nat := match l with [] => 0 | x :: l' => x + nsum l' end.

Lemma nsum_set_nth k w kw : nth_error k w = Some kw -> nsum (set_nth w (S kw) k) = S (nsum k).
Proof.
  revert w; induction k as [|x k IH]; intros [|w] H; cbn in *; try discriminate.
  - inversion H; subst. reflexivity.
  - rewrite (IH _ H). lia.
Qed.

Lemma nsum_repeat0 n : nsum (repeat 0 n) = 0.
Proof. induction n; cbn; auto. Qed.

Lemma nsum_lengths (ws : list (list sbatch)) : nsum (map (@length sbatch) ws) = total_batches ws.
Proof. induction ws as [|bs ws IH]; cbn; [reflexivity|]. now rewrite IH. Qed.

(* ---------- schedules ---------- *)

Section Sched.
Variable ws : list (list sbatch).

Lemma step_writer_le w p q : step_writer ws w p = Some q -> nvec_le (fst p) (fst q) = true.
Proof.
  unfold step_writer. destruct (nth_error (fst p) w) as [kw|] eqn:E; [|discriminate].
  destruct (nth_error ws w) as [bs|]; [|discriminate].
  destruct (nth_error bs kw); [|discriminate]. intro H; inversion H; subst; cbn.
  apply nvec_le_set_nth; assumption.
Qed.

Lemma step_writer_sum w p q : step_writer ws w p = Some q -> nsum (fst q) = S (nsum (fst p)).
Proof.
  unfold step_writer. destruct (nth_error (fst p) w) as [kw|] eqn:E; [|discriminate].
  destruct (nth_error ws w) as [bs|]; [|discriminate].
  destruct (nth_error bs kw); [|discriminate]. intro H; inversion H; subst; cbn.
  apply nsum_set_nth; assumption.
Qed.

Lemma step_writer_lt w p q : step_writer ws w p = Some q -> w < length ws.
Proof.
  unfold step_writer. destruct (nth_error (fst p) w); [|discriminate].
  destruct (nth_error ws w) eqn:E; [|discriminate]. intros _.
  apply nth_error_Some. congruence.
Qed.

Lemma run_sched_le sch : forall p pts, run_sched ws sch p = Some pts ->
  forall r, In r pts -> nvec_le (fst p) (fst r) = true.
Proof.
  induction sch as [|w sch IH]; intros p pts H r Hr; cbn in H.
  - inversion H; subst. destruct Hr.
  - destruct (step_writer ws w p) as [q|] eqn:E; [|discriminate].
    destruct (run_sched ws sch q) as [r'|] eqn:E2; [|discriminate].
    inversion H; subst. pose proof (step_writer_le _ _ _ E) as Hq.
    destruct Hr as [<-|Hr]; [assumption|].
    eapply nvec_le_trans; [exact Hq|]. eapply IH; eauto.
Qed.

Lemma run_sched_sum sch : forall p pts, run_sched ws sch p = Some pts ->
  nsum (fst (last pts p)) = length sch + nsum (fst p).
Proof.
  induction sch as [|w sch IH]; intros p pts H; cbn in H.
  - inversion H; subst. reflexivity.
  - destruct (step_writer ws w p) as [q|] eqn:E; [|discriminate].
    destruct (run_sched ws sch q) as [r'|] eqn:E2; [|discriminate].
    inversion H; subst. specialize (IH _ _ E2). rewrite (step_writer_sum _ _ _ E) in IH.
    assert (HL : last (q :: r') p = last r' q) by apply last_cons_default.
    rewrite HL, IH. cbn. lia.
Qed.

Lemma run_sched_snoc sch : forall p pts w q,
  run_sched ws sch p = Some pts -> step_writer ws w (last pts p) = Some q ->
  run_sched ws (sch ++ [w]) p = Some (pts ++ [q]).
Proof.
  induction sch as [|v sch IH]; intros p pts w q H Hq; cbn in H.
  - inversion H; subst. cbn in *. rewrite Hq. reflexivity.
  - destruct (step_writer ws v p) as [q'|] eqn:E; [|discriminate].
    destruct (run_sched ws sch q') as [r'|] eqn:E2; [|discriminate].
    inversion H; subst. cbn. rewrite E.
    assert (HL : last (q' :: r') p = last r' q') by apply last_cons_default.
    rewrite HL in Hq. rewrite (IH _ _ _ _ E2 Hq). reflexivity.
Qed.

End Sched.

(* ---------- one client: greedy assignment is optimal ---------- *)

Section Client.
Variable os : list sobs.

Definition gptr (pts : list point) (ptr : nat) : nat := fold_left (fun ptr p => adv p os ptr) pts ptr.

Lemma adv_ge p ptr : ptr <= adv p os ptr.
Proof. unfold adv; lia. Qed.

Lemma adv_le p ptr : ptr <= length os -> adv p os ptr <= length os.
Proof.
  intro H. unfold adv. pose proof (count_while_le (fun o => matches o p) (skipn ptr os)) as Hc.
  rewrite skipn_length in Hc. lia.
Qed.

Lemma gptr_le pts : forall ptr, ptr <= length os -> gptr pts ptr <= length os.
Proof.
  induction pts as [|p pts IH]; intros ptr H; cbn; [assumption|]. apply IH, adv_le, H.
Qed.

Lemma explained_tl pts : forall l, explained pts l -> explained pts (tl l).
Proof.
  induction pts as [|p pts IH]; intros l H; cbn in *.
  - subst; reflexivity.
  - destruct H as (n & Hm & He). destruct n as [|n].
    + exists 0; split; [intros o []|]. cbn in *. apply IH; assumption.
    + destruct l as [|x l]; cbn in *.
      * exists 0; split; [intros o []|]. assumption.
      * exists n; split; [intros o Ho; apply Hm; auto|assumption].
Qed.

Lemma explained_skipn pts j : forall l, explained pts l -> explained pts (skipn j l).
Proof.
  induction j as [|j IH]; intros l H; [exact H|].
  destruct l as [|x l]; [exact H|]. cbn. apply IH. exact (explained_tl _ _ H).
Qed.

Lemma In_firstn {A} n (l : list A) x : In x (firstn n l) -> In x l.
Proof. revert l; induction n as [|n IH]; intros [|y l]; cbn; try tauto. intros [H|H]; auto. Qed.

Lemma firstn_all_le {A} n (l : list A) : length l <= n -> firstn n l = l.
Proof. revert l; induction n as [|n IH]; intros [|x l] H; cbn in *; try reflexivity; try lia. f_equal; apply IH; lia. Qed.

(* exchange argument: whatever an explanation consumes at a point, greedy consumes at least as much *)
Lemma explained_greedy_step p pts ptr :
  explained (p :: pts) (skipn ptr os) -> explained pts (skipn (adv p os ptr) os).
Proof.
  cbn. intros (n & Hm & He). unfold adv.
  set (l := skipn ptr os) in *. set (m := count_while (fun o => matches o p) l).
  destruct (le_lt_dec n (length l)) as [Hn|Hn].
  - assert (Hnm : n <= m) by (apply count_while_max; assumption).
    replace (skipn (ptr + m) os) with (skipn (m - n) (skipn n l)).
    + apply explained_skipn; assumption.
    + unfold l. rewrite !skipn_add. f_equal. lia.
  - (* the explanation consumed everything that was left *)
    assert (Hall : forall o, In o l -> matches o p = true).
    { intros o Ho. apply Hm. rewrite firstn_all_le by lia. exact Ho. }
    assert (Hm' : length l <= m).
    { apply count_while_max; [|lia]. intros o Ho. apply Hall. eapply In_firstn; exact Ho. }
    rewrite skipn_all2 in He by lia.
    assert (Hnil : skipn (ptr + m) os = []).
    { apply skipn_all2. unfold l in Hm'. rewrite skipn_length in Hm'. lia. }
    rewrite Hnil. exact He.
Qed.

Lemma explained_greedy pre : forall post ptr,
  explained (pre ++ post) (skipn ptr os) -> explained post (skipn (gptr pre ptr) os).
Proof.
  induction pre as [|p pre IH]; intros post ptr H; cbn [gptr fold_left app] in *; [exact H|].
  apply (IH post (adv p os ptr)). apply explained_greedy_step. exact H.
Qed.

(* greedy reaches the end iff the observations can be explained *)
Lemma greedy_complete pts : explained pts os -> gptr pts 0 = length os.
Proof.
  intro H. pose proof (explained_greedy pts [] 0) as HG. rewrite app_nil_r in HG.
  specialize (HG H). cbn in HG.
  assert (length (skipn (gptr pts 0) os) = 0) by (rewrite HG; reflexivity).
  rewrite skipn_length in H0. pose proof (gptr_le pts 0 (Nat.le_0_l _)). lia.
Qed.

Lemma greedy_sound pts : forall ptr, ptr <= length os -> gptr pts ptr = length os -> explained pts (skipn ptr os).
Proof.
  induction pts as [|p pts IH]; intros ptr Hle H; cbn [gptr fold_left] in H.
  - subst. cbn. apply skipn_all.
  - cbn [explained]. exists (count_while (fun o => matches o p) (skipn ptr os)). split.
    + intros o Ho. exact (count_while_firstn _ _ _ Ho).
    + rewrite skipn_add. apply IH; [apply adv_le; exact Hle|exact H].
Qed.

Lemma first_matched pts : forall o l, explained pts (o :: l) -> exists p, In p pts /\ matches o p = true.
Proof.
  induction pts as [|p pts IH]; intros o l H; cbn in H; [discriminate|].
  destruct H as (n & Hm & He). destruct n as [|n].
  - cbn in He. destruct (IH _ _ He) as (q & Hq & Hmq). exists q; split; [right; exact Hq|exact Hmq].
  - exists p; split; [left; reflexivity|]. apply Hm. left; reflexivity.
Qed.
End Client.

(* ---------- the search ---------- *)

Lemma optZ_eqb_eq a b : optZ_eqb a b = true <-> a = b.
Proof.
  destruct a as [x|], b as [y|]; cbn; split; intro H; try discriminate; try reflexivity.
  - apply Z.eqb_eq in H; congruence.
  - inversion H; subst. apply Z.eqb_refl.
Qed.

Lemma node_eqb_eq a b : node_eqb a b = true <-> a = b.
Proof.
  destruct a as [[k1 s1] p1], b as [[k2 s2] p2]. unfold node_eqb; cbn. split.
  - intro H. apply andb_true_iff in H as [H H3]. apply andb_true_iff in H as [H1 H2].
    apply (list_eqb_eq _ Nat.eqb_eq) in H1, H3. apply (list_eqb_eq _ optZ_eqb_eq) in H2. congruence.
  - intro H; inversion H; subst. rewrite !andb_true_iff. repeat split.
    + apply (list_eqb_eq _ Nat.eqb_eq); reflexivity.
    + apply (list_eqb_eq _ optZ_eqb_eq); reflexivity.
    + apply (list_eqb_eq _ Nat.eqb_eq); reflexivity.
Qed.

Lemma dedupe_In l x : In x (dedupe l) <-> In x l.
Proof.
  induction l as [|y l IH]; cbn; [tauto|].
  destruct (existsb (node_eqb y) l) eqn:E; cbn; rewrite IH.
  - split; [tauto|]. intros [<-|H]; [|exact H].
    apply existsb_exists in E as (z & Hz & Hyz). apply node_eqb_eq in Hyz. subst; exact Hz.
  - tauto.
Qed.

Section Search.
Variables (nids : nat) (ws : list (list sbatch)) (clients : list (list sobs)).
Let P0 := p0 nids ws.

(* the node greedy assignment produces along the points [pts] visited from P0 *)
Definition gnode (pts : list point) : node :=
  mkNode (last pts P0) (map (fun os => gptr os (P0 :: pts) 0) clients).

Lemma gnode_snoc pts q :
  mkNode q (map2 (adv q) clients (nd_ptrs (gnode pts))) = gnode (pts ++ [q]).
Proof.
  unfold gnode; cbn [nd_ptrs]. rewrite last_last, map2_map. f_equal.
  apply map_ext. intro os. unfold gptr. rewrite app_comm_cons, fold_left_app. reflexivity.
Qed.

Lemma expand_gnode pts w q :
  step_writer ws w (last pts P0) = Some q -> In (gnode (pts ++ [q])) (expand ws clients (gnode pts)).
Proof.
  intro H. unfold expand. apply in_flat_map. exists w. split.
  - apply in_seq. pose proof (step_writer_lt _ _ _ _ H). lia.
  - cbn [nd_pt gnode]. rewrite H. left. apply gnode_snoc.
Qed.

Lemma expand_inv pts nd :
  In nd (expand ws clients (gnode pts)) ->
  exists w q, step_writer ws w (last pts P0) = Some q /\ nd = gnode (pts ++ [q]).
Proof.
  unfold expand. intro H. apply in_flat_map in H as (w & _ & H). cbn [nd_pt gnode] in H.
  destruct (step_writer ws w (last pts P0)) as [q|] eqn:E; [|destruct H].
  destruct H as [<-|[]]. exists w, q. split; [exact E|]. apply gnode_snoc.
Qed.

Definition reached (nd : node) : Prop :=
  exists sch pts, run_sched ws sch P0 = Some pts /\ nd = gnode pts.

Lemma levels_reached n : forall fr, (forall x, In x fr -> reached x) ->
  forall nd, In nd (levels ws clients n fr) -> reached nd.
Proof.
  induction n as [|n IH]; intros fr Hfr nd H; cbn in H; [apply Hfr; exact H|].
  apply (IH (next_level ws clients fr)); [|exact H].
  intros x Hx. unfold next_level in Hx. apply (proj1 (dedupe_In _ _)) in Hx. apply filter_In in Hx as [Hx _].
  apply in_flat_map in Hx as (y & Hy & Hx). destruct (Hfr _ Hy) as (sch & pts & Hr & ->).
  apply expand_inv in Hx as (w & q & Hq & ->).
  exists (sch ++ [w]), (pts ++ [q]). split; [|reflexivity].
  apply run_sched_snoc; assumption.
Qed.

Lemma gnode_nil : gnode [] = node0 nids ws clients.
Proof. reflexivity. Qed.

Theorem ser_check_sound : ser_check nids ws clients = true -> serialisable nids ws clients.
Proof.
  unfold ser_check. intro H. apply existsb_exists in H as (nd & Hin & Hd).
  apply (levels_reached _ [node0 nids ws clients]) in Hin.
  - destruct Hin as (sch & pts & Hr & ->). exists sch, pts. split; [exact Hr|].
    unfold node_done in Hd. apply andb_true_iff in Hd as [Hk Hp]. cbn [nd_pt nd_ptrs gnode] in Hk, Hp.
    apply (list_eqb_eq _ Nat.eqb_eq) in Hk, Hp. split; [exact Hk|].
    intros os Hos. pose proof (map_eq_in _ _ _ Hp os Hos) as Hg. cbn beta in Hg.
    apply (greedy_sound os (P0 :: pts) 0); [lia|exact Hg].
  - intros x [<-|[]]. exists [], []. split; [reflexivity|]. symmetry; apply gnode_nil.
Qed.

Lemma gnode_viable pts1 q r sch2 :
  run_sched ws sch2 q = Some r ->
  (forall os, In os clients -> explained (P0 :: (pts1 ++ [q]) ++ r) os) ->
  viable clients (gnode (pts1 ++ [q])) = true.
Proof.
  intros Hr Hex. unfold viable, gnode; cbn [nd_pt nd_ptrs]. rewrite last_last, forallb2_map.
  apply forallb_forall. intros os Hos. unfold head_viable.
  destruct (nth_error os (gptr os (P0 :: pts1 ++ [q]) 0)) as [o|] eqn:E; [|reflexivity].
  specialize (Hex os Hos). rewrite app_comm_cons in Hex.
  pose proof (explained_greedy os (P0 :: pts1 ++ [q]) r 0 Hex) as HG.
  destruct (nth_error_skipn_head _ _ _ E) as (rest & Hsk). rewrite Hsk in HG.
  destruct (first_matched _ _ _ HG) as (r0 & Hr0 & Hm).
  unfold matches in Hm. apply andb_true_iff in Hm as [Hm _]. apply andb_true_iff in Hm as [_ Hm].
  eapply nvec_le_trans; [|exact Hm]. eapply run_sched_le; eauto.
Qed.

Lemma levels_complete sch2 : forall pts1 pts2 fr,
  run_sched ws sch2 (last pts1 P0) = Some pts2 ->
  In (gnode pts1) fr ->
  (forall os, In os clients -> explained (P0 :: pts1 ++ pts2) os) ->
  In (gnode (pts1 ++ pts2)) (levels ws clients (length sch2) fr).
Proof.
  induction sch2 as [|w sch2 IH]; intros pts1 pts2 fr Hr Hin Hex; cbn in Hr.
  - inversion Hr; subst. rewrite app_nil_r. exact Hin.
  - destruct (step_writer ws w (last pts1 P0)) as [q|] eqn:E; [|discriminate].
    destruct (run_sched ws sch2 q) as [r|] eqn:E2; [|discriminate].
    inversion Hr; subst. cbn [length levels].
    replace (pts1 ++ q :: r) with ((pts1 ++ [q]) ++ r) by (rewrite <- app_assoc; reflexivity).
    apply IH.
    + rewrite last_last. exact E2.
    + unfold next_level. apply dedupe_In. apply filter_In. split.
      * apply in_flat_map. exists (gnode pts1). split; [exact Hin|]. apply (expand_gnode pts1 w q); exact E.
      * apply (gnode_viable pts1 q r sch2 E2). intros os Hos. rewrite <- app_assoc. exact (Hex os Hos).
    + intros os Hos. rewrite <- app_assoc. exact (Hex os Hos).
Qed.

Theorem ser_check_complete : serialisable nids ws clients -> ser_check nids ws clients = true.
Proof.
  intros (sch & pts & Hr & Hc & Hex). unfold ser_check.
  assert (HN : total_batches ws = length sch).
  { pose proof (run_sched_sum _ _ _ _ Hr) as Hs. unfold complete in Hc.
    change (nsum (fst (last pts P0)) = length sch + nsum (fst P0)) in Hs. fold P0 in Hc. rewrite Hc in Hs.
    rewrite nsum_lengths in Hs. unfold P0, p0 in Hs; cbn [fst] in Hs. rewrite nsum_repeat0 in Hs. lia. }
  rewrite HN. apply existsb_exists. exists (gnode pts). split.
  - apply (levels_complete sch [] pts); [exact Hr|left; symmetry; apply gnode_nil|exact Hex].
  - unfold node_done, gnode; cbn [nd_pt nd_ptrs]. apply andb_true_iff. split.
    + apply (list_eqb_eq _ Nat.eqb_eq). exact Hc.
    + apply (list_eqb_eq _ Nat.eqb_eq). apply map_ext_in. intros os Hos.
      apply greedy_complete. exact (Hex os Hos).
Qed.

Theorem ser_check_iff : ser_check nids ws clients = true <-> serialisable nids ws clients.
Proof. split; [apply ser_check_sound|apply ser_check_complete]. Qed.

End Search.

(* ---------- the hypotheses are satisfiable / refutable on concrete histories ----------
   Two writers on document 0 (writer 0 also writes document 1): writer 0 issues [0:=10; 1:=11]
   then [0:=12]; writer 1 issues [0:=20] then [delete 0].  One reader client. *)
Definition ex_ws : list (list sbatch) :=
  [ [ [(0, Some 10%Z); (1, Some 11%Z)]; [(0, Some 12%Z)] ];
    [ [(0, Some 20%Z)]; [(0, None)] ] ].

(* reads: empty index; then writer 1's first batch only; then (w0:1, w1:1) in the order w1 then w0;
   final state after the order w1, w0, w1, w0 *)
Definition ex_good : list (list sobs) :=
  [ [ mkSObs [0; 0] [1; 1] (Some 0%Z) [None; None] [];
      mkSObs [0; 0] [1; 1] None [Some 20%Z; None] [(0, 20%Z)];
      mkSObs [0; 1] [2; 2] (Some 2%Z) [Some 10%Z; Some 11%Z] [(0, 10%Z); (1, 11%Z)] ];
    [ mkSObs [2; 2] [2; 2] (Some 2%Z) [Some 12%Z; Some 11%Z] [(0, 12%Z); (1, 11%Z)] ] ].

Example ex_good_serialisable : serialisable 2 ex_ws ex_good.
Proof. apply ser_check_sound. vm_compute. reflexivity. Qed.

(* a lost back-index update: document 0 answers version 12 but is still found under version 20,
   and the count is one too high: no serial order explains it *)
Definition ex_bad : list (list sobs) :=
  [ [ mkSObs [2; 2] [2; 2] (Some 3%Z) [Some 12%Z; Some 11%Z] [(0, 12%Z); (0, 20%Z); (1, 11%Z)] ] ].

Example ex_bad_not_serialisable : ~ serialisable 2 ex_ws ex_bad.
Proof. intro H. apply ser_check_complete in H. vm_compute in H. discriminate. Qed.

(* two readers that disagree on the order of the two writers' first batches: each view alone is a
   state of some serial order, together they are not (w0 then w1 leaves 20, w1 then w0 leaves 10,
   and the final read fixes the order w1, w0, w1, w0) *)
Definition ex_torn : list (list sobs) :=
  [ [ mkSObs [1; 1] [1; 1] (Some 2%Z) [Some 20%Z; Some 11%Z] [(0, 20%Z); (1, 11%Z)] ];
    [ mkSObs [2; 2] [2; 2] (Some 2%Z) [Some 12%Z; Some 11%Z] [(0, 12%Z); (1, 11%Z)] ];
    [ mkSObs [1; 1] [1; 1] None [Some 10%Z; Some 11%Z] [(0, 10%Z); (1, 11%Z)] ] ].

Example ex_torn_not_serialisable : ~ serialisable 2 ex_ws ex_torn.
Proof. intro H. apply ser_check_complete in H. vm_compute in H. discriminate. Qed.
