(* Scorch engine — persistence proofs, part 6: files (C12), rollback (C13), online copy (C14). *)
From Coq Require Import ZArith List Bool Arith Lia Permutation.
From Verif Require Import Scorch.Model Scorch.ProofsCore1 Scorch.ProofsCore2 Scorch.ProofsCore3
  Scorch.Disk Scorch.ProofsDisk1 Scorch.ProofsDisk2 Scorch.ProofsDisk3 Scorch.ProofsDisk4
  Scorch.ProofsDisk5.
Import ListNotations.
Local Open Scope Z_scope.

(* ---------- C12: needed files exist ---------- *)

Theorem named_files_exist : forall evs d,
  drun dinit evs = Some d ->
  (forall r id, In r (d_bolt d) -> In id (named_by r) -> In id (d_files d))
  /\ (d_up d = true -> forall id, In id (file_segs (root (d_core d))) -> In id (d_files d)).
Proof.
  intros evs d Hrun. assert (I := reachable_DInv evs d Hrun).
  split; [exact (di_named _ d I) | exact (di_i5 _ d I)].
Qed.

(* the files the purger must not touch *)
Definition protected (d : dstate) (id : Z) : Prop :=
  (exists b, In b (d_bolt d) /\ In id (named_by b))
  \/ (exists r, d_tx d = Some r /\ In id (named_by r))
  \/ In id (file_segs (root (d_core d)))
  \/ In id (inflight_news (d_core d))
  \/ In id (d_copy d).

Lemma remove_zap_refuses_protected : forall d id, protected d id -> dstep d (DRemoveZap id) = None.
Proof.
  intros d id P. cbn [dstep]. destruct (negb (d_up d)); [reflexivity|].
  match goal with |- (if ?c then _ else _) = _ => assert (Hc : c = true) end; [|rewrite Hc; reflexivity].
  destruct P as [[b [Hb Hid]]|[[r [Hr Hid]]|[Hid|[Hid|Hid]]]].
  - repeat (apply orb_true_iff; left). apply existsb_exists. exists b. split; [exact Hb|].
    apply mem_id_In. exact Hid.
  - apply orb_true_iff; left. apply orb_true_iff; left. apply orb_true_iff; left.
    apply orb_true_iff; right. rewrite Hr. apply mem_id_In. exact Hid.
  - apply orb_true_iff; left. apply orb_true_iff; left. apply orb_true_iff; right.
    apply mem_id_In. exact Hid.
  - apply orb_true_iff; left. apply orb_true_iff; right. apply mem_id_In. exact Hid.
  - apply orb_true_iff; right. apply mem_id_In. exact Hid.
Qed.

Definition is_recover (ev : devent) : bool := match ev with DRecover => true | _ => false end.

(* only DRemoveZap (and the clean-up at open) ever delete a file *)
Lemma files_step : forall d ev d' id,
  dstep d ev = Some d' -> is_recover ev = false -> In id (d_files d) ->
  (forall x, ev = DRemoveZap x -> id <> x) -> In id (d_files d').
Proof.
  intros d ev d' id H Hnr Hin Hx. destruct ev; cbn [is_recover] in Hnr; try discriminate.
  - cbn [dstep] in H. destruct (negb (d_up d)); [discriminate|].
    destruct (step (d_core d) e); [|discriminate].
    match type of H with (if ?c then _ else _) = _ => destruct c end; [|discriminate].
    injection H as H. subst d'. exact Hin.
  - need_up H Hup. injection H as H. subst d'. cbn [d_files].
    destruct (mem_id sid (d_files d)); [|right]; exact Hin.
  - need_up H Hup. destruct (d_tx d); [discriminate|].
    destruct (assocZ (br_epoch r) (d_pub d)) as [[? ?]|]; [|discriminate].
    destruct (rec_root (d_segdocs d) (br_segs r)); [|discriminate].
    match type of H with (if ?c then _ else _) = _ => destruct c end; [|discriminate].
    injection H as H. subst d'. exact Hin.
  - need_up H Hup. destruct (d_tx d); [|discriminate].
    match type of H with (if ?c then _ else _) = _ => destruct c end; [|discriminate].
    injection H as H. subst d'. exact Hin.
  - need_up H Hup.
    match type of H with (if ?c then _ else _) = _ => destruct c end; [|discriminate].
    injection H as H. subst d'. exact Hin.
  - need_up H Hup. destruct (newest (d_bolt d)); [|discriminate].
    match type of H with (if ?c then _ else _) = _ => destruct c end; [discriminate|].
    injection H as H. subst d'. exact Hin.
  - need_up H Hup.
    match type of H with (if ?c then _ else _) = _ => destruct c end; [discriminate|].
    injection H as H. subst d'. cbn [d_files]. apply In_filter_ne; [exact Hin|].
    exact (Hx sid eq_refl).
  - need_up H Hup. injection H as H. subst d'. exact Hin.
  - need_up H Hup. injection H as H. subst d'. exact Hin.
  - need_up H Hup. injection H as H. subst d'. exact Hin.
  - cbn [dstep] in H. injection H as H. subst d'. exact Hin.
  - cbn [dstep] in H. destruct (d_up d); [discriminate|].
    match type of H with (if ?c then _ else _) = _ => destruct c end; [|discriminate].
    injection H as H. subst d'. exact Hin.
Qed.

(* a protected file that exists still exists after any step of a running (or crashing) process *)
Theorem protected_file_survives_step : forall d ev d' id,
  dstep d ev = Some d' -> is_recover ev = false ->
  protected d id -> In id (d_files d) -> In id (d_files d').
Proof.
  intros d ev d' id H Hnr P Hin. apply (files_step d ev d' id H Hnr Hin).
  intros x He Hid. subst ev x. rewrite (remove_zap_refuses_protected d id P) in H. discriminate.
Qed.

(* after the clean-up at open the directory holds exactly the files committed records name *)
Theorem quiescent_dir_minimal : forall evs d d',
  drun dinit evs = Some d -> dstep d DRecover = Some d' ->
  d_files d' = named_files d
  /\ forall f, In f (d_files d') <-> exists b, In b (d_bolt d') /\ In f (named_by b).
Proof.
  intros evs d d' Hrun H. assert (I := reachable_DInv evs d Hrun).
  destruct (recover_shape d d' H) as [n [r [_ [_ [_ [_ Hd]]]]]]. subst d'.
  unfold recovered. cbn [d_files d_bolt]. split; [reflexivity|].
  intros f. rewrite In_named_files. split.
  - intros [_ Hb]. exact Hb.
  - intros [b [Hb Hf]]. split; [exact (di_named _ d I b f Hb Hf)|]. exists b. split; assumption.
Qed.

(* ---------- C13: rollback ---------- *)

Theorem rollback_restores : forall evs d e d1 d2 k,
  drun dinit evs = Some d ->
  dstep d (DRollback e) = Some d1 -> dstep d1 DRecover = Some d2 ->
  assocZ e (d_nb d) = Some k ->
  (forall id, root_lookup (root (d_core d2)) id = replay (firstn k (eff evs)) id)
  /\ d_bolt d2 = filter (fun b => br_epoch b <=? e) (d_bolt d)
  /\ epoch (d_core d2) = e
  /\ DInv (firstn k (eff evs)) d2.
Proof.
  intros evs d e d1 d2 k Hrun Hrb Hrec Hk.
  assert (I := reachable_DInv evs d Hrun).
  assert (I1 := DInv_rollback _ d e d1 I Hrb).
  assert (Hcov := rollback_covered _ d e d1 k I Hrb Hk).
  assert (I2 := DInv_recover _ d1 d2 I1 Hrec). rewrite Hcov in I2.
  destruct (rollback_shape d e d1 Hrb) as [_ [[b [Hb He]] [Hbolt [Hnb _]]]].
  split; [|split; [|split; [|exact I2]]].
  - intros id. rewrite <- Hcov. exact (recover_prefix _ d1 d2 I1 Hrec id).
  - destruct (recover_shape d1 d2 Hrec) as [n [r [_ [_ [_ [_ Hd]]]]]]. subst d2.
    unfold recovered. cbn [d_bolt]. exact Hbolt.
  - destruct (recover_shape d1 d2 Hrec) as [n [r [_ [En [_ [_ Hd]]]]]]. subst d2.
    unfold recovered. cbn [d_core epoch].
    assert (Hb1 : In b (d_bolt d1)).
    { rewrite Hbolt. apply filter_In. split; [exact Hb|]. apply Z.leb_le. lia. }
    assert (Hge := bsorted_max _ n (di_sorted _ d1 I1) En b Hb1).
    assert (Hn := newest_In _ _ En). rewrite Hbolt in Hn. apply filter_In in Hn.
    destruct Hn as [_ Hle]. apply Z.leb_le in Hle. lia.
Qed.

(* rollback_points_are_states: every rollback point (= committed record) is a state the index
   really had: the replay of the first k batches, for the k recorded at its epoch *)
Theorem rollback_points_are_states : forall evs d,
  drun dinit evs = Some d ->
  forall r, In r (d_bolt d) ->
  exists rr k, rec_root (d_segdocs d) (br_segs r) = Some rr
     /\ assocZ (br_epoch r) (d_nb d) = Some k /\ (k <= length (eff evs))%nat
     /\ forall id, root_lookup rr id = replay (firstn k (eff evs)) id.
Proof. intros evs d Hrun r Hr. exact (proj1 (record_is_prefix evs d Hrun r Hr)). Qed.

Theorem newest_never_purged : forall d eps d',
  dstep d (DPurgeBolt eps) = Some d' -> newest (d_bolt d') = newest (d_bolt d) /\ d_bolt d <> [].
Proof.
  intros d eps d' H. need_up H Hup. destruct (newest (d_bolt d)) as [n|] eqn:En; [|discriminate].
  destruct (mem_id (br_epoch n) eps) eqn:Hm; [discriminate|].
  injection H as H. subst d'. cbn [d_bolt]. split.
  - apply newest_filter_keep; [exact En|]. rewrite Hm. reflexivity.
  - intros Hnil. rewrite Hnil in En. discriminate.
Qed.

Lemma bolt_nonempty_step : forall d ev d',
  dstep d ev = Some d' -> d_bolt d <> [] -> d_bolt d' <> [].
Proof.
  intros d ev d' H Hne. destruct ev.
  - cbn [dstep] in H. destruct (negb (d_up d)); [discriminate|].
    destruct (step (d_core d) e); [|discriminate].
    match type of H with (if ?c then _ else _) = _ => destruct c end; [|discriminate].
    injection H as H. subst d'. exact Hne.
  - need_up H Hup. injection H as H. subst d'. exact Hne.
  - need_up H Hup. destruct (d_tx d); [discriminate|].
    destruct (assocZ (br_epoch r) (d_pub d)) as [[? ?]|]; [|discriminate].
    destruct (rec_root (d_segdocs d) (br_segs r)); [|discriminate].
    match type of H with (if ?c then _ else _) = _ => destruct c end; [|discriminate].
    injection H as H. subst d'. exact Hne.
  - need_up H Hup. destruct (d_tx d); [|discriminate].
    match type of H with (if ?c then _ else _) = _ => destruct c end; [|discriminate].
    injection H as H. subst d'. cbn [d_bolt]. intros Hnil. apply app_eq_nil in Hnil.
    destruct Hnil as [_ Hnil]. discriminate.
  - need_up H Hup.
    match type of H with (if ?c then _ else _) = _ => destruct c end; [|discriminate].
    injection H as H. subst d'. exact Hne.
  - destruct (newest_never_purged d epochs d' H) as [Hn _]. intros Hnil.
    rewrite Hnil in Hn. destruct (newest_Some _ Hne) as [n En]. rewrite En in Hn. discriminate.
  - need_up H Hup.
    match type of H with (if ?c then _ else _) = _ => destruct c end; [discriminate|].
    injection H as H. subst d'. exact Hne.
  - need_up H Hup. injection H as H. subst d'. exact Hne.
  - need_up H Hup. injection H as H. subst d'. exact Hne.
  - need_up H Hup. injection H as H. subst d'. exact Hne.
  - cbn [dstep] in H. injection H as H. subst d'. exact Hne.
  - destruct (recover_shape d d' H) as [n [r [_ [_ [_ [_ Hd]]]]]]. subst d'. exact Hne.
  - destruct (rollback_shape d e d' H) as [_ [[b [Hb He]] [Hbolt _]]]. intros Hnil.
    assert (Hin : In b (d_bolt d')).
    { rewrite Hbolt. apply filter_In. split; [exact Hb|]. apply Z.leb_le. lia. }
    rewrite Hnil in Hin. destruct Hin.
Qed.

(* once the first commit happened the list of rollback points is never empty again *)
Theorem rollback_points_nonempty : forall evs d d',
  drun d evs = Some d' -> d_bolt d <> [] -> d_bolt d' <> [].
Proof.
  induction evs as [|ev evs IH]; intros d d' Hrun Hne; cbn [drun] in Hrun.
  - injection Hrun as Hrun. subst d'. exact Hne.
  - destruct (dstep d ev) as [d1|] eqn:Hs; [|discriminate].
    exact (IH d1 d' Hrun (bolt_nonempty_step d ev d1 Hs Hne)).
Qed.

(* ---------- C14: online copy ---------- *)

Theorem source_unaffected : forall d d',
  (dstep d DCopyStart = Some d' \/ exists sids, dstep d (DCopyEnd sids) = Some d') ->
  d_core d' = d_core d /\ d_bolt d' = d_bolt d /\ d_files d' = d_files d /\ d_tx d' = d_tx d
  /\ d_pub d' = d_pub d /\ d_nb d' = d_nb d /\ d_segdocs d' = d_segdocs d /\ d_acked d' = d_acked d.
Proof.
  intros d d' [H|[sids H]]; need_up H Hup; injection H as H; subst d'; repeat split; reflexivity.
Qed.

(* events that neither end a copy nor kill the process *)
Definition keeps_copy (ev : devent) : bool :=
  match ev with DCopyEnd _ | DCrash | DRecover | DRollback _ => false | _ => true end.

Lemma copy_step : forall d ev d' id,
  dstep d ev = Some d' -> keeps_copy ev = true -> In id (d_copy d) -> In id (d_copy d').
Proof.
  intros d ev d' id H Hk Hin. destruct ev; cbn [keeps_copy] in Hk; try discriminate.
  - cbn [dstep] in H. destruct (negb (d_up d)); [discriminate|].
    destruct (step (d_core d) e); [|discriminate].
    match type of H with (if ?c then _ else _) = _ => destruct c end; [|discriminate].
    injection H as H. subst d'. exact Hin.
  - need_up H Hup. injection H as H. subst d'. exact Hin.
  - need_up H Hup. destruct (d_tx d); [discriminate|].
    destruct (assocZ (br_epoch r) (d_pub d)) as [[? ?]|]; [|discriminate].
    destruct (rec_root (d_segdocs d) (br_segs r)); [|discriminate].
    match type of H with (if ?c then _ else _) = _ => destruct c end; [|discriminate].
    injection H as H. subst d'. exact Hin.
  - need_up H Hup. destruct (d_tx d); [|discriminate].
    match type of H with (if ?c then _ else _) = _ => destruct c end; [|discriminate].
    injection H as H. subst d'. exact Hin.
  - need_up H Hup.
    match type of H with (if ?c then _ else _) = _ => destruct c end; [|discriminate].
    injection H as H. subst d'. exact Hin.
  - need_up H Hup. destruct (newest (d_bolt d)); [|discriminate].
    match type of H with (if ?c then _ else _) = _ => destruct c end; [discriminate|].
    injection H as H. subst d'. exact Hin.
  - need_up H Hup.
    match type of H with (if ?c then _ else _) = _ => destruct c end; [discriminate|].
    injection H as H. subst d'. exact Hin.
  - need_up H Hup. injection H as H. subst d'. exact Hin.
  - need_up H Hup. injection H as H. subst d'. cbn [d_copy]. apply in_or_app. right. exact Hin.
Qed.

Lemma keeps_copy_not_recover : forall ev, keeps_copy ev = true -> is_recover ev = false.
Proof. intros []; cbn; congruence. Qed.

Lemma copy_window : forall evs d d' id,
  drun d evs = Some d' -> forallb keeps_copy evs = true -> In id (d_copy d) ->
  In id (d_copy d') /\ (In id (d_files d) -> In id (d_files d')) /\ dstep d' (DRemoveZap id) = None.
Proof.
  induction evs as [|ev evs IH]; intros d d' id Hrun Hk Hin; cbn [drun forallb] in *.
  - injection Hrun as Hrun. subst d'. split; [exact Hin|]. split; [tauto|].
    apply remove_zap_refuses_protected. right. right. right. right. exact Hin.
  - apply andb_true_iff in Hk. destruct Hk as [Hk1 Hk].
    destruct (dstep d ev) as [d1|] eqn:Hs; [|discriminate].
    destruct (IH d1 d' id Hrun Hk (copy_step d ev d1 id Hs Hk1 Hin)) as [H1 [H2 H3]].
    split; [exact H1|]. split; [|exact H3]. intros Hf. apply H2.
    apply (protected_file_survives_step d ev d1 id Hs (keeps_copy_not_recover ev Hk1)); [|exact Hf].
    right. right. right. right. exact Hin.
Qed.

(* copy_sources_survive: from DCopyStart until a DCopyEnd (or the death of the process) every
   segment of the copied snapshot stays scheduled, its file — if it exists, or once it is
   written — is never removed, and DRemoveZap of it is not enabled *)
Theorem copy_sources_survive : forall d d0 evs d',
  dstep d DCopyStart = Some d0 -> drun d0 evs = Some d' -> forallb keeps_copy evs = true ->
  forall s, In s (root (d_core d)) ->
    In (sid s) (d_copy d')
    /\ (In (sid s) (d_files d) -> In (sid s) (d_files d'))
    /\ dstep d' (DRemoveZap (sid s)) = None.
Proof.
  intros d d0 evs d' Hs Hrun Hk s Hin.
  assert (Hc : In (sid s) (d_copy d0)).
  { need_up Hs Hup. injection Hs as Hs. subst d0. cbn [d_copy]. apply in_or_app. left.
    apply in_map. exact Hin. }
  assert (Hf : d_files d0 = d_files d).
  { destruct (source_unaffected d d0 (or_introl Hs)) as [_ [_ [Hf _]]]. exact Hf. }
  rewrite <- Hf. exact (copy_window evs d0 d' (sid s) Hrun Hk Hc).
Qed.

(* in a reachable state the file-backed segments of the snapshot do exist, so they exist during
   the whole copy *)
Theorem copy_snapshot_files_exist : forall pre d d0 evs d',
  drun dinit pre = Some d ->
  dstep d DCopyStart = Some d0 -> drun d0 evs = Some d' -> forallb keeps_copy evs = true ->
  forall id, In id (file_segs (root (d_core d))) -> In id (d_files d').
Proof.
  intros pre d d0 evs d' Hpre Hs Hrun Hk id Hid.
  assert (I := reachable_DInv pre d Hpre).
  assert (Hup : d_up d = true).
  { cbn [dstep] in Hs. destruct (d_up d); [reflexivity | discriminate]. }
  unfold file_segs in Hid. apply in_map_iff in Hid. destruct Hid as [s [Hsid Hin]].
  apply filter_In in Hin. destruct Hin as [Hin Hfile]. subst id.
  apply (proj1 (proj2 (copy_sources_survive d d0 evs d' Hs Hrun Hk s Hin))).
  apply (di_i5 _ d I Hup). unfold file_segs. apply in_map. apply filter_In. split; assumption.
Qed.

(* ---------- C14 with overlapping copies: reference counting ---------- *)

(* [d_copy] is a multiset: DCopyStart adds one reference per segment of the snapshot, DCopyEnd
   releases one reference per listed id.  As long as fewer references to [id] have been released
   than were held at the start of the window, [id] is still scheduled — so the file of a segment
   of copy A's snapshot is protected until A's own DCopyEnd, however many other copies (each
   holding and releasing its own references) start and end meanwhile. *)

Definition released_by (id : Z) (ev : devent) : nat :=
  match ev with DCopyEnd sids => count_occ Z.eq_dec sids id | _ => 0%nat end.
Fixpoint released (id : Z) (evs : list devent) : nat :=
  match evs with [] => 0%nat | ev :: evs' => (released_by id ev + released id evs')%nat end.

Definition no_death (ev : devent) : bool :=
  match ev with DCrash | DRecover | DRollback _ => false | _ => true end.

Lemma count_remove_one : forall x l id,
  (count_occ Z.eq_dec l id <= count_occ Z.eq_dec (remove_one x l) id + (if Z.eq_dec x id then 1 else 0))%nat.
Proof.
  intros x l id. induction l as [|y l IH]; cbn [remove_one count_occ].
  - lia.
  - destruct (y =? x) eqn:E.
    + apply Z.eqb_eq in E. subst y. destruct (Z.eq_dec x id); lia.
    + cbn [count_occ]. destruct (Z.eq_dec y id); lia.
Qed.

Lemma count_release : forall sids l id,
  (count_occ Z.eq_dec l id
   <= count_occ Z.eq_dec (fold_left (fun acc x => remove_one x acc) sids l) id
      + count_occ Z.eq_dec sids id)%nat.
Proof.
  induction sids as [|x sids IH]; intros l id; cbn [fold_left count_occ].
  - lia.
  - assert (H1 := count_remove_one x l id). assert (H2 := IH (remove_one x l) id).
    destruct (Z.eq_dec x id); lia.
Qed.

Lemma copy_count_step : forall d ev d' id,
  dstep d ev = Some d' -> no_death ev = true ->
  (count_occ Z.eq_dec (d_copy d) id <= count_occ Z.eq_dec (d_copy d') id + released_by id ev)%nat.
Proof.
  intros d ev d' id H Hk. destruct ev; cbn [no_death] in Hk; try discriminate; cbn [released_by].
  - cbn [dstep] in H. destruct (negb (d_up d)); [discriminate|].
    destruct (step (d_core d) e); [|discriminate].
    match type of H with (if ?c then _ else _) = _ => destruct c end; [|discriminate].
    injection H as H. subst d'. cbn [d_copy]. lia.
  - need_up H Hup. injection H as H. subst d'. cbn [d_copy]. lia.
  - need_up H Hup. destruct (d_tx d); [discriminate|].
    destruct (assocZ (br_epoch r) (d_pub d)) as [[? ?]|]; [|discriminate].
    destruct (rec_root (d_segdocs d) (br_segs r)); [|discriminate].
    match type of H with (if ?c then _ else _) = _ => destruct c end; [|discriminate].
    injection H as H. subst d'. cbn [d_copy]. lia.
  - need_up H Hup. destruct (d_tx d); [|discriminate].
    match type of H with (if ?c then _ else _) = _ => destruct c end; [|discriminate].
    injection H as H. subst d'. cbn [d_copy]. lia.
  - need_up H Hup.
    match type of H with (if ?c then _ else _) = _ => destruct c end; [|discriminate].
    injection H as H. subst d'. cbn [d_copy]. lia.
  - need_up H Hup. destruct (newest (d_bolt d)); [|discriminate].
    match type of H with (if ?c then _ else _) = _ => destruct c end; [discriminate|].
    injection H as H. subst d'. cbn [d_copy]. lia.
  - need_up H Hup.
    match type of H with (if ?c then _ else _) = _ => destruct c end; [discriminate|].
    injection H as H. subst d'. cbn [d_copy]. lia.
  - need_up H Hup. injection H as H. subst d'. cbn [d_copy]. lia.
  - need_up H Hup. injection H as H. subst d'. cbn [d_copy]. rewrite count_occ_app. lia.
  - need_up H Hup. injection H as H. subst d'. cbn [d_copy]. apply count_release.
Qed.

Lemma no_death_not_recover : forall ev, no_death ev = true -> is_recover ev = false.
Proof. intros []; cbn; congruence. Qed.

Theorem copy_refs_survive : forall evs d d' id,
  drun d evs = Some d' -> forallb no_death evs = true ->
  (released id evs < count_occ Z.eq_dec (d_copy d) id)%nat ->
  In id (d_copy d') /\ (In id (d_files d) -> In id (d_files d')) /\ dstep d' (DRemoveZap id) = None.
Proof.
  induction evs as [|ev evs IH]; intros d d' id Hrun Hk Hlt; cbn [drun forallb released] in *.
  - injection Hrun as Hrun. subst d'.
    assert (Hin : In id (d_copy d)) by (apply (count_occ_In Z.eq_dec); lia).
    split; [exact Hin|]. split; [tauto|].
    apply remove_zap_refuses_protected. right. right. right. right. exact Hin.
  - apply andb_true_iff in Hk. destruct Hk as [Hk1 Hk].
    destruct (dstep d ev) as [d1|] eqn:Hs; [|discriminate].
    assert (Hc := copy_count_step d ev d1 id Hs Hk1).
    destruct (IH d1 d' id Hrun Hk ltac:(lia)) as [H1 [H2 H3]].
    split; [exact H1|]. split; [|exact H3]. intros Hf. apply H2.
    apply (protected_file_survives_step d ev d1 id Hs (no_death_not_recover ev Hk1)); [|exact Hf].
    right. right. right. right. apply (count_occ_In Z.eq_dec). lia.
Qed.

(* a copy started in [d] takes one more reference on every segment of its snapshot *)
Lemma copy_start_refs : forall d d0 s,
  dstep d DCopyStart = Some d0 -> In s (root (d_core d)) ->
  (count_occ Z.eq_dec (d_copy d) (sid s) < count_occ Z.eq_dec (d_copy d0) (sid s))%nat.
Proof.
  intros d d0 s H Hin. need_up H Hup. injection H as H. subst d0. cbn [d_copy].
  rewrite count_occ_app.
  assert (Hc : In (sid s) (map sid (root (d_core d)))) by (apply in_map; exact Hin).
  apply (count_occ_In Z.eq_dec) in Hc. lia.
Qed.

(* the matching-DCopyEnd form: between the start of a copy and any point at which the other
   copies have released no more than they held at that start, every segment of the snapshot is
   still scheduled and its file cannot be removed *)
Theorem copy_sources_survive_overlapping : forall d d0 evs d',
  dstep d DCopyStart = Some d0 -> drun d0 evs = Some d' -> forallb no_death evs = true ->
  forall s, In s (root (d_core d)) ->
    (released (sid s) evs <= count_occ Z.eq_dec (d_copy d) (sid s))%nat ->
    In (sid s) (d_copy d')
    /\ (In (sid s) (d_files d) -> In (sid s) (d_files d'))
    /\ dstep d' (DRemoveZap (sid s)) = None.
Proof.
  intros d d0 evs d' Hs Hrun Hk s Hin Hrel.
  assert (Hlt := copy_start_refs d d0 s Hs Hin).
  assert (Hf : d_files d0 = d_files d).
  { destruct (source_unaffected d d0 (or_introl Hs)) as [_ [_ [Hf _]]]. exact Hf. }
  rewrite <- Hf. apply (copy_refs_survive evs d0 d' (sid s) Hrun Hk). lia.
Qed.
