(* Scorch engine — persistence proofs, part 9: acknowledgements in histories WITH rollbacks
   (what is covered only grows between rollbacks, so every batch acknowledged since the last
   rollback survives), and the persister is never stuck: the bucket describing the current root
   is always accepted by [DPrepare]. *)
From Coq Require Import ZArith List Bool Arith Lia Permutation.
From Verif Require Import Scorch.Model Scorch.ProofsCore1 Scorch.ProofsCore2 Scorch.ProofsCore3
  Scorch.Disk Scorch.ProofsDisk1 Scorch.ProofsDisk3 Scorch.ProofsDisk4 Scorch.ProofsDisk5
  Scorch.ProofsDisk8.
Import ListNotations.
Local Open Scope Z_scope.

(* ---------- coverage is monotone between rollbacks ---------- *)

Lemma covered_mono_step : forall ef d ev d',
  DInv ef d -> is_rollback ev = false -> dstep d ev = Some d' -> (covered d <= covered d')%nat.
Proof.
  intros ef d ev d' I Hnr H. destruct ev; cbn [is_rollback] in Hnr; try discriminate.
  - cbn [dstep] in H. destruct (negb (d_up d)); [discriminate|].
    destruct (step (d_core d) e) as [s'|] eqn:Hs; [|discriminate].
    match type of H with (if ?c then _ else _) = _ => destruct c end; [|discriminate].
    injection H as H. subst d'. unfold covered. cbn [d_bolt d_nb].
    destruct (newest (d_bolt d)) as [n|] eqn:En; [|lia].
    destruct (swaps_root e) eqn:Hsw; [|lia].
    rewrite assocZ_cons_ne; [lia|].
    assert (Hep := step_epoch _ _ _ Hs). rewrite Hsw in Hep.
    assert (Hle := proj1 (di_bolt ef d I n (newest_In _ _ En))). lia.
  - need_up H Hup. injection H as H. subst d'. unfold covered. cbn [d_bolt d_nb]. lia.
  - need_up H Hup. destruct (d_tx d); [discriminate|].
    destruct (assocZ (br_epoch r) (d_pub d)) as [[? ?]|]; [|discriminate].
    destruct (rec_root (d_segdocs d) (br_segs r)); [|discriminate].
    match type of H with (if ?c then _ else _) = _ => destruct c end; [|discriminate].
    injection H as H. subst d'. unfold covered. cbn [d_bolt d_nb]. lia.
  - need_up H Hup. destruct (d_tx d) as [r|] eqn:Htx; [|discriminate].
    match type of H with (if ?c then _ else _) = _ => destruct c eqn:Hc end; [|discriminate].
    injection H as H. subst d'. apply andb_true_iff in Hc. destruct Hc as [_ Hnew].
    destruct (di_tx ef d I r Htx) as [Her [_ [_ [rr [kr [_ [Hkr _]]]]]]].
    unfold covered at 2. cbn [d_bolt d_nb]. rewrite newest_app_one, Hkr.
    destruct (newest (d_bolt d)) as [n|] eqn:En.
    + apply Z.leb_le in Hnew. assert (Hc := covered_Some ef d n I En).
      exact (di_mono ef d I _ _ _ _ Hnew Her Hc Hkr).
    + unfold covered. rewrite En. lia.
  - need_up H Hup.
    match type of H with (if ?c then _ else _) = _ => destruct c end; [|discriminate].
    injection H as H. subst d'. unfold covered. cbn [d_bolt d_nb]. lia.
  - need_up H Hup. destruct (newest (d_bolt d)) as [n|] eqn:En; [|discriminate].
    destruct (mem_id (br_epoch n) epochs) eqn:Hm; [discriminate|].
    injection H as H. subst d'. unfold covered. cbn [d_bolt d_nb]. rewrite En.
    rewrite (newest_filter_keep _ _ n En); [lia|]. rewrite Hm. reflexivity.
  - need_up H Hup.
    match type of H with (if ?c then _ else _) = _ => destruct c end; [discriminate|].
    injection H as H. subst d'. unfold covered. cbn [d_bolt d_nb]. lia.
  - need_up H Hup. injection H as H. subst d'. unfold covered. cbn [d_bolt d_nb]. lia.
  - need_up H Hup. injection H as H. subst d'. unfold covered. cbn [d_bolt d_nb]. lia.
  - need_up H Hup. injection H as H. subst d'. unfold covered. cbn [d_bolt d_nb]. lia.
  - destruct (crash_shape d d' H) as [_ [_ [_ [_ [_ [_ Hc]]]]]]. lia.
  - destruct (recover_shape d d' H) as [n [r [_ [En [_ [_ Hd]]]]]]. subst d'.
    unfold covered at 2. unfold recovered. cbn [d_bolt d_nb]. rewrite En, assocZ_cons_eq. lia.
Qed.

(* what a step does to the list of acknowledgements *)
Lemma acked_step : forall ef d ev d',
  DInv ef d -> is_rollback ev = false -> dstep d ev = Some d' ->
  d_acked d' = d_acked d \/ exists k, d_acked d' = k :: d_acked d /\ (k <= covered d)%nat.
Proof.
  intros ef d ev d' I Hnr H. destruct ev; cbn [is_rollback] in Hnr; try discriminate.
  - left. cbn [dstep] in H. destruct (negb (d_up d)); [discriminate|].
    destruct (step (d_core d) e); [|discriminate].
    match type of H with (if ?c then _ else _) = _ => destruct c end; [|discriminate].
    injection H as H. subst d'. reflexivity.
  - left. need_up H Hup. injection H as H. subst d'. reflexivity.
  - left. need_up H Hup. destruct (d_tx d); [discriminate|].
    destruct (assocZ (br_epoch r) (d_pub d)) as [[? ?]|]; [|discriminate].
    destruct (rec_root (d_segdocs d) (br_segs r)); [|discriminate].
    match type of H with (if ?c then _ else _) = _ => destruct c end; [|discriminate].
    injection H as H. subst d'. reflexivity.
  - left. need_up H Hup. destruct (d_tx d); [|discriminate].
    match type of H with (if ?c then _ else _) = _ => destruct c end; [|discriminate].
    injection H as H. subst d'. reflexivity.
  - right. exists k.
    assert (A : acks_le (mkD (d_core d) (d_pub d) (d_nb d) (d_batches d) (d_segdocs d) (d_bolt d)
                             (d_tx d) (d_files d) (d_copy d) [] (d_up d))) by (intros k0 []).
    need_up H Hup.
    match type of H with (if ?c then _ else _) = _ => destruct c eqn:Hc end; [|discriminate].
    injection H as H. subst d'. split; [reflexivity|].
    apply existsb_exists in Hc. destruct Hc as [b [Hb Hc]].
    destruct (assocZ (br_epoch b) (d_nb d)) as [nbk|] eqn:Hnbk; [|discriminate].
    apply Nat.leb_le in Hc.
    destruct (newest_Some (d_bolt d)) as [n En]; [intros He; rewrite He in Hb; destruct Hb|].
    assert (Hcov := covered_Some ef d n I En).
    assert (Hle := bsorted_max _ n (di_sorted ef d I) En b Hb).
    assert (Hen := proj1 (di_bolt ef d I n (newest_In _ _ En))).
    assert (Hm := di_mono ef d I _ _ _ _ Hle Hen Hnbk Hcov). lia.
  - left. need_up H Hup. destruct (newest (d_bolt d)); [|discriminate].
    match type of H with (if ?c then _ else _) = _ => destruct c end; [discriminate|].
    injection H as H. subst d'. reflexivity.
  - left. need_up H Hup.
    match type of H with (if ?c then _ else _) = _ => destruct c end; [discriminate|].
    injection H as H. subst d'. reflexivity.
  - left. need_up H Hup. injection H as H. subst d'. reflexivity.
  - left. need_up H Hup. injection H as H. subst d'. reflexivity.
  - left. need_up H Hup. injection H as H. subst d'. reflexivity.
  - left. cbn [dstep] in H. injection H as H. subst d'. reflexivity.
  - left. destruct (recover_shape d d' H) as [n [r [_ [_ [_ [_ Hd]]]]]]. subst d'. reflexivity.
Qed.

Lemma acks_since_run : forall post ef d0 d,
  DInv ef d0 -> no_rollback post = true -> drun d0 post = Some d ->
  (covered d0 <= covered d)%nat
  /\ exists new, d_acked d = new ++ d_acked d0 /\ forall k, In k new -> (k <= covered d)%nat.
Proof.
  induction post as [|ev post IH]; intros ef d0 d I Hnr Hrun; cbn [drun no_rollback forallb] in *.
  - injection Hrun as Hrun. subst d. split; [lia|]. exists []. split; [reflexivity | intros k []].
  - apply andb_true_iff in Hnr. destruct Hnr as [Hnr1 Hnr]. apply negb_true_iff in Hnr1.
    destruct (dstep d0 ev) as [d1|] eqn:Hs; [|discriminate].
    assert (I1 := DInv_step ef d0 ev d1 I Hs).
    assert (Hm := covered_mono_step ef d0 ev d1 I Hnr1 Hs).
    destruct (IH _ d1 d I1 Hnr Hrun) as [Hm1 [new [Hnew Hle]]].
    split; [lia|].
    destruct (acked_step ef d0 ev d1 I Hnr1 Hs) as [Ha|[k [Ha Hk]]].
    + exists new. rewrite Hnew, Ha. split; [reflexivity | exact Hle].
    + exists (new ++ [k]). rewrite Hnew, Ha, <- app_assoc. split; [reflexivity|].
      intros k0 Hk0. apply in_app_or in Hk0. destruct Hk0 as [Hk0|[Hk0|[]]]; [exact (Hle k0 Hk0)|].
      subst k0. lia.
Qed.

(* between rollbacks what is covered only grows and acknowledgements are only added, each covered
   when it is added: only a rollback can discard an acknowledged batch *)
Theorem acked_since_rollback_survive : forall pre post d0 d,
  drun dinit pre = Some d0 -> no_rollback post = true -> drun d0 post = Some d ->
  (covered d0 <= covered d)%nat
  /\ exists new, d_acked d = new ++ d_acked d0 /\ forall k, In k new -> (k <= covered d)%nat.
Proof.
  intros pre post d0 d Hpre Hnr Hrun.
  exact (acks_since_run post _ d0 d (reachable_DInv pre d0 Hpre) Hnr Hrun).
Qed.

(* ---------- the persister is never stuck ---------- *)

Definition pub_current (d : dstate) : Prop :=
  d_up d = true -> assocZ (epoch (d_core d)) (d_pub d) = Some (root (d_core d), internal (d_core d)).

Lemma pub_current_step : forall d ev d', pub_current d -> dstep d ev = Some d' -> pub_current d'.
Proof.
  intros d ev d' P H. destruct ev.
  - cbn [dstep] in H. destruct (d_up d) eqn:Hup; cbn [negb] in H; [|discriminate].
    destruct (step (d_core d) e) as [s'|] eqn:Hs; [|discriminate].
    match type of H with (if ?c then _ else _) = _ => destruct c end; [|discriminate].
    injection H as H. subst d'. intros _. cbn [d_core d_pub].
    destruct (swaps_root e) eqn:Hsw; [apply assocZ_cons_eq|].
    destruct (step_root_noswap _ _ _ Hs Hsw) as [Hr Hi].
    assert (Hep := step_epoch _ _ _ Hs). rewrite Hsw in Hep. rewrite Hr, Hi, Hep. exact (P Hup).
  - need_up H Hup. injection H as H. subst d'. intros _. exact (P Hup).
  - need_up H Hup. destruct (d_tx d); [discriminate|].
    destruct (assocZ (br_epoch r) (d_pub d)) as [[? ?]|]; [|discriminate].
    destruct (rec_root (d_segdocs d) (br_segs r)); [|discriminate].
    match type of H with (if ?c then _ else _) = _ => destruct c end; [|discriminate].
    injection H as H. subst d'. intros _. exact (P Hup).
  - need_up H Hup. destruct (d_tx d); [|discriminate].
    match type of H with (if ?c then _ else _) = _ => destruct c end; [|discriminate].
    injection H as H. subst d'. intros _. exact (P Hup).
  - need_up H Hup.
    match type of H with (if ?c then _ else _) = _ => destruct c end; [|discriminate].
    injection H as H. subst d'. intros _. exact (P Hup).
  - need_up H Hup. destruct (newest (d_bolt d)); [|discriminate].
    match type of H with (if ?c then _ else _) = _ => destruct c end; [discriminate|].
    injection H as H. subst d'. intros _. exact (P Hup).
  - need_up H Hup.
    match type of H with (if ?c then _ else _) = _ => destruct c end; [discriminate|].
    injection H as H. subst d'. intros _. exact (P Hup).
  - need_up H Hup. injection H as H. subst d'. intros _. exact (P Hup).
  - need_up H Hup. injection H as H. subst d'. intros _. exact (P Hup).
  - need_up H Hup. injection H as H. subst d'. intros _. exact (P Hup).
  - cbn [dstep] in H. injection H as H. subst d'. intros Hf. discriminate.
  - destruct (recover_shape d d' H) as [n [r [_ [_ [_ [_ Hd]]]]]]. subst d'. intros _.
    unfold recovered. cbn [d_core d_pub epoch root internal]. apply assocZ_cons_eq.
  - cbn [dstep] in H. destruct (d_up d); [discriminate|].
    match type of H with (if ?c then _ else _) = _ => destruct c end; [|discriminate].
    injection H as H. subst d'. intros Hf. discriminate.
Qed.

Lemma pub_current_run : forall evs d d', pub_current d -> drun d evs = Some d' -> pub_current d'.
Proof.
  induction evs as [|ev evs IH]; intros d d' P Hrun; cbn [drun] in Hrun.
  - injection Hrun as Hrun. subst d'. exact P.
  - destruct (dstep d ev) as [d1|] eqn:Hs; [|discriminate].
    exact (IH d1 d' (pub_current_step d ev d1 P Hs) Hrun).
Qed.

Lemma canon_refl_eqb : forall l, pairs_eqb (canon l) (canon l) = true.
Proof. intros l. apply pairs_eqb_refl. Qed.

(* the enabling conditions of [DPrepare] are satisfiable in every running state with no open
   transaction: by the bucket that lists the segments of the current root with their deleted
   sets, under the current epoch, with the current internal values *)
Theorem prepare_current_root_enabled : forall evs d,
  drun dinit evs = Some d -> d_up d = true -> d_tx d = None ->
  dstep d (DPrepare (mkBrec (epoch (d_core d))
                            (map (fun s => (sid s, sdel s)) (root (d_core d)))
                            (internal (d_core d)))) <> None.
Proof.
  intros evs d Hrun Hup Htx.
  assert (P : pub_current d).
  { apply (pub_current_run evs dinit d); [|exact Hrun]. intros _. reflexivity. }
  destruct (root_record_denotes_root evs d Hrun) as [rr [Hrr [_ Hsame]]].
  assert (Ic := di_core _ d (reachable_DInv evs d Hrun) Hup).
  cbn [dstep br_epoch br_segs br_int]. rewrite Hup, Htx, (P Hup), Hrr. cbn [negb].
  rewrite Hsame, canon_refl_eqb, Z.leb_refl. cbn [andb].
  assert (Hnd : nodupZ (named_by (mkBrec (epoch (d_core d))
                 (map (fun s => (sid s, sdel s)) (root (d_core d))) (internal (d_core d)))) = true).
  { apply nodupZ_NoDup. unfold named_by. cbn [br_segs]. rewrite map_map. cbn [fst].
    exact (inv_sids_nodup _ Ic). }
  rewrite Hnd. discriminate.
Qed.

(* ---------- clean close / idempotent recovery ---------- *)

(* clean_close: if the newest committed record covers every batch introduced (the persister has
   caught up — in particular after Close, which waits for it), reopening shows exactly the
   contents the index had *)
Theorem clean_close : forall evs d d1 d2,
  drun dinit evs = Some d -> d_up d = true -> covered d = d_batches d ->
  dstep d DCrash = Some d1 -> dstep d1 DRecover = Some d2 ->
  forall id, root_lookup (root (d_core d2)) id = root_lookup (root (d_core d)) id.
Proof.
  intros evs d d1 d2 Hrun Hup Hcov Hc Hr id.
  assert (I := reachable_DInv evs d Hrun).
  rewrite (crash_recovers_prefix evs d Hrun d1 d2 Hc Hr id), (di_root _ d I Hup id).
  rewrite Hcov, (di_batches _ d I), firstn_all. reflexivity.
Qed.

(* right after a recovery the persister has trivially caught up, so recovering again (crash
   before anything else happens) changes nothing *)
Theorem recovery_idempotent : forall evs d d1,
  drun dinit evs = Some d -> dstep d DRecover = Some d1 ->
  d_up d1 = true /\ covered d1 = d_batches d1
  /\ forall d2 d3, dstep d1 DCrash = Some d2 -> dstep d2 DRecover = Some d3 ->
       forall id, root_lookup (root (d_core d3)) id = root_lookup (root (d_core d1)) id.
Proof.
  intros evs d d1 Hrun Hr.
  destruct (recover_shape d d1 Hr) as [n [r [_ [En [_ [_ Hd]]]]]].
  assert (Hup : d_up d1 = true) by (subst d1; reflexivity).
  assert (Hcov : covered d1 = d_batches d1).
  { subst d1. unfold covered at 1. unfold recovered. cbn [d_bolt d_nb d_batches].
    rewrite En, assocZ_cons_eq. reflexivity. }
  split; [exact Hup|]. split; [exact Hcov|].
  intros d2 d3 Hc Hr2 id.
  assert (Hrun1 : drun dinit (evs ++ [DRecover]) = Some d1).
  { clear - Hrun Hr. revert Hrun. generalize dinit. induction evs as [|ev evs IH]; intros d0 Hrun; cbn [drun app] in *.
    - injection Hrun as Hrun. subst d0. rewrite Hr. reflexivity.
    - destruct (dstep d0 ev) as [d'|]; [|discriminate]. exact (IH d' Hrun). }
  exact (clean_close (evs ++ [DRecover]) d1 d2 d3 Hrun1 Hup Hcov Hc Hr2 id).
Qed.
