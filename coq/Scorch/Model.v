(* Scorch engine — executable model of the segment list and the introducer
   (definitions only; proofs in Scorch/Proofs*.v).

   Transcribed from /repo/index/scorch:
     scorch.go       Batch / prepareSegment  (ids = every id of the batch; new segment iff the
                                               batch has updates)
     introducer.go   introduceSegment, introduceMerge, introducePersist
     merge.go        planMergeAtSnapshot      (tasks, captured SegmentSnapshots with LiveSize > 0,
                                               mergedSegHistory, newDocNums)
     persister.go    mergeAndPersistInMemorySegments (same shape, in-memory segments)

   Abstractions (trusted, exercised by the trace-acceptance tie T3):
   - a segment is its list of (doc id, version) in doc-number order; zapx's MergeUsing is
     "concatenate the live documents of the inputs in order and return old->new doc numbers";
   - roaring bitmaps are duplicate-free lists of doc numbers;
   - every root swap happens atomically on the single introducer goroutine. *)
From Coq Require Import ZArith List Bool Arith.
Import ListNotations.
Local Open Scope Z_scope.

Record seg := mkSeg {
  sid : Z;                     (* SegmentSnapshot.id *)
  sdocs : list (Z * Z);        (* (doc id, version) by doc number *)
  sdel : list nat;             (* deleted doc numbers *)
  sfile : bool                 (* segment.PersistedSegment? *)
}.

Definition is_del (dl : list nat) (i : nat) : bool := existsb (Nat.eqb i) dl.

(* live documents with their doc numbers, starting the numbering at [i] *)
Fixpoint live_from (i : nat) (docs : list (Z * Z)) (dl : list nat) : list (nat * (Z * Z)) :=
  match docs with
  | [] => []
  | d :: ds => if is_del dl i then live_from (S i) ds dl else (i, d) :: live_from (S i) ds dl
  end.
Definition live_docs (s : seg) : list (nat * (Z * Z)) := live_from 0 (sdocs s) (sdel s).
Definition live_count (s : seg) : nat := length (live_docs s).

Fixpoint assoc_first {A} (d : Z) (l : list (Z * A)) : option A :=
  match l with
  | [] => None
  | (k, v) :: l' => if k =? d then Some v else assoc_first d l'
  end.

Definition seg_lookup (s : seg) (d : Z) : option Z := assoc_first d (map snd (live_docs s)).

Fixpoint root_lookup (r : list seg) (d : Z) : option Z :=
  match r with
  | [] => None
  | s :: r' => match seg_lookup s d with Some v => Some v | None => root_lookup r' d end
  end.

(* number of live copies of [d] in a root: the uniqueness invariant I1 says <= 1 *)
Definition seg_live_copies (s : seg) (d : Z) : nat :=
  length (filter (fun p => fst (snd p) =? d) (live_docs s)).
Definition root_live_copies (r : list seg) (d : Z) : nat :=
  fold_right (fun s n => (seg_live_copies s d + n)%nat) 0%nat r.
Definition root_live_count (r : list seg) : nat :=
  fold_right (fun s n => (live_count s + n)%nat) 0%nat r.

(* ---------- batches ---------- *)

(* a batch as the engine sees it: distinct ids, Some v = index version v, None = delete *)
Definition batch := list (Z * option Z).
Definition mem_id (d : Z) (ids : list Z) : bool := existsb (Z.eqb d) ids.

(* bleve.Batch collapses a sequence of operations to the last one per id *)
Fixpoint collapse (ops : list (Z * option Z)) : batch :=
  match ops with
  | [] => []
  | (d, ov) :: rest =>
      if mem_id d (map fst rest) then collapse rest else (d, ov) :: collapse rest
  end.

Definition batch_updates (b : batch) : list (Z * Z) :=
  flat_map (fun p => match snd p with Some v => [(fst p, v)] | None => [] end) b.

(* DocNumbers(ids) of a segment OR-ed into its deleted set (introduceSegment) *)
Fixpoint docnums_of (i : nat) (docs : list (Z * Z)) (ids : list Z) : list nat :=
  match docs with
  | [] => []
  | d :: ds => if mem_id (fst d) ids then i :: docnums_of (S i) ds ids else docnums_of (S i) ds ids
  end.
Fixpoint union_nat (a b : list nat) : list nat :=
  match b with
  | [] => a
  | x :: b' => if is_del a x then union_nat a b' else union_nat (a ++ [x]) b'
  end.
Definition obsolete (ids : list Z) (s : seg) : seg :=
  mkSeg (sid s) (sdocs s) (union_nat (sdel s) (docnums_of 0 (sdocs s) ids)) (sfile s).

Definition has_live (s : seg) : bool := negb (Nat.eqb (live_count s) 0).

Definition introduce_root (newsid : Z) (b : batch) (r : list seg) : list seg :=
  let r' := filter has_live (map (obsolete (map fst b)) r) in
  match batch_updates b with
  | [] => r'
  | upd => r' ++ [mkSeg newsid upd [] false]
  end.

(* internal key/value store of a snapshot *)
Fixpoint int_set (k v : Z) (m : list (Z * Z)) : list (Z * Z) :=
  match m with
  | [] => [(k, v)]
  | (k', v') :: m' => if k' =? k then (k, v) :: m' else (k', v') :: int_set k v m'
  end.
Fixpoint int_del (k : Z) (m : list (Z * Z)) : list (Z * Z) :=
  match m with
  | [] => []
  | (k', v') :: m' => if k' =? k then m' else (k', v') :: int_del k m'
  end.
Definition int_apply (ops : list (Z * option Z)) (m : list (Z * Z)) : list (Z * Z) :=
  fold_left (fun acc p => match snd p with Some v => int_set (fst p) v acc | None => int_del (fst p) acc end) ops m.

(* ---------- merges ---------- *)

Record task := mkTask {
  t_caps : list seg;           (* captured SegmentSnapshots (deleted sets as of the capture) *)
  t_new : Z                    (* id of the merged segment *)
}.
Record merge := mkMerge { m_tasks : list task; m_file : bool }.

(* MergeUsing: live docs of the inputs, in order *)
Definition merged_docs (caps : list seg) : list (Z * Z) :=
  flat_map (fun s => map snd (live_docs s)) caps.

(* newDocNums[j][old] for the captured segment with id [id]: offset of the segment's block
   plus the rank of [old] among its live doc numbers *)
Fixpoint index_of_nat (x : nat) (l : list nat) (i : nat) : option nat :=
  match l with
  | [] => None
  | y :: l' => if Nat.eqb x y then Some i else index_of_nat x l' (S i)
  end.
Fixpoint new_docnum (caps : list seg) (id : Z) (old : nat) (offset : nat) : option nat :=
  match caps with
  | [] => None
  | c :: caps' =>
      if sid c =? id then
        match index_of_nat old (map fst (live_docs c)) 0 with
        | Some k => Some (offset + k)%nat
        | None => None
        end
      else new_docnum caps' id old (offset + live_count c)%nat
  end.

Fixpoint find_seg (id : Z) (l : list seg) : option seg :=
  match l with
  | [] => None
  | s :: l' => if sid s =? id then Some s else find_seg id l'
  end.

Definition diff_nat (a b : list nat) : list nat := filter (fun x => negb (is_del b x)) a.

Definition map_docnums (caps : list seg) (id : Z) (olds : list nat) : list nat :=
  flat_map (fun o => match new_docnum caps id o 0 with Some n => [n] | None => [] end) olds.

(* the deletions one task's merged segment receives in introduceMerge:
   - for captured segments still in root: deletedSince = cur.deleted \ captured.deleted, mapped;
   - for captured segments no longer in root: all their captured-live docs, mapped *)
Definition task_new_deleted (root : list seg) (t : task) : list nat :=
  flat_map (fun c =>
    match find_seg (sid c) root with
    | Some cur => map_docnums (t_caps t) (sid c) (diff_nat (sdel cur) (sdel c))
    | None => map_docnums (t_caps t) (sid c) (map fst (live_docs c))
    end) (t_caps t).

Definition captured_ids (m : merge) : list Z := flat_map (fun t => map sid (t_caps t)) (m_tasks m).

Definition introduce_merge_root (m : merge) (r : list seg) : list seg :=
  let staying := filter (fun s => negb (mem_id (sid s) (captured_ids m)) && has_live s) r in
  let news := flat_map (fun t =>
      match t_caps t with
      | [] => []                               (* newSegments[i] == nil: skipped *)
      | _ =>
        let nd := merged_docs (t_caps t) in
        let del := fold_left (fun acc x => if is_del acc x then acc else acc ++ [x])
                             (task_new_deleted r t) [] in
        if (length del <? length nd)%nat
        then [mkSeg (t_new t) nd del true]   (* both merge paths write the merged segment to a .zap file and open it from there *)
        else []                                (* fully obsoleted meanwhile: skipped *)
      end) (m_tasks m) in
  staying ++ news.

(* introducePersist: the named in-memory segments are replaced by their file-backed copies *)
Definition introduce_persist_root (ids : list Z) (r : list seg) : list seg :=
  map (fun s => if mem_id (sid s) ids then mkSeg (sid s) (sdocs s) (sdel s) true else s) r.

(* ---------- the state machine ---------- *)

Record st := mkSt {
  root : list seg;
  internal : list (Z * Z);
  inflight : list merge;
  used_sids : list Z;          (* segment ids handed out so far (s.nextSegmentID is an atomic
                                  counter bumped by batches, merge tasks and persister workers
                                  concurrently, so ids are fresh but not ordered like the events) *)
  epoch : Z                    (* root.epoch *)
}.

Definition init : st := mkSt [] [] [] [] 0.

Inductive event :=
| EIntroduce (newsid : Z) (b : batch) (iops : list (Z * option Z))
    (* newsid is used only when the batch has updates *)
| EMergeStart (file : bool) (groups : list (Z * list Z))   (* (new segment id, segments merged) *)
| EMergeFinish (k : nat)
| EPersist (ids : list Z).

Fixpoint nodupZ (l : list Z) : bool :=
  match l with [] => true | x :: l' => negb (mem_id x l') && nodupZ l' end.

Definition capture (r : list seg) (ids : list Z) : list seg :=
  filter has_live (flat_map (fun id => match find_seg id r with Some s => [s] | None => [] end) ids).

Definition mk_tasks (r : list seg) (groups : list (Z * list Z)) : list task :=
  map (fun g => mkTask (capture r (snd g)) (fst g)) groups.

Fixpoint remove_nth {A} (k : nat) (l : list A) : list A :=
  match k, l with
  | _, [] => []
  | O, _ :: l' => l'
  | S k', x :: l' => x :: remove_nth k' l'
  end.

Definition step (s : st) (e : event) : option st :=
  match e with
  | EIntroduce newsid b iops =>
      let has_upd := match batch_updates b with [] => false | _ => true end in
      if nodupZ (map fst b) && (negb has_upd || negb (mem_id newsid (used_sids s))) then
        Some (mkSt (introduce_root newsid b (root s))
                   (int_apply iops (internal s))
                   (inflight s)
                   (if has_upd then newsid :: used_sids s else used_sids s)
                   (epoch s + 1))
      else None
  | EMergeStart file groups =>
      let all := flat_map snd groups in
      let news := map fst groups in
      let busy := flat_map captured_ids (inflight s) in
      if nodupZ all
         && forallb (fun id => match find_seg id (root s) with
                               | Some sg => Bool.eqb (sfile sg) file
                               | None => false end) all
         && forallb (fun id => negb (mem_id id busy)) all
         && nodupZ news
         && forallb (fun id => negb (mem_id id (used_sids s))) news
      then
        Some (mkSt (root s) (internal s)
                   (inflight s ++ [mkMerge (mk_tasks (root s) groups) file])
                   (news ++ used_sids s) (epoch s))
      else None
  | EMergeFinish k =>
      match nth_error (inflight s) k with
      | None => None
      | Some m =>
          Some (mkSt (introduce_merge_root m (root s)) (internal s)
                     (remove_nth k (inflight s)) (used_sids s) (epoch s + 1))
      end
  | EPersist ids =>
      Some (mkSt (introduce_persist_root ids (root s)) (internal s) (inflight s)
                 (used_sids s) (epoch s + 1))
  end.

Fixpoint run (s : st) (evs : list event) : option st :=
  match evs with
  | [] => Some s
  | e :: evs' => match step s e with Some s' => run s' evs' | None => None end
  end.

(* ---------- the SPEC: last-write-wins replay ---------- *)

(* the abstract index contents as a function id -> latest version *)
Definition spec_apply_batch (b : batch) (m : Z -> option Z) : Z -> option Z :=
  fun d => match assoc_first d b with
           | Some ov => ov
           | None => m d
           end.

(* replay of raw operation lists, one op at a time (no batching at all) *)
Definition spec_apply_ops (ops : list (Z * option Z)) (m : Z -> option Z) : Z -> option Z :=
  fold_left (fun acc p => fun d => if fst p =? d then snd p else acc d) ops m.

Fixpoint batches_of (evs : list event) : list batch :=
  match evs with
  | [] => []
  | EIntroduce _ b _ :: evs' => b :: batches_of evs'
  | _ :: evs' => batches_of evs'
  end.
Fixpoint iops_of (evs : list event) : list (Z * option Z) :=
  match evs with
  | [] => []
  | EIntroduce _ _ io :: evs' => io ++ iops_of evs'
  | _ :: evs' => iops_of evs'
  end.

Definition replay (bs : list batch) : Z -> option Z :=
  fold_left (fun m b => spec_apply_batch b m) bs (fun _ => None).

Definition spec_internal (iops : list (Z * option Z)) (k : Z) : option Z :=
  spec_apply_ops iops (fun _ => None) k.
