(* Scorch engine — persistence proofs, part 3: [DInv] is preserved by every event other than
   core events and recovery (files written, prepare, commit, ack, purge, zap removal, copies,
   crash, rollback). *)
From Coq Require Import ZArith List Bool Arith Lia Permutation.
From Verif Require Import Scorch.Model Scorch.ProofsCore1 Scorch.ProofsCore2 Scorch.ProofsCore3
  Scorch.Disk Scorch.ProofsDisk1.
Import ListNotations.
Local Open Scope Z_scope.

(* open [dstep] for an event that needs a running process (for DFileWritten also: an allocated id) *)
Ltac need_up H Hup :=
  cbn [dstep] in H;
  match type of H with context [d_up ?d] => destruct (d_up d) eqn:Hup end;
  cbn [negb orb] in H; [|discriminate];
  try match type of H with
      | (if negb (mem_id ?x ?l) then None else _) = _ =>
          let Ha := fresh "Halloc" in destruct (mem_id x l) eqn:Ha; cbn [negb] in H; [|discriminate]
      end.

Lemma DInv_file_written : forall ef d x d',
  DInv ef d -> dstep d (DFileWritten x) = Some d' -> DInv ef d'.
Proof.
  intros ef d x d' I H. need_up H Hup. injection H as H. subst d'.
  assert (Hincl : forall id, In id (d_files d) ->
                             In id (if mem_id x (d_files d) then d_files d else x :: d_files d)).
  { intros id Hid. destruct (mem_id x (d_files d)); [|right]; exact Hid. }
  apply (DInv_frame ef d); cbn [d_batches d_up d_core d_files d_pub d_nb d_bolt d_tx d_segdocs];
    try reflexivity; try exact I.
  - intros _. split; [exact Hup | reflexivity].
  - exact (di_bolt ef d I).
  - intros r id Hr Hid. apply Hincl. exact (di_named ef d I r id Hr Hid).
  - exact (di_tx ef d I).
  - exact (di_sorted ef d I).
  - intros _ id Hid. apply Hincl. exact (di_i5 ef d I Hup id Hid).
Qed.

Lemma DInv_prepare : forall ef d r d',
  DInv ef d -> dstep d (DPrepare r) = Some d' -> DInv ef d'.
Proof.
  intros ef d r d' I H. need_up H Hup.
  destruct (d_tx d) eqn:Htx; [discriminate|].
  destruct (assocZ (br_epoch r) (d_pub d)) as [[proot pint]|] eqn:Hpub; [|discriminate].
  destruct (rec_root (d_segdocs d) (br_segs r)) as [rr|] eqn:Hrr; [|discriminate].
  match type of H with (if ?c then _ else _) = _ => destruct c eqn:Hc end; [|discriminate].
  injection H as H. subst d'.
  apply andb_true_iff in Hc. destruct Hc as [Hc Hnd].
  apply andb_true_iff in Hc. destruct Hc as [Hc Hep].
  apply andb_true_iff in Hc. destruct Hc as [Hsame Hint].
  apply Z.leb_le in Hep. apply nodupZ_NoDup in Hnd.
  apply (DInv_frame ef d); cbn [d_batches d_up d_core d_files d_pub d_nb d_bolt d_tx d_segdocs];
    try reflexivity; try exact I.
  - intros _. split; [exact Hup | reflexivity].
  - exact (di_bolt ef d I).
  - exact (di_named ef d I).
  - intros r0 Hr0. injection Hr0 as Hr0. subst r0.
    destruct (di_pub ef d I _ _ Hep Hpub) as [k [Hk [Hcont [Hn1 Hn2]]]]. cbn [fst snd] in *.
    destruct (perm_lookup rr proot (same_contents_perm _ _ Hsame) Hn1) as [Hnrr Hlk].
    split; [exact Hep|]. split; [exact Hnd|]. split.
    + eapply Permutation_NoDup; [|exact Hn2]. apply Permutation_map. apply Permutation_sym.
      exact (canon_eq_perm _ _ Hint).
    + exists rr, k. split; [exact Hrr|]. split; [exact Hk|]. split; [|exact Hnrr].
      intros id. rewrite Hlk. apply Hcont.
  - exact (di_sorted ef d I).
  - intros _. exact (di_i5 ef d I Hup).
Qed.

Lemma DInv_commit : forall ef d d',
  DInv ef d -> dstep d DCommit = Some d' -> DInv ef d'.
Proof.
  intros ef d d' I H. need_up H Hup.
  destruct (d_tx d) as [r|] eqn:Htx; [|discriminate].
  match type of H with (if ?c then _ else _) = _ => destruct c eqn:Hc end; [|discriminate].
  injection H as H. subst d'. apply andb_true_iff in Hc. destruct Hc as [Hfiles Hnew].
  assert (Hin : forall r0, In r0 (filter (fun b => negb (br_epoch b =? br_epoch r)) (d_bolt d) ++ [r]) ->
                           (In r0 (d_bolt d) /\ br_epoch r0 <> br_epoch r) \/ r0 = r).
  { intros r0 Hr0. apply in_app_or in Hr0. destruct Hr0 as [Hr0|[Hr0|[]]]; [left|right; symmetry; exact Hr0].
    apply filter_In in Hr0. destruct Hr0 as [Hr0 Hne]. split; [exact Hr0|].
    apply negb_true_iff in Hne. apply Z.eqb_neq. exact Hne. }
  apply (DInv_frame ef d); cbn [d_batches d_up d_core d_files d_pub d_nb d_bolt d_tx d_segdocs];
    try reflexivity; try exact I.
  - intros _. split; [exact Hup | reflexivity].
  - intros r0 Hr0. destruct (Hin r0 Hr0) as [[Hr0' _]|Hr0'].
    + exact (di_bolt ef d I r0 Hr0').
    + subst r0. exact (di_tx ef d I r Htx).
  - intros r0 id Hr0 Hid. destruct (Hin r0 Hr0) as [[Hr0' _]|Hr0'].
    + exact (di_named ef d I r0 id Hr0' Hid).
    + subst r0. exact (forallb_mem_In _ _ Hfiles id Hid).
  - intros r0 Hr0. discriminate.
  - apply bsorted_app_one; [apply bsorted_filter; exact (di_sorted ef d I)|].
    intros y Hy. apply filter_In in Hy. destruct Hy as [Hy Hne].
    apply negb_true_iff in Hne. apply Z.eqb_neq in Hne.
    destruct (newest (d_bolt d)) as [n|] eqn:En.
    + apply Z.leb_le in Hnew. assert (Hm := bsorted_max _ n (di_sorted ef d I) En y Hy). lia.
    + apply newest_None in En. rewrite En in Hy. destruct Hy.
  - intros _. exact (di_i5 ef d I Hup).
Qed.

Lemma DInv_ack : forall ef d k d',
  DInv ef d -> dstep d (DAck k) = Some d' -> DInv ef d'.
Proof.
  intros ef d k d' I H. need_up H Hup.
  match type of H with (if ?c then _ else _) = _ => destruct c eqn:Hc end; [|discriminate].
  injection H as H. subst d'.
  apply (DInv_frame ef d); cbn [d_batches d_up d_core d_files d_pub d_nb d_bolt d_tx d_segdocs];
    try reflexivity; try exact I.
  - intros _. split; [exact Hup | reflexivity].
  - exact (di_bolt ef d I).
  - exact (di_named ef d I).
  - exact (di_tx ef d I).
  - exact (di_sorted ef d I).
  - intros _. exact (di_i5 ef d I Hup).
Qed.

Lemma DInv_purge : forall ef d eps d',
  DInv ef d -> dstep d (DPurgeBolt eps) = Some d' -> DInv ef d'.
Proof.
  intros ef d eps d' I H. need_up H Hup.
  destruct (newest (d_bolt d)) as [n|] eqn:En; [|discriminate].
  destruct (mem_id (br_epoch n) eps) eqn:Hm; [discriminate|].
  injection H as H. subst d'.
  apply (DInv_frame ef d); cbn [d_batches d_up d_core d_files d_pub d_nb d_bolt d_tx d_segdocs];
    try reflexivity; try exact I.
  - intros _. split; [exact Hup | reflexivity].
  - intros r Hr. apply filter_In in Hr. exact (di_bolt ef d I r (proj1 Hr)).
  - intros r id Hr Hid. apply filter_In in Hr. exact (di_named ef d I r id (proj1 Hr) Hid).
  - exact (di_tx ef d I).
  - apply bsorted_filter. exact (di_sorted ef d I).
  - intros _. exact (di_i5 ef d I Hup).
Qed.

Lemma existsb_named_false : forall x (l : list brec),
  existsb (fun b => mem_id x (named_by b)) l = false ->
  forall r, In r l -> ~ In x (named_by r).
Proof.
  intros x l H r Hr Hx. assert (Ht : existsb (fun b => mem_id x (named_by b)) l = true).
  { apply existsb_exists. exists r. split; [exact Hr|]. apply mem_id_In. exact Hx. }
  rewrite H in Ht. discriminate.
Qed.

Lemma In_filter_ne : forall (x id : Z) fs, In id fs -> id <> x -> In id (filter (fun f => negb (f =? x)) fs).
Proof.
  intros x id fs Hin Hne. apply filter_In. split; [exact Hin|].
  apply negb_true_iff. apply Z.eqb_neq. exact Hne.
Qed.

Lemma DInv_remove_zap : forall ef d x d',
  DInv ef d -> dstep d (DRemoveZap x) = Some d' -> DInv ef d'.
Proof.
  intros ef d x d' I H. need_up H Hup.
  match type of H with (if ?c then _ else _) = _ => destruct c eqn:Hc end; [discriminate|].
  injection H as H. subst d'.
  apply orb_false_iff in Hc. destruct Hc as [Hc _].
  apply orb_false_iff in Hc. destruct Hc as [Hc _].
  apply orb_false_iff in Hc. destruct Hc as [Hc Hroot].
  apply orb_false_iff in Hc. destruct Hc as [Hbolt _].
  apply (DInv_frame ef d); cbn [d_batches d_up d_core d_files d_pub d_nb d_bolt d_tx d_segdocs];
    try reflexivity; try exact I.
  - intros _. split; [exact Hup | reflexivity].
  - exact (di_bolt ef d I).
  - intros r id Hr Hid. apply In_filter_ne; [exact (di_named ef d I r id Hr Hid)|].
    intros He. subst id. exact (existsb_named_false x _ Hbolt r Hr Hid).
  - exact (di_tx ef d I).
  - exact (di_sorted ef d I).
  - intros _ id Hid. apply In_filter_ne; [exact (di_i5 ef d I Hup id Hid)|].
    intros He. subst id. apply mem_id_false in Hroot. exact (Hroot Hid).
Qed.

(* ---------- an aborted merge: some in-flight merges are forgotten ---------- *)

Lemma In_flat_map_filter : forall {A B} (g : A -> list B) (f : A -> bool) l x,
  In x (flat_map g (filter f l)) -> In x (flat_map g l).
Proof.
  intros A B g f l x H. apply in_flat_map in H. destruct H as [a [Ha Hx]]. apply filter_In in Ha.
  apply in_flat_map. exists a. split; [exact (proj1 Ha) | exact Hx].
Qed.

Lemma NoDup_flat_map_filter : forall {A B} (g : A -> list B) (f : A -> bool) l,
  NoDup (flat_map g l) -> NoDup (flat_map g (filter f l)).
Proof.
  intros A B g f. induction l as [|a l IH]; intros H; cbn [filter flat_map] in *.
  - constructor.
  - assert (Hl := IH (NoDup_app_r _ _ H)). destruct (f a); [|exact Hl].
    cbn [flat_map]. apply NoDup_app_intro; [exact (NoDup_app_l _ _ H) | exact Hl |].
    intros x Hx Hx'. exact (NoDup_app_disj _ _ x H Hx (In_flat_map_filter g f l x Hx')).
Qed.

Lemma Inv_drop_merges : forall s (f : merge -> bool),
  Inv s -> Inv (mkSt (root s) (internal s) (filter f (inflight s)) (used_sids s) (epoch s)).
Proof.
  intros s f I. constructor; cbn [root internal inflight used_sids].
  - exact (inv_sids_nodup s I).
  - exact (inv_sids_used s I).
  - unfold all_tnew. apply NoDup_flat_map_filter. exact (inv_tnew_nodup s I).
  - intros x Hx. apply (inv_tnew_used s I). exact (In_flat_map_filter _ f _ x Hx).
  - intros x Hx. apply (inv_tnew_root s I). exact (In_flat_map_filter _ f _ x Hx).
  - unfold all_caps. apply NoDup_flat_map_filter. exact (inv_caps_nodup s I).
  - intros x Hx. apply (inv_caps_used s I). exact (In_flat_map_filter _ f _ x Hx).
  - intros x Hx Hx'. exact (inv_caps_tnew s I x (In_flat_map_filter _ f _ x Hx)
                                            (In_flat_map_filter _ f _ x Hx')).
  - intros m t c Hm Ht Hc. apply filter_In in Hm. exact (inv_cap_ok s I m t c (proj1 Hm) Ht Hc).
  - exact (inv_I1 s I).
  - exact (inv_internal s I).
Qed.

Lemma DInv_merge_abort : forall ef d x d',
  DInv ef d -> dstep d (DMergeAbort x) = Some d' -> DInv ef d'.
Proof.
  intros ef d x d' I H. need_up H Hup. injection H as H. subst d'.
  constructor; cbn [d_batches d_up d_core d_files d_pub d_nb d_bolt d_tx d_segdocs root epoch].
  - exact (di_batches ef d I).
  - intros _. apply Inv_drop_merges. exact (di_core ef d I Hup).
  - intros _. exact (di_root ef d I Hup).
  - intros _. exact (di_i5 ef d I Hup).
  - exact (di_pub ef d I).
  - exact (di_mono ef d I).
  - exact (di_nble ef d I).
  - exact (di_bolt ef d I).
  - exact (di_named ef d I).
  - exact (di_tx ef d I).
  - exact (di_sorted ef d I).
Qed.

Lemma DInv_copy_start : forall ef d d',
  DInv ef d -> dstep d DCopyStart = Some d' -> DInv ef d'.
Proof.
  intros ef d d' I H. need_up H Hup. injection H as H. subst d'.
  apply (DInv_frame ef d); cbn [d_batches d_up d_core d_files d_pub d_nb d_bolt d_tx d_segdocs];
    try reflexivity; try exact I.
  - intros _. split; [exact Hup | reflexivity].
  - exact (di_bolt ef d I).
  - exact (di_named ef d I).
  - exact (di_tx ef d I).
  - exact (di_sorted ef d I).
  - intros _. exact (di_i5 ef d I Hup).
Qed.

Lemma DInv_copy_end : forall ef d sids d',
  DInv ef d -> dstep d (DCopyEnd sids) = Some d' -> DInv ef d'.
Proof.
  intros ef d sids d' I H. need_up H Hup. injection H as H. subst d'.
  apply (DInv_frame ef d); cbn [d_batches d_up d_core d_files d_pub d_nb d_bolt d_tx d_segdocs];
    try reflexivity; try exact I.
  - intros _. split; [exact Hup | reflexivity].
  - exact (di_bolt ef d I).
  - exact (di_named ef d I).
  - exact (di_tx ef d I).
  - exact (di_sorted ef d I).
  - intros _. exact (di_i5 ef d I Hup).
Qed.

Lemma DInv_crash : forall ef d d',
  DInv ef d -> dstep d DCrash = Some d' -> DInv ef d'.
Proof.
  intros ef d d' I H. cbn [dstep] in H. injection H as H. subst d'.
  apply (DInv_frame ef d); cbn [d_batches d_up d_core d_files d_pub d_nb d_bolt d_tx d_segdocs epoch];
    try reflexivity; try exact I.
  - intros Hf. discriminate.
  - exact (di_bolt ef d I).
  - exact (di_named ef d I).
  - intros r Hr. discriminate.
  - exact (di_sorted ef d I).
  - intros Hf. discriminate.
Qed.

Lemma DInv_rollback : forall ef d e d',
  DInv ef d -> dstep d (DRollback e) = Some d' -> DInv ef d'.
Proof.
  intros ef d e d' I H. cbn [dstep] in H.
  destruct (d_up d) eqn:Hup; [discriminate|].
  match type of H with (if ?c then _ else _) = _ => destruct c eqn:Hc end; [|discriminate].
  injection H as H. subst d'.
  apply (DInv_frame ef d); cbn [d_batches d_up d_core d_files d_pub d_nb d_bolt d_tx d_segdocs];
    try reflexivity; try exact I.
  - intros Hf. discriminate.
  - intros r Hr. apply filter_In in Hr. exact (di_bolt ef d I r (proj1 Hr)).
  - intros r id Hr Hid. apply filter_In in Hr. exact (di_named ef d I r id (proj1 Hr) Hid).
  - intros r Hr. discriminate.
  - apply bsorted_filter. exact (di_sorted ef d I).
  - intros Hf. discriminate.
Qed.
