(* Scorch engine — persistence proofs, part 4: recovery.  [DInv] is re-established by
   [DRecover] for the history truncated to the batches the newest committed record covers. *)
From Coq Require Import ZArith List Bool Arith Lia Permutation.
From Verif Require Import Scorch.Model Scorch.ProofsCore1 Scorch.ProofsCore2 Scorch.ProofsCore3
  Scorch.Disk Scorch.ProofsDisk1.
Import ListNotations.
Local Open Scope Z_scope.

Definition named_files (d : dstate) : list Z :=
  filter (fun f => existsb (fun b => mem_id f (named_by b)) (d_bolt d)) (d_files d).

Lemma In_named_files : forall d f,
  In f (named_files d) <-> In f (d_files d) /\ exists b, In b (d_bolt d) /\ In f (named_by b).
Proof.
  intros d f. unfold named_files. rewrite filter_In, existsb_exists. split.
  - intros [Hf [b [Hb Hm]]]. split; [exact Hf|]. exists b. split; [exact Hb|]. apply mem_id_In. exact Hm.
  - intros [Hf [b [Hb Hm]]]. split; [exact Hf|]. exists b. split; [exact Hb|]. apply mem_id_In. exact Hm.
Qed.

(* what [DRecover] does, spelled out *)
Definition recovered (d : dstate) (n : brec) (r : list seg) (k : nat) : dstate :=
  mkD (mkSt r (br_int n) [] (named_files d) (br_epoch n))
      ((br_epoch n, (r, br_int n)) :: d_pub d)
      ((br_epoch n, k) :: d_nb d)
      k
      (filter (fun p => mem_id (fst p) (named_files d)) (d_segdocs d)) (d_bolt d) None
      (named_files d) [] (d_acked d) true.

Lemma recover_shape : forall d d',
  dstep d DRecover = Some d' ->
  exists n r,
    d_up d = false /\ newest (d_bolt d) = Some n /\ rec_root (d_segdocs d) (sort_segs (br_segs n)) = Some r
    /\ (forall id, In id (named_by n) -> In id (d_files d))
    /\ d' = recovered d n r (covered d).
Proof.
  intros d d' H. cbn [dstep] in H.
  destruct (d_up d) eqn:Hup; [discriminate|].
  destruct (newest (d_bolt d)) as [n|] eqn:En; [|discriminate].
  destruct (rec_root (d_segdocs d) (sort_segs (br_segs n))) as [r|] eqn:Hr; [|discriminate].
  match type of H with (if ?c then _ else _) = _ => destruct c eqn:Hf end; [|discriminate].
  injection H as H. exists n, r. split; [reflexivity|]. split; [reflexivity|]. split; [exact Hr|].
  split; [exact (forallb_mem_In _ _ Hf)|].
  unfold recovered, covered, named_files. rewrite En. symmetry. exact H.
Qed.

Lemma assocZ_shadow_same : forall {A} e0 (v : A) l e,
  assocZ e0 l = Some v -> assocZ e ((e0, v) :: l) = assocZ e l.
Proof.
  intros A e0 v l e H. cbn [assocZ]. destruct (e0 =? e) eqn:E; [|reflexivity].
  apply Z.eqb_eq in E. subst e. symmetry. exact H.
Qed.

Lemma DInv_recover : forall ef d d',
  DInv ef d -> dstep d DRecover = Some d' -> DInv (firstn (covered d) ef) d'.
Proof.
  intros ef d d' I H.
  destruct (recover_shape d d' H) as [n [r [Hup [En [Hr [Hfiles Hd']]]]]]. subst d'.
  assert (Hn : In n (d_bolt d)) by exact (newest_In _ _ En).
  destruct (di_bolt ef d I n Hn) as [Hen [Hndn [Hndi [rr [k [Hrr [Hk [Hcont0 Hndl0]]]]]]]].
  destruct (rec_root_sorted _ _ rr Hrr Hndl0) as [rs [Hrs [_ [Hndl Hlk]]]].
  rewrite Hr in Hrs. injection Hrs as Hrs. subst rs.
  assert (Hcont : forall id, root_lookup r id = replay (firstn k ef) id).
  { intros id. rewrite Hlk. apply Hcont0. }
  assert (Hsids : forall x, In x (map fst (sort_segs (br_segs n))) -> In x (named_by n)).
  { intros x Hx. exact (Permutation_in x (sort_segs_named (br_segs n)) Hx). }
  assert (Hcov : covered d = k). { unfold covered. rewrite En, Hk. reflexivity. }
  rewrite Hcov.
  assert (Hkle : (k <= length ef)%nat) by exact (di_nble ef d I _ k Hen Hk).
  assert (Hlen : length (firstn k ef) = k) by (apply firstn_length_le; exact Hkle).
  assert (Hnamed : forall r0 id, In r0 (d_bolt d) -> In id (named_by r0) -> In id (named_files d)).
  { intros r0 id Hr0 Hid. apply In_named_files. split; [exact (di_named ef d I r0 id Hr0 Hid)|].
    exists r0. split; assumption. }
  assert (Hnb : forall e, assocZ e ((br_epoch n, k) :: d_nb d) = assocZ e (d_nb d)).
  { intros e. apply assocZ_shadow_same. exact Hk. }
  assert (Hfirst : forall e k0, e <= br_epoch n -> assocZ e (d_nb d) = Some k0 ->
                                firstn k0 (firstn k ef) = firstn k0 ef).
  { intros e k0 He Hk0. apply firstn_firstn_le.
    exact (di_mono ef d I e (br_epoch n) k0 k He Hen Hk0 Hk). }
  assert (Hrec : forall r0, In r0 (d_bolt d) ->
            rec_ok (firstn k ef) (br_epoch n) ((br_epoch n, k) :: d_nb d)
                   (filter (fun p => mem_id (fst p) (named_files d)) (d_segdocs d)) r0).
  { intros r0 Hr0. assert (Hok := di_bolt ef d I r0 Hr0).
    assert (Hle : br_epoch r0 <= br_epoch n) by exact (bsorted_max _ n (di_sorted ef d I) En r0 Hr0).
    destruct Hok as [He0 [Hnd0 [Hni0 [rr0 [k0 [Hrr0 [Hk0 [Hc0 Hn0]]]]]]]].
    split; [exact Hle|]. split; [exact Hnd0|]. split; [exact Hni0|]. exists rr0, k0.
    split; [|split; [rewrite Hnb; exact Hk0|split; [|exact Hn0]]].
    - rewrite <- Hrr0. apply rec_root_ext. intros x Hx.
      apply (assocZ_filter_keep (fun z => mem_id z (named_files d))).
      apply mem_id_In. exact (Hnamed r0 x Hr0 Hx).
    - intros id. rewrite (Hfirst _ k0 Hle Hk0). apply Hc0. }
  unfold recovered.
  constructor; cbn [d_batches d_up d_core d_files d_pub d_nb d_bolt d_tx d_segdocs root epoch internal].
  - symmetry. exact Hlen.
  - (* Inv of the recovered core state *)
    intros _. constructor; cbn [root internal inflight used_sids all_tnew all_caps flat_map].
    + rewrite (rec_root_sids _ _ _ Hr).
      exact (Permutation_NoDup (Permutation_sym (sort_segs_named (br_segs n))) Hndn).
    + intros x Hx. rewrite (rec_root_sids _ _ _ Hr) in Hx. exact (Hnamed n x Hn (Hsids x Hx)).
    + constructor.
    + intros x [].
    + intros x [].
    + constructor.
    + intros x [].
    + intros x [].
    + intros m t c [].
    + exact Hndl.
    + exact Hndi.
  - intros _ id. apply Hcont.
  - intros _ id Hid. rewrite (rec_root_file_segs _ _ _ Hr) in Hid. exact (Hnamed n id Hn (Hsids id Hid)).
  - (* di_pub *)
    intros e ri He Hri. destruct (Z.eq_dec e (br_epoch n)) as [Heq|Hne].
    + subst e. rewrite assocZ_cons_eq in Hri. injection Hri as Hri. subst ri.
      exists k. split; [apply assocZ_cons_eq|]. cbn [fst snd]. split; [|split; [exact Hndl|exact Hndi]].
      intros id. rewrite firstn_firstn_le by lia. apply Hcont.
    + rewrite assocZ_cons_ne in Hri by congruence.
      assert (He' : e <= epoch (d_core d)) by lia.
      eapply pub_ok_transport; [exact (di_pub ef d I e ri He' Hri) | apply Hnb |].
      intros k0 Hk0. exact (Hfirst e k0 He Hk0).
  - intros e1 e2 k1 k2 H12 H2 Hk1 Hk2. rewrite Hnb in Hk1, Hk2.
    exact (di_mono ef d I e1 e2 k1 k2 H12 ltac:(lia) Hk1 Hk2).
  - intros e k0 He Hk0. rewrite Hnb in Hk0. rewrite Hlen.
    exact (di_mono ef d I e (br_epoch n) k0 k He Hen Hk0 Hk).
  - exact Hrec.
  - exact Hnamed.
  - intros r0 Hr0. discriminate.
  - exact (di_sorted ef d I).
Qed.
