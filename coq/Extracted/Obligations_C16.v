(* T1 obligations for C16: the side condition of the codec round-trip theorem, re-checked on the
   mapping codec tables regenerated from /repo/mapping on every run (struct tags of
   IndexMappingImpl / DocumentMapping / FieldMapping / customAnalysis, the `case "key":` lists of
   the three hand-written UnmarshalJSON methods, the defaults they set before decoding). *)
From Coq Require Import String ZArith List Bool.
From Verif Require Import Common.Bytes Codec.Json Codec.StructCodec Codec.MappingTables Extracted.Extracted.
Import ListNotations.
Local Open Scope Z_scope.

Definition table_ok (name : bytes) : bool :=
  match lookup name mapping_env with
  | Some sd => tables_consistent mapping_env table_fuel stateless_fields sd
  | None => false
  end.

(* every default expression was resolved to a literal, no tag option beyond omitempty, no embedding *)
Lemma ob_extraction_complete : mapping_problems = [].
Proof. vm_compute. reflexivity. Qed.

(* per struct: no two fields share a key; every written key has exactly one `case` and it assigns the
   field the key was written from; every kind is modelled; every field `omitempty` can leave out
   has the zero value as its decode-side default and no default leaks into a decoded value; nothing
   is assigned after the key loop; every declared field is marshalled (or is the rebuilt cache) *)
Lemma ob_tables_consistent_FieldMapping : table_ok (s2b "FieldMapping") = true.
Proof. vm_compute. reflexivity. Qed.

Lemma ob_tables_consistent_DocumentMapping : table_ok (s2b "DocumentMapping") = true.
Proof. vm_compute. reflexivity. Qed.

Lemma ob_tables_consistent_IndexMappingImpl : table_ok (s2b "IndexMappingImpl") = true.
Proof. vm_compute. reflexivity. Qed.

Lemma ob_tables_consistent_customAnalysis : table_ok (s2b "customAnalysis") = true.
Proof. vm_compute. reflexivity. Qed.

(* … and there is no further struct in the mapping tree *)
Lemma ob_env_consistent : env_consistent mapping_env table_fuel stateless_fields = true.
Proof. vm_compute. reflexivity. Qed.

Lemma ob_root : mapping_root = s2b "IndexMappingImpl" /\ table_ok mapping_root = true.
Proof. split; vm_compute; reflexivity. Qed.

(* the three hand-written decoders are the ones the model treats as such and all of them refuse
   unknown keys under MappingJSONStrict, which is off unless the application turns it on *)
Lemma ob_decoders :
  map (fun nsd => (s_handwritten (snd nsd), s_rejects_unknown (snd nsd))) mapping_env
  = [(true, true); (true, true); (false, false); (true, true)]
  /\ map fst mapping_env = [s2b "IndexMappingImpl"; s2b "DocumentMapping"; s2b "customAnalysis"; s2b "FieldMapping"]
  /\ mapping_strict = false.
Proof. repeat split; vm_compute; reflexivity. Qed.

(* A key that is absent means what the constructor means: decoding "{}" gives exactly what
   NewIndexMapping() / NewDocumentMapping() build (no option is defaulted differently by the decoder
   than by the API), and that value is one the theorem covers. *)
Lemma ob_constructor_is_decoded_empty_object :
  option_map Some new_index_mapping = Some (of_json case_fuel (JObj []))
  /\ option_map (wf_mapping case_fuel) new_index_mapping = Some true.
Proof. split; vm_compute; reflexivity. Qed.

Lemma ob_document_constructor_is_decoded_empty_object :
  option_map Some new_document_mapping
  = Some (dval mapping_env mapping_strict case_fuel (KPtrS (s2b "DocumentMapping")) VNil (JObj []))
  /\ option_map (wf_value mapping_env case_fuel (KPtrS (s2b "DocumentMapping"))) new_document_mapping = Some true.
Proof. split; vm_compute; reflexivity. Qed.
