(* T1 obligations for C11: the guard table the protocol proofs assume ([Model.default_guards]) is
   what /repo's source has; every blocking channel operation of the protocol functions is
   classified; every exported index method locks and tests open; Close waits for the loops; the
   collector polls the context every CheckDoneEvery matches.  Re-checked on the facts regenerated
   from the Go AST on every run (Module XProtocol of Extracted.v).

   The comparison is EQUALITY per blocking point, not "dominates": the proofs show that the
   unguarded receives ("<-sm.notifyCh", "<-persist.applied") are safe BECAUSE the partner's send is
   unguarded too — giving one side a closeCh arm without the other would deadlock the introducer
   (Model.step, LIMergeReply) — so a new guard is as much a reason to re-check as a removed one. *)
From Coq Require Import ZArith List Bool String Ascii.
From Verif Require Import Common.Bytes Extracted.Extracted Protocol.Model.
Import ListNotations.
Local Open Scope string_scope.
Local Open Scope Z_scope.

Fixpoint bs (s : string) : list Z :=
  match s with
  | EmptyString => []
  | String a r => Z.of_nat (nat_of_ascii a) :: bs r
  end.
Definition seqb (a b : list Z) : bool := list_eqb Z.eqb a b.

(* classification of every channel operation: (function, channel, kind 0=send 1=recv 2=default,
   Some p = it is blocking point p of the model | None = justified, plays no role in the protocol) *)
Definition classification : list (string * string * Z * option gpoint) := [
  ("introducerLoop", "s.introducerNotifier", 1, Some GIntroLoop);
  ("introducerLoop", "s.merges", 1, Some GIntroLoop);
  ("introducerLoop", "s.introductions", 1, Some GIntroLoop);
  ("introducerLoop", "s.persists", 1, Some GIntroLoop);
  (* error reply of introduceSegment: the other end is prepareSegment's unguarded "<-introduction.applied" *)
  ("introduceSegment", "next.applied", 0, Some GBatchApplied);
  ("introduceMerge", "nextMerge.notifyCh", 0, Some GIMergeReply);
  ("persisterLoop", "s.persisterNotifier", 1, Some GPTop);       (* first select *)
  ("persisterLoop", "default", 2, Some GPTop);
  ("persisterLoop", "s.introducerNotifier", 0, Some GPRegister);
  ("persisterLoop", "w.notifyCh", 1, Some GPWaitNotify);
  (* "ch <- err": the persisted channel has capacity 1 and a single sender: never blocks *)
  ("persisterLoop", "ch", 0, Some GBatchPersisted);
  ("pausePersisterForMergerCatchUp", "s.persisterNotifier", 1, Some GPPauseWait);
  ("persistSnapshotDirect", "s.persists", 0, Some GPSendPersist);
  ("persistSnapshotDirect", "persist.applied", 1, Some GPWaitPApplied);
  ("mergeAndPersistInMemorySegments", "s.merges", 0, Some GPSendMerge);
  ("mergeAndPersistInMemorySegments", "sm.notifyCh", 1, Some GPWaitMergeReply);
  (* worker semaphore of capacity NumPersisterWorkers, acquired and released by the same loop *)
  ("mergeAndPersistInMemorySegments", "sem", 0, None);
  ("mergeAndPersistInMemorySegments", "sem", 1, None);
  ("mergerLoop", "default", 2, Some GMTop);
  ("mergerLoop", "s.persisterNotifier", 0, Some GMSendWatch);
  ("mergerLoop", "s.forceMergeRequestCh", 1, Some GMSendWatch);   (* also in the second select: GMWaitNotify, same flag *)
  ("mergerLoop", "ew.notifyCh", 1, Some GMWaitNotify);
  ("planMergeAtSnapshot", "s.merges", 0, Some GMSendMerge);
  ("planMergeAtSnapshot", "sm.notifyCh", 1, Some GMWaitReply);
  (* only when the context carries mergeDoneKey (DropFileWriterIDs), whose caller waits for it *)
  ("planMergeAtSnapshot", "done", 0, None);
  ("ForceMerge", "s.forceMergeRequestCh", 0, Some GFMSend);
  ("ForceMerge", "msg.doneCh", 1, Some GFMWait);
  ("prepareSegment", "s.introductions", 0, Some GBatchSend);
  ("prepareSegment", "introduction.applied", 1, Some GBatchApplied);
  ("prepareSegment", "introduction.persisted", 1, Some GBatchPersisted)
].

Definition classify (f c : list Z) (k : Z) : option (option gpoint) :=
  match find (fun e => match e with (f', c', k', _) => seqb (bs f') f && seqb (bs c') c && (k' =? k) end) classification with
  | Some (_, _, _, p) => Some p
  | None => None
  end.

(* the second persisterLoop select also receives from persisterNotifier: it is GPWaitNotify; both
   selects are guarded in the assumed table, so one row serves both *)
Definition op_ok (only : gpoint -> bool) (op : list Z * list Z * Z * bool) : bool :=
  match op with
  | (f, c, k, g) =>
      match classify f c k with
      | Some (Some p) => if only p then Bool.eqb g (guarded default_guards p) else true
      | Some None => true
      | None => true
      end
  end.

Definition is_introducer p := match p with GIntroLoop | GIMergeReply => true | _ => false end.
Definition is_persister p :=
  match p with
  | GPTop | GPPauseWait | GPSendMerge | GPWaitMergeReply | GPSendPersist | GPWaitPApplied | GPRegister | GPWaitNotify => true
  | _ => false
  end.
Definition is_merger p :=
  match p with GMTop | GMSendMerge | GMWaitReply | GMSendWatch | GMWaitNotify | GFMSend | GFMWait => true | _ => false end.
Definition is_caller p := match p with GBatchSend | GBatchApplied | GBatchPersisted => true | _ => false end.

(* no channel operation the classification does not know *)
Lemma ob_ops_classified :
  forallb (fun op => match op with (f, c, k, _) => match classify f c k with Some _ => true | None => false end end)
          XProtocol.chan_ops = true.
Proof. vm_compute. reflexivity. Qed.

(* introducer: its select has the closeCh arm; its merge reply is (deliberately) unguarded *)
Lemma ob_guards_introducer : forallb (op_ok is_introducer) XProtocol.chan_ops = true.
Proof. vm_compute. reflexivity. Qed.

(* persister: every send / wait that the proofs need guarded is guarded — in particular the
   "s.persists <- persist" select keeps its "case <-s.closeCh" arm (C11_unguarded_persists_send_stuck) *)
Lemma ob_guards_persister : forallb (op_ok is_persister) XProtocol.chan_ops = true.
Proof. vm_compute. reflexivity. Qed.

Lemma ob_guards_merger_and_forcemerge : forallb (op_ok is_merger) XProtocol.chan_ops = true.
Proof. vm_compute. reflexivity. Qed.

(* batch callers: unguarded on purpose — they hold the index read lock, so Close cannot have
   closed closeCh (Inv: closed -> nobody inside) *)
Lemma ob_guards_callers : forallb (op_ok is_caller) XProtocol.chan_ops = true.
Proof. vm_compute. reflexivity. Qed.

(* every blocking point of the model still exists in the source *)
Definition all_points : list gpoint :=
  [GIntroLoop; GIMergeReply; GPTop; GPPauseWait; GPSendMerge; GPWaitMergeReply; GPSendPersist; GPWaitPApplied;
   GPRegister; GPWaitNotify; GMTop; GMSendMerge; GMWaitReply; GMSendWatch; GMWaitNotify; GFMSend; GFMWait;
   GBatchSend; GBatchApplied; GBatchPersisted].
Lemma ob_points_covered :
  forallb (fun p => existsb (fun op => match op with (f, c, k, _) =>
                                         match classify f c k with Some (Some q) => gpoint_eqb p q | _ => false end end)
                            XProtocol.chan_ops) all_points = true.
Proof. vm_compute. reflexivity. Qed.

Lemma ob_table_complete : forallb (fun p => existsb (fun e => gpoint_eqb (fst e) p) default_guards) all_points = true.
Proof. vm_compute. reflexivity. Qed.

(* every closeCh / Done / cancelCh arm gets out: where its select sits in a for loop, the arm's body
   ends by leaving that loop (return, break / continue to a label outside).  An arm that only left
   its select ("break" without label) would be taken again at once, for ever: the model's closeCh
   steps (LPPauseWClose, LPTopClose, LMWaitClose, ...) all LEAVE the wait.  (The guard flags of
   chan_ops already count such an arm as no guard; this states it on its own.) *)
Lemma ob_close_arms_leave_their_loops :
  forallb (fun e => snd e) XProtocol.close_arms && (12 <=? Z.of_nat (List.length XProtocol.close_arms)) = true.
Proof. vm_compute. reflexivity. Qed.

(* ---------- Close ---------- *)
(* Scorch.Close closes closeCh and then waits for asyncTasks; every goroutine started by Open is
   counted in asyncTasks and every loop defers asyncTasks.Done() *)
Lemma ob_close_waits_for_loops :
  XProtocol.close_closes_closeCh && XProtocol.close_waits_async_tasks_after &&
  (XProtocol.open_go_statements =? XProtocol.open_async_adds) && (XProtocol.loops_deferring_done =? 3) = true.
Proof. vm_compute. reflexivity. Qed.

(* ---------- exported methods lock and test open ---------- *)
Definition mrec := (list Z * list Z * bool * bool * bool * list (list Z))%type.
Definition m_recv (m : mrec) := match m with (r, _, _, _, _, _) => r end.
Definition m_name (m : mrec) := match m with (_, n, _, _, _, _) => n end.
Definition m_exported (m : mrec) := match m with (_, _, e, _, _, _) => e end.
Definition m_locks (m : mrec) := match m with (_, _, _, l, _, _) => l end.
Definition m_tests (m : mrec) := match m with (_, _, _, _, t, _) => t end.
Definition m_calls (m : mrec) := match m with (_, _, _, _, _, c) => c end.

Definition same_recv (a b : mrec) := seqb (m_recv a) (m_recv b).
Definition callee (m : mrec) (n : list Z) : list mrec :=
  filter (fun x => same_recv m x && seqb (m_name x) n) XProtocol.methods.

(* justified exceptions: methods that neither lock nor test open *)
Definition exceptions : list (string * string) := [
  (* read an immutable field set at construction *)
  ("indexImpl", "Advanced"); ("indexImpl", "Mapping"); ("indexImpl", "Name"); ("indexImpl", "NewBatch");
  ("indexImpl", "Stats"); ("indexImpl", "StatsMap");   (* i.stats is immutable; counters are atomics *)
  ("indexImpl", "FireIndexEvent");                     (* only reaches i.i through Advanced *)
  ("indexImpl", "SetName");                            (* writes i.name unsynchronised: documented as set-up time only *)
  (* NOT justified by the protocol, recorded as observations (outside C11's operation list):
     FileWriterIDsInUse takes no lock; DropFileWriterIDs takes the write lock without testing open
     and returns with it held on its error path *)
  ("indexImpl", "FileWriterIDsInUse"); ("indexImpl", "DropFileWriterIDs");
  (* alias management: guarded by the alias' own mutex; Close sets open = false under the lock *)
  ("indexAliasImpl", "Add"); ("indexAliasImpl", "Remove"); ("indexAliasImpl", "Swap");
  ("indexAliasImpl", "VisitIndexes"); ("indexAliasImpl", "Close"); ("indexAliasImpl", "Name");
  ("indexAliasImpl", "SetName")
].
Definition is_exception (m : mrec) : bool :=
  existsb (fun e => seqb (bs (fst e)) (m_recv m) && seqb (bs (snd e)) (m_name m)) exceptions.

(* a method is protected if it locks and tests open itself or only delegates to one that does *)
Definition protected (m : mrec) : bool :=
  (m_locks m && m_tests m) ||
  existsb (fun n => existsb (fun x => m_exported x && m_locks x && m_tests x) (callee m n)) (m_calls m).

Lemma ob_methods_lock_and_test_open :
  forallb (fun m => negb (m_exported m) || protected m || is_exception m) XProtocol.methods = true.
Proof. vm_compute. reflexivity. Qed.

(* the operations C11 is stated for are all protected (none of them is on the exception list) *)
Definition c11_ops : list string :=
  ["Index"; "Delete"; "Batch"; "Search"; "SearchInContext"; "Document"; "DocCount"; "FieldDict"; "Fields";
   "GetInternal"; "SetInternal"; "DeleteInternal"; "CopyTo"].
Lemma ob_c11_ops_protected :
  forallb (fun n => existsb (fun m => seqb (m_recv m) (bs "indexImpl") && seqb (m_name m) (bs n) && protected m)
                            XProtocol.methods) c11_ops = true.
Proof. vm_compute. reflexivity. Qed.

(* indexImpl.Close takes the lock and (since the double-close fix) tests open *)
Lemma ob_close_locks :
  existsb (fun m => seqb (m_recv m) (bs "indexImpl") && seqb (m_name m) (bs "Close") && m_locks m && m_tests m)
          XProtocol.methods = true.
Proof. vm_compute. reflexivity. Qed.

(* no method that holds the index mutex calls another method of the receiver that takes it again:
   with Go's writer preference a nested RLock deadlocks as soon as Close is waiting in between
   (Model: LRLock is disabled while [wwait]) *)
Lemma ob_no_nested_lock :
  forallb (fun m => negb (m_locks m) ||
                    forallb (fun n => forallb (fun x => negb (m_locks x)) (callee m n)) (m_calls m))
          XProtocol.methods = true.
Proof. vm_compute. reflexivity. Qed.

(* ---------- collector ---------- *)
Lemma ob_check_done_every : (0 <? XProtocol.check_done_every) && (XProtocol.check_done_every =? 1024) = true.
Proof. vm_compute. reflexivity. Qed.

Lemma ob_collector_polls_context : XProtocol.collect_poll_before && XProtocol.collect_poll_in_loop = true.
Proof. vm_compute. reflexivity. Qed.
