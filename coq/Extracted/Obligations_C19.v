(* T1 obligations for C19: side conditions of the text theorems, re-checked on the facts
   regenerated from /repo's source on every run. *)
From Coq Require Import ZArith List Bool.
From Verif Require Import Extracted.Extracted Common.Bytes Text.Model Text.Proofs Text.Corr.
Import ListNotations.
Local Open Scope Z_scope.

(* reverse() in analysis/token/reverse/reverse.go is one of the two transcribed variants
   (Model.reverse_cur: []rune(string(s)) + utf8.RuneLen; Model.reverse_fixed: utf8.DecodeRune
   widths); any other shape leaves the model untied and this lemma fails *)
Lemma ob_reverse_variant_known :
  (XText.reverse_variant =? 1) || (XText.reverse_variant =? 2) = true.
Proof. vm_compute. reflexivity. Qed.

(* the fingerprint is internally consistent with the variant it selects *)
Lemma ob_reverse_fingerprint :
  (if XText.reverse_variant =? 1
   then (XText.reverse_rune_conversions =? 1) && (XText.reverse_runelen_calls =? 2) && (XText.reverse_decoderune_calls =? 0)
   else (XText.reverse_rune_conversions =? 0) && (XText.reverse_runelen_calls =? 0) && (XText.reverse_decoderune_calls =? 2))
  && (XText.reverse_copy_calls =? 1) = true.
Proof. vm_compute. reflexivity. Qed.

(* the fully modelled components are registered under the names the harness dispatches on *)
Lemma ob_modelled_registered :
  forallb (fun n => mem_bytes n XText.registered_tokenizers)
    [[108;101;116;116;101;114]; [119;104;105;116;101;115;112;97;99;101]; [115;105;110;103;108;101]] &&
  forallb (fun n => mem_bytes n XText.registered_token_filters)
    [[116;111;95;108;111;119;101;114]; [108;101;110;103;116;104]; [116;114;117;110;99;97;116;101;95;116;111;107;101;110];
     [115;116;111;112;95;116;111;107;101;110;115]; [117;110;105;113;117;101]; [110;103;114;97;109];
     [101;100;103;101;95;110;103;114;97;109]; [115;104;105;110;103;108;101];
     [107;101;121;119;111;114;100;95;109;97;114;107;101;114]; [97;112;111;115;116;114;111;112;104;101];
     [101;108;105;115;105;111;110]; [114;101;118;101;114;115;101]] = true.
Proof. vm_compute. reflexivity. Qed.

(* the registered highlighters use the fragment size and tags the cases are evaluated with *)
Lemma ob_highlight_defaults :
  (XText.default_fragment_size =? 200) && (0 <? XText.default_fragment_size) &&
  beqb XText.html_before [60;109;97;114;107;62] && beqb XText.html_after [60;47;109;97;114;107;62] = true.
Proof. vm_compute. reflexivity. Qed.

(* reverse_total for the variant the T1 fact selects (Corr.reverse_sel is what the token-by-token
   comparison of the reverse filter uses): total when the tree has the repaired code, refuted
   when it has the code as found.  Both are stated conditionally so that the file builds on
   either tree; ob_reverse_variant_known says one of the two premises holds. *)
Lemma ob_reverse_selected_total :
  XText.reverse_variant = 2 -> forall marks s, Corr.reverse_sel marks s <> None.
Proof.
  intros H marks s. unfold Corr.reverse_sel. rewrite H. cbn.
  destruct (reverse_fixed_total (pred_of Corr.ascii_mark marks) s) as (o & E & _). rewrite E. discriminate.
Qed.

Lemma ob_reverse_selected_refuted :
  XText.reverse_variant = 1 -> forall marks, Corr.reverse_sel marks [195; 195] = None.
Proof.
  intros H marks. unfold Corr.reverse_sel. rewrite H. cbn. apply reverse_refuted.
Qed.
