(* T1 obligations for C09: the facts regenerated from /repo's source that the alias/shards model
   (Collect/Shards.v) is parameterised by or transcribes, re-checked on every run. *)
From Coq Require Import ZArith List Bool.
From Verif Require Import Common.Bytes Extracted.Extracted Collect.Shards Collect.ShardsProofs.
Import ListNotations.
Local Open Scope Z_scope.

(* the trim guard of hitsInCurrentPage is "req.Size <op> 0 && len(hits) > req.Size" with <op> one of
   the two comparisons the model's [guard] parameter knows (">" or ">=") *)
Lemma ob_trim_guard_known :
  match guard_of_op XAlias.trim_guard_op with Some _ => true | None => false end = true.
Proof. vm_compute. reflexivity. Qed.

Lemma ob_trim_guard_shape :
  beqb XAlias.trim_guard_rhs [48] &&                                   (* "0" *)
  beqb XAlias.trim_guard_and
       [108;101;110;40;104;105;116;115;41;32;62;32;114;101;113;46;83;105;122;101]  (* "len(hits) > req.Size" *)
  = true.
Proof. vm_compute. reflexivity. Qed.

(* copySearchRequest gives the members Size = req.Size + req.From, From = 0 and forwards the sort
   order, SearchAfter, SearchBefore, the facets, fields and the query — [Shards.child_request] *)
Lemma ob_child_request :
  beqb XAlias.child_size [114;101;113;46;83;105;122;101;32;43;32;114;101;113;46;70;114;111;109] &&  (* "req.Size + req.From" *)
  beqb XAlias.child_from [48] &&                                                                     (* "0" *)
  beqb XAlias.child_sort [114;101;113;46;83;111;114;116;46;67;111;112;121;40;41] &&                  (* "req.Sort.Copy()" *)
  beqb XAlias.child_searchafter [114;101;113;46;83;101;97;114;99;104;65;102;116;101;114] &&          (* "req.SearchAfter" *)
  beqb XAlias.child_searchbefore [114;101;113;46;83;101;97;114;99;104;66;101;102;111;114;101] &&     (* "req.SearchBefore" *)
  beqb XAlias.child_facets [114;101;113;46;70;97;99;101;116;115] &&                                  (* "req.Facets" *)
  beqb XAlias.child_fields [114;101;113;46;70;105;101;108;100;115] &&                                (* "req.Fields" *)
  beqb XAlias.child_query [114;101;113;46;81;117;101;114;121]                                        (* "req.Query" *)
  = true.
Proof. vm_compute. reflexivity. Qed.

(* what holds of the page function with the guard that is in the source NOW: with ">=" the page
   theorem for every Size >= 0; with ">" its refutation at Size = 0, From > 0 (and the page theorem
   for Size > 0, which is C09_topk_merge for either guard) *)
Lemma ob_size_zero_current :
  match guard_of_op XAlias.trim_guard_op with
  | Some GuardGe =>
      forall desc (shards : list (list hit)) (all : list hit) from size,
        desc <> [] -> total_keys desc all ->
        Permutation.Permutation (map hobs (concat shards)) (map hobs all) ->
        0 <= from -> 0 <= size ->
        map hobs (hits_in_current_page GuardGe desc from size
                    (concat (map (fun s => firstn (Z.to_nat (size + from)) (sort_hits desc s)) shards)))
        = map hobs (slice from size (sort_hits desc all))
  | Some GuardGt =>
      exists (shards : list (list hit)) (all : list hit) (from : Z),
        total_keys [false] all /\
        Permutation.Permutation (map hobs (concat shards)) (map hobs all) /\ 0 <= from /\
        map hobs (hits_in_current_page GuardGt [false] from 0
                    (concat (map (fun s => firstn (Z.to_nat (0 + from)) (sort_hits [false] s)) shards)))
        <> map hobs (slice from 0 (sort_hits [false] all))
  | None => False
  end.
Proof.
  pose proof ob_trim_guard_known as K.
  destruct (guard_of_op XAlias.trim_guard_op) as [[|]|].
  - exact size_zero_refuted.
  - exact size_zero_page.
  - discriminate K.
Qed.
