(* T1 obligations for C08: side conditions of the cursor theorems, re-checked on the facts
   regenerated from /repo's source on every run. *)
From Coq Require Import ZArith List Bool.
From Verif Require Import Extracted.Extracted Cursor.MachCorr.
Import ListNotations.
Local Open Scope Z_scope.

(* BooleanSearcher.Advance re-advances the should cursor only when it trails the target
   (the `if s.currShould == nil || s.currShould.IndexInternalID.Compare(ID) < 0` guard around
   s.shouldSearcher.Advance).  [boolean_cursor] / [program_subsequence] are proved for the
   guarded machine; without the guard the machine loses matches ([boolean_cursor_refuted]). *)
Lemma ob_boolean_should_guard : XCursor.boolean_should_guard = true.
Proof. vm_compute. reflexivity. Qed.

(* the slice disjunction is used up to this many children, the heap disjunction above; both
   machines are proved, the harness crosses the threshold *)
Lemma ob_heap_takeover : XCursor.disjunction_heap_takeover = 10.
Proof. vm_compute. reflexivity. Qed.

(* the correspondence check runs the Boolean machine with the guard flag read off the source *)
Lemma ob_corr_guard : MachCorr.should_guard = XCursor.boolean_should_guard.
Proof. vm_compute. reflexivity. Qed.
