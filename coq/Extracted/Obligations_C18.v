(* T1 obligations for C18: the constants the geo model is written with are the ones in /repo's
   source, re-checked on the facts regenerated on every run, and which variant of the post-filter
   doc-value visitor is in force. *)
From Coq Require Import ZArith List Bool.
From Verif Require Import Extracted.Extracted Common.Bytes Numeric.Model Geo.Model Geo.Proofs.
Import ListNotations.
Local Open Scope Z_scope.

(* GeoBits, GeoPrecisionStep, GeoBitsShift1(-1), geoMaxShift, geoDetailLevel (evaluated from the
   source expressions) equal the model's; ComputeGeoRange is started at (0, GeoBitsShift1Minus1) *)
Lemma ob_geo_constants :
  (XGeo.geo_bits =? Model.geo_bits) && (XGeo.geo_precision_step =? Model.geo_precision_step) &&
  (XGeo.geo_bits_shift1 =? Model.geo_bits_shift1) && (XGeo.geo_bits_shift1_minus1 =? Model.geo_bits_shift1_minus1) &&
  (XGeo.geo_max_shift =? Model.geo_max_shift) && (XGeo.geo_detail_level =? Model.geo_detail_level) &&
  (XGeo.range_top_term =? 0) && (XGeo.range_top_shift =? Model.geo_bits_shift1_minus1) &&
  (2 ^ XGeo.geo_bits - 1 =? Model.D) = true.
Proof. vm_compute. reflexivity. Qed.

(* the shifts a point is indexed at (GeoPointField.Analyze: 0, then step, 2*step, ... below the loop
   bound) are the model's, and every shift the recursion can emit a term at (multiples of the step
   from geoMaxShift up to the top shift) is among them *)
Lemma ob_index_shifts :
  list_eqb Z.eqb Model.geo_index_shifts
    (0 :: filter (fun s => s <? XGeo.index_shift_bound)
            (map (fun i => Z.of_nat i * XGeo.geo_precision_step) (seq 1 (Z.to_nat XGeo.index_shift_bound)))) &&
  forallb (fun s => existsb (Z.eqb s) Model.geo_index_shifts)
    (filter (fun s => (s mod XGeo.geo_precision_step =? 0) && (XGeo.geo_max_shift <=? s))
            (map Z.of_nat (seq 0 (Z.to_nat XGeo.geo_bits_shift1)))) = true.
Proof. vm_compute. reflexivity. Qed.

(* source text of the float constants the model's exact maps stand for *)
Lemma ob_geo_sources :
  list_eqb Z.eqb XGeo.geo_tolerance_src [49;101;45;54] &&                 (* "1e-6" = geo_tolerance_bits *)
  list_eqb Z.eqb XGeo.min_lon_src [45;49;56;48;46;48] && list_eqb Z.eqb XGeo.max_lon_src [49;56;48;46;48] &&
  list_eqb Z.eqb XGeo.min_lat_src [45;57;48;46;48] && list_eqb Z.eqb XGeo.max_lat_src [57;48;46;48] &&
  (* lonScale = float64((uint64(0x1) << GeoBits) - 1) / 360.0 ; latScale = ... / 180.0 *)
  list_eqb Z.eqb XGeo.lon_scale_src
    [102;108;111;97;116;54;52;40;40;117;105;110;116;54;52;40;48;120;49;41;32;60;60;32;71;101;111;66;105;116;115;41;32;45;32;49;41;32;47;32;51;54;48;46;48] &&
  list_eqb Z.eqb XGeo.lat_scale_src
    [102;108;111;97;116;54;52;40;40;117;105;110;116;54;52;40;48;120;49;41;32;60;60;32;71;101;111;66;105;116;115;41;32;45;32;49;41;32;47;32;49;56;48;46;48]
  = true.
Proof. vm_compute. reflexivity. Qed.

(* checkBoundaries as passed by the three query types (bbox: true, distance: false, polygon: true) *)
Lemma ob_check_boundaries :
  XGeo.bbox_query_check_boundaries && negb XGeo.distance_check_boundaries && XGeo.polygon_check_boundaries = true.
Proof. vm_compute. reflexivity. Qed.

(* the three filters (buildRectFilter, buildDistFilter, buildPolygonFilter) use the same visitor variant *)
Lemma ob_filter_variants_agree :
  Bool.eqb XGeo.rect_filter_early_return XGeo.dist_filter_early_return &&
  Bool.eqb XGeo.rect_filter_early_return XGeo.polygon_filter_early_return = true.
Proof. vm_compute. reflexivity. Qed.

(* THE VARIANT IN FORCE: true = the doc-value visitor starts with `if found { return }` *)
Definition filters_early_return : bool := XGeo.rect_filter_early_return.

(* What holds of the filter in force: without the early return it accepts a document iff some value
   passes (the property); with it, only the first visited value is tested and the any-value
   statement has a counterexample.  This lemma builds on either tree; the correspondence check
   (Geo/Corr.v) evaluates the model with the same flag. *)
Lemma ob_filter_in_force :
  if filters_early_return
  then (forall (P : Z -> bool) vals, doc_filter filters_early_return P vals = match vals with [] => false | v :: _ => P v end) /\
       (exists vals k q, doc_filter filters_early_return (rect_point_pred k (tol_S k) q) vals
                         <> doc_filter_spec (rect_point_pred k (tol_S k) q) vals)
  else forall (P : Z -> bool) vals, doc_filter filters_early_return P vals = doc_filter_spec P vals.
Proof.
  destruct filters_early_return eqn:E.
  - split; [exact filter_first_only|exact filter_any_value_refuted].
  - exact filter_every_value.
Qed.
