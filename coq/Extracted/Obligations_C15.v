(* T1 obligations for C15: the facts read off /repo's KV adapters select the model variants the
   correspondence cases are replayed on (Kv/AdapterCorr.v) and decide which theorems of Props_C15
   speak about today's code.  Re-checked on the regenerated facts on every run. *)
From Coq Require Import ZArith List Bool.
From Verif Require Import Extracted.Extracted Common.Bytes Kv.Adapter Kv.AdapterCorr.
Import ListNotations.
Local Open Scope Z_scope.

(* moss' incrementBytes is one of the two shapes the model has a transcription for *)
Lemma ob_moss_increment_known :
  (XKv.moss_increment_variant =? 0) || (XKv.moss_increment_variant =? 1) = true.
Proof. vm_compute. reflexivity. Qed.

(* ExecuteBatch orders merges against set/delete as the model's policies say:
   boltdb, gtreap: merges loop, then Ops loop (MergeFirst); goleveldb: merged value Put appended to the
   native batch (MergeLast); moss: operands appended as native merge ops (MergeNative) *)
Lemma ob_batch_policies :
  (XKv.batch_policy_boltdb =? 0) && (XKv.batch_policy_gtreap =? 0) &&
  (XKv.batch_policy_goleveldb =? 1) && (XKv.batch_policy_moss =? 2) = true.
Proof. vm_compute. reflexivity. Qed.

Lemma ob_policy_of_store :
  policy_of_store 0 = MergeFirst /\ policy_of_store 1 = MergeFirst /\ policy_of_store 2 = MergeLast /\
  policy_of_store 3 = MergeNative /\ policy_of_store 4 = MergeFirst.
Proof. vm_compute. repeat split. Qed.

(* the metrics wrapper forwards every Batch/Writer/Reader/Iterator call to the wrapped store, so it is
   modelled as the wrapped store (gtreap in the harness) *)
Lemma ob_metrics_delegates : XKv.metrics_delegates = true.
Proof. vm_compute. reflexivity. Qed.

(* C15_prefix_iter_exact_moss is about the repaired successor function (incr_strip); it speaks about
   /repo's moss adapter only when incrementBytes has that shape.  With today's carry version this
   lemma does not build (the refuted statement C15_moss_prefix_refuted applies instead). *)
Lemma ob_moss_prefix_successor_repaired : XKv.moss_increment_variant = 1.
Proof. vm_compute. reflexivity. Qed.
