(* T1 obligations for C17: side conditions of the query codec theorems, re-checked on the facts
   regenerated from /repo's source (search/query/query.go ParseQuery, the query structs and their
   MarshalJSON methods, query_string_lex.go) on every run. *)
From Coq Require Import ZArith List Bool.
From Verif Require Import Common.Bytes Extracted.Extracted QueryCodec.Lexer QueryCodec.Dispatch.
Import ListNotations.
Local Open Scope Z_scope.

(* the lexer model's reserved characters are the const reservedChars of query_string_lex.go *)
Lemma ob_reserved_chars : XQuery.reserved_chars = Lexer.reserved_chars.
Proof. vm_compute. reflexivity. Qed.

(* the query family of C17 (Go type names) *)
Definition s (l : list Z) : bytes := l.
Definition family : list qtype := [
  s [84;101;114;109;81;117;101;114;121];                                     (* TermQuery *)
  s [77;97;116;99;104;81;117;101;114;121];                                   (* MatchQuery *)
  s [77;97;116;99;104;80;104;114;97;115;101;81;117;101;114;121];             (* MatchPhraseQuery *)
  s [80;104;114;97;115;101;81;117;101;114;121];                              (* PhraseQuery *)
  s [80;114;101;102;105;120;81;117;101;114;121];                             (* PrefixQuery *)
  s [87;105;108;100;99;97;114;100;81;117;101;114;121];                       (* WildcardQuery *)
  s [82;101;103;101;120;112;81;117;101;114;121];                             (* RegexpQuery *)
  s [70;117;122;122;121;81;117;101;114;121];                                 (* FuzzyQuery *)
  s [84;101;114;109;82;97;110;103;101;81;117;101;114;121];                   (* TermRangeQuery *)
  s [78;117;109;101;114;105;99;82;97;110;103;101;81;117;101;114;121];        (* NumericRangeQuery *)
  DateRangeQuery;
  DateRangeStringQuery;
  s [66;111;111;108;70;105;101;108;100;81;117;101;114;121];                  (* BoolFieldQuery *)
  s [68;111;99;73;68;81;117;101;114;121];                                    (* DocIDQuery *)
  s [77;97;116;99;104;65;108;108;81;117;101;114;121];                        (* MatchAllQuery *)
  s [77;97;116;99;104;78;111;110;101;81;117;101;114;121];                    (* MatchNoneQuery *)
  s [67;111;110;106;117;110;99;116;105;111;110;81;117;101;114;121];          (* ConjunctionQuery *)
  s [68;105;115;106;117;110;99;116;105;111;110;81;117;101;114;121];          (* DisjunctionQuery *)
  s [66;111;111;108;101;97;110;81;117;101;114;121];                          (* BooleanQuery *)
  s [81;117;101;114;121;83;116;114;105;110;103;81;117;101;114;121]           (* QueryStringQuery *)
].

(* every type of the family has an emit table and a ParseQuery test *)
Lemma ob_family_covered : covered XQuery.tests XQuery.emits family = true.
Proof. vm_compute. reflexivity. Qed.

(* for every query type ParseQuery knows: on each top-level key set the type can marshal to
   (always-present keys plus any subset of the omitempty ones, a key of undetermined kind taken as
   number, string and null in turn), its own test holds only if no EARLIER test does, and a type with
   an always-present key is always selected *)
Lemma ob_dispatch_unambiguous : dispatch_unambiguous XQuery.tests XQuery.emits = true.
Proof. vm_compute. reflexivity. Qed.
