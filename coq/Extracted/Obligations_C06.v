(* T1 obligations for C06: the constants and comparison directions the collector model
   (Collect/TopN.v) is written with are the ones in /repo's source, re-read on every run. *)
From Coq Require Import ZArith List Bool.
From Verif Require Import Common.Bytes Extracted.Extracted Collect.TopN.
Import ListNotations.
Local Open Scope Z_scope.

Definition str_eqb := list_eqb Z.eqb.

(* getOptimalCollectorStore: "if size+skip > 10 { newStoreHeap } else { newStoreSlice }" is the
   model's [use_heap] with [store_switch] *)
Lemma ob_store_switch :
  (XCollect.store_switch_threshold =? Z.of_nat TopN.store_switch) &&
  str_eqb XCollect.store_switch_op [62] (* ">" *) &&
  str_eqb XCollect.store_switch_then [110;101;119;83;116;111;114;101;72;101;97;112] (* "newStoreHeap" *) &&
  str_eqb XCollect.store_switch_else [110;101;119;83;116;111;114;101;83;108;105;99;101] (* "newStoreSlice" *) = true.
Proof. vm_compute. reflexivity. Qed.

Lemma ob_prealloc_cap : XCollect.prealloc_size_skip_cap = Z.of_nat TopN.prealloc_size_skip_cap.
Proof. vm_compute. reflexivity. Qed.

Lemma ob_check_done_every : XCollect.check_done_every = TopN.check_done_every.
Proof. vm_compute. reflexivity. Qed.

(* MakeTopNDocumentMatchHandler: cmp(d, searchAfter) <= 0 drops; cmp(d, lowest) >= 0 drops;
   the store is asked for size+skip; the evicted match replaces lowest when cmp(removed, lowest) < 0 *)
Lemma ob_handler_comparisons :
  str_eqb XCollect.after_filter_op [60;61] (* "<=" *) &&
  str_eqb XCollect.shortcut_op [62;61] (* ">=" *) &&
  str_eqb XCollect.lowest_update_op [60] (* "<" *) &&
  str_eqb XCollect.lowest_update_cmp
    [104;99;46;99;109;112;40;114;101;109;111;118;101;100;44;32;104;99;46;108;111;119;101;115;116;77;97;116;99;104;79;117;116;115;105;100;101;82;101;115;117;108;116;115;41]
    (* "hc.cmp(removed, hc.lowestMatchOutsideResults)" *) &&
  str_eqb XCollect.add_call
    [104;99;46;115;116;111;114;101;46;65;100;100;78;111;116;69;120;99;101;101;100;105;110;103;83;105;122;101;40;100;44;32;104;99;46;115;105;122;101;32;43;32;104;99;46;115;107;105;112;41]
    (* "hc.store.AddNotExceedingSize(d, hc.size + hc.skip)" *) = true.
Proof. vm_compute. reflexivity. Qed.

(* slice store: the insertion walk stops at cmp >= 0; heap store: Less(i, j) is -compare(h[i], h[j]) < 0 *)
Lemma ob_store_comparisons :
  str_eqb XCollect.slice_add_stop_op [62;61] (* ">=" *) &&
  str_eqb XCollect.heap_less_op [60] (* "<" *) &&
  str_eqb XCollect.heap_less_so
    [99;46;99;111;109;112;97;114;101;40;99;46;104;101;97;112;91;105;93;44;32;99;46;104;101;97;112;91;106;93;41]
    (* "c.compare(c.heap[i], c.heap[j])" *) = true.
Proof. vm_compute. reflexivity. Qed.
