(* C02 — side conditions over the facts regenerated from /repo (Extracted.XSem). *)
From Coq Require Import ZArith List Bool.
From Verif Require Import Common.Bytes Cursor.Sem Cursor.SemCorr Extracted.Extracted.
Import ListNotations.
Local Open Scope Z_scope.

(* every Levenshtein automaton builder scorch creates enables transpositions: the metric the
   harness hands to [sem] for the scorch engines is the one the code asks vellum for *)
Lemma scorch_metric_is_extracted : Bool.eqb XSem.scorch_fuzzy_transpositions SemCorr.scorch_metric = true.
Proof. vm_compute. reflexivity. Qed.

(* [Sem.fuzz_k]'s auto-fuzziness table is GetAutoFuzziness with the constants of search_fuzzy.go *)
Lemma auto_fuzziness_table :
  forallb (fun n =>
    Nat.eqb (fuzz_k None (repeat 97 n))
            (Z.to_nat (if Z.of_nat n >? XSem.auto_fuzziness_high then XSem.max_fuzziness
                       else if Z.of_nat n >? XSem.auto_fuzziness_low then XSem.max_fuzziness - 1
                       else 0)))
    (seq 0 16) = true.
Proof. vm_compute. reflexivity. Qed.

(* the harness never asks for more than MaxFuzziness = 2 (beyond it the searcher constructor
   returns an error, which is outside the query family) *)
Lemma max_fuzziness_is_two : XSem.max_fuzziness =? 2 = true.
Proof. vm_compute. reflexivity. Qed.
