(* T1 obligations for C07: side conditions of the numeric theorems, re-checked on the facts
   regenerated from /repo's source on every run. *)
From Coq Require Import ZArith List Bool.
From Verif Require Import Extracted.Extracted Numeric.Model.
Import ListNotations.
Local Open Scope Z_scope.

(* the shift byte base the model uses is the one in numeric/prefix_coded.go *)
Lemma ob_shift_start : XNumeric.shift_start = Model.shift_start.
Proof. vm_compute. reflexivity. Qed.

(* index-time precision steps (numeric and datetime fields) equal the step the range searcher
   splits with, and that step is the 4 the theorems are stated for (it divides 64) *)
Lemma ob_precision_steps :
  (XNumeric.precision_step_numeric =? XNumeric.searcher_split_step) &&
  (XNumeric.precision_step_datetime =? XNumeric.searcher_split_step) &&
  (XNumeric.searcher_split_step =? 4) && (64 mod XNumeric.searcher_split_step =? 0) = true.
Proof. vm_compute. reflexivity. Qed.

(* the numeric range searcher enumerates with the 7-bit-carry enumerator the model's [enum7] mirrors
   ("enumeratePrefixCoded"), not the legacy base-256 Enumerate whose step count is unbounded *)
Lemma ob_enumerator :
  XNumeric.searcher_enumerator =
  [101;110;117;109;101;114;97;116;101;80;114;101;102;105;120;67;111;100;101;100].
Proof. vm_compute. reflexivity. Qed.
