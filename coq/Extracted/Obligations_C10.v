(* T1 obligations for C10: side conditions of the facet correspondence check, re-checked on the
   facts regenerated from /repo's source on every run. *)
From Coq Require Import ZArith List Bool.
From Verif Require Import Extracted.Extracted Collect.FacetsCorr.
Import ListNotations.
Local Open Scope Z_scope.

(* the precision steps with which the check derives a numeric / datetime document's doc-value
   terms are the index-time steps in document/field_numeric.go and field_datetime.go *)
Lemma ob_dv_steps :
  (XNumeric.precision_step_numeric =? FacetsCorr.dv_step_numeric) &&
  (XNumeric.precision_step_datetime =? FacetsCorr.dv_step_datetime) = true.
Proof. vm_compute. reflexivity. Qed.
