(* QueryCodec engine — scalar texts inside query strings: numbers (strconv.ParseFloat on the text of
   tNUMBER / tBOOST / tTILDE tokens) and dates (queryTimeFromString on a phrase: the
   dateTimeOptional parser = time.Parse over a list of layouts).

   These Go library functions are outside /repo.  They are modelled on the documented sublanguage
   and answer [..Unm] (unmodelled: the check then only requires "no panic") elsewhere:
   - numbers: decimal floating point syntax  [+-]digits[.digits][(e|E)[+-]digits]  decided exactly,
     correctly rounded to binary64 (round to nearest even), overflow = error (ErrRange);
     a text containing a character outside 0-9 . + - e E is rejected unless it contains one of
     _ x X i I n N (underscores, hex floats, inf/infinity/nan: unmodelled);
   - dates: YYYY-MM-DD | YYYY-MM-DD(T| )HH:MM:SS | YYYY-MM-DDTHH:MM:SS[.f{1,9}](Z|(+|-)HH:MM)
     with field ranges validated as time.Parse does; every other shape is unmodelled. *)
From Coq Require Import ZArith List Bool Lia.
From Verif Require Import Common.Bytes QueryCodec.Lexer.
Import ListNotations.
Local Open Scope Z_scope.

(* ---------- decimal digits ---------- *)
Definition digit_val (r : rune) : Z := r - 48.

Fixpoint digits_val_acc (acc : Z) (ds : list rune) : Z :=
  match ds with
  | [] => acc
  | d :: ds' => digits_val_acc (acc * 10 + digit_val d) ds'
  end.
Definition digits_val (ds : list rune) : Z := digits_val_acc 0 ds.

(* longest prefix of decimal digits, and the rest *)
Fixpoint span_digits (s : list rune) : list rune * list rune :=
  match s with
  | r :: s' => if is_digit r then let '(a, b) := span_digits s' in (r :: a, b) else ([], s)
  | [] => ([], [])
  end.

Fixpoint strip_zeros (ds : list rune) : list rune :=
  match ds with
  | 48 :: ds' => strip_zeros ds'
  | _ => ds
  end.

(* ---------- binary64 ---------- *)
Definition two52 : Z := 4503599627370496.
Definition two53 : Z := 9007199254740992.
Definition two63 : Z := 9223372036854775808.
Definition inf_bits : Z := 2047 * two52.

(* round the positive rational N/M to the nearest binary64 (ties to even); the result is the bit
   pattern without sign; None = overflow to +Inf *)
Definition round_b64 (N M : Z) : option Z :=
  let e0 := Z.log2 N - Z.log2 M - 53 in
  let q_at e := if 0 <=? e then N / (M * 2 ^ e) else (N * 2 ^ (- e)) / M in
  let e1 := if two53 <=? q_at e0 then e0 + 1 else e0 in
  let e := Z.max e1 (-1074) in
  let num := if 0 <=? e then N else N * 2 ^ (- e) in
  let den := if 0 <=? e then M * 2 ^ e else M in
  let q := num / den in
  let r := num mod den in
  let q' := if (den <? 2 * r) || ((den =? 2 * r) && Z.odd q) then q + 1 else q in
  let bits := (e + 1074) * two52 + q' in
  if inf_bits <=? bits then None else Some bits.

(* the value D * 10^adj for D > 0 written with nd significant decimal digits *)
Definition dec_to_b64 (D nd adj : Z) : option Z :=
  if D =? 0 then Some 0
  else if 310 <? nd + adj then None                 (* >= 1e310: overflow *)
  else if nd + adj <? -330 then Some 0              (* < 1e-330: rounds to zero *)
  else if 0 <=? adj then round_b64 (D * 10 ^ adj) 1
  else round_b64 D (10 ^ (- adj)).

(* int(f) for a float64 bit pattern: truncation toward zero; None when outside int64 (Go leaves
   that conversion implementation-defined) *)
Definition b64_trunc (bits : Z) : option Z :=
  let neg := two63 <=? bits in
  let mag := bits mod two63 in
  let E := mag / two52 in
  let m := mag mod two52 in
  if E =? 2047 then None else
  let v := if E =? 0 then 0
           else if 1075 <=? E then Z.shiftl (two52 + m) (E - 1075)
           else Z.shiftr (two52 + m) (1075 - E) in
  let sv := if neg then - v else v in
  if (- two63 <=? sv) && (sv <? two63) then Some sv else None.

Inductive pf_result := PfOk (bits : Z) | PfErr | PfUnm.

Definition take_sign (s : list rune) : bool * list rune :=
  match s with
  | c :: s' => if c =? 43 then (false, s') else if c =? 45 then (true, s') else (false, s)
  | [] => (false, [])
  end.

(* strconv.readFloat + atof64 on the decimal syntax *)
Definition parse_decimal (s : list rune) : pf_result :=
  let '(neg, s1) := take_sign s in
  let '(ip, s2) := span_digits s1 in
  let '(fp, s3) := match s2 with
                   | c :: t => if c =? 46 then span_digits t else ([], s2)
                   | [] => ([], [])
                   end in
  match ip ++ fp with
  | [] => PfErr                                          (* no digits *)
  | _ =>
      let ex :=                                          (* Some (exponent, rest) | None = malformed *)
        match s3 with
        | c :: t =>
            if (c =? 101) || (c =? 69) then
              let '(eneg, t1) := take_sign t in
              let '(ed, t2) := span_digits t1 in
              match ed with
              | [] => None
              | _ => Some (if eneg then - digits_val ed else digits_val ed, t2)
              end
            else Some (0, s3)
        | [] => Some (0, [])
        end in
      match ex with
      | None => PfErr
      | Some (_, _ :: _) => PfErr                        (* trailing characters *)
      | Some (e10, []) =>
          let ds := strip_zeros (ip ++ fp) in
          match dec_to_b64 (digits_val ds) (Z.of_nat (length ds)) (e10 - Z.of_nat (length fp)) with
          | Some b => PfOk (if neg then b + two63 else b)
          | None => PfErr                                (* ErrRange *)
          end
      end
  end.

Definition dec_char (r : rune) : bool := is_digit r || mem r [46;43;45;101;69].
Definition unm_char (r : rune) : bool := mem r [95;120;88;105;73;110;78].     (* _ x X i I n N *)

Definition parse_float (s : list rune) : pf_result :=
  if forallb dec_char s then parse_decimal s
  else if existsb unm_char s then PfUnm
  else PfErr.

(* ---------- dates ---------- *)
Inductive dt_result := DtOk (ns : Z) | DtErr | DtUnm.

Definition is_leap (y : Z) : bool := (y mod 4 =? 0) && (negb (y mod 100 =? 0) || (y mod 400 =? 0)).
Definition days_in_month (y m : Z) : Z :=
  if m =? 2 then (if is_leap y then 29 else 28)
  else if (m =? 4) || (m =? 6) || (m =? 9) || (m =? 11) then 30 else 31.

(* days since 1970-01-01 of a proleptic Gregorian date *)
Definition days_from_civil (y m d : Z) : Z :=
  let y' := if m <=? 2 then y - 1 else y in
  let era := y' / 400 in
  let yoe := y' - era * 400 in
  let mp := (m + 9) mod 12 in
  let doy := (153 * mp + 2) / 5 + d - 1 in
  let doe := yoe * 365 + yoe / 4 - yoe / 100 + doy in
  era * 146097 + doe - 719468.

Definition ns_per_s : Z := 1000000000.
(* time.Time{} = 0001-01-01T00:00:00Z, bleve's "no bound" *)
Definition zero_time_ns : Z := -62135596800 * ns_per_s.

Definition all_digits (s : list rune) : bool := forallb is_digit s.

(* YYYY-MM-DD -> Some (y, m, d) when the shape is right *)
Definition shape_date (s : list rune) : option (Z * Z * Z) :=
  match s with
  | [y1;y2;y3;y4;45;m1;m2;45;d1;d2] =>
      if all_digits [y1;y2;y3;y4;m1;m2;d1;d2]
      then Some (digits_val [y1;y2;y3;y4], digits_val [m1;m2], digits_val [d1;d2]) else None
  | _ => None
  end.

Definition shape_clock (s : list rune) : option (Z * Z * Z) :=
  match s with
  | [h1;h2;58;m1;m2;58;s1;s2] =>
      if all_digits [h1;h2;m1;m2;s1;s2]
      then Some (digits_val [h1;h2], digits_val [m1;m2], digits_val [s1;s2]) else None
  | _ => None
  end.

(* optional fraction ".f{1,9}" then "Z" or (+|-)HH:MM ; result: (nanoseconds, offset seconds) *)
Definition shape_zone (s : list rune) : option Z :=
  match s with
  | [90] => Some 0
  | [sg;h1;h2;58;m1;m2] =>
      if ((sg =? 43) || (sg =? 45)) && all_digits [h1;h2;m1;m2] then
        let hh := digits_val [h1;h2] in let mm := digits_val [m1;m2] in
        if (hh <=? 23) && (mm <=? 59) then
          Some ((if sg =? 45 then -1 else 1) * (hh * 3600 + mm * 60)) else None
      else None
  | _ => None
  end.

Fixpoint pad9 (n : nat) (v : Z) : Z := match n with O => v | S n' => pad9 n' (v * 10) end.

Definition shape_frac_zone (s : list rune) : option (Z * Z) :=
  match s with
  | 46 :: t =>
      let '(fd, z) := span_digits t in
      let n := length fd in
      if (Nat.leb 1 n) && (Nat.leb n 9) then
        match shape_zone z with
        | Some off => Some (pad9 (9 - n) (digits_val fd), off)
        | None => None
        end
      else None
  | _ => match shape_zone s with Some off => Some (0, off) | None => None end
  end.

Definition civil_ok (y m d : Z) : bool := (1 <=? m) && (m <=? 12) && (1 <=? d) && (d <=? days_in_month y m).
Definition clock_ok (h mi s : Z) : bool := (h <=? 23) && (mi <=? 59) && (s <=? 59).

Definition mk_ns (y m d h mi s frac off : Z) : dt_result :=
  if civil_ok y m d && clock_ok h mi s
  then DtOk ((days_from_civil y m d * 86400 + h * 3600 + mi * 60 + s - off) * ns_per_s + frac)
  else DtErr.

Definition parse_datetime (s : list rune) : dt_result :=
  match shape_date (firstn 10 s) with
  | None => DtUnm
  | Some (y, m, d) =>
      match skipn 10 s with
      | [] => mk_ns y m d 0 0 0 0 0
      | sep :: t =>
          if (sep =? 84) || (sep =? 32) then
            match shape_clock (firstn 8 t) with
            | None => DtUnm
            | Some (h, mi, sc) =>
                match skipn 8 t with
                | [] => mk_ns y m d h mi sc 0 0
                | z =>
                    if sep =? 84 then
                      match shape_frac_zone z with
                      | Some (frac, off) => mk_ns y m d h mi sc frac off
                      | None => DtUnm
                      end
                    else DtUnm
                end
            end
          else DtUnm
      end
  end.

(* sanity: 1.5 -> 0x3FF8000000000000, 0.1, 1e308 ok, 1e309 overflow, smallest subnormal *)
Example pf_1_5 : parse_float [49;46;53] = PfOk 4609434218613702656. Proof. vm_compute. reflexivity. Qed.
Example pf_0_1 : parse_float [48;46;49] = PfOk 4591870180066957722. Proof. vm_compute. reflexivity. Qed.
Example pf_neg2 : parse_float [45;50] = PfOk (4611686018427387904 + two63). Proof. vm_compute. reflexivity. Qed.
Example pf_1e309 : parse_float [49;101;51;48;57] = PfErr. Proof. vm_compute. reflexivity. Qed.
Example pf_5e324 : parse_float [53;101;45;51;50;52] = PfOk 1. Proof. vm_compute. reflexivity. Qed.
Example pf_bad : parse_float [49;46;50;46;51] = PfErr. Proof. vm_compute. reflexivity. Qed.
Example pf_inf : parse_float [105;110;102] = PfUnm. Proof. vm_compute. reflexivity. Qed.
Example tr_2_9 : (match parse_float [50;46;57] with PfOk b => b64_trunc b | _ => None end) = Some 2.
Proof. vm_compute. reflexivity. Qed.
(* 2020-01-01T00:00:00.5Z *)
Example dt_1 : parse_datetime [50;48;50;48;45;48;49;45;48;49;84;48;48;58;48;48;58;48;48;46;53;90]
  = DtOk (1577836800 * ns_per_s + 500000000).
Proof. vm_compute. reflexivity. Qed.
Example dt_zero : parse_datetime [48;48;48;49;45;48;49;45;48;49] = DtOk zero_time_ns.
Proof. vm_compute. reflexivity. Qed.
