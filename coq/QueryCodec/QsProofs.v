(* QueryCodec engine — qs_parse_print: parsing the printed form of a clause list of the documented
   grammar gives the boolean query the syntax documents. *)
From Coq Require Import ZArith List Bool Lia ZifyBool.
From Verif Require Import Common.Bytes QueryCodec.Lexer QueryCodec.Scalars QueryCodec.Grammar
  QueryCodec.LexProofs QueryCodec.QsLex.
Import ListNotations.
Local Open Scope Z_scope.

(* ================= lexing ================= *)
Lemma print_clause_split c :
  print_clause c =
  print_prefix (s_prefix c) ++ (match s_field c with [] => [] | f => f ++ [58] end) ++
  print_kind (s_kind c) ++ suffix (s_kind c) (s_boost c).
Proof. reflexivity. Qed.

Lemma lex_clause c acc rest : clause_ok c = true ->
  feeds (SStart, regs0, acc) (print_clause c ++ rest) = feeds (SStart, regs0, rev (clause_toks c) ++ acc) rest.
Proof.
  intro H. unfold clause_ok in H. apply andb_true_iff in H as [H Hb]. apply andb_true_iff in H as [Hf Hk].
  fold (bok (s_boost c)) in Hb.
  rewrite print_clause_split. unfold clause_toks. rewrite <- !app_assoc.
  (* prefix *)
  assert (Hpre : exists pend, pend_ok pend /\
            (forall X, feeds (SStart, regs0, acc) (print_prefix (s_prefix c) ++ X) = feeds (S0 pend acc) X) /\
            ptok pend acc = rev (prefix_toks (s_prefix c)) ++ acc).
  { destruct (s_prefix c).
    - exists None. repeat split.
    - exists (Some 43). repeat split.
    - exists (Some 45). repeat split. }
  destruct Hpre as [pend1 [Hp1 [Hrun1 Htok1]]]. rewrite Hrun1.
  (* field *)
  assert (Hfld : exists pend acc2, pend_ok pend /\
            (forall X, feeds (S0 pend1 acc) ((match s_field c with [] => [] | f => f ++ [58] end) ++ X)
                       = feeds (S0 pend acc2) X) /\
            ptok pend acc2 = rev (field_toks (s_field c)) ++ ptok pend1 acc).
  { destruct (s_field c) as [|r0 f] eqn:Ef.
    - exists pend1, acc. repeat split. exact Hp1.
    - exists (Some 58), (Tok TSTRING (r0 :: f) :: ptok pend1 acc). repeat split.
      intro X. rewrite lift; [|exact Hp1|discriminate].
      rewrite <- app_assoc. cbn [app]. change (r0 :: f ++ 58 :: X) with ((r0 :: f) ++ 58 :: X).
      rewrite (L_word (r0 :: f) 58 _ X Hf eq_refl). reflexivity. }
  destruct Hfld as [pend2 [acc2 [Hp2 [Hrun2 Htok2]]]]. rewrite Hrun2.
  rewrite (lex_kind c pend2 acc2 rest Hp2 Hk Hb), Htok2, Htok1.
  rewrite !rev_app_distr, <- !app_assoc. reflexivity.
Qed.

Definition toks_all (cs : list sclause) : list token := concat (map clause_toks cs).

Lemma lex_print cs : forall acc, clauses_ok cs = true ->
  feeds (SStart, regs0, acc) (print cs) = Some (SStart, regs0, rev (toks_all cs) ++ acc).
Proof.
  induction cs as [|c cs IH]; intros acc H; [reflexivity|].
  unfold clauses_ok in H. cbn [forallb] in H. apply andb_true_iff in H as [Hc Hcs].
  unfold print, toks_all. cbn [map concat]. fold (print cs). fold (toks_all cs).
  rewrite (lex_clause c acc (print cs) Hc), (IH _ Hcs).
  rewrite rev_app_distr, <- app_assoc. reflexivity.
Qed.

Lemma lex_print_ok cs : clauses_ok cs = true -> lex (print cs) = LexOk (toks_all cs).
Proof.
  intro H. unfold lex, lconf0. rewrite (lex_print cs [] H). cbn. rewrite app_nil_r, rev_involutive. reflexivity.
Qed.

(* ================= scalars ================= *)
Lemma span_digits_app ds rest : all_digits ds = true ->
  match rest with [] => True | r :: _ => is_digit r = false end ->
  span_digits (ds ++ rest) = (ds, rest).
Proof.
  intros Hd Hr. induction ds as [|d ds IH]; cbn [app].
  - destruct rest as [|r rest]; [reflexivity|]. cbn [span_digits]. rewrite Hr. reflexivity.
  - unfold all_digits in Hd. cbn [forallb] in Hd. apply andb_true_iff in Hd as [H1 H2].
    cbn [span_digits]. rewrite H1, (IH H2). reflexivity.
Qed.

Lemma digits_dec_char ds : all_digits ds = true -> forallb dec_char ds = true.
Proof.
  unfold all_digits. induction ds as [|d ds IH]; cbn [forallb]; [reflexivity|].
  intro H. apply andb_true_iff in H as [H1 H2]. rewrite (IH H2), andb_true_r. unfold dec_char. rewrite H1. reflexivity.
Qed.

Lemma parse_float_print neg n : dec_ok n = true ->
  parse_float (print_sdec neg n) = match dec_bits neg n with Some v => PfOk v | None => PfErr end.
Proof.
  intro Hn. unfold dec_ok in Hn. apply andb_true_iff in Hn as [Hn Hf]. apply andb_true_iff in Hn as [Hne Hi].
  destruct n as [ip fp]. cbn [d_int d_frac] in *.
  destruct ip as [|r0 ip]; [discriminate|]. clear Hne.
  assert (H0 : is_digit r0 = true).
  { unfold all_digits in Hi. cbn [forallb] in Hi. apply andb_true_iff in Hi as [H _]. exact H. }
  (* every character is in the decimal alphabet *)
  assert (Hcs : forallb dec_char (print_sdec neg (Dec (r0 :: ip) fp)) = true).
  { unfold print_sdec, print_dec. cbn [d_int d_frac]. rewrite !forallb_app, (digits_dec_char _ Hi).
    destruct neg; destruct fp as [fp|]; cbn [forallb andb]; try rewrite (digits_dec_char _ Hf); reflexivity. }
  unfold parse_float. rewrite Hcs. clear Hcs.
  unfold parse_decimal.
  assert (Hsign : take_sign (print_sdec neg (Dec (r0 :: ip) fp)) = (neg, print_dec (Dec (r0 :: ip) fp))).
  { unfold print_sdec. destruct neg; [reflexivity|]. cbn [app]. unfold print_dec. cbn [d_int app take_sign].
    replace (r0 =? 43) with false by bz. replace (r0 =? 45) with false by bz. reflexivity. }
  rewrite Hsign. unfold print_dec. cbn [d_int d_frac].
  set (tail := match fp with Some f => 46 :: f | None => [] end).
  assert (Hspan : span_digits ((r0 :: ip) ++ tail) = (r0 :: ip, tail)).
  { apply span_digits_app; [exact Hi|]. unfold tail. destruct fp; [reflexivity|exact I]. }
  rewrite Hspan.
  unfold dec_bits. cbn [d_int d_frac].
  destruct fp as [fp|]; unfold tail.
  - rewrite Z.eqb_refl.
    assert (Hs2 : span_digits fp = (fp, [])).
    { rewrite <- (app_nil_r fp) at 1. apply span_digits_app; [exact Hf|exact I]. }
    rewrite Hs2. cbn [app]. rewrite Z.sub_0_l. destruct (dec_to_b64 _ _ _); reflexivity.
  - cbn [app]. rewrite app_nil_r. cbn [length Z.of_nat]. destruct (dec_to_b64 _ _ _); reflexivity.
Qed.

Lemma digit_cases d : is_digit d = true ->
  d = 48 \/ d = 49 \/ d = 50 \/ d = 51 \/ d = 52 \/ d = 53 \/ d = 54 \/ d = 55 \/ d = 56 \/ d = 57.
Proof. intro H. bz. Qed.

(* ================= semantic actions on the tokens of a printed clause ================= *)
Lemma act_string_match f w rest : regexp_shaped w = false -> has_wild w = false ->
  act_string f w rest = BOk (Node f (LMatch w 0) None) false rest.
Proof. intros H1 H2. unfold act_string. fold (regexp_shaped w). fold (has_wild w). rewrite H1, H2. reflexivity. Qed.

Lemma act_string_wild f w rest : regexp_shaped w = false -> has_wild w = true ->
  act_string f w rest = BOk (Node f (LWildcard w) None) false rest.
Proof. intros H1 H2. unfold act_string. fold (regexp_shaped w). fold (has_wild w). rewrite H1, H2. reflexivity. Qed.

Lemma act_string_regexp f r rest :
  act_string f (47 :: r ++ [47]) rest = BOk (Node f (LRegexp r) None) false rest.
Proof.
  unfold act_string.
  assert (H : has_prefix_slash (47 :: r ++ [47]) && has_suffix_slash (47 :: r ++ [47]) = true).
  { unfold has_suffix_slash. cbn [has_prefix_slash rev]. rewrite rev_app_distr. reflexivity. }
  rewrite H. cbn [tl]. rewrite removelast_last.
  destruct r; reflexivity.
Qed.

Lemma act_fuzzy_ok f w n rest : fuzz_ok n = true ->
  act_fuzzy f w (or1 n) rest =
  BOk (Node f (LMatch w (match n with [] => 1 | _ => digits_val n end)) None) false rest.
Proof.
  intro H. unfold act_fuzzy.
  destruct n as [|d [|]]; [| |discriminate].
  - reflexivity.
  - cbn [fuzz_ok] in H.
    destruct (digit_cases d H) as [->|[->|[->|[->|[->|[->|[->|[->|[->| ->]]]]]]]]]; reflexivity.
Qed.

Lemma act_number_ok f neg n v rest : dec_ok n = true -> dec_bits neg n = Some v ->
  act_number f (print_sdec neg n) rest = BOk (Node f (LNumOrMatch (print_sdec neg n) v) None) false rest.
Proof. intros Hn Hv. unfold act_number. rewrite (parse_float_print neg n Hn), Hv. reflexivity. Qed.

Lemma act_cmp_num_ok f g i neg n v rest : dec_ok n = true -> dec_bits neg n = Some v ->
  act_cmp_num f g i (print_sdec neg n) rest =
  BOk (Node f (if g then LNumRange (Some v) None (Some i) None else LNumRange None (Some v) None (Some i)) None) false rest.
Proof. intros Hn Hv. unfold act_cmp_num. rewrite (parse_float_print neg n Hn), Hv. reflexivity. Qed.

(* ================= grammar ================= *)
(* the next clause starts with one of these (or the input ends) *)
Definition starts_ok (ts : list token) : bool :=
  match ts with
  | [] => true
  | Tok k _ :: _ => match k with TPLUS | TMINUS | TSTRING | TNUMBER | TPHRASE => true | _ => false end
  end.
(* after the kind: optional boost, then the next clause *)
Definition follow_ok (ts : list token) : bool :=
  match ts with
  | [] => true
  | Tok k _ :: _ => match k with TPLUS | TMINUS | TSTRING | TNUMBER | TPHRASE | TBOOST => true | _ => false end
  end.

Ltac case_follow rest H :=
  destruct rest as [|[[] ?] ?]; try discriminate H.

Lemma op_operand_num f op neg n v rest : dec_ok n = true -> dec_bits neg n = Some v ->
  p_after_colon f (optoks op ++ numtoks neg n ++ rest) =
  BOk (Node f (if op_greater op then LNumRange (Some v) None (Some (op_incl op)) None
               else LNumRange None (Some v) None (Some (op_incl op))) None) false rest.
Proof.
  intros Hn Hv. unfold numtoks.
  destruct op; destruct neg; cbn [optoks app p_after_colon p_cmp p_operand op_greater op_incl];
    match goal with
    | |- act_cmp_num ?f' ?g ?i (45 :: print_dec n) ?r = _ => exact (act_cmp_num_ok f' g i true n v r Hn Hv)
    | |- act_cmp_num ?f' ?g ?i (print_dec n) ?r = _ => exact (act_cmp_num_ok f' g i false n v r Hn Hv)
    end.
Qed.

Lemma op_operand_date f op d t rest : parse_datetime d = DtOk t ->
  p_after_colon f (optoks op ++ [Tok TPHRASE d] ++ rest) =
  BOk (Node f (if op_greater op then LDateRange t zero_time_ns (Some (op_incl op)) None
               else LDateRange zero_time_ns t None (Some (op_incl op))) None) false rest.
Proof.
  intro Hd.
  destruct op; cbn [optoks app p_after_colon p_cmp p_operand op_greater op_incl]; unfold act_cmp_date; rewrite Hd; reflexivity.
Qed.

(* searchBase on the field and kind tokens of a clause *)
Lemma base_ok c l rest : clause_ok c = true -> denote_kind (s_kind c) = Some l -> follow_ok rest = true ->
  p_base (field_toks (s_field c) ++ kind_toks (s_kind c) ++ rest) = BOk (Node (s_field c) l None) false rest.
Proof.
  intros H Hd Hfo. unfold clause_ok in H. apply andb_true_iff in H as [H _]. apply andb_true_iff in H as [_ Hk].
  unfold skind_ok in Hk. destruct c as [pf f k ob]. cbn [s_kind s_boost s_field has_field] in *.
  destruct f as [|r0 f].
  - (* no field *)
    cbn [field_toks app].
    destruct k as [w|w n|p|r|w|neg n|op neg n|op d]; cbn [denote_kind] in Hd; cbn [kind_toks app].
    + apply andb_true_iff in Hk as [Hk H3]. apply andb_true_iff in Hk as [_ H2].
      apply negb_true_iff in H2, H3. injection Hd as <-.
      case_follow rest Hfo; cbn [p_base]; apply act_string_match; assumption.
    + apply andb_true_iff in Hk as [_ Hn]. injection Hd as <-. fold (fuzz_ok n) in Hn.
      cbn [p_base]. apply act_fuzzy_ok, Hn.
    + injection Hd as <-. case_follow rest Hfo; reflexivity.
    + injection Hd as <-. case_follow rest Hfo; cbn [p_base]; apply act_string_regexp.
    + apply andb_true_iff in Hk as [Hk H3]. apply andb_true_iff in Hk as [_ H2].
      apply negb_true_iff in H2. injection Hd as <-.
      case_follow rest Hfo; cbn [p_base]; apply act_string_wild; assumption.
    + apply andb_true_iff in Hk as [Hn Hneg]. destruct neg; [discriminate Hneg|].
      destruct (dec_bits false n) as [v|] eqn:Ev; [|discriminate]. injection Hd as <-.
      unfold numtoks. cbn [app p_base]. change (print_dec n) with (print_sdec false n) at 1.
      apply act_number_ok; assumption.
    + apply andb_true_iff in Hk as [_ Hx]. discriminate Hx.
    + apply andb_true_iff in Hk as [_ Hx]. discriminate Hx.
  - (* field:  *)
    cbn [field_toks app p_base].
    destruct k as [w|w n|p|r|w|neg n|op neg n|op d]; cbn [denote_kind] in Hd; cbn [kind_toks app].
    + apply andb_true_iff in Hk as [Hk H3]. apply andb_true_iff in Hk as [_ H2].
      apply negb_true_iff in H2, H3. injection Hd as <-.
      case_follow rest Hfo; cbn [p_after_colon]; apply act_string_match; assumption.
    + apply andb_true_iff in Hk as [_ Hn]. injection Hd as <-. fold (fuzz_ok n) in Hn.
      cbn [p_after_colon]. apply act_fuzzy_ok, Hn.
    + injection Hd as <-. reflexivity.
    + injection Hd as <-. case_follow rest Hfo; cbn [p_after_colon]; apply act_string_regexp.
    + apply andb_true_iff in Hk as [Hk H3]. apply andb_true_iff in Hk as [_ H2].
      apply negb_true_iff in H2. injection Hd as <-.
      case_follow rest Hfo; cbn [p_after_colon]; apply act_string_wild; assumption.
    + apply andb_true_iff in Hk as [Hn _].
      destruct (dec_bits neg n) as [v|] eqn:Ev; [|discriminate]. injection Hd as <-.
      unfold numtoks. destruct neg; cbn [app p_after_colon].
      * change (45 :: print_dec n) with (print_sdec true n). apply act_number_ok; assumption.
      * change (print_dec n) with (print_sdec false n) at 1. apply act_number_ok; assumption.
    + apply andb_true_iff in Hk as [Hn _].
      destruct (dec_bits neg n) as [v|] eqn:Ev; [|discriminate]. injection Hd as <-.
      rewrite <- app_assoc. apply op_operand_num; assumption.
    + destruct (parse_datetime d) as [t| |] eqn:Et; try discriminate. injection Hd as <-.
      rewrite <- app_assoc. apply (op_operand_date (r0 :: f) op d t rest Et).
Qed.

Lemma prefix_ok p ts : match p with PShould => match ts with Tok TPLUS _ :: _ | Tok TMINUS _ :: _ => False | _ => True end
                               | _ => True end ->
  p_prefix (prefix_toks p ++ ts) = (p, ts).
Proof.
  destruct p; cbn [prefix_toks app p_prefix]; try reflexivity.
  intro H. destruct ts as [|[[] ?] ?]; try reflexivity; contradiction.
Qed.

Lemma suffix_ok p n ob v rest : starts_ok rest = true ->
  match ob with Some b => dec_ok b = true /\ dec_bits false b = Some v | None => True end ->
  p_suffix p (BOk n false (boost_toks ob ++ rest)) =
  COk p (match ob with Some _ => set_boost n v | None => n end) false rest.
Proof.
  intros Hs Hb. destruct ob as [b|]; cbn [boost_toks app p_suffix].
  - destruct Hb as [Hok Hv]. change (print_dec b) with (print_sdec false b).
    rewrite (parse_float_print false b Hok), Hv. reflexivity.
  - destruct rest as [|[[] ?] ?]; try discriminate Hs; reflexivity.
Qed.

Lemma starts_follow rest ob : starts_ok rest = true -> follow_ok (boost_toks ob ++ rest) = true.
Proof.
  intro H. destruct ob; [reflexivity|]. cbn [boost_toks app].
  destruct rest as [|[[] ?] ?]; try discriminate H; reflexivity.
Qed.

(* the first token of a well-formed clause's field/kind part is not a prefix operator *)
Lemma no_prefix_clash c X : clause_ok c = true ->
  match field_toks (s_field c) ++ kind_toks (s_kind c) ++ X with
  | Tok TPLUS _ :: _ | Tok TMINUS _ :: _ => False
  | _ => True
  end.
Proof.
  intro H. unfold clause_ok in H. apply andb_true_iff in H as [H _]. apply andb_true_iff in H as [_ Hk].
  unfold skind_ok in Hk. destruct c as [pf f k ob]. cbn [s_kind s_field has_field] in *.
  destruct f as [|r0 f]; cbn [field_toks app]; [|exact I].
  destruct k as [w|w n|p|r|w|neg n|op neg n|op d]; cbn [kind_toks app]; try exact I.
  - apply andb_true_iff in Hk as [_ Hneg]. destruct neg; [discriminate|]. exact I.
  - apply andb_true_iff in Hk as [_ Hx]. discriminate Hx.
  - apply andb_true_iff in Hk as [_ Hx]. discriminate Hx.
Qed.

(* searchPart on the tokens of one printed clause *)
Lemma part_ok c p n rest : clause_ok c = true -> denote_clause c = Some (p, n) -> starts_ok rest = true ->
  p_part (clause_toks c ++ rest) = COk p n false rest.
Proof.
  intros Hc Hd Hs. unfold denote_clause in Hd.
  destruct (denote_kind (s_kind c)) as [l|] eqn:Ek; [|discriminate].
  unfold p_part, clause_toks. rewrite <- !app_assoc.
  rewrite prefix_ok.
  2:{ destruct (s_prefix c); try exact I. apply (no_prefix_clash c _ Hc). }
  rewrite (base_ok c l (boost_toks (s_boost c) ++ rest) Hc Ek (starts_follow rest _ Hs)).
  assert (Hbok : bok (s_boost c) = true).
  { unfold clause_ok in Hc. apply andb_true_iff in Hc as [_ Hb]. exact Hb. }
  destruct (s_boost c) as [b|] eqn:Eb.
  - destruct (dec_bits false b) as [v|] eqn:Ev; [|discriminate]. injection Hd as <- <-.
    rewrite (suffix_ok (s_prefix c) _ (Some b) v rest Hs); [reflexivity|]. split; [exact Hbok|exact Ev].
  - injection Hd as <- <-. rewrite (suffix_ok (s_prefix c) _ None 0 rest Hs I). reflexivity.
Qed.

Lemma clause_toks_nonempty c : clause_ok c = true ->
  exists t ts, clause_toks c = t :: ts /\ starts_ok (t :: ts) = true.
Proof.
  intro H. unfold clause_toks.
  destruct (s_prefix c); cbn [prefix_toks app]; try (eexists _, _; split; reflexivity).
  unfold clause_ok in H. apply andb_true_iff in H as [H _]. apply andb_true_iff in H as [_ Hk].
  unfold skind_ok in Hk. destruct c as [pf f k ob]. cbn [s_kind s_field has_field] in *.
  destruct f as [|r0 f]; cbn [field_toks app]; [|eexists _, _; split; reflexivity].
  destruct k as [w|w n|p|r|w|neg n|op neg n|op d]; cbn [kind_toks app]; try (eexists _, _; split; reflexivity).
  - unfold numtoks. destruct neg; cbn [app]; eexists _, _; split; reflexivity.
  - apply andb_true_iff in Hk as [_ Hx]. discriminate Hx.
  - apply andb_true_iff in Hk as [_ Hx]. discriminate Hx.
Qed.

Lemma toks_all_starts cs : clauses_ok cs = true -> starts_ok (toks_all cs) = true.
Proof.
  destruct cs as [|c cs]; [reflexivity|]. intro H. unfold clauses_ok in H. cbn [forallb] in H.
  apply andb_true_iff in H as [Hc _]. unfold toks_all. cbn [map concat].
  destruct (clause_toks_nonempty c Hc) as [t [ts [-> Hs]]]. cbn [app]. exact Hs.
Qed.

Lemma parts_ok cs : forall q0 q fuel, cs <> [] -> clauses_ok cs = true -> denote_from q0 cs = Some q ->
  (length (toks_all cs) < fuel)%nat ->
  p_parts fuel (toks_all cs) q0 false = POk q.
Proof.
  induction cs as [|c cs IH]; intros q0 q fuel Hne Hok Hd Hfuel; [contradiction|].
  unfold clauses_ok in Hok. cbn [forallb] in Hok. apply andb_true_iff in Hok as [Hc Hcs].
  fold (clauses_ok cs) in Hcs.
  cbn [denote_from] in Hd. destruct (denote_clause c) as [[p n]|] eqn:Edc; [|discriminate].
  unfold toks_all in *. cbn [map concat] in *. fold (toks_all cs) in *.
  destruct fuel as [|fuel]; [lia|]. cbn [p_parts].
  rewrite (part_ok c p n (toks_all cs) Hc Edc (toks_all_starts cs Hcs)). cbn [orb].
  destruct (clause_toks_nonempty c Hc) as [t [ts [Et _]]].
  destruct cs as [|c2 cs].
  - cbn [toks_all map concat]. cbn [denote_from] in Hd. injection Hd as <-. reflexivity.
  - assert (Hc2 : clause_ok c2 = true).
    { unfold clauses_ok in Hcs. cbn [forallb] in Hcs. apply andb_true_iff in Hcs as [H _]. exact H. }
    destruct (clause_toks_nonempty c2 Hc2) as [t2 [ts2 [Et2 _]]].
    assert (Hnz : toks_all (c2 :: cs) = t2 :: (ts2 ++ toks_all cs)).
    { unfold toks_all. cbn [map concat]. rewrite Et2. reflexivity. }
    rewrite Hnz. rewrite <- Hnz.
    apply IH; [discriminate|exact Hcs|exact Hd|].
    rewrite Et in Hfuel. rewrite app_length in Hfuel. cbn [length] in Hfuel. lia.
Qed.

Lemma print_nonempty c cs : print (c :: cs) <> [].
Proof.
  unfold print. cbn [map concat]. unfold print_clause. rewrite !app_assoc.
  intro H. apply app_eq_nil in H as [H _]. apply app_eq_nil in H as [_ H]. discriminate.
Qed.

(* qs_parse_print *)
Theorem qs_parse_print cs q :
  cs <> [] -> clauses_ok cs = true -> denote cs = Some q ->
  parse_qs (print cs) = POk q.
Proof.
  intros Hne Hok Hd. unfold parse_qs.
  destruct (print cs) eqn:Ep.
  { destruct cs as [|c cs]; [contradiction|]. exfalso. exact (print_nonempty c cs Ep). }
  rewrite <- Ep. rewrite (lex_print_ok cs Hok). unfold parse_tokens.
  apply parts_ok; try assumption. lia.
Qed.

(* the hypotheses are satisfiable on a non-trivial value:
   +title:quick^2 -"lazy dog" n:>=-1.5 when:<"2020-01-01T00:00:00.5Z" wat* /a.+/ beer~ 42 *)
Definition example_clauses : list sclause := [
  SClause PMust [116;105;116;108;101] (KMatch [113;117;105;99;107]) (Some (Dec [50] None));
  SClause PMustNot [] (KPhrase [108;97;122;121;32;100;111;103]) None;
  SClause PShould [110] (KCmp OGe true (Dec [49] (Some [53]))) None;
  SClause PShould [119;104;101;110] (KDate OLt [50;48;50;48;45;48;49;45;48;49;84;48;48;58;48;48;58;48;48;46;53;90]) None;
  SClause PShould [] (KWildcard [119;97;116;42]) None;
  SClause PShould [] (KRegexp [97;46;43]) None;
  SClause PShould [] (KFuzzy [98;101;101;114] []) (Some (Dec [49] (Some [53])));
  SClause PShould [] (KNumber false (Dec [52;50] None)) None ].

Example qs_parse_print_example :
  example_clauses <> [] /\ clauses_ok example_clauses = true /\
  exists q, denote example_clauses = Some q /\ parse_qs (print example_clauses) = POk q /\
            length (q_must q) = 1%nat /\ length (q_mustnot q) = 1%nat /\ length (q_should q) = 6%nat.
Proof.
  split; [discriminate|]. split; [vm_compute; reflexivity|].
  eexists. split; [vm_compute; reflexivity|]. split; [vm_compute; reflexivity|]. vm_compute. auto.
Qed.

(* parse_tokens never runs out of fuel: every searchPart consumes at least one token *)
Lemma p_base_shrinks ts n u rest : p_base ts = BOk n u rest -> (length rest < length ts)%nat.
Proof.
  unfold p_base, p_after_colon, p_cmp, p_operand, act_string, act_fuzzy, act_number, act_phrase, act_cmp_num, act_cmp_date.
  intro H.
  repeat match type of H with
         | context[match ?x with _ => _ end] => destruct x; try discriminate H
         end;
    injection H as _ _ <-; cbn [length]; lia.
Qed.

Lemma p_part_shrinks ts p n u rest : p_part ts = COk p n u rest -> (length rest < length ts)%nat.
Proof.
  unfold p_part. destruct (p_prefix ts) as [p0 ts1] eqn:Ep.
  assert (Hle : (length ts1 <= length ts)%nat).
  { unfold p_prefix in Ep. destruct ts as [|[[] ?] ?]; injection Ep as _ <-; cbn [length]; lia. }
  unfold p_suffix. destruct (p_base ts1) as [n0 u0 ts2|] eqn:Eb; [|discriminate].
  apply p_base_shrinks in Eb. intro H.
  destruct ts2 as [|[[] b] ts3]; try (injection H as _ _ _ <-; cbn [length] in *; lia).
  destruct (parse_float b); try discriminate H; injection H as _ _ _ <-; cbn [length] in *; lia.
Qed.

Lemma parts_never_stuck fuel : forall ts q u, (length ts < fuel)%nat -> p_parts fuel ts q u <> PStuck.
Proof.
  induction fuel as [|fuel IH]; intros ts q u Hlt; [lia|]. cbn [p_parts].
  destruct (p_part ts) as [p n u' rest|] eqn:Ep; [|discriminate].
  apply p_part_shrinks in Ep.
  destruct rest as [|t rest]; [destruct (u || u'); discriminate|].
  apply IH. lia.
Qed.

(* the transcribed parser accepts or rejects every rune list: no other outcome *)
Theorem parse_qs_total s :
  parse_qs s = PNone \/ (exists q, parse_qs s = POk q) \/ parse_qs s = PErr \/ parse_qs s = PUnm.
Proof.
  assert (H : parse_qs s <> PStuck).
  { unfold parse_qs. destruct s as [|r s]; [discriminate|].
    destruct (lex (r :: s)) eqn:El; [|discriminate|exfalso; exact (lex_never_stuck _ El)].
    unfold parse_tokens. apply parts_never_stuck. lia. }
  destruct (parse_qs s); eauto. contradiction.
Qed.
