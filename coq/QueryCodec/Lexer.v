(* QueryCodec engine — the query-string lexer.
   Transcription of the hand-written rune state machine in
   /repo/search/query/query_string_lex.go (queryStringLex.Lex and the seven lexState functions).

   Runes are Z (Unicode code points as produced by bufio.Reader.ReadRune: an invalid UTF-8 byte is
   the rune U+FFFD).  Token text is kept as a rune list (Go appends string(rune), i.e. the UTF-8
   encoding; decoding it again gives the same runes).

   Rune classes: [is_space] is unicode.IsSpace exactly (Latin-1 part and the White_Space table);
   [is_digit] is unicode.IsDigit exactly on ASCII and Latin-1 ('0'..'9'); beyond that the harness only
   feeds the model inputs whose non-ASCII runes are not decimal digits (category Nd). *)
From Coq Require Import ZArith List Bool Lia.
From Verif Require Import Common.Bytes.
Import ListNotations.
Local Open Scope Z_scope.

Notation rune := Z (only parsing).     (* a Unicode code point *)

Definition is_digit (r : rune) : bool := (48 <=? r) && (r <=? 57).

Definition is_space (r : rune) : bool :=
  ((9 <=? r) && (r <=? 13)) || (r =? 32) || (r =? 133) || (r =? 160) || (r =? 5760) ||
  ((8192 <=? r) && (r <=? 8202)) || (r =? 8232) || (r =? 8233) || (r =? 8239) || (r =? 8287) ||
  (r =? 12288).

Definition mem (r : rune) (l : list rune) : bool := existsb (Z.eqb r) l.

(* const reservedChars: + - = & | > < ! ( ) { } [ ] ^ dquote ~ * ? : backslash / space
   (T1: Obligations_C17.ob_reserved_chars re-checks the list against the source) *)
Definition reserved_chars : list rune :=
  [43;45;61;38;124;62;60;33;40;41;123;125;91;93;94;34;126;42;63;58;92;47;32].
Definition is_reserved (r : rune) : bool := mem r reserved_chars.

(* func unescape(escaped string) string: a reserved character is returned bare, any other keeps
   its backslash *)
Definition unescape (r : rune) : list rune := if is_reserved r then [r] else [92; r].

(* the tokens declared in query_string.y *)
Inductive tokkind :=
| TSTRING | TPHRASE | TPLUS | TMINUS | TCOLON | TBOOST | TNUMBER | TGREATER | TLESS | TEQUAL | TTILDE.

Record token := Tok { tkind : tokkind; ttext : list rune }.

Definition tokkind_code (k : tokkind) : Z :=
  match k with
  | TSTRING => 0 | TPHRASE => 1 | TPLUS => 2 | TMINUS => 3 | TCOLON => 4 | TBOOST => 5
  | TNUMBER => 6 | TGREATER => 7 | TLESS => 8 | TEQUAL => 9 | TTILDE => 10
  end.

Inductive lstate :=
| SStart | SInPhrase | SInStr | SInNumOrStr | SInBoost | SInTilde | SSingleCharOp.

(* queryStringLex registers that survive between state calls; the buffer is kept reversed *)
Record regs := Regs { rbuf : list rune; in_escape : bool; seen_dot : bool }.

Definition regs0 : regs := Regs [] false false.
Definition reset (_ : regs) : regs := regs0.                      (* func (l *queryStringLex) reset() *)
Definition push (r : rune) (rg : regs) : regs := Regs (r :: rbuf rg) (in_escape rg) (seen_dot rg).
Definition set_escape (rg : regs) : regs := Regs (rbuf rg) true (seen_dot rg).
Definition set_dot (rg : regs) : regs := Regs (rbuf rg) (in_escape rg) true.
(* l.inEscape = false; l.buf += unescape(string(next)) *)
Definition push_unescaped (r : rune) (rg : regs) : regs :=
  Regs (rev (unescape r) ++ rbuf rg) false (seen_dot rg).
Definition buf (rg : regs) : list rune := rev (rbuf rg).

(* the result of one call  l.currState(l, l.nextRune, l.atEOF) *)
Inductive step_res :=
| SR (next : option lstate) (consumed : bool) (rg : regs) (tok : option token)
| SRError      (* l.Error(...)  = panic, recovered in doParse: the whole parse is rejected *)
| SRWeird.     (* singleCharOpState entered with a buffer that is not one operator character *)

Definition is_op_char (r : rune) : bool := mem r [43;45;58;62;60;61].      (* + - : > < = *)
Definition ends_word (r : rune) : bool := mem r [32;58;94;126].           (* ' ' : ^ ~ *)
Definition pushed_back (r : rune) : bool := mem r [58;94;126].            (* : ^ ~ are not consumed *)

(* func startState *)
Definition step_start (rg : regs) (nx : option rune) : step_res :=
  match nx with
  | None => SR None false rg None
  | Some r =>
      if in_escape rg then SR (Some SInStr) true (push_unescaped r rg) None
      else if r =? 34 then SR (Some SInPhrase) true rg None
      else if is_op_char r then SR (Some SSingleCharOp) true (push r rg) None
      else if r =? 94 then SR (Some SInBoost) true rg None
      else if r =? 126 then SR (Some SInTilde) true rg None
      else if r =? 92 then SR (Some SStart) true (set_escape rg) None
      else if is_digit r then SR (Some SInNumOrStr) true (push r rg) None
      else if negb (is_space r) then SR (Some SInStr) true (push r rg) None
      else SR (Some SStart) true (reset rg) None
  end.

(* func inPhraseState *)
Definition step_phrase (rg : regs) (nx : option rune) : step_res :=
  match nx with
  | None => SRError                                   (* Error: unterminated quote *)
  | Some r =>
      if negb (in_escape rg) && (r =? 34) then SR (Some SStart) true (reset rg) (Some (Tok TPHRASE (buf rg)))
      else if negb (in_escape rg) && (r =? 92) then SR (Some SInPhrase) true (set_escape rg) None
      else if in_escape rg then SR (Some SInPhrase) true (push_unescaped r rg) None
      else SR (Some SInPhrase) true (push r rg) None
  end.

(* func singleCharOpState: looks only at l.buf; never consumes *)
Definition step_op (rg : regs) (nx : option rune) : step_res :=
  let k :=
    match buf rg with
    | [43] => Some TPLUS | [45] => Some TMINUS | [58] => Some TCOLON
    | [62] => Some TGREATER | [60] => Some TLESS | [61] => Some TEQUAL
    | _ => None
    end in
  match k with
  | Some k => SR (Some SStart) false (reset rg) (Some (Tok k []))
  | None => SRWeird
  end.

(* func inBoostState / inTildeState (same code, different token) *)
Definition or1 (b : list rune) : list rune := match b with [] => [49] | _ :: _ => b end.   (* if l.buf == "" { l.buf = "1" } *)

Definition step_until_space (k : tokkind) (self : lstate) (rg : regs) (nx : option rune) : step_res :=
  let fin := SR (Some SStart) true (reset rg) (Some (Tok k (or1 (buf rg)))) in
  match nx with
  | None => fin
  | Some r =>
      if negb (in_escape rg) && (r =? 32) then fin
      else if negb (in_escape rg) && (r =? 92) then SR (Some self) true (set_escape rg) None
      else if in_escape rg then SR (Some self) true (push_unescaped r rg) None
      else SR (Some self) true (push r rg) None
  end.

(* func inNumOrStrState *)
Definition step_num (rg : regs) (nx : option rune) : step_res :=
  let fin c := SR (Some SStart) c (reset rg) (Some (Tok TNUMBER (buf rg))) in
  match nx with
  | None => fin true
  | Some r =>
      if negb (in_escape rg) && ends_word r then fin (negb (pushed_back r))
      else if negb (in_escape rg) && (r =? 92) then SR (Some SInNumOrStr) true (set_escape rg) None
      else if in_escape rg then SR (Some SInStr) true (push_unescaped r rg) None
      else if negb (seen_dot rg) && (r =? 46) then SR (Some SInNumOrStr) true (push r (set_dot rg)) None
      else if is_digit r then SR (Some SInNumOrStr) true (push r rg) None
      else SR (Some SInStr) true (push r rg) None
  end.

(* func inStrState *)
Definition step_str (rg : regs) (nx : option rune) : step_res :=
  let fin c := SR (Some SStart) c (reset rg) (Some (Tok TSTRING (buf rg))) in
  match nx with
  | None => fin true
  | Some r =>
      if negb (in_escape rg) && ends_word r then fin (negb (pushed_back r))
      else if negb (in_escape rg) && (r =? 92) then SR (Some SInStr) true (set_escape rg) None
      else if in_escape rg then SR (Some SInStr) true (push_unescaped r rg) None
      else SR (Some SInStr) true (push r rg) None
  end.

Definition step (st : lstate) (rg : regs) (nx : option rune) : step_res :=
  match st with
  | SStart => step_start rg nx
  | SInPhrase => step_phrase rg nx
  | SInStr => step_str rg nx
  | SInNumOrStr => step_num rg nx
  | SInBoost => step_until_space TBOOST SInBoost rg nx
  | SInTilde => step_until_space TTILDE SInTilde rg nx
  | SSingleCharOp => step_op rg nx
  end.

(* ---- the driver: queryStringLex.Lex called until it returns 0 ----
   Lex reads a rune only when the previous state call consumed its rune.  A state that does not
   consume returns startState, which consumes: so one input rune costs at most two state calls.
   [feed] processes one input rune completely; a third call would be [None] (= stuck), which
   [lex_total] shows never happens. *)
Definition lconf := (lstate * regs * list token)%type.      (* tokens emitted so far, reversed *)

Definition emit (o : option token) (acc : list token) : list token :=
  match o with Some t => t :: acc | None => acc end.

Definition feed (s : lconf) (r : rune) : option lconf :=
  let '(st, rg, acc) := s in
  match step st rg (Some r) with
  | SR (Some st1) true rg1 o => Some (st1, rg1, emit o acc)
  | SR (Some st1) false rg1 o =>
      match step st1 rg1 (Some r) with
      | SR (Some st2) true rg2 o2 => Some (st2, rg2, emit o2 (emit o acc))
      | _ => None
      end
  | _ => None
  end.

Fixpoint feeds (s : lconf) (rs : list rune) : option lconf :=
  match rs with
  | [] => Some s
  | r :: rs' => match feed s r with Some s' => feeds s' rs' | None => None end
  end.

Inductive lex_result :=
| LexOk (ts : list token)
| LexErr (at_rune : Z)     (* the lexer raised an error after reading this many runes *)
| LexStuck.                (* not an outcome of the Go code; shown unreachable by lex_total *)

(* end of input: ReadRune keeps returning io.EOF; at most two more state calls *)
Definition at_eof (s : lconf) (pos : Z) : lex_result :=
  let '(st, rg, acc) := s in
  match step st rg None with
  | SR None _ _ o => LexOk (rev (emit o acc))
  | SR (Some st1) _ rg1 o =>
      match step st1 rg1 None with
      | SR None _ _ o2 => LexOk (rev (emit o2 (emit o acc)))
      | SRError => LexErr pos
      | _ => LexStuck
      end
  | SRError => LexErr pos
  | SRWeird => LexStuck
  end.

Definition lconf0 : lconf := (SStart, regs0, []).

Definition lex (inp : list rune) : lex_result :=
  match feeds lconf0 inp with
  | Some s => at_eof s (Z.of_nat (length inp))
  | None => LexStuck
  end.

(* ---- equality tests used by the correspondence check ---- *)
Definition rl_eqb : list rune -> list rune -> bool := beqb.
Definition token_eqb (a b : token) : bool :=
  (tokkind_code (tkind a) =? tokkind_code (tkind b)) && rl_eqb (ttext a) (ttext b).
