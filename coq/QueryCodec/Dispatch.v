(* QueryCodec engine — query.ParseQuery's choice of the concrete query type.
   /repo/search/query/query.go ParseQuery decodes the JSON object into map[string]interface{} and
   runs an ordered series of key tests; the first one that holds decides the Go type the bytes are
   decoded into.  The tests and the keys every query type marshals are DATA regenerated from the
   Go source (T1: Extracted.XQuery.tests / XQuery.emits); this file gives them their meaning. *)
From Coq Require Import ZArith List Bool Lia.
From Verif Require Import Common.Bytes.
Import ListNotations.
Local Open Scope Z_scope.

Definition key := bytes.
Definition qtype := bytes.          (* the Go type name, e.g. "MatchQuery" *)

(* JSON value kinds: 1 number, 2 string, 3 bool, 4 array, 5 object, 6 null.
   In a test, kind 0 = "key present" (_, ok := tmp[k]), 1 = tmp[k].(float64), 2 = tmp[k].(string).
   In an emit table, kind 0 = not determined by the Go field type (interface{}, custom marshaller). *)
Definition jkey := (key * Z)%type.

(* one literal of a test: (positive?, key, kind) *)
Definition lit := (bool * key * Z)%type.
(* a test: its condition in disjunctive normal form, and the type it selects *)
Definition keytest := (list (list lit) * qtype)%type.

Definition has_key (keys : list jkey) (k : key) (kd : Z) : bool :=
  existsb (fun jk => beqb k (fst jk) && ((kd =? 0) || (kd =? snd jk))) keys.

Definition lit_holds (keys : list jkey) (l : lit) : bool :=
  let '(pos, k, kd) := l in Bool.eqb pos (has_key keys k kd).

Definition cond_holds (keys : list jkey) (c : list (list lit)) : bool :=
  existsb (forallb (lit_holds keys)) c.

(* ParseQuery: the first test that holds *)
Fixpoint dispatch (tests : list keytest) (keys : list jkey) : option qtype :=
  match tests with
  | [] => None                                           (* "unknown query type" *)
  | (c, T) :: rest => if cond_holds keys c then Some T else dispatch rest keys
  end.

(* ---- what a query type marshals ---- *)
(* (key, kind, optional): optional = omitempty on a type that has an empty value, or a key a
   hand-written MarshalJSON adds conditionally *)
Definition emitkey := (key * Z * bool)%type.
Definition emit_table := list (qtype * list emitkey).

(* a DateRangeQuery marshals to the JSON form of a DateRangeStringQuery and is decoded as one
   (documented; its meaning is the same date range) *)
Definition DateRangeQuery : qtype := [68;97;116;101;82;97;110;103;101;81;117;101;114;121].
Definition DateRangeStringQuery : qtype :=
  [68;97;116;101;82;97;110;103;101;83;116;114;105;110;103;81;117;101;114;121].
Definition expected (T : qtype) : qtype := if beqb T DateRangeQuery then DateRangeStringQuery else T.

Fixpoint sublists {A} (l : list A) : list (list A) :=
  match l with
  | [] => [[]]
  | x :: l' => let r := sublists l' in map (cons x) r ++ r
  end.

(* the concrete kinds an emitted key of table kind kd can have *)
Definition kind_variants (kd : Z) : list Z := if kd =? 0 then [1;2;6] else [kd].

Fixpoint variants (ks : list emitkey) : list (list jkey) :=
  match ks with
  | [] => [[]]
  | (k, kd, _) :: ks' =>
      flat_map (fun rest => map (fun v => (k, v) :: rest) (kind_variants kd)) (variants ks')
  end.

(* every top-level key set a value of the type can marshal to *)
Definition keysets (ks : list emitkey) : list (list jkey) :=
  let req := filter (fun e => negb (snd e)) ks in
  let opt := filter (fun e => snd e) ks in
  flat_map (fun s => variants (req ++ s)) (sublists opt).

Fixpoint find_test (tests : list keytest) (T : qtype) : option (list (list lit)) :=
  match tests with
  | [] => None
  | (c, T') :: rest => if beqb T T' then Some c else find_test rest T
  end.

Definition oq_eqb : option qtype -> option qtype -> bool := option_eqb beqb.

(* the type's own test holds on the key set *)
Definition selects (tests : list keytest) (T : qtype) (K : list jkey) : bool :=
  match find_test tests T with Some c => cond_holds K c | None => false end.

Definition has_required (ks : list emitkey) : bool := existsb (fun e => negb (snd e)) ks.

(* For one type: on every key set it can marshal to, either its own test holds and then no earlier
   test fires (ParseQuery picks the type), or its own test does not hold and the type has no
   always-present key (range and boolean queries with nothing set: not valid queries). *)
Definition unambiguous_one (tests : list keytest) (e : qtype * list emitkey) : bool :=
  let '(T, ks) := e in
  forallb (fun K =>
             if selects tests (expected T) K
             then oq_eqb (dispatch tests K) (Some (expected T))
             else negb (has_required ks))
          (keysets ks).

Definition has_test (tests : list keytest) (T : qtype) : bool :=
  match find_test tests T with Some _ => true | None => false end.

(* all marshalable types that ParseQuery has a test for *)
Definition dispatch_unambiguous (tests : list keytest) (emits : emit_table) : bool :=
  forallb (fun e => negb (has_test tests (expected (fst e))) || unambiguous_one tests e) emits.

(* the types of the query family have a table and a test *)
Definition covered (tests : list keytest) (emits : emit_table) (family : list qtype) : bool :=
  forallb (fun T => existsb (fun e => beqb T (fst e)) emits && has_test tests (expected T)) family.

(* ---- T2: a real top-level key set is one the table allows ---- *)
Definition kind_ok (table actual : Z) : bool :=
  (table =? 0) || (table =? actual) || ((actual =? 6) && ((table =? 4) || (table =? 5) || (table =? 1))).

Fixpoint find_emit (emits : emit_table) (T : qtype) : option (list emitkey) :=
  match emits with
  | [] => None
  | (T', ks) :: rest => if beqb T T' then Some ks else find_emit rest T
  end.

Definition keys_consistent (emits : emit_table) (T : qtype) (keys : list jkey) : bool :=
  match find_emit emits T with
  | None => false
  | Some ks =>
      (* every real key is in the table with a compatible kind *)
      forallb (fun jk => existsb (fun e => beqb (fst jk) (fst (fst e)) && kind_ok (snd (fst e)) (snd jk)) ks) keys &&
      (* every always-present key is there *)
      forallb (fun e => snd e || existsb (fun jk => beqb (fst jk) (fst (fst e))) keys) ks
  end.

(* ---- the statement behind C17_query_dispatch_roundtrip ---- *)
Lemma dispatch_roundtrip tests emits T ks K :
  dispatch_unambiguous tests emits = true ->
  In (T, ks) emits ->
  In K (keysets ks) ->
  selects tests (expected T) K = true ->
  dispatch tests K = Some (expected T).
Proof.
  intros Hu Hin HK Hsel.
  unfold dispatch_unambiguous in Hu. rewrite forallb_forall in Hu.
  specialize (Hu _ Hin). cbn [fst] in Hu.
  assert (Ht : has_test tests (expected T) = true).
  { unfold has_test. unfold selects in Hsel. destruct (find_test tests (expected T)); [reflexivity|discriminate]. }
  rewrite Ht in Hu. cbn in Hu.
  unfold unambiguous_one in Hu. rewrite forallb_forall in Hu.
  specialize (Hu _ HK). rewrite Hsel in Hu.
  unfold oq_eqb, option_eqb in Hu.
  destruct (dispatch tests K) as [T'|]; [|discriminate].
  apply beqb_eq in Hu. congruence.
Qed.

(* a type with an always-present key is selected on every key set it marshals to *)
Lemma dispatch_roundtrip_required tests emits T ks K :
  dispatch_unambiguous tests emits = true ->
  In (T, ks) emits ->
  has_test tests (expected T) = true ->
  has_required ks = true ->
  In K (keysets ks) ->
  dispatch tests K = Some (expected T).
Proof.
  intros Hu Hin Ht Hreq HK.
  destruct (selects tests (expected T) K) eqn:Hsel.
  - eapply dispatch_roundtrip; eauto.
  - exfalso. unfold dispatch_unambiguous in Hu. rewrite forallb_forall in Hu.
    specialize (Hu _ Hin). cbn [fst] in Hu. rewrite Ht in Hu. cbn in Hu.
    unfold unambiguous_one in Hu. rewrite forallb_forall in Hu.
    specialize (Hu _ HK). rewrite Hsel, Hreq in Hu. discriminate.
Qed.
