(* QueryCodec engine — correspondence cases for C17: what the implementation returned on an input,
   checked against the executable model (lexer, grammar, documented-syntax denotation, dispatch
   over the regenerated ParseQuery tables). *)
From Coq Require Import ZArith List Bool.
From Verif Require Import Common.Bytes Extracted.Extracted
  QueryCodec.Lexer QueryCodec.Scalars QueryCodec.Grammar QueryCodec.Dispatch.
Import ListNotations.
Local Open Scope Z_scope.

(* what query.NewQueryStringQuery(s).Parse() returned, dumped as a neutral tree *)
Inductive itree :=
| IErr                  (* an error was returned *)
| INone                 (* *MatchNoneQuery *)
| IOk (q : bq)          (* the boolean query of NewBooleanQueryForQueryString *)
| IWeird.               (* a shape the dump does not know (never expected) *)

Inductive case :=
(* the real lexer alone (hook VerifLexQueryString): token kind codes and texts; None = lexer error *)
| CLex (inp : list rune) (impl : option (list (Z * list rune)))
(* arbitrary input *)
| CParse (inp : list rune) (impl : itree)
(* a string printed by the harness from a clause list of the documented grammar *)
(* [conf]: the harness built the list with conforming constructors only (and then also executed the
   parsed query against the directly constructed one) *)
| CGen (cs : list sclause) (inp : list rune) (conf : bool) (impl : itree)
(* every node of a marshalled query tree: its Go type and the top-level keys (with value kinds) of its JSON *)
| CDisp (nodes : list (bytes * list (bytes * Z))).

Definition optZ_eqb := option_eqb Z.eqb.
Definition optB_eqb := option_eqb Bool.eqb.

Definition leaf_eqb (a b : leaf) : bool :=
  match a, b with
  | LMatch t f, LMatch t' f' => rl_eqb t t' && (f =? f')
  | LMatchPhrase t, LMatchPhrase t' => rl_eqb t t'
  | LRegexp t, LRegexp t' => rl_eqb t t'
  | LWildcard t, LWildcard t' => rl_eqb t t'
  | LNumOrMatch t v, LNumOrMatch t' v' => rl_eqb t t' && (v =? v')
  | LNumRange a1 a2 a3 a4, LNumRange b1 b2 b3 b4 =>
      optZ_eqb a1 b1 && optZ_eqb a2 b2 && optB_eqb a3 b3 && optB_eqb a4 b4
  | LDateRange a1 a2 a3 a4, LDateRange b1 b2 b3 b4 =>
      (a1 =? b1) && (a2 =? b2) && optB_eqb a3 b3 && optB_eqb a4 b4
  | _, _ => false
  end.

Definition node_eqb (a b : node) : bool :=
  rl_eqb (n_field a) (n_field b) && leaf_eqb (n_leaf a) (n_leaf b) && optZ_eqb (n_boost a) (n_boost b).

Definition bq_eqb (a b : bq) : bool :=
  list_eqb node_eqb (q_must a) (q_must b) && list_eqb node_eqb (q_should a) (q_should b) &&
  list_eqb node_eqb (q_mustnot a) (q_mustnot b).

(* model outcome vs implementation outcome *)
Definition agree (m : presult) (i : itree) : bool :=
  match m, i with
  | PNone, INone => true
  | POk q, IOk q' => bq_eqb q q'
  | PErr, IErr => true
  | PUnm, IErr => true           (* scalar text outside the modelled sublanguage: either outcome, *)
  | PUnm, IOk _ => true          (* but a well-shaped one *)
  | _, _ => false
  end.

Definition tok_pair (t : token) : Z * list rune := (tokkind_code (tkind t), ttext t).
Definition pair_eqb (a b : Z * list rune) : bool := (fst a =? fst b) && rl_eqb (snd a) (snd b).

Definition check (c : case) : bool :=
  match c with
  | CLex inp impl =>
      match lex inp with
      | LexOk ts => option_eqb (list_eqb pair_eqb) (Some (map tok_pair ts)) impl
      | LexErr _ => match impl with None => true | Some _ => false end
      | LexStuck => false
      end
  | CParse inp impl => agree (parse_qs inp) impl
  | CGen cs inp conf impl =>
      (* the harness printed the clause list as the model's printer does *)
      rl_eqb (print cs) inp &&
      (* what the harness calls conforming satisfies the side condition of qs_parse_print *)
      implb conf (clauses_ok cs) &&
      (* the model's parse agrees with the implementation *)
      agree (parse_qs inp) impl &&
      (* and, where the documented syntax gives the clause list a meaning, that is what was parsed *)
      match denote cs with
      | Some q => if clauses_ok cs then agree (POk q) impl else true
      | None => true
      end
  | CDisp nodes =>
      forallb (fun n => let '(T, keys) := n in
                 oq_eqb (dispatch XQuery.tests keys) (Some (expected T)) && keys_consistent XQuery.emits T keys)
              nodes
  end.

(* what the model expected, for replay files *)
Inductive expl :=
| ELex (r : lex_result)
| EParse (r : presult)
| EGen (printed : list rune) (r : presult) (d : option bq) (ok : bool)
| EDisp (r : list (option qtype * bool)).

Definition explain (c : case) : expl :=
  match c with
  | CLex inp _ => ELex (lex inp)
  | CParse inp _ => EParse (parse_qs inp)
  | CGen cs inp _ _ => EGen (print cs) (parse_qs inp) (denote cs) (clauses_ok cs)
  | CDisp nodes => EDisp (map (fun n => (dispatch XQuery.tests (snd n), keys_consistent XQuery.emits (fst n) (snd n))) nodes)
  end.
