(* QueryCodec engine — lexing the printed form of a clause of the documented grammar:
   [lex_clause]: from the start state, the runes of [print_clause c] produce exactly
   [clause_toks c] and leave the lexer in the start state. *)
From Coq Require Import ZArith List Bool Lia ZifyBool.
From Verif Require Import Common.Bytes QueryCodec.Lexer QueryCodec.Scalars QueryCodec.Grammar.
Import ListNotations.
Local Open Scope Z_scope.

Ltac split_ifs :=
  repeat match goal with
         | |- context[if ?b then _ else _] => let E := fresh "E" in destruct b eqn:E
         end.
Ltac bz :=
  unfold start_ok, body_ok, is_digit, is_space, is_op_char, ends_word, pushed_back, mem, existsb in *; lia.

Lemma feeds_app s a b :
  feeds s (a ++ b) = match feeds s a with Some s' => feeds s' b | None => None end.
Proof.
  revert s; induction a as [|r a IH]; intro s; cbn [feeds app]; [reflexivity|].
  destruct (feed s r); [apply IH|reflexivity].
Qed.

(* ---- "start-like" configurations: the start state, possibly with one operator character whose
   token singleCharOpState emits at the next rune ---- *)
Definition optok (c : rune) : tokkind :=
  if c =? 43 then TPLUS else if c =? 45 then TMINUS else if c =? 58 then TCOLON
  else if c =? 62 then TGREATER else if c =? 60 then TLESS else TEQUAL.

Definition S0 (pend : option rune) (acc : list token) : lconf :=
  match pend with
  | None => (SStart, regs0, acc)
  | Some c => (SSingleCharOp, Regs [c] false false, acc)
  end.
Definition ptok (pend : option rune) (acc : list token) : list token :=
  match pend with None => acc | Some c => Tok (optok c) [] :: acc end.
Definition pend_ok (pend : option rune) : Prop :=
  match pend with None => True | Some c => is_op_char c = true end.

Lemma op_cases c : is_op_char c = true -> c = 43 \/ c = 45 \/ c = 58 \/ c = 62 \/ c = 60 \/ c = 61.
Proof. intro H. bz. Qed.

(* startState consumes any rune *)
Lemma start_consumes r :
  exists st rg, step_start regs0 (Some r) = SR (Some st) true rg None.
Proof. unfold step_start. cbn [in_escape regs0]. split_ifs; eexists _, _; reflexivity. Qed.

Lemma feed_S0 pend acc r : pend_ok pend -> feed (S0 pend acc) r = feed (SStart, regs0, ptok pend acc) r.
Proof.
  destruct pend as [c|]; [|reflexivity]. intro H. cbn [S0 ptok].
  destruct (start_consumes r) as [st [rg Hs]].
  unfold feed. cbn [step].
  destruct (op_cases c H) as [ -> | [ -> | [ -> | [ -> | [ -> | -> ] ] ] ] ];
    unfold step_op, buf, reset; cbn [rbuf rev app optok Z.eqb Pos.eqb step]; rewrite Hs; reflexivity.
Qed.

Lemma feeds_S0 pend acc r rs : pend_ok pend ->
  feeds (S0 pend acc) (r :: rs) = feeds (SStart, regs0, ptok pend acc) (r :: rs).
Proof. intro H. cbn [feeds]. rewrite (feed_S0 pend acc r H). reflexivity. Qed.

(* ---- single runes at the start state ---- *)
Lemma start_op c acc : is_op_char c = true -> feed (SStart, regs0, acc) c = Some (S0 (Some c) acc).
Proof.
  intro H. destruct (op_cases c H) as [ -> | [ -> | [ -> | [ -> | [ -> | -> ] ] ] ] ]; reflexivity.
Qed.

Lemma start_word_char r acc : start_ok r = true ->
  feed (SStart, regs0, acc) r = Some (SInStr, Regs [r] false false, acc).
Proof.
  intro H. unfold feed. cbn [step]. unfold step_start. cbn [in_escape regs0].
  split_ifs; try reflexivity; exfalso; bz.
Qed.

Lemma start_digit r acc : is_digit r = true ->
  feed (SStart, regs0, acc) r = Some (SInNumOrStr, Regs [r] false false, acc).
Proof.
  intro H. unfold feed. cbn [step]. unfold step_start. cbn [in_escape regs0].
  split_ifs; try reflexivity; exfalso; bz.
Qed.

(* ---- where a word / number terminator leads ---- *)
Definition aft (t : rune) (acc : list token) : lconf :=
  if t =? 32 then (SStart, regs0, acc)
  else if t =? 58 then (SSingleCharOp, Regs [58] false false, acc)
  else if t =? 94 then (SInBoost, regs0, acc)
  else (SInTilde, regs0, acc).

Lemma ends_cases t : ends_word t = true -> t = 32 \/ t = 58 \/ t = 94 \/ t = 126.
Proof. intro H. bz. Qed.

Lemma instr_body w : forall rb sd acc, forallb body_ok w = true ->
  feeds (SInStr, Regs rb false sd, acc) w = Some (SInStr, Regs (rev w ++ rb) false sd, acc).
Proof.
  induction w as [|r w IH]; intros rb sd acc H; [reflexivity|].
  cbn [forallb] in H. apply andb_true_iff in H as [Hr Hw].
  cbn [feeds].
  assert (Hf : feed (SInStr, Regs rb false sd, acc) r = Some (SInStr, Regs (r :: rb) false sd, acc)).
  { unfold feed. cbn [step]. unfold step_str. cbn [in_escape negb andb].
    split_ifs; try reflexivity; exfalso; bz. }
  rewrite Hf, IH by exact Hw. cbn [rev]. rewrite <- app_assoc. reflexivity.
Qed.

Lemma instr_end t rb sd acc : ends_word t = true ->
  feed (SInStr, Regs rb false sd, acc) t = Some (aft t (Tok TSTRING (rev rb) :: acc)).
Proof.
  intro H. destruct (ends_cases t H) as [ -> | [ -> | [ -> | -> ] ] ]; reflexivity.
Qed.

Lemma num_digits w : forall rb sd acc, all_digits w = true ->
  feeds (SInNumOrStr, Regs rb false sd, acc) w = Some (SInNumOrStr, Regs (rev w ++ rb) false sd, acc).
Proof.
  induction w as [|r w IH]; intros rb sd acc H; [reflexivity|].
  unfold all_digits in H. cbn [forallb] in H. apply andb_true_iff in H as [Hr Hw].
  cbn [feeds].
  assert (Hf : feed (SInNumOrStr, Regs rb false sd, acc) r = Some (SInNumOrStr, Regs (r :: rb) false sd, acc)).
  { unfold feed. cbn [step]. unfold step_num. cbn [in_escape seen_dot negb andb].
    split_ifs; try reflexivity; exfalso; bz. }
  rewrite Hf, IH by exact Hw. cbn [rev]. rewrite <- app_assoc. reflexivity.
Qed.

Lemma num_dot rb acc :
  feed (SInNumOrStr, Regs rb false false, acc) 46 = Some (SInNumOrStr, Regs (46 :: rb) false true, acc).
Proof. reflexivity. Qed.

Lemma num_end t rb sd acc : ends_word t = true ->
  feed (SInNumOrStr, Regs rb false sd, acc) t = Some (aft t (Tok TNUMBER (rev rb) :: acc)).
Proof.
  intro H. destruct (ends_cases t H) as [ -> | [ -> | [ -> | -> ] ] ]; reflexivity.
Qed.

(* ---- atoms ---- *)
Lemma L_word w t acc rest : word_ok w = true -> ends_word t = true ->
  feeds (SStart, regs0, acc) (w ++ t :: rest) = feeds (aft t (Tok TSTRING w :: acc)) rest.
Proof.
  intros Hw Ht. destruct w as [|r0 w]; [discriminate|].
  unfold word_ok in Hw. apply andb_true_iff in Hw as [H0 Hb]. cbn [forallb] in Hb.
  apply andb_true_iff in Hb as [_ Hb].
  cbn [app feeds]. rewrite (start_word_char r0 acc H0).
  rewrite feeds_app, (instr_body w [r0] false acc Hb). cbn [feeds].
  rewrite (instr_end t _ false acc Ht).
  rewrite rev_app_distr, rev_involutive. reflexivity.
Qed.

Lemma L_num n t acc rest : dec_ok n = true -> ends_word t = true ->
  feeds (SStart, regs0, acc) (print_dec n ++ t :: rest) = feeds (aft t (Tok TNUMBER (print_dec n) :: acc)) rest.
Proof.
  intros Hn Ht. unfold dec_ok in Hn. apply andb_true_iff in Hn as [Hn Hf]. apply andb_true_iff in Hn as [Hne Hi].
  destruct n as [ip fp]. cbn [d_int d_frac] in *. unfold print_dec. cbn [d_int d_frac].
  destruct ip as [|r0 ip]; [discriminate|].
  unfold all_digits in Hi. cbn [forallb] in Hi. apply andb_true_iff in Hi as [H0 Hi].
  cbn [app feeds]. rewrite (start_digit r0 acc H0).
  rewrite <- app_assoc, feeds_app, (num_digits ip [r0] false acc Hi).
  destruct fp as [fp|].
  - cbn [app feeds]. rewrite num_dot. rewrite feeds_app, (num_digits fp _ true acc Hf). cbn [feeds].
    rewrite (num_end t _ true acc Ht). f_equal. f_equal. f_equal. f_equal.
    rewrite rev_app_distr. cbn [rev app]. rewrite rev_app_distr, !rev_involutive. cbn [rev app].
    rewrite <- app_assoc. reflexivity.
  - cbn [app feeds]. rewrite (num_end t _ false acc Ht).
    rewrite rev_app_distr, rev_involutive, app_nil_r. reflexivity.
Qed.

Lemma phrase_body p : forall rb acc, phrase_ok p = true ->
  feeds (SInPhrase, Regs rb false false, acc) p = Some (SInPhrase, Regs (rev p ++ rb) false false, acc).
Proof.
  induction p as [|r p IH]; intros rb acc H; [reflexivity|].
  unfold phrase_ok in H. cbn [forallb] in H. apply andb_true_iff in H as [Hr Hp].
  cbn [feeds].
  assert (Hf : feed (SInPhrase, Regs rb false false, acc) r = Some (SInPhrase, Regs (r :: rb) false false, acc)).
  { unfold feed. cbn [step]. unfold step_phrase. cbn [in_escape negb andb].
    split_ifs; try reflexivity; exfalso; lia. }
  rewrite Hf, IH by exact Hp. cbn [rev]. rewrite <- app_assoc. reflexivity.
Qed.

Lemma L_phrase p acc rest : phrase_ok p = true ->
  feeds (SStart, regs0, acc) (34 :: p ++ 34 :: rest) = feeds (SStart, regs0, Tok TPHRASE p :: acc) rest.
Proof.
  intro Hp. cbn [feeds]. change (feed (SStart, regs0, acc) 34) with (Some (SInPhrase, regs0, acc)).
  cbv iota. rewrite feeds_app. unfold regs0 at 1. rewrite (phrase_body p [] acc Hp). cbn [feeds].
  change (feed (SInPhrase, Regs (rev p ++ []) false false, acc) 34)
    with (Some (SStart, regs0, Tok TPHRASE (rev (rev p ++ [])) :: acc)).
  cbv iota. rewrite app_nil_r, rev_involutive. reflexivity.
Qed.

(* boost / tilde text: anything but space and backslash, up to the next space *)
Definition until_ok (b : list rune) : bool := forallb (fun r => negb (r =? 32) && negb (r =? 92)) b.

Lemma until_body k self b : forall rb acc, until_ok b = true ->
  (self = SInBoost /\ k = TBOOST) \/ (self = SInTilde /\ k = TTILDE) ->
  feeds (self, Regs rb false false, acc) b = Some (self, Regs (rev b ++ rb) false false, acc).
Proof.
  intros rb acc H Hs. revert rb acc H.
  induction b as [|r b IH]; intros rb acc H; [reflexivity|].
  unfold until_ok in H. cbn [forallb] in H. apply andb_true_iff in H as [Hr Hb].
  cbn [feeds].
  assert (Hf : feed (self, Regs rb false false, acc) r = Some (self, Regs (r :: rb) false false, acc)).
  { unfold feed. destruct Hs as [[-> ->]|[-> ->]]; cbn [step]; unfold step_until_space; cbn [in_escape negb andb];
      split_ifs; try reflexivity; exfalso; lia. }
  rewrite Hf, IH by exact Hb. cbn [rev]. rewrite <- app_assoc. reflexivity.
Qed.

Lemma L_boost b acc rest : until_ok b = true ->
  feeds (SInBoost, regs0, acc) (b ++ 32 :: rest) = feeds (SStart, regs0, Tok TBOOST (or1 b) :: acc) rest.
Proof.
  intro H. rewrite feeds_app. unfold regs0 at 1.
  rewrite (until_body TBOOST SInBoost b [] acc H) by (left; auto). cbn [feeds].
  rewrite app_nil_r.
  change (feed (SInBoost, Regs (rev b) false false, acc) 32)
    with (Some (SStart, regs0, Tok TBOOST (or1 (rev (rev b))) :: acc)).
  cbv iota. rewrite rev_involutive. reflexivity.
Qed.

Lemma L_tilde b acc rest : until_ok b = true ->
  feeds (SInTilde, regs0, acc) (b ++ 32 :: rest) = feeds (SStart, regs0, Tok TTILDE (or1 b) :: acc) rest.
Proof.
  intro H. rewrite feeds_app. unfold regs0 at 1.
  rewrite (until_body TTILDE SInTilde b [] acc H) by (right; auto). cbn [feeds].
  rewrite app_nil_r.
  change (feed (SInTilde, Regs (rev b) false false, acc) 32)
    with (Some (SStart, regs0, Tok TTILDE (or1 (rev (rev b))) :: acc)).
  cbv iota. rewrite rev_involutive. reflexivity.
Qed.

Lemma digits_until_ok ds : all_digits ds = true -> until_ok ds = true.
Proof.
  unfold all_digits, until_ok. induction ds as [|d ds IH]; cbn [forallb]; [reflexivity|].
  intro H. apply andb_true_iff in H as [Hd Hs]. rewrite (IH Hs), andb_true_r. bz.
Qed.

Lemma until_ok_app a b : until_ok (a ++ b) = until_ok a && until_ok b.
Proof. unfold until_ok. apply forallb_app. Qed.

Lemma dec_until_ok n : dec_ok n = true -> until_ok (print_dec n) = true /\ or1 (print_dec n) = print_dec n.
Proof.
  intro Hn. unfold dec_ok in Hn. apply andb_true_iff in Hn as [Hn Hf]. apply andb_true_iff in Hn as [Hne Hi].
  destruct n as [ip fp]. cbn [d_int d_frac] in *. unfold print_dec. cbn [d_int d_frac]. split.
  - rewrite until_ok_app, (digits_until_ok ip Hi). cbn [andb].
    destruct fp as [fp|]; [|reflexivity].
    change (until_ok (46 :: fp)) with (until_ok fp). apply digits_until_ok, Hf.
  - destruct ip; [discriminate|reflexivity].
Qed.

(* ---- the tokens of a printed clause ---- *)
Definition prefix_toks (p : prefix) : list token :=
  match p with PShould => [] | PMust => [Tok TPLUS []] | PMustNot => [Tok TMINUS []] end.
Definition field_toks (f : list rune) : list token :=
  match f with [] => [] | _ => [Tok TSTRING f; Tok TCOLON []] end.
Definition optoks (op : cmpop) : list token :=
  match op with
  | OGt => [Tok TGREATER []] | OGe => [Tok TGREATER []; Tok TEQUAL []]
  | OLt => [Tok TLESS []] | OLe => [Tok TLESS []; Tok TEQUAL []]
  end.
Definition numtoks (neg : bool) (n : dec) : list token :=
  (if neg then [Tok TMINUS []] else []) ++ [Tok TNUMBER (print_dec n)].
Definition kind_toks (k : skind) : list token :=
  match k with
  | KMatch w => [Tok TSTRING w]
  | KWildcard w => [Tok TSTRING w]
  | KFuzzy w n => [Tok TSTRING w; Tok TTILDE (or1 n)]
  | KPhrase p => [Tok TPHRASE p]
  | KRegexp r => [Tok TSTRING (47 :: r ++ [47])]
  | KNumber neg n => numtoks neg n
  | KCmp op neg n => optoks op ++ numtoks neg n
  | KDate op d => optoks op ++ [Tok TPHRASE d]
  end.
Definition boost_toks (ob : option dec) : list token :=
  match ob with Some b => [Tok TBOOST (print_dec b)] | None => [] end.
Definition clause_toks (c : sclause) : list token :=
  prefix_toks (s_prefix c) ++ field_toks (s_field c) ++ kind_toks (s_kind c) ++ boost_toks (s_boost c).

(* what follows the kind: optional boost, then the space *)
Definition suffix_nf (ob : option dec) : list rune :=
  match ob with Some b => 94 :: print_dec b ++ [32] | None => [32] end.
Definition bok (ob : option dec) : bool := match ob with Some b => dec_ok b | None => true end.

Lemma lift pend acc l : pend_ok pend -> l <> [] ->
  feeds (S0 pend acc) l = feeds (SStart, regs0, ptok pend acc) l.
Proof. intros H Hl. destruct l as [|r l]; [contradiction|]. apply feeds_S0, H. Qed.

Lemma L_op c pend acc rest : is_op_char c = true -> pend_ok pend ->
  feeds (S0 pend acc) (c :: rest) = feeds (S0 (Some c) (ptok pend acc)) rest.
Proof.
  intros Hc Hp. rewrite (feeds_S0 pend acc c rest Hp). cbn [feeds]. rewrite (start_op c _ Hc). reflexivity.
Qed.

Lemma boost_tail ob acc rest : bok ob = true ->
  (* state reached after an atom whose terminator was the head of suffix_nf ob *)
  feeds (aft (hd 32 (suffix_nf ob)) acc) (tl (suffix_nf ob) ++ rest) =
  feeds (SStart, regs0, rev (boost_toks ob) ++ acc) rest.
Proof.
  intro Hb. destruct ob as [b|]; cbn [suffix_nf hd tl boost_toks rev app].
  - destruct (dec_until_ok b Hb) as [Hu Ho].
    change (aft 94 acc) with (SInBoost, regs0, acc).
    rewrite <- app_assoc. cbn [app]. rewrite (L_boost (print_dec b) acc rest Hu), Ho. reflexivity.
  - reflexivity.
Qed.

Lemma suffix_split ob rest : suffix_nf ob ++ rest = hd 32 (suffix_nf ob) :: (tl (suffix_nf ob) ++ rest).
Proof. destruct ob; reflexivity. Qed.

Lemma suffix_ends ob : ends_word (hd 32 (suffix_nf ob)) = true.
Proof. destruct ob; reflexivity. Qed.

Lemma L_word_suffix w ob acc rest : word_ok w = true -> bok ob = true ->
  feeds (SStart, regs0, acc) (w ++ suffix_nf ob ++ rest) =
  feeds (SStart, regs0, rev (boost_toks ob) ++ Tok TSTRING w :: acc) rest.
Proof.
  intros Hw Hb. rewrite suffix_split, (L_word w _ acc _ Hw (suffix_ends ob)). apply boost_tail, Hb.
Qed.

Lemma L_num_suffix n ob acc rest : dec_ok n = true -> bok ob = true ->
  feeds (SStart, regs0, acc) (print_dec n ++ suffix_nf ob ++ rest) =
  feeds (SStart, regs0, rev (boost_toks ob) ++ Tok TNUMBER (print_dec n) :: acc) rest.
Proof.
  intros Hn Hb. rewrite suffix_split, (L_num n _ acc _ Hn (suffix_ends ob)). apply boost_tail, Hb.
Qed.

Lemma start_suffix ob acc rest : bok ob = true ->
  feeds (SStart, regs0, acc) (suffix_nf ob ++ rest) = feeds (SStart, regs0, rev (boost_toks ob) ++ acc) rest.
Proof.
  intro Hb. rewrite suffix_split. cbn [feeds].
  assert (Hf : feed (SStart, regs0, acc) (hd 32 (suffix_nf ob)) = Some (aft (hd 32 (suffix_nf ob)) acc))
    by (destruct ob; reflexivity).
  rewrite Hf. apply boost_tail, Hb.
Qed.

Lemma L_phrase_suffix p ob acc rest : phrase_ok p = true -> bok ob = true ->
  feeds (SStart, regs0, acc) (34 :: p ++ 34 :: suffix_nf ob ++ rest) =
  feeds (SStart, regs0, rev (boost_toks ob) ++ Tok TPHRASE p :: acc) rest.
Proof. intros Hp Hb. rewrite (L_phrase p acc _ Hp). apply start_suffix, Hb. Qed.

Lemma regexp_word_ok r : forallb body_ok r = true -> word_ok (47 :: r ++ [47]) = true.
Proof.
  intro H. unfold word_ok. cbn [forallb]. rewrite forallb_app, H. reflexivity.
Qed.

(* the suffix as print_clause writes it *)
Definition suffix (k : skind) (ob : option dec) : list rune :=
  match ob with Some b => boost_gap k ++ 94 :: print_dec b | None => [] end ++ [32].

Lemma suffix_nonfuzzy k ob : (forall w n, k <> KFuzzy w n) -> suffix k ob = suffix_nf ob.
Proof.
  intro H. unfold suffix, suffix_nf. destruct ob as [b|]; [|reflexivity].
  destruct k; try (cbn [boost_gap app]; rewrite <- ?app_comm_cons; reflexivity).
  exfalso. eapply H. reflexivity.
Qed.

Definition fuzz_ok (n : list rune) : bool := match n with [] => true | [d] => is_digit d | _ => false end.

Ltac op_step c := erewrite (L_op c); [ | reflexivity | first [eassumption | reflexivity] ].

(* kind + suffix from a start-like configuration *)
Lemma lex_kind c pend acc rest : pend_ok pend -> skind_ok c = true -> bok (s_boost c) = true ->
  feeds (S0 pend acc) (print_kind (s_kind c) ++ suffix (s_kind c) (s_boost c) ++ rest) =
  feeds (SStart, regs0, rev (kind_toks (s_kind c) ++ boost_toks (s_boost c)) ++ ptok pend acc) rest.
Proof.
  intros Hp Hk Hb. unfold skind_ok in Hk. destruct c as [pf f k ob]. cbn [s_kind s_boost s_field has_field] in *.
  rewrite rev_app_distr, <- app_assoc.
  destruct k as [w|w n|p|r|w|neg n|op neg n|op d].
  - (* KMatch *)
    apply andb_true_iff in Hk as [Hk _]. apply andb_true_iff in Hk as [Hw _].
    rewrite suffix_nonfuzzy by discriminate. cbn [print_kind kind_toks rev app].
    rewrite lift; [|exact Hp|destruct w; [discriminate|discriminate]].
    apply L_word_suffix; assumption.
  - (* KFuzzy *)
    apply andb_true_iff in Hk as [Hw Hn]. cbn [print_kind kind_toks rev app].
    rewrite lift; [|exact Hp|destruct w; [discriminate|discriminate]].
    rewrite <- app_assoc. cbn [app].
    rewrite (L_word w 126 _ _ Hw eq_refl). change (aft 126 ?a) with (SInTilde, regs0, a).
    assert (Hu : until_ok n = true).
    { destruct n as [|d [|]]; [reflexivity| |discriminate]. unfold until_ok. cbn [forallb]. rewrite andb_true_r. bz. }
    unfold suffix. destruct ob as [b|]; cbn [boost_gap app boost_toks rev].
    + rewrite (L_tilde n _ _ Hu). destruct (dec_until_ok b Hb) as [Hub Ho].
      cbn [feeds]. change (feed (SStart, regs0, ?a) 94) with (Some (SInBoost, regs0, a)). cbv iota.
      rewrite <- app_assoc. cbn [app]. rewrite (L_boost (print_dec b) _ rest Hub), Ho. reflexivity.
    + rewrite (L_tilde n _ _ Hu). reflexivity.
  - (* KPhrase *)
    rewrite suffix_nonfuzzy by discriminate. cbn [print_kind kind_toks rev app].
    rewrite lift; [|exact Hp|discriminate].
    rewrite <- app_assoc. cbn [app]. apply L_phrase_suffix; assumption.
  - (* KRegexp *)
    rewrite suffix_nonfuzzy by discriminate. cbn [print_kind kind_toks rev app].
    rewrite lift; [|exact Hp|discriminate].
    change (47 :: r ++ [47]) with ((47 :: r ++ [47])).
    rewrite (L_word_suffix (47 :: r ++ [47]) ob _ rest (regexp_word_ok r Hk) Hb). reflexivity.
  - (* KWildcard *)
    apply andb_true_iff in Hk as [Hk _]. apply andb_true_iff in Hk as [Hw _].
    rewrite suffix_nonfuzzy by discriminate. cbn [print_kind kind_toks rev app].
    rewrite lift; [|exact Hp|destruct w; [discriminate|discriminate]].
    apply L_word_suffix; assumption.
  - (* KNumber *)
    apply andb_true_iff in Hk as [Hn _].
    rewrite suffix_nonfuzzy by discriminate. cbn [print_kind kind_toks]. unfold print_sdec, numtoks.
    destruct neg; cbn [app rev].
    + op_step 45.
      rewrite lift; [|reflexivity|unfold dec_ok in Hn; destruct n as [[|] ?]; [discriminate|discriminate]].
      rewrite (L_num_suffix n ob _ rest Hn Hb). reflexivity.
    + rewrite lift; [|exact Hp|unfold dec_ok in Hn; destruct n as [[|] ?]; [discriminate|discriminate]].
      rewrite (L_num_suffix n ob _ rest Hn Hb). reflexivity.
  - (* KCmp *)
    apply andb_true_iff in Hk as [Hn _].
    rewrite suffix_nonfuzzy by discriminate. cbn [print_kind kind_toks]. unfold print_sdec, numtoks.
    assert (Hne : forall l, print_dec n ++ l <> []).
    { intro l. unfold dec_ok in Hn. destruct n as [[|] ?]; discriminate. }
    destruct op; cbn [print_op optoks app];
      [ op_step 62 | op_step 62; op_step 61 | op_step 60 | op_step 60; op_step 61 ];
      (destruct neg; cbn [app rev];
       [ op_step 45; rewrite lift; [|reflexivity|apply Hne];
         rewrite (L_num_suffix n ob _ rest Hn Hb); reflexivity
       | rewrite lift; [|reflexivity|apply Hne]; rewrite (L_num_suffix n ob _ rest Hn Hb); reflexivity ]).
  - (* KDate *)
    apply andb_true_iff in Hk as [Hd _].
    rewrite suffix_nonfuzzy by discriminate. cbn [print_kind kind_toks].
    destruct op; cbn [print_op optoks app];
      [ op_step 62 | op_step 62; op_step 61 | op_step 60 | op_step 60; op_step 61 ];
      (rewrite lift; [|reflexivity|discriminate]);
      rewrite <- app_assoc; cbn [app]; rewrite (L_phrase_suffix d ob _ rest Hd Hb); reflexivity.
Qed.
