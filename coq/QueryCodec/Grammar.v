(* QueryCodec engine — the query-string grammar.
   The goyacc grammar /repo/search/query/query_string.y as a recursive-descent function over the
   token list, with each production's semantic action (query_string.y actions,
   query_string_parser.go: parseQuerySyntax / doParse / lexerWrapper).

   The grammar has no LALR conflicts and needs at most one token of look-ahead after the
   left-factoring done here; the generated tables (query_string.y.go) are tied by T2 only.
   Errors: a syntax error (yyParse returns 1 with lexerWrapper.errs set) and a panic raised by an
   action through lex.Error (recovered in doParse) are both [PErr]: parseQuerySyntax returns
   (nil, err) in either case. *)
From Coq Require Import ZArith List Bool Lia.
From Verif Require Import Common.Bytes QueryCodec.Lexer QueryCodec.Scalars.
Import ListNotations.
Local Open Scope Z_scope.

(* ---------- the query a query string denotes ---------- *)
Inductive prefix := PShould | PMust | PMustNot.          (* queryShould / queryMust / queryMustNot *)

Inductive leaf :=
| LMatch (text : list rune) (fuzz : Z)                   (* NewMatchQuery(text) [+ SetFuzziness] *)
| LMatchPhrase (text : list rune)                        (* NewMatchPhraseQuery *)
| LRegexp (pat : list rune)                              (* NewRegexpQuery *)
| LWildcard (pat : list rune)                            (* NewWildcardQuery *)
| LNumOrMatch (text : list rune) (v : Z)                 (* disjunction [match text; range [v,v] incl.] *)
| LNumRange (mn mx : option Z) (imn imx : option bool)   (* NewNumericRangeInclusiveQuery; float64 bits *)
| LDateRange (st en : Z) (ist ien : option bool).        (* NewDateRangeInclusiveQuery; ns, zero_time = absent *)

(* field "" = no SetField; boost = float64 bits when SetBoost was called *)
Record node := Node { n_field : list rune; n_leaf : leaf; n_boost : option Z }.

(* NewBooleanQueryForQueryString: clauses in order of appearance *)
Record bq := BQ { q_must : list node; q_should : list node; q_mustnot : list node }.

Inductive presult :=
| PNone                 (* query == "": NewMatchNoneQuery *)
| POk (q : bq)
| PErr
| PUnm                  (* well-formed up to a scalar text outside the modelled sublanguage *)
| PStuck.               (* not an outcome of the Go code *)

(* ---------- semantic actions ---------- *)
Definition has_prefix_slash (s : list rune) : bool := match s with 47 :: _ => true | _ => false end.
Definition has_suffix_slash (s : list rune) : bool := match rev s with 47 :: _ => true | _ => false end.

Inductive bres := BOk (n : node) (unm : bool) (rest : list token) | BErr.

(* tSTRING / fieldName tCOLON tSTRING *)
Definition act_string (f s : list rune) (rest : list token) : bres :=
  if has_prefix_slash s && has_suffix_slash s then
    match s with
    | [_] => BErr                                         (* str[1:len(str)-1] on "/": slice bounds panic *)
    | _ => BOk (Node f (LRegexp (removelast (tl s))) None) false rest
    end
  else if existsb (fun r => (r =? 42) || (r =? 63)) s then BOk (Node f (LWildcard s) None) false rest
  else BOk (Node f (LMatch s 0) None) false rest.

(* tSTRING tTILDE / fieldName tCOLON tSTRING tTILDE *)
Definition act_fuzzy (f s fz : list rune) (rest : list token) : bres :=
  match parse_float fz with
  | PfErr => BErr                                         (* invalid fuzziness value *)
  | PfUnm => BOk (Node f (LMatch s 0) None) true rest
  | PfOk b =>
      match b64_trunc b with
      | Some n => BOk (Node f (LMatch s n) None) false rest
      | None => BOk (Node f (LMatch s 0) None) true rest   (* int(f) outside int64 *)
      end
  end.

(* tNUMBER / fieldName tCOLON posOrNegNumber *)
Definition act_number (f s : list rune) (rest : list token) : bres :=
  match parse_float s with
  | PfOk v => BOk (Node f (LNumOrMatch s v) None) false rest
  | PfErr => BErr                                         (* error parsing number *)
  | PfUnm => BOk (Node f (LNumOrMatch s 0) None) true rest
  end.

Definition act_phrase (f s : list rune) (rest : list token) : bres :=
  BOk (Node f (LMatchPhrase s) None) false rest.

(* fieldName tCOLON (tGREATER|tLESS) [tEQUAL] posOrNegNumber *)
Definition act_cmp_num (f : list rune) (greater incl : bool) (s : list rune) (rest : list token) : bres :=
  let mk v := if greater then LNumRange (Some v) None (Some incl) None
              else LNumRange None (Some v) None (Some incl) in
  match parse_float s with
  | PfOk v => BOk (Node f (mk v) None) false rest
  | PfErr => BErr
  | PfUnm => BOk (Node f (mk 0) None) true rest
  end.

(* fieldName tCOLON (tGREATER|tLESS) [tEQUAL] tPHRASE *)
Definition act_cmp_date (f : list rune) (greater incl : bool) (s : list rune) (rest : list token) : bres :=
  let mk t := if greater then LDateRange t zero_time_ns (Some incl) None
              else LDateRange zero_time_ns t None (Some incl) in
  match parse_datetime s with
  | DtOk t => BOk (Node f (mk t) None) false rest
  | DtErr => BErr                                         (* invalid time *)
  | DtUnm => BOk (Node f (mk 0) None) true rest
  end.

(* ---------- productions ---------- *)
(* the operand of a comparison: posOrNegNumber | tPHRASE *)
Definition p_operand (f : list rune) (greater incl : bool) (ts : list token) : bres :=
  match ts with
  | Tok TNUMBER s :: r => act_cmp_num f greater incl s r
  | Tok TMINUS _ :: Tok TNUMBER s :: r => act_cmp_num f greater incl (45 :: s) r
  | Tok TPHRASE s :: r => act_cmp_date f greater incl s r
  | _ => BErr
  end.

Definition p_cmp (f : list rune) (greater : bool) (ts : list token) : bres :=
  match ts with
  | Tok TEQUAL _ :: r => p_operand f greater true r
  | _ => p_operand f greater false ts
  end.

(* what may follow  fieldName tCOLON *)
Definition p_after_colon (f : list rune) (ts : list token) : bres :=
  match ts with
  | Tok TSTRING s :: Tok TTILDE fz :: r => act_fuzzy f s fz r
  | Tok TSTRING s :: r => act_string f s r
  | Tok TNUMBER s :: r => act_number f s r
  | Tok TMINUS _ :: Tok TNUMBER s :: r => act_number f (45 :: s) r
  | Tok TPHRASE s :: r => act_phrase f s r
  | Tok TGREATER _ :: r => p_cmp f true r
  | Tok TLESS _ :: r => p_cmp f false r
  | _ => BErr
  end.

(* searchBase *)
Definition p_base (ts : list token) : bres :=
  match ts with
  | Tok TSTRING s :: Tok TTILDE fz :: r => act_fuzzy [] s fz r
  | Tok TSTRING s :: Tok TCOLON _ :: r => p_after_colon s r        (* fieldName: tSTRING *)
  | Tok TPHRASE s :: Tok TCOLON _ :: r => p_after_colon s r        (* fieldName: tPHRASE *)
  | Tok TSTRING s :: r => act_string [] s r
  | Tok TNUMBER s :: r => act_number [] s r
  | Tok TPHRASE s :: r => act_phrase [] s r
  | _ => BErr
  end.

Inductive cres := COk (p : prefix) (n : node) (unm : bool) (rest : list token) | CErr.

Definition set_boost (n : node) (b : Z) : node := Node (n_field n) (n_leaf n) (Some b).

(* searchPrefix *)
Definition p_prefix (ts : list token) : prefix * list token :=
  match ts with
  | Tok TPLUS _ :: r => (PMust, r)
  | Tok TMINUS _ :: r => (PMustNot, r)
  | _ => (PShould, ts)
  end.

(* searchSuffix and the action of searchPart (SetBoost) *)
Definition p_suffix (p : prefix) (b : bres) : cres :=
  match b with
  | BErr => CErr
  | BOk n unm ts2 =>
      match ts2 with
      | Tok TBOOST b :: ts3 =>
          match parse_float b with
          | PfOk v => COk p (set_boost n v) unm ts3
          | PfErr => CErr                                   (* invalid boost value *)
          | PfUnm => COk p n true ts3
          end
      | _ => COk p n unm ts2
      end
  end.

(* searchPart: searchPrefix searchBase searchSuffix *)
Definition p_part (ts : list token) : cres :=
  let '(p, ts1) := p_prefix ts in p_suffix p (p_base ts1).

(* AddMust / AddShould / AddMustNot append *)
Definition add_clause (q : bq) (p : prefix) (n : node) : bq :=
  match p with
  | PMust => BQ (q_must q ++ [n]) (q_should q) (q_mustnot q)
  | PShould => BQ (q_must q) (q_should q ++ [n]) (q_mustnot q)
  | PMustNot => BQ (q_must q) (q_should q) (q_mustnot q ++ [n])
  end.

Definition bq0 : bq := BQ [] [] [].

(* searchParts: searchPart searchParts | searchPart   (at least one part) *)
Fixpoint p_parts (fuel : nat) (ts : list token) (q : bq) (unm : bool) : presult :=
  match fuel with
  | O => PStuck
  | S fuel' =>
      match p_part ts with
      | CErr => PErr
      | COk p n u rest =>
          let q' := add_clause q p n in
          let unm' := unm || u in
          match rest with
          | [] => if unm' then PUnm else POk q'
          | _ => p_parts fuel' rest q' unm'
          end
      end
  end.

Definition parse_tokens (ts : list token) : presult := p_parts (S (length ts)) ts bq0 false.

(* parseQuerySyntax *)
Definition parse_qs (s : list rune) : presult :=
  match s with
  | [] => PNone
  | _ =>
      match lex s with
      | LexOk ts => parse_tokens ts
      | LexErr _ => PErr
      | LexStuck => PStuck
      end
  end.

(* ---------- the documented syntax: clause lists, their printed form and their meaning ---------- *)
Inductive cmpop := OGt | OGe | OLt | OLe.

(* a decimal number literal: integer digits, optional fraction digits (runes '0'..'9') *)
Record dec := Dec { d_int : list rune; d_frac : option (list rune) }.

(* a date literal (one of the three documented shapes), kept as its text *)
Inductive skind :=
| KMatch (w : list rune)                          (* w *)
| KFuzzy (w : list rune) (n : list rune)          (* w~n     (n digits; empty = 1) *)
| KPhrase (p : list rune)                         (* "p" *)
| KRegexp (r : list rune)                         (* /r/ *)
| KWildcard (w : list rune)                       (* w containing * or ? *)
| KNumber (neg : bool) (n : dec)                  (* 123, 1.5; with a field also -1.5 *)
| KCmp (op : cmpop) (neg : bool) (n : dec)        (* field:>=-1.5 *)
| KDate (op : cmpop) (d : list rune).             (* field:>"2006-01-02T15:04:05Z" *)

Record sclause := SClause { s_prefix : prefix; s_field : list rune; s_kind : skind; s_boost : option dec }.

Definition print_dec (n : dec) : list rune :=
  d_int n ++ match d_frac n with Some f => 46 :: f | None => [] end.
Definition print_sdec (neg : bool) (n : dec) : list rune := (if neg then [45] else []) ++ print_dec n.

Definition print_op (op : cmpop) : list rune :=
  match op with OGt => [62] | OGe => [62;61] | OLt => [60] | OLe => [60;61] end.

Definition print_kind (k : skind) : list rune :=
  match k with
  | KMatch w => w
  | KFuzzy w n => w ++ 126 :: n
  | KPhrase p => 34 :: p ++ [34]
  | KRegexp r => 47 :: r ++ [47]
  | KWildcard w => w
  | KNumber neg n => print_sdec neg n
  | KCmp op neg n => print_op op ++ print_sdec neg n
  | KDate op d => print_op op ++ 34 :: d ++ [34]
  end.

Definition print_prefix (p : prefix) : list rune :=
  match p with PShould => [] | PMust => [43] | PMustNot => [45] end.

(* the lexer's tilde state runs up to the next space, so a boost after w~n needs a space first *)
Definition boost_gap (k : skind) : list rune := match k with KFuzzy _ _ => [32] | _ => [] end.

(* every clause is followed by one space *)
Definition print_clause (c : sclause) : list rune :=
  print_prefix (s_prefix c) ++
  (match s_field c with [] => [] | f => f ++ [58] end) ++
  print_kind (s_kind c) ++
  (match s_boost c with Some b => boost_gap (s_kind c) ++ 94 :: print_dec b | None => [] end) ++ [32].

Definition print (cs : list sclause) : list rune := concat (map print_clause cs).

(* the value of a literal, computed from its structure (not through the lexer) *)
Definition dec_bits (neg : bool) (n : dec) : option Z :=
  let fp := match d_frac n with Some f => f | None => [] end in
  let ds := strip_zeros (d_int n ++ fp) in
  match dec_to_b64 (digits_val ds) (Z.of_nat (length ds)) (- Z.of_nat (length fp)) with
  | Some b => Some (if neg then b + two63 else b)
  | None => None
  end.

Definition op_greater (op : cmpop) : bool := match op with OGt | OGe => true | _ => false end.
Definition op_incl (op : cmpop) : bool := match op with OGe | OLe => true | _ => false end.

(* the leaf query the syntax documents; None = the literal is out of range (number overflow, bad date) *)
Definition denote_kind (k : skind) : option leaf :=
  match k with
  | KMatch w => Some (LMatch w 0)
  | KFuzzy w n => Some (LMatch w (match n with [] => 1 | _ => digits_val n end))
  | KPhrase p => Some (LMatchPhrase p)
  | KRegexp r => Some (LRegexp r)
  | KWildcard w => Some (LWildcard w)
  | KNumber neg n =>
      match dec_bits neg n with Some v => Some (LNumOrMatch (print_sdec neg n) v) | None => None end
  | KCmp op neg n =>
      match dec_bits neg n with
      | Some v => Some (if op_greater op then LNumRange (Some v) None (Some (op_incl op)) None
                        else LNumRange None (Some v) None (Some (op_incl op)))
      | None => None
      end
  | KDate op d =>
      match parse_datetime d with
      | DtOk t => Some (if op_greater op then LDateRange t zero_time_ns (Some (op_incl op)) None
                        else LDateRange zero_time_ns t None (Some (op_incl op)))
      | _ => None
      end
  end.

Definition denote_clause (c : sclause) : option (prefix * node) :=
  match denote_kind (s_kind c) with
  | None => None
  | Some l =>
      match s_boost c with
      | None => Some (s_prefix c, Node (s_field c) l None)
      | Some b => match dec_bits false b with
                  | Some v => Some (s_prefix c, Node (s_field c) l (Some v))
                  | None => None
                  end
      end
  end.

Fixpoint denote_from (q : bq) (cs : list sclause) : option bq :=
  match cs with
  | [] => Some q
  | c :: cs' =>
      match denote_clause c with
      | Some (p, n) => denote_from (add_clause q p n) cs'
      | None => None
      end
  end.

(* required / optional / excluded clauses in order of appearance *)
Definition denote (cs : list sclause) : option bq := denote_from bq0 cs.

(* ---------- side condition of qs_parse_print: the strings avoid the reserved characters ---------- *)
(* a bare word: starts with a character that opens a string token, contains no terminator
   (space : ^ ~) and no backslash *)
Definition start_ok (r : rune) : bool :=
  negb ((r =? 34) || is_op_char r || (r =? 94) || (r =? 126) || (r =? 92) || is_digit r || is_space r).
Definition body_ok (r : rune) : bool := negb (ends_word r || (r =? 92)).
Definition word_ok (w : list rune) : bool :=
  match w with
  | [] => false
  | r :: _ => start_ok r && forallb body_ok w
  end.
Definition regexp_shaped (w : list rune) : bool := has_prefix_slash w && has_suffix_slash w.
Definition has_wild (w : list rune) : bool := existsb (fun r => (r =? 42) || (r =? 63)) w.
Definition phrase_ok (p : list rune) : bool := forallb (fun r => negb ((r =? 34) || (r =? 92))) p.
Definition dec_ok (n : dec) : bool :=
  match d_int n with [] => false | _ => true end && all_digits (d_int n) &&
  match d_frac n with Some f => all_digits f | None => true end.
Definition has_field (c : sclause) : bool := match s_field c with [] => false | _ => true end.

Definition skind_ok (c : sclause) : bool :=
  match s_kind c with
  | KMatch w => word_ok w && negb (regexp_shaped w) && negb (has_wild w)
  | KFuzzy w n => word_ok w && match n with [] => true | [d] => is_digit d | _ => false end
  | KPhrase p => phrase_ok p
  | KRegexp r => forallb body_ok r
  | KWildcard w => word_ok w && negb (regexp_shaped w) && has_wild w
  | KNumber neg n => dec_ok n && (negb neg || has_field c)
  | KCmp _ _ n => dec_ok n && has_field c
  | KDate _ d => phrase_ok d && has_field c
  end.

Definition clause_ok (c : sclause) : bool :=
  (match s_field c with [] => true | f => word_ok f end) &&
  skind_ok c &&
  match s_boost c with Some b => dec_ok b | None => true end.

Definition clauses_ok (cs : list sclause) : bool := forallb clause_ok cs.
