(* QueryCodec engine — lex_total: the transcribed lexer yields, on every rune list, either a token
   list or an error located at a rune offset; the third outcome of the model's driver ([LexStuck]:
   a state that neither consumes nor hands over to a consuming state, or singleCharOpState entered
   with something else than one operator character) is unreachable. *)
From Coq Require Import ZArith List Bool Lia.
From Verif Require Import Common.Bytes QueryCodec.Lexer.
Import ListNotations.
Local Open Scope Z_scope.

(* invariant of the registers between state calls *)
Definition inv (st : lstate) (rg : regs) : Prop :=
  match st with
  | SStart => rbuf rg = []
  | SSingleCharOp => exists c, is_op_char c = true /\ rbuf rg = [c]
  | _ => True
  end.

Lemma op_char_cases c : is_op_char c = true -> c = 43 \/ c = 45 \/ c = 58 \/ c = 62 \/ c = 60 \/ c = 61.
Proof.
  unfold is_op_char, mem. cbn [existsb]. rewrite !orb_true_iff, !Z.eqb_eq. intuition (try discriminate).
Qed.

(* startState consumes every real rune *)
Lemma step_start_some rg r : rbuf rg = [] ->
  exists st' rg', step_start rg (Some r) = SR (Some st') true rg' None /\ inv st' rg'.
Proof.
  intro Hb. unfold step_start.
  destruct (in_escape rg) eqn:E. { eexists _, _; split; [reflexivity|exact I]. }
  destruct (r =? 34). { eexists _, _; split; [reflexivity|exact I]. }
  destruct (is_op_char r) eqn:Eo.
  { eexists _, _; split; [reflexivity|]. cbn. exists r. rewrite Hb. auto. }
  destruct (r =? 94). { eexists _, _; split; [reflexivity|exact I]. }
  destruct (r =? 126). { eexists _, _; split; [reflexivity|exact I]. }
  destruct (r =? 92). { eexists _, _; split; [reflexivity|]. cbn. exact Hb. }
  destruct (is_digit r). { eexists _, _; split; [reflexivity|exact I]. }
  destruct (negb (is_space r)); eexists _, _; (split; [reflexivity|]); cbn; auto.
Qed.

Lemma step_op_inv rg : (exists c, is_op_char c = true /\ rbuf rg = [c]) ->
  exists k, step_op rg None = SR (Some SStart) false regs0 (Some (Tok k [])) /\
            forall nx, step_op rg nx = step_op rg None.
Proof.
  intros [c [Hc Hb]]. unfold step_op, buf. rewrite Hb. cbn [rev app].
  destruct (op_char_cases _ Hc) as [ -> | [ -> | [ -> | [ -> | [ -> | -> ] ] ] ] ]; eexists; split; reflexivity.
Qed.

(* one input rune never gets the driver stuck, and the invariant is kept *)
Lemma feed_total st rg acc r : inv st rg ->
  exists st' rg' acc', feed (st, rg, acc) r = Some (st', rg', acc') /\ inv st' rg'.
Proof.
  intro Hi. unfold feed.
  assert (Hpush : forall o, exists st' rg' acc',
            match step SStart regs0 (Some r) with
            | SR (Some st2) true rg2 o2 => Some (st2, rg2, emit o2 (emit o acc))
            | _ => None end = Some (st', rg', acc') /\ inv st' rg').
  { intro o. cbn [step]. destruct (step_start_some regs0 r eq_refl) as [st' [rg' [-> Hi']]].
    eexists _, _, _; split; [reflexivity|exact Hi']. }
  destruct st; cbn [step].
  - destruct (step_start_some rg r Hi) as [st' [rg' [-> Hi']]]. eexists _, _, _; split; [reflexivity|exact Hi'].
  - unfold step_phrase.
    destruct (negb (in_escape rg) && (r =? 34)). { eexists _, _, _; split; [reflexivity|reflexivity]. }
    destruct (negb (in_escape rg) && (r =? 92)). { eexists _, _, _; split; [reflexivity|exact I]. }
    destruct (in_escape rg); eexists _, _, _; (split; [reflexivity|exact I]).
  - unfold step_str.
    destruct (negb (in_escape rg) && ends_word r).
    { destruct (negb (pushed_back r)); [eexists _, _, _; split; [reflexivity|reflexivity]|].
      cbn [reset]. apply Hpush. }
    destruct (negb (in_escape rg) && (r =? 92)). { eexists _, _, _; split; [reflexivity|exact I]. }
    destruct (in_escape rg); eexists _, _, _; (split; [reflexivity|exact I]).
  - unfold step_num.
    destruct (negb (in_escape rg) && ends_word r).
    { destruct (negb (pushed_back r)); [eexists _, _, _; split; [reflexivity|reflexivity]|].
      cbn [reset]. apply Hpush. }
    destruct (negb (in_escape rg) && (r =? 92)). { eexists _, _, _; split; [reflexivity|exact I]. }
    destruct (in_escape rg). { eexists _, _, _; split; [reflexivity|exact I]. }
    destruct (negb (seen_dot rg) && (r =? 46)). { eexists _, _, _; split; [reflexivity|exact I]. }
    destruct (is_digit r); eexists _, _, _; (split; [reflexivity|exact I]).
  - unfold step_until_space.
    destruct (negb (in_escape rg) && (r =? 32)). { eexists _, _, _; split; [reflexivity|reflexivity]. }
    destruct (negb (in_escape rg) && (r =? 92)). { eexists _, _, _; split; [reflexivity|exact I]. }
    destruct (in_escape rg); eexists _, _, _; (split; [reflexivity|exact I]).
  - unfold step_until_space.
    destruct (negb (in_escape rg) && (r =? 32)). { eexists _, _, _; split; [reflexivity|reflexivity]. }
    destruct (negb (in_escape rg) && (r =? 92)). { eexists _, _, _; split; [reflexivity|exact I]. }
    destruct (in_escape rg); eexists _, _, _; (split; [reflexivity|exact I]).
  - destruct (step_op_inv rg Hi) as (k & H0 & Hall). rewrite Hall, H0. apply Hpush.
Qed.

Lemma feeds_total rs : forall st rg acc, inv st rg ->
  exists st' rg' acc', feeds (st, rg, acc) rs = Some (st', rg', acc') /\ inv st' rg'.
Proof.
  induction rs as [|r rs IH]; intros st rg acc Hi.
  - eexists _, _, _; split; [reflexivity|exact Hi].
  - cbn [feeds]. destruct (feed_total st rg acc r Hi) as [st1 [rg1 [acc1 [-> Hi1]]]]. apply IH, Hi1.
Qed.

Lemma at_eof_total st rg acc pos : inv st rg ->
  (exists ts, at_eof (st, rg, acc) pos = LexOk ts) \/ at_eof (st, rg, acc) pos = LexErr pos.
Proof.
  intro Hi. unfold at_eof. destruct st; cbn [step].
  - left. eexists. reflexivity.
  - right. reflexivity.
  - left. eexists. reflexivity.
  - left. eexists. reflexivity.
  - left. eexists. reflexivity.
  - left. eexists. reflexivity.
  - destruct (step_op_inv rg Hi) as (k & H0 & _). rewrite H0. left. eexists. reflexivity.
Qed.

(* lex_total *)
Theorem lex_total inp :
  (exists ts, lex inp = LexOk ts) \/ lex inp = LexErr (Z.of_nat (length inp)).
Proof.
  unfold lex, lconf0.
  destruct (feeds_total inp SStart regs0 [] eq_refl) as [st [rg [acc [-> Hi]]]].
  apply at_eof_total, Hi.
Qed.

Corollary lex_never_stuck inp : lex inp <> LexStuck.
Proof. destruct (lex_total inp) as [[ts H]|H]; rewrite H; discriminate. Qed.

(* the error is the unterminated quote: it is raised exactly when the input ends inside a phrase *)
Example lex_err_example : lex [97; 32; 34; 98] = LexErr 4.
Proof. vm_compute. reflexivity. Qed.
Example lex_ok_example :
  lex [43; 97; 58; 49; 46; 53; 94; 50; 32; 34; 120; 32; 121; 34; 126]
  = LexOk [Tok TPLUS []; Tok TSTRING [97]; Tok TCOLON []; Tok TNUMBER [49;46;53]; Tok TBOOST [50];
           Tok TPHRASE [120;32;121]; Tok TTILDE [49]].
Proof. vm_compute. reflexivity. Qed.
