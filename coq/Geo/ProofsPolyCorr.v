(* Geo engine - what a passing CPoly correspondence case establishes (Geo/Corr.check_poly):
   on the observed documents, whatever the engine (plain, s2 plugin, upsidedown), a document with
   an indexed point clearly inside the polygon was returned and a document all of whose points are
   clearly outside was not - "clearly" by the margin [poly_margin_S] of Geo/Polygon.v, "inside" by
   the planar crossing parity on the exact values of the float64 inputs. *)
From Coq Require Import ZArith List Bool Lia.
From Verif Require Import Common.Bytes Numeric.Model Geo.Model Geo.Polygon Geo.Corr.
Import ListNotations.
Local Open Scope Z_scope.

Lemma spec_doc_poly_TT : forall k poly vals,
  (exists v, In v vals /\ clearly_in_poly (poly_margin_S k) poly (s_lon v) (s_lat v) = true) ->
  spec_doc_poly k poly vals = TT.
Proof.
  intros k poly vals [v [Hin Hc]]. unfold spec_doc_poly.
  replace (existsb _ vals) with true; [reflexivity|].
  symmetry. apply existsb_exists. exists v. split; assumption.
Qed.

Lemma spec_doc_poly_FF : forall k poly vals,
  (forall v, In v vals -> clearly_out_poly (poly_margin_S k) poly (s_lon v) (s_lat v) = true) ->
  spec_doc_poly k poly vals = FF.
Proof.
  intros k poly vals H. unfold spec_doc_poly.
  assert (Hall : forallb (fun v => clearly_out_poly (poly_margin_S k) poly (s_lon v) (s_lat v)) vals = true)
    by (apply forallb_forall; assumption).
  rewrite Hall.
  destruct (existsb _ vals) eqn:E; [|reflexivity].
  apply existsb_exists in E as [v [Hin Hc]]. apply H in Hin.
  unfold clearly_in_poly, clearly_out_poly in *.
  apply andb_true_iff in Hc as [Hc _]. rewrite Hc in Hin. discriminate.
Qed.

Theorem check_poly_sound : forall e poly docs hits v,
  check_poly e poly docs hits = true -> poly_view_of poly docs = Some v ->
  forall d hit, In (d, hit) (combine (pv_docs v) hits) ->
    ((exists p, In p d /\ clearly_in_poly (poly_margin_S (pv_k v)) (pv_poly v) (s_lon p) (s_lat p) = true) -> hit = true) /\
    ((forall p, In p d -> clearly_out_poly (poly_margin_S (pv_k v)) (pv_poly v) (s_lon p) (s_lat p) = true) -> hit = false).
Proof.
  intros e poly docs hits v Hc Hv d hit Hin. unfold check_poly in Hc. rewrite Hv in Hc.
  repeat (apply andb_true_iff in Hc as [Hc ?]).
  match goal with H : forallb _ (combine _ _) = true |- _ => rewrite forallb_forall in H; specialize (H _ Hin); cbn beta iota in H end.
  match goal with H : (_ && _) = true |- _ => apply andb_true_iff in H as [Hs _] end.
  split; intros Hp.
  - rewrite (spec_doc_poly_TT _ _ _ Hp) in Hs. exact Hs.
  - rewrite (spec_doc_poly_FF _ _ _ Hp) in Hs. cbn [tv_allows] in Hs. now apply negb_true_iff.
Qed.
