(* Geo engine — polygons (definitions only; lemmas in Geo/ProofsPoly.v).

   Transcribed from /repo:
     search/searcher/search_geopolygon.go   buildPolygonFilter: rayIntersectsSegment, the vertex
                                            match (almostEqual, float64EqualityThreshold = 1e-6),
                                            the crossing-parity loop; NewGeoBoundedPolygonSearcher
                                            (bounding rectangle -> boxSearcher -> filter)
     geo/geo.go                             BoundingRectangleForPolygon

   SEMANTICS.  bleve's polygon query is PLANAR in (lon, lat): a point is inside when a ray towards
   +lon crosses the boundary an odd number of times (pnpoly).  Edges are straight segments of the
   lon/lat plane, NOT great-circle arcs - a candidate stage that reasons on the sphere (the s2
   covering) must still return every point of the planar polygon.

   NUMBERS.  Coordinates are integers of the scaled domain S_k (Geo/Model.v header): the float64
   vertices and points are dyadic rationals and are represented exactly; the division of
   rayIntersectsSegment is removed by cross-multiplication, so [ray_crosses] IS the real-number
   comparison (ProofsPoly.ray_crosses_spec), not a rounded one.  What the Go float evaluation can
   get differently is handled in Geo/Corr.v by refusing to predict near an edge. *)
From Coq Require Import ZArith List Bool.
From Verif Require Import Common.Bytes Numeric.Model Geo.Model.
Import ListNotations.
Local Open Scope Z_scope.

Definition vertex := (Z * Z)%type.          (* (lon, lat) *)
Definition edge := (vertex * vertex)%type.

(* rayIntersectsSegment(point, a, b):
     (a.Lat > point.Lat) != (b.Lat > point.Lat) &&
     point.Lon < (b.Lon-a.Lon)*(point.Lat-a.Lat)/(b.Lat-a.Lat)+a.Lon
   the first conjunct makes b.Lat - a.Lat non-zero; multiplying by it keeps (positive) or reverses
   (negative) the comparison. *)
Definition ray_crosses (px py : Z) (e : edge) : bool :=
  let '((ax, ay), (bx, by_)) := e in
  negb (Bool.eqb (py <? ay) (py <? by_)) &&
  (if ay <? by_ then (px - ax) * (by_ - ay) <? (bx - ax) * (py - ay)
   else (bx - ax) * (py - ay) <? (px - ax) * (by_ - ay)).

(* the edges in the order the filter visits them: (last, v0), (v0, v1), ..., (v_{n-2}, v_{n-1}) *)
Fixpoint chain (prev : vertex) (vs : list vertex) : list edge :=
  match vs with
  | [] => []
  | v :: r => (prev, v) :: chain v r
  end.
Definition edges (poly : list vertex) : list edge :=
  match poly with
  | [] => []
  | v0 :: _ => chain (last poly v0) poly
  end.

Definition parity (px py : Z) (es : list edge) : bool :=
  fold_left (fun acc e => xorb acc (ray_crosses px py e)) es false.

(* crossing-number point-in-polygon: the meaning of "the point lies inside the polygon" *)
Definition pip (poly : list vertex) (px py : Z) : bool := parity px py (edges poly).

(* "check for a direct vertex match": almostEqual on both coordinates *)
Definition vertex_match (tol px py : Z) (v : vertex) : bool :=
  (Z.abs (snd v - py) <=? tol) && (Z.abs (fst v - px) <=? tol).

(* what buildPolygonFilter decides for one decoded value *)
Definition poly_value_pred (tol : Z) (poly : list vertex) (px py : Z) : bool :=
  existsb (vertex_match tol px py) poly || pip poly px py.

(* ... on a Morton code (the filter tests the DECODED point) *)
Definition poly_point_pred (k tol : Z) (poly : list vertex) (h : Z) : bool :=
  poly_value_pred tol poly (unhash_lon_S k h) (unhash_lat_S k h).

(* BoundingRectangleForPolygon *)
Definition bounding_rect (poly : list vertex) : option rect :=
  match poly with
  | [] => None
  | (x0, y0) :: r =>
      Some (fold_left (fun b v =>
              {| rminx := Z.min (rminx b) (fst v); rminy := Z.min (rminy b) (snd v);
                 rmaxx := Z.max (rmaxx b) (fst v); rmaxy := Z.max (rmaxy b) (snd v) |})
            r {| rminx := x0; rminy := y0; rmaxx := x0; rmaxy := y0 |})
  end.

(* ---------- distance of a point to an edge, without square roots ---------- *)

(* is the Euclidean (degree-plane) distance from p to the segment ab greater than m (m >= 0):
   foot of the perpendicular clamped to the segment; squared quantities, cross-multiplied *)
Definition far_from_edge (m px py : Z) (e : edge) : bool :=
  let '((ax, ay), (bx, by_)) := e in
  let dx := bx - ax in let dy := by_ - ay in
  let wx := px - ax in let wy := py - ay in
  let l2 := dx * dx + dy * dy in
  let dot := wx * dx + wy * dy in
  if dot <=? 0 then m * m <? wx * wx + wy * wy
  else if l2 <=? dot then m * m <? (px - bx) * (px - bx) + (py - by_) * (py - by_)
  else let cr := wx * dy - wy * dx in m * m * l2 <? cr * cr.

Definition far_from_boundary (m : Z) (poly : list vertex) (px py : Z) : bool :=
  forallb (far_from_edge m px py) (edges poly).

(* ---------- SPEC with a margin (the property statement for polygons) ----------
   clearly inside  = inside and farther than m from every edge  -> must be returned
   clearly outside = outside and farther than m from every edge -> must not be returned *)
Definition clearly_in_poly (m : Z) (poly : list vertex) (px py : Z) : bool :=
  pip poly px py && far_from_boundary m poly px py.
Definition clearly_out_poly (m : Z) (poly : list vertex) (px py : Z) : bool :=
  negb (pip poly px py) && far_from_boundary m poly px py.

(* The margin: the filter sees the decoded point (within one grid step of the indexed one in each
   coordinate, i.e. < 9.4e-8 degrees away) and accepts anything within the 1e-6 box around a
   vertex (half diagonal 1.42e-6); 3e-6 covers both with room. *)
Definition poly_margin_S (k : Z) : Z := 3 * tol_S k.
