(* Geo engine — lemmas about the cell recursion, the date-line split, the filters and the exact
   scaling maps.  Bit-level facts (Interleave/Deinterleave) are in Geo/ProofsBits.v. *)
From Coq Require Import ZArith List Bool Lia ZifyBool.
From Verif Require Import Common.Bytes Numeric.Model Geo.Model Geo.ProofsBits.
Import ListNotations.
Local Open Scope Z_scope.

(* ---------- constants ---------- *)

Lemma geo_bits_shift1_val : geo_bits_shift1 = 64. Proof. reflexivity. Qed.
Lemma geo_top_shift_val : geo_bits_shift1_minus1 = 63. Proof. reflexivity. Qed.
Lemma geo_detail_level_val : geo_detail_level = 14. Proof. reflexivity. Qed.
Lemma geo_precision_step_val : geo_precision_step = 9. Proof. reflexivity. Qed.
Lemma w64_val : w64 = 2 ^ 64. Proof. reflexivity. Qed.

Lemma pow2_pos n : 0 <= n -> 0 < 2 ^ n.
Proof. intros; apply Z.pow_pos_nonneg; lia. Qed.

Lemma pow2_succ n : 0 <= n -> 2 ^ (n + 1) = 2 * 2 ^ n.
Proof. intros; rewrite Z.pow_add_r by lia; lia. Qed.

Lemma level_of_eq res : level_of res = (64 - res) / 2.
Proof. unfold level_of. rewrite geo_bits_shift1_val, Z.shiftr_div_pow2 by lia. reflexivity. Qed.

(* ---------- cells as intervals of Morton codes ---------- *)

(* a cell (s, r): the 2^r codes that share the bits above r with s *)
Definition cell_inv (s r : Z) : Prop := 0 <= r <= 63 /\ 0 <= s /\ s mod 2 ^ r = 0 /\ s + 2 ^ r <= 2 ^ 64.
(* the argument (term, shift) of computeGeoRange: the cell (term, shift + 1) about to be halved *)
Definition node_inv (term shift : Z) : Prop :=
  0 <= shift <= 63 /\ 0 <= term /\ term mod 2 ^ (shift + 1) = 0 /\ term + 2 ^ (shift + 1) <= 2 ^ 64.

Lemma land_disjoint a b n : 0 <= n -> a mod 2 ^ n = 0 -> 0 <= b < 2 ^ n -> Z.land a b = 0.
Proof.
  intros Hn Ha Hb. apply Z.bits_inj'. intros i Hi. rewrite Z.land_spec, Z.bits_0.
  destruct (Z_lt_le_dec i n) as [Hlt|Hge].
  - apply Z.mod_divide in Ha; [|pose proof (pow2_pos n Hn); lia].
    destruct Ha as [c Hc]. subst a. rewrite Z.mul_pow2_bits_low by lia. reflexivity.
  - rewrite (testbit_high b n i) by lia. apply andb_false_r.
Qed.

Lemma lor_disjoint a b n : 0 <= n -> a mod 2 ^ n = 0 -> 0 <= b < 2 ^ n -> Z.lor a b = a + b.
Proof.
  intros Hn Ha Hb. pose proof (land_disjoint a b n Hn Ha Hb) as Hl.
  rewrite <- Z.lxor_lor by exact Hl. symmetry. apply Z.add_nocarry_lxor. exact Hl.
Qed.

Lemma mod_pow2_weaken a n m : 0 <= m <= n -> a mod 2 ^ n = 0 -> a mod 2 ^ m = 0.
Proof.
  intros Hm Ha. pose proof (pow2_pos n ltac:(lia)). pose proof (pow2_pos m ltac:(lia)).
  apply Z.mod_divide in Ha; [|lia]. apply Z.mod_divide; [lia|].
  destruct Ha as [c Hc]. exists (c * 2 ^ (n - m)). rewrite Hc.
  replace n with ((n - m) + m) at 1 by lia. rewrite Z.pow_add_r by lia. ring.
Qed.

Lemma children_eq term shift : node_inv term shift ->
  children term shift =
  ((term, term + 2 ^ shift - 1), (term + 2 ^ shift, term + 2 ^ (shift + 1) - 1)).
Proof.
  intros (Hs & Ht & Hm & Hb). unfold children.
  pose proof (pow2_pos shift ltac:(lia)) as Hp. pose proof (pow2_succ shift ltac:(lia)) as Hs1.
  rewrite shl64_one by lia.
  assert (Hsplit : Z.lor term (2 ^ shift) = term + 2 ^ shift).
  { apply (lor_disjoint term (2 ^ shift) (shift + 1)); [lia|exact Hm|lia]. }
  rewrite Hsplit. rewrite (u64g_small (term + 2 ^ shift - 1)) by lia.
  destruct (shift <? 63) eqn:E.
  - rewrite shl64_one by lia. rewrite (u64g_small (2 ^ (shift + 1) - 1)) by lia.
    rewrite (lor_disjoint term (2 ^ (shift + 1) - 1) (shift + 1)) by lia.
    f_equal. f_equal. lia.
  - assert (shift = 63) by lia. subst shift.
    assert (term = 0).
    { change (63 + 1) with 64 in *. pose proof (Z.mod_small term (2 ^ 64)). lia. }
    subst term. reflexivity.
Qed.

Lemma node_children_inv term shift : node_inv term shift ->
  cell_inv term shift /\ cell_inv (term + 2 ^ shift) shift.
Proof.
  intros (Hs & Ht & Hm & Hb).
  pose proof (pow2_pos shift ltac:(lia)) as Hp. pose proof (pow2_succ shift ltac:(lia)) as Hs1.
  pose proof (mod_pow2_weaken term (shift + 1) shift ltac:(lia) Hm) as Hm'.
  split; (split; [lia|split; [lia|split; [|lia]]]); [exact Hm'|].
  rewrite <- Z.add_mod_idemp_l by lia. rewrite Hm'. rewrite Z.add_0_l. apply Z.mod_same. lia.
Qed.

Lemma cell_node_inv s r : cell_inv s r -> 1 <= r -> node_inv s (r - 1).
Proof.
  intros (Hr & Hs & Hm & Hb) H1. unfold node_inv. replace (r - 1 + 1) with r by lia.
  repeat split; try lia; assumption.
Qed.

(* which half holds h *)
Lemma testbit_child h term shift : node_inv term shift -> term <= h < term + 2 ^ (shift + 1) ->
  Z.testbit h shift = negb (h <? term + 2 ^ shift).
Proof.
  intros (Hs & Ht & Hm & Hb) Hh.
  pose proof (pow2_pos shift ltac:(lia)) as Hp. pose proof (pow2_succ shift ltac:(lia)) as Hs1.
  apply Z.mod_divide in Hm; [|lia]. destruct Hm as [c Hc].
  set (P := 2 ^ shift) in *.
  assert (Hdiv : h / P = 2 * c + (h - term) / P).
  { replace h with ((h - term) + (2 * c) * P) at 1 by lia. rewrite Z.div_add by lia. lia. }
  destruct (h <? term + P) eqn:E; cbn [negb].
  - apply Z.testbit_false; [lia|]. fold P. rewrite Hdiv.
    rewrite (Z.div_small (h - term) P) by lia. rewrite Z.add_0_r.
    rewrite Z.mul_comm. apply Z.mod_mul. lia.
  - apply Z.testbit_true; [lia|]. fold P. rewrite Hdiv.
    assert ((h - term) / P = 1).
    { symmetry. apply (Z.div_unique (h - term) P 1 (h - term - P)); lia. }
    rewrite H. rewrite Z.add_comm, Z.mul_comm. rewrite Z.mod_add by lia. reflexivity.
Qed.

Lemma covers_iff s r b h : 0 <= r -> s mod 2 ^ r = 0 ->
  covers {| c_start := s; c_res := r; c_on_boundary := b |} h = true <-> s <= h < s + 2 ^ r.
Proof.
  intros Hr Hm. unfold covers. cbn [c_start c_res].
  pose proof (pow2_pos r Hr) as Hp.
  rewrite !Z.shiftr_div_pow2 by lia. rewrite Z.eqb_eq.
  apply Z.mod_divide in Hm; [|lia]. destruct Hm as [c Hc]. subst s.
  rewrite Z.div_mul by lia. split; intro H.
  - pose proof (Z.div_mod h (2 ^ r) ltac:(lia)). pose proof (Z.mod_pos_bound h (2 ^ r) Hp). nia.
  - symmetry. apply (Z.div_unique h (2 ^ r) c (h - c * 2 ^ r)); lia.
Qed.

(* ---------- prefix-coded terms of a covered code ---------- *)

Lemma u64_small x : 0 <= x < 2 ^ 64 -> u64 x = x.
Proof. intros. unfold u64. change two64 with (2 ^ 64). apply Z.mod_small. lia. Qed.

(* a code in the cell carries the cell's term at the cell's shift *)
Lemma cover_term c h : covers c h = true -> 0 <= h < 2 ^ 64 -> 0 <= c_start c < 2 ^ 64 ->
  encode h (c_res c) = cell_term c.
Proof.
  intros Hc Hh Hs. unfold covers in Hc. apply Z.eqb_eq in Hc.
  unfold cell_term, encode. rewrite !u64_small by lia.
  rewrite !Z.shiftr_lxor. rewrite Hc. reflexivity.
Qed.

Lemma geo_index_terms_eq h : map Some (geo_index_terms h) = map (encode h) geo_index_shifts.
Proof. reflexivity. Qed.

Lemma index_term_in h s t : In s geo_index_shifts -> encode h s = Some t -> In t (geo_index_terms h).
Proof.
  intros Hs He.
  assert (In (Some t) (map Some (geo_index_terms h))).
  { rewrite geo_index_terms_eq. rewrite <- He. apply in_map. exact Hs. }
  apply in_map_iff in H. destruct H as (t' & Heq & Hin). inversion Heq; subst; exact Hin.
Qed.

Lemma encode_total_geo h s : In s geo_index_shifts -> exists t, encode h s = Some t.
Proof.
  intros Hs. unfold encode.
  assert (0 <= s <= 63) by (cbn in Hs; lia).
  destruct ((s <? 0) || (63 <? s)) eqn:E; [lia|]. eexists; reflexivity.
Qed.

(* ---------- the recursion ---------- *)

Section Cover.
  Variables (dlon dlat : Z -> Z) (q : rect) (cb : bool).
  Hypothesis dlon_mono : forall x y, x <= y -> dlon x <= dlon y.
  Hypothesis dlat_mono : forall x y, x <= y -> dlat x <= dlat y.

  Notation compute := (compute_geo_range dlon dlat q cb).
  Notation walk := (point_walk dlon dlat q cb).
  Notation relate := (relate_action dlon dlat q cb).

  (* the decoded position of Morton code h lies in the query rectangle *)
  Definition inside (h : Z) : bool := rect_contains (dlon (morton_x h)) (dlat (morton_y h)) q.

  Definition go (f : nat) (shift : Z) (se : Z * Z) : option (list cell) :=
    match relate (fst se) (snd se) shift with
    | Emit b => Some [ {| c_start := fst se; c_res := shift; c_on_boundary := b |} ]
    | Recurse => if shift <=? 0 then None else compute f (fst se) (shift - 1)
    | Drop => Some []
    end.

  Lemma compute_S f term shift :
    compute (S f) term shift =
    match go f shift (fst (children term shift)), go f shift (snd (children term shift)) with
    | Some a, Some b => Some (a ++ b)
    | _, _ => None
    end.
  Proof. reflexivity. Qed.

  Lemma walk_S f h term shift :
    walk (S f) h term shift =
    let se := if Z.testbit h shift then snd (children term shift) else fst (children term shift) in
    match relate (fst se) (snd se) shift with
    | Emit b => Some (Some {| c_start := fst se; c_res := shift; c_on_boundary := b |})
    | Recurse => if shift <=? 0 then None else walk f h (fst se) (shift - 1)
    | Drop => Some None
    end.
  Proof. reflexivity. Qed.

  (* decoded corners bracket the decoded position of every code of the cell *)
  Lemma cell_rect_brackets s r h : cell_inv s r -> s <= h < s + 2 ^ r ->
    let rc := cell_rect dlon dlat s (s + 2 ^ r - 1) in
    rminx rc <= dlon (morton_x h) <= rmaxx rc /\ rminy rc <= dlat (morton_y h) <= rmaxy rc.
  Proof.
    intros (Hr & Hs & Hm & Hb) Hh. cbn [cell_rect rminx rmaxx rminy rmaxy].
    pose proof (cell_corners_x s r h ltac:(lia) Hs Hm Hb Hh) as [Hx1 Hx2].
    pose proof (cell_corners_y s r h ltac:(lia) Hs Hm Hb Hh) as [Hy1 Hy2].
    split; split; auto.
  Qed.

  Lemma inside_intersects s r h : cell_inv s r -> s <= h < s + 2 ^ r -> inside h = true ->
    rect_intersects (cell_rect dlon dlat s (s + 2 ^ r - 1)) q = true.
  Proof.
    intros Hc Hh Hin. pose proof (cell_rect_brackets s r h Hc Hh) as [[? ?] [? ?]].
    unfold inside, rect_contains in Hin. unfold rect_intersects.
    set (rc := cell_rect dlon dlat s (s + 2 ^ r - 1)) in *. lia.
  Qed.

  Lemma within_inside s r h : cell_inv s r -> s <= h < s + 2 ^ r ->
    rect_within (cell_rect dlon dlat s (s + 2 ^ r - 1)) q = true -> inside h = true.
  Proof.
    intros Hc Hh Hw. pose proof (cell_rect_brackets s r h Hc Hh) as [[? ?] [? ?]].
    unfold inside, rect_contains. unfold rect_within in Hw.
    set (rc := cell_rect dlon dlat s (s + 2 ^ r - 1)) in *. lia.
  Qed.

  (* what relateAndRecurse decides for a cell that holds an inside code *)
  Lemma relate_inside s r h : cell_inv s r -> 36 <= r -> s <= h < s + 2 ^ r -> inside h = true ->
    (exists b, relate s (s + 2 ^ r - 1) r = Emit b /\ In r geo_index_shifts) \/
    (relate s (s + 2 ^ r - 1) r = Recurse /\ 37 <= r).
  Proof.
    intros Hc Hr Hh Hin. pose proof (inside_intersects s r h Hc Hh Hin) as Hi.
    destruct Hc as ((Hr0 & Hr63) & _).
    unfold relate_action, relate_rect. rewrite Hi, level_of_eq, geo_detail_level_val, geo_precision_step_val.
    rewrite !andb_true_r.
    destruct ((r mod 9 =? 0) && rect_within (cell_rect dlon dlat s (s + 2 ^ r - 1)) q) eqn:Ew; cbn [orb negb andb].
    - left. eexists; split; [reflexivity|].
      apply andb_true_iff in Ew as [Em _]. apply Z.eqb_eq in Em.
      assert (r = 36 \/ r = 45 \/ r = 54 \/ r = 63) as Hcases.
      { pose proof (Z.div_mod r 9 ltac:(lia)). lia. }
      cbn. lia.
    - destruct ((64 - r) / 2 =? 14) eqn:El.
      + left. eexists; split; [reflexivity|].
        assert (r = 36) by (apply Z.eqb_eq in El; pose proof (Z.div_mod (64 - r) 2 ltac:(lia));
                            pose proof (Z.mod_pos_bound (64 - r) 2 ltac:(lia)); lia).
        subst r. cbn. lia.
      + right. assert ((64 - r) / 2 <? 14 = true) as Hlt.
        { apply Z.eqb_neq in El. pose proof (Z.div_mod (64 - r) 2 ltac:(lia)).
          pose proof (Z.mod_pos_bound (64 - r) 2 ltac:(lia)). lia. }
        rewrite Hlt. split; [reflexivity|].
        apply Z.eqb_neq in El. pose proof (Z.div_mod (64 - r) 2 ltac:(lia)).
        pose proof (Z.mod_pos_bound (64 - r) 2 ltac:(lia)). lia.
  Qed.

  (* only cells at or above the detail level recurse *)
  Lemma relate_recurse_level s e r : 0 <= r <= 63 -> relate s e r = Recurse -> 37 <= r.
  Proof.
    intros Hr. unfold relate_action, relate_rect. rewrite level_of_eq, geo_detail_level_val.
    destruct (_ || _); [discriminate|].
    destruct ((64 - r) / 2 <? 14) eqn:El; cbn [andb]; [|discriminate].
    intros _. pose proof (Z.div_mod (64 - r) 2 ltac:(lia)).
    pose proof (Z.mod_pos_bound (64 - r) 2 ltac:(lia)). lia.
  Qed.

  (* ----- termination: the fuel of compute_geo_range_top is sufficient ----- *)

  Lemma compute_fuel_ok : forall fuel term shift, node_inv term shift -> 36 <= shift ->
    (Z.to_nat (shift - 35) <= fuel)%nat -> exists cs, compute fuel term shift = Some cs.
  Proof.
    induction fuel as [|f IH]; intros term shift Hn Hs Hf; [lia|].
    rewrite compute_S, (children_eq term shift Hn). cbn [fst snd].
    destruct (node_children_inv term shift Hn) as [Hc1 Hc2].
    assert (Hgo : forall s, cell_inv s shift -> exists l, go f shift (s, s + 2 ^ shift - 1) = Some l).
    { intros s Hc. unfold go. cbn [fst snd].
      destruct (relate s (s + 2 ^ shift - 1) shift) eqn:Er; try (eexists; reflexivity).
      pose proof (relate_recurse_level _ _ _ (proj1 Hc) Er) as H37.
      destruct (shift <=? 0) eqn:E0; [lia|].
      apply IH; [apply cell_node_inv; [exact Hc|lia]|lia|lia]. }
    destruct (Hgo term Hc1) as [a Ha].
    destruct (Hgo (term + 2 ^ shift) Hc2) as [b Hb].
    replace (term + 2 ^ (shift + 1) - 1) with (term + 2 ^ shift + 2 ^ shift - 1)
      by (rewrite pow2_succ by (destruct Hn; lia); lia).
    rewrite Ha, Hb. eexists; reflexivity.
  Qed.

  Lemma node_inv_top : node_inv 0 63.
  Proof. unfold node_inv. change (63 + 1) with 64. repeat split; try lia. Qed.

  Theorem compute_fuel_sufficient : exists cs, compute_geo_range_top dlon dlat q cb = Some cs.
  Proof.
    unfold compute_geo_range_top. rewrite geo_top_shift_val.
    apply compute_fuel_ok; [exact node_inv_top|lia|apply Nat.leb_le; reflexivity].
  Qed.

  (* ----- every emitted cell: where it is and why it was emitted ----- *)

  Lemma compute_emitted : forall fuel term shift cs c, node_inv term shift ->
    compute fuel term shift = Some cs -> In c cs ->
    cell_inv (c_start c) (c_res c) /\ c_res c <= shift /\
    term <= c_start c /\ c_start c + 2 ^ c_res c <= term + 2 ^ (shift + 1) /\
    relate (c_start c) (c_start c + 2 ^ c_res c - 1) (c_res c) = Emit (c_on_boundary c).
  Proof.
    induction fuel as [|f IH]; intros term shift cs c Hn Hcomp Hin; [discriminate|].
    rewrite compute_S, (children_eq term shift Hn) in Hcomp. cbn [fst snd] in Hcomp.
    destruct (node_children_inv term shift Hn) as [Hc1 Hc2].
    pose proof (pow2_succ shift ltac:(destruct Hn; lia)) as Hs1.
    pose proof (pow2_pos shift ltac:(destruct Hn; lia)) as Hp.
    assert (Hgo : forall s l, cell_inv s shift -> term <= s -> s + 2 ^ shift <= term + 2 ^ (shift + 1) ->
              go f shift (s, s + 2 ^ shift - 1) = Some l -> In c l ->
              cell_inv (c_start c) (c_res c) /\ c_res c <= shift /\
              term <= c_start c /\ c_start c + 2 ^ c_res c <= term + 2 ^ (shift + 1) /\
              relate (c_start c) (c_start c + 2 ^ c_res c - 1) (c_res c) = Emit (c_on_boundary c)).
    { intros s l Hc Hlo Hhi Hg Hl. unfold go in Hg. cbn [fst snd] in Hg.
      destruct (relate s (s + 2 ^ shift - 1) shift) eqn:Er.
      - inversion Hg; subst l. destruct Hl as [<-|[]]. cbn [c_start c_res c_on_boundary].
        repeat split; try lia; try exact Er; destruct Hc as (? & ? & ? & ?); auto; lia.
      - pose proof (relate_recurse_level _ _ _ (proj1 Hc) Er) as H37.
        destruct (shift <=? 0) eqn:E0; [discriminate|].
        pose proof (IH s (shift - 1) l c (cell_node_inv s shift Hc ltac:(lia)) Hg Hl) as (A & B & C & E & F).
        replace (shift - 1 + 1) with shift in E by lia.
        split; [exact A|]. split; [lia|]. split; [lia|]. split; [lia|exact F].
      - inversion Hg; subst l. destruct Hl. }
    destruct (go f shift (term, term + 2 ^ shift - 1)) as [a|] eqn:Ea; [|discriminate].
    replace (term + 2 ^ (shift + 1) - 1) with (term + 2 ^ shift + 2 ^ shift - 1) in Hcomp by lia.
    destruct (go f shift (term + 2 ^ shift, term + 2 ^ shift + 2 ^ shift - 1)) as [b|] eqn:Eb; [|discriminate].
    inversion Hcomp; subst cs. apply in_app_or in Hin as [Hin|Hin].
    - apply (Hgo term a Hc1 ltac:(lia) ltac:(lia) Ea Hin).
    - apply (Hgo (term + 2 ^ shift) b Hc2 ltac:(lia) ltac:(lia) Eb Hin).
  Qed.

  (* ----- (a) completeness: an inside code is covered by an emitted cell at an indexed shift ----- *)

  Lemma compute_covers_inside : forall fuel term shift cs h, node_inv term shift -> 36 <= shift ->
    term <= h < term + 2 ^ (shift + 1) -> inside h = true ->
    compute fuel term shift = Some cs ->
    exists c, In c cs /\ covers c h = true /\ In (c_res c) geo_index_shifts.
  Proof.
    induction fuel as [|f IH]; intros term shift cs h Hn Hs Hh Hin Hcomp; [discriminate|].
    rewrite compute_S, (children_eq term shift Hn) in Hcomp. cbn [fst snd] in Hcomp.
    destruct (node_children_inv term shift Hn) as [Hc1 Hc2].
    pose proof (pow2_succ shift ltac:(destruct Hn; lia)) as Hs1.
    pose proof (pow2_pos shift ltac:(destruct Hn; lia)) as Hp.
    assert (Hgo : forall s l, cell_inv s shift -> s <= h < s + 2 ^ shift ->
              go f shift (s, s + 2 ^ shift - 1) = Some l ->
              exists c, In c l /\ covers c h = true /\ In (c_res c) geo_index_shifts).
    { intros s l Hc Hsh Hg. unfold go in Hg. cbn [fst snd] in Hg.
      destruct (relate_inside s shift h Hc Hs Hsh Hin) as [(b & Er & Hix)|(Er & H37)]; rewrite Er in Hg.
      - inversion Hg; subst l. eexists; split; [left; reflexivity|]. split; [|exact Hix].
        apply covers_iff; [destruct Hc; lia|destruct Hc as (_ & _ & Hm & _); exact Hm|exact Hsh].
      - destruct (shift <=? 0) eqn:E0; [discriminate|].
        apply (IH s (shift - 1) l h (cell_node_inv s shift Hc ltac:(lia)) ltac:(lia)); auto.
        replace (shift - 1 + 1) with shift by lia. exact Hsh. }
    destruct (go f shift (term, term + 2 ^ shift - 1)) as [a|] eqn:Ea; [|discriminate].
    replace (term + 2 ^ (shift + 1) - 1) with (term + 2 ^ shift + 2 ^ shift - 1) in Hcomp by lia.
    destruct (go f shift (term + 2 ^ shift, term + 2 ^ shift + 2 ^ shift - 1)) as [b|] eqn:Eb; [|discriminate].
    inversion Hcomp; subst cs.
    destruct (Z_lt_le_dec h (term + 2 ^ shift)) as [Hlo|Hhi].
    - destruct (Hgo term a Hc1 ltac:(lia) Ea) as (c & Hc & Hcov & Hix).
      exists c; split; [apply in_or_app; left; exact Hc|auto].
    - destruct (Hgo (term + 2 ^ shift) b Hc2 ltac:(lia) Eb) as (c & Hc & Hcov & Hix).
      exists c; split; [apply in_or_app; right; exact Hc|auto].
  Qed.

  Theorem cover_complete cs h : compute_geo_range_top dlon dlat q cb = Some cs ->
    0 <= h < 2 ^ 64 -> inside h = true ->
    exists c, In c cs /\ covers c h = true /\ In (c_res c) geo_index_shifts.
  Proof.
    unfold compute_geo_range_top. rewrite geo_top_shift_val. intros Hc Hh Hin.
    apply (compute_covers_inside geo_range_fuel 0 63 cs h node_inv_top ltac:(lia)); auto;
      try (change (63 + 1) with 64; lia).
  Qed.

  Lemma top_emitted cs c : compute_geo_range_top dlon dlat q cb = Some cs -> In c cs ->
    cell_inv (c_start c) (c_res c) /\
    relate (c_start c) (c_start c + 2 ^ c_res c - 1) (c_res c) = Emit (c_on_boundary c).
  Proof.
    unfold compute_geo_range_top. rewrite geo_top_shift_val. intros Hc Hin.
    destruct (compute_emitted geo_range_fuel 0 63 cs c node_inv_top Hc Hin) as (A & _ & _ & _ & F).
    split; assumption.
  Qed.

  (* the same in terms of what is in the index: a document holding the point holds an emitted term,
     and that term survives the isIndexed probe if the dictionary contains it *)
  Theorem cover_complete_terms cs h (is_indexed : bytes -> bool) :
    compute_geo_range_top dlon dlat q cb = Some cs -> 0 <= h < 2 ^ 64 -> inside h = true ->
    (forall t, In t (geo_index_terms h) -> is_indexed t = true) ->
    exists t, In t (geo_index_terms h) /\
              (In t (on_boundary_terms is_indexed cs) \/ In t (not_on_boundary_terms is_indexed cs)).
  Proof.
    intros Hc Hh Hin Hix.
    destruct (cover_complete cs h Hc Hh Hin) as (c & Hcin & Hcov & Hres).
    destruct (top_emitted cs c Hc Hcin) as ((Hr & Hs & Hm & Hb) & _).
    destruct (encode_total_geo h (c_res c) Hres) as [t Ht].
    pose proof (index_term_in h (c_res c) t Hres Ht) as Hti.
    pose proof (pow2_pos (c_res c) ltac:(lia)).
    assert (Hct : cell_term c = Some t) by (rewrite <- (cover_term c h Hcov Hh ltac:(lia)); exact Ht).
    exists t. split; [exact Hti|].
    generalize dependent (geo_index_terms h). intros gi Hix Hti.
    unfold on_boundary_terms, not_on_boundary_terms.
    destruct (c_on_boundary c) eqn:Eb; [left|right]; apply in_flat_map; exists c; (split; [exact Hcin|]);
      rewrite Hct, Eb, (Hix t Hti); left; reflexivity.
  Qed.

  (* ----- (b) soundness: a not-on-boundary cell lies entirely inside the rectangle ----- *)

  Theorem not_on_boundary_inside cs c h : cb = true ->
    compute_geo_range_top dlon dlat q cb = Some cs -> In c cs -> c_on_boundary c = false ->
    covers c h = true -> inside h = true.
  Proof.
    intros Hcb Hc Hin Hnb Hcov.
    destruct (top_emitted cs c Hc Hin) as (Hci & Hrel).
    destruct c as [s r b]. cbn [c_start c_res c_on_boundary] in *. subst b.
    apply covers_iff in Hcov; [|destruct Hci; lia|destruct Hci as (_ & _ & Hm & _); exact Hm].
    unfold relate_action, relate_rect in Hrel.
    destruct ((r mod geo_precision_step =? 0) && rect_within (cell_rect dlon dlat s (s + 2 ^ r - 1)) q) eqn:Ew.
    - apply andb_true_iff in Ew as [_ Ew]. exact (within_inside s r h Hci Hcov Ew).
    - cbn [orb negb andb] in Hrel. rewrite Hcb in Hrel.
      destruct (_ && _) in Hrel; [discriminate|]. destruct (_ && _) in Hrel; discriminate.
  Qed.

  (* ----- point_walk follows exactly the path of the recursion that holds h ----- *)

  Lemma walk_spec : forall fuel term shift cs h, node_inv term shift ->
    term <= h < term + 2 ^ (shift + 1) -> compute fuel term shift = Some cs ->
    exists o, walk fuel h term shift = Some o /\
              (forall c, o = Some c -> In c cs /\ covers c h = true) /\
              (forall c, In c cs -> covers c h = true -> o = Some c).
  Proof.
    induction fuel as [|f IH]; intros term shift cs h Hn Hh Hcomp; [discriminate|].
    pose proof Hcomp as Hcomp0.
    rewrite compute_S, (children_eq term shift Hn) in Hcomp. cbn [fst snd] in Hcomp.
    rewrite walk_S, (children_eq term shift Hn). cbn [fst snd].
    destruct (node_children_inv term shift Hn) as [Hc1 Hc2].
    pose proof (pow2_succ shift ltac:(destruct Hn; lia)) as Hs1.
    pose proof (pow2_pos shift ltac:(destruct Hn; lia)) as Hp.
    rewrite (testbit_child h term shift Hn Hh).
    destruct (go f shift (term, term + 2 ^ shift - 1)) as [a|] eqn:Ea; [|discriminate].
    replace (term + 2 ^ (shift + 1) - 1) with (term + 2 ^ shift + 2 ^ shift - 1) in * by lia.
    destruct (go f shift (term + 2 ^ shift, term + 2 ^ shift + 2 ^ shift - 1)) as [b|] eqn:Eb; [|discriminate].
    inversion Hcomp; subst cs. clear Hcomp.
    (* cells emitted below one half never cover a code of the other half *)
    assert (Hother : forall s l c, cell_inv s shift -> go f shift (s, s + 2 ^ shift - 1) = Some l ->
               In c l -> covers c h = true -> s <= h < s + 2 ^ shift).
    { intros s l c Hc Hg Hl Hcov. unfold go in Hg. cbn [fst snd] in Hg.
      destruct (relate s (s + 2 ^ shift - 1) shift) eqn:Er.
      - inversion Hg; subst l. destruct Hl as [<-|[]].
        apply covers_iff in Hcov; [exact Hcov|destruct Hc; lia|destruct Hc as (_ & _ & Hm & _); exact Hm].
      - pose proof (relate_recurse_level _ _ _ (proj1 Hc) Er) as H37.
        destruct (shift <=? 0) eqn:E0; [discriminate|].
        destruct (compute_emitted f s (shift - 1) l c (cell_node_inv s shift Hc ltac:(lia)) Hg Hl)
          as (Hci & _ & Hlo & Hhi & _).
        replace (shift - 1 + 1) with shift in Hhi by lia.
        destruct c as [cs0 cr cbd]. cbn [c_start c_res] in *.
        apply covers_iff in Hcov; [|destruct Hci; lia|destruct Hci as (_ & _ & Hm & _); exact Hm]. lia.
      - inversion Hg; subst l. destruct Hl. }
    (* the half that holds h *)
    assert (Hsame : forall s l, cell_inv s shift -> s <= h < s + 2 ^ shift ->
               go f shift (s, s + 2 ^ shift - 1) = Some l ->
               exists o,
                 match relate s (s + 2 ^ shift - 1) shift with
                 | Emit b0 => Some (Some {| c_start := s; c_res := shift; c_on_boundary := b0 |})
                 | Recurse => if shift <=? 0 then None else walk f h s (shift - 1)
                 | Drop => Some None
                 end = Some o /\
                 (forall c, o = Some c -> In c l /\ covers c h = true) /\
                 (forall c, In c l -> covers c h = true -> o = Some c)).
    { intros s l Hc Hsh Hg. unfold go in Hg. cbn [fst snd] in Hg.
      destruct (relate s (s + 2 ^ shift - 1) shift) eqn:Er.
      - inversion Hg; subst l. eexists; split; [reflexivity|]. split.
        + intros c Hc'. inversion Hc'; subst c. split; [left; reflexivity|].
          apply covers_iff; [destruct Hc; lia|destruct Hc as (_ & _ & Hm & _); exact Hm|exact Hsh].
        + intros c [<-|[]] _. reflexivity.
      - pose proof (relate_recurse_level _ _ _ (proj1 Hc) Er) as H37.
        destruct (shift <=? 0) eqn:E0; [discriminate|].
        apply (IH s (shift - 1) l h (cell_node_inv s shift Hc ltac:(lia))); auto.
        replace (shift - 1 + 1) with shift by lia. exact Hsh.
      - inversion Hg; subst l. eexists; split; [reflexivity|]. split; [discriminate|]. intros c []. }
    destruct (h <? term + 2 ^ shift) eqn:Eh; cbn [negb fst snd].
    - destruct (Hsame term a Hc1 ltac:(lia) Ea) as (o & Ho & H1 & H2). exists o. split; [exact Ho|]. split.
      + intros c Hc. destruct (H1 c Hc). split; [apply in_or_app; left|]; auto.
      + intros c Hin Hcov. apply in_app_or in Hin as [Hin|Hin]; [auto|].
        pose proof (Hother (term + 2 ^ shift) b c Hc2 Eb Hin Hcov). lia.
    - destruct (Hsame (term + 2 ^ shift) b Hc2 ltac:(lia) Eb) as (o & Ho & H1 & H2). exists o. split; [exact Ho|]. split.
      + intros c Hc. destruct (H1 c Hc). split; [apply in_or_app; right|]; auto.
      + intros c Hin Hcov. apply in_app_or in Hin as [Hin|Hin]; [|auto].
        pose proof (Hother term a c Hc1 Ea Hin Hcov). lia.
  Qed.

  Theorem point_walk_spec cs h : compute_geo_range_top dlon dlat q cb = Some cs -> 0 <= h < 2 ^ 64 ->
    exists o, point_walk_top dlon dlat q cb h = Some o /\
              (forall c, o = Some c <-> In c cs /\ covers c h = true).
  Proof.
    unfold compute_geo_range_top, point_walk_top. rewrite geo_top_shift_val. intros Hc Hh.
    destruct (walk_spec geo_range_fuel 0 63 cs h node_inv_top ltac:(change (63 + 1) with 64; lia) Hc)
      as (o & Ho & H1 & H2).
    exists o. split; [exact Ho|]. intros c. split; [apply H1|intros [? ?]; auto].
  Qed.
End Cover.

(* ---------- the exact decode maps are monotone ---------- *)

Lemma lon_S_mono k x y : 0 <= k -> x <= y -> lon_S k x <= lon_S k y.
Proof.
  intros Hk Hxy. unfold lon_S. rewrite !Z.shiftl_mul_pow2 by lia.
  pose proof (pow2_pos k Hk). nia.
Qed.

Lemma lat_S_mono k x y : 0 <= k -> x <= y -> lat_S k x <= lat_S k y.
Proof.
  intros Hk Hxy. unfold lat_S. rewrite !Z.shiftl_mul_pow2 by lia.
  pose proof (pow2_pos k Hk). nia.
Qed.

(* ---------- filters ---------- *)

Theorem filter_every_value (P : Z -> bool) vals : doc_filter false P vals = doc_filter_spec P vals.
Proof. reflexivity. Qed.

Lemma filter_first_only (P : Z -> bool) vals :
  doc_filter true P vals = match vals with [] => false | v :: _ => P v end.
Proof. destruct vals as [|v l]; cbn; [reflexivity|]. apply orb_false_r. Qed.

(* two points of one document: the first visited (smaller int64) far away, the second inside *)
Definition refute_k : Z := 80.
Definition refute_box : rect :=
  {| rminx := Z.shiftl (9 * D) refute_k; rminy := Z.shiftl (9 * D) refute_k;
     rmaxx := Z.shiftl (11 * D) refute_k; rmaxy := Z.shiftl (11 * D) refute_k |}.   (* [9,11] x [9,11] degrees *)
Definition refute_vals : list Z :=
  dv_order_sorted [ morton (scale_lon_exact refute_k (Z.shiftl (10 * D) refute_k))
                           (scale_lat_exact refute_k (Z.shiftl (10 * D) refute_k));      (* (10, 10) *)
                    morton (scale_lon_exact refute_k (Z.shiftl (-100 * D) refute_k))
                           (scale_lat_exact refute_k (Z.shiftl (50 * D) refute_k)) ].    (* (-100, 50) *)

Theorem filter_any_value_refuted :
  exists vals k q,
    doc_filter true (rect_point_pred k (tol_S k) q) vals <> doc_filter_spec (rect_point_pred k (tol_S k) q) vals.
Proof. exists refute_vals, refute_k, refute_box. vm_compute. discriminate. Qed.

(* ---------- box query on the grid (every-value filter, checkBoundaries = true) ---------- *)

Lemma contains_tol tol lon lat q : 0 <= tol -> rect_contains lon lat q = true -> bbox_contains tol lon lat q = true.
Proof.
  intros Ht Hc. unfold rect_contains in Hc. unfold bbox_contains, compare_geo.
  repeat match goal with |- context [Z.abs ?a <=? tol] => destruct (Z.abs a <=? tol) eqn:? end; lia.
Qed.

Section BoxQuery.
  Variables (k tol : Z) (q : rect).
  Hypothesis Hk : 0 <= k.
  Hypothesis Htol : 0 <= tol.

  Notation inside_S := (inside (lon_S k) (lat_S k) q).

  Lemma inside_pred h : inside_S h = true -> rect_point_pred k tol q h = true.
  Proof. intros H. unfold rect_point_pred, unhash_lon_S, unhash_lat_S. apply contains_tol; assumption. Qed.

  (* a document one of whose points decodes into the box is returned ... *)
  Theorem box_query_complete cs vals :
    compute_geo_range_top (lon_S k) (lat_S k) q true = Some cs ->
    (exists h, In h vals /\ 0 <= h < 2 ^ 64 /\ inside_S h = true) ->
    box_doc_match cs (doc_filter false (rect_point_pred k tol q) vals) vals = true.
  Proof.
    intros Hc (h & Hin & Hh & Hins).
    destruct (cover_complete (lon_S k) (lat_S k) q true (fun x y => lon_S_mono k x y Hk)
                (fun x y => lat_S_mono k x y Hk) cs h Hc Hh Hins) as (c & Hcin & Hcov & _).
    unfold box_doc_match. apply existsb_exists. exists h. split; [exact Hin|].
    apply existsb_exists. exists c. split; [exact Hcin|]. rewrite Hcov. cbn [andb].
    destruct (c_on_boundary c); cbn [negb orb]; [|reflexivity].
    unfold doc_filter, visited_values. apply existsb_exists. exists h. split; [exact Hin|].
    apply inside_pred. exact Hins.
  Qed.

  (* ... and a returned document has a point within the tolerance of the box *)
  Theorem box_query_sound cs vals :
    compute_geo_range_top (lon_S k) (lat_S k) q true = Some cs ->
    box_doc_match cs (doc_filter false (rect_point_pred k tol q) vals) vals = true ->
    exists h, In h vals /\ rect_point_pred k tol q h = true.
  Proof.
    intros Hc Hm. unfold box_doc_match in Hm. apply existsb_exists in Hm as (h & Hin & Hm).
    apply existsb_exists in Hm as (c & Hcin & Hm). apply andb_true_iff in Hm as [Hcov Hm].
    destruct (c_on_boundary c) eqn:Eb; cbn [negb orb] in Hm.
    - unfold doc_filter, visited_values in Hm. apply existsb_exists in Hm as (h' & Hin' & Hp).
      exists h'. split; assumption.
    - exists h. split; [exact Hin|]. apply inside_pred.
      exact (not_on_boundary_inside (lon_S k) (lat_S k) q true (fun x y => lon_S_mono k x y Hk)
               (fun x y => lat_S_mono k x y Hk) cs c h eq_refl Hc Hcin Eb Hcov).
  Qed.
End BoxQuery.

(* ---------- date-line split ---------- *)

Theorem dateline_split k (b : qbox) lon lat :
  - c180_S k <= lon <= c180_S k ->
  existsb (rect_contains lon lat) (split_dateline k b) = qbox_contains b lon lat.
Proof.
  intros Hl. unfold split_dateline, qbox_contains, rect_contains.
  destruct (br_lon b <? tl_lon b) eqn:E; cbn [existsb rminx rminy rmaxx rmaxy]; lia.
Qed.

(* ---------- the point encoding round-trips within one grid step (exact scaling maps) ---------- *)

Lemma scale_lon_exact_spec k l : 0 <= k -> - c180_S k <= l <= c180_S k ->
  let x := scale_lon_exact k l in
  0 <= x <= D /\ lon_S k x <= l < lon_S k x + res_lon_S k.
Proof.
  intros Hk Hl. unfold scale_lon_exact, lon_S, res_lon_S, c180_S in *.
  rewrite !Z.shiftl_mul_pow2 in * by lia. pose proof (pow2_pos k Hk) as Hp.
  set (P := 2 ^ k) in *. set (n := l + c180D * P).
  pose proof (Z.div_mod n (360 * P) ltac:(lia)) as Hdm.
  pose proof (Z.mod_pos_bound n (360 * P) ltac:(lia)) as Hmb.
  assert (0 <= n <= 360 * D * P) by (unfold n, c180D, D in *; lia).
  assert (0 <= n / (360 * P)) by (apply Z.div_pos; lia).
  assert (n / (360 * P) <= D).
  { apply Z.div_le_upper_bound; [lia|]. unfold D in *. lia. }
  cbn zeta. unfold c180D, D in *. nia.
Qed.

Lemma scale_lat_exact_spec k l : 0 <= k -> - c90_S k <= l <= c90_S k ->
  let y := scale_lat_exact k l in
  0 <= y <= D /\ lat_S k y <= l < lat_S k y + res_lat_S k.
Proof.
  intros Hk Hl. unfold scale_lat_exact, lat_S, res_lat_S, c90_S in *.
  rewrite !Z.shiftl_mul_pow2 in * by lia. pose proof (pow2_pos k Hk) as Hp.
  set (P := 2 ^ k) in *. set (n := l + c90D * P).
  pose proof (Z.div_mod n (180 * P) ltac:(lia)) as Hdm.
  pose proof (Z.mod_pos_bound n (180 * P) ltac:(lia)) as Hmb.
  assert (0 <= n <= 180 * D * P) by (unfold n, c90D, D in *; lia).
  assert (0 <= n / (180 * P)) by (apply Z.div_pos; lia).
  assert (n / (180 * P) <= D).
  { apply Z.div_le_upper_bound; [lia|]. unfold D in *. lia. }
  cbn zeta. unfold c90D, D in *. nia.
Qed.

Theorem unhash_hash_within k lon lat : 0 <= k ->
  - c180_S k <= lon <= c180_S k -> - c90_S k <= lat <= c90_S k ->
  let h := morton (scale_lon_exact k lon) (scale_lat_exact k lat) in
  0 <= h < 2 ^ 64 /\
  unhash_lon_S k h <= lon < unhash_lon_S k h + res_lon_S k /\
  unhash_lat_S k h <= lat < unhash_lat_S k h + res_lat_S k.
Proof.
  intros Hk Hlon Hlat.
  destruct (scale_lon_exact_spec k lon Hk Hlon) as [Hx Hxl].
  destruct (scale_lat_exact_spec k lat Hk Hlat) as [Hy Hyl].
  assert (Hxr : 0 <= scale_lon_exact k lon < 2 ^ 32) by (unfold D in *; lia).
  assert (Hyr : 0 <= scale_lat_exact k lat < 2 ^ 32) by (unfold D in *; lia).
  cbn zeta. unfold morton, unhash_lon_S, unhash_lat_S.
  destruct (deinterleave_interleave _ _ Hxr Hyr) as [Ex Ey]. rewrite Ex, Ey.
  split; [apply interleave_range; assumption|]. split; assumption.
Qed.

(* ---------- Examples: the hypotheses above are satisfiable on non-trivial values ---------- *)

Example ex_box : rect :=
  {| rminx := Z.shiftl (-10 * D) 80; rminy := Z.shiftl (-10 * D) 80;
     rmaxx := Z.shiftl (10 * D) 80; rmaxy := Z.shiftl (10 * D) 80 |}.
Example ex_small_box : rect :=
  {| rminx := Z.shiftl (10 * D) 80; rminy := Z.shiftl (10 * D) 80;
     rmaxx := Z.shiftl (1001 * D) 80 / 100; rmaxy := Z.shiftl (1001 * D) 80 / 100 |}.

(* a code inside the box: its walk ends in a not-on-boundary cell; one near the edge of a small
   box ends in an on-boundary cell at the detail level; a far one is in no cell *)
Example ex_walk_inside :
  let h := morton (scale_lon_exact 80 (Z.shiftl (5 * D) 80)) (scale_lat_exact 80 (Z.shiftl (5 * D) 80)) in
  inside (lon_S 80) (lat_S 80) ex_box h = true /\
  option_map (option_map (fun c => (c_res c, c_on_boundary c))) (point_walk_top (lon_S 80) (lat_S 80) ex_box true h)
  = Some (Some (45, false)).
Proof. vm_compute. split; reflexivity. Qed.

Example ex_walk_boundary :
  let h := morton (scale_lon_exact 80 (Z.shiftl (10 * D) 80)) (scale_lat_exact 80 (Z.shiftl (10 * D) 80)) in
  option_map (option_map (fun c => (c_res c, c_on_boundary c)))
             (point_walk_top (lon_S 80) (lat_S 80) ex_small_box true h) = Some (Some (36, true)) /\
  point_walk_top (lon_S 80) (lat_S 80) ex_small_box true 0 = Some None.
Proof. vm_compute. split; reflexivity. Qed.

Example ex_range_small :
  option_map (fun cs => (length cs, length (filter c_on_boundary cs)))
             (compute_geo_range_top (lon_S 80) (lat_S 80) ex_small_box true) = Some (2%nat, 2%nat).
Proof. vm_compute. reflexivity. Qed.

Example ex_dateline :
  let k := 80 in
  let b := {| tl_lon := Z.shiftl (170 * D) k; tl_lat := Z.shiftl (10 * D) k;
              br_lon := Z.shiftl (-170 * D) k; br_lat := Z.shiftl (-10 * D) k |} in
  length (split_dateline k b) = 2%nat /\
  qbox_contains b (Z.shiftl (-175 * D) k) 0 = true /\ qbox_contains b (Z.shiftl (175 * D) k) 0 = true /\
  qbox_contains b 0 0 = false.
Proof. vm_compute. repeat split; reflexivity. Qed.
