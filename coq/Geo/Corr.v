(* Geo engine — correspondence cases (T2): what the implementation returned on an input, checked
   against the executable model (Geo/Model.v) and, for API-level cases, against the property
   statement with margins.

   FLOATS.  Every float64 of a case is its IEEE bit pattern; [f64_dyadic] turns it into the exact
   dyadic rational, [to_S] into an integer of the scaled domain S_k (Model.v header), k chosen per
   case by [scale_of] so that every number of the case is exact.

   WHAT IS COMPARED EXACTLY AND WHAT WITH A MARGIN.
   * Interleave/Deinterleave, the emitted term lists of ComputeGeoRange: exactly.
   * MortonUnhashLon/Lat: the Go float must be within [unhash_eps] (2^-40 degrees) of the exact
     rational decode, and bit-exact (-180/-90/180/90) on the grid coordinates 0 and 2^32-1.
   * MortonHash: the grid index of each coordinate must be floor of the exact scaling up to
     [hash_eps] (2^-13 of a grid step) — this is the margin test of the float rounding of
     scaleLon/scaleLat, which the model does not describe.
   * The cell recursion compares decoded cell corners with the query box in floats.  The model
     makes the same comparisons on exact numbers; a comparison can only come out differently
     when corner and box edge are closer than the float error (< 2^-40 degrees).  [safe_decide]
     evaluates each relateAndRecurse decision for the box itself and for the box with every edge
     moved inwards / outwards by [slop] (2^-30 degrees; edges exactly at -180/-90/180/90 are not
     moved: there the only corner that can be that close decodes exactly).  RectWithin and
     RectIntersects are monotone in the box, so if the three decisions agree the float decision
     is that one too; if they disagree the model refuses to predict ([None]).  A CRange case with
     a refused decision FAILS (the harness is required to generate boxes whose edges keep away
     from cell corners); for API cases a refused decision makes that document's model verdict
     "either".
   * The post-filter tolerance test |a-b| <= 1e-6 is made in floats; the model evaluates it with
     tolerance 1e-6 - slop and 1e-6 + slop; if the outcomes differ the verdict is "either".
   * SPEC margins for boxes (computed here from the exact inputs): a point inside the box by more
     than one grid step + slop on each side must make its document match; a document all of whose
     points are outside by more than 1e-6 + one grid step + slop must not match.  A box edge
     exactly at +-180 / +-90 imposes no margin on the inside test (no valid point lies beyond it).
   * Polygons (CPoly): planar point-in-polygon is rational arithmetic, so both the SPEC (clearly
     inside / clearly outside = crossing parity of Geo/Polygon.v on the exact indexed point, farther
     than [poly_margin_S] = 3e-6 degrees from every edge) and the MODEL of the filter (vertex match
     with tolerance 1e-6 -+ slop, crossing parity on the exactly decoded point, refusing to
     predict when that point is within slop of an edge - the only place where the float
     evaluation of rayIntersectsSegment can come out differently) are computed here; nothing is
     classified by the harness.  Plain engines: candidates come from the box searcher on the
     bounding rectangle (modelled as for CBox); s2: candidates come from the s2 covering (not
     modelled) - there only the SPEC says that a clearly-inside point must be returned.
   * Circles (and polygons of the older CShape form): Coq cannot do trigonometry; each (point, query) pair arrives with a
     three-valued class computed by the harness (0 clearly inside, 1 clearly outside, 2 near the
     boundary).  That classification is TRUSTED harness code (checks/C18.json).  This file
     combines the classes per document: SPEC = any-value rule; MODEL = the filter variant in force
     according to T1 (Extracted.XGeo.*_filter_early_return) and the engine's doc-value order. *)
From Coq Require Import ZArith List Bool.
From Verif Require Import Common.Bytes Numeric.Model Geo.Model Geo.Polygon Extracted.Extracted.
Import ListNotations.
Local Open Scope Z_scope.

Inductive engine := EScorch | EScorchS2 | EUpsidedown.
Inductive shape_kind := KDistance | KPolygon.
(* trusted classification of a (point, circle-or-polygon) pair *)
Inductive pclass := PIn | POut | PNear.

(* a point of a document: float bits of lon and lat as given to the indexer, and the value
   geo.MortonHash returned for them *)
Record pt := { p_lon : Z; p_lat : Z; p_hash : Z }.

Inductive case :=
| CInterleave (x y impl : Z)
| CDeinterleave (b impl : Z)
| CHash (lon lat impl : Z)
| CUnhash (h impl_lon impl_lat : Z)
| CRange (minlon minlat maxlon maxlat : Z) (check_b : bool) (impl_on impl_not : list Z)
    (* each returned term as the big-endian base-256 value of its bytes (the first byte of a
       prefix-coded term is >= 0x20, so the value determines the term) *)
| CBox (e : engine) (tl_lon tl_lat br_lon br_lat : Z) (docs : list (list pt)) (impl_hits : list bool)
| CShape (e : engine) (kind : shape_kind) (docs : list (list (Z * pclass))) (impl_hits : list bool)
    (* a point is (MortonHash, class supplied by the harness) *)
| CPoly (e : engine) (poly : list (Z * Z)) (docs : list (list pt)) (impl_hits : list bool)
    (* polygon vertices (lon, lat) as float64 bits, in the order given to the query *)
| CSort (desc : bool) (lo hi : list Z) (impl_order : list Z).
    (* one point per document; [lo, hi] = interval (micrometres) that contains the document's true
       distance under every earth radius between polar and equatorial (trusted harness computation) *)

(* ---------- three-valued verdicts ---------- *)

Inductive tv := TT | FF | UU.
Definition tv_or (a b : tv) : tv :=
  match a, b with TT, _ | _, TT => TT | UU, _ | _, UU => UU | FF, FF => FF end.
Definition tv_of (b : bool) : tv := if b then TT else FF.
Definition tv_any {A} (f : A -> tv) (l : list A) : tv := fold_left (fun acc x => tv_or acc (f x)) l FF.
(* does the implementation's answer agree with a verdict *)
Definition tv_allows (v : tv) (hit : bool) : bool :=
  match v with TT => hit | FF => negb hit | UU => true end.
Definition tv_code (v : tv) : Z := match v with TT => 1 | FF => 0 | UU => 2 end.

(* ---------- margins (in S_k) ---------- *)

Definition slop_S (k : Z) : Z := Z.shiftl D (k - 30).           (* 2^-30 degrees *)
Definition unhash_eps_S (k : Z) : Z := Z.shiftl D (k - 40).     (* 2^-40 degrees *)
Definition hash_eps_lon_S (k : Z) : Z := Z.shiftl 360 (k - 13). (* 2^-13 grid steps *)
Definition hash_eps_lat_S (k : Z) : Z := Z.shiftl 180 (k - 13).

Definition dy_list (bits : list Z) : option (list dyadic) :=
  fold_right (fun b acc => match f64_dyadic b, acc with
                           | Some d, Some l => Some (d :: l) | _, _ => None end) (Some []) bits.

(* ---------- function level ---------- *)

Definition in_u64g (x : Z) : bool := (0 <=? x) && (x <? w64).

(* is grid index x the truncation of the exact scaling of coordinate l (S_k), up to eps *)
Definition grid_index_ok (x l c res eps : Z) : bool :=
  (x * res <=? l + c + eps) && (l + c <? (x + 1) * res + eps) && (0 <=? x) && (x <=? D).

Definition hash_ok (k lonS latS h : Z) : bool :=
  in_u64g h && (interleave (morton_x h) (morton_y h) =? h) &&
  grid_index_ok (morton_x h) lonS (c180_S k) (res_lon_S k) (hash_eps_lon_S k) &&
  grid_index_ok (morton_y h) latS (c90_S k) (res_lat_S k) (hash_eps_lat_S k).

Definition in_range_S (k lonS latS : Z) : bool :=
  (- c180_S k <=? lonS) && (lonS <=? c180_S k) && (- c90_S k <=? latS) && (latS <=? c90_S k).

Definition check_hash (lon lat h : Z) : bool :=
  match f64_dyadic lon, f64_dyadic lat with
  | Some dl, Some da =>
      let k := scale_of [dl; da] in
      in_range_S k (to_S k dl) (to_S k da) && hash_ok k (to_S k dl) (to_S k da) h
  | _, _ => false
  end.

Definition check_unhash (h lon lat : Z) : bool :=
  match f64_dyadic lon, f64_dyadic lat with
  | Some dl, Some da =>
      let k := scale_of [dl; da] in
      let x := morton_x h in let y := morton_y h in
      let el := lon_S k x in let ea := lat_S k y in
      (Z.abs (to_S k dl - el) <=? unhash_eps_S k) && (Z.abs (to_S k da - ea) <=? unhash_eps_S k) &&
      (if (x =? 0) || (x =? D) then to_S k dl =? el else true) &&
      (if (y =? 0) || (y =? D) then to_S k da =? ea else true)
  | _, _ => false
  end.

(* ---------- the cell recursion with refusal on close calls ---------- *)

Definition action_eqb (a b : action) : bool :=
  match a, b with
  | Emit x, Emit y => Bool.eqb x y
  | Recurse, Recurse => true
  | Drop, Drop => true
  | _, _ => false
  end.

(* move every edge by s towards the inside (s > 0) or the outside (s < 0), except edges that are
   exactly the coordinate bounds *)
Definition perturb (k s : Z) (q : rect) : rect :=
  {| rminx := if rminx q =? - c180_S k then rminx q else rminx q + s;
     rminy := if rminy q =? - c90_S k then rminy q else rminy q + s;
     rmaxx := if rmaxx q =? c180_S k then rmaxx q else rmaxx q - s;
     rmaxy := if rmaxy q =? c90_S k then rmaxy q else rmaxy q - s |}.

Definition safe_decide (k : Z) (q : rect) (cb : bool) (s e res : Z) : option action :=
  let rc := cell_rect (lon_S k) (lat_S k) s e in
  let a := relate_rect q cb rc res in
  if action_eqb a (relate_rect (perturb k (slop_S k) q) cb rc res) &&
     action_eqb a (relate_rect (perturb k (- slop_S k) q) cb rc res)
  then Some a else None.

Definition safe_range (k : Z) (q : rect) (cb : bool) : option (list cell) :=
  compute_gen (safe_decide k q cb) geo_range_fuel 0 geo_bits_shift1_minus1.
Definition safe_walk (k : Z) (q : rect) (cb : bool) (h : Z) : option (option cell) :=
  walk_gen (safe_decide k q cb) geo_range_fuel h 0 geo_bits_shift1_minus1.

Definition rect_of_bits (minlon minlat maxlon maxlat : Z) : option (Z * rect) :=
  match dy_list [minlon; minlat; maxlon; maxlat] with
  | Some [a; b; c; d] =>
      let k := scale_of [a; b; c; d] in
      Some (k, {| rminx := to_S k a; rminy := to_S k b; rmaxx := to_S k c; rmaxy := to_S k d |})
  | _ => None
  end.

Definition term_values (ts : list bytes) : list Z := map (be_value 256) ts.

Definition model_range (minlon minlat maxlon maxlat : Z) (cb : bool) : option (list Z * list Z) :=
  match rect_of_bits minlon minlat maxlon maxlat with
  | Some (k, q) =>
      match safe_range k q cb with
      | Some cs => Some (term_values (on_boundary_terms (fun _ => true) cs),
                         term_values (not_on_boundary_terms (fun _ => true) cs))
      | None => None
      end
  | None => None
  end.

Definition bytes_list_eqb := list_eqb beqb.

(* ---------- bounding-box queries on an index ---------- *)

(* SPEC classification of one exact point against one rectangle *)
Definition m_in_lon (k : Z) : Z := res_lon_S k + slop_S k.
Definition m_in_lat (k : Z) : Z := res_lat_S k + slop_S k.
Definition m_out_lon (k : Z) : Z := tol_S k + res_lon_S k + slop_S k.
Definition m_out_lat (k : Z) : Z := tol_S k + res_lat_S k + slop_S k.

Definition clearly_in (k lon lat : Z) (q : rect) : bool :=
  ((rminx q =? - c180_S k) && (rminx q <=? lon) || (rminx q + m_in_lon k <=? lon)) &&
  ((rmaxx q =? c180_S k) && (lon <=? rmaxx q) || (lon <=? rmaxx q - m_in_lon k)) &&
  ((rminy q =? - c90_S k) && (rminy q <=? lat) || (rminy q + m_in_lat k <=? lat)) &&
  ((rmaxy q =? c90_S k) && (lat <=? rmaxy q) || (lat <=? rmaxy q - m_in_lat k)).
Definition clearly_out (k lon lat : Z) (q : rect) : bool :=
  (lon <? rminx q - m_out_lon k) || (rmaxx q + m_out_lon k <? lon) ||
  (lat <? rminy q - m_out_lat k) || (rmaxy q + m_out_lat k <? lat).

(* a point in S_k: exact lon, lat and its hash *)
Record spt := { s_lon : Z; s_lat : Z; s_hash : Z }.

Definition spec_doc_box (k : Z) (rects : list rect) (vals : list spt) : tv :=
  if existsb (fun v => existsb (clearly_in k (s_lon v) (s_lat v)) rects) vals then TT
  else if forallb (fun v => forallb (clearly_out k (s_lon v) (s_lat v)) rects) vals then FF
  else UU.

(* MODEL: the rect filter as a three-valued function (tolerance +- slop) *)
Definition filter_tv (k : Z) (early : bool) (q : rect) (ordered : list Z) : tv :=
  let lo := doc_filter early (rect_point_pred k (tol_S k - slop_S k) q) ordered in
  let hi := doc_filter early (rect_point_pred k (tol_S k + slop_S k) q) ordered in
  if Bool.eqb lo hi then tv_of lo else UU.

(* NewGeoBoundingBoxSearcher on one rectangle, one document (values in doc-value order) *)
Definition model_doc_rect (k : Z) (early cb : bool) (q : rect) (ordered : list Z) : tv :=
  let filt := filter_tv k early q ordered in
  tv_any (fun h => match safe_walk k q cb h with
                   | Some (Some c) => if c_on_boundary c then filt else TT
                   | Some None => FF
                   | None => UU
                   end) ordered.

(* With the s2 plugin every candidate is filtered and candidates come from the s2 covering
   (not modelled): the document can only match through the filter. *)
Definition model_doc_rect_s2 (k : Z) (early : bool) (q : rect) (ordered : list Z) : tv :=
  match filter_tv k early q ordered with FF => FF | _ => UU end.

Definition model_doc_box_ordered (e : engine) (k : Z) (early : bool) (rects : list rect) (ordered : list Z) : tv :=
  tv_any (fun q => match e with
                   | EScorchS2 => model_doc_rect_s2 k early q ordered
                   | _ => model_doc_rect k early XGeo.bbox_query_check_boundaries q ordered
                   end) rects.

(* all rotations-to-front of a list: the possible "first visited" choices when the doc-value
   order is unspecified (upsidedown builds the back-index row from a Go map) *)
Fixpoint fronts {A} (pre l : list A) : list (list A) :=
  match l with
  | [] => []
  | x :: l' => (x :: rev pre ++ l') :: fronts (x :: pre) l'
  end.

(* does the implementation's answer agree with the model for this document *)
Definition model_allows_box (e : engine) (k : Z) (early : bool) (rects : list rect) (vals : list Z) (hit : bool) : bool :=
  match e with
  | EUpsidedown =>
      if early then
        match vals with
        | [] => negb hit
        | _ => existsb (fun o => tv_allows (model_doc_box_ordered e k early rects o) hit) (fronts [] vals)
        end
      else tv_allows (model_doc_box_ordered e k early rects vals) hit
  | _ => tv_allows (model_doc_box_ordered e k early rects (dv_order_sorted vals)) hit
  end.

Definition all_bits (docs : list (list pt)) : list Z :=
  flat_map (fun d => flat_map (fun p => [p_lon p; p_lat p]) d) docs.

Definition to_spt (k : Z) (p : pt) : option spt :=
  match f64_dyadic (p_lon p), f64_dyadic (p_lat p) with
  | Some a, Some b => Some {| s_lon := to_S k a; s_lat := to_S k b; s_hash := p_hash p |}
  | _, _ => None
  end.

Definition spt_ok (k : Z) (v : spt) : bool :=
  in_range_S k (s_lon v) (s_lat v) && hash_ok k (s_lon v) (s_lat v) (s_hash v).

Record box_view := { bv_k : Z; bv_rects : list rect; bv_docs : list (list spt) }.

Definition box_view_of (tl_lon tl_lat br_lon br_lat : Z) (docs : list (list pt)) : option box_view :=
  match dy_list (tl_lon :: tl_lat :: br_lon :: br_lat :: all_bits docs), dy_list [tl_lon; tl_lat; br_lon; br_lat] with
  | Some ds, Some [a; b; c; d] =>
      let k := scale_of ds in
      let qb := {| Model.tl_lon := to_S k a; Model.tl_lat := to_S k b; Model.br_lon := to_S k c; Model.br_lat := to_S k d |} in
      match sequence_opt (map (fun dcs => sequence_opt (map (to_spt k) dcs)) docs) with
      | Some sdocs => Some {| bv_k := k; bv_rects := split_dateline k qb; bv_docs := sdocs |}
      | None => None
      end
  | _, _ => None
  end.

Definition check_box (e : engine) (tl_lon tl_lat br_lon br_lat : Z) (docs : list (list pt)) (hits : list bool) : bool :=
  match box_view_of tl_lon tl_lat br_lon br_lat docs with
  | Some v =>
      let k := bv_k v in
      (length hits =? length (bv_docs v))%nat &&
      forallb (forallb (spt_ok k)) (bv_docs v) &&
      forallb (fun dh => let '(d, hit) := dh in
                 (* the property, with margins *)
                 tv_allows (spec_doc_box k (bv_rects v) d) hit &&
                 (* the model of the code in force *)
                 model_allows_box e k XGeo.rect_filter_early_return (bv_rects v) (map s_hash d) hit)
              (combine (bv_docs v) hits)
  | None => false
  end.

(* ---------- distance and polygon queries: classes supplied with the case ---------- *)

Definition class_tv (c : pclass) : tv := match c with PIn => TT | POut => FF | PNear => UU end.

(* SPEC: any-value rule *)
Definition spec_doc_shape (vals : list (Z * pclass)) : tv := tv_any (fun v => class_tv (snd v)) vals.

(* MODEL: the filter variant in force; the candidate stage is not modelled for shapes, so a
   document whose visited values are all clearly inside is required to match only because a
   clearly-inside point is a candidate (that is part of what is tested) *)
Definition model_doc_shape_ordered (early : bool) (ordered : list (Z * pclass)) : tv :=
  tv_any (fun v => class_tv (snd v)) (if early then firstn 1 ordered else ordered).

Fixpoint insert_sorted_p (x : Z * pclass) (l : list (Z * pclass)) : list (Z * pclass) :=
  match l with
  | [] => [x]
  | y :: l' => if wrap64 (fst x) <? wrap64 (fst y) then x :: l
               else if wrap64 (fst x) =? wrap64 (fst y) then l else y :: insert_sorted_p x l'
  end.
Definition sort_p (vals : list (Z * pclass)) : list (Z * pclass) := fold_left (fun acc v => insert_sorted_p v acc) vals [].

Definition model_allows_shape (e : engine) (early : bool) (vals : list (Z * pclass)) (hit : bool) : bool :=
  match e with
  | EUpsidedown =>
      if early then
        match vals with
        | [] => negb hit
        | _ => existsb (fun o => tv_allows (model_doc_shape_ordered early o) hit) (fronts [] vals)
        end
      else tv_allows (model_doc_shape_ordered early vals) hit
  | _ => tv_allows (model_doc_shape_ordered early (sort_p vals)) hit
  end.

Definition shape_early (kind : shape_kind) : bool :=
  match kind with KDistance => XGeo.dist_filter_early_return | KPolygon => XGeo.polygon_filter_early_return end.

Definition check_shape (e : engine) (kind : shape_kind) (docs : list (list (Z * pclass))) (hits : list bool) : bool :=
  (length hits =? length docs)%nat &&
  forallb (fun dh => let '(d, hit) := dh in
             tv_allows (spec_doc_shape d) hit && model_allows_shape e (shape_early kind) d hit)
          (combine docs hits).

(* ---------- polygon queries: everything computed here ---------- *)

Definition tv_and (a b : tv) : tv :=
  match a, b with FF, _ | _, FF => FF | TT, TT => TT | _, _ => UU end.

(* SPEC: any-value rule over the exact indexed points, with the margin *)
Definition spec_doc_poly (k : Z) (poly : list vertex) (vals : list spt) : tv :=
  let m := poly_margin_S k in
  if existsb (fun v => clearly_in_poly m poly (s_lon v) (s_lat v)) vals then TT
  else if forallb (fun v => clearly_out_poly m poly (s_lon v) (s_lat v)) vals then FF
  else UU.

(* MODEL: buildPolygonFilter on one decoded value, three-valued *)
Definition poly_value_tv (k : Z) (poly : list vertex) (h : Z) : tv :=
  let x := unhash_lon_S k h in let y := unhash_lat_S k h in
  if existsb (vertex_match (tol_S k - slop_S k) x y) poly then TT
  else if far_from_boundary (slop_S k) poly x y then
    if pip poly x y then TT
    else if existsb (vertex_match (tol_S k + slop_S k) x y) poly then UU else FF
  else UU.

Definition poly_filter_tv (k : Z) (early : bool) (poly : list vertex) (ordered : list Z) : tv :=
  tv_any (poly_value_tv k poly) (visited_values early ordered).

(* NewGeoBoundedPolygonSearcher on one document (values in doc-value order) *)
Definition model_doc_poly_ordered (e : engine) (k : Z) (poly : list vertex) (bb : rect) (ordered : list Z) : tv :=
  let filt := poly_filter_tv k XGeo.polygon_filter_early_return poly ordered in
  match e with
  | EScorchS2 => match filt with FF => FF | _ => UU end
  | _ => tv_and (model_doc_rect k XGeo.rect_filter_early_return XGeo.polygon_check_boundaries bb ordered) filt
  end.

Definition model_allows_poly (e : engine) (k : Z) (poly : list vertex) (bb : rect) (vals : list Z) (hit : bool) : bool :=
  match e with
  | EUpsidedown =>
      if XGeo.polygon_filter_early_return || XGeo.rect_filter_early_return then
        match vals with
        | [] => negb hit
        | _ => existsb (fun o => tv_allows (model_doc_poly_ordered e k poly bb o) hit) (fronts [] vals)
        end
      else tv_allows (model_doc_poly_ordered e k poly bb vals) hit
  | _ => tv_allows (model_doc_poly_ordered e k poly bb (dv_order_sorted vals)) hit
  end.

Record poly_view := { pv_k : Z; pv_poly : list vertex; pv_bb : rect; pv_docs : list (list spt) }.

Definition poly_bits (poly : list (Z * Z)) : list Z := flat_map (fun v => [fst v; snd v]) poly.

Definition to_vertex (k : Z) (v : Z * Z) : option vertex :=
  match f64_dyadic (fst v), f64_dyadic (snd v) with
  | Some a, Some b => Some (to_S k a, to_S k b)
  | _, _ => None
  end.

Definition poly_view_of (poly : list (Z * Z)) (docs : list (list pt)) : option poly_view :=
  match dy_list (poly_bits poly ++ all_bits docs) with
  | Some ds =>
      let k := scale_of ds in
      match sequence_opt (map (to_vertex k) poly),
            sequence_opt (map (fun dcs => sequence_opt (map (to_spt k) dcs)) docs) with
      | Some vs, Some sdocs =>
          match bounding_rect vs with
          | Some bb => Some {| pv_k := k; pv_poly := vs; pv_bb := bb; pv_docs := sdocs |}
          | None => None
          end
      | _, _ => None
      end
  | None => None
  end.

Definition check_poly (e : engine) (poly : list (Z * Z)) (docs : list (list pt)) (hits : list bool) : bool :=
  match poly_view_of poly docs with
  | Some v =>
      let k := pv_k v in
      (3 <=? length (pv_poly v))%nat &&
      forallb (fun p => in_range_S k (fst p) (snd p)) (pv_poly v) &&
      (length hits =? length (pv_docs v))%nat &&
      forallb (forallb (spt_ok k)) (pv_docs v) &&
      forallb (fun dh => let '(d, hit) := dh in
                 tv_allows (spec_doc_poly k (pv_poly v) d) hit &&
                 model_allows_poly e k (pv_poly v) (pv_bb v) (map s_hash d) hit)
              (combine (pv_docs v) hits)
  | None => false
  end.

(* ---------- distance sort ---------- *)

Fixpoint pairs_ok {A} (f : A -> A -> bool) (l : list A) : bool :=
  match l with
  | [] => true
  | a :: r => forallb (f a) r && pairs_ok f r
  end.

(* no hit is clearly farther (ascending) / clearly nearer (descending) than a later one *)
Definition ordered_by (desc : bool) (lo hi : list Z) (order : list Z) : bool :=
  let g l i := nth (Z.to_nat i) l 0 in
  pairs_ok (fun a b => if desc then g lo b <=? g hi a else g lo a <=? g hi b) order.

Definition is_perm_of_range (n : nat) (order : list Z) : bool :=
  (length order =? n)%nat &&
  forallb (fun i => (count_occ Z.eq_dec order (Z.of_nat i) =? 1)%nat) (seq 0 n).

Definition check_sort (desc : bool) (lo hi : list Z) (order : list Z) : bool :=
  (length lo =? length hi)%nat && is_perm_of_range (length lo) order && ordered_by desc lo hi order.

(* ---------- check / explain ---------- *)

Definition check (c : case) : bool :=
  match c with
  | CInterleave x y impl =>
      (interleave x y =? impl) &&
      (if in_grid x && in_grid y then
         (interleave_spec x y =? impl) && (morton_x impl =? x) && (morton_y impl =? y) else true)
  | CDeinterleave b impl =>
      (deinterleave b =? impl) && (if in_u64g b then deinterleave_spec b =? impl else true)
  | CHash lon lat impl => check_hash lon lat impl
  | CUnhash h lon lat => check_unhash h lon lat
  | CRange a b c d cb on_ not_ =>
      match model_range a b c d cb with
      | Some (m_on, m_not) => list_eqb Z.eqb m_on on_ && list_eqb Z.eqb m_not not_
      | None => false
      end
  | CBox e a b c d docs hits => check_box e a b c d docs hits
  | CShape e kind docs hits => check_shape e kind docs hits
  | CPoly e poly docs hits => check_poly e poly docs hits
  | CSort desc lo hi order => check_sort desc lo hi order
  end.

Inductive expl :=
| EZ (a b c : Z)
| EB (a b : bool)
| ERange (o : option (list Z * list Z))
| EDocs (early : bool) (spec : list Z) (model_ok : list bool) (points_ok : list (list bool))
      (* per document: spec verdict (1 must match, 0 must not, 2 either), does the
         implementation's answer agree with the model of the code in force *)
| ENone.

Definition explain (c : case) : expl :=
  match c with
  | CInterleave x y _ => EZ (interleave x y) (interleave_spec x y) 0
  | CDeinterleave b _ => EZ (deinterleave b) (deinterleave_spec b) 0
  | CHash lon lat h =>
      match f64_dyadic lon, f64_dyadic lat with
      | Some dl, Some da => let k := scale_of [dl; da] in
          EZ (interleave (scale_lon_exact k (to_S k dl)) (scale_lat_exact k (to_S k da)))
             (scale_lon_exact k (to_S k dl)) (scale_lat_exact k (to_S k da))
      | _, _ => ENone
      end
  | CUnhash h lon lat => EZ (morton_x h) (morton_y h) 0
  | CRange a b c d cb _ _ => ERange (model_range a b c d cb)
  | CBox e a b c d docs hits =>
      match box_view_of a b c d docs with
      | Some v =>
          let k := bv_k v in
          EDocs XGeo.rect_filter_early_return
                (map (fun d => tv_code (spec_doc_box k (bv_rects v) d)) (bv_docs v))
                (map (fun dh => model_allows_box e k XGeo.rect_filter_early_return (bv_rects v)
                                  (map s_hash (fst dh)) (snd dh)) (combine (bv_docs v) hits))
                (map (map (spt_ok k)) (bv_docs v))
      | None => ENone
      end
  | CShape e kind docs hits =>
      EDocs (shape_early kind) (map (fun d => tv_code (spec_doc_shape d)) docs)
            (map (fun dh => model_allows_shape e (shape_early kind) (fst dh) (snd dh)) (combine docs hits)) []
  | CPoly e poly docs hits =>
      match poly_view_of poly docs with
      | Some v =>
          let k := pv_k v in
          EDocs XGeo.polygon_filter_early_return
                (map (fun d => tv_code (spec_doc_poly k (pv_poly v) d)) (pv_docs v))
                (map (fun dh => model_allows_poly e k (pv_poly v) (pv_bb v) (map s_hash (fst dh)) (snd dh))
                     (combine (pv_docs v) hits))
                (map (map (spt_ok k)) (pv_docs v))
      | None => ENone
      end
  | CSort desc lo hi order => EB (is_perm_of_range (length lo) order) (ordered_by desc lo hi order)
  end.
