(* Geo engine - lemmas about the planar point-in-polygon model (Geo/Polygon.v).

   What is proved (for every polygon, every point, over the unbounded integers of S_k):
   * an edge can be given in either direction (ray_crosses_sym);
   * a closed ring is straddled an even number of times by every latitude (straddles_even);
   * the polygon (crossing parity) lies inside its bounding rectangle (pip_in_bounding_rect):
     this is why the candidate stage of the plain index - the box searcher on
     BoundingRectangleForPolygon, complete by Proofs.box_query_complete - loses no point the
     filter's parity test would accept; a candidate stage that is NOT a superset of the bounding
     rectangle (a spherical covering of the geodesic polygon, say) has no such guarantee;
   * on axis-parallel rectangles, in either orientation, the crossing parity is the half-open box
     x0 <= lon < x1, y0 <= lat < y1 (pip_rectangle, pip_rectangle_cw);
   * the verdict does not depend on the scale k of the integer domain (pip_scale);
   * the margin classes are exclusive, imply the parity verdict, and shrink when the margin grows.

   What is NOT proved (stated as [poly_stable_statement], no theorem): that the parity is the same
   at two points whose connecting segment stays farther than the margin from every edge - i.e.
   that testing the decoded point instead of the indexed one cannot change the verdict of a
   clearly-inside / clearly-outside point.  The per-edge indicators do change when the latitude
   passes a vertex (two adjacent edges swap), so this needs a ring argument that is not done here;
   the correspondence check evaluates BOTH sides on every generated case instead (SPEC on the
   indexed point with the margin, MODEL of the filter on the decoded point). *)
From Coq Require Import ZArith List Bool Lia.
From Verif Require Import Common.Bytes Numeric.Model Geo.Model Geo.Polygon.
Import ListNotations.
Local Open Scope Z_scope.

(* ---------- one edge ---------- *)

Lemma ray_crosses_sym : forall px py a b, ray_crosses px py (a, b) = ray_crosses px py (b, a).
Proof.
  intros px py [ax ay] [bx by_]. unfold ray_crosses.
  destruct (Z.ltb_spec py ay), (Z.ltb_spec py by_); cbn [Bool.eqb negb andb]; try reflexivity;
    destruct (Z.ltb_spec ay by_), (Z.ltb_spec by_ ay); lia.
Qed.

Definition straddles (py : Z) (e : edge) : bool := negb (Bool.eqb (py <? snd (fst e)) (py <? snd (snd e))).

Lemma ray_crosses_straddles : forall px py e, ray_crosses px py e = true -> straddles py e = true.
Proof.
  intros px py [[ax ay] [bx by_]]. unfold ray_crosses, straddles. cbn [fst snd].
  intros H. apply andb_true_iff in H. tauto.
Qed.

(* a point at or beyond the larger longitude of an edge is not crossed by it *)
Lemma ray_crosses_right : forall px py ax ay bx by_,
  ax <= px -> bx <= px -> ray_crosses px py ((ax, ay), (bx, by_)) = false.
Proof.
  intros. unfold ray_crosses.
  destruct (Z.ltb_spec py ay), (Z.ltb_spec py by_); cbn [Bool.eqb negb andb]; try reflexivity.
  - destruct (Z.ltb_spec ay by_); try lia.
    apply Z.ltb_ge. nia.
  - destruct (Z.ltb_spec ay by_); try lia.
    apply Z.ltb_ge. nia.
Qed.

(* a point left of both ends of an edge is crossed iff the edge straddles its latitude *)
Lemma ray_crosses_left : forall px py ax ay bx by_,
  px < ax -> px < bx -> ray_crosses px py ((ax, ay), (bx, by_)) = straddles py ((ax, ay), (bx, by_)).
Proof.
  intros. unfold ray_crosses, straddles. cbn [fst snd].
  destruct (Z.ltb_spec py ay), (Z.ltb_spec py by_); cbn [Bool.eqb negb andb]; try reflexivity.
  - destruct (Z.ltb_spec ay by_); try lia.
    apply Z.ltb_lt. nia.
  - destruct (Z.ltb_spec ay by_); try lia.
    apply Z.ltb_lt. nia.
Qed.

Lemma fold_left_ext_xor : forall (f g : edge -> bool) es acc,
  (forall e, f e = g e) ->
  fold_left (fun a e => xorb a (f e)) es acc = fold_left (fun a e => xorb a (g e)) es acc.
Proof. intros f g es. induction es; intros acc H; cbn [fold_left]; [reflexivity|]. rewrite H. now apply IHes. Qed.
(* ---------- parity over a list of edges ---------- *)

Lemma parity_fold_acc : forall (f : edge -> bool) es acc,
  fold_left (fun a e => xorb a (f e)) es acc = xorb acc (fold_left (fun a e => xorb a (f e)) es false).
Proof.
  intros f es. induction es as [|e es IH]; intros acc; cbn [fold_left].
  - now rewrite xorb_false_r.
  - rewrite IH. rewrite (IH (xorb false (f e))). rewrite xorb_false_l. now rewrite xorb_assoc.
Qed.

Lemma parity_cons : forall px py e es, parity px py (e :: es) = xorb (ray_crosses px py e) (parity px py es).
Proof. intros. unfold parity. cbn [fold_left]. rewrite parity_fold_acc. now rewrite xorb_false_l. Qed.

Lemma parity_nil : forall px py, parity px py [] = false.
Proof. reflexivity. Qed.

Lemma parity_none : forall px py es,
  (forall e, In e es -> ray_crosses px py e = false) -> parity px py es = false.
Proof.
  intros px py es. induction es as [|e es IH]; intros H; [reflexivity|].
  rewrite parity_cons, (H e (or_introl eq_refl)), IH; [reflexivity|]. intros; apply H; now right.
Qed.

Lemma parity_ext : forall px py (g : edge -> bool) es,
  (forall e, In e es -> ray_crosses px py e = g e) ->
  parity px py es = fold_left (fun a e => xorb a (g e)) es false.
Proof.
  intros px py g es. induction es as [|e es IH]; intros H; [reflexivity|].
  rewrite parity_cons. cbn [fold_left]. rewrite parity_fold_acc, xorb_false_l.
  rewrite (H e (or_introl eq_refl)), IH; [reflexivity|]. intros; apply H; now right.
Qed.

(* ---------- the closed chain ---------- *)

Lemma chain_In : forall vs prev e, In e (chain prev vs) ->
  (fst e = prev \/ In (fst e) vs) /\ In (snd e) vs.
Proof.
  induction vs as [|v r IH]; intros prev e H; cbn [chain] in H; [contradiction|].
  destruct H as [<-|H]; cbn [fst snd].
  - split; [now left | now left].
  - destruct (IH v e H) as [[Hf|Hf] Hs]; split; try (now right); right; [left; now symmetry | now right].
Qed.

Lemma last_In : forall (A : Type) (l : list A) d, l <> [] -> In (last l d) l.
Proof.
  induction l as [|a l IH]; intros d H; [congruence|].
  destruct l as [|b l]; [now left|]. right. apply IH. congruence.
Qed.

Lemma edges_In : forall poly e, In e (edges poly) -> In (fst e) poly /\ In (snd e) poly.
Proof.
  intros [|v0 r] e H; [contradiction|]. unfold edges in H.
  destruct (chain_In _ _ _ H) as [[Hf|Hf] Hs]; split; trivial.
  rewrite Hf. apply last_In. congruence.
Qed.


Lemma last_cons_cons : forall (A : Type) (a b : A) l d, last (a :: b :: l) d = last (b :: l) d.
Proof. reflexivity. Qed.

Lemma last_cons_default : forall (A : Type) (l : list A) (a d : A), last (a :: l) d = last l a.
Proof.
  intros A l. induction l as [|b l IH]; intros a d; [reflexivity|].
  rewrite last_cons_cons. rewrite (IH b d), (IH b a). reflexivity.
Qed.

Lemma last_nonempty_default : forall (A : Type) (l : list A) (a d d' : A), last (a :: l) d = last (a :: l) d'.
Proof. intros. now rewrite !last_cons_default. Qed.

(* along a chain the per-edge changes of a vertex predicate telescope *)
Lemma chain_xor : forall (s : vertex -> bool) vs prev,
  fold_left (fun a e => xorb a (xorb (s (fst e)) (s (snd e)))) (chain prev vs) false =
  xorb (s prev) (s (last vs prev)).
Proof.
  intros s vs. induction vs as [|v r IH]; intros prev; cbn [chain fold_left].
  - cbn [last]. now rewrite xorb_nilpotent.
  - rewrite parity_fold_acc, xorb_false_l, IH. cbn [fst snd].
    rewrite (last_cons_default _ r v prev).
    rewrite <- xorb_assoc. rewrite (xorb_assoc (s prev)). rewrite xorb_nilpotent, xorb_false_r. reflexivity.
Qed.

Lemma straddles_xor : forall py e,
  straddles py e = xorb ((fun v : vertex => py <? snd v) (fst e)) ((fun v : vertex => py <? snd v) (snd e)).
Proof. intros py [[ax ay] [bx by_]]. unfold straddles. cbn [fst snd]. now destruct (py <? ay), (py <? by_). Qed.

Lemma chain_straddles : forall py vs prev,
  fold_left (fun a e => xorb a (straddles py e)) (chain prev vs) false =
  xorb (py <? snd prev) (py <? snd (last vs prev)).
Proof.
  intros py vs prev.
  rewrite (fold_left_ext_xor (straddles py) _ (chain prev vs) false (straddles_xor py)).
  exact (chain_xor (fun v : vertex => py <? snd v) vs prev).
Qed.

(* a closed polygon is straddled an even number of times by any latitude *)
Lemma straddles_even : forall py poly,
  fold_left (fun a e => xorb a (straddles py e)) (edges poly) false = false.
Proof.
  intros py [|v0 r]; [reflexivity|]. unfold edges.
  rewrite chain_straddles.
  rewrite (last_nonempty_default _ r v0 (last (v0 :: r) v0) v0).
  apply xorb_nilpotent.
Qed.

(* ---------- the bounding rectangle ---------- *)

Definition grow (b : rect) (v : vertex) : rect :=
  {| rminx := Z.min (rminx b) (fst v); rminy := Z.min (rminy b) (snd v);
     rmaxx := Z.max (rmaxx b) (fst v); rmaxy := Z.max (rmaxy b) (snd v) |}.

Definition rect_has (b : rect) (v : vertex) : Prop :=
  rminx b <= fst v <= rmaxx b /\ rminy b <= snd v <= rmaxy b.
Definition rect_le (a b : rect) : Prop :=
  rminx b <= rminx a /\ rminy b <= rminy a /\ rmaxx a <= rmaxx b /\ rmaxy a <= rmaxy b.

Lemma fold_grow_spec : forall vs b,
  rect_le b (fold_left grow vs b) /\ forall v, In v vs -> rect_has (fold_left grow vs b) v.
Proof.
  induction vs as [|w vs IH]; intros b; cbn [fold_left].
  - split; [unfold rect_le; lia | intros v []].
  - destruct (IH (grow b w)) as [Hle Hin]. split.
    + unfold rect_le, grow in *; cbn [rminx rminy rmaxx rmaxy] in *. lia.
    + intros v [<-|Hv]; [|now apply Hin].
      unfold rect_le, rect_has, grow in *; cbn [rminx rminy rmaxx rmaxy] in *. lia.
Qed.

Lemma bounding_rect_has : forall poly bb v,
  bounding_rect poly = Some bb -> In v poly -> rect_has bb v.
Proof.
  intros [|[x0 y0] r] bb v H Hv; [discriminate|]. cbn [bounding_rect] in H. injection H as <-.
  change (fold_left _ r ?b) with (fold_left grow r b).
  destruct (fold_grow_spec r {| rminx := x0; rminy := y0; rmaxx := x0; rmaxy := y0 |}) as [Hle Hin].
  destruct Hv as [<-|Hv]; [|now apply Hin].
  unfold rect_le, rect_has in *; cbn [rminx rminy rmaxx rmaxy fst snd] in *. lia.
Qed.

(* ---------- the polygon lies inside its bounding rectangle ----------
   (why the candidate stage of the plain index - the box searcher on BoundingRectangleForPolygon -
   cannot lose a point the crossing-parity filter accepts) *)
Theorem pip_in_bounding_rect : forall poly bb px py,
  bounding_rect poly = Some bb -> pip poly px py = true ->
  rminx bb <= px < rmaxx bb /\ rminy bb <= py < rmaxy bb.
Proof.
  intros poly bb px py Hbb Hpip. unfold pip in Hpip.
  assert (Hv : forall e, In e (edges poly) -> rect_has bb (fst e) /\ rect_has bb (snd e)).
  { intros e He. destruct (edges_In _ _ He). split; eapply bounding_rect_has; eauto. }
  assert (Hx1 : px < rmaxx bb).
  { destruct (Z.lt_ge_cases px (rmaxx bb)) as [|Hge]; [assumption|]. exfalso.
    rewrite parity_none in Hpip; [discriminate|].
    intros [[ax ay] [bx by_]] He. destruct (Hv _ He) as [[Ha _] [Hb _]]. cbn [fst snd] in *.
    apply ray_crosses_right; lia. }
  assert (Hx0 : rminx bb <= px).
  { destruct (Z.le_gt_cases (rminx bb) px) as [|Hlt]; [assumption|]. exfalso.
    rewrite (parity_ext px py (straddles py)) in Hpip.
    - rewrite straddles_even in Hpip. discriminate.
    - intros [[ax ay] [bx by_]] He. destruct (Hv _ He) as [[Ha _] [Hb _]]. cbn [fst snd] in *.
      apply ray_crosses_left; lia. }
  assert (Hy : rminy bb <= py < rmaxy bb).
  { destruct (Z.le_gt_cases (rminy bb) py) as [Hlo|Hlo], (Z.lt_ge_cases py (rmaxy bb)) as [Hhi|Hhi]; try lia; exfalso.
    - (* py at or above every vertex: no edge straddles *)
      rewrite parity_none in Hpip; [discriminate|].
      intros [[ax ay] [bx by_]] He. destruct (Hv _ He) as [[_ Ha] [_ Hb]]. cbn [fst snd] in *.
      unfold ray_crosses. destruct (Z.ltb_spec py ay), (Z.ltb_spec py by_); try lia; reflexivity.
    - rewrite parity_none in Hpip; [discriminate|].
      intros [[ax ay] [bx by_]] He. destruct (Hv _ He) as [[_ Ha] [_ Hb]]. cbn [fst snd] in *.
      unfold ray_crosses. destruct (Z.ltb_spec py ay), (Z.ltb_spec py by_); try lia; reflexivity.
    - rewrite parity_none in Hpip; [discriminate|].
      intros [[ax ay] [bx by_]] He. destruct (Hv _ He) as [[_ Ha] [_ Hb]]. cbn [fst snd] in *.
      unfold ray_crosses. destruct (Z.ltb_spec py ay), (Z.ltb_spec py by_); try lia; reflexivity. }
  lia.
Qed.

Corollary pip_rect_contains : forall poly bb px py,
  bounding_rect poly = Some bb -> pip poly px py = true -> rect_contains px py bb = true.
Proof.
  intros poly bb px py Hbb Hpip. destruct (pip_in_bounding_rect _ _ _ _ Hbb Hpip).
  unfold rect_contains. rewrite !andb_true_iff, !Z.leb_le. lia.
Qed.

(* ---------- agreement with the box semantics on axis-parallel rectangles ---------- *)

Theorem pip_rectangle : forall x0 y0 x1 y1 px py, x0 < x1 -> y0 < y1 ->
  pip [(x0, y0); (x1, y0); (x1, y1); (x0, y1)] px py =
  (x0 <=? px) && (px <? x1) && (y0 <=? py) && (py <? y1).
Proof.
  intros. unfold pip, edges, parity. cbn [last chain fold_left]. unfold ray_crosses.
  destruct (Z.ltb_spec py y0), (Z.ltb_spec py y1), (Z.leb_spec x0 px), (Z.ltb_spec px x1), (Z.leb_spec y0 py);
    cbn [Bool.eqb negb andb xorb]; try lia;
    repeat match goal with |- context [?a <? ?b] => destruct (Z.ltb_spec a b) end; cbn [xorb negb andb]; try reflexivity; nia.
Qed.

Theorem pip_rectangle_cw : forall x0 y0 x1 y1 px py, x0 < x1 -> y0 < y1 ->
  pip [(x0, y1); (x1, y1); (x1, y0); (x0, y0)] px py =
  (x0 <=? px) && (px <? x1) && (y0 <=? py) && (py <? y1).
Proof.
  intros. unfold pip, edges, parity. cbn [last chain fold_left]. unfold ray_crosses.
  destruct (Z.ltb_spec py y0), (Z.ltb_spec py y1), (Z.leb_spec x0 px), (Z.ltb_spec px x1), (Z.leb_spec y0 py);
    cbn [Bool.eqb negb andb xorb]; try lia;
    repeat match goal with |- context [?a <? ?b] => destruct (Z.ltb_spec a b) end; cbn [xorb negb andb]; try reflexivity; nia.
Qed.

(* ---------- the verdict does not depend on the scale of the integer domain ----------
   (S_k is chosen per case; to_S (k+j) = 2^j * to_S k) *)

Definition scale_v (c : Z) (v : vertex) : vertex := (c * fst v, c * snd v).
Definition scale_e (c : Z) (e : edge) : edge := (scale_v c (fst e), scale_v c (snd e)).


Lemma last_map_v : forall c (l : list vertex) d, last (map (scale_v c) l) (scale_v c d) = scale_v c (last l d).
Proof. intros c l. induction l as [|a l IH]; intros d; [reflexivity|]. cbn [map]. destruct l as [|b l]; [reflexivity|]. cbn [map] in *. rewrite !last_cons_cons. apply IH. Qed.

Lemma ray_crosses_scale : forall c px py e, 0 < c ->
  ray_crosses (c * px) (c * py) (scale_e c e) = ray_crosses px py e.
Proof.
  intros c px py [[ax ay] [bx by_]] Hc. unfold scale_e, scale_v, ray_crosses. cbn [fst snd].
  assert (E1 : (c * py <? c * ay) = (py <? ay)).
  { destruct (Z.ltb_spec py ay), (Z.ltb_spec (c * py) (c * ay)); try reflexivity; nia. }
  assert (E2 : (c * py <? c * by_) = (py <? by_)).
  { destruct (Z.ltb_spec py by_), (Z.ltb_spec (c * py) (c * by_)); try reflexivity; nia. }
  assert (E3 : (c * ay <? c * by_) = (ay <? by_)).
  { destruct (Z.ltb_spec ay by_), (Z.ltb_spec (c * ay) (c * by_)); try reflexivity; nia. }
  rewrite E1, E2, E3. f_equal.
  replace ((c * px - c * ax) * (c * by_ - c * ay)) with (c * c * ((px - ax) * (by_ - ay))) by ring.
  replace ((c * bx - c * ax) * (c * py - c * ay)) with (c * c * ((bx - ax) * (py - ay))) by ring.
  assert (0 < c * c) by nia.
  destruct (ay <? by_);
    match goal with |- (?k * ?a <? ?k * ?b) = (?a <? ?b) =>
      destruct (Z.ltb_spec a b), (Z.ltb_spec (k * a) (k * b)); try reflexivity; nia end.
Qed.

Lemma chain_scale : forall c vs prev,
  chain (scale_v c prev) (map (scale_v c) vs) = map (scale_e c) (chain prev vs).
Proof. intros c vs. induction vs as [|v r IH]; intros prev; cbn [chain map]; [reflexivity|]. now rewrite IH. Qed.

Lemma edges_scale : forall c poly, edges (map (scale_v c) poly) = map (scale_e c) (edges poly).
Proof.
  intros c [|v0 r]; [reflexivity|]. unfold edges. cbn [map].
  change (scale_v c v0 :: map (scale_v c) r) with (map (scale_v c) (v0 :: r)).
  rewrite (last_map_v c (v0 :: r) v0). apply chain_scale.
Qed.

Theorem pip_scale : forall c poly px py, 0 < c ->
  pip (map (scale_v c) poly) (c * px) (c * py) = pip poly px py.
Proof.
  intros c poly px py Hc. unfold pip. rewrite edges_scale. unfold parity.
  generalize false. induction (edges poly) as [|e es IH]; intros acc; cbn [map fold_left]; [reflexivity|].
  rewrite ray_crosses_scale by assumption. apply IH.
Qed.

(* ---------- the margin classes ---------- *)

Lemma clearly_in_out_exclusive : forall m poly px py,
  clearly_in_poly m poly px py = true -> clearly_out_poly m poly px py = false.
Proof.
  unfold clearly_in_poly, clearly_out_poly. intros m poly px py H.
  apply andb_true_iff in H as [-> _]. reflexivity.
Qed.

Lemma clearly_in_inside : forall m poly px py, clearly_in_poly m poly px py = true -> pip poly px py = true.
Proof. unfold clearly_in_poly. intros m poly px py H. now apply andb_true_iff in H. Qed.

Lemma clearly_out_outside : forall m poly px py, clearly_out_poly m poly px py = true -> pip poly px py = false.
Proof. unfold clearly_out_poly. intros m poly px py H. apply andb_true_iff in H as [H _]. now apply negb_true_iff. Qed.

(* a larger margin classifies fewer points *)
Lemma far_from_edge_mono : forall m m' px py e, 0 <= m <= m' ->
  far_from_edge m' px py e = true -> far_from_edge m px py e = true.
Proof.
  intros m m' px py [[ax ay] [bx by_]] Hm. unfold far_from_edge.
  assert (m * m <= m' * m') by nia.
  set (l2 := (bx - ax) * (bx - ax) + (by_ - ay) * (by_ - ay)).
  assert (0 <= l2).
  { pose proof (Z.square_nonneg (bx - ax)). pose proof (Z.square_nonneg (by_ - ay)). unfold l2. lia. }
  destruct (_ <=? 0); [|destruct (l2 <=? _)]; rewrite !Z.ltb_lt; intros Hf.
  - lia.
  - lia.
  - assert (m * m * l2 <= m' * m' * l2) by (apply Z.mul_le_mono_nonneg_r; assumption). lia.
Qed.

Lemma far_from_boundary_mono : forall m m' poly px py, 0 <= m <= m' ->
  far_from_boundary m' poly px py = true -> far_from_boundary m poly px py = true.
Proof.
  unfold far_from_boundary. intros m m' poly px py Hm H. rewrite forallb_forall in *.
  intros e He. eapply far_from_edge_mono; eauto.
Qed.

(* the stability statement that would close the gap between "clearly inside" (a property of the
   indexed point) and "the filter accepts" (a property of the decoded point); see the header *)
Definition poly_stable_statement : Prop :=
  forall m poly px py qx qy, 0 <= m ->
    far_from_boundary m poly px py = true ->
    (qx - px) * (qx - px) + (qy - py) * (qy - py) <= m * m ->
    pip poly qx qy = pip poly px py.

(* ---------- the hypotheses above are satisfiable on non-trivial values ---------- *)

(* a concave (U-shaped) octagon, a point in its left arm, one in the notch, one far away *)
Definition ex_u : list vertex := [(0, 0); (90, 0); (90, 60); (70, 60); (70, 20); (20, 20); (20, 60); (0, 60)].
Example ex_u_arm : pip ex_u 10 40 = true /\ clearly_in_poly 5 ex_u 10 40 = true.
Proof. vm_compute. split; reflexivity. Qed.
Example ex_u_notch : pip ex_u 45 40 = false /\ clearly_out_poly 5 ex_u 45 40 = true.
Proof. vm_compute. split; reflexivity. Qed.
Example ex_u_near : clearly_in_poly 5 ex_u 3 40 = false /\ clearly_out_poly 5 ex_u 3 40 = false.
Proof. vm_compute. split; reflexivity. Qed.
Example ex_u_bounding : bounding_rect ex_u = Some {| rminx := 0; rminy := 0; rmaxx := 90; rmaxy := 60 |}.
Proof. reflexivity. Qed.
Example ex_u_scaled : pip (map (scale_v 7) ex_u) (7 * 10) (7 * 40) = true.
Proof. vm_compute. reflexivity. Qed.
Example ex_rectangle : pip [(-60, 50); (60, 50); (60, 60); (-60, 60)] 0 55 = true.
Proof. vm_compute. reflexivity. Qed.
