(* Geo engine — bit-level facts about numeric.Interleave / numeric.Deinterleave (Geo/Model.v).

   METHOD.  The magic-mask code is a fixed circuit over the 64 (or 2 x 32) input bits, so it is
   evaluated SYMBOLICALLY: a symbolic word is a list of 64 symbolic bits [sbit] (LSB first), each
   word operation of the code ([Z.lor], [Z.lxor], [Z.land _ mask], [shl64], [Z.shiftr]) has a
   symbolic twin proved sound on Z through [Z.bits_inj'], and [vm_compute] on the CLOSED symbolic
   circuit shows e.g. that deinterleave (interleave x y) is, bit for bit, the input word of x.
   The statements hold for ALL inputs in range; nothing is sampled. *)
From Coq Require Import ZArith List Bool Lia ZifyBool.
From Verif Require Import Common.Bytes Numeric.Model Geo.Model.
Import ListNotations. Local Open Scope Z_scope.

Ltac dm := Z.to_euclidean_division_equations; lia.

(* ---------- truncation ---------- *)

Lemma w64_two64 : w64 = two64.
Proof. reflexivity. Qed.

Lemma ones64_ones : ones64 = Z.ones 64.
Proof. reflexivity. Qed.

Lemma u64g_mod x : u64g x = x mod 2 ^ 64.
Proof. unfold u64g. rewrite ones64_ones. apply Z.land_ones. lia. Qed.

Lemma u64g_u64 x : u64g x = u64 x.
Proof. rewrite u64g_mod. reflexivity. Qed.

Lemma u64g_small x : 0 <= x < 2 ^ 64 -> u64g x = x.
Proof. intros Hx. rewrite u64g_mod. apply Z.mod_small. exact Hx. Qed.

Lemma shl64_one s : 0 <= s <= 63 -> shl64 1 s = 2 ^ s.
Proof.
  intros Hs. unfold shl64. rewrite Z.shiftl_mul_pow2 by lia. rewrite Z.mul_1_l.
  apply u64g_small. split; [ apply Z.pow_nonneg; lia | apply Z.pow_lt_mono_r; lia ].
Qed.

Lemma testbit_high x k n : 0 <= k -> 0 <= x < 2 ^ k -> k <= n -> Z.testbit x n = false.
Proof.
  intros Hk Hx Hn. rewrite <- (Z.mod_small x (2 ^ k)) by exact Hx.
  apply Z.mod_pow2_bits_high. lia.
Qed.

(* ---------- symbolic bits and words ---------- *)

Inductive sbit := SF | SV (inp : bool) (i : nat) | SOr (a b : sbit) | SXor (a b : sbit).

Fixpoint ev (env : bool -> nat -> bool) (s : sbit) : bool :=
  match s with
  | SF => false
  | SV b i => env b i
  | SOr a b => ev env a || ev env b
  | SXor a b => xorb (ev env a) (ev env b)
  end.

Definition mk_or (a b : sbit) : sbit :=
  match a, b with SF, _ => b | _, SF => a | _, _ => SOr a b end.
Definition mk_xor (a b : sbit) : sbit :=
  match a, b with SF, _ => b | _, SF => a | _, _ => SXor a b end.

Lemma ev_mk_or env a b : ev env (mk_or a b) = ev env a || ev env b.
Proof. destruct a, b; cbn [mk_or ev]; rewrite ?orb_false_r, ?orb_false_l; reflexivity. Qed.
Lemma ev_mk_xor env a b : ev env (mk_xor a b) = xorb (ev env a) (ev env b).
Proof. destruct a, b; cbn [mk_xor ev]; rewrite ?xorb_false_r, ?xorb_false_l; reflexivity. Qed.

Fixpoint wval (env : bool -> nat -> bool) (w : list sbit) : Z :=
  match w with
  | [] => 0
  | b :: w' => Z.b2z (ev env b) + 2 * wval env w'
  end.

Lemma wval_range env w : 0 <= wval env w < 2 ^ Z.of_nat (length w).
Proof.
  induction w as [|b w IH]; cbn [wval length].
  - cbn. lia.
  - rewrite Nat2Z.inj_succ, Z.pow_succ_r by lia. destruct (ev env b); cbn [Z.b2z]; lia.
Qed.

Lemma wval_testbit_nat env w : forall j, Z.testbit (wval env w) (Z.of_nat j) = ev env (nth j w SF).
Proof.
  induction w as [|b w IH]; intros j; cbn [wval].
  - rewrite Z.testbit_0_l. destruct j; reflexivity.
  - rewrite Z.add_comm. destruct j as [|j].
    + cbn [Z.of_nat nth]. apply Z.testbit_0_r.
    + rewrite Nat2Z.inj_succ, Z.testbit_succ_r by lia. cbn [nth]. apply IH.
Qed.

Lemma wval_testbit env w n : 0 <= n -> Z.testbit (wval env w) n = ev env (nth (Z.to_nat n) w SF).
Proof. intros Hn. rewrite <- (wval_testbit_nat env w (Z.to_nat n)), Z2Nat.id by exact Hn. reflexivity. Qed.

Definition wf (w : list sbit) : Prop := length w = 64%nat.

Lemma wf_high env w n : wf w -> 64 <= n -> ev env (nth (Z.to_nat n) w SF) = false.
Proof. intros Hw Hn. rewrite nth_overflow; [ reflexivity | rewrite Hw; lia ]. Qed.

Definition mk64 (f : nat -> sbit) : list sbit := map f (seq 0 64).

Lemma mk64_wf f : wf (mk64 f).
Proof. unfold wf, mk64. rewrite map_length, seq_length. reflexivity. Qed.

Lemma nth_mk64 f j : nth j (mk64 f) SF = if (j <? 64)%nat then f j else SF.
Proof.
  unfold mk64. destruct (Nat.ltb_spec j 64) as [Hlt|Hge].
  - rewrite (nth_indep _ SF (f 0%nat)) by (rewrite map_length, seq_length; exact Hlt).
    rewrite map_nth, seq_nth by exact Hlt. reflexivity.
  - apply nth_overflow. rewrite map_length, seq_length. exact Hge.
Qed.

Lemma testbit_mk64 env f n : 0 <= n ->
  Z.testbit (wval env (mk64 f)) n = if n <? 64 then ev env (f (Z.to_nat n)) else false.
Proof.
  intros Hn. rewrite wval_testbit by exact Hn. rewrite nth_mk64.
  destruct (Z.ltb_spec n 64) as [Hlt|Hge].
  - destruct (Nat.ltb_spec (Z.to_nat n) 64); [ reflexivity | lia ].
  - destruct (Nat.ltb_spec (Z.to_nat n) 64); [ lia | reflexivity ].
Qed.

(* ---------- symbolic word operations, sound on Z ---------- *)

Definition s_or (a b : list sbit) := mk64 (fun j => mk_or (nth j a SF) (nth j b SF)).
Definition s_xor (a b : list sbit) := mk64 (fun j => mk_xor (nth j a SF) (nth j b SF)).
Definition s_andc (a : list sbit) (m : Z) := mk64 (fun j => if Z.testbit m (Z.of_nat j) then nth j a SF else SF).
Definition s_shl (a : list sbit) (s : nat) := mk64 (fun j => if (j <? s)%nat then SF else nth (j - s) a SF).
Definition s_shr (a : list sbit) (s : nat) := mk64 (fun j => nth (j + s) a SF).

Lemma s_or_sound env a b : wf a -> wf b -> wval env (s_or a b) = Z.lor (wval env a) (wval env b).
Proof.
  intros Ha Hb. apply Z.bits_inj'. intros n Hn. unfold s_or.
  rewrite testbit_mk64, Z.lor_spec, !wval_testbit by exact Hn.
  destruct (Z.ltb_spec n 64) as [Hlt|Hge].
  - apply ev_mk_or.
  - rewrite !wf_high by assumption. reflexivity.
Qed.

Lemma s_xor_sound env a b : wf a -> wf b -> wval env (s_xor a b) = Z.lxor (wval env a) (wval env b).
Proof.
  intros Ha Hb. apply Z.bits_inj'. intros n Hn. unfold s_xor.
  rewrite testbit_mk64, Z.lxor_spec, !wval_testbit by exact Hn.
  destruct (Z.ltb_spec n 64) as [Hlt|Hge].
  - apply ev_mk_xor.
  - rewrite !wf_high by assumption. reflexivity.
Qed.

Lemma s_andc_sound env a m : wf a -> wval env (s_andc a m) = Z.land (wval env a) m.
Proof.
  intros Ha. apply Z.bits_inj'. intros n Hn. unfold s_andc.
  rewrite testbit_mk64, Z.land_spec, wval_testbit by exact Hn.
  destruct (Z.ltb_spec n 64) as [Hlt|Hge].
  - rewrite Z2Nat.id by exact Hn. destruct (Z.testbit m n).
    + rewrite andb_true_r. reflexivity.
    + rewrite andb_false_r. reflexivity.
  - rewrite wf_high by assumption. reflexivity.
Qed.

Lemma s_shl_sound env a s : wval env (s_shl a s) = shl64 (wval env a) (Z.of_nat s).
Proof.
  apply Z.bits_inj'. intros n Hn. unfold s_shl, shl64, u64g.
  rewrite testbit_mk64, Z.land_spec, ones64_ones, Z.testbit_ones, Z.shiftl_spec by lia.
  destruct (Z.ltb_spec n 64) as [Hlt|Hge].
  - replace (0 <=? n) with true by lia. rewrite andb_true_r.
    destruct (Nat.ltb_spec (Z.to_nat n) s) as [Hs|Hs].
    + rewrite Z.testbit_neg_r by lia. reflexivity.
    + rewrite wval_testbit by lia. replace (Z.to_nat (n - Z.of_nat s)) with (Z.to_nat n - s)%nat by lia.
      reflexivity.
  - rewrite andb_false_r, andb_false_r. reflexivity.
Qed.

Lemma s_shr_sound env a s : wf a -> wval env (s_shr a s) = Z.shiftr (wval env a) (Z.of_nat s).
Proof.
  intros Ha. apply Z.bits_inj'. intros n Hn. unfold s_shr.
  rewrite testbit_mk64, Z.shiftr_spec, wval_testbit by lia.
  replace (Z.to_nat (n + Z.of_nat s)) with (Z.to_nat n + s)%nat by lia.
  destruct (Z.ltb_spec n 64) as [Hlt|Hge].
  - reflexivity.
  - rewrite nth_overflow; [ reflexivity | rewrite Ha; lia ].
Qed.

(* ---------- word expressions: the code as a circuit ---------- *)

Inductive wexp :=
| WX | WY
| WOr (a b : wexp) | WXor (a b : wexp) | WAnd (a : wexp) (m : Z)
| WShl (a : wexp) (s : nat) | WShr (a : wexp) (s : nat).

Fixpoint weval (x y : Z) (e : wexp) : Z :=
  match e with
  | WX => x
  | WY => y
  | WOr a b => Z.lor (weval x y a) (weval x y b)
  | WXor a b => Z.lxor (weval x y a) (weval x y b)
  | WAnd a m => Z.land (weval x y a) m
  | WShl a s => shl64 (weval x y a) (Z.of_nat s)
  | WShr a s => Z.shiftr (weval x y a) (Z.of_nat s)
  end.

Fixpoint wsym (ix iy : list sbit) (e : wexp) : list sbit :=
  match e with
  | WX => ix
  | WY => iy
  | WOr a b => s_or (wsym ix iy a) (wsym ix iy b)
  | WXor a b => s_xor (wsym ix iy a) (wsym ix iy b)
  | WAnd a m => s_andc (wsym ix iy a) m
  | WShl a s => s_shl (wsym ix iy a) s
  | WShr a s => s_shr (wsym ix iy a) s
  end.

Lemma wsym_wf ix iy e : wf ix -> wf iy -> wf (wsym ix iy e).
Proof. intros Hx Hy. destruct e; cbn [wsym]; try assumption; apply mk64_wf. Qed.

Lemma wsym_sound env ix iy e : wf ix -> wf iy ->
  wval env (wsym ix iy e) = weval (wval env ix) (wval env iy) e.
Proof.
  intros Hx Hy. induction e as [| |a IHa b IHb|a IHa b IHb|a IHa m|a IHa s|a IHa s]; cbn [wsym weval].
  - reflexivity.
  - reflexivity.
  - rewrite s_or_sound by (apply wsym_wf; assumption). rewrite IHa, IHb. reflexivity.
  - rewrite s_xor_sound by (apply wsym_wf; assumption). rewrite IHa, IHb. reflexivity.
  - rewrite s_andc_sound by (apply wsym_wf; assumption). rewrite IHa. reflexivity.
  - rewrite s_shl_sound. rewrite IHa. reflexivity.
  - rewrite s_shr_sound by (apply wsym_wf; assumption). rewrite IHa. reflexivity.
Qed.

Definition il_e (v : wexp) (s : nat) (m : Z) : wexp := WAnd (WOr v (WShl v s)) m.
Definition spread_e (v : wexp) : wexp :=
  il_e (il_e (il_e (il_e (il_e v 16 magic4) 8 magic3) 4 magic2) 2 magic1) 1 magic0.
Definition interleave_e (a b : wexp) : wexp := WOr (WShl (spread_e b) 1) (spread_e a).
Definition dl_e (b : wexp) (s : nat) (m : Z) : wexp := WAnd (WXor b (WShr b s)) m.
Definition deinterleave_e (b : wexp) : wexp :=
  dl_e (dl_e (dl_e (dl_e (dl_e (WAnd b magic0) 1 magic1) 2 magic2) 4 magic3) 8 magic4) 16 magic5.

Lemma interleave_weval x y : interleave x y = weval x y (interleave_e WX WY).
Proof. reflexivity. Qed.
Lemma deinterleave_weval h y : deinterleave h = weval h y (deinterleave_e WX).
Proof. reflexivity. Qed.
Lemma deinterleave_shr_weval h y : deinterleave (Z.shiftr h 1) = weval h y (deinterleave_e (WShr WX 1)).
Proof. reflexivity. Qed.

(* ---------- input words ---------- *)

Definition genv (x y : Z) : bool -> nat -> bool :=
  fun b i => Z.testbit (if b then y else x) (Z.of_nat i).

(* the k low bits of input [b], zero above *)
Definition invec (b : bool) (k : nat) : list sbit := mk64 (fun j => if (j <? k)%nat then SV b j else SF).

Lemma invec_wf b k : wf (invec b k).
Proof. apply mk64_wf. Qed.

Lemma invec_val (x y : Z) (b : bool) (k : nat) : (k <= 64)%nat -> 0 <= (if b then y else x) < 2 ^ Z.of_nat k ->
  wval (genv x y) (invec b k) = if b then y else x.
Proof.
  intros Hk Hv. apply Z.bits_inj'. intros n Hn. unfold invec. rewrite testbit_mk64 by exact Hn.
  destruct (Z.ltb_spec n 64) as [Hlt|Hge].
  - destruct (Nat.ltb_spec (Z.to_nat n) k) as [Hs|Hs]; cbn [ev].
    + unfold genv. rewrite Z2Nat.id by exact Hn. reflexivity.
    + symmetry. apply testbit_high with (k := Z.of_nat k); [ lia | exact Hv | lia ].
  - symmetry. apply testbit_high with (k := Z.of_nat k); [ lia | exact Hv | lia ].
Qed.

Lemma invec_x x y k : (k <= 64)%nat -> 0 <= x < 2 ^ Z.of_nat k -> wval (genv x y) (invec false k) = x.
Proof. intros Hk Hx. apply (invec_val x y false k Hk Hx). Qed.
Lemma invec_y x y k : (k <= 64)%nat -> 0 <= y < 2 ^ Z.of_nat k -> wval (genv x y) (invec true k) = y.
Proof. intros Hk Hy. apply (invec_val x y true k Hk Hy). Qed.

(* ---------- the specs as words ---------- *)

Fixpoint ilist (n k : nat) : list sbit :=
  match n with O => [] | S n' => SV false k :: SV true k :: ilist n' (S k) end.
(* bits k, k+2, k+4, ... of input x *)
Fixpoint dlist (n k : nat) : list sbit :=
  match n with O => [] | S n' => SV false k :: dlist n' (S (S k)) end.

Lemma odd_shiftr a k : 0 <= k -> Z.odd (Z.shiftr a k) = Z.testbit a k.
Proof. intros Hk. rewrite <- Z.bit0_odd, Z.shiftr_spec by lia. rewrite Z.add_0_l. reflexivity. Qed.

Lemma ispec_wval x y n : forall k,
  interleave_spec_n n (Z.shiftr x (Z.of_nat k)) (Z.shiftr y (Z.of_nat k)) = wval (genv x y) (ilist n k).
Proof.
  induction n as [|n IH]; intros k; cbn [interleave_spec_n ilist wval ev].
  - reflexivity.
  - rewrite !Z.div2_spec, !Z.shiftr_shiftr by lia. rewrite !odd_shiftr by lia.
    replace (Z.of_nat k + 1) with (Z.of_nat (S k)) by lia. rewrite IH. unfold genv. ring.
Qed.

Lemma dspec_wval x y n : forall k,
  deinterleave_spec_n n (Z.shiftr x (Z.of_nat k)) = wval (genv x y) (dlist n k).
Proof.
  induction n as [|n IH]; intros k; cbn [deinterleave_spec_n dlist wval ev].
  - reflexivity.
  - rewrite Z.shiftr_shiftr by lia. rewrite odd_shiftr by lia.
    replace (Z.of_nat k + 2) with (Z.of_nat (S (S k))) by lia. rewrite IH. unfold genv. reflexivity.
Qed.

Lemma wval_app_SF env l m : wval env (l ++ repeat SF m) = wval env l.
Proof.
  induction l as [|b l IH]; cbn [app wval].
  - induction m as [|m IHm]; cbn [repeat wval ev Z.b2z]; [ reflexivity | rewrite IHm; reflexivity ].
  - rewrite IH. reflexivity.
Qed.

(* ---------- the closed circuits, evaluated ---------- *)

Lemma sym_interleave :
  wsym (invec false 32) (invec true 32) (interleave_e WX WY) = ilist 32 0.
Proof. vm_compute. reflexivity. Qed.

Lemma sym_deinterleave :
  wsym (invec false 64) (invec true 0) (deinterleave_e WX) = dlist 32 0 ++ repeat SF 32.
Proof. vm_compute. reflexivity. Qed.

Lemma sym_round_x :
  wsym (ilist 32 0) (ilist 32 0) (deinterleave_e WX) = invec false 32.
Proof. vm_compute. reflexivity. Qed.

Lemma sym_round_y :
  wsym (ilist 32 0) (ilist 32 0) (deinterleave_e (WShr WX 1)) = invec true 32.
Proof. vm_compute. reflexivity. Qed.

Lemma sym_round_h :
  wsym (wsym (invec false 64) (invec true 0) (deinterleave_e WX))
       (wsym (invec false 64) (invec true 0) (deinterleave_e (WShr WX 1)))
       (interleave_e WX WY) = invec false 64.
Proof. vm_compute. reflexivity. Qed.

Lemma ilist32_wf : wf (ilist 32 0).
Proof. reflexivity. Qed.

(* ---------- main theorems ---------- *)

Lemma interleave_word x y : 0 <= x < 2 ^ 32 -> 0 <= y < 2 ^ 32 ->
  interleave x y = wval (genv x y) (ilist 32 0).
Proof.
  intros Hx Hy.
  pose proof (wsym_sound (genv x y) (invec false 32) (invec true 32) (interleave_e WX WY)
                (invec_wf _ _) (invec_wf _ _)) as H.
  rewrite invec_x, invec_y in H by (try exact Hx; try exact Hy; lia).
  rewrite sym_interleave in H. rewrite interleave_weval. symmetry. exact H.
Qed.

Theorem interleave_eq_spec x y : 0 <= x < 2 ^ 32 -> 0 <= y < 2 ^ 32 -> interleave x y = interleave_spec x y.
Proof.
  intros Hx Hy. rewrite interleave_word by assumption. unfold interleave_spec.
  rewrite <- (ispec_wval x y 32 0). cbn [Z.of_nat]. rewrite !Z.shiftr_0_r. reflexivity.
Qed.

Theorem deinterleave_eq_spec h : 0 <= h < 2 ^ 64 -> deinterleave h = deinterleave_spec h.
Proof.
  intros Hh.
  pose proof (wsym_sound (genv h 0) (invec false 64) (invec true 0) (deinterleave_e WX)
                (invec_wf _ _) (invec_wf _ _)) as H.
  rewrite invec_x in H by (try exact Hh; lia).
  rewrite sym_deinterleave, wval_app_SF in H.
  rewrite (deinterleave_weval h (wval (genv h 0) (invec true 0))), <- H.
  unfold deinterleave_spec. rewrite <- (dspec_wval h 0 32 0). cbn [Z.of_nat]. rewrite Z.shiftr_0_r. reflexivity.
Qed.

Theorem deinterleave_interleave x y : 0 <= x < 2 ^ 32 -> 0 <= y < 2 ^ 32 ->
  morton_x (interleave x y) = x /\ morton_y (interleave x y) = y.
Proof.
  intros Hx Hy. unfold morton_x, morton_y. rewrite interleave_word by assumption. split.
  - rewrite (deinterleave_weval _ (wval (genv x y) (ilist 32 0))).
    rewrite <- wsym_sound by exact ilist32_wf. rewrite sym_round_x. apply invec_x; [ lia | exact Hx ].
  - rewrite (deinterleave_shr_weval _ (wval (genv x y) (ilist 32 0))).
    rewrite <- wsym_sound by exact ilist32_wf. rewrite sym_round_y. apply invec_y; [ lia | exact Hy ].
Qed.

Lemma interleave_range x y : 0 <= x < 2 ^ 32 -> 0 <= y < 2 ^ 32 -> 0 <= interleave x y < 2 ^ 64.
Proof.
  intros Hx Hy. rewrite interleave_word by assumption.
  apply (wval_range (genv x y) (ilist 32 0)).
Qed.

Lemma dspec_range n : forall h, 0 <= deinterleave_spec_n n h < 2 ^ Z.of_nat n.
Proof.
  induction n as [|n IH]; intros h; cbn [deinterleave_spec_n].
  - cbn. lia.
  - rewrite Nat2Z.inj_succ, Z.pow_succ_r by lia. specialize (IH (Z.shiftr h 2)).
    destruct (Z.odd h); cbn [Z.b2z]; lia.
Qed.

Lemma shiftr1_range h : 0 <= h < 2 ^ 64 -> 0 <= Z.shiftr h 1 < 2 ^ 64.
Proof.
  intros Hh. rewrite Z.shiftr_div_pow2 by lia. change (2 ^ 1) with 2.
  assert (H64 : 2 ^ 64 = 18446744073709551616) by reflexivity. rewrite H64 in *. dm.
Qed.

Lemma morton_xy_range h : 0 <= h < 2 ^ 64 -> (0 <= morton_x h < 2 ^ 32) /\ (0 <= morton_y h < 2 ^ 32).
Proof.
  intros Hh. unfold morton_x, morton_y.
  rewrite !deinterleave_eq_spec by (try apply shiftr1_range; exact Hh).
  split; apply (dspec_range 32).
Qed.

Theorem interleave_deinterleave h : 0 <= h < 2 ^ 64 -> interleave (morton_x h) (morton_y h) = h.
Proof.
  intros Hh. unfold morton_x, morton_y.
  set (ix := invec false 64). set (iy := invec true 0). set (env := genv h 0).
  assert (Hix : wval env ix = h) by (apply invec_x; [ lia | exact Hh ]).
  assert (Ex : deinterleave h = wval env (wsym ix iy (deinterleave_e WX))).
  { rewrite wsym_sound by apply invec_wf. rewrite Hix. apply deinterleave_weval. }
  assert (Ey : deinterleave (Z.shiftr h 1) = wval env (wsym ix iy (deinterleave_e (WShr WX 1)))).
  { rewrite wsym_sound by apply invec_wf. rewrite Hix. apply deinterleave_shr_weval. }
  rewrite Ex, Ey, interleave_weval.
  rewrite <- wsym_sound by (apply wsym_wf; apply invec_wf).
  unfold ix, iy. rewrite sym_round_h. exact Hix.
Qed.

(* ---------- Morton prefix cells ---------- *)

Lemma dspec_cell n : forall r s h, 0 <= r -> 0 <= s -> s mod 2 ^ r = 0 -> s <= h < s + 2 ^ r ->
  deinterleave_spec_n n s <= deinterleave_spec_n n h <= deinterleave_spec_n n (s + 2 ^ r - 1).
Proof.
  induction n as [|n IH]; intros r s h Hr Hs Hmod Hh; cbn [deinterleave_spec_n].
  - lia.
  - rewrite !Z.shiftr_div_pow2 by lia. change (2 ^ 2) with 4.
    destruct (Z.eq_dec r 0) as [->|Hr0].
    { change (2 ^ 0) with 1 in *. replace h with s by lia. replace (s + 1 - 1) with s by lia. lia. }
    destruct (Z.eq_dec r 1) as [->|Hr1].
    { change (2 ^ 1) with 2 in *. replace (s + 2 - 1) with (s + 1) by lia.
      assert (Hos : Z.odd s = false).
      { pose proof (Zmod_odd s) as Ho. destruct (Z.odd s); [ lia | reflexivity ]. }
      assert (Hos1 : Z.odd (s + 1) = true).
      { rewrite Z.add_comm. replace s with (2 * (s / 2)) by dm. rewrite Z.odd_add_mul_2. reflexivity. }
      assert (Hd : (s + 1) / 4 = s / 4) by dm.
      rewrite Hos, Hos1, Hd. cbn [Z.b2z].
      assert (Hc : h = s \/ h = s + 1) by lia.
      destruct Hc as [->| ->]; rewrite ?Hos, ?Hos1, ?Hd; cbn [Z.b2z]; lia. }
    set (p := 2 ^ (r - 2)).
    assert (Hp : 0 < p) by (apply Z.pow_pos_nonneg; lia).
    assert (Hpow : 2 ^ r = 4 * p).
    { unfold p. replace r with (2 + (r - 2)) at 1 by lia. rewrite Z.pow_add_r by lia. reflexivity. }
    rewrite Hpow in *.
    assert (Hq : s = 4 * (p * (s / (4 * p)))).
    { pose proof (Z.div_mod s (4 * p)) as Hdm. lia. }
    set (q := s / (4 * p)) in *.
    assert (Hs4 : s / 4 = p * q) by dm.
    assert (Hmod' : (p * q) mod 2 ^ (r - 2) = 0).
    { fold p. rewrite Z.mul_comm. apply Z_mod_mult. }
    assert (Hh4 : p * q <= h / 4 < p * q + 2 ^ (r - 2)) by (fold p; dm).
    assert (Hlast : (s + 4 * p - 1) / 4 = p * q + 2 ^ (r - 2) - 1) by (fold p; dm).
    assert (Hpq : 0 <= p * q) by lia.
    pose proof (IH (r - 2) (p * q) (h / 4) ltac:(lia) Hpq Hmod' Hh4) as IH'.
    rewrite Hs4, Hlast.
    assert (Hos : Z.odd s = false).
    { rewrite Hq. replace (4 * (p * q)) with (0 + 2 * (2 * (p * q))) by lia.
      rewrite Z.odd_add_mul_2. reflexivity. }
    assert (Hol : Z.odd (s + 4 * p - 1) = true).
    { replace (s + 4 * p - 1) with (1 + 2 * (2 * (p * q) + 2 * p - 1)) by lia.
      rewrite Z.odd_add_mul_2. reflexivity. }
    rewrite Hos, Hol. destruct (Z.odd h); cbn [Z.b2z]; lia.
Qed.

Lemma cell_corners_x s r h : 0 <= r <= 64 -> 0 <= s -> s mod 2 ^ r = 0 -> s + 2 ^ r <= 2 ^ 64 ->
  s <= h < s + 2 ^ r -> morton_x s <= morton_x h <= morton_x (s + 2 ^ r - 1).
Proof.
  intros Hr Hs Hmod Hle Hh. unfold morton_x.
  assert (Hp : 0 < 2 ^ r) by (apply Z.pow_pos_nonneg; lia).
  rewrite !deinterleave_eq_spec by lia. unfold deinterleave_spec.
  apply dspec_cell; [ lia | exact Hs | exact Hmod | exact Hh ].
Qed.

Lemma cell_corners_y s r h : 0 <= r <= 64 -> 0 <= s -> s mod 2 ^ r = 0 -> s + 2 ^ r <= 2 ^ 64 ->
  s <= h < s + 2 ^ r -> morton_y s <= morton_y h <= morton_y (s + 2 ^ r - 1).
Proof.
  intros Hr Hs Hmod Hle Hh. unfold morton_y.
  destruct (Z.eq_dec r 0) as [->|Hr0].
  { change (2 ^ 0) with 1 in *. replace h with s by lia. replace (s + 1 - 1) with s by lia. lia. }
  set (p := 2 ^ (r - 1)).
  assert (Hp : 0 < p) by (apply Z.pow_pos_nonneg; lia).
  assert (Hpow : 2 ^ r = 2 * p).
  { unfold p. replace r with (1 + (r - 1)) at 1 by lia. rewrite Z.pow_add_r by lia. reflexivity. }
  rewrite Hpow in *.
  rewrite !deinterleave_eq_spec by (apply shiftr1_range; lia). unfold deinterleave_spec.
  rewrite !Z.shiftr_div_pow2 by lia. change (2 ^ 1) with 2.
  assert (Hq : s = 2 * (p * (s / (2 * p)))).
  { pose proof (Z.div_mod s (2 * p)) as Hdm. lia. }
  set (q := s / (2 * p)) in *.
  assert (Hs2 : s / 2 = p * q) by dm.
  assert (Hmod' : (p * q) mod 2 ^ (r - 1) = 0).
  { fold p. rewrite Z.mul_comm. apply Z_mod_mult. }
  assert (Hh2 : p * q <= h / 2 < p * q + 2 ^ (r - 1)) by (fold p; dm).
  assert (Hlast : (s + 2 * p - 1) / 2 = p * q + 2 ^ (r - 1) - 1) by (fold p; dm).
  rewrite Hs2, Hlast. apply dspec_cell; [ lia | lia | exact Hmod' | exact Hh2 ].
Qed.

(* ---------- bit view of the interleave spec ---------- *)

Lemma nth_ilist n : forall k j, (j < n)%nat ->
  nth (2 * j) (ilist n k) SF = SV false (k + j) /\ nth (S (2 * j)) (ilist n k) SF = SV true (k + j).
Proof.
  induction n as [|n IH]; intros k j Hj; [ lia | ].
  destruct j as [|j].
  - cbn [Nat.mul Nat.add ilist nth]. rewrite Nat.add_0_r. split; reflexivity.
  - replace (2 * S j)%nat with (S (S (2 * j))) by lia. cbn [ilist nth].
    replace (k + S j)%nat with (S k + j)%nat by lia. apply IH. lia.
Qed.

Lemma interleave_spec_testbit x y i : 0 <= x < 2 ^ 32 -> 0 <= y < 2 ^ 32 -> 0 <= i < 32 ->
  Z.testbit (interleave_spec x y) (2 * i) = Z.testbit x i /\
  Z.testbit (interleave_spec x y) (2 * i + 1) = Z.testbit y i.
Proof.
  intros Hx Hy Hi. unfold interleave_spec.
  pose proof (ispec_wval x y 32 0) as H. cbn [Z.of_nat] in H. rewrite !Z.shiftr_0_r in H. rewrite H.
  destruct (nth_ilist 32 0 (Z.to_nat i) ltac:(lia)) as [He Ho].
  split.
  - replace (2 * i) with (Z.of_nat (2 * Z.to_nat i)) by lia.
    rewrite wval_testbit_nat, He. cbn [ev]. unfold genv. cbn [Nat.add]. rewrite Z2Nat.id by lia. reflexivity.
  - replace (2 * i + 1) with (Z.of_nat (S (2 * Z.to_nat i))) by lia.
    rewrite wval_testbit_nat, Ho. cbn [ev]. unfold genv. cbn [Nat.add]. rewrite Z2Nat.id by lia. reflexivity.
Qed.

Print Assumptions w64_two64.
Print Assumptions u64g_u64.
Print Assumptions u64g_mod.
Print Assumptions u64g_small.
Print Assumptions shl64_one.
Print Assumptions interleave_eq_spec.
Print Assumptions deinterleave_eq_spec.
Print Assumptions deinterleave_interleave.
Print Assumptions interleave_range.
Print Assumptions morton_xy_range.
Print Assumptions interleave_deinterleave.
Print Assumptions cell_corners_x.
Print Assumptions cell_corners_y.
Print Assumptions interleave_spec_testbit.
