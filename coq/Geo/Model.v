(* Geo engine — executable model (definitions only; proofs live in Geo/Proofs*.v).

   Transcribed from /repo:
     numeric/bin.go                 Interleave, Deinterleave (the magic-mask bit tricks)
     geo/geo.go                     MortonHash, MortonUnhashLon/Lat, scaleLon/Lat, unscaleLon/Lat,
                                    compareGeo, BoundingBoxContains, RectIntersects, RectWithin
     document/field_geopoint.go     GeoPointField.Analyze (terms at shift 0, 9, 18, ..., 63)
     search/searcher/search_geoboundingbox.go
                                    ComputeGeoRange / computeGeoRange / relateAndRecurse,
                                    buildRectFilter, NewGeoBoundingBoxSearcher (Morton path)
     search/searcher/search_geopointdistance.go   boxSearcher (date-line split), buildDistFilter
     search/searcher/search_geopolygon.go         buildPolygonFilter (the doc-value visitor only)
     search/query/geo_boundingbox.go              GeoBoundingBoxQuery.Searcher (date-line split)

   NUMBERS.  A grid coordinate is a Z in [0, 2^32); a Morton code / uint64 is a Z in [0, 2^64);
   every place where the Go code can drop high bits is written with [shl64]/[u64].

   WHAT IS NOT MODELLED (the claim for C18 is "proof, partial"):
   * float64 rounding.  The Go code decodes a grid coordinate with
         unscaleLon x = float64(x) / lonScale + (-180),  lonScale = float64(2^32-1)/360.0
     (two roundings, plus the rounding inside the constant lonScale) and encodes with
         scaleLon lon = uint64((lon - (-180)) * lonScale)      (truncation of a rounded product).
     The model uses the exact rational maps  lon(x) = x*360/(2^32-1) - 180,
     lat(y) = y*180/(2^32-1) - 90  (NOTE the denominator 2^32-1, not 2^32: this is what
     geo.go's lonScale/latScale say) and  x = floor((lon+180)*(2^32-1)/360).  The decoded value
     differs from the Go float by < 2^-40 degrees (checked on every run by the CUnhash cases);
     at x = 0 and x = 2^32-1 the Go result is exactly -180/-90 and 180/90 (also checked).  Every
     float comparison the code makes is therefore reproduced by the model unless the two compared
     numbers are closer than that; Geo/Corr.v detects those situations (it evaluates the model on
     the query box shrunk and grown by [slop] and requires agreement) instead of guessing.
   * trigonometry: geo.Haversin, RectFromPointDistance, the polygon ray casting in floats, and the
     s2 tokeniser.  For circles and polygons the model starts from a three-valued classification
     of each (point, shape) pair supplied with the case (see Geo/Corr.v).

   SCALED INTEGERS.  All real quantities are kept as integers in the domain
         S_k :  v  |->  v * D * 2^k          D = 2^32 - 1,  k >= 80 chosen per case
   (multiplication by 2^k is written [Z.shiftl _ k], which is cheap under vm_compute)
   so that decoded grid coordinates ([lon_S], [lat_S]), float64 query coordinates (dyadic
   rationals m*2^e, [to_S]) and the constants 180, 90, geoTolerance are all exact integers and are
   compared with Z comparisons (i.e. by cross-multiplication). *)
From Coq Require Import ZArith List Bool.
From Verif Require Import Common.Bytes Numeric.Model.
Import ListNotations.
Local Open Scope Z_scope.

(* ---------- numeric/bin.go ---------- *)

Definition magic0 : Z := 0x5555555555555555.
Definition magic1 : Z := 0x3333333333333333.
Definition magic2 : Z := 0x0F0F0F0F0F0F0F0F.
Definition magic3 : Z := 0x00FF00FF00FF00FF.
Definition magic4 : Z := 0x0000FFFF0000FFFF.
Definition magic5 : Z := 0x00000000FFFFFFFF.

(* Truncation to uint64, written with a mask: [Z.modulo] costs ~50 us per call under vm_compute
   and the cell recursion truncates a few hundred thousand times per case.
   Proofs.u64g_u64: u64g x = Numeric.Model.u64 x = x mod 2^64 for every x. *)
Definition w64 : Z := 18446744073709551616.                    (* 2^64 *)
Definition ones64 : Z := 0xFFFFFFFFFFFFFFFF.
Definition u64g (x : Z) : Z := Z.land x ones64.

(* Go's [v << s] on uint64 *)
Definition shl64 (v s : Z) : Z := u64g (Z.shiftl v s).

(* v = (v | (v << s)) & m *)
Definition il_stage (v s m : Z) : Z := Z.land (Z.lor v (shl64 v s)) m.

Definition spread (v : Z) : Z :=
  il_stage (il_stage (il_stage (il_stage (il_stage v 16 magic4) 8 magic3) 4 magic2) 2 magic1) 1 magic0.

(* Interleave(v1, v2) = (spread v2 << 1) | spread v1 : v1 on the even bits, v2 on the odd bits *)
Definition interleave (v1 v2 : Z) : Z := Z.lor (shl64 (spread v2) 1) (spread v1).

(* b = (b ^ (b >> s)) & m *)
Definition dl_stage (b s m : Z) : Z := Z.land (Z.lxor b (Z.shiftr b s)) m.

Definition deinterleave (b : Z) : Z :=
  dl_stage (dl_stage (dl_stage (dl_stage (dl_stage (Z.land b magic0) 1 magic1) 2 magic2) 4 magic3) 8 magic4) 16 magic5.

(* SPEC, written without the masks: bit 2i of the result is bit i of x, bit 2i+1 is bit i of y. *)
Fixpoint interleave_spec_n (n : nat) (x y : Z) : Z :=
  match n with
  | O => 0
  | S n' => Z.b2z (Z.odd x) + 2 * Z.b2z (Z.odd y) + 4 * interleave_spec_n n' (Z.div2 x) (Z.div2 y)
  end.
Definition interleave_spec (x y : Z) : Z := interleave_spec_n 32 x y.

(* bit i of the result is bit 2i of h *)
Fixpoint deinterleave_spec_n (n : nat) (h : Z) : Z :=
  match n with
  | O => 0
  | S n' => Z.b2z (Z.odd h) + 2 * deinterleave_spec_n n' (Z.shiftr h 2)
  end.
Definition deinterleave_spec (h : Z) : Z := deinterleave_spec_n 32 h.

(* ---------- geo/geo.go: Morton hash on the grid ---------- *)

Definition geo_bits : Z := 32.                                   (* geo.GeoBits *)
Definition two32 : Z := 4294967296.
Definition D : Z := 4294967295.                                  (* (uint64(1)<<GeoBits) - 1 = 2^32 - 1 *)

Definition in_grid (x : Z) : bool := (0 <=? x) && (x <? two32).

(* MortonHash after scaling: lon index on even bits, lat index on odd bits *)
Definition morton (x y : Z) : Z := interleave x y.
Definition morton_x (h : Z) : Z := deinterleave h.                (* MortonUnhashLon before unscale *)
Definition morton_y (h : Z) : Z := deinterleave (Z.shiftr h 1).   (* MortonUnhashLat before unscale *)

(* decoded coordinates in S_k (exact rational maps; see header) *)
Definition c180D : Z := 773094113100.                            (* 180 * D *)
Definition c90D : Z := 386547056550.                             (* 90 * D *)
Definition lon_S (k x : Z) : Z := Z.shiftl (x * 360 - c180D) k.
Definition lat_S (k y : Z) : Z := Z.shiftl (y * 180 - c90D) k.
Definition unhash_lon_S (k h : Z) : Z := lon_S k (morton_x h).
Definition unhash_lat_S (k h : Z) : Z := lat_S k (morton_y h).

(* the constants in S_k *)
Definition c180_S (k : Z) : Z := Z.shiftl c180D k.
Definition c90_S (k : Z) : Z := Z.shiftl c90D k.
Definition res_lon_S (k : Z) : Z := Z.shiftl 360 k.      (* one grid step 360/D *)
Definition res_lat_S (k : Z) : Z := Z.shiftl 180 k.      (* one grid step 180/D *)

(* scaleLon/scaleLat as exact maps followed by truncation (no float rounding): the grid index
   of a coordinate given in S_k, for lon in [-180,180], lat in [-90,90] *)
Definition scale_lon_exact (k l : Z) : Z := (l + c180_S k) / res_lon_S k.
Definition scale_lat_exact (k l : Z) : Z := (l + c90_S k) / res_lat_S k.

(* float64 bit pattern -> dyadic rational m * 2^e (None for NaN / Inf) *)
Record dyadic := { dm : Z; de : Z }.
Definition f64_dyadic (bits : Z) : option dyadic :=
  let sgn := if two63 <=? bits then -1 else 1 in
  let ex := Z.shiftr bits 52 mod 2048 in
  let fr := bits mod 2 ^ 52 in
  if ex =? 2047 then None
  else if ex =? 0 then Some {| dm := sgn * fr; de := -1074 |}
  else Some {| dm := sgn * (2 ^ 52 + fr); de := ex - 1075 |}.

Definition min_scale : Z := 80.
Definition scale_of (ds : list dyadic) : Z := fold_left (fun k d => Z.max k (- de d)) ds min_scale.
(* value of d in S_k; exact when de d + k >= 0, which [scale_of] guarantees *)
Definition to_S (k : Z) (d : dyadic) : Z := Z.shiftl (dm d) (de d + k) * D.

(* geoTolerance = 1e-6 as a float64: 0x3EB0C6F7A0B5ED8D = 4722366482869645 * 2^-72 *)
Definition geo_tolerance_bits : Z := 0x3EB0C6F7A0B5ED8D.
Definition tol_S (k : Z) : Z := Z.shiftl 4722366482869645 (k - 72) * D.     (* k >= 72 *)

(* ---------- rectangles (geo.go) ---------- *)

Record rect := { rminx : Z; rminy : Z; rmaxx : Z; rmaxy : Z }.

(* RectIntersects(a, b) *)
Definition rect_intersects (a b : rect) : bool :=
  negb ((rmaxx a <? rminx b) || (rmaxx b <? rminx a) || (rmaxy a <? rminy b) || (rmaxy b <? rminy a)).

(* RectWithin(a, b): a within b *)
Definition rect_within (a b : rect) : bool :=
  negb ((rminx a <? rminx b) || (rminy a <? rminy b) || (rmaxx b <? rmaxx a) || (rmaxy b <? rmaxy a)).

(* compareGeo: sign-carrying difference, zero within the tolerance *)
Definition compare_geo (tol a b : Z) : Z :=
  let c := a - b in if Z.abs c <=? tol then 0 else c.

(* BoundingBoxContains(lon, lat, minLon, minLat, maxLon, maxLat) *)
Definition bbox_contains (tol lon lat : Z) (q : rect) : bool :=
  (0 <=? compare_geo tol lon (rminx q)) && (compare_geo tol lon (rmaxx q) <=? 0) &&
  (0 <=? compare_geo tol lat (rminy q)) && (compare_geo tol lat (rmaxy q) <=? 0).

(* plain containment (no tolerance): the SPEC's "the point lies inside the box" *)
Definition rect_contains (lon lat : Z) (q : rect) : bool :=
  (rminx q <=? lon) && (lon <=? rmaxx q) && (rminy q <=? lat) && (lat <=? rmaxy q).

(* ---------- the cell recursion (search_geoboundingbox.go) ---------- *)

Definition geo_precision_step : Z := 9.                                   (* document.GeoPrecisionStep *)
Definition geo_bits_shift1 : Z := Z.shiftl geo_bits 1.                     (* GeoBitsShift1 = 64 *)
Definition geo_bits_shift1_minus1 : Z := geo_bits_shift1 - 1.              (* 63 *)
Definition geo_max_shift : Z := geo_precision_step * 4.                    (* geoMaxShift = 36 *)
Definition geo_detail_level : Z := (Z.shiftl geo_bits 1 - geo_max_shift) / 2.   (* geoDetailLevel = 14 *)

(* shifts a geopoint value is indexed under (GeoPointField.Analyze): 0, 9, ..., 63 *)
Definition geo_index_shifts : list Z := [0; 9; 18; 27; 36; 45; 54; 63].
Definition geo_index_terms (h : Z) : list bytes := index_terms geo_precision_step h.

Record cell := { c_start : Z; c_res : Z; c_on_boundary : bool }.

(* numeric.NewPrefixCodedInt64(int64(start), res): [encode] re-reads its argument as uint64, so the
   int64 conversion in the Go call cancels *)
Definition cell_term (c : cell) : option bytes := encode (c_start c) (c_res c).

(* does Morton code h lie in the cell, i.e. does h share the bits above c_res with c_start *)
Definition covers (c : cell) (h : Z) : bool := Z.shiftr h (c_res c) =? Z.shiftr (c_start c) (c_res c).

Inductive action := Emit (on_boundary : bool) | Recurse | Drop.

(* computeGeoRange: the two halves (start, end) of the cell [term] at [shift] *)
Definition children (term shift : Z) : (Z * Z) * (Z * Z) :=
  let split := Z.lor term (shl64 1 shift) in
  let upperMax := if shift <? 63 then Z.lor term (u64g (shl64 1 (shift + 1) - 1)) else w64 - 1 in
  ((term, u64g (split - 1)), (split, upperMax)).

Section Recursion.
  (* the decision relateAndRecurse takes for the cell (start, end, res); None = refuse to decide
     (never for the model's own [relate_action]; used by Geo/Corr.v to stop when a float
     comparison of the real code is too close to call) *)
  Variable decide : Z -> Z -> Z -> option action.

  (* None = out of fuel, a refused decision, or [res-1] on res = 0 (uint wrap-around; unreachable,
     see Proofs.compute_fuel_sufficient).  The list is in the order the Go code appends;
     onBoundary / notOnBoundary are its two sublists. *)
  Fixpoint compute_gen (fuel : nat) (term shift : Z) : option (list cell) :=
    match fuel with
    | O => None
    | S f =>
        let go (se : Z * Z) :=
          match decide (fst se) (snd se) shift with
          | Some (Emit b) => Some [ {| c_start := fst se; c_res := shift; c_on_boundary := b |} ]
          | Some Recurse => if shift <=? 0 then None else compute_gen f (fst se) (shift - 1)
          | Some Drop => Some []
          | None => None
          end in
        match go (fst (children term shift)), go (snd (children term shift)) with
        | Some a, Some b => Some (a ++ b)
        | _, _ => None
        end
    end.

  (* The same recursion followed only along the cells that contain Morton code [h]:
     Some (Some c) = the emitted cell covering h, Some None = h is in no emitted cell.
     (Proofs.point_walk_spec: agrees with membership in compute_gen's result.) *)
  Fixpoint walk_gen (fuel : nat) (h term shift : Z) : option (option cell) :=
    match fuel with
    | O => None
    | S f =>
        let se := if Z.testbit h shift then snd (children term shift) else fst (children term shift) in
        match decide (fst se) (snd se) shift with
        | Some (Emit b) => Some (Some {| c_start := fst se; c_res := shift; c_on_boundary := b |})
        | Some Recurse => if shift <=? 0 then None else walk_gen f h (fst se) (shift - 1)
        | Some Drop => Some None
        | None => None
        end
    end.
End Recursion.

Definition geo_range_fuel : nat := 64.

Section Range.
  (* decoders of a grid coordinate and the query rectangle, in one common ordered domain *)
  Variables (dlon dlat : Z -> Z) (q : rect) (check_boundaries : bool).

  (* corners as relateAndRecurse computes them: MortonUnhashLon/Lat of start and of end *)
  Definition cell_rect (start end_ : Z) : rect :=
    {| rminx := dlon (morton_x start); rminy := dlat (morton_y start);
       rmaxx := dlon (morton_x end_); rmaxy := dlat (morton_y end_) |}.

  Definition level_of (res : Z) : Z := Z.shiftr (geo_bits_shift1 - res) 1.

  (* the three-way decision of relateAndRecurse, given the decoded corners r of the cell *)
  Definition relate_rect (r : rect) (res : Z) : action :=
    let within := (res mod geo_precision_step =? 0) && rect_within r q in
    if within || ((level_of res =? geo_detail_level) && rect_intersects r q)
    then Emit (negb within && check_boundaries)
    else if (level_of res <? geo_detail_level) && rect_intersects r q
         then Recurse else Drop.

  Definition relate_action (start end_ res : Z) : action := relate_rect (cell_rect start end_) res.

  Definition compute_geo_range (fuel : nat) (term shift : Z) : option (list cell) :=
    compute_gen (fun s e r => Some (relate_action s e r)) fuel term shift.

  (* ComputeGeoRange(ctx, 0, GeoBitsShift1Minus1, ...) *)
  Definition compute_geo_range_top : option (list cell) :=
    compute_geo_range geo_range_fuel 0 geo_bits_shift1_minus1.

  Definition point_walk (fuel : nat) (h term shift : Z) : option (option cell) :=
    walk_gen (fun s e r => Some (relate_action s e r)) fuel h term shift.
  Definition point_walk_top (h : Z) : option (option cell) :=
    point_walk geo_range_fuel h 0 geo_bits_shift1_minus1.
End Range.

(* terms handed to the two multi-term searchers, after the isIndexed dictionary probe *)
Definition on_boundary_terms (is_indexed : bytes -> bool) (cs : list cell) : list bytes :=
  flat_map (fun c => match cell_term c with
                     | Some t => if c_on_boundary c && is_indexed t then [t] else []
                     | None => [] end) cs.
Definition not_on_boundary_terms (is_indexed : bytes -> bool) (cs : list cell) : list bytes :=
  flat_map (fun c => match cell_term c with
                     | Some t => if negb (c_on_boundary c) && is_indexed t then [t] else []
                     | None => [] end) cs.

(* ---------- the post-filters ---------- *)

(* The doc-value visitor of buildRectFilter / buildDistFilter / buildPolygonFilter, over the
   document's shift-0 values in the order VisitDocValues presents them: with the
   [if found { return }] first statement only the first one is collected. *)
Definition visited_values (early_return : bool) (vals : list Z) : list Z :=
  if early_return then firstn 1 vals else vals.

(* the filter proper: some collected value passes the point predicate *)
Definition doc_filter (early_return : bool) (P : Z -> bool) (vals : list Z) : bool :=
  existsb P (visited_values early_return vals).

(* SPEC (property statement): the document passes iff SOME of its values does *)
Definition doc_filter_spec (P : Z -> bool) (vals : list Z) : bool := existsb P vals.

(* buildRectFilter's point predicate on a Morton code *)
Definition rect_point_pred (k tol : Z) (q : rect) (h : Z) : bool :=
  bbox_contains tol (unhash_lon_S k h) (unhash_lat_S k h) q.

(* scorch presents a document's doc values in term order; for shift-0 terms that is ascending
   int64(morton) (Numeric: encode_order), equal values merged *)
Fixpoint insert_sorted (key : Z -> Z) (x : Z) (l : list Z) : list Z :=
  match l with
  | [] => [x]
  | y :: l' => if key x <? key y then x :: l
               else if key x =? key y then l else y :: insert_sorted key x l'
  end.
Definition dv_order_sorted (vals : list Z) : list Z :=
  fold_left (fun acc v => insert_sorted wrap64 v acc) vals [].

(* search/sort.go SortGeoDistance.Value: the sort key of a hit is the shift-0 prefix-coded sortable
   int64 of its distance (a float64 bit pattern; the distance itself comes from geo.Haversin,
   not modelled), compared bytewise by the collector *)
Definition distance_sort_key (dist_bits : Z) : option bytes := encode (f2i dist_bits) 0.

(* ---------- NewGeoBoundingBoxSearcher (Morton path) on one document ---------- *)

(* a document (shift-0 values [vals], in doc-value order) is returned by the box searcher iff it
   holds a not-on-boundary term, or holds an on-boundary term and passes the rect filter *)
Definition box_doc_match (cs : list cell) (filt : bool) (vals : list Z) : bool :=
  existsb (fun h => existsb (fun c => covers c h && (negb (c_on_boundary c) || filt)) cs) vals.

(* the same through point_walk (one emitted cell at most covers a given h) *)
Definition box_doc_match_walk (k : Z) (q : rect) (check_boundaries filt : bool) (vals : list Z) : option bool :=
  fold_left (fun acc h =>
    match acc, point_walk_top (lon_S k) (lat_S k) q check_boundaries h with
    | Some a, Some (Some c) => Some (a || (negb (c_on_boundary c) || filt))
    | Some a, Some None => Some a
    | _, _ => None
    end) vals (Some false).

(* ---------- date-line split (GeoBoundingBoxQuery.Searcher, searcher.boxSearcher) ---------- *)

(* a query box as given: top-left (lon,lat), bottom-right (lon,lat), in S_k *)
Record qbox := { tl_lon : Z; tl_lat : Z; br_lon : Z; br_lat : Z }.

Definition split_dateline (k : Z) (b : qbox) : list rect :=
  if br_lon b <? tl_lon b then
    [ {| rminx := - c180_S k; rminy := br_lat b; rmaxx := br_lon b; rmaxy := tl_lat b |};
      {| rminx := tl_lon b; rminy := br_lat b; rmaxx := c180_S k; rmaxy := tl_lat b |} ]
  else [ {| rminx := tl_lon b; rminy := br_lat b; rmaxx := br_lon b; rmaxy := tl_lat b |} ].

(* SPEC: the region a (possibly date-line crossing) box denotes *)
Definition qbox_contains (b : qbox) (lon lat : Z) : bool :=
  (br_lat b <=? lat) && (lat <=? tl_lat b) &&
  (if br_lon b <? tl_lon b then (tl_lon b <=? lon) || (lon <=? br_lon b)
   else (tl_lon b <=? lon) && (lon <=? br_lon b)).
