(* Geo engine — distance sort keys order as the computed distances.  This is C07's
   [numeric_sort_correct] (Numeric/ProofsEnc.v) specialised to non-negative, non-NaN distances. *)
From Coq Require Import ZArith List Bool Lia ZifyBool.
From Verif Require Import Common.Bytes Numeric.Model Numeric.ProofsEnc Geo.Model.
Import ListNotations.
Local Open Scope Z_scope.

Theorem distance_sort_monotone a b ta tb :
  0 <= a < 2 ^ 63 -> 0 <= b < 2 ^ 63 -> is_nan a = false -> is_nan b = false ->
  distance_sort_key a = Some ta -> distance_sort_key b = Some tb ->
  bcompare ta tb = f_compare a b.
Proof.
  intros Ha Hb Na Nb Ea Eb. unfold distance_sort_key in *.
  apply numeric_sort_correct; auto.
  - apply in_u64_iff. lia.
  - apply in_u64_iff. lia.
  - unfold is_neg_zero. change two63 with (2 ^ 63). lia.
  - unfold is_neg_zero. change two63 with (2 ^ 63). lia.
Qed.

(* 1.5 km and 2 km (as metres): keys exist and compare as the numbers *)
Example distance_sort_ex :
  let a := 0x4097700000000000 in let b := 0x409F400000000000 in
  0 <= a < 2 ^ 63 /\ 0 <= b < 2 ^ 63 /\ is_nan a = false /\ is_nan b = false /\
  (exists ta tb, distance_sort_key a = Some ta /\ distance_sort_key b = Some tb /\ bcompare ta tb = Lt) /\
  f_compare a b = Lt.
Proof. vm_compute. repeat split; try discriminate. eexists _, _. repeat split. Qed.
