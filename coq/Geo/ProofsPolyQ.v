(* Geo engine - the integer crossing test of Geo/Polygon.v IS the comparison written in the Go
   source (search_geopolygon.go rayIntersectsSegment), read over the rationals: the division by
   b.Lat - a.Lat is removed by cross-multiplication, keeping (positive divisor) or reversing
   (negative divisor) the comparison.  Coordinates are arbitrary integers (any scale S_k). *)
From Coq Require Import ZArith List Bool Lia QArith.
From Verif Require Import Common.Bytes Numeric.Model Geo.Model Geo.Polygon.
Local Open Scope Z_scope.

(* rayIntersectsSegment's second conjunct as written in the Go source, over the rationals:
     point.Lon < (b.Lon-a.Lon)*(point.Lat-a.Lat)/(b.Lat-a.Lat)+a.Lon *)
Definition go_crossing_Q (px py ax ay bx by_ : Z) : Prop :=
  (inject_Z px < inject_Z (bx - ax) * inject_Z (py - ay) / inject_Z (by_ - ay) + inject_Z ax)%Q.

Lemma Qlt_div_pos : forall (p n d : Z), 0 < d -> ((inject_Z p < inject_Z n / inject_Z d)%Q <-> p * d < n).
Proof.
  intros p n d Hd. unfold Qlt, Qdiv, Qmult, Qinv, inject_Z. cbn [Qnum Qden].
  destruct d as [|d|d]; try lia. cbn [Qnum Qden Z.mul]. 
  rewrite !Z.mul_1_r. rewrite Pos.mul_1_l. lia.
Qed.

Lemma Qlt_div_neg : forall (p n d : Z), d < 0 -> ((inject_Z p < inject_Z n / inject_Z d)%Q <-> n < p * d).
Proof.
  intros p n d Hd. unfold Qlt, Qdiv, Qmult, Qinv, inject_Z. cbn [Qnum Qden].
  destruct d as [|d|d]; try lia. cbn [Qnum Qden Z.mul].
  rewrite !Z.mul_1_r. rewrite Pos.mul_1_l. lia.
Qed.

Theorem ray_crosses_spec : forall px py ax ay bx by_,
  ray_crosses px py ((ax, ay), (bx, by_)) = true <->
  ((py <? ay) <> (py <? by_)) /\ go_crossing_Q px py ax ay bx by_.
Proof.
  intros. unfold ray_crosses, go_crossing_Q.
  assert (E : forall q n d : Q, (q < n / d + inject_Z ax <-> q - inject_Z ax < n / d)%Q).
  { intros q n d. split; intros H.
    - apply (Qplus_lt_l _ _ (inject_Z ax)).
      setoid_replace (q - inject_Z ax + inject_Z ax)%Q with q by ring. exact H.
    - apply (Qplus_lt_l _ _ (inject_Z ax)) in H.
      setoid_replace (q - inject_Z ax + inject_Z ax)%Q with q in H by ring. exact H. }
  rewrite E.
  assert (Ei : (inject_Z px - inject_Z ax == inject_Z (px - ax))%Q).
  { unfold Zminus. rewrite inject_Z_plus, inject_Z_opp. reflexivity. }
  rewrite Ei. rewrite <- inject_Z_mult.
  destruct (Z.ltb_spec py ay), (Z.ltb_spec py by_); cbn [Bool.eqb negb andb].
  - split; [discriminate | intros [Hc _]; congruence].
  - destruct (Z.ltb_spec ay by_); try lia.
    rewrite Qlt_div_neg by lia. rewrite Z.ltb_lt. split; [intros; split; [discriminate|assumption] | tauto].
  - destruct (Z.ltb_spec ay by_); try lia.
    rewrite Qlt_div_pos by lia. rewrite Z.ltb_lt. split; [intros; split; [discriminate|assumption] | tauto].
  - split; [discriminate | intros [Hc _]; congruence].
Qed.

(* non-vacuous: an edge crossed by the ray, one not crossed, one not straddled *)
Example ray_crosses_ex : ray_crosses 0 5 ((3, 0), (7, 10)) = true /\ ray_crosses 6 5 ((3, 0), (7, 10)) = false /\
  ray_crosses 0 5 ((3, 10), (7, 0)) = true /\ ray_crosses 0 11 ((3, 0), (7, 10)) = false.
Proof. vm_compute. repeat split; reflexivity. Qed.
