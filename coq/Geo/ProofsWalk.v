(* Geo engine — the per-point walk used by the correspondence check (Geo/Corr.v) computes the same
   verdict as the full cell recursion, and Corr's [safe_decide] only ever refuses, never changes,
   a relateAndRecurse decision. *)
From Coq Require Import ZArith List Bool Lia ZifyBool.
From Verif Require Import Common.Bytes Numeric.Model Geo.Model Geo.ProofsBits Geo.Proofs Geo.Corr.
Import ListNotations.
Local Open Scope Z_scope.

(* ---------- a decision function that refuses more, decides the same ---------- *)

Section Refine.
  Variables decide decide' : Z -> Z -> Z -> option action.
  Hypothesis refines : forall s e r a, decide' s e r = Some a -> decide s e r = Some a.

  Definition go_gen (d : Z -> Z -> Z -> option action) (f : nat) (shift : Z) (se : Z * Z) : option (list cell) :=
    match d (fst se) (snd se) shift with
    | Some (Emit b) => Some [ {| c_start := fst se; c_res := shift; c_on_boundary := b |} ]
    | Some Recurse => if shift <=? 0 then None else compute_gen d f (fst se) (shift - 1)
    | Some Drop => Some []
    | None => None
    end.

  Lemma compute_gen_S d f term shift :
    compute_gen d (S f) term shift =
    match go_gen d f shift (fst (children term shift)), go_gen d f shift (snd (children term shift)) with
    | Some a, Some b => Some (a ++ b)
    | _, _ => None
    end.
  Proof. reflexivity. Qed.

  Lemma compute_gen_refines : forall fuel term shift cs,
    compute_gen decide' fuel term shift = Some cs -> compute_gen decide fuel term shift = Some cs.
  Proof.
    induction fuel as [|f IH]; intros term shift cs H; [discriminate|].
    rewrite compute_gen_S in *.
    assert (Hgo : forall se l, go_gen decide' f shift se = Some l -> go_gen decide f shift se = Some l).
    { intros se l Hl. unfold go_gen in *.
      destruct (decide' (fst se) (snd se) shift) as [a|] eqn:E; [|discriminate].
      rewrite (refines _ _ _ _ E). destruct a; auto.
      destruct (shift <=? 0); [discriminate|]. apply IH. exact Hl. }
    destruct (go_gen decide' f shift (fst (children term shift))) as [a|] eqn:Ea; [|discriminate].
    destruct (go_gen decide' f shift (snd (children term shift))) as [b|] eqn:Eb; [|discriminate].
    rewrite (Hgo _ _ Ea), (Hgo _ _ Eb). exact H.
  Qed.

  Lemma walk_gen_refines : forall fuel h term shift o,
    walk_gen decide' fuel h term shift = Some o -> walk_gen decide fuel h term shift = Some o.
  Proof.
    induction fuel as [|f IH]; intros h term shift o H; [discriminate|].
    cbn [walk_gen] in *.
    set (se := if Z.testbit h shift then snd (children term shift) else fst (children term shift)) in *.
    destruct (decide' (fst se) (snd se) shift) as [a|] eqn:E; [|discriminate].
    rewrite (refines _ _ _ _ E). destruct a; auto.
    destruct (shift <=? 0); [discriminate|]. apply IH. exact H.
  Qed.
End Refine.

Lemma safe_decide_refines k q cb s e r a :
  safe_decide k q cb s e r = Some a -> Some (relate_action (lon_S k) (lat_S k) q cb s e r) = Some a.
Proof.
  unfold safe_decide, relate_action. destruct (_ && _); [auto|discriminate].
Qed.

(* what Corr predicts from a safe walk / safe range is what the model's own recursion computes *)
Theorem safe_walk_sound k q cb h o :
  safe_walk k q cb h = Some o -> point_walk_top (lon_S k) (lat_S k) q cb h = Some o.
Proof.
  unfold safe_walk, point_walk_top, point_walk.
  apply walk_gen_refines. intros s e r a. apply safe_decide_refines.
Qed.

Theorem safe_range_sound k q cb cs :
  safe_range k q cb = Some cs -> compute_geo_range_top (lon_S k) (lat_S k) q cb = Some cs.
Proof.
  unfold safe_range, compute_geo_range_top, compute_geo_range.
  apply compute_gen_refines. intros s e r a. apply safe_decide_refines.
Qed.

(* ---------- the per-point walk decides document membership as the full term list does ---------- *)

Section WalkMatch.
  Variables (k : Z) (q : rect) (cb filt : bool) (cs : list cell).
  Hypothesis Hcs : compute_geo_range_top (lon_S k) (lat_S k) q cb = Some cs.

  Lemma walk_point_match h : 0 <= h < 2 ^ 64 ->
    exists o, point_walk_top (lon_S k) (lat_S k) q cb h = Some o /\
      existsb (fun c => covers c h && (negb (c_on_boundary c) || filt)) cs =
      match o with Some c => negb (c_on_boundary c) || filt | None => false end.
  Proof.
    intros Hh.
    destruct (point_walk_spec (lon_S k) (lat_S k) q cb cs h Hcs Hh) as (o & Ho & Hiff).
    exists o. split; [exact Ho|].
    destruct o as [c|].
    - destruct (proj1 (Hiff c) eq_refl) as [Hin Hcov].
      destruct (negb (c_on_boundary c) || filt) eqn:E.
      + apply existsb_exists. exists c. split; [exact Hin|]. rewrite Hcov, E. reflexivity.
      + apply not_true_is_false. intros Hex. apply existsb_exists in Hex as (c' & Hin' & Hc').
        apply andb_true_iff in Hc' as [Hcov' Hv].
        assert (Some c = Some c') as Heq by (apply Hiff; split; assumption).
        inversion Heq; subst c'. congruence.
    - apply not_true_is_false. intros Hex. apply existsb_exists in Hex as (c' & Hin' & Hc').
      apply andb_true_iff in Hc' as [Hcov' _].
      assert (None = Some c') as Heq by (apply Hiff; split; assumption). discriminate.
  Qed.

  Lemma fold_match (pw : Z -> option (option cell)) (E : Z -> bool) vals :
    (forall h, In h vals -> exists o, pw h = Some o /\
        E h = match o with Some c => negb (c_on_boundary c) || filt | None => false end) ->
    forall acc, fold_left (fun acc h =>
        match acc, pw h with
        | Some a, Some (Some c) => Some (a || (negb (c_on_boundary c) || filt))
        | Some a, Some None => Some a
        | _, _ => None
        end) vals (Some acc) = Some (acc || existsb E vals).
  Proof.
    induction vals as [|h l IH]; intros Hall acc; cbn [fold_left existsb].
    - rewrite orb_false_r. reflexivity.
    - destruct (Hall h (or_introl eq_refl)) as (o & Ho & He). rewrite Ho, He.
      destruct o as [c|]; rewrite IH by (intros; apply Hall; right; assumption);
        [rewrite !orb_assoc|]; reflexivity.
  Qed.

  Theorem box_doc_match_walk_eq vals : Forall (fun h => 0 <= h < 2 ^ 64) vals ->
    box_doc_match_walk k q cb filt vals = Some (box_doc_match cs filt vals).
  Proof.
    intros Hall.
    exact (fold_match (point_walk_top (lon_S k) (lat_S k) q cb)
             (fun h => existsb (fun c => covers c h && (negb (c_on_boundary c) || filt)) cs) vals
             (fun h Hin => walk_point_match h (proj1 (Forall_forall _ _) Hall h Hin)) false).
  Qed.
End WalkMatch.
