(* Text engine (C19) — executable model, DEFINITIONS ONLY.

   Transcribed from /repo:
     analysis/type.go                         Token, TokenStream, DefaultAnalyzer.Analyze
     unicode/utf8 (Go stdlib)                 DecodeRune, DecodeLastRune, RuneLen, EncodeRune, RuneCount
     analysis/tokenizer/character/character.go CharacterTokenizer.Tokenize   (letter, whitespace instances)
     analysis/tokenizer/single/single.go      SingleTokenTokenizer.Tokenize
     analysis/token/{lowercase,length,truncate,stop,unique,ngram,edgengram,shingle,keyword,
                     apostrophe,elision,reverse}/*.go   the Filter methods
     analysis/util.go                         BuildTermFromRunes, TruncateRunes
     search/highlight/term_locations.go       Overlaps, MergeOverlapping, OrderTermLocations
     search/highlight/fragmenter/simple/simple.go   Fragmenter.Fragment
     search/highlight/format/{html,ansi}/*.go       FragmentFormatter.Format
     search/highlight/highlighter/simple/highlighter_simple.go  the separator decoration

   Conventions: byte strings and rune strings are [list Z]; Go ints are unbounded [Z] (no
   arithmetic in this code can wrap for inputs that fit in memory); a Go slice expression
   [s[a:b]] is [slice s a b : option bytes], [None] = the run-time panic "slice bounds out of
   range" (the capacity is taken to be the length — see the note at [reverse_cur]); where the
   code provably slices in range the total [sub] is used and the proof obligations are in
   Proofs.v.  Loops over a byte string that advance by a decoded width are written as
   structural recursion over the remaining suffix with a [skip] counter (the bytes of the
   current rune still to be stepped over), which is the same iteration without fuel.  Loops
   whose index moves backwards use explicit fuel and return [RPanic]/[None] when it runs out. *)
From Coq Require Import ZArith List Bool.
From Verif Require Import Common.Bytes.
Import ListNotations.
Local Open Scope Z_scope.

(* ------------------------------------------------------------------ basics *)

Definition zlen {A} (l : list A) : Z := Z.of_nat (length l).

(* s[a:b] when it is known to be in range *)
Definition sub (s : list Z) (a b : Z) : list Z :=
  firstn (Z.to_nat (b - a)) (skipn (Z.to_nat a) s).

Definition in_range (n a b : Z) : bool := (0 <=? a) && (a <=? b) && (b <=? n).

(* s[a:b] as Go evaluates it: panics unless 0 <= a <= b <= cap(s) *)
Definition slice (s : list Z) (a b : Z) : option (list Z) :=
  if in_range (zlen s) a b then Some (sub s a b) else None.

Fixpoint mem_bytes (x : bytes) (l : list bytes) : bool :=
  match l with [] => false | y :: l' => beqb x y || mem_bytes x l' end.

Fixpoint memZ (x : Z) (l : list Z) : bool :=
  match l with [] => false | y :: l' => (x =? y) || memZ x l' end.

(* a, a+1, ..., b *)
Definition zrange (a b : Z) : list Z :=
  map (fun k => a + Z.of_nat k) (seq 0 (Z.to_nat (b - a + 1))).

(* ------------------------------------------------------------------ tokens and the contract *)

Record token := mkTok {
  t_term : bytes; t_start : Z; t_end : Z; t_pos : Z; t_type : Z; t_kw : bool }.

(* analysis.TokenType *)
Definition AlphaNumeric : Z := 0.
Definition Shingle : Z := 4.

Definition set_term (t : token) (b : bytes) : token :=
  mkTok b (t_start t) (t_end t) (t_pos t) (t_type t) (t_kw t).

(* SPEC: the token-stream contract of the property statement:
   0 <= Start <= End <= len, starts non-decreasing, positions positive and non-decreasing *)
Fixpoint valid_from (len lastStart lastPos : Z) (ts : list token) : bool :=
  match ts with
  | [] => true
  | t :: r =>
      (0 <=? t_start t) && (t_start t <=? t_end t) && (t_end t <=? len) &&
      (lastStart <=? t_start t) && (1 <=? t_pos t) && (lastPos <=? t_pos t) &&
      valid_from len (t_start t) (t_pos t) r
  end.
Definition valid_stream (len : Z) (ts : list token) : bool := valid_from len 0 0 ts.

(* the part of the contract a token FILTER's output is held to: every token's span lies in the text *)
Definition span_ok (len : Z) (t : token) : bool :=
  (0 <=? t_start t) && (t_start t <=? t_end t) && (t_end t <=? len).
Definition valid_offsets (len : Z) (ts : list token) : bool := forallb (span_ok len) ts.
(* ... and the part that does not mention the text length *)
Definition ordered_offsets (ts : list token) : bool :=
  forallb (fun t => (0 <=? t_start t) && (t_start t <=? t_end t)) ts.

(* ------------------------------------------------------------------ UTF-8 as Go decodes it *)

Definition RuneError : Z := 65533.
Definition is_cont (b : Z) : bool := (128 <=? b) && (b <=? 191).

(* utf8.DecodeRune: (rune, width).  Empty input => (RuneError, 0); any invalid or short
   encoding => (RuneError, 1).  The [first]/[acceptRanges] tables are written as comparisons:
   lead bytes 0x80..0xC1 and 0xF5..0xFF are invalid; the second byte of E0 must be >= A0,
   of ED <= 9F (surrogates), of F0 >= 90, of F4 <= 8F. *)
Definition decode_rune (p : bytes) : Z * Z :=
  match p with
  | [] => (RuneError, 0)
  | p0 :: r1 =>
      if p0 <? 128 then (p0, 1)
      else if (p0 <? 194) || (244 <? p0) then (RuneError, 1)
      else
        let sz := if p0 <? 224 then 2 else if p0 <? 240 then 3 else 4 in
        let lo := if p0 =? 224 then 160 else if p0 =? 240 then 144 else 128 in
        let hi := if p0 =? 237 then 159 else if p0 =? 244 then 143 else 191 in
        match r1 with
        | [] => (RuneError, 1)
        | b1 :: r2 =>
            if (b1 <? lo) || (hi <? b1) then (RuneError, 1)
            else if sz =? 2 then ((p0 mod 32) * 64 + b1 mod 64, 2)
            else
              match r2 with
              | [] => (RuneError, 1)
              | b2 :: r3 =>
                  if negb (is_cont b2) then (RuneError, 1)
                  else if sz =? 3 then ((p0 mod 16) * 4096 + (b1 mod 64) * 64 + b2 mod 64, 3)
                  else
                    match r3 with
                    | [] => (RuneError, 1)
                    | b3 :: _ =>
                        if negb (is_cont b3) then (RuneError, 1)
                        else ((p0 mod 8) * 262144 + (b1 mod 64) * 4096 + (b2 mod 64) * 64 + b3 mod 64, 4)
                    end
              end
        end
  end.

(* bytes of a rune of width w still to be stepped over after its first byte *)
Definition skip_of (w : Z) : nat := Nat.pred (Z.to_nat w).

(* utf8.RuneStart *)
Definition rune_start (b : Z) : bool := negb (is_cont b).

(* utf8.DecodeLastRune.  Go looks back from the last byte over at most UTFMax-1 = 3 earlier
   bytes for the nearest one that is not a continuation byte, decodes forward from there and
   accepts only if that rune ends exactly at the end; every other case is (RuneError, 1).
   (If no start byte is found among the three, Go decodes from [lim-1] or 0, which yields a
   width that cannot reach the end, or starts on a continuation byte: RuneError, 1.)
   Written over the reversed string: c0 is the last byte, c1 the one before, ... *)
Definition decode_last_rune (p : bytes) : Z * Z :=
  match rev p with
  | [] => (RuneError, 0)
  | c0 :: r =>
      if c0 <? 128 then (c0, 1)
      else
        let try (seg : bytes) (k : Z) :=
          let '(rn, size) := decode_rune seg in
          if size =? k then (rn, size) else (RuneError, 1) in
        match r with
        | [] => (RuneError, 1)
        | c1 :: r1 =>
            if rune_start c1 then try [c1; c0] 2
            else match r1 with
                 | [] => (RuneError, 1)
                 | c2 :: r2 =>
                     if rune_start c2 then try [c2; c1; c0] 3
                     else match r2 with
                          | [] => (RuneError, 1)
                          | c3 :: _ =>
                              if rune_start c3 then try [c3; c2; c1; c0] 4 else (RuneError, 1)
                          end
                 end
        end
  end.

(* utf8.RuneLen *)
Definition rune_len (r : Z) : Z :=
  if r <? 0 then -1 else if r <? 128 then 1 else if r <? 2048 then 2
  else if (55296 <=? r) && (r <=? 57343) then -1
  else if r <? 65536 then 3 else if r <=? 1114111 then 4 else -1.

(* utf8.EncodeRune (invalid runes are written as U+FFFD) *)
Definition encode_rune (r : Z) : bytes :=
  if (0 <=? r) && (r <? 128) then [r]
  else if (0 <=? r) && (r <? 2048) then [192 + r / 64; 128 + r mod 64]
  else if (r <? 0) || (1114111 <? r) || ((55296 <=? r) && (r <=? 57343)) then [239; 191; 189]
  else if r <? 65536 then [224 + r / 4096; 128 + (r / 64) mod 64; 128 + r mod 64]
  else [240 + r / 262144; 128 + (r / 4096) mod 64; 128 + (r / 64) mod 64; 128 + r mod 64].

(* the runes of a byte string with the width each one occupies in it: what the idiom
   [for i := 0; i < len(s); i += size { r, size := utf8.DecodeRune(s[i:]) }] visits,
   equally [bytes.Runes], [[]rune(string(s))] and [utf8.RuneCount] *)
Fixpoint runes_w_aux (skip : nat) (s : bytes) : list (Z * Z) :=
  match s with
  | [] => []
  | _ :: rest =>
      match skip with
      | S k => runes_w_aux k rest
      | O => let '(r, w) := decode_rune s in (r, w) :: runes_w_aux (skip_of w) rest
      end
  end.
Definition runes_w (s : bytes) : list (Z * Z) := runes_w_aux 0 s.
Definition runes (s : bytes) : list Z := map fst (runes_w s).
Definition rune_count (s : bytes) : Z := zlen (runes_w s).

(* analysis.BuildTermFromRunes *)
Definition encode_runes (rs : list Z) : bytes := concat (map encode_rune rs).

(* ------------------------------------------------------------------ tokenizers *)

Section CharTok.
  (* CharacterTokenizer.isTokenRun *)
  Variable isTok : Z -> bool.

  (* the "build token" block, guarded by [end-start > 0]; [acc] is rv reversed *)
  Definition ct_emit (input : bytes) (st en count : Z) (acc : list token) : list token :=
    if 0 <? en - st
    then mkTok (sub input st en) st en (count + 1) AlphaNumeric false :: acc
    else acc.

  (* character.go Tokenize: [suffix] = input[offset:] when skip = 0.  The loop condition is
     [currRune != utf8.RuneError]: it stops at the end of the input, at the first invalid
     byte AND at a correctly encoded U+FFFD. *)
  Fixpoint ctok_loop (input suffix : bytes) (skip : nat) (offset st en count : Z)
           (acc : list token) : list token :=
    match suffix with
    | [] => rev (ct_emit input st en count acc)
    | _ :: rest =>
        match skip with
        | S k => ctok_loop input rest k (offset + 1) st en count acc
        | O =>
            let '(r, size) := decode_rune suffix in
            if r =? RuneError then rev (ct_emit input st en count acc)
            else if isTok r
            then ctok_loop input rest (skip_of size) (offset + 1) st (offset + size) count acc
            else
              let acc' := ct_emit input st en count acc in
              let count' := if 0 <? en - st then count + 1 else count in
              ctok_loop input rest (skip_of size) (offset + 1)
                        (offset + size) (offset + size) count' acc'
        end
    end.

  Definition char_tokenize (input : bytes) : list token :=
    ctok_loop input input 0 0 0 0 0 [].
End CharTok.

(* A rune predicate given as: a model on ASCII and, for the non-ASCII runes, the set of
   those on which Go's predicate (unicode.IsLetter / unicode.IsSpace / the Mn|Me|Mc test) is
   true — supplied by the harness for the runes occurring in the case. *)
Definition pred_of (ascii : Z -> bool) (trues : list Z) (r : Z) : bool :=
  if r <? 128 then ascii r else memZ r trues.

Definition ascii_letter (r : Z) : bool := ((65 <=? r) && (r <=? 90)) || ((97 <=? r) && (r <=? 122)).
Definition ascii_space (r : Z) : bool := ((9 <=? r) && (r <=? 13)) || (r =? 32).

(* tokenizer/letter: unicode.IsLetter;  tokenizer/whitespace: !unicode.IsSpace *)
Definition letter_tokenize (letters : list Z) : bytes -> list token :=
  char_tokenize (pred_of ascii_letter letters).
Definition whitespace_tokenize (spaces : list Z) : bytes -> list token :=
  char_tokenize (fun r => negb (pred_of ascii_space spaces r)).

(* tokenizer/single *)
Definition single_tokenize (input : bytes) : list token :=
  [mkTok input 0 (zlen input) 1 AlphaNumeric false].

(* ------------------------------------------------------------------ token filters *)

(* lowercase: Term rewritten by toLowerDeferredCopy, nothing else touched.  The rewriting is a
   parameter; [ascii_lower] is what it does on pure-ASCII terms. *)
Definition lowercase_filter (lower : bytes -> bytes) (ts : list token) : list token :=
  map (fun t => set_term t (lower (t_term t))) ts.
Definition ascii_lower (s : bytes) : bytes :=
  map (fun b => if (65 <=? b) && (b <=? 90) then b + 32 else b) s.

(* length *)
Definition length_keep (mn mx : Z) (t : token) : bool :=
  let n := rune_count (t_term t) in
  negb ((0 <? mn) && (n <? mn)) && negb ((0 <? mx) && (mx <? n)).
Definition length_filter (mn mx : Z) (ts : list token) : list token := filter (length_keep mn mx) ts.

(* truncate_token: TruncateRunes(term, wordLen-length) = runes[:length] re-encoded; a negative
   length makes that slice expression panic *)
Fixpoint map_opt {A B} (f : A -> option B) (l : list A) : option (list B) :=
  match l with
  | [] => Some []
  | x :: l' => match f x, map_opt f l' with Some y, Some r => Some (y :: r) | _, _ => None end
  end.
Definition truncate_token (n : Z) (t : token) : option token :=
  let rs := runes (t_term t) in
  if n <? zlen rs
  then if n <? 0 then None else Some (set_term t (encode_runes (firstn (Z.to_nat n) rs)))
  else Some t.
Definition truncate_filter (n : Z) (ts : list token) : option (list token) := map_opt (truncate_token n) ts.

(* stop_tokens: removal in place, kept tokens unchanged (positions keep their gaps) *)
Definition stop_filter (words : list bytes) (ts : list token) : list token :=
  filter (fun t => negb (mem_bytes (t_term t) words)) ts.

(* unique: first occurrence of each term *)
Fixpoint unique_aux (seen : list bytes) (ts : list token) : list token :=
  match ts with
  | [] => []
  | t :: r => if mem_bytes (t_term t) seen then unique_aux seen r
              else t :: unique_aux (t_term t :: seen) r
  end.
Definition unique_filter (ts : list token) : list token := unique_aux [] ts.

(* the fresh token ngram/edge_ngram build: Position, Start, End, Type copied, KeyWord not *)
Definition gram_token (t : token) (term : bytes) : token :=
  mkTok term (t_start t) (t_end t) (t_pos t) (t_type t) false.

(* ngram (configuration domain 0 <= min) *)
Definition ngram_token (mn mx : Z) (t : token) : list token :=
  let rs := runes (t_term t) in
  let rc := zlen rs in
  flat_map (fun i =>
    flat_map (fun n => if i + n <=? rc then [gram_token t (encode_runes (sub rs i (i + n)))] else [])
             (zrange mn mx))
    (zrange 0 (rc - 1)).
Definition ngram_filter (mn mx : Z) (ts : list token) : list token := flat_map (ngram_token mn mx) ts.

(* edge_ngram *)
Definition edge_token (back : bool) (mn mx : Z) (t : token) : list token :=
  let rs := runes (t_term t) in
  let rc := zlen rs in
  flat_map (fun n =>
    if back
    then if 0 <=? rc - n then [gram_token t (encode_runes (sub rs (rc - n) rc))] else []
    else if n <=? rc then [gram_token t (encode_runes (sub rs 0 n))] else [])
    (zrange mn mx).
Definition edge_filter (back : bool) (mn mx : Z) (ts : list token) : list token :=
  flat_map (edge_token back mn mx) ts.

(* keyword_marker *)
Definition keyword_filter (words : list bytes) (ts : list token) : list token :=
  map (fun t => if mem_bytes (t_term t) words
                then mkTok (t_term t) (t_start t) (t_end t) (t_pos t) (t_type t) true else t) ts.

(* apostrophe: bytes.IndexAny(term, "'’") = byte offset of the first rune that is ' or ’ *)
Fixpoint index_rune_in (targets : list Z) (skip : nat) (s : bytes) (offset : Z) : option Z :=
  match s with
  | [] => None
  | _ :: rest =>
      match skip with
      | S k => index_rune_in targets k rest (offset + 1)
      | O => let '(r, w) := decode_rune s in
             if memZ r targets then Some offset
             else index_rune_in targets (skip_of w) rest (offset + 1)
      end
  end.
Definition apostrophes : list Z := [39; 8217].
Definition apostrophe_filter (ts : list token) : list token :=
  map (fun t => match index_rune_in apostrophes 0 (t_term t) 0 with
                | Some i => set_term t (sub (t_term t) 0 i)
                | None => t end) ts.

(* elision: at each apostrophe rune whose prefix is an article, keep what follows it *)
Fixpoint elision_scan (articles : list bytes) (term : bytes) (skip : nat) (s : bytes) (i : Z) : bytes :=
  match s with
  | [] => term
  | _ :: rest =>
      match skip with
      | S k => elision_scan articles term k rest (i + 1)
      | O => let '(r, w) := decode_rune s in
             if memZ r apostrophes && mem_bytes (sub term 0 i) articles
             then sub term (i + w) (zlen term)
             else elision_scan articles term (skip_of w) rest (i + 1)
      end
  end.
Definition elision_filter (articles : list bytes) (ts : list token) : list token :=
  map (fun t => set_term t (elision_scan articles (t_term t) 0 (t_term t) 0)) ts.

(* reverse.  Both variants walk groups "one rune followed by its combining marks" and copy
   each group, front to back, to the output back to front:
       copy(output[cursorOut-wid:cursorOut], s[cursorIn:cursorIn+wid]).
   [rv_flush] is that statement: both slice expressions must be in range (output has
   len(s) bytes).  cursorIn + cursorOut = len(s) throughout, so the two range conditions are
   equivalent and taking cap(s) = len(s) loses nothing.  [out] = output[cursorOut:]. *)
Definition rv_flush (s : bytes) (wid cin cout : Z) (out : bytes) : option (Z * Z * bytes) :=
  if in_range (zlen s) (cout - wid) cout
  then match slice s cin (cin + wid) with
       | Some g => Some (cin + wid, cout - wid, g ++ out)
       | None => None
       end
  else None.

Section Reverse.
  (* unicode.Is(Mn, r) || unicode.Is(Me, r) || unicode.Is(Mc, r) *)
  Variable is_mark : Z -> bool.

  (* [items] = the remaining (rune, width) pairs; a group of total width [wid] is open *)
  Fixpoint rv_go (s : bytes) (items : list (Z * Z)) (wid cin cout : Z) (out : bytes) : option bytes :=
    match items with
    | (r, w) :: rest =>
        if is_mark r then rv_go s rest (wid + w) cin cout out
        else match rv_flush s wid cin cout out with
             | Some (cin', cout', out') => rv_go s rest w cin' cout' out'
             | None => None
             end
    | [] =>
        match rv_flush s wid cin cout out with
        | Some (_, cout', out') => Some (repeat 0 (Z.to_nat cout') ++ out')
        | None => None
        end
    end.

  Definition rv_run (s : bytes) (items : list (Z * Z)) : option bytes :=
    match items with
    | [] => Some (repeat 0 (length s))
    | (_, w) :: rest => rv_go s rest w 0 (zlen s) []
    end.

  (* variant 1 — the code as it is in /repo: inputRunes := []rune(string(s)) and every width is
     utf8.RuneLen(rune), i.e. 3 for each invalid byte *)
  Definition reverse_cur (s : bytes) : option bytes :=
    rv_run s (map (fun r => (r, rune_len r)) (runes s)).

  (* variant 2 — notes/trial-fixes.diff: utf8.DecodeRune on s itself, the width actually occupied *)
  Definition reverse_fixed (s : bytes) : option bytes := rv_run s (runes_w s).

  Definition reverse_filter (rv : bytes -> option bytes) (ts : list token) : option (list token) :=
    map_opt (fun t => match rv (t_term t) with Some b => Some (set_term t b) | None => None end) ts.
End Reverse.

(* shingle (configuration domain 1 <= min, 1 <= max) *)
Record shingle_cfg := mkSh {
  sh_min : Z; sh_max : Z; sh_orig : bool; sh_sep : bytes; sh_fill : bytes }.

Definition filler_token (c : shingle_cfg) : token := mkTok (sh_fill c) (-1) (-1) 0 AlphaNumeric false.

(* the inner loop of shingleCurrentRingState over the n ring entries, oldest first *)
Fixpoint shingle_fold (sep : bytes) (first : bool) (items : list token) (pos st en : Z) (acc : bytes)
  : Z * Z * Z * bytes :=
  match items with
  | [] => (pos, st, en, acc)
  | c :: r =>
      let acc1 := if first then acc else acc ++ sep in
      let pos' := if (pos =? 0) && negb (t_pos c =? 0) then t_pos c else pos in
      let st' := if (st =? -1) && negb (t_start c =? -1) then t_start c else st in
      let en' := if negb (t_end c =? -1) then t_end c else en in
      shingle_fold sep false r pos' st' en' (acc1 ++ t_term c)
  end.
Definition shingle_of (c : shingle_cfg) (items : list token) : token :=
  let '(pos, st, en, b) := shingle_fold (sh_sep c) true items 0 (-1) 0 [] in
  mkTok b (if st =? -1 then 0 else st) (if en =? -1 then 0 else en) pos Shingle false.

(* [hist] = ring contents, most recent first, at most sh_max entries (itemsInRing = its length) *)
Definition shingle_state (c : shingle_cfg) (hist : list token) : list token :=
  flat_map (fun n => if n <=? zlen hist then [shingle_of c (rev (firstn (Z.to_nat n) hist))] else [])
           (zrange (sh_min c) (sh_max c)).
Definition ring_push (c : shingle_cfg) (x : token) (hist : list token) : list token :=
  firstn (Z.to_nat (sh_max c)) (x :: hist).

Fixpoint shingle_fillers (c : shingle_cfg) (k : nat) (hist : list token) : list token * list token :=
  match k with
  | O => ([], hist)
  | S k' =>
      let hist1 := ring_push c (filler_token c) hist in
      let '(out, hist2) := shingle_fillers c k' hist1 in
      (shingle_state c hist1 ++ out, hist2)
  end.

Fixpoint shingle_loop (c : shingle_cfg) (ts : list token) (curpos : Z) (hist : list token) : list token :=
  match ts with
  | [] => []
  | t :: r =>
      let o := if sh_orig c then [t] else [] in
      let '(fill_out, hist1) := shingle_fillers c (Z.to_nat (t_pos t - curpos - 1)) hist in
      let hist2 := ring_push c t hist1 in
      o ++ fill_out ++ shingle_state c hist2 ++ shingle_loop c r (t_pos t) hist2
  end.
Definition shingle_filter (c : shingle_cfg) (ts : list token) : list token := shingle_loop c ts 0 [].

(* DefaultAnalyzer.Analyze after the char filters: tokenizer, then the filters in order *)
Definition run_filters (fs : list (list token -> list token)) (ts : list token) : list token :=
  fold_left (fun acc f => f acc) fs ts.
Definition analyze (tok : bytes -> list token) (fs : list (list token -> list token)) (input : bytes) :=
  run_filters fs (tok input).

(* ------------------------------------------------------------------ highlighting *)

(* highlight.TermLocation (Start, End); array positions are all equal in this model *)
Record loc := mkLoc { l_start : Z; l_end : Z }.
Record frag := mkFrag { f_start : Z; f_end : Z }.

(* TermLocation.Overlaps *)
Definition overlaps (tl other : loc) : bool :=
  ((l_start tl <=? l_start other) && (l_start other <? l_end tl)) ||
  ((l_start other <=? l_start tl) && (l_start tl <? l_end other)).

(* TermLocations.MergeOverlapping: lastTl is set to the first entry and never moves on; an entry
   overlapping it is replaced by nil and its End is stored into lastTl *)
Fixpoint merge_aux (first : loc) (rest : list (option loc)) : loc * list (option loc) :=
  match rest with
  | [] => (first, [])
  | None :: r => let '(f', r') := merge_aux first r in (f', None :: r')
  | Some tl :: r =>
      if overlaps first tl
      then let '(f', r') := merge_aux (mkLoc (l_start first) (l_end tl)) r in (f', None :: r')
      else let '(f', r') := merge_aux first r in (f', Some tl :: r')
  end.
Fixpoint merge_overlapping (t : list (option loc)) : list (option loc) :=
  match t with
  | [] => []
  | None :: r => None :: merge_overlapping r
  | Some l :: r => let '(f', r') := merge_aux l r in Some f' :: r'
  end.

(* OrderTermLocations with equal array positions: ascending Start (Go's sort is not stable; the
   model's insertion sort is, and cases with equal starts are not compared through it) *)
Fixpoint insert_loc (x : loc) (l : list loc) : list loc :=
  match l with
  | [] => [x]
  | y :: l' => if l_start x <? l_start y then x :: l else y :: insert_loc x l'
  end.
Definition order_locs (l : list loc) : list loc := fold_left (fun acc x => insert_loc x acc) l [].

(* three-way result of one OUTER iteration of the fragmenter *)
Inductive res (A : Type) := RPanic | RBail | ROk (a : A).
Arguments RPanic {A}. Arguments RBail {A}. Arguments ROk {A} a.

Section Fragmenter.
  Variable size : Z.        (* fragmentSize *)
  Variable orig : bytes.

  (* for end < len(orig) && used < size { r, sz := DecodeRune(orig[end:]); bail on RuneError } *)
  Fixpoint fr_fwd (fuel : nat) (en used : Z) : res (Z * Z) :=
    match fuel with
    | O => RPanic
    | S f =>
        if (en <? zlen orig) && (used <? size)
        then match slice orig en (zlen orig) with
             | None => RPanic
             | Some suf => let '(r, sz) := decode_rune suf in
                           if r =? RuneError then RBail else fr_fwd f (en + sz) (used + 1)
             end
        else ROk (en, used)
    end.

  (* for start > 0 && used < size { if start > len(orig) bail; DecodeLastRune(orig[0:start]) ... } *)
  Fixpoint fr_back (fuel : nat) (maxbegin st used : Z) : res Z :=
    match fuel with
    | O => RPanic
    | S f =>
        if (0 <? st) && (used <? size)
        then if zlen orig <? st then RBail
             else match slice orig 0 st with
                  | None => RPanic
                  | Some pre => let '(r, sz) := decode_last_rune pre in
                                if r =? RuneError then RBail
                                else if maxbegin <=? st - sz then fr_back f maxbegin (st - sz) (used + 1)
                                else ROk st
                  end
        else ROk st
    end.

  (* minend: for _, inner := range ot[curr:] { if inner.End > end break; minend = inner.End } *)
  Fixpoint fr_minend (en minend : Z) (ls : list loc) : Z :=
    match ls with
    | [] => minend
    | l :: r => if en <? l_end l then minend else fr_minend en (l_end l) r
    end.

  (* for offset > 0 { step start back one rune; step end back one rune; offset-- } *)
  Fixpoint fr_center (fuel : nat) (offset st en : Z) : res (Z * Z * Z) :=
    match fuel with
    | O => RPanic
    | S f =>
        if 0 <? offset
        then match slice orig 0 st with
             | None => RPanic
             | Some p1 =>
                 let '(r1, s1) := decode_last_rune p1 in
                 if r1 =? RuneError then RBail
                 else match slice orig 0 en with
                      | None => RPanic
                      | Some p2 =>
                          let '(r2, s2) := decode_last_rune p2 in
                          if r2 =? RuneError then RBail
                          else fr_center f (offset - 1) (st - s1) (en - s2)
                      end
             end
        else ROk (offset, st, en)
    end.

  Definition fuel_of : nat := S (length orig).

  (* one iteration of the OUTER loop for ot[curr:] = l :: rest *)
  Definition fr_one (maxbegin : Z) (l : loc) (rest : list loc) : res frag :=
    match fr_fwd fuel_of (l_start l) 0 with
    | RPanic => RPanic | RBail => RBail
    | ROk (en, used) =>
        match fr_back fuel_of maxbegin (l_start l) used with
        | RPanic => RPanic | RBail => RBail
        | ROk st =>
            let minend := fr_minend en en (l :: rest) in
            match slice orig minend en with
            | None => RPanic
            | Some tail =>
                let room := rune_count tail in
                match (if maxbegin <=? st
                       then match slice orig maxbegin st with
                            | Some hd => Some (rune_count hd) | None => None end
                       else Some 0) with
                | None => RPanic
                | Some room_start =>
                    let room' := if room_start <? room then room_start else room in
                    match fr_center fuel_of (Z.quot room' 2) st en with
                    | RPanic => RPanic | RBail => RBail
                    | ROk (offset, st', en') => ROk (mkFrag (st' - offset) (en' - offset))
                    end
                end
            end
        end
    end.

  Fixpoint fr_outer (maxbegin : Z) (ot : list loc) : option (list frag) :=
    match ot with
    | [] => Some []
    | l :: rest =>
        match fr_one maxbegin l rest with
        | RPanic => None
        | RBail => fr_outer maxbegin rest
        | ROk fg => match fr_outer (l_end l) rest with
                    | Some fs => Some (fg :: fs) | None => None end
        end
    end.

  (* the len(ot) == 0 branch: one fragment from the beginning, break (not bail) on RuneError *)
  Fixpoint fr_head (fuel : nat) (en used : Z) : option Z :=
    match fuel with
    | O => None
    | S f =>
        if (en <? zlen orig) && (used <? size)
        then match slice orig en (zlen orig) with
             | None => None
             | Some suf => let '(r, sz) := decode_rune suf in
                           if r =? RuneError then Some en else fr_head f (en + sz) (used + 1)
             end
        else Some en
    end.

  (* Fragmenter.Fragment; None = a panic (or fuel exhausted) somewhere *)
  Definition fragment (ot : list loc) : option (list frag) :=
    match ot with
    | [] => match fr_head fuel_of 0 0 with Some en => Some [mkFrag 0 en] | None => None end
    | _ => fr_outer 0 ot
    end.
End Fragmenter.

(* html.EscapeString *)
Definition html_escape (s : bytes) : bytes :=
  flat_map (fun b =>
    if b =? 38 then [38;97;109;112;59]            (* &amp; *)
    else if b =? 39 then [38;35;51;57;59]         (* &#39; *)
    else if b =? 60 then [38;108;116;59]          (* &lt; *)
    else if b =? 62 then [38;103;116;59]          (* &gt; *)
    else if b =? 34 then [38;35;51;52;59]         (* &#34; *)
    else [b]) s.

(* FragmentFormatter.Format (html and ansi have the same control flow) as a list of segments
   (marked?, text = a slice of Orig); None = a slice expression out of range *)
Fixpoint fmt_loop (orig : bytes) (fend curr : Z) (locs : list (option loc)) (acc : list (bool * bytes))
  : option (list (bool * bytes)) :=
  match locs with
  | [] => match slice orig curr fend with
          | Some c => Some (rev ((false, c) :: acc)) | None => None end
  | None :: r => fmt_loop orig fend curr r acc
  | Some l :: r =>
      if l_start l <? curr then fmt_loop orig fend curr r acc
      else if fend <? l_end l
      then (* break *)
           match slice orig curr fend with
           | Some c => Some (rev ((false, c) :: acc)) | None => None end
      else match slice orig curr (l_start l), slice orig (l_start l) (l_end l) with
           | Some a, Some b => fmt_loop orig fend (l_end l) r ((true, b) :: (false, a) :: acc)
           | _, _ => None
           end
  end.
Definition format_segs (orig : bytes) (f : frag) (locs : list (option loc)) : option (list (bool * bytes)) :=
  fmt_loop orig (f_end f) (f_start f) locs [].

Definition render (esc : bytes -> bytes) (before after : bytes) (segs : list (bool * bytes)) : bytes :=
  flat_map (fun sg : bool * bytes => if fst sg then before ++ esc (snd sg) ++ after else esc (snd sg)) segs.

(* the text with markup and escaping removed *)
Definition plain_of (segs : list (bool * bytes)) : bytes := flat_map (fun sg : bool * bytes => snd sg) segs.

Definition format_html (before after : bytes) (orig : bytes) (f : frag) (locs : list (option loc)) : option bytes :=
  option_map (render html_escape before after) (format_segs orig f locs).
Definition format_ansi (color reset : bytes) (orig : bytes) (f : frag) (locs : list (option loc)) : option bytes :=
  option_map (render (fun x => x) color reset) (format_segs orig f locs).

(* highlighter_simple.go: separator before a fragment that does not start at 0 and after one
   that does not end at len(Orig) *)
Definition decorate (sep : bytes) (orig : bytes) (f : frag) (body : bytes) : bytes :=
  (if f_start f =? 0 then [] else sep) ++ body ++ (if f_end f =? zlen orig then [] else sep).
