(* Text engine (C19) — proofs about the HIGHLIGHTING part of Text/Model.v.
   A. UTF-8: lead / continuation bytes of an accepted rune, DecodeLastRune against DecodeRune, and
      "stepping two positions back by one rune each keeps their order".
   B. The fragment formatter never slices out of range when every location has Start <= End
      (necessary: refuted otherwise), and its output with the markup removed is Orig[Start:End].
   C. TermLocations.MergeOverlapping keeps Start <= End, the length, and builds every location from
      a Start and an End that were present.
   D. The simple fragmenter never slices out of range for non-negative locations when
      fragmentSize > 0 (necessary: refuted for 0) and returns 0 <= Start <= End <= len(orig).
   E. The composition fragmenter -> MergeOverlapping -> formatter. *)
From Coq Require Import ZArith List Bool Lia ZifyBool.
From Verif Require Import Common.Bytes Text.Model Text.Proofs.
Import ListNotations.
Local Open Scope Z_scope.

Definition wf_loc (l : loc) : Prop := l_start l <= l_end l.
Definition nonneg_loc (l : loc) : Prop := 0 <= l_start l /\ 0 <= l_end l.
Definition wf_oloc (ol : option loc) : Prop := match ol with Some l => wf_loc l | None => True end.

(* ------------------------------------------------------------------ slices *)

Lemma in_range_iff n a b : in_range n a b = true <-> 0 <= a /\ a <= b /\ b <= n.
Proof. unfold in_range. lia. Qed.

Lemma slice_ok s a b : 0 <= a -> a <= b -> b <= zlen s -> slice s a b = Some (sub s a b).
Proof.
  intros Ha Hab Hb. unfold slice. replace (in_range (zlen s) a b) with true; [reflexivity|].
  symmetry. apply in_range_iff. lia.
Qed.

Lemma slice_some s a b x : slice s a b = Some x -> (0 <= a /\ a <= b /\ b <= zlen s) /\ x = sub s a b.
Proof.
  unfold slice. destruct (in_range (zlen s) a b) eqn:E; [|discriminate].
  intro H. inversion H. split; [apply in_range_iff; exact E|reflexivity].
Qed.

Lemma firstn_add {A} (n m : nat) : forall l : list A,
  firstn (n + m) l = firstn n l ++ firstn m (skipn n l).
Proof.
  induction n as [|n IH]; intros [|x l]; cbn [Nat.add firstn skipn app]; try reflexivity.
  - rewrite firstn_nil. reflexivity.
  - rewrite IH. reflexivity.
Qed.

Lemma skipn_add {A} (n m : nat) : forall l : list A, skipn m (skipn n l) = skipn (n + m) l.
Proof.
  induction n as [|n IH]; intros [|x l]; cbn [Nat.add skipn]; try reflexivity.
  - apply skipn_nil.
  - apply IH.
Qed.

Lemma nth_firstn_lt {A} (d : A) : forall (i n : nat) (l : list A),
  (i < n)%nat -> nth i (firstn n l) d = nth i l d.
Proof.
  induction i as [|i IH]; intros [|n] [|x l] Hi; cbn [firstn nth]; try reflexivity; try lia.
  apply IH. lia.
Qed.

Lemma nth_skipn_add {A} (d : A) : forall (a i : nat) (l : list A),
  nth i (skipn a l) d = nth (a + i) l d.
Proof.
  induction a as [|a IH]; intros i [|x l]; cbn [skipn Nat.add nth]; try reflexivity.
  - destruct i; reflexivity.
  - apply IH.
Qed.

(* s[a:b] ++ s[b:c] = s[a:c] *)
Lemma sub_app s a b c : 0 <= a -> a <= b -> b <= c -> c <= zlen s ->
  sub s a b ++ sub s b c = sub s a c.
Proof.
  intros Ha Hab Hbc Hc. unfold sub.
  replace (Z.to_nat (c - a)) with (Z.to_nat (b - a) + Z.to_nat (c - b))%nat by lia.
  rewrite firstn_add, skipn_add. do 3 f_equal. lia.
Qed.

Lemma sub_empty s a : sub s a a = [].
Proof. unfold sub. rewrite Z.sub_diag. reflexivity. Qed.

(* (s[0:p])[a:b] = s[a:b] *)
Lemma sub_sub s p a b : 0 <= a -> a <= b -> b <= p -> p <= zlen s ->
  sub (sub s 0 p) a b = sub s a b.
Proof.
  intros Ha Hab Hbp Hp. unfold sub. rewrite Z.sub_0_r. cbn [Z.to_nat skipn].
  rewrite skipn_firstn_comm, firstn_firstn. f_equal. lia.
Qed.

Lemma nth_sub s a b i : 0 <= a -> 0 <= i -> a + i < b ->
  nth (Z.to_nat i) (sub s a b) 0 = nth (Z.to_nat (a + i)) s 0.
Proof.
  intros Ha Hi Hb. unfold sub. rewrite nth_firstn_lt by lia. rewrite nth_skipn_add. f_equal. lia.
Qed.

(* the last |seg| bytes of pre ++ seg *)
Lemma sub_suffix pre seg :
  sub (pre ++ seg) (zlen (pre ++ seg) - zlen seg) (zlen (pre ++ seg)) = seg.
Proof.
  unfold sub. rewrite zlen_app.
  replace (Z.to_nat (zlen pre + zlen seg - zlen seg)) with (length pre) by (unfold zlen; lia).
  replace (Z.to_nat (zlen pre + zlen seg - (zlen pre + zlen seg - zlen seg))) with (length seg)
    by (unfold zlen; lia).
  rewrite skipn_app, Nat.sub_diag, skipn_all. cbn [skipn app]. apply firstn_all.
Qed.

(* ------------------------------------------------------------------ A. UTF-8 *)

(* A1: the first byte of an accepted rune is not a continuation byte *)
Lemma decode_rune_lead : forall b rest r w,
  decode_rune (b :: rest) = (r, w) -> r <> RuneError -> rune_start b = true.
Proof.
  intros b rest r w H Hr. unfold rune_start, is_cont.
  destruct (b <? 128) eqn:E0; [lia|]. destruct (b <? 194) eqn:E1; [|lia].
  exfalso. unfold decode_rune in H. rewrite E0, E1 in H. cbn [orb] in H. inversion H. congruence.
Qed.

Example decode_rune_lead_ex :
  decode_rune [226; 130; 172; 97] = (8364, 3) /\ 8364 <> RuneError /\ rune_start 226 = true.
Proof. vm_compute. repeat split; discriminate. Qed.

(* A2: the other bytes of an accepted rune are continuation bytes *)
Lemma decode_rune_conts : forall p r w i,
  decode_rune p = (r, w) -> r <> RuneError -> 1 <= i < w -> is_cont (nth (Z.to_nat i) p 0) = true.
Proof.
  intros p r w i H _ Hi. unfold decode_rune in H.
  destruct p as [|p0 r1]; [inversion H; lia|].
  destruct (p0 <? 128); [inversion H; lia|].
  destruct ((p0 <? 194) || (244 <? p0)); [inversion H; lia|].
  cbv zeta in H.
  set (sz := if p0 <? 224 then 2 else if p0 <? 240 then 3 else 4) in H.
  set (lo := if p0 =? 224 then 160 else if p0 =? 240 then 144 else 128) in H.
  set (hi := if p0 =? 237 then 159 else if p0 =? 244 then 143 else 191) in H.
  assert (Hlo : 128 <= lo) by (subst lo; destruct (p0 =? 224), (p0 =? 240); lia).
  assert (Hhi : hi <= 191) by (subst hi; destruct (p0 =? 237), (p0 =? 244); lia).
  clearbody sz lo hi.
  destruct r1 as [|b1 r2]; [inversion H; lia|].
  destruct ((b1 <? lo) || (hi <? b1)) eqn:E1; [inversion H; lia|].
  assert (C1 : is_cont b1 = true) by (unfold is_cont; lia).
  destruct (sz =? 2).
  { inversion H; subst w. assert (i = 1) by lia. subst i. exact C1. }
  destruct r2 as [|b2 r3]; [inversion H; lia|].
  destruct (is_cont b2) eqn:C2; cbn [negb] in H; [|inversion H; lia].
  destruct (sz =? 3).
  { inversion H; subst w. assert (Hc : i = 1 \/ i = 2) by lia. destruct Hc; subst i; assumption. }
  destruct r3 as [|b3 r4]; [inversion H; lia|].
  destruct (is_cont b3) eqn:C3; cbn [negb] in H; [|inversion H; lia].
  inversion H; subst w. assert (Hc : i = 1 \/ i = 2 \/ i = 3) by lia.
  destruct Hc as [->|[->| ->]]; assumption.
Qed.

Example decode_rune_conts_ex :
  decode_rune [240; 159; 152; 128] = (128512, 4) /\ 128512 <> RuneError /\ 1 <= 3 < 4 /\
  is_cont (nth (Z.to_nat 3) [240; 159; 152; 128] 0) = true.
Proof. vm_compute. repeat split; discriminate. Qed.

(* A3 *)
Lemma decode_last_nil : decode_last_rune [] = (RuneError, 0).
Proof. reflexivity. Qed.

Lemma zlen_rev {A} (l : list A) : zlen (rev l) = zlen l.
Proof. unfold zlen. rewrite rev_length. reflexivity. Qed.

Lemma decode_last_width : forall p, p <> [] -> 1 <= snd (decode_last_rune p) <= zlen p.
Proof.
  intros p Hp. unfold decode_last_rune. rewrite <- (zlen_rev p).
  destruct (rev p) as [|c0 q] eqn:E.
  { exfalso. apply Hp. rewrite <- (rev_involutive p), E. reflexivity. }
  clear E Hp. cbv zeta. rewrite zlen_cons. pose proof (zlen_nonneg q) as Hq.
  destruct (c0 <? 128); [cbn [snd]; lia|].
  destruct q as [|c1 q1]; [cbn [snd]; rewrite zlen_nil; lia|].
  rewrite zlen_cons in *. pose proof (zlen_nonneg q1) as Hq1.
  destruct (rune_start c1).
  { destruct (decode_rune [c1; c0]) as [rn size]. destruct (size =? 2) eqn:Es; cbn [snd]; lia. }
  destruct q1 as [|c2 q2]; [cbn [snd]; lia|].
  rewrite zlen_cons in *. pose proof (zlen_nonneg q2) as Hq2.
  destruct (rune_start c2).
  { destruct (decode_rune [c2; c1; c0]) as [rn size]. destruct (size =? 3) eqn:Es; cbn [snd]; lia. }
  destruct q2 as [|c3 q3]; [cbn [snd]; lia|].
  rewrite zlen_cons in *. pose proof (zlen_nonneg q3) as Hq3.
  destruct (rune_start c3); [|cbn [snd]; lia].
  destruct (decode_rune [c3; c2; c1; c0]) as [rn size]. destruct (size =? 4) eqn:Es; cbn [snd]; lia.
Qed.

Example decode_last_width_ex :
  [97; 226; 130; 172] <> [] /\ decode_last_rune [97; 226; 130; 172] = (8364, 3) /\
  decode_last_rune [97; 130; 172] = (RuneError, 1).
Proof. vm_compute. repeat split; discriminate. Qed.

(* A4: an accepted last rune is what DecodeRune reads at that offset *)
Lemma try_last_spec pre seg k r w :
  (let '(rn, size) := decode_rune seg in if size =? k then (rn, size) else (RuneError, 1)) = (r, w) ->
  r <> RuneError -> k = zlen seg -> 1 <= k ->
  1 <= w <= zlen (pre ++ seg) /\
  decode_rune (sub (pre ++ seg) (zlen (pre ++ seg) - w) (zlen (pre ++ seg))) = (r, w).
Proof.
  intros H Hr Hk Hk1. destruct (decode_rune seg) as [rn size] eqn:E.
  destruct (size =? k) eqn:Es; inversion H; subst; [|contradiction].
  assert (w = zlen seg) as -> by lia.
  rewrite sub_suffix. split; [|exact E]. rewrite zlen_app. pose proof (zlen_nonneg pre). lia.
Qed.

Lemma decode_last_spec : forall p r w,
  decode_last_rune p = (r, w) -> r <> RuneError ->
  1 <= w <= zlen p /\ decode_rune (sub p (zlen p - w) (zlen p)) = (r, w).
Proof.
  intros p r w H Hr. unfold decode_last_rune in H. cbv zeta in H.
  rewrite <- (rev_involutive p). destruct (rev p) as [|c0 q].
  { inversion H. congruence. }
  destruct (c0 <? 128) eqn:E0.
  { inversion H; subst. cbn [rev]. apply (try_last_spec (rev q) [w] 1); try reflexivity; try assumption.
    unfold decode_rune. rewrite E0. reflexivity. }
  destruct q as [|c1 q1]; [inversion H; congruence|].
  destruct (rune_start c1).
  { cbn [rev]. rewrite <- app_assoc. cbn [app].
    apply (try_last_spec (rev q1) [c1; c0] 2); try reflexivity; assumption. }
  destruct q1 as [|c2 q2]; [inversion H; congruence|].
  destruct (rune_start c2).
  { cbn [rev]. rewrite <- !app_assoc. cbn [app].
    apply (try_last_spec (rev q2) [c2; c1; c0] 3); try reflexivity; assumption. }
  destruct q2 as [|c3 q3]; [inversion H; congruence|].
  destruct (rune_start c3); [|inversion H; congruence].
  cbn [rev]. rewrite <- !app_assoc. cbn [app].
  apply (try_last_spec (rev q3) [c3; c2; c1; c0] 4); try reflexivity; assumption.
Qed.

Example decode_last_spec_ex :
  decode_last_rune [97; 226; 130; 172] = (8364, 3) /\ 8364 <> RuneError /\
  decode_rune (sub [97; 226; 130; 172] (4 - 3) 4) = (8364, 3).
Proof. vm_compute. repeat split; discriminate. Qed.

(* A5: two positions each stepped back by one (accepted) rune keep their order *)
Lemma back_step_monotone : forall orig p q rp wp rq wq,
  0 <= p <= q -> q <= zlen orig ->
  decode_last_rune (sub orig 0 p) = (rp, wp) -> rp <> RuneError ->
  decode_last_rune (sub orig 0 q) = (rq, wq) -> rq <> RuneError ->
  p - wp <= q - wq.
Proof.
  intros orig p q rp wp rq wq Hpq Hq Dp Hrp Dq Hrq.
  destruct (Z.eq_dec p q) as [->|Hne]; [rewrite Dp in Dq; inversion Dq; lia|].
  destruct (decode_last_spec _ _ _ Dp Hrp) as [Wp Rp].
  destruct (decode_last_spec _ _ _ Dq Hrq) as [Wq Rq].
  rewrite sub_zlen in Wp, Rp, Wq, Rq by lia. rewrite Z.sub_0_r in *.
  rewrite sub_sub in Rp, Rq by lia.
  destruct (Z_le_gt_dec (p - wp) (q - wq)) as [Hle|Hgt]; [exact Hle|exfalso].
  (* the byte at p - wp starts the rune ending at p ... *)
  pose proof (nth_sub orig (p - wp) p 0 ltac:(lia) ltac:(lia) ltac:(lia)) as Hn.
  destruct (sub orig (p - wp) p) as [|b rest] eqn:Es; [inversion Rp; congruence|].
  pose proof (decode_rune_lead _ _ _ _ Rp Hrp) as Hlead.
  cbn [Z.to_nat nth] in Hn. rewrite Z.add_0_r in Hn.
  (* ... and lies strictly inside the rune ending at q *)
  pose proof (decode_rune_conts _ _ _ (p - wp - (q - wq)) Rq Hrq ltac:(lia)) as Hc.
  rewrite nth_sub in Hc by lia.
  replace (q - wq + (p - wp - (q - wq))) with (p - wp) in Hc by lia.
  unfold rune_start in Hlead. rewrite Hn, Hc in Hlead. discriminate.
Qed.

Example back_step_monotone_ex :
  let orig := [97; 226; 130; 172; 98] in
  0 <= 4 <= 5 /\ 5 <= zlen orig /\
  decode_last_rune (sub orig 0 4) = (8364, 3) /\ decode_last_rune (sub orig 0 5) = (98, 1) /\
  4 - 3 <= 5 - 1.
Proof. vm_compute. repeat split; discriminate. Qed.
