(* Text engine (C19) — proofs about the HIGHLIGHTING part of Text/Model.v.
   A. UTF-8: lead / continuation bytes of an accepted rune, DecodeLastRune against DecodeRune, and
      "stepping two positions back by one rune each keeps their order".
   B. The fragment formatter never slices out of range when every location has Start <= End
      (necessary: refuted otherwise), and its output with the markup removed is Orig[Start:End].
   C. TermLocations.MergeOverlapping keeps Start <= End, the length, and builds every location from
      a Start and an End that were present.
   D. The simple fragmenter never slices out of range for non-negative locations when
      fragmentSize > 0 (necessary: refuted for 0) and returns 0 <= Start <= End <= len(orig).
   E. The composition fragmenter -> MergeOverlapping -> formatter. *)
From Coq Require Import ZArith List Bool Lia ZifyBool.
From Verif Require Import Common.Bytes Text.Model Text.Proofs.
Import ListNotations.
Local Open Scope Z_scope.

Definition wf_loc (l : loc) : Prop := l_start l <= l_end l.
Definition nonneg_loc (l : loc) : Prop := 0 <= l_start l /\ 0 <= l_end l.
Definition wf_oloc (ol : option loc) : Prop := match ol with Some l => wf_loc l | None => True end.

(* ------------------------------------------------------------------ slices *)

Lemma in_range_iff n a b : in_range n a b = true <-> 0 <= a /\ a <= b /\ b <= n.
Proof. unfold in_range. lia. Qed.

Lemma slice_ok s a b : 0 <= a -> a <= b -> b <= zlen s -> slice s a b = Some (sub s a b).
Proof.
  intros Ha Hab Hb. unfold slice. replace (in_range (zlen s) a b) with true; [reflexivity|].
  symmetry. apply in_range_iff. lia.
Qed.

Lemma slice_some s a b x : slice s a b = Some x -> (0 <= a /\ a <= b /\ b <= zlen s) /\ x = sub s a b.
Proof.
  unfold slice. destruct (in_range (zlen s) a b) eqn:E; [|discriminate].
  intro H. inversion H. split; [apply in_range_iff; exact E|reflexivity].
Qed.

Lemma firstn_add {A} (n m : nat) : forall l : list A,
  firstn (n + m) l = firstn n l ++ firstn m (skipn n l).
Proof.
  induction n as [|n IH]; intros [|x l]; cbn [Nat.add firstn skipn app]; try reflexivity.
  - rewrite firstn_nil. reflexivity.
  - rewrite IH. reflexivity.
Qed.

Lemma skipn_add {A} (n m : nat) : forall l : list A, skipn m (skipn n l) = skipn (n + m) l.
Proof.
  induction n as [|n IH]; intros [|x l]; cbn [Nat.add skipn]; try reflexivity.
  - apply skipn_nil.
  - apply IH.
Qed.

Lemma nth_firstn_lt {A} (d : A) : forall (i n : nat) (l : list A),
  (i < n)%nat -> nth i (firstn n l) d = nth i l d.
Proof.
  induction i as [|i IH]; intros [|n] [|x l] Hi; cbn [firstn nth]; try reflexivity; try lia.
  apply IH. lia.
Qed.

Lemma nth_skipn_add {A} (d : A) : forall (a i : nat) (l : list A),
  nth i (skipn a l) d = nth (a + i) l d.
Proof.
  induction a as [|a IH]; intros i [|x l]; cbn [skipn Nat.add nth]; try reflexivity.
  - destruct i; reflexivity.
  - apply IH.
Qed.

(* s[a:b] ++ s[b:c] = s[a:c] *)
Lemma sub_app s a b c : 0 <= a -> a <= b -> b <= c -> c <= zlen s ->
  sub s a b ++ sub s b c = sub s a c.
Proof.
  intros Ha Hab Hbc Hc. unfold sub.
  replace (Z.to_nat (c - a)) with (Z.to_nat (b - a) + Z.to_nat (c - b))%nat by lia.
  rewrite firstn_add, skipn_add. do 3 f_equal. lia.
Qed.

Lemma sub_empty s a : sub s a a = [].
Proof. unfold sub. rewrite Z.sub_diag. reflexivity. Qed.

(* (s[0:p])[a:b] = s[a:b] *)
Lemma sub_sub s p a b : 0 <= a -> a <= b -> b <= p -> p <= zlen s ->
  sub (sub s 0 p) a b = sub s a b.
Proof.
  intros Ha Hab Hbp Hp. unfold sub. rewrite Z.sub_0_r. cbn [Z.to_nat skipn].
  rewrite skipn_firstn_comm, firstn_firstn. f_equal. lia.
Qed.

Lemma nth_sub s a b i : 0 <= a -> 0 <= i -> a + i < b ->
  nth (Z.to_nat i) (sub s a b) 0 = nth (Z.to_nat (a + i)) s 0.
Proof.
  intros Ha Hi Hb. unfold sub. rewrite nth_firstn_lt by lia. rewrite nth_skipn_add. f_equal. lia.
Qed.

(* the last |seg| bytes of pre ++ seg *)
Lemma sub_suffix pre seg :
  sub (pre ++ seg) (zlen (pre ++ seg) - zlen seg) (zlen (pre ++ seg)) = seg.
Proof.
  unfold sub. rewrite zlen_app.
  replace (Z.to_nat (zlen pre + zlen seg - zlen seg)) with (length pre) by (unfold zlen; lia).
  replace (Z.to_nat (zlen pre + zlen seg - (zlen pre + zlen seg - zlen seg))) with (length seg)
    by (unfold zlen; lia).
  rewrite skipn_app, Nat.sub_diag, skipn_all. cbn [skipn app]. apply firstn_all.
Qed.

(* ------------------------------------------------------------------ A. UTF-8 *)

(* A1: the first byte of an accepted rune is not a continuation byte *)
Lemma decode_rune_lead : forall b rest r w,
  decode_rune (b :: rest) = (r, w) -> r <> RuneError -> rune_start b = true.
Proof.
  intros b rest r w H Hr. unfold rune_start, is_cont.
  destruct (b <? 128) eqn:E0; [lia|]. destruct (b <? 194) eqn:E1; [|lia].
  exfalso. unfold decode_rune in H. rewrite E0, E1 in H. cbn [orb] in H. inversion H. congruence.
Qed.

Example decode_rune_lead_ex :
  decode_rune [226; 130; 172; 97] = (8364, 3) /\ 8364 <> RuneError /\ rune_start 226 = true.
Proof. vm_compute. repeat split; discriminate. Qed.

(* A2: the other bytes of an accepted rune are continuation bytes *)
Lemma decode_rune_conts : forall p r w i,
  decode_rune p = (r, w) -> r <> RuneError -> 1 <= i < w -> is_cont (nth (Z.to_nat i) p 0) = true.
Proof.
  intros p r w i H _ Hi. unfold decode_rune in H.
  destruct p as [|p0 r1]; [inversion H; lia|].
  destruct (p0 <? 128); [inversion H; lia|].
  destruct ((p0 <? 194) || (244 <? p0)); [inversion H; lia|].
  cbv zeta in H.
  set (sz := if p0 <? 224 then 2 else if p0 <? 240 then 3 else 4) in H.
  set (lo := if p0 =? 224 then 160 else if p0 =? 240 then 144 else 128) in H.
  set (hi := if p0 =? 237 then 159 else if p0 =? 244 then 143 else 191) in H.
  assert (Hlo : 128 <= lo) by (subst lo; destruct (p0 =? 224), (p0 =? 240); lia).
  assert (Hhi : hi <= 191) by (subst hi; destruct (p0 =? 237), (p0 =? 244); lia).
  clearbody sz lo hi.
  destruct r1 as [|b1 r2]; [inversion H; lia|].
  destruct ((b1 <? lo) || (hi <? b1)) eqn:E1; [inversion H; lia|].
  assert (C1 : is_cont b1 = true) by (unfold is_cont; lia).
  destruct (sz =? 2).
  { inversion H; subst w. assert (i = 1) by lia. subst i. exact C1. }
  destruct r2 as [|b2 r3]; [inversion H; lia|].
  destruct (is_cont b2) eqn:C2; cbn [negb] in H; [|inversion H; lia].
  destruct (sz =? 3).
  { inversion H; subst w. assert (Hc : i = 1 \/ i = 2) by lia. destruct Hc; subst i; assumption. }
  destruct r3 as [|b3 r4]; [inversion H; lia|].
  destruct (is_cont b3) eqn:C3; cbn [negb] in H; [|inversion H; lia].
  inversion H; subst w. assert (Hc : i = 1 \/ i = 2 \/ i = 3) by lia.
  destruct Hc as [->|[->| ->]]; assumption.
Qed.

Example decode_rune_conts_ex :
  decode_rune [240; 159; 152; 128] = (128512, 4) /\ 128512 <> RuneError /\ 1 <= 3 < 4 /\
  is_cont (nth (Z.to_nat 3) [240; 159; 152; 128] 0) = true.
Proof. vm_compute. repeat split; discriminate. Qed.

(* A3 *)
Lemma decode_last_nil : decode_last_rune [] = (RuneError, 0).
Proof. reflexivity. Qed.

Lemma zlen_rev {A} (l : list A) : zlen (rev l) = zlen l.
Proof. unfold zlen. rewrite rev_length. reflexivity. Qed.

Lemma decode_last_width : forall p, p <> [] -> 1 <= snd (decode_last_rune p) <= zlen p.
Proof.
  intros p Hp. unfold decode_last_rune. rewrite <- (zlen_rev p).
  destruct (rev p) as [|c0 q] eqn:E.
  { exfalso. apply Hp. rewrite <- (rev_involutive p), E. reflexivity. }
  clear E Hp. cbv zeta. rewrite zlen_cons. pose proof (zlen_nonneg q) as Hq.
  destruct (c0 <? 128); [cbn [snd]; lia|].
  destruct q as [|c1 q1]; [cbn [snd]; rewrite zlen_nil; lia|].
  rewrite zlen_cons in *. pose proof (zlen_nonneg q1) as Hq1.
  destruct (rune_start c1).
  { destruct (decode_rune [c1; c0]) as [rn size]. destruct (size =? 2) eqn:Es; cbn [snd]; lia. }
  destruct q1 as [|c2 q2]; [cbn [snd]; lia|].
  rewrite zlen_cons in *. pose proof (zlen_nonneg q2) as Hq2.
  destruct (rune_start c2).
  { destruct (decode_rune [c2; c1; c0]) as [rn size]. destruct (size =? 3) eqn:Es; cbn [snd]; lia. }
  destruct q2 as [|c3 q3]; [cbn [snd]; lia|].
  rewrite zlen_cons in *. pose proof (zlen_nonneg q3) as Hq3.
  destruct (rune_start c3); [|cbn [snd]; lia].
  destruct (decode_rune [c3; c2; c1; c0]) as [rn size]. destruct (size =? 4) eqn:Es; cbn [snd]; lia.
Qed.

Example decode_last_width_ex :
  [97; 226; 130; 172] <> [] /\ decode_last_rune [97; 226; 130; 172] = (8364, 3) /\
  decode_last_rune [97; 130; 172] = (RuneError, 1).
Proof. vm_compute. repeat split; discriminate. Qed.

(* A4: an accepted last rune is what DecodeRune reads at that offset *)
Lemma try_last_spec pre seg k r w :
  (let '(rn, size) := decode_rune seg in if size =? k then (rn, size) else (RuneError, 1)) = (r, w) ->
  r <> RuneError -> k = zlen seg -> 1 <= k ->
  1 <= w <= zlen (pre ++ seg) /\
  decode_rune (sub (pre ++ seg) (zlen (pre ++ seg) - w) (zlen (pre ++ seg))) = (r, w).
Proof.
  intros H Hr Hk Hk1. destruct (decode_rune seg) as [rn size] eqn:E.
  destruct (size =? k) eqn:Es; inversion H; subst; [|contradiction].
  assert (w = zlen seg) as -> by lia.
  rewrite sub_suffix. split; [|exact E]. rewrite zlen_app. pose proof (zlen_nonneg pre). lia.
Qed.

Lemma decode_last_spec : forall p r w,
  decode_last_rune p = (r, w) -> r <> RuneError ->
  1 <= w <= zlen p /\ decode_rune (sub p (zlen p - w) (zlen p)) = (r, w).
Proof.
  intros p r w H Hr. unfold decode_last_rune in H. cbv zeta in H.
  rewrite <- (rev_involutive p). destruct (rev p) as [|c0 q].
  { inversion H. congruence. }
  destruct (c0 <? 128) eqn:E0.
  { injection H as <- <-. cbn [rev]. apply (try_last_spec (rev q) [c0] 1); [|exact Hr|reflexivity|lia].
    unfold decode_rune. rewrite E0. reflexivity. }
  destruct q as [|c1 q1]; [inversion H; congruence|].
  destruct (rune_start c1).
  { cbn [rev]. rewrite <- app_assoc. cbn [app].
    apply (try_last_spec (rev q1) [c1; c0] 2); [exact H|exact Hr|reflexivity|lia]. }
  destruct q1 as [|c2 q2]; [inversion H; congruence|].
  destruct (rune_start c2).
  { cbn [rev]. rewrite <- !app_assoc. cbn [app].
    apply (try_last_spec (rev q2) [c2; c1; c0] 3); [exact H|exact Hr|reflexivity|lia]. }
  destruct q2 as [|c3 q3]; [inversion H; congruence|].
  destruct (rune_start c3); [|inversion H; congruence].
  cbn [rev]. rewrite <- !app_assoc. cbn [app].
  apply (try_last_spec (rev q3) [c3; c2; c1; c0] 4); [exact H|exact Hr|reflexivity|lia].
Qed.

Example decode_last_spec_ex :
  decode_last_rune [97; 226; 130; 172] = (8364, 3) /\ 8364 <> RuneError /\
  decode_rune (sub [97; 226; 130; 172] (4 - 3) 4) = (8364, 3).
Proof. vm_compute. repeat split; discriminate. Qed.

(* A5: two positions each stepped back by one (accepted) rune keep their order *)
Lemma back_step_monotone : forall orig p q rp wp rq wq,
  0 <= p <= q -> q <= zlen orig ->
  decode_last_rune (sub orig 0 p) = (rp, wp) -> rp <> RuneError ->
  decode_last_rune (sub orig 0 q) = (rq, wq) -> rq <> RuneError ->
  p - wp <= q - wq.
Proof.
  intros orig p q rp wp rq wq Hpq Hq Dp Hrp Dq Hrq.
  destruct (Z.eq_dec p q) as [->|Hne]; [rewrite Dp in Dq; inversion Dq; lia|].
  destruct (decode_last_spec _ _ _ Dp Hrp) as [Wp Rp].
  destruct (decode_last_spec _ _ _ Dq Hrq) as [Wq Rq].
  rewrite sub_zlen in Wp, Rp, Wq, Rq by lia. rewrite Z.sub_0_r in *.
  rewrite sub_sub in Rp, Rq by lia.
  destruct (Z_le_gt_dec (p - wp) (q - wq)) as [Hle|Hgt]; [exact Hle|exfalso].
  (* the byte at p - wp starts the rune ending at p ... *)
  pose proof (nth_sub orig (p - wp) p 0 ltac:(lia) ltac:(lia) ltac:(lia)) as Hn.
  destruct (sub orig (p - wp) p) as [|b rest] eqn:Es; [inversion Rp; congruence|].
  pose proof (decode_rune_lead _ _ _ _ Rp Hrp) as Hlead.
  cbn [Z.to_nat nth] in Hn. rewrite Z.add_0_r in Hn.
  (* ... and lies strictly inside the rune ending at q *)
  pose proof (decode_rune_conts _ _ _ (p - wp - (q - wq)) Rq Hrq ltac:(lia)) as Hc.
  rewrite nth_sub in Hc by lia.
  replace (q - wq + (p - wp - (q - wq))) with (p - wp) in Hc by lia.
  unfold rune_start in Hlead. rewrite Hn, Hc in Hlead. discriminate.
Qed.

Example back_step_monotone_ex :
  let orig := [97; 226; 130; 172; 98] in
  0 <= 4 <= 5 /\ 5 <= zlen orig /\
  decode_last_rune (sub orig 0 4) = (8364, 3) /\ decode_last_rune (sub orig 0 5) = (98, 1) /\
  4 - 3 <= 5 - 1.
Proof. vm_compute. repeat split; discriminate. Qed.

(* ------------------------------------------------------------------ B. the formatter *)

(* "abc def ghi jk", the terms def@[4,7) and ghi@[8,11) *)
Definition hl_ex_orig : bytes := [97; 98; 99; 32; 100; 101; 102; 32; 103; 104; 105; 32; 106; 107].
Definition hl_ex_locs : list loc := [mkLoc 4 7; mkLoc 8 11].

(* invariant of the loop: 0 <= curr <= f.End <= len(orig) *)
Lemma fmt_loop_in_bounds orig fend : forall locs curr acc,
  0 <= curr -> curr <= fend -> fend <= zlen orig -> Forall wf_oloc locs ->
  fmt_loop orig fend curr locs acc <> None.
Proof.
  induction locs as [|[l|] r IH]; intros curr acc H0 H1 H2 Hwf; cbn [fmt_loop].
  - rewrite slice_ok by lia. discriminate.
  - pose proof (Forall_inv Hwf) as Hl. pose proof (Forall_inv_tail Hwf) as Hr.
    cbn [wf_oloc] in Hl. unfold wf_loc in Hl.
    destruct (l_start l <? curr) eqn:E1; [apply IH; assumption|].
    destruct (fend <? l_end l) eqn:E2; [rewrite slice_ok by lia; discriminate|].
    rewrite !slice_ok by lia. apply IH; try assumption; lia.
  - apply IH; try assumption. exact (Forall_inv_tail Hwf).
Qed.

(* B1 *)
Lemma format_in_bounds : forall orig f locs,
  in_range (zlen orig) (f_start f) (f_end f) = true ->
  Forall (fun ol => match ol with Some l => wf_loc l | None => True end) locs ->
  format_segs orig f locs <> None.
Proof.
  intros orig f locs Hr Hwf. apply in_range_iff in Hr. unfold format_segs.
  apply fmt_loop_in_bounds; try lia. exact Hwf.
Qed.

(* locations out of range, overlapping, unsorted and nil are all allowed *)
Example format_in_bounds_ex :
  let locs := [Some (mkLoc 8 11); None; Some (mkLoc 4 7); Some (mkLoc 5 9); Some (mkLoc 20 30); Some (mkLoc (-3) 2)] in
  in_range (zlen hl_ex_orig) 2 12 = true /\
  Forall (fun ol => match ol with Some l => wf_loc l | None => True end) locs /\
  format_segs hl_ex_orig (mkFrag 2 12) locs = Some [(false, [99; 32; 100; 101; 102; 32]); (true, [103; 104; 105]); (false, [32])].
Proof.
  cbv zeta. split; [reflexivity|]. split; [|vm_compute; reflexivity].
  repeat constructor; unfold wf_loc; cbn [l_start l_end]; lia.
Qed.

(* B2: Start <= End of every location is necessary *)
Lemma format_inverted_refuted : exists orig f locs,
  in_range (zlen orig) (f_start f) (f_end f) = true /\ format_segs orig f locs = None.
Proof.
  exists [97; 98; 99; 100; 101; 102; 103; 104; 105; 106], (mkFrag 0 10), [Some (mkLoc 5 3)].
  vm_compute. split; reflexivity.
Qed.

(* B3 *)
Definition marked_ok (orig : bytes) (locs : list (option loc)) (sg : bool * bytes) : Prop :=
  fst sg = true -> exists l, In (Some l) locs /\ slice orig (l_start l) (l_end l) = Some (snd sg).

Lemma plain_of_snoc acc sg : plain_of (rev (sg :: acc)) = plain_of (rev acc) ++ snd sg.
Proof.
  unfold plain_of. cbn [rev]. rewrite flat_map_app. cbn [flat_map]. rewrite app_nil_r. reflexivity.
Qed.

(* [acc] (reversed) spells orig[f0:curr] and each marked segment in it is the text at a location *)
Lemma fmt_loop_faithful orig fend f0 locs0 : forall locs curr acc segs,
  (forall x, In x locs -> In x locs0) ->
  0 <= f0 -> f0 <= curr -> fend <= zlen orig ->
  plain_of (rev acc) = sub orig f0 curr ->
  Forall (marked_ok orig locs0) acc ->
  fmt_loop orig fend curr locs acc = Some segs ->
  plain_of segs = sub orig f0 fend /\ Forall (marked_ok orig locs0) segs.
Proof.
  assert (Hfin : forall curr acc segs, 0 <= f0 -> f0 <= curr ->
    plain_of (rev acc) = sub orig f0 curr -> Forall (marked_ok orig locs0) acc ->
    match slice orig curr fend with
    | Some c => Some (rev ((false, c) :: acc)) | None => None end = Some segs ->
    plain_of segs = sub orig f0 fend /\ Forall (marked_ok orig locs0) segs).
  { intros curr acc segs H0 H1 Hp Hm H.
    destruct (slice orig curr fend) as [c|] eqn:Es; [|discriminate].
    apply slice_some in Es as [Hr ->].
    assert (Hs : segs = rev ((false, sub orig curr fend) :: acc)) by congruence. subst segs. clear H. split.
    - rewrite plain_of_snoc, Hp. cbn [snd]. apply sub_app; lia.
    - apply Forall_rev. constructor; [intro Hf; discriminate Hf|exact Hm]. }
  induction locs as [|[l|] r IH]; intros curr acc segs Hsub H0 H1 H2 Hp Hm H; cbn [fmt_loop] in H.
  - exact (Hfin curr acc segs H0 H1 Hp Hm H).
  - assert (Hsub' : forall x, In x r -> In x locs0) by (intros x Hx; apply Hsub; right; exact Hx).
    destruct (l_start l <? curr) eqn:E1; [exact (IH curr acc segs Hsub' H0 H1 H2 Hp Hm H)|].
    destruct (fend <? l_end l) eqn:E2; [exact (Hfin curr acc segs H0 H1 Hp Hm H)|].
    destruct (slice orig curr (l_start l)) as [a|] eqn:Ea; [|discriminate].
    destruct (slice orig (l_start l) (l_end l)) as [b|] eqn:Eb; [|discriminate].
    pose proof Eb as Eb'.
    apply slice_some in Ea as [Ra ->]. apply slice_some in Eb as [Rb ->].
    apply (IH (l_end l) ((true, sub orig (l_start l) (l_end l)) :: (false, sub orig curr (l_start l)) :: acc)
              segs Hsub' H0); [lia|exact H2| | |exact H].
    + rewrite !plain_of_snoc, Hp. cbn [snd]. rewrite sub_app by lia. apply sub_app; lia.
    + constructor; [|constructor; [intro Hf; discriminate Hf|exact Hm]].
      intros _. exists l. split; [apply Hsub; left; reflexivity|exact Eb'].
  - apply (IH curr acc segs); try assumption. intros x Hx. apply Hsub. right. exact Hx.
Qed.

Lemma fragment_faithful : forall orig f locs segs,
  in_range (zlen orig) (f_start f) (f_end f) = true ->
  format_segs orig f locs = Some segs ->
  plain_of segs = sub orig (f_start f) (f_end f) /\
  Forall (fun sg => fst sg = true ->
            exists l, In (Some l) locs /\ slice orig (l_start l) (l_end l) = Some (snd sg)) segs.
Proof.
  intros orig f locs segs Hr H. apply in_range_iff in Hr. unfold format_segs in H.
  apply (fmt_loop_faithful orig (f_end f) (f_start f) locs locs (f_start f) [] segs); try lia.
  - intros x Hx. exact Hx.
  - cbn [rev plain_of flat_map]. symmetry. apply sub_empty.
  - constructor.
  - exact H.
Qed.

Example fragment_faithful_ex :
  in_range (zlen hl_ex_orig) 2 12 = true /\
  format_segs hl_ex_orig (mkFrag 2 12) (map Some hl_ex_locs) =
    Some [(false, [99; 32]); (true, [100; 101; 102]); (false, [32]); (true, [103; 104; 105]); (false, [32])] /\
  sub hl_ex_orig 2 12 = [99; 32; 100; 101; 102; 32; 103; 104; 105; 32].
Proof. vm_compute. repeat split; reflexivity. Qed.

(* B4: the two formatters are [render] over the same segments *)
Lemma format_html_some : forall b a orig f locs segs,
  format_segs orig f locs = Some segs ->
  format_html b a orig f locs = Some (render html_escape b a segs).
Proof. intros b a orig f locs segs H. unfold format_html. rewrite H. reflexivity. Qed.

Lemma format_ansi_some : forall b a orig f locs segs,
  format_segs orig f locs = Some segs ->
  format_ansi b a orig f locs = Some (render (fun x => x) b a segs).
Proof. intros b a orig f locs segs H. unfold format_ansi. rewrite H. reflexivity. Qed.

Example format_html_some_ex :
  format_html [60; 98; 62] [60; 47; 98; 62] [97; 38; 98; 32; 99] (mkFrag 0 5) [Some (mkLoc 4 5)] =
  Some [97; 38; 97; 109; 112; 59; 98; 32; 60; 98; 62; 99; 60; 47; 98; 62].
Proof. vm_compute. reflexivity. Qed.

(* ------------------------------------------------------------------ C. MergeOverlapping *)

Lemma merge_aux_spec : forall rest first f' r',
  merge_aux first rest = (f', r') ->
  length r' = length rest /\
  l_start f' = l_start first /\
  (l_end f' = l_end first \/ exists b, In (Some b) rest /\ l_end b = l_end f') /\
  (forall x, In (Some x) r' -> In (Some x) rest) /\
  (wf_loc first -> Forall wf_oloc rest -> wf_loc f' /\ Forall wf_oloc r').
Proof.
  induction rest as [|[tl|] r IH]; intros first f' r' H; cbn [merge_aux] in H.
  - injection H as <- <-. repeat split; auto; intros x [].
  - destruct (overlaps first tl) eqn:Eo.
    + destruct (merge_aux (mkLoc (l_start first) (l_end tl)) r) as [f1 r1] eqn:E1. injection H as <- <-.
      destruct (IH _ _ _ E1) as (Hlen & Hs & He & Hin & Hwf). cbn [l_start l_end] in Hs, He.
      split; [cbn [length]; congruence|]. split; [exact Hs|]. split; [|split].
      * right. destruct He as [He|(b & Hb & He)].
        -- exists tl. split; [left; reflexivity|symmetry; exact He].
        -- exists b. split; [right; exact Hb|exact He].
      * intros x [Hx|Hx]; [discriminate Hx|right; apply Hin; exact Hx].
      * intros Hw HF. pose proof (Forall_inv HF) as Htl. cbn [wf_oloc] in Htl.
        destruct Hwf as [Hw1 HF1].
        { unfold wf_loc in *. cbn [l_start l_end]. unfold overlaps in Eo. lia. }
        { exact (Forall_inv_tail HF). }
        split; [exact Hw1|constructor; [exact I|exact HF1]].
    + destruct (merge_aux first r) as [f1 r1] eqn:E1. injection H as <- <-.
      destruct (IH _ _ _ E1) as (Hlen & Hs & He & Hin & Hwf).
      split; [cbn [length]; congruence|]. split; [exact Hs|]. split; [|split].
      * destruct He as [He|(b & Hb & He)]; [left; exact He|right].
        exists b. split; [right; exact Hb|exact He].
      * intros x [Hx|Hx]; [left; exact Hx|right; apply Hin; exact Hx].
      * intros Hw HF. destruct (Hwf Hw (Forall_inv_tail HF)) as [Hw1 HF1].
        split; [exact Hw1|constructor; [exact (Forall_inv HF)|exact HF1]].
  - destruct (merge_aux first r) as [f1 r1] eqn:E1. injection H as <- <-.
    destruct (IH _ _ _ E1) as (Hlen & Hs & He & Hin & Hwf).
    split; [cbn [length]; congruence|]. split; [exact Hs|]. split; [|split].
    * destruct He as [He|(b & Hb & He)]; [left; exact He|right].
      exists b. split; [right; exact Hb|exact He].
    * intros x [Hx|Hx]; [discriminate Hx|right; apply Hin; exact Hx].
    * intros Hw HF. destruct (Hwf Hw (Forall_inv_tail HF)) as [Hw1 HF1].
      split; [exact Hw1|constructor; [exact I|exact HF1]].
Qed.

(* C1 *)
Lemma merge_wf : forall t,
  Forall (fun ol => match ol with Some l => wf_loc l | None => True end) t ->
  Forall (fun ol => match ol with Some l => wf_loc l | None => True end) (merge_overlapping t).
Proof.
  induction t as [|[l|] r IH]; intros HF; cbn [merge_overlapping].
  - constructor.
  - destruct (merge_aux l r) as [f' r'] eqn:E.
    destruct (merge_aux_spec _ _ _ _ E) as (_ & _ & _ & _ & Hwf).
    destruct (Hwf (Forall_inv HF) (Forall_inv_tail HF)) as [Hw1 HF1].
    constructor; [exact Hw1|exact HF1].
  - constructor; [exact I|apply IH; exact (Forall_inv_tail HF)].
Qed.

(* C2: every merged location starts where some location started and ends where some location ended *)
Lemma merge_ends : forall t l, In (Some l) (merge_overlapping t) ->
  (exists a, In (Some a) t /\ l_start a = l_start l) /\ (exists b, In (Some b) t /\ l_end b = l_end l).
Proof.
  induction t as [|[a0|] r IH]; intros l Hl; cbn [merge_overlapping] in Hl.
  - destruct Hl.
  - destruct (merge_aux a0 r) as [f' r'] eqn:E.
    destruct (merge_aux_spec _ _ _ _ E) as (_ & Hs & He & Hin & _).
    destruct Hl as [Hl|Hl].
    + injection Hl as <-. split.
      * exists a0. split; [left; reflexivity|symmetry; exact Hs].
      * destruct He as [He|(b & Hb & He)].
        -- exists a0. split; [left; reflexivity|symmetry; exact He].
        -- exists b. split; [right; exact Hb|exact He].
    + apply Hin in Hl. split; exists l; (split; [right; exact Hl|reflexivity]).
  - destruct Hl as [Hl|Hl]; [discriminate Hl|].
    destruct (IH l Hl) as [(a & Ha & Hsa) (b & Hb & Heb)].
    split; [exists a|exists b]; (split; [right; assumption|assumption]).
Qed.

(* C3 *)
Lemma merge_length : forall t, length (merge_overlapping t) = length t.
Proof.
  induction t as [|[l|] r IH]; cbn [merge_overlapping length]; [reflexivity| |congruence].
  destruct (merge_aux l r) as [f' r'] eqn:E.
  destruct (merge_aux_spec _ _ _ _ E) as (Hlen & _). cbn [length]. congruence.
Qed.

(* [2,5) absorbs [4,8) and then [7,9); [20,22) stays *)
Example merge_ex :
  let t := [Some (mkLoc 2 5); Some (mkLoc 4 8); None; Some (mkLoc 7 9); Some (mkLoc 20 22)] in
  Forall (fun ol => match ol with Some l => wf_loc l | None => True end) t /\
  merge_overlapping t = [Some (mkLoc 2 9); None; None; None; Some (mkLoc 20 22)].
Proof.
  cbv zeta. split; [|vm_compute; reflexivity].
  repeat constructor; unfold wf_loc; cbn [l_start l_end]; lia.
Qed.

(* ------------------------------------------------------------------ D. the fragmenter *)

Definition frag_ok (orig : bytes) (f : frag) : Prop := in_range (zlen orig) (f_start f) (f_end f) = true.

Lemma runes_w_aux_len : forall s skip, (length (runes_w_aux skip s) <= length s)%nat.
Proof.
  induction s as [|b rest IH]; intros skip; cbn [runes_w_aux length]; [lia|].
  destruct skip as [|k].
  - destruct (decode_rune (b :: rest)) as [r w]. cbn [length]. specialize (IH (skip_of w)). lia.
  - specialize (IH k). lia.
Qed.

Lemma rune_count_bounds s : 0 <= rune_count s <= zlen s.
Proof. unfold rune_count, runes_w, zlen. pose proof (runes_w_aux_len s 0). lia. Qed.

Lemma decode_suffix_width orig en : 0 <= en -> en < zlen orig ->
  1 <= snd (decode_rune (sub orig en (zlen orig))) <= zlen orig - en.
Proof.
  intros H0 H1. pose proof (sub_zlen orig en (zlen orig) H0 ltac:(lia) ltac:(lia)) as Hl.
  destruct (decode_rune_width (sub orig en (zlen orig))) as [Hw Hw'].
  { intro E. rewrite E, zlen_nil in Hl. lia. }
  lia.
Qed.

Lemma decode_last_prefix_width orig st : 0 < st -> st <= zlen orig ->
  1 <= snd (decode_last_rune (sub orig 0 st)) <= st.
Proof.
  intros H0 H1. pose proof (sub_zlen orig 0 st ltac:(lia) ltac:(lia) H1) as Hl.
  assert (Hne : sub orig 0 st <> []) by (intro E; rewrite E, zlen_nil in Hl; lia).
  pose proof (decode_last_width (sub orig 0 st) Hne) as Hw. lia.
Qed.

(* the forward scan: end strictly increases and stays <= len(orig) *)
Lemma fr_fwd_ok size orig : forall fuel en used,
  0 <= en -> en <= zlen orig -> zlen orig - en < Z.of_nat fuel ->
  match fr_fwd size orig fuel en used with
  | RPanic => False | RBail => True | ROk (en', _) => en <= en' /\ en' <= zlen orig end.
Proof.
  induction fuel as [|f IH]; intros en used H0 H1 Hf; [lia|]. cbn [fr_fwd].
  destruct ((en <? zlen orig) && (used <? size)) eqn:Ec; [|cbv beta iota; lia].
  rewrite slice_ok by lia.
  pose proof (decode_suffix_width orig en H0 ltac:(lia)) as Hw.
  destruct (decode_rune (sub orig en (zlen orig))) as [r sz]. cbn [snd] in Hw.
  destruct (r =? RuneError); [exact I|].
  specialize (IH (en + sz) (used + 1) ltac:(lia) ltac:(lia) ltac:(lia)).
  destruct (fr_fwd size orig f (en + sz) (used + 1)) as [| |[en' u']]; [exact IH|exact I|lia].
Qed.

(* a location starting at or beyond the end: no iteration *)
Lemma fr_fwd_out size orig f en used : zlen orig <= en ->
  fr_fwd size orig (S f) en used = ROk (en, used).
Proof. intro H. cbn [fr_fwd]. replace (en <? zlen orig) with false by lia. reflexivity. Qed.

(* ... and then the backward scan bails out (this is where 0 < size is needed) *)
Lemma fr_back_out size orig f mb st used : zlen orig < st -> used < size ->
  fr_back size orig (S f) mb st used = RBail.
Proof.
  intros H Hu. pose proof (zlen_nonneg orig). cbn [fr_back].
  replace ((0 <? st) && (used <? size)) with true by lia.
  replace (zlen orig <? st) with true by lia. reflexivity.
Qed.

(* the backward scan: start strictly decreases and stays >= 0 *)
Lemma fr_back_ok size orig mb : forall fuel st used,
  0 <= st -> st <= zlen orig -> st < Z.of_nat fuel ->
  match fr_back size orig fuel mb st used with
  | RPanic => False | RBail => True | ROk st' => 0 <= st' /\ st' <= st end.
Proof.
  induction fuel as [|f IH]; intros st used H0 H1 Hf; [lia|]. cbn [fr_back].
  destruct ((0 <? st) && (used <? size)) eqn:Ec; [|cbv beta iota; lia].
  replace (zlen orig <? st) with false by lia.
  rewrite slice_ok by lia.
  pose proof (decode_last_prefix_width orig st ltac:(lia) H1) as Hw.
  destruct (decode_last_rune (sub orig 0 st)) as [r sz]. cbn [snd] in Hw.
  destruct (r =? RuneError); [exact I|].
  destruct (mb <=? st - sz); [|cbv beta iota; lia].
  specialize (IH (st - sz) (used + 1) ltac:(lia) ltac:(lia) ltac:(lia)).
  destruct (fr_back size orig f mb (st - sz) (used + 1)); [exact IH|exact I|lia].
Qed.

Lemma fr_minend_ok en : forall ls minend,
  Forall nonneg_loc ls -> 0 <= minend -> minend <= en ->
  0 <= fr_minend en minend ls /\ fr_minend en minend ls <= en.
Proof.
  induction ls as [|l r IH]; intros minend HF H0 H1; cbn [fr_minend]; [lia|].
  destruct (en <? l_end l) eqn:E; [lia|].
  apply IH; [exact (Forall_inv_tail HF)| |lia].
  pose proof (Forall_inv HF) as Hl. unfold nonneg_loc in Hl. lia.
Qed.

(* the centering loop: offset iterations, each stepping start and end back by one rune; both stay
   in [0, len(orig)] and (back_step_monotone) in order *)
Lemma fr_center_ok orig : forall fuel offset st en,
  0 <= offset -> offset < Z.of_nat fuel -> 0 <= st -> st <= en -> en <= zlen orig ->
  match fr_center orig fuel offset st en with
  | RPanic => False | RBail => True
  | ROk (off', st', en') => off' = 0 /\ 0 <= st' /\ st' <= en' /\ en' <= zlen orig end.
Proof.
  induction fuel as [|f IH]; intros offset st en Ho Hf H0 H1 H2; [lia|]. cbn [fr_center].
  destruct (0 <? offset) eqn:Eo; [|cbv beta iota; lia].
  rewrite (slice_ok orig 0 st) by lia.
  destruct (decode_last_rune (sub orig 0 st)) as [r1 s1] eqn:D1.
  destruct (r1 =? RuneError) eqn:E1; [exact I|].
  rewrite (slice_ok orig 0 en) by lia.
  destruct (decode_last_rune (sub orig 0 en)) as [r2 s2] eqn:D2.
  destruct (r2 =? RuneError) eqn:E2; [exact I|].
  assert (Hr1 : r1 <> RuneError) by lia. assert (Hr2 : r2 <> RuneError) by lia.
  destruct (decode_last_spec _ _ _ D1 Hr1) as [W1 _].
  destruct (decode_last_spec _ _ _ D2 Hr2) as [W2 _].
  rewrite sub_zlen in W1, W2 by lia.
  pose proof (back_step_monotone orig st en r1 s1 r2 s2 ltac:(lia) H2 D1 Hr1 D2 Hr2) as Hm.
  specialize (IH (offset - 1) (st - s1) (en - s2) ltac:(lia) ltac:(lia) ltac:(lia) Hm ltac:(lia)).
  destruct (fr_center orig f (offset - 1) (st - s1) (en - s2)) as [| |[[off' st'] en']];
    [exact IH|exact I|lia].
Qed.

(* one OUTER iteration *)
Lemma fr_one_ok size orig mb l rest :
  0 < size -> 0 <= mb -> nonneg_loc l -> Forall nonneg_loc rest ->
  match fr_one size orig mb l rest with
  | RPanic => False | RBail => True | ROk fg => frag_ok orig fg end.
Proof.
  intros Hsz Hmb Hl Hrest. pose proof Hl as [Hls Hle]. unfold fr_one, fuel_of.
  pose proof (zlen_nonneg orig) as Hlen.
  destruct (Z_le_gt_dec (l_start l) (zlen orig)) as [Hin|Hout].
  2:{ rewrite fr_fwd_out by lia. cbv beta iota. rewrite fr_back_out by lia. exact I. }
  pose proof (fr_fwd_ok size orig (S (length orig)) (l_start l) 0 Hls Hin ltac:(unfold zlen; lia)) as Hf.
  destruct (fr_fwd size orig (S (length orig)) (l_start l) 0) as [| |[en used]]; [exact Hf|exact I|].
  pose proof (fr_back_ok size orig mb (S (length orig)) (l_start l) used Hls Hin ltac:(unfold zlen in *; lia)) as Hb.
  destruct (fr_back size orig (S (length orig)) mb (l_start l) used) as [| |st]; [exact Hb|exact I|].
  cbv zeta.
  pose proof (fr_minend_ok en (l :: rest) en (Forall_cons _ Hl Hrest) ltac:(lia) ltac:(lia)) as Hm.
  set (minend := fr_minend en en (l :: rest)) in *.
  rewrite (slice_ok orig minend en) by lia.
  pose proof (rune_count_bounds (sub orig minend en)) as Hroom. rewrite sub_zlen in Hroom by lia.
  set (room := rune_count (sub orig minend en)) in *.
  assert (Hrs : exists rs,
    (if mb <=? st
     then match slice orig mb st with Some hd => Some (rune_count hd) | None => None end
     else Some 0) = Some rs /\ 0 <= rs).
  { destruct (mb <=? st) eqn:E; [|exists 0; split; [reflexivity|lia]].
    rewrite slice_ok by lia. eexists. split; [reflexivity|]. apply rune_count_bounds. }
  destruct Hrs as (rs & -> & Hrs0).
  set (room' := if rs <? room then rs else room).
  assert (Hr' : 0 <= room' <= zlen orig) by (subst room'; destruct (rs <? room) eqn:E; lia).
  clearbody room'.
  assert (Hq : 0 <= Z.quot room' 2 <= room').
  { rewrite Z.quot_div_nonneg by lia. split; [apply Z.div_pos; lia|apply Z.div_le_upper_bound; lia]. }
  pose proof (fr_center_ok orig (S (length orig)) (Z.quot room' 2) st en
                ltac:(lia) ltac:(unfold zlen in *; lia) ltac:(lia) ltac:(lia) ltac:(lia)) as Hc.
  destruct (fr_center orig (S (length orig)) (Z.quot room' 2) st en) as [| |[[off' st'] en']];
    [exact Hc|exact I|].
  unfold frag_ok. cbn [f_start f_end]. apply in_range_iff. lia.
Qed.

Lemma fr_outer_ok size orig : 0 < size -> forall ot mb, 0 <= mb -> Forall nonneg_loc ot ->
  exists fs, fr_outer size orig mb ot = Some fs /\ Forall (frag_ok orig) fs.
Proof.
  intros Hsz. induction ot as [|l rest IH]; intros mb Hmb HF; cbn [fr_outer].
  - exists []. split; [reflexivity|constructor].
  - pose proof (Forall_inv HF) as Hl. pose proof (Forall_inv_tail HF) as Hr.
    pose proof (fr_one_ok size orig mb l rest Hsz Hmb Hl Hr) as H1.
    destruct (fr_one size orig mb l rest) as [| |fg]; [contradiction|apply IH; assumption|].
    assert (Hle : 0 <= l_end l) by (unfold nonneg_loc in Hl; lia).
    destruct (IH (l_end l) Hle Hr) as (fs & -> & Hfs).
    exists (fg :: fs). split; [reflexivity|constructor; assumption].
Qed.

(* the branch for no locations (size may be anything here) *)
Lemma fr_head_ok size orig : forall fuel en used,
  0 <= en -> en <= zlen orig -> zlen orig - en < Z.of_nat fuel ->
  exists en', fr_head size orig fuel en used = Some en' /\ en <= en' /\ en' <= zlen orig.
Proof.
  induction fuel as [|f IH]; intros en used H0 H1 Hf; [lia|]. cbn [fr_head].
  destruct ((en <? zlen orig) && (used <? size)) eqn:Ec; [|exists en; split; [reflexivity|lia]].
  rewrite slice_ok by lia.
  pose proof (decode_suffix_width orig en H0 ltac:(lia)) as Hw.
  destruct (decode_rune (sub orig en (zlen orig))) as [r sz]. cbn [snd] in Hw.
  destruct (r =? RuneError); [exists en; split; [reflexivity|lia]|].
  destruct (IH (en + sz) (used + 1) ltac:(lia) ltac:(lia) ltac:(lia)) as (en' & E & Hen).
  exists en'. split; [exact E|lia].
Qed.

Lemma fragment_ok size orig ot : 0 < size -> Forall nonneg_loc ot ->
  exists fs, fragment size orig ot = Some fs /\ Forall (frag_ok orig) fs.
Proof.
  intros Hsz HF. unfold fragment. destruct ot as [|l rest].
  - pose proof (zlen_nonneg orig) as Hlen.
    destruct (fr_head_ok size orig (fuel_of orig) 0 0 ltac:(lia) Hlen ltac:(unfold fuel_of, zlen; lia))
      as (en & -> & Hen).
    exists [mkFrag 0 en]. split; [reflexivity|]. constructor; [|constructor].
    unfold frag_ok. cbn [f_start f_end]. apply in_range_iff. lia.
  - apply fr_outer_ok; [exact Hsz|lia|exact HF].
Qed.

(* D1 *)
Lemma fragment_in_bounds : forall size orig ot,
  0 < size -> Forall nonneg_loc ot -> fragment size orig ot <> None.
Proof.
  intros size orig ot Hsz HF. destruct (fragment_ok size orig ot Hsz HF) as (fs & -> & _). discriminate.
Qed.

(* D2: fragmentSize > 0 is necessary.  With size 0 and a location starting beyond the end of the
   text neither scan iterates, nothing bails, and orig[25:20] is evaluated *)
Lemma fragment_size0_refuted : exists orig ot, Forall nonneg_loc ot /\ fragment 0 orig ot = None.
Proof.
  exists [104; 101; 108; 108; 111; 32; 119; 111; 114; 108; 100], [mkLoc 20 25].
  split; [|vm_compute; reflexivity].
  repeat constructor; cbn [l_start l_end]; lia.
Qed.

(* D3 *)
Lemma fragment_wf : forall size orig ot fs,
  0 < size -> Forall nonneg_loc ot -> fragment size orig ot = Some fs ->
  Forall (fun f => in_range (zlen orig) (f_start f) (f_end f) = true) fs.
Proof.
  intros size orig ot fs Hsz HF H. destruct (fragment_ok size orig ot Hsz HF) as (fs' & E & Hfs).
  rewrite E in H. injection H as <-. exact Hfs.
Qed.

Example fragment_ex :
  0 < 5 /\ Forall nonneg_loc hl_ex_locs /\
  fragment 5 hl_ex_orig hl_ex_locs =
    Some [mkFrag 3 8; mkFrag 8 13] /\
  fragment 5 [97; 195; 169; 98; 99; 100; 101; 102] [] = Some [mkFrag 0 6].
Proof.
  split; [lia|]. split; [|vm_compute; split; reflexivity].
  repeat constructor; cbn [l_start l_end]; lia.
Qed.

(* ------------------------------------------------------------------ E. composition *)

Lemma highlight_hyps ot : Forall (fun l => 0 <= l_start l /\ wf_loc l) ot ->
  Forall nonneg_loc ot /\
  Forall (fun ol => match ol with Some l => wf_loc l | None => True end) (map Some ot).
Proof.
  induction 1 as [|l r [H0 Hw] _ [IH1 IH2]]; [split; constructor|]. cbn [map].
  split; constructor; try assumption. unfold nonneg_loc, wf_loc in *. lia.
Qed.

(* E1: fragment, merge the locations, format each fragment: no slice expression out of range *)
Lemma highlight_in_bounds : forall size orig ot,
  0 < size -> Forall (fun l => 0 <= l_start l /\ wf_loc l) ot ->
  exists fs, fragment size orig ot = Some fs /\
    Forall (fun f => format_segs orig f (merge_overlapping (map Some ot)) <> None) fs.
Proof.
  intros size orig ot Hsz H. destruct (highlight_hyps ot H) as [Hnn Hwf].
  destruct (fragment_ok size orig ot Hsz Hnn) as (fs & E & Hfs).
  exists fs. split; [exact E|]. eapply Forall_impl; [|exact Hfs].
  intros f Hf. apply format_in_bounds; [exact Hf|apply merge_wf; exact Hwf].
Qed.

(* E2: what comes out is the text of the fragment, and every marked span runs from the Start of a
   matched location to the End of a matched location *)
Lemma highlight_faithful : forall size orig ot fs f segs,
  0 < size -> Forall (fun l => 0 <= l_start l /\ wf_loc l) ot ->
  fragment size orig ot = Some fs -> In f fs ->
  format_segs orig f (merge_overlapping (map Some ot)) = Some segs ->
  plain_of segs = sub orig (f_start f) (f_end f) /\
  Forall (fun sg => fst sg = true ->
            exists a b, In a ot /\ In b ot /\ slice orig (l_start a) (l_end b) = Some (snd sg)) segs.
Proof.
  intros size orig ot fs f segs Hsz H Hfr Hin Hfmt.
  destruct (highlight_hyps ot H) as [Hnn _].
  pose proof (fragment_wf size orig ot fs Hsz Hnn Hfr) as Hwf.
  rewrite Forall_forall in Hwf. specialize (Hwf f Hin). cbv beta in Hwf.
  destruct (fragment_faithful orig f _ segs Hwf Hfmt) as [Hp Hm].
  split; [exact Hp|]. eapply Forall_impl; [|exact Hm]. cbv beta. intros sg Hsg Ht.
  destruct (Hsg Ht) as (l & Hl & Hs).
  destruct (merge_ends _ _ Hl) as [(a & Ha & Hsa) (b & Hb & Heb)].
  apply in_map_iff in Ha as (a' & Ea & Ha'). injection Ea as ->.
  apply in_map_iff in Hb as (b' & Eb & Hb'). injection Eb as ->.
  exists a, b. rewrite Hsa, Heb. auto.
Qed.

(* "abc def ghi jk", def and ghi matched, fragmentSize 5: " <def> " and "<ghi> j" *)
Example highlight_ex :
  0 < 5 /\ Forall (fun l => 0 <= l_start l /\ wf_loc l) hl_ex_locs /\
  fragment 5 hl_ex_orig hl_ex_locs = Some [mkFrag 3 8; mkFrag 8 13] /\
  map (fun f => format_segs hl_ex_orig f (merge_overlapping (map Some hl_ex_locs))) [mkFrag 3 8; mkFrag 8 13] =
  [Some [(false, [32]); (true, [100; 101; 102]); (false, [32])];
   Some [(false, []); (true, [103; 104; 105]); (false, [32; 106])]].
Proof.
  split; [lia|]. split; [|vm_compute; split; reflexivity].
  repeat constructor; unfold wf_loc; cbn [l_start l_end]; lia.
Qed.
