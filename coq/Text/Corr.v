(* Text engine (C19) — correspondence cases: what the implementation returned on an input,
   checked against the executable model and against the contract / faithfulness checkers
   (the SPEC side, written independently of the algorithms). *)
From Coq Require Import ZArith List Bool.
From Verif Require Import Common.Bytes Text.Model Extracted.Extracted.
Import ListNotations.
Local Open Scope Z_scope.

(* compact constructors used by the harness printer *)
Definition T (term : bytes) (s e p ty : Z) (kw : bool) : token := mkTok term s e p ty kw.
Definition O3 (s e p : Z) : token := mkTok [] s e p 0 false.   (* contract-only: offsets and position *)

Inductive filt :=
| FLower | FLength (mn mx : Z) | FTruncate (n : Z) | FStop (ws : list bytes) | FUnique
| FNgram (mn mx : Z) | FEdge (back : bool) (mn mx : Z)
| FShingle (mn mx : Z) (orig : bool) (sep fill : bytes)
| FKeyword (ws : list bytes) | FApostrophe | FElision (arts : list bytes)
| FReverse (marks : list Z).       (* marks = the runes of the case that are Mn/Me/Mc *)

(* one item of a batch case (constructors rather than tuples: the case files elaborate faster) *)
Inductive contract_item := CI (len : Z) (ts : list token).
Inductive hl_item := HLI (style size : Z) (orig : bytes) (locs : list (Z * Z)) (impl : option bytes).

Inductive case :=
(* utf8.DecodeRune p, utf8.DecodeLastRune p, utf8.RuneCount p, and for the first rune r of p:
   utf8.RuneLen r and utf8.AppendRune(nil, r) *)
| CDecode (p : bytes) (r w lr lw rc rl : Z) (enc : bytes)
(* a real output stream of a component that is not modelled (or of any component):
   kind 0 = tokenizer (full contract), 1 = token filter, 2 = analyzer (ordered spans) *)
| CContract (kind len : Z) (ts : list token)
(* fully modelled tokenizers: which 0 = letter, 1 = whitespace, 2 = single;
   [trues] = the non-ASCII runes of the input on which the Go predicate is true *)
| CTokenizer (which : Z) (trues : list Z) (input : bytes) (impl : list token)
(* fully modelled filters applied to a real tokenizer output [input] over a text of [len] bytes *)
| CFilter (f : filt) (len : Z) (input impl : list token)
(* names exercised by the harness per kind (0 tokenizers, 1 token filters, 2 char filters, 3 analyzers) *)
| CCover (kind : Z) (exercised : list bytes)
(* direct calls: Fragmenter(size).Fragment(orig, locs), then MergeOverlapping on locs, then both
   formatters on every returned fragment with the merged locations *)
| CDirect (size : Z) (orig : bytes) (locs : list (Z * Z)) (frags : list (Z * Z))
          (merged : list (option (Z * Z))) (html ansi : list bytes)
(* Format on an arbitrary in-range fragment and arbitrary locations (nil entries allowed) *)
| CFormat (orig : bytes) (fs fe : Z) (locs : list (option (Z * Z))) (html ansi : bytes)
(* Index.Search with highlighting: stored value, the hit's locations of the field, the fragment
   returned (if any).  style 0 = html, 1 = ansi *)
| CHighlight (style size : Z) (orig : bytes) (locs : list (Z * Z)) (impl : option bytes)
(* batches.  A component run over a systematic word enumeration (thousands to millions of words
   per case): the DISTINCT observed output shapes (text length, offsets and positions of the
   output stream), each judged exactly as a CContract case of that kind *)
| CContractMany (kind : Z) (items : list contract_item)
(* highlight calls that overlapped in time on the shared registered highlighters: every DISTINCT
   (stored value, locations, fragment) observed by any goroutine, each judged exactly as a
   CHighlight case — against the stored value and locations of THAT hit *)
| CHighlightMany (items : list hl_item)
(* the implementation ran to completion under the watchdog; nothing else is claimed
   (components whose output has no offsets to check: char filters; highlighting when the
   analyzer changes the text length) *)
| CRan (what : Z).

(* ------------------------------------------------------------------ comparisons *)

Definition tok_eqb (a b : token) : bool :=
  beqb (t_term a) (t_term b) && (t_start a =? t_start b) && (t_end a =? t_end b) &&
  (t_pos a =? t_pos b) && (t_type a =? t_type b) && Bool.eqb (t_kw a) (t_kw b).
Definition toks_eqb := list_eqb tok_eqb.

Definition all_ascii (s : bytes) : bool := forallb (fun b => b <? 128) s.
(* lowercase: everything but the term must agree; the term is compared when the model knows it
   (pure ASCII terms) *)
Definition lower_model (s : bytes) : bytes := if all_ascii s then ascii_lower s else s.
Definition tok_eqb_lower (m i : token) : bool :=
  (if all_ascii (t_term m) then beqb (t_term m) (t_term i) else true) &&
  (t_start m =? t_start i) && (t_end m =? t_end i) &&
  (t_pos m =? t_pos i) && (t_type m =? t_type i) && Bool.eqb (t_kw m) (t_kw i).

Definition pairZ_eqb (a b : Z * Z) : bool := (fst a =? fst b) && (snd a =? snd b).
Definition frag_pair (f : frag) : Z * Z := (f_start f, f_end f).
Definition loc_of (p : Z * Z) : loc := mkLoc (fst p) (snd p).
Definition loc_pair (l : loc) : Z * Z := (l_start l, l_end l).

(* ------------------------------------------------------------------ model dispatch *)

Definition ascii_mark (r : Z) : bool := false.   (* no ASCII rune is a combining mark *)

(* T1: the variant of reverse() that is in the tree (Extracted.XText.reverse_variant) *)
Definition reverse_sel (marks : list Z) (s : bytes) : option bytes :=
  if XText.reverse_variant =? 1 then reverse_cur (pred_of ascii_mark marks) s
  else if XText.reverse_variant =? 2 then reverse_fixed (pred_of ascii_mark marks) s
  else None.

Definition model_filter (f : filt) (ts : list token) : option (list token) :=
  match f with
  | FLower => Some (lowercase_filter lower_model ts)
  | FLength mn mx => Some (length_filter mn mx ts)
  | FTruncate n => truncate_filter n ts
  | FStop ws => Some (stop_filter ws ts)
  | FUnique => Some (unique_filter ts)
  | FNgram mn mx => Some (ngram_filter mn mx ts)
  | FEdge back mn mx => Some (edge_filter back mn mx ts)
  | FShingle mn mx o sep fill => Some (shingle_filter (mkSh mn mx o sep fill) ts)
  | FKeyword ws => Some (keyword_filter ws ts)
  | FApostrophe => Some (apostrophe_filter ts)
  | FElision arts => Some (elision_filter arts ts)
  | FReverse marks => reverse_filter (reverse_sel marks) ts
  end.

Definition model_tokenizer (which : Z) (trues : list Z) (input : bytes) : list token :=
  if which =? 0 then letter_tokenize trues input
  else if which =? 1 then whitespace_tokenize trues input
  else single_tokenize input.

Definition registered (kind : Z) : list bytes :=
  if kind =? 0 then XText.registered_tokenizers
  else if kind =? 1 then XText.registered_token_filters
  else if kind =? 2 then XText.registered_char_filters
  else XText.registered_analyzers.

(* ------------------------------------------------------------------ SPEC: fragment faithfulness
   Parse a highlighter output back into (marked?, text) segments, undo the escaping, and test
   that the text is a contiguous piece of the stored value in which every marked span starts
   at the Start of a matched location and ends at the End of one. *)

Fixpoint strip_prefix (p s : bytes) : option bytes :=
  match p with
  | [] => Some s
  | x :: p' => match s with
               | y :: s' => if x =? y then strip_prefix p' s' else None
               | [] => None
               end
  end.
Definition strip_suffix (p s : bytes) : option bytes :=
  match strip_prefix (rev p) (rev s) with Some r => Some (rev r) | None => None end.

(* split on the begin/end markers; [cur] is the current segment reversed *)
Fixpoint split_marked (fuel : nat) (before after : bytes) (inm : bool) (s cur : bytes)
         (acc : list (bool * bytes)) : option (list (bool * bytes)) :=
  match fuel with
  | O => None
  | S f =>
      match s with
      | [] => if inm then None else Some (rev ((false, rev cur) :: acc))
      | b :: s' =>
          match strip_prefix (if inm then after else before) s with
          | Some rest => split_marked f before after (negb inm) rest [] ((inm, rev cur) :: acc)
          | None => split_marked f before after inm s' (b :: cur) acc
          end
      end
  end.

Definition html_entities : list (bytes * Z) :=
  [([38;97;109;112;59], 38); ([38;35;51;57;59], 39); ([38;108;116;59], 60);
   ([38;103;116;59], 62); ([38;35;51;52;59], 34)].
Fixpoint match_entity (es : list (bytes * Z)) (s : bytes) : option (Z * bytes) :=
  match es with
  | [] => None
  | (e, c) :: es' => match strip_prefix e s with
                     | Some rest => Some (c, rest)
                     | None => match_entity es' s
                     end
  end.
Fixpoint html_unescape (fuel : nat) (s : bytes) : bytes :=
  match fuel with
  | O => []
  | S f => match s with
           | [] => []
           | b :: s' => match match_entity html_entities s with
                        | Some (c, rest) => c :: html_unescape f rest
                        | None => b :: html_unescape f s'
                        end
           end
  end.

(* segments laid out from offset o: every marked one must run from a location Start to a location End *)
Fixpoint spans_ok (locs : list (Z * Z)) (o : Z) (segs : list (bool * bytes)) : bool :=
  match segs with
  | [] => true
  | (m, t) :: r =>
      let e := o + zlen t in
      (if m then existsb (fun l => fst l =? o) locs && existsb (fun l => snd l =? e) locs else true) &&
      spans_ok locs e r
  end.

Definition faithful_at (sep_lead sep_trail : bool) (orig : bytes) (locs : list (Z * Z))
           (segs : list (bool * bytes)) (o : Z) : bool :=
  let p := plain_of segs in
  beqb (sub orig o (o + zlen p)) p && (o + zlen p <=? zlen orig) &&
  Bool.eqb sep_lead (negb (o =? 0)) && Bool.eqb sep_trail (negb (o + zlen p =? zlen orig)) &&
  spans_ok locs o segs.

Definition sep_bytes : bytes := [226; 128; 166].    (* highlighter/simple DefaultSeparator "…" *)
Definition ansi_color : bytes := [27;91;52;51;109]. (* ansi.BgYellow *)
Definition ansi_reset : bytes := [27;91;48;109].    (* ansi.Reset *)

Definition fragment_faithful (style : Z) (orig : bytes) (locs : list (Z * Z)) (out : bytes) : bool :=
  let '(lead, s1) := match strip_prefix sep_bytes out with Some r => (true, r) | None => (false, out) end in
  let '(trail, s2) := match strip_suffix sep_bytes s1 with Some r => (true, r) | None => (false, s1) end in
  let before := if style =? 0 then XText.html_before else ansi_color in
  let after := if style =? 0 then XText.html_after else ansi_reset in
  match split_marked (S (length s2)) before after false s2 [] [] with
  | None => false
  | Some segs0 =>
      let segs := if style =? 0
                  then map (fun sg : bool * bytes => (fst sg, html_unescape (length (snd sg)) (snd sg))) segs0
                  else segs0 in
      existsb (faithful_at lead trail orig locs segs) (zrange 0 (zlen orig - zlen (plain_of segs)))
  end.

(* ------------------------------------------------------------------ model of one highlighted field *)

Fixpoint has_dup_start (l : list loc) : bool :=
  match l with
  | a :: ((b :: _) as r) => (l_start a =? l_start b) || has_dup_start r
  | _ => false
  end.

Definition model_fragments (style size : Z) (orig : bytes) (sorted : list loc) : option (list bytes) :=
  match fragment size orig sorted with
  | None => None
  | Some frs =>
      let merged := merge_overlapping (map Some sorted) in
      map_opt (fun f =>
        option_map (decorate sep_bytes orig f)
          (if style =? 0 then format_html XText.html_before XText.html_after orig f merged
           else format_ansi ansi_color ansi_reset orig f merged)) frs
  end.

Definition check_highlight (style size : Z) (orig : bytes) (locs : list (Z * Z)) (impl : option bytes) : bool :=
  let sorted := order_locs (map loc_of locs) in
  (* SPEC *)
  (match impl with Some out => fragment_faithful style orig locs out | None => true end) &&
  (* MODEL: the fragment returned is one the model's fragmenter + formatter produce *)
  (if has_dup_start sorted then true
   else match model_fragments style size orig sorted with
        | None => false
        | Some outs => match impl with
                       | Some out => mem_bytes out outs
                       | None => match outs with [] => true | _ => false end
                       end
        end).

Definition wf_frag (orig : bytes) (p : Z * Z) : bool := in_range (zlen orig) (fst p) (snd p).

Definition check_direct (size : Z) (orig : bytes) (locs frags : list (Z * Z))
           (merged : list (option (Z * Z))) (html ansi : list bytes) : bool :=
  let ls := map loc_of locs in
  match fragment size orig ls with
  | None => false
  | Some frs =>
      list_eqb pairZ_eqb (map frag_pair frs) frags &&
      forallb (wf_frag orig) frags &&
      let mm := merge_overlapping (map Some ls) in
      list_eqb (option_eqb pairZ_eqb) (map (option_map loc_pair) mm) merged &&
      list_eqb (option_eqb beqb)
        (map (fun f => format_html XText.html_before XText.html_after orig f mm) frs) (map Some html) &&
      list_eqb (option_eqb beqb)
        (map (fun f => format_ansi ansi_color ansi_reset orig f mm) frs) (map Some ansi)
  end.

Definition check_contract (kind len : Z) (ts : list token) : bool :=
  if kind =? 0 then valid_stream len ts else ordered_offsets ts.

Definition check_contract_item (kind : Z) (it : contract_item) : bool :=
  let '(CI len ts) := it in check_contract kind len ts.
Definition check_highlight_item (it : hl_item) : bool :=
  let '(HLI style size orig locs impl) := it in check_highlight style size orig locs impl.

Definition check (c : case) : bool :=
  match c with
  | CDecode p r w lr lw rc rl enc =>
      pairZ_eqb (decode_rune p) (r, w) && pairZ_eqb (decode_last_rune p) (lr, lw) &&
      (rune_count p =? rc) && (rune_len r =? rl) && beqb (encode_rune r) enc
  | CContract kind len ts => check_contract kind len ts
  | CTokenizer which trues input impl =>
      toks_eqb (model_tokenizer which trues input) impl && valid_stream (zlen input) impl
  | CFilter f len input impl =>
      match model_filter f input with
      | None => false
      | Some m => match f with
                  | FLower => list_eqb tok_eqb_lower m impl
                  | _ => toks_eqb m impl
                  end && ordered_offsets impl
      end
  | CCover kind ex => forallb (fun n => mem_bytes n ex) (registered kind)
  | CDirect size orig locs frags merged html ansi => check_direct size orig locs frags merged html ansi
  | CFormat orig fs fe locs html ansi =>
      let ls := map (option_map loc_of) locs in
      option_eqb beqb (format_html XText.html_before XText.html_after orig (mkFrag fs fe) ls) (Some html) &&
      option_eqb beqb (format_ansi ansi_color ansi_reset orig (mkFrag fs fe) ls) (Some ansi)
  | CHighlight style size orig locs impl => check_highlight style size orig locs impl
  | CContractMany kind items => forallb (check_contract_item kind) items
  | CHighlightMany items => forallb check_highlight_item items
  | CRan _ => true
  end.

(* what the model expected, for replay files *)
Inductive expl :=
| EDecode (d dl : Z * Z) (rc rl : Z) (enc : bytes)
| EContract (full spans : bool)
| EToks (m : option (list token))
| EMissing (names : list bytes)
| EDirect (frs : option (list (Z * Z))) (merged : list (option (Z * Z))) (html ansi : list (option bytes))
| EFormat (html ansi : option bytes)
| EHighlight (spec : bool) (dup : bool) (outs : option (list bytes))
| EContractMany (bad : list contract_item)      (* the shapes that break the contract *)
| EHighlightMany (bad : list (bytes * list (Z * Z) * option bytes * bool * option (list bytes)))
    (* the items that fail: stored value, locations, fragment returned, spec verdict, model fragments *)
| ENone.

Definition explain (c : case) : expl :=
  match c with
  | CDecode p r _ _ _ _ _ _ => EDecode (decode_rune p) (decode_last_rune p) (rune_count p) (rune_len r) (encode_rune r)
  | CContract _ len ts => EContract (valid_stream len ts) (ordered_offsets ts)
  | CTokenizer which trues input _ => EToks (Some (model_tokenizer which trues input))
  | CFilter f _ input _ => EToks (model_filter f input)
  | CCover kind ex => EMissing (filter (fun n => negb (mem_bytes n ex)) (registered kind))
  | CDirect size orig locs _ _ _ _ =>
      let ls := map loc_of locs in
      let mm := merge_overlapping (map Some ls) in
      match fragment size orig ls with
      | None => EDirect None (map (option_map loc_pair) mm) [] []
      | Some frs => EDirect (Some (map frag_pair frs)) (map (option_map loc_pair) mm)
                      (map (fun f => format_html XText.html_before XText.html_after orig f mm) frs)
                      (map (fun f => format_ansi ansi_color ansi_reset orig f mm) frs)
      end
  | CFormat orig fs fe locs _ _ =>
      let ls := map (option_map loc_of) locs in
      EFormat (format_html XText.html_before XText.html_after orig (mkFrag fs fe) ls)
              (format_ansi ansi_color ansi_reset orig (mkFrag fs fe) ls)
  | CHighlight style size orig locs impl =>
      let sorted := order_locs (map loc_of locs) in
      EHighlight (match impl with Some out => fragment_faithful style orig locs out | None => true end)
                 (has_dup_start sorted) (model_fragments style size orig sorted)
  | CContractMany kind items =>
      EContractMany (filter (fun it => negb (check_contract_item kind it)) items)
  | CHighlightMany items =>
      EHighlightMany
        (map (fun it : hl_item =>
                let '(HLI style size orig locs impl) := it in
                (orig, locs, impl,
                 match impl with Some out => fragment_faithful style orig locs out | None => true end,
                 model_fragments style size orig (order_locs (map loc_of locs))))
             (filter (fun it => negb (check_highlight_item it)) items))
  | CRan _ => ENone
  end.
