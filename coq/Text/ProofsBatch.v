(* Text engine (C19) — the batch case kinds judge every item exactly as the single case kinds do.
   CContractMany carries the distinct output shapes a component produced over a whole slice of a
   word enumeration, CHighlightMany the distinct results of highlight calls that overlapped in
   time; accepting a batch is accepting each item as a CContract / CHighlight case, so the
   contract (valid_stream / ordered_offsets) and the faithfulness checker that the theorems of
   Props_C19 are about are what every enumerated word and every concurrent call is held to. *)
From Coq Require Import ZArith List Bool.
From Verif Require Import Common.Bytes Text.Model Text.Corr.
Import ListNotations.
Local Open Scope Z_scope.

Lemma contract_many_itemwise : forall kind items,
  check (CContractMany kind items) = true <->
  (forall len ts, In (CI len ts) items -> check (CContract kind len ts) = true).
Proof.
  intros kind items. cbn [check]. rewrite forallb_forall. split.
  - intros H len ts Hin. exact (H (CI len ts) Hin).
  - intros H [len ts] Hin. exact (H len ts Hin).
Qed.

Lemma highlight_many_itemwise : forall items,
  check (CHighlightMany items) = true <->
  (forall style size orig locs impl, In (HLI style size orig locs impl) items ->
     check (CHighlight style size orig locs impl) = true).
Proof.
  intros items. cbn [check]. rewrite forallb_forall. split.
  - intros H style size orig locs impl Hin. exact (H (HLI style size orig locs impl) Hin).
  - intros H [style size orig locs impl] Hin. exact (H style size orig locs impl Hin).
Qed.

(* an accepted concurrent batch: every fragment any goroutine got back is a faithful piece of the
   stored value of ITS OWN hit (the spec half of check_highlight) *)
Lemma highlight_many_faithful : forall items style size orig locs out,
  check (CHighlightMany items) = true ->
  In (HLI style size orig locs (Some out)) items ->
  fragment_faithful style orig locs out = true.
Proof.
  intros items style size orig locs out Hc Hin.
  apply (proj1 (highlight_many_itemwise items) Hc) in Hin.
  cbn [check] in Hin. unfold check_highlight in Hin.
  apply andb_true_iff in Hin. exact (proj1 Hin).
Qed.

(* an accepted enumeration batch: every distinct output shape satisfies the token-stream contract
   of its kind (tokenizers the full contract, filters and analyzers ordered spans) *)
Lemma contract_many_contract : forall kind items len ts,
  check (CContractMany kind items) = true ->
  In (CI len ts) items ->
  (if kind =? 0 then valid_stream len ts else ordered_offsets ts) = true.
Proof.
  intros kind items len ts Hc Hin.
  apply (proj1 (contract_many_itemwise kind items) Hc) in Hin.
  exact Hin.
Qed.

(* the hypotheses are satisfiable on non-trivial values *)
Example contract_many_example :
  check (CContractMany 1 [CI 5 [O3 0 5 1]; CI 3 [O3 0 3 1; O3 0 3 1]]) = true.
Proof. vm_compute. reflexivity. Qed.

(* "ab" with the match "a": html "<mark>a</mark>b", ansi "\x1b[43ma\x1b[0mb" *)
Example highlight_many_example :
  check (CHighlightMany
           [HLI 0 200 [97;98] [(0,1)] (Some [60;109;97;114;107;62;97;60;47;109;97;114;107;62;98]);
            HLI 1 200 [97;98] [(0,1)] (Some [27;91;52;51;109;97;27;91;48;109;98])]) = true.
Proof. vm_compute. reflexivity. Qed.
