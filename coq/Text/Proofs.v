(* Text engine (C19) — proofs about Text/Model.v.
   1. DecodeRune widths.  2. The character tokenizer (and letter / whitespace / single) produces a
   valid token stream with Term = input[Start:End].  3. Every token filter preserves the stream
   contract (shingle: only the span contract; the stream contract is refuted by a witness).
   4. The analysis pipeline.  5. reverse: the code as it is panics on "\xc3\xc3", the repaired variant
   is total and length preserving, and the two agree on valid UTF-8. *)
From Coq Require Import ZArith List Bool Lia ZifyBool.
From Verif Require Import Common.Bytes Text.Model.
Import ListNotations.
Local Open Scope Z_scope.

(* ------------------------------------------------------------------ lengths, sub *)

Lemma zlen_nil {A} : zlen (@nil A) = 0.
Proof. reflexivity. Qed.

Lemma zlen_cons {A} (x : A) l : zlen (x :: l) = 1 + zlen l.
Proof. unfold zlen. cbn [length]. lia. Qed.

Lemma zlen_nonneg {A} (l : list A) : 0 <= zlen l.
Proof. unfold zlen. lia. Qed.

Lemma zlen_app {A} (a b : list A) : zlen (a ++ b) = zlen a + zlen b.
Proof. unfold zlen. rewrite app_length. lia. Qed.

Lemma sub_zlen s a b : 0 <= a -> a <= b -> b <= zlen s -> zlen (sub s a b) = b - a.
Proof.
  intros Ha Hab Hb. unfold sub, zlen in *. rewrite firstn_length, skipn_length. lia.
Qed.

(* ------------------------------------------------------------------ 1. DecodeRune *)

Lemma decode_rune_nil : decode_rune [] = (RuneError, 0).
Proof. reflexivity. Qed.

Lemma decode_rune_cons_width b r :
  1 <= snd (decode_rune (b :: r)) <= 4 /\ snd (decode_rune (b :: r)) <= 1 + zlen r.
Proof.
  unfold decode_rune. cbv zeta.
  repeat first
    [ match goal with |- context [if ?c then _ else _] => destruct c end
    | match goal with |- context [match ?l with [] => _ | _ :: _ => _ end] => destruct l end ];
    cbn [snd]; rewrite ?zlen_cons;
    match goal with |- context [zlen ?l] => pose proof (zlen_nonneg l) | _ => idtac end; try rewrite zlen_nil; lia.
Qed.

Lemma decode_rune_width : forall p, p <> [] ->
  1 <= snd (decode_rune p) <= 4 /\ snd (decode_rune p) <= zlen p.
Proof.
  intros [|b r] Hp; [congruence|]. rewrite zlen_cons. apply decode_rune_cons_width.
Qed.

Example decode_rune_width_ex : [226; 130; 172] <> [] /\ decode_rune [226; 130; 172] = (8364, 3).
Proof. split; [discriminate|reflexivity]. Qed.

Lemma skip_of_spec w : 1 <= w -> Z.of_nat (skip_of w) = w - 1.
Proof. intro Hw. unfold skip_of. lia. Qed.
(* ------------------------------------------------------------------ the contract, structurally *)

Definition tok_ok (len ls lp : Z) (t : token) : Prop :=
  0 <= t_start t /\ t_start t <= t_end t /\ t_end t <= len /\
  ls <= t_start t /\ 1 <= t_pos t /\ lp <= t_pos t.

Lemma valid_from_cons len ls lp t r :
  valid_from len ls lp (t :: r) = true <->
  tok_ok len ls lp t /\ valid_from len (t_start t) (t_pos t) r = true.
Proof. unfold tok_ok. cbn [valid_from]. rewrite !andb_true_iff, !Z.leb_le. tauto. Qed.

Lemma valid_from_weaken len ts : forall ls lp ls' lp',
  ls' <= ls -> lp' <= lp -> valid_from len ls lp ts = true -> valid_from len ls' lp' ts = true.
Proof.
  destruct ts as [|t r]; intros ls lp ls' lp' Hs Hp H; [reflexivity|].
  apply valid_from_cons in H as [Ht Hr]. apply valid_from_cons. unfold tok_ok in *. split; [lia|exact Hr].
Qed.

Lemma valid_from_drop len ls lp t r :
  valid_from len ls lp (t :: r) = true -> valid_from len ls lp r = true.
Proof.
  intro H. apply valid_from_cons in H as [Ht Hr]. unfold tok_ok in Ht.
  apply (valid_from_weaken len r (t_start t) (t_pos t)); [lia|lia|exact Hr].
Qed.

(* last start / position of a stream read front to back *)
Fixpoint lastS (ls : Z) (l : list token) : Z :=
  match l with [] => ls | t :: r => lastS (t_start t) r end.
Fixpoint lastP (lp : Z) (l : list token) : Z :=
  match l with [] => lp | t :: r => lastP (t_pos t) r end.

Lemma valid_from_app len a : forall ls lp b,
  valid_from len ls lp (a ++ b) =
  valid_from len ls lp a && valid_from len (lastS ls a) (lastP lp a) b.
Proof.
  induction a as [|t a IH]; intros ls lp b; cbn [app valid_from lastS lastP]; [reflexivity|].
  rewrite IH. apply andb_assoc.
Qed.

Lemma lastS_snoc l : forall ls t, lastS ls (l ++ [t]) = t_start t.
Proof. induction l as [|x l IH]; intros ls t; cbn [app lastS]; [reflexivity|apply IH]. Qed.
Lemma lastP_snoc l : forall lp t, lastP lp (l ++ [t]) = t_pos t.
Proof. induction l as [|x l IH]; intros lp t; cbn [app lastP]; [reflexivity|apply IH]. Qed.

Definition hd_start (acc : list token) : Z := match acc with [] => 0 | t :: _ => t_start t end.
Definition hd_pos (acc : list token) : Z := match acc with [] => 0 | t :: _ => t_pos t end.

Lemma lastS_rev acc : lastS 0 (rev acc) = hd_start acc.
Proof. destruct acc as [|t acc]; [reflexivity|]. cbn [rev hd_start]. apply lastS_snoc. Qed.
Lemma lastP_rev acc : lastP 0 (rev acc) = hd_pos acc.
Proof. destruct acc as [|t acc]; [reflexivity|]. cbn [rev hd_pos]. apply lastP_snoc. Qed.

Lemma valid_rev_cons len acc t :
  valid_stream len (rev acc) = true -> tok_ok len (hd_start acc) (hd_pos acc) t ->
  valid_stream len (rev (t :: acc)) = true.
Proof.
  intros Hv Ht. unfold valid_stream in *. cbn [rev]. rewrite valid_from_app, Hv, lastS_rev, lastP_rev.
  cbn [andb]. apply valid_from_cons. split; [exact Ht|reflexivity].
Qed.

(* ------------------------------------------------------------------ 2. tokenizers *)

Lemma emit_valid input len st en count acc :
  0 <= st -> st <= en -> en <= len -> 0 <= count ->
  valid_stream len (rev acc) = true -> hd_start acc <= st -> hd_pos acc <= count ->
  valid_stream len (rev (ct_emit input st en count acc)) = true /\
  hd_start (ct_emit input st en count acc) <= en /\
  hd_pos (ct_emit input st en count acc) <= (if 0 <? en - st then count + 1 else count).
Proof.
  intros Hst Hse Hen Hc Hv Hs Hp. unfold ct_emit. destruct (0 <? en - st) eqn:E.
  - split; [|cbn [hd_start hd_pos t_start t_pos]; lia].
    apply valid_rev_cons; [exact Hv|]. unfold tok_ok. cbn [t_start t_end t_pos]. lia.
  - split; [exact Hv|lia].
Qed.

(* the loop invariant: input = pre ++ suffix with offset = |pre|; skip bytes of the current rune
   are still to be stepped over and fit in the suffix; the open token [st,en) ends no later than
   the end of the current rune; acc (reversed) is a valid stream ending at or before st, count *)
Lemma ctok_valid isTok input len : forall suffix skip offset st en count acc,
  offset + zlen suffix = len ->
  Z.of_nat skip <= zlen suffix ->
  0 <= st -> st <= en -> en <= offset + Z.of_nat skip ->
  0 <= count ->
  valid_stream len (rev acc) = true ->
  hd_start acc <= st -> hd_pos acc <= count ->
  valid_stream len (ctok_loop isTok input suffix skip offset st en count acc) = true.
Proof.
  induction suffix as [|b rest IH]; intros skip offset st en count acc Hoff Hskip Hst Hse Hen Hc Hv Hs Hp.
  - cbn [ctok_loop]. rewrite zlen_nil in *. apply emit_valid; try assumption; lia.
  - rewrite zlen_cons in *. cbn [ctok_loop]. destruct skip as [|k].
    + destruct (decode_rune (b :: rest)) as [r size] eqn:E.
      pose proof (decode_rune_cons_width b rest) as Hw. rewrite E in Hw. cbn [snd] in Hw.
      pose proof (skip_of_spec size ltac:(lia)) as Hsk.
      destruct (emit_valid input len st en count acc) as (Ev & Es & Ep); try assumption; try lia.
      destruct (r =? RuneError); [exact Ev|].
      destruct (isTok r).
      * apply IH; try assumption; lia.
      * apply IH; try assumption; try lia. destruct (0 <? en - st); lia.
    + apply IH; try assumption; lia.
Qed.

Lemma tokenizer_valid : forall (isTok : Z -> bool) (input : bytes),
  valid_stream (zlen input) (char_tokenize isTok input) = true.
Proof.
  intros isTok input. unfold char_tokenize.
  apply ctok_valid; cbn [rev hd_start hd_pos Z.of_nat]; try reflexivity; try lia. apply zlen_nonneg.
Qed.

Lemma ctok_terms isTok input : forall suffix skip offset st en count acc t,
  (forall u, In u acc -> t_term u = sub input (t_start u) (t_end u)) ->
  In t (ctok_loop isTok input suffix skip offset st en count acc) ->
  t_term t = sub input (t_start t) (t_end t).
Proof.
  assert (Hemit : forall st en count acc,
    (forall u, In u acc -> t_term u = sub input (t_start u) (t_end u)) ->
    forall u, In u (ct_emit input st en count acc) -> t_term u = sub input (t_start u) (t_end u)).
  { intros st en count acc Hacc u Hu. unfold ct_emit in Hu. destruct (0 <? en - st); [|auto].
    destruct Hu as [<-|Hu]; [reflexivity|auto]. }
  induction suffix as [|b rest IH]; intros skip offset st en count acc t Hacc Ht.
  - cbn [ctok_loop] in Ht. apply in_rev in Ht. eapply Hemit; eassumption.
  - cbn [ctok_loop] in Ht. destruct skip as [|k].
    + destruct (decode_rune (b :: rest)) as [r size].
      destruct (r =? RuneError); [apply in_rev in Ht; eapply Hemit; eassumption|].
      destruct (isTok r); [eapply IH; eassumption|].
      eapply IH; [|exact Ht]. apply Hemit; assumption.
    + eapply IH; eassumption.
Qed.

Lemma tokenizer_terms : forall isTok input t,
  In t (char_tokenize isTok input) -> t_term t = sub input (t_start t) (t_end t).
Proof.
  intros isTok input t Ht. unfold char_tokenize in Ht. eapply ctok_terms; [|exact Ht].
  intros u [].
Qed.

Lemma letter_valid : forall letters input,
  valid_stream (zlen input) (letter_tokenize letters input) = true.
Proof. intros. apply tokenizer_valid. Qed.

Lemma whitespace_valid : forall spaces input,
  valid_stream (zlen input) (whitespace_tokenize spaces input) = true.
Proof. intros. apply tokenizer_valid. Qed.

Lemma single_valid : forall input, valid_stream (zlen input) (single_tokenize input) = true.
Proof.
  intro input. unfold single_tokenize. apply valid_from_cons. unfold tok_ok. cbn [t_start t_end t_pos].
  pose proof (zlen_nonneg input). split; [lia|reflexivity].
Qed.

(* "Go, bleve 2" -> Go@[0,2) pos 1, bleve@[4,9) pos 2 *)
Example tokenizer_terms_ex :
  map (fun t => (t_term t, t_start t, t_end t, t_pos t))
      (letter_tokenize [] [71; 111; 44; 32; 98; 108; 101; 118; 101; 32; 50]) =
  [([71; 111], 0, 2, 1); ([98; 108; 101; 118; 101], 4, 9, 2)].
Proof. vm_compute. reflexivity. Qed.
(* ------------------------------------------------------------------ 3. filters, generically *)

(* valid_stream reads only (Start, End, Position) *)
Definition tkey (t : token) : Z * Z * Z := (t_start t, t_end t, t_pos t).

Lemma tkey_eq t u : tkey u = tkey t ->
  t_start u = t_start t /\ t_end u = t_end t /\ t_pos u = t_pos t.
Proof. unfold tkey. intro H. inversion H. auto. Qed.

Lemma valid_from_keys len a : forall b ls lp,
  map tkey a = map tkey b -> valid_from len ls lp a = valid_from len ls lp b.
Proof.
  induction a as [|t a IH]; intros [|u b] ls lp H; try discriminate; [reflexivity|].
  cbn [map] in H. inversion H as [[H1 H2 H3 H4]]. cbn [valid_from]. rewrite H1, H2, H3.
  f_equal. apply IH. exact H4.
Qed.

Lemma map_same_keys_valid len (f : token -> token) ts :
  (forall t, tkey (f t) = tkey t) ->
  valid_stream len ts = true -> valid_stream len (map f ts) = true.
Proof.
  intros Hf Hv. unfold valid_stream in *. rewrite <- Hv. apply valid_from_keys.
  rewrite map_map. apply map_ext. exact Hf.
Qed.

(* removing tokens *)
Lemma filter_valid len (p : token -> bool) ts : forall ls lp,
  valid_from len ls lp ts = true -> valid_from len ls lp (filter p ts) = true.
Proof.
  induction ts as [|t r IH]; intros ls lp H; [reflexivity|]. cbn [filter]. destruct (p t).
  - apply valid_from_cons in H as [Ht Hr]. apply valid_from_cons. split; [exact Ht|apply IH; exact Hr].
  - apply IH. eapply valid_from_drop. exact H.
Qed.

(* replacing each token by any number (possibly zero) of tokens with its Start, End, Position *)
Lemma copies_app_valid len t R l : forall ls lp,
  (forall u, In u l -> tkey u = tkey t) ->
  tok_ok len ls lp t ->
  valid_from len ls lp R = true -> valid_from len (t_start t) (t_pos t) R = true ->
  valid_from len ls lp (l ++ R) = true.
Proof.
  induction l as [|u l IH]; intros ls lp Hl Ht HR HR'; [exact HR|].
  cbn [app]. destruct (tkey_eq t u (Hl u (or_introl eq_refl))) as (E1 & E2 & E3).
  apply valid_from_cons. unfold tok_ok in *. rewrite E1, E2, E3. split; [exact Ht|].
  apply IH; [intros v Hv; apply Hl; right; exact Hv| lia | exact HR' | exact HR'].
Qed.

Lemma flat_map_valid len (f : token -> list token) :
  (forall t u, In u (f t) -> tkey u = tkey t) ->
  forall ts ls lp, valid_from len ls lp ts = true -> valid_from len ls lp (flat_map f ts) = true.
Proof.
  intros Hf. induction ts as [|t r IH]; intros ls lp H; [reflexivity|].
  cbn [flat_map]. pose proof (valid_from_drop _ _ _ _ _ H) as Hd.
  apply valid_from_cons in H as [Ht Hr].
  apply (copies_app_valid len t); [apply Hf|exact Ht|apply IH; exact Hd|apply IH; exact Hr].
Qed.

(* partial per-token rewriting (a Go panic aborts the whole filter) *)
Lemma map_opt_keys (f : token -> option token) :
  (forall t u, f t = Some u -> tkey u = tkey t) ->
  forall ts ts', map_opt f ts = Some ts' -> map tkey ts' = map tkey ts.
Proof.
  intros Hf. induction ts as [|t r IH]; intros ts' H; cbn [map_opt] in H.
  - inversion H. reflexivity.
  - destruct (f t) as [u|] eqn:E; [|discriminate]. destruct (map_opt f r) as [r'|]; [|discriminate].
    inversion H. cbn [map]. rewrite (Hf _ _ E), (IH r' eq_refl). reflexivity.
Qed.

Lemma map_opt_total {A B} (f : A -> option B) :
  (forall x, f x <> None) -> forall l, map_opt f l <> None.
Proof.
  intros Hf. induction l as [|x l IH]; cbn [map_opt]; [discriminate|].
  destruct (f x) eqn:E; [|exfalso; eapply Hf; exact E].
  destruct (map_opt f l); [discriminate|congruence].
Qed.

(* ------------------------------------------------------------------ 3. the filters *)

Lemma lowercase_preserves : forall lower len ts,
  valid_stream len ts = true -> valid_stream len (lowercase_filter lower ts) = true.
Proof. intros lower len ts. apply map_same_keys_valid. reflexivity. Qed.

Lemma length_preserves : forall mn mx len ts,
  valid_stream len ts = true -> valid_stream len (length_filter mn mx ts) = true.
Proof. intros mn mx len ts. apply filter_valid. Qed.

Lemma stop_preserves : forall words len ts,
  valid_stream len ts = true -> valid_stream len (stop_filter words ts) = true.
Proof. intros words len ts. apply filter_valid. Qed.

Lemma unique_aux_valid len ts : forall seen ls lp,
  valid_from len ls lp ts = true -> valid_from len ls lp (unique_aux seen ts) = true.
Proof.
  induction ts as [|t r IH]; intros seen ls lp H; [reflexivity|]. cbn [unique_aux].
  destruct (mem_bytes (t_term t) seen).
  - apply IH. eapply valid_from_drop. exact H.
  - apply valid_from_cons in H as [Ht Hr]. apply valid_from_cons. split; [exact Ht|apply IH; exact Hr].
Qed.

Lemma unique_preserves : forall len ts,
  valid_stream len ts = true -> valid_stream len (unique_filter ts) = true.
Proof. intros len ts. apply unique_aux_valid. Qed.

Lemma keyword_preserves : forall words len ts,
  valid_stream len ts = true -> valid_stream len (keyword_filter words ts) = true.
Proof.
  intros words len ts. apply map_same_keys_valid. intro t. destruct (mem_bytes (t_term t) words); reflexivity.
Qed.

Lemma apostrophe_preserves : forall len ts,
  valid_stream len ts = true -> valid_stream len (apostrophe_filter ts) = true.
Proof.
  intros len ts. apply map_same_keys_valid. intro t.
  destruct (index_rune_in apostrophes 0 (t_term t) 0); reflexivity.
Qed.

Lemma elision_preserves : forall articles len ts,
  valid_stream len ts = true -> valid_stream len (elision_filter articles ts) = true.
Proof. intros articles len ts. apply map_same_keys_valid. reflexivity. Qed.

Lemma ngram_preserves : forall mn mx len ts,
  valid_stream len ts = true -> valid_stream len (ngram_filter mn mx ts) = true.
Proof.
  intros mn mx len ts. apply flat_map_valid. intros t u Hu. unfold ngram_token in Hu.
  apply in_flat_map in Hu as (i & _ & Hu). apply in_flat_map in Hu as (n & _ & Hu).
  destruct (i + n <=? zlen (runes (t_term t))); [|destruct Hu].
  destruct Hu as [<-|[]]. reflexivity.
Qed.

Lemma edge_preserves : forall back mn mx len ts,
  valid_stream len ts = true -> valid_stream len (edge_filter back mn mx ts) = true.
Proof.
  intros back mn mx len ts. apply flat_map_valid. intros t u Hu. unfold edge_token in Hu.
  apply in_flat_map in Hu as (n & _ & Hu).
  destruct back; match type of Hu with In _ (if ?c then _ else _) => destruct c end;
    try destruct Hu as [<-|[]]; try destruct Hu; reflexivity.
Qed.

Lemma truncate_token_key n t u : truncate_token n t = Some u -> tkey u = tkey t.
Proof.
  unfold truncate_token. destruct (n <? zlen (runes (t_term t))); [destruct (n <? 0)|];
    intro H; inversion H; reflexivity.
Qed.

Lemma truncate_preserves : forall n len ts ts',
  valid_stream len ts = true -> truncate_filter n ts = Some ts' -> valid_stream len ts' = true.
Proof.
  intros n len ts ts' Hv H. unfold valid_stream in *. rewrite <- Hv. apply valid_from_keys.
  eapply map_opt_keys; [|exact H]. apply truncate_token_key.
Qed.

Lemma truncate_total : forall n ts, 0 <= n -> truncate_filter n ts <> None.
Proof.
  intros n ts Hn. apply map_opt_total. intro t. unfold truncate_token.
  destruct (n <? zlen (runes (t_term t))); [|discriminate].
  destruct (n <? 0) eqn:E; [lia|discriminate].
Qed.

Lemma reverse_preserves : forall rv len ts ts',
  valid_stream len ts = true -> reverse_filter rv ts = Some ts' -> valid_stream len ts' = true.
Proof.
  intros rv len ts ts' Hv H. unfold valid_stream in *. rewrite <- Hv. apply valid_from_keys.
  eapply map_opt_keys; [|exact H]. intros t u Hu. cbn beta in Hu.
  destruct (rv (t_term t)); inversion Hu. reflexivity.
Qed.

(* the hypotheses are satisfiable and the filters act non-trivially: "The l'ami the fox" *)
Definition flt_ex_input : bytes := [84; 104; 101; 32; 108; 39; 97; 109; 105; 32; 116; 104; 101; 32; 102; 111; 120].
Definition flt_ex_ts : list token := whitespace_tokenize [] flt_ex_input.

Example filters_hyp_ex :
  valid_stream 17 flt_ex_ts = true /\
  map (fun t => (t_start t, t_end t, t_pos t)) flt_ex_ts = [(0, 3, 1); (4, 9, 2); (10, 13, 3); (14, 17, 4)].
Proof. vm_compute. split; reflexivity. Qed.

Example lowercase_ex : map t_term (lowercase_filter ascii_lower flt_ex_ts) =
  [[116; 104; 101]; [108; 39; 97; 109; 105]; [116; 104; 101]; [102; 111; 120]].
Proof. vm_compute. reflexivity. Qed.
Example length_ex : map t_term (length_filter 4 0 flt_ex_ts) = [[108; 39; 97; 109; 105]].
Proof. vm_compute. reflexivity. Qed.
Example stop_ex : map t_pos (stop_filter [[116; 104; 101]] flt_ex_ts) = [1; 2; 4].
Proof. vm_compute. reflexivity. Qed.
Example unique_ex : map t_pos (unique_filter (lowercase_filter ascii_lower flt_ex_ts)) = [1; 2; 4].
Proof. vm_compute. reflexivity. Qed.
Example keyword_ex : map t_kw (keyword_filter [[102; 111; 120]] flt_ex_ts) = [false; false; false; true].
Proof. vm_compute. reflexivity. Qed.
Example apostrophe_ex : map t_term (apostrophe_filter flt_ex_ts) =
  [[84; 104; 101]; [108]; [116; 104; 101]; [102; 111; 120]].
Proof. vm_compute. reflexivity. Qed.
Example elision_ex : map t_term (elision_filter [[108]] flt_ex_ts) =
  [[84; 104; 101]; [97; 109; 105]; [116; 104; 101]; [102; 111; 120]].
Proof. vm_compute. reflexivity. Qed.
Example ngram_ex : map t_pos (ngram_filter 2 3 flt_ex_ts) = [1; 1; 1; 2; 2; 2; 2; 2; 2; 2; 3; 3; 3; 4; 4; 4].
Proof. vm_compute. reflexivity. Qed.
Example edge_ex : map t_term (edge_filter true 1 2 flt_ex_ts) =
  [[101]; [104; 101]; [105]; [109; 105]; [101]; [104; 101]; [120]; [111; 120]].
Proof. vm_compute. reflexivity. Qed.
Example truncate_ex : option_map (map t_term) (truncate_filter 2 flt_ex_ts) =
  Some [[84; 104]; [108; 39]; [116; 104]; [102; 111]].
Proof. vm_compute. reflexivity. Qed.
Example truncate_panics_ex : truncate_filter (-1) flt_ex_ts = None.
Proof. vm_compute. reflexivity. Qed.
(* ------------------------------------------------------------------ 3. shingle: the span contract *)

(* the ring, most recent first: every entry is a filler (Start = End = -1) or has its span in
   the text, and the non-filler starts do not increase going back in time (bounded by hi) *)
Fixpoint hist_ok (len hi : Z) (hist : list token) : Prop :=
  match hist with
  | [] => True
  | c :: r => (t_start c = -1 /\ t_end c = -1 /\ hist_ok len hi r) \/
              (span_ok len c = true /\ t_start c <= hi /\ hist_ok len (t_start c) r)
  end.

Lemma hist_ok_weaken len hist : forall hi hi', hi <= hi' -> hist_ok len hi hist -> hist_ok len hi' hist.
Proof.
  induction hist as [|c r IH]; intros hi hi' Hh H; [exact I|]. cbn [hist_ok] in *.
  destruct H as [(Hs & He & Hr)|(Hs & Hb & Hr)]; [left|right]; repeat split; try assumption; try lia.
  eapply IH; eassumption.
Qed.

Lemma hist_ok_firstn len n : forall hist hi, hist_ok len hi hist -> hist_ok len hi (firstn n hist).
Proof.
  induction n as [|n IH]; intros [|c r] hi H; try exact I. cbn [firstn hist_ok] in *.
  destruct H as [(Hs & He & Hr)|(Hs & Hb & Hr)]; [left|right]; repeat split; try assumption; apply IH; assumption.
Qed.

(* the (start, end) part of shingle_fold does not depend on the rest of its state *)
Definition se_step (se : Z * Z) (c : token) : Z * Z :=
  (if (fst se =? -1) && negb (t_start c =? -1) then t_start c else fst se,
   if negb (t_end c =? -1) then t_end c else snd se).

Lemma shingle_fold_se sep items : forall first pos st en acc,
  (snd (fst (fst (shingle_fold sep first items pos st en acc))),
   snd (fst (shingle_fold sep first items pos st en acc))) = fold_left se_step items (st, en).
Proof.
  induction items as [|c r IH]; intros first pos st en acc; [reflexivity|].
  cbn [shingle_fold fold_left]. rewrite IH. reflexivity.
Qed.

(* nothing but fillers so far, or start = the oldest real start, end = the newest real end *)
Definition se_ok (len hi : Z) (se : Z * Z) : Prop :=
  (fst se = -1 /\ snd se = 0) \/
  (0 <= fst se /\ fst se <= hi /\ fst se <= snd se /\ snd se <= len).

Lemma se_fold_rev len : forall hist hi,
  hist_ok len hi hist -> se_ok len hi (fold_left se_step (rev hist) (-1, 0)).
Proof.
  induction hist as [|c r IH]; intros hi H; [left; split; reflexivity|].
  cbn [rev]. rewrite fold_left_app. cbn [fold_left hist_ok] in *.
  destruct H as [(Hs & He & Hr)|(Hs & Hb & Hr)].
  - specialize (IH hi Hr). destruct (fold_left se_step (rev r) (-1, 0)) as [s e].
    unfold se_step. rewrite Hs, He. cbn [fst snd Z.eqb negb Pos.eqb]. rewrite andb_false_r. exact IH.
  - specialize (IH (t_start c) Hr). destruct (fold_left se_step (rev r) (-1, 0)) as [s e].
    unfold span_ok in Hs. unfold se_ok, se_step in *. cbn [fst snd] in *.
    destruct (s =? -1) eqn:E1, (t_start c =? -1) eqn:E2, (t_end c =? -1) eqn:E3; cbn [andb negb]; lia.
Qed.

Lemma shingle_of_span len hi c items :
  0 <= len -> se_ok len hi (fold_left se_step items (-1, 0)) -> span_ok len (shingle_of c items) = true.
Proof.
  intros Hlen H. unfold shingle_of. rewrite <- (shingle_fold_se (sh_sep c) items true 0 (-1) 0 []) in H.
  destruct (shingle_fold (sh_sep c) true items 0 (-1) 0 []) as [[[pos st] en] b].
  unfold se_ok in H. cbn [fst snd] in H. unfold span_ok. cbn [t_start t_end].
  destruct (st =? -1) eqn:E1, (en =? -1) eqn:E2; lia.
Qed.

Lemma shingle_state_ok len hi c hist :
  0 <= len -> hist_ok len hi hist -> valid_offsets len (shingle_state c hist) = true.
Proof.
  intros Hlen H. unfold valid_offsets, shingle_state. apply forallb_forall. intros u Hu.
  apply in_flat_map in Hu as (n & _ & Hu). destruct (n <=? zlen hist); [|destruct Hu].
  destruct Hu as [<-|[]]. apply (shingle_of_span len hi); [exact Hlen|].
  apply se_fold_rev. apply hist_ok_firstn. exact H.
Qed.

Lemma hist_ok_push_filler len hi c hist :
  hist_ok len hi hist -> hist_ok len hi (ring_push c (filler_token c) hist).
Proof.
  intro H. unfold ring_push. apply hist_ok_firstn. cbn [hist_ok]. left. auto.
Qed.

Lemma hist_ok_push_token len hi c t hist :
  span_ok len t = true -> hi <= t_start t -> hist_ok len hi hist ->
  hist_ok len (t_start t) (ring_push c t hist).
Proof.
  intros Ht Hh H. unfold ring_push. apply hist_ok_firstn. cbn [hist_ok]. right.
  repeat split; [exact Ht|lia|]. eapply hist_ok_weaken; eassumption.
Qed.

Lemma shingle_fillers_ok len hi c k : forall hist out hist',
  0 <= len -> hist_ok len hi hist -> shingle_fillers c k hist = (out, hist') ->
  valid_offsets len out = true /\ hist_ok len hi hist'.
Proof.
  induction k as [|k IH]; intros hist out hist' Hlen H E; cbn [shingle_fillers] in E.
  - inversion E; subst. split; [reflexivity|exact H].
  - pose proof (hist_ok_push_filler len hi c hist H) as H1.
    destruct (shingle_fillers c k (ring_push c (filler_token c) hist)) as [o h2] eqn:E2.
    inversion E; subst. destruct (IH _ _ _ Hlen H1 E2) as [Ho Hh]. split; [|exact Hh].
    unfold valid_offsets in *. rewrite forallb_app, Ho, andb_true_r.
    apply (shingle_state_ok len hi); assumption.
Qed.

Lemma shingle_loop_ok len c ts : forall curpos hist hi lp,
  valid_from len hi lp ts = true -> hist_ok len hi hist ->
  valid_offsets len (shingle_loop c ts curpos hist) = true.
Proof.
  induction ts as [|t r IH]; intros curpos hist hi lp Hv H; [reflexivity|].
  apply valid_from_cons in Hv as [Ht Hr]. unfold tok_ok in Ht.
  assert (Hspan : span_ok len t = true) by (unfold span_ok; lia).
  assert (Hlen : 0 <= len) by lia.
  cbn [shingle_loop].
  destruct (shingle_fillers c (Z.to_nat (t_pos t - curpos - 1)) hist) as [fo h1] eqn:E.
  destruct (shingle_fillers_ok len hi c _ _ _ _ Hlen H E) as [Hfo Hh1].
  pose proof (hist_ok_push_token len hi c t h1 Hspan ltac:(lia) Hh1) as Hh2.
  unfold valid_offsets in *. rewrite !forallb_app, Hfo.
  rewrite (shingle_state_ok len (t_start t) c _ Hlen Hh2 : forallb _ _ = true).
  rewrite (IH (t_pos t) _ (t_start t) (t_pos t) Hr Hh2).
  destruct (sh_orig c); cbn [forallb]; rewrite ?Hspan; reflexivity.
Qed.

(* the hypothesis on sh_min is not used: with n <= 0 the shingle of no entries is [0,0) *)
Lemma shingle_offsets : forall c len ts,
  1 <= sh_min c -> valid_stream len ts = true -> valid_offsets len (shingle_filter c ts) = true.
Proof.
  intros c len ts _ Hv. unfold shingle_filter. apply (shingle_loop_ok len c ts 0 [] 0 0 Hv). exact I.
Qed.

Definition sh_ex_cfg : shingle_cfg := mkSh 2 2 false [32] [95].
Definition sh_ex_ts : list token :=
  [mkTok [97] 0 1 1 AlphaNumeric false; mkTok [98] 2 3 4 AlphaNumeric false].

Example shingle_offsets_ex :
  1 <= sh_min sh_ex_cfg /\ valid_stream 3 sh_ex_ts = true /\
  map (fun t => (t_term t, t_start t, t_end t, t_pos t)) (shingle_filter sh_ex_cfg sh_ex_ts) =
  [([97; 32; 95], 0, 1, 1); ([95; 32; 95], 0, 0, 0); ([95; 32; 98], 2, 3, 4)].
Proof. vm_compute. repeat split; discriminate. Qed.

(* the stream contract itself is NOT preserved: a shingle made of fillers only has Position 0 *)
Lemma shingle_not_valid_refuted : exists c ts len,
  valid_stream len ts = true /\ valid_stream len (shingle_filter c ts) = false.
Proof. exists sh_ex_cfg, sh_ex_ts, 3. vm_compute. split; reflexivity. Qed.
(* ------------------------------------------------------------------ 4. the analysis pipeline *)

Lemma run_filters_valid len fs : forall ts,
  valid_stream len ts = true ->
  Forall (fun f => forall ts, valid_stream len ts = true -> valid_stream len (f ts) = true) fs ->
  valid_stream len (run_filters fs ts) = true.
Proof.
  unfold run_filters. induction fs as [|f fs IH]; intros ts Hv HF; cbn [fold_left]; [exact Hv|].
  inversion HF as [|f' fs' Hf Hfs]; subst. apply IH; [apply Hf; exact Hv|exact Hfs].
Qed.

Lemma pipeline_valid : forall len (tok : bytes -> list token) (fs : list (list token -> list token)) input,
  valid_stream len (tok input) = true ->
  Forall (fun f => forall ts, valid_stream len ts = true -> valid_stream len (f ts) = true) fs ->
  valid_stream len (analyze tok fs input) = true.
Proof. intros len tok fs input Hv HF. unfold analyze. apply run_filters_valid; assumption. Qed.

Lemma pipeline_valid_offsets : forall len (tok : bytes -> list token) (fs : list (list token -> list token))
    (g : list token -> list token) input,
  valid_stream len (tok input) = true ->
  Forall (fun f => forall ts, valid_stream len ts = true -> valid_stream len (f ts) = true) fs ->
  (forall ts, valid_stream len ts = true -> valid_offsets len (g ts) = true) ->
  valid_offsets len (analyze tok (fs ++ [g]) input) = true.
Proof.
  intros len tok fs g input Hv HF Hg. unfold analyze, run_filters. rewrite fold_left_app. cbn [fold_left].
  apply Hg. apply run_filters_valid; assumption.
Qed.

Definition pl_ex_input : bytes := [71; 111; 44; 32; 66; 108; 101; 118; 101; 32; 50; 32; 83; 101; 97; 114; 99; 104].  (* "Go, Bleve 2 Search" *)
Definition pl_ex_filters : list (list token -> list token) :=
  [lowercase_filter ascii_lower; length_filter 2 5; ngram_filter 1 2].

Lemma pl_ex_filters_ok len :
  Forall (fun f => forall ts, valid_stream len ts = true -> valid_stream len (f ts) = true) pl_ex_filters.
Proof.
  repeat constructor; intros ts Hv;
    [apply lowercase_preserves|apply length_preserves|apply ngram_preserves]; exact Hv.
Qed.

Example pipeline_valid_ex :
  valid_stream (zlen pl_ex_input) (analyze (letter_tokenize []) pl_ex_filters pl_ex_input) = true /\
  map (fun t => (t_term t, t_start t, t_end t, t_pos t)) (analyze (letter_tokenize []) pl_ex_filters pl_ex_input) =
  [([103], 0, 2, 1); ([103; 111], 0, 2, 1); ([111], 0, 2, 1);
   ([98], 4, 9, 2); ([98; 108], 4, 9, 2); ([108], 4, 9, 2); ([108; 101], 4, 9, 2); ([101], 4, 9, 2);
   ([101; 118], 4, 9, 2); ([118], 4, 9, 2); ([118; 101], 4, 9, 2); ([101], 4, 9, 2)].
Proof.
  split; [|vm_compute; reflexivity].
  apply pipeline_valid; [apply letter_valid|apply pl_ex_filters_ok].
Qed.

Example pipeline_valid_offsets_ex :
  valid_offsets (zlen pl_ex_input)
    (analyze (letter_tokenize []) (pl_ex_filters ++ [shingle_filter sh_ex_cfg]) pl_ex_input) = true /\
  length (analyze (letter_tokenize []) (pl_ex_filters ++ [shingle_filter sh_ex_cfg]) pl_ex_input) = 11%nat.
Proof.
  split; [|vm_compute; reflexivity].
  apply pipeline_valid_offsets; [apply letter_valid|apply pl_ex_filters_ok|].
  intros ts Hv. apply shingle_offsets; [vm_compute; discriminate|exact Hv].
Qed.

(* ------------------------------------------------------------------ 5. reverse *)

(* the code as it is: "\xc3\xc3" is two invalid bytes, []rune gives two U+FFFD, RuneLen = 3 each,
   and the first copy asks for output[-1:2] (is_mark false) or output[-4:2] (is_mark true) *)
Lemma reverse_refuted : forall is_mark, reverse_cur is_mark [195; 195] = None.
Proof.
  intro is_mark. unfold reverse_cur.
  replace (map (fun r => (r, rune_len r)) (runes [195; 195])) with [(65533, 3); (65533, 3)]
    by (vm_compute; reflexivity).
  cbn [rv_run rv_go]. destruct (is_mark 65533); vm_compute; reflexivity.
Qed.

Lemma reverse_cur_refuted : forall is_mark, exists s, reverse_cur is_mark s = None.
Proof. intro is_mark. exists [195; 195]. apply reverse_refuted. Qed.

Fixpoint sumw (l : list (Z * Z)) : Z :=
  match l with [] => 0 | rw :: r => snd rw + sumw r end.

(* the widths visited by the DecodeRune loop add up to the length *)
Lemma runes_w_aux_sum : forall s skip, Z.of_nat skip <= zlen s ->
  sumw (runes_w_aux skip s) = zlen s - Z.of_nat skip /\
  Forall (fun rw => 1 <= snd rw) (runes_w_aux skip s).
Proof.
  induction s as [|b rest IH]; intros skip Hs.
  - rewrite zlen_nil in Hs. rewrite (@zlen_nil Z). cbn [runes_w_aux sumw]. split; [lia|constructor].
  - rewrite zlen_cons in Hs. rewrite zlen_cons. cbn [runes_w_aux]. destruct skip as [|k].
    + destruct (decode_rune (b :: rest)) as [r w] eqn:E.
      pose proof (decode_rune_cons_width b rest) as Hw. rewrite E in Hw. cbn [snd] in Hw.
      pose proof (skip_of_spec w ltac:(lia)) as Hsk.
      destruct (IH (skip_of w) ltac:(lia)) as [Hsum Hall]. cbn [sumw snd]. split; [lia|].
      constructor; [cbn [snd]; lia|exact Hall].
    + destruct (IH k ltac:(lia)) as [Hsum Hall]. split; [lia|exact Hall].
Qed.

Lemma sumw_nonneg l : Forall (fun rw : Z * Z => 1 <= snd rw) l -> 0 <= sumw l.
Proof. induction 1 as [|rw l H _ IH]; cbn [sumw]; lia. Qed.

Lemma rv_flush_ok s wid cin cout out :
  0 <= wid -> 0 <= cin -> wid + cin <= zlen s -> cin + cout = zlen s -> zlen out = cin ->
  rv_flush s wid cin cout out = Some (cin + wid, cout - wid, sub s cin (cin + wid) ++ out) /\
  zlen (sub s cin (cin + wid) ++ out) = cin + wid.
Proof.
  intros Hw Hc Hfit Hsum Hout. unfold rv_flush, slice, in_range.
  replace ((0 <=? cout - wid) && (cout - wid <=? cout) && (cout <=? zlen s)) with true by lia.
  replace ((0 <=? cin) && (cin <=? cin + wid) && (cin + wid <=? zlen s)) with true by lia.
  split; [reflexivity|]. rewrite zlen_app, sub_zlen; lia.
Qed.

Lemma zlen_repeat (x : Z) n : zlen (repeat x n) = Z.of_nat n.
Proof. unfold zlen. rewrite repeat_length. reflexivity. Qed.

(* remaining widths + open group + bytes consumed = len(s); cursorIn + cursorOut = len(s);
   out = output[cursorOut:] *)
Lemma rv_go_total is_mark s : forall items wid cin cout out,
  Forall (fun rw => 1 <= snd rw) items -> 0 <= wid -> 0 <= cin ->
  sumw items + wid + cin = zlen s -> cin + cout = zlen s -> zlen out = cin ->
  exists o, rv_go is_mark s items wid cin cout out = Some o /\ zlen o = zlen s.
Proof.
  induction items as [|[r w] rest IH]; intros wid cin cout out Hall Hw Hc Hsum Hio Hout.
  - cbn [rv_go sumw] in *.
    destruct (rv_flush_ok s wid cin cout out Hw Hc ltac:(lia) Hio Hout) as [E Hl]. rewrite E.
    eexists. split; [reflexivity|]. rewrite zlen_app, zlen_repeat, Hl. lia.
  - pose proof (Forall_inv Hall) as Hw1. pose proof (Forall_inv_tail Hall) as Hrest.
    cbn [snd] in Hw1. cbn [rv_go sumw snd] in *.
    pose proof (sumw_nonneg rest Hrest) as Hnn.
    destruct (is_mark r).
    + apply IH; try assumption; lia.
    + destruct (rv_flush_ok s wid cin cout out Hw Hc ltac:(lia) Hio Hout) as [E Hl]. rewrite E.
      apply IH; try assumption; lia.
Qed.

(* the repaired variant never panics and produces len(s) bytes *)
Lemma reverse_fixed_total : forall is_mark s,
  exists out, reverse_fixed is_mark s = Some out /\ length out = length s.
Proof.
  intros is_mark s. unfold reverse_fixed, runes_w.
  destruct (runes_w_aux_sum s 0 ltac:(pose proof (zlen_nonneg s); lia)) as [Hsum Hall].
  destruct (runes_w_aux 0 s) as [|[r w] rest]; cbn [rv_run].
  - eexists. split; [reflexivity|apply repeat_length].
  - pose proof (Forall_inv Hall) as Hw. pose proof (Forall_inv_tail Hall) as Hrest. cbn [snd sumw] in *.
    destruct (rv_go_total is_mark s rest w 0 (zlen s) [] Hrest ltac:(lia) ltac:(lia) ltac:(lia) ltac:(lia) eq_refl)
      as (o & Eo & Hl).
    exists o. split; [exact Eo|]. unfold zlen in Hl. lia.
Qed.

(* on input where every decoded width equals RuneLen of the rune (valid UTF-8) the two coincide *)
Lemma reverse_cur_agrees : forall is_mark s,
  Forall (fun rw => rune_len (fst rw) = snd rw) (runes_w s) ->
  reverse_cur is_mark s = reverse_fixed is_mark s.
Proof.
  intros is_mark s H. unfold reverse_cur, reverse_fixed, runes. f_equal. rewrite map_map.
  induction H as [|[r w] l Hrw _ IH]; [reflexivity|]. cbn [map fst snd] in *. rewrite Hrw, IH. reflexivity.
Qed.

(* "añ́" = a, n, U+0303 (a mark), reversed keeping the mark after its base: n U+0303 a *)
Example reverse_cur_agrees_ex :
  Forall (fun rw => rune_len (fst rw) = snd rw) (runes_w [97; 110; 204; 131]) /\
  reverse_cur (fun r => r =? 771) [97; 110; 204; 131] = Some [110; 204; 131; 97].
Proof. split; [repeat constructor|vm_compute; reflexivity]. Qed.

Example reverse_fixed_ex : reverse_fixed (fun r => r =? 771) [195; 195; 97] = Some [97; 195; 195].
Proof. vm_compute. reflexivity. Qed.

Example reverse_filter_ex :
  option_map (map t_term) (reverse_filter (reverse_fixed (fun _ => false)) flt_ex_ts) =
  Some [[101; 104; 84]; [105; 109; 97; 39; 108]; [101; 104; 116]; [120; 111; 102]] /\
  reverse_filter (reverse_cur (fun _ => false)) [mkTok [195; 195] 0 2 1 AlphaNumeric false] = None.
Proof. vm_compute. split; reflexivity. Qed.
