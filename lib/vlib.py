"""Common machinery of bin/vcheck: build the Coq development against /repo's current tree,
build and run the Go correspondence harness, evaluate the model on the cases inside Coq,
decide the verdict, write evidence and replay files."""
import fcntl, glob, hashlib, json, os, re, shutil, subprocess, sys, time
from concurrent.futures import ThreadPoolExecutor

VERIF = os.path.dirname(os.path.dirname(os.path.abspath(__file__)))
REPO = os.environ.get("VERIF_REPO", "/repo")
ALT = os.path.realpath(REPO) != "/repo"
# VERIF_REPO=<scratch worktree> runs a check against another tree without touching the shared build
# directory, Coq tree, evidence or replays (used to try seeded changes in parallel).
BUILD = os.path.join(VERIF, ".build") if not ALT else os.path.join(VERIF, ".build_alt", hashlib.sha1(os.path.realpath(REPO).encode()).hexdigest()[:10])
COQ_SRC = os.path.join(VERIF, "coq")
COQ = COQ_SRC if not ALT else os.path.join(BUILD, "coq")
HARNESS = os.path.join(VERIF, "harness")
OUT = VERIF if not ALT else BUILD     # evidence/ and replays/ live here

def prepare():
    os.makedirs(BUILD, exist_ok=True)
    if ALT:
        os.makedirs(COQ, exist_ok=True)
        subprocess.run(["rsync", "-a", "--delete", "--exclude", "Makefile*", "--exclude", ".Makefile.d", "--exclude", "_CoqProject",
                        COQ_SRC + "/", COQ + "/"], check=True)

ALLOWED_AXIOMS = {
    # Coq standard library axioms a theorem may depend on (named in DESIGN.md section 5)
    "ClassicalDedekindReals.sig_forall_dec", "ClassicalDedekindReals.sig_not_dec",
    "FunctionalExtensionality.functional_extensionality_dep", "Classical_Prop.classic",
    "functional_extensionality_dep", "classic", "sig_forall_dec", "sig_not_dec",
}

def goenv():
    e = dict(os.environ)
    e["GOFLAGS"] = "-mod=mod"
    e["GOPROXY"] = "off"
    e.pop("GOTOOLCHAIN", None)   # must stay at its default (auto): /repo needs go1.25 from the module cache
    e.pop("GOSUMDB", None)
    return e

class Lock:
    def __init__(self, name):
        os.makedirs(BUILD, exist_ok=True)
        self.path = os.path.join(BUILD, name + ".lock")
    def __enter__(self):
        self.f = open(self.path, "w")
        fcntl.flock(self.f, fcntl.LOCK_EX)
        return self
    def __exit__(self, *a):
        fcntl.flock(self.f, fcntl.LOCK_UN)
        self.f.close()

def run(cmd, cwd=None, env=None, timeout=None, input=None):
    p = subprocess.run(cmd, cwd=cwd, env=env, timeout=timeout, input=input,
                       stdout=subprocess.PIPE, stderr=subprocess.STDOUT, text=True, errors="replace")
    return p.returncode, p.stdout

def grep_gate():
    """No Admitted/admit/Axiom/... anywhere in the development."""
    bad = []
    pat = re.compile(r"\b(Admitted|admit|Axiom|Axioms|Parameter|Parameters|Conjecture|Conjectures|Abort All|"
                     r"Unset Guard Checking|Unset Positivity Checking|Unset Universe Checking|bypass_check|"
                     r"Admit Obligations|native_compute)\b")
    for fn in glob.glob(os.path.join(COQ, "**", "*.v"), recursive=True):
        txt = open(fn, errors="replace").read()
        txt_nc = strip_comments(txt)
        for m in pat.finditer(txt_nc):
            bad.append("%s: %s" % (os.path.relpath(fn, COQ), m.group(0)))
        # Variable/Hypothesis outside a section
        depth = 0
        for line in txt_nc.splitlines():
            s = line.strip()
            if re.match(r"Section\s+\w+", s): depth += 1
            elif re.match(r"End\s+\w+\s*\.", s) and depth > 0: depth -= 1
            elif depth == 0 and re.match(r"(Variable|Variables|Hypothesis|Hypotheses|Context)\b", s):
                bad.append("%s: top-level %s" % (os.path.relpath(fn, COQ), s.split()[0]))
    return bad

def strip_comments(txt):
    out = []; depth = 0; i = 0; n = len(txt); instr = False
    while i < n:
        c = txt[i]
        if depth == 0 and c == '"':
            instr = not instr; out.append(c); i += 1; continue
        if not instr and txt.startswith("(*", i):
            depth += 1; i += 2; continue
        if not instr and depth > 0 and txt.startswith("*)", i):
            depth -= 1; i += 2; continue
        if depth == 0: out.append(c)
        elif c == "\n": out.append(c)
        i += 1
    return "".join(out)

# ---------------------------------------------------------------- T1 extraction
def run_goextract(log):
    """Regenerate coq/Extracted/Extracted.v from /repo's working tree (T1)."""
    exe = os.path.join(BUILD, "bin", "goextract")
    src = os.path.join(HARNESS, "tools", "goextract")
    if not os.path.isdir(src):
        return True, ""
    rc, out = run(["go", "build", "-o", exe, "."], cwd=src, env=goenv(), timeout=600)
    if rc != 0:
        log("goextract build failed:\n" + out)
        return False, out
    tmp = os.path.join(BUILD, "Extracted.v.new")
    rc, out = run([exe, "-repo", REPO, "-out", tmp], timeout=120)
    if rc != 0:
        log("goextract failed:\n" + out)
        return False, out
    dst = os.path.join(COQ, "Extracted", "Extracted.v")
    new = open(tmp).read()
    old = open(dst).read() if os.path.exists(dst) else None
    if new != old:
        os.makedirs(os.path.dirname(dst), exist_ok=True)
        with open(dst, "w") as f: f.write(new)
    return True, hashlib.sha1(new.encode()).hexdigest()

# ---------------------------------------------------------------- Coq build
def coq_build(targets, log, timeout=3000):
    """make the given .vo targets (and what they depend on). Returns (ok, output)."""
    run([os.path.join(VERIF, "bin", "gen-coqproject"), COQ])
    cmd = ["make", "-j16", "-k"] + targets
    rc, out = run(["timeout", str(timeout)] + cmd, cwd=COQ)
    return rc == 0, out

def first_coq_error(out):
    m = re.search(r'File "([^"]+)", line (\d+), characters [\d-]+:\s*\nError:?(.*?)(?:\n\n|\nmake|\Z)', out, re.S)
    if m:
        return {"file": m.group(1), "line": int(m.group(2)), "error": " ".join(m.group(3).split())[:600]}
    m = re.search(r"\*\*\* \[[^\]]*?([\w/]+\.vo)\]", out)
    if m:
        return {"file": m.group(1), "line": 0, "error": "build failed"}
    return {"file": "?", "line": 0, "error": out[-600:]}

def props_assumptions(props_v, log):
    """Recompile one Props file to capture its Print Assumptions output.
    Returns (ok, theorems:[{name, assumptions:[..]}], raw)."""
    vo = os.path.join(COQ, props_v[:-2] + ".vo")
    if os.path.exists(vo): os.remove(vo)
    rc, out = run(["timeout", "1200", "make", props_v[:-2] + ".vo"], cwd=COQ)
    if rc != 0:
        return False, [], out
    src = strip_comments(open(os.path.join(COQ, props_v)).read())
    names = re.findall(r"Print Assumptions\s+([\w.']+)\s*\.", src)
    # output blocks: either "Closed under the global context" or "Axioms:\n name : type ..."
    blocks = re.split(r"(?=Closed under the global context|Axioms:)", out)
    blocks = [b for b in blocks if b.startswith("Closed under") or b.startswith("Axioms:")]
    thms = []
    for i, nm in enumerate(names):
        ax = []
        if i < len(blocks) and blocks[i].startswith("Axioms:"):
            for line in blocks[i].splitlines()[1:]:
                m = re.match(r"^([\w.']+)\s*:", line)
                if m: ax.append(m.group(1))
        elif i >= len(blocks):
            ax = ["<no Print Assumptions output>"]
        thms.append({"name": nm, "assumptions": ax})
    return True, thms, out

# ---------------------------------------------------------------- Go harness
def build_harness(name, log, tags="verif", race=False):
    exe = os.path.join(BUILD, "bin", name + ("_race" if race else ""))
    moddir = os.path.join(BUILD, "gomod")
    os.makedirs(moddir, exist_ok=True)
    gm = open(os.path.join(HARNESS, "go.mod")).read().replace("=> /repo", "=> " + os.path.realpath(REPO))
    mf = os.path.join(moddir, "go.mod")
    if not os.path.exists(mf) or open(mf).read() != gm:
        open(mf, "w").write(gm)
    shutil.copyfile(os.path.join(REPO, "go.sum"), os.path.join(moddir, "go.sum"))
    cmd = ["go", "build", "-modfile=" + mf, "-tags", tags]
    if race: cmd.append("-race")
    cmd += ["-o", exe, "./cmd/" + name]
    rc, out = run(cmd, cwd=HARNESS, env=goenv(), timeout=1500)
    if rc != 0:
        log("harness build failed:\n" + out[-3000:])
        return None, out
    return exe, out

def eval_shards(rundir, shards, log, jobs=16, timeout=1500):
    """coqc every cases shard; returns (mismatch indices, errors)."""
    def one(sh):
        # large case terms need a deep stack in coqc's parser/evaluator: lift the stack limit for this process
        rc, out = run(["bash", "-c", "ulimit -s unlimited 2>/dev/null || ulimit -s 1000000 2>/dev/null; exec timeout %d coqc -R %s Verif %s" % (timeout, COQ, sh)], cwd=rundir)
        if rc != 0:
            return sh, None, out
        m = re.search(r"M\s*=\s*(.*?)\s*:\s*list Z", out, re.S)
        if not m:
            return sh, None, out
        idx = [int(x) for x in re.findall(r"-?\d+", m.group(1))]
        return sh, idx, out
    mism, errs = [], []
    with ThreadPoolExecutor(max_workers=jobs) as ex:
        for sh, idx, out in ex.map(one, shards):
            if idx is None: errs.append((sh, out[-1500:]))
            else: mism += idx
    for sh in shards:   # remove compiled junk
        for ext in (".vo", ".vok", ".vos", ".glob"):
            p = os.path.join(rundir, sh[:-2] + ext)
            if os.path.exists(p): os.remove(p)
        p = os.path.join(rundir, "." + sh[:-2] + ".aux")
        if os.path.exists(p): os.remove(p)
    return sorted(mism), errs

def explain_case(rundir, meta, coqterm):
    fn = meta.get("explain_fn")
    if not fn: return ""
    src = "From Coq Require Import ZArith List.\nFrom Verif Require Import Common.Corr %s.\nImport ListNotations.\nLocal Open Scope Z_scope.\n%s\nEval vm_compute in (%s %s).\n" % (
        " ".join(meta["imports"]), meta.get("preamble", ""), fn, coqterm)
    p = os.path.join(rundir, "Explain.v")
    open(p, "w").write(src)
    rc, out = run(["timeout", "300", "coqc", "-R", COQ, "Verif", "Explain.v"], cwd=rundir)
    return " ".join(out.split())[:4000]

def load_cases(rundir):
    cases = {}
    p = os.path.join(rundir, "cases.jsonl")
    if os.path.exists(p):
        for line in open(p):
            r = json.loads(line); cases[r["i"]] = r
    return cases

# ---------------------------------------------------------------- known findings
def load_known():
    p = os.path.join(VERIF, "known_findings.json")
    if not os.path.exists(p): return []
    return json.load(open(p)).get("findings", [])

def known_match(prop, cls, known):
    for k in known:
        if k.get("status") == "known" and k["property"] == prop and cls and k.get("class") == cls:
            return k
    return None

# ---------------------------------------------------------------- evidence
def write_evidence(prop, ev):
    os.makedirs(os.path.join(OUT, "evidence"), exist_ok=True)
    with open(os.path.join(OUT, "evidence", prop + ".json"), "w") as f:
        json.dump(ev, f, indent=1, sort_keys=True)
        f.write("\n")
