package main

import (
	"fmt"
	"go/ast"
	"strings"
)

// Facts the C02 specification (coq/Cursor/Sem.v) is parameterised by:
//   - scorch_fuzzy_transpositions: does every Levenshtein automaton builder scorch creates
//     (index/scorch: lev.NewLevenshteinAutomatonBuilder(n, <flag>)) enable transpositions?  The
//     harness passes this metric (tr = true) to [sem] for the scorch engines;
//   - max_fuzziness and the auto-fuzziness thresholds of search/searcher/search_fuzzy.go, which
//     [Sem.fuzz_k] hard-codes (Extracted/Obligations_C02.v checks they still agree).
func init() {
	register("XSem", func(c *Ctx, w *strings.Builder) error {
		var errs []string
		calls, withTr := 0, 0
		for _, f := range c.Files("index/scorch") {
			ast.Inspect(f, func(n ast.Node) bool {
				ce, ok := n.(*ast.CallExpr)
				if !ok || !strings.HasSuffix(exprText(ce.Fun), "NewLevenshteinAutomatonBuilder") || len(ce.Args) != 2 {
					return true
				}
				calls++
				if exprText(ce.Args[1]) == "true" {
					withTr++
				}
				return true
			})
		}
		if calls == 0 {
			errs = append(errs, "no NewLevenshteinAutomatonBuilder call in index/scorch")
		} else {
			fmt.Fprintf(w, "  Definition scorch_fuzzy_transpositions : bool := %v. (* %d of %d builder call(s) pass transposition = true *)\n",
				withTr == calls, withTr, calls)
			fmt.Fprintf(w, "  Definition scorch_fuzzy_builders : Z := %d.\n", calls)
		}
		for _, kv := range [][2]string{{"max_fuzziness", "MaxFuzziness"}, {"auto_fuzziness_high", "AutoFuzzinessHighThreshold"},
			{"auto_fuzziness_low", "AutoFuzzinessLowThreshold"}} {
			if v, ok := c.ConstLit("search/searcher", kv[1]); ok {
				fmt.Fprintf(w, "  Definition %s : Z := %s.\n", kv[0], v)
			} else {
				errs = append(errs, kv[1]+" not found")
			}
		}
		if len(errs) > 0 {
			return fmt.Errorf("%s", strings.Join(errs, "; "))
		}
		return nil
	})
}
