package main

import (
	"fmt"
	"go/ast"
	"go/token"
	"io/fs"
	"path/filepath"
	"sort"
	"strings"
)

// Text facts the C19 model is parameterised by:
//   - a structural fingerprint of analysis/token/reverse/reverse.go:reverse(), enough to tell
//     which of the two transcribed variants (Text/Model.v reverse_cur / reverse_fixed) is the
//     code in the tree: does it convert with []rune(string(s)) and take widths from
//     utf8.RuneLen, or does it call utf8.DecodeRune on the bytes themselves;
//   - the names under which analysis components are registered in the source tree
//     (registry.RegisterTokenizer / RegisterTokenFilter / RegisterCharFilter / RegisterAnalyzer
//     calls under analysis/), so that the harness' run-time enumeration can be checked to cover
//     every one of them;
//   - the fragmenter's default size and the html formatter's default tags.
func init() {
	register("XText", func(c *Ctx, w *strings.Builder) error {
		var errs []string

		// ---- reverse() fingerprint
		fd := c.FindFunc("analysis/token/reverse", "", "reverse")
		runeConv, runeLen, decodeRune, copies, slices := 0, 0, 0, 0, 0
		if fd == nil || fd.Body == nil {
			errs = append(errs, "reverse() not found in analysis/token/reverse")
		} else {
			ast.Inspect(fd.Body, func(n ast.Node) bool {
				switch t := n.(type) {
				case *ast.CallExpr:
					// []rune(x) conversion
					if at, ok := t.Fun.(*ast.ArrayType); ok && at.Len == nil {
						if id, ok := at.Elt.(*ast.Ident); ok && id.Name == "rune" {
							runeConv++
						}
					}
					if se, ok := t.Fun.(*ast.SelectorExpr); ok {
						if x, ok := se.X.(*ast.Ident); ok && x.Name == "utf8" {
							switch se.Sel.Name {
							case "RuneLen":
								runeLen++
							case "DecodeRune", "DecodeRuneInString":
								decodeRune++
							}
						}
					}
					if id, ok := t.Fun.(*ast.Ident); ok && id.Name == "copy" {
						copies++
					}
				case *ast.SliceExpr:
					slices++
				}
				return true
			})
		}
		variant := 0
		switch {
		case runeConv == 1 && runeLen == 2 && decodeRune == 0 && copies == 1:
			variant = 1 // the code as found: widths from utf8.RuneLen of the converted runes
		case runeConv == 0 && runeLen == 0 && decodeRune == 2 && copies == 1:
			variant = 2 // widths actually occupied in s (utf8.DecodeRune on the bytes)
		}
		fmt.Fprintf(w, "  Definition reverse_rune_conversions : Z := %d.\n", runeConv)
		fmt.Fprintf(w, "  Definition reverse_runelen_calls : Z := %d.\n", runeLen)
		fmt.Fprintf(w, "  Definition reverse_decoderune_calls : Z := %d.\n", decodeRune)
		fmt.Fprintf(w, "  Definition reverse_copy_calls : Z := %d.\n", copies)
		fmt.Fprintf(w, "  Definition reverse_slice_exprs : Z := %d.\n", slices)
		fmt.Fprintf(w, "  Definition reverse_variant : Z := %d. (* 1 = []rune(string(s)) + utf8.RuneLen; 2 = utf8.DecodeRune widths; 0 = unrecognised *)\n", variant)

		// ---- registered component names, read off the registry.RegisterXxx calls under analysis/
		kinds := map[string]string{
			"RegisterTokenizer":   "tokenizers",
			"RegisterTokenFilter": "token_filters",
			"RegisterCharFilter":  "char_filters",
			"RegisterAnalyzer":    "analyzers",
		}
		found := map[string]map[string]bool{}
		for _, k := range kinds {
			found[k] = map[string]bool{}
		}
		root := filepath.Join(c.Repo, "analysis")
		var dirs []string
		_ = filepath.WalkDir(root, func(p string, d fs.DirEntry, err error) error {
			if err == nil && d.IsDir() {
				rel, _ := filepath.Rel(c.Repo, p)
				dirs = append(dirs, rel)
			}
			return nil
		})
		sort.Strings(dirs)
		for _, dir := range dirs {
			for _, f := range c.Files(dir) {
				ast.Inspect(f, func(n ast.Node) bool {
					ce, ok := n.(*ast.CallExpr)
					if !ok || len(ce.Args) < 1 {
						return true
					}
					se, ok := ce.Fun.(*ast.SelectorExpr)
					if !ok {
						return true
					}
					x, ok := se.X.(*ast.Ident)
					if !ok || x.Name != "registry" {
						return true
					}
					kind, ok := kinds[se.Sel.Name]
					if !ok {
						return true
					}
					name, ok := resolveString(c, dir, ce.Args[0])
					if !ok {
						errs = append(errs, fmt.Sprintf("%s: cannot resolve the name argument of %s", dir, se.Sel.Name))
						return true
					}
					found[kind][name] = true
					return true
				})
			}
		}
		for _, kind := range []string{"tokenizers", "token_filters", "char_filters", "analyzers"} {
			var names []string
			for n := range found[kind] {
				names = append(names, n)
			}
			sort.Strings(names)
			var parts []string
			for _, n := range names {
				parts = append(parts, CoqStr(n))
			}
			fmt.Fprintf(w, "  (* %s *)\n", strings.Join(names, " "))
			fmt.Fprintf(w, "  Definition registered_%s : list (list Z) := [%s].\n", kind, strings.Join(parts, "; "))
		}

		// ---- highlighting defaults
		if v, ok := c.ConstLit("search/highlight/fragmenter/simple", "defaultFragmentSize"); ok {
			fmt.Fprintf(w, "  Definition default_fragment_size : Z := %s.\n", v)
		} else {
			errs = append(errs, "defaultFragmentSize not found")
		}
		for _, p := range [][2]string{{"html_before", "defaultHTMLHighlightBefore"}, {"html_after", "defaultHTMLHighlightAfter"}} {
			if v, ok := c.ConstLit("search/highlight/format/html", p[1]); ok && len(v) >= 2 {
				fmt.Fprintf(w, "  Definition %s : list Z := %s. (* %s *)\n", p[0], CoqStr(strings.Trim(v, "\"")), v)
			} else {
				errs = append(errs, p[1]+" not found")
			}
		}
		if len(errs) > 0 {
			return fmt.Errorf("%s", strings.Join(errs, "; "))
		}
		return nil
	})
}

// resolveString evaluates a string-valued name expression: a literal, or an identifier bound to
// a string literal by a package-level const/var of the same directory.
func resolveString(c *Ctx, dir string, e ast.Expr) (string, bool) {
	switch t := e.(type) {
	case *ast.BasicLit:
		if t.Kind == token.STRING {
			return strings.Trim(t.Value, "\"`"), true
		}
	case *ast.Ident:
		if v, ok := c.ConstLit(dir, t.Name); ok && strings.HasPrefix(v, "\"") {
			return strings.Trim(v, "\""), true
		}
	}
	return "", false
}
