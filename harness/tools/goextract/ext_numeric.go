package main

import (
	"fmt"
	"go/ast"
	"strings"
)

// Numeric facts the C07 model is parameterised by: the shift-byte base, the index-time
// precision steps and the literal step the range searcher passes to splitInt64Range, and
// which enumerator the numeric range searcher calls.
func init() {
	register("XNumeric", func(c *Ctx, w *strings.Builder) error {
		var errs []string
		emit := func(coqName, dir, goName string) {
			v, ok := c.ConstLit(dir, goName)
			if !ok {
				errs = append(errs, goName+" not found in "+dir)
				return
			}
			fmt.Fprintf(w, "  Definition %s : Z := %s.\n", coqName, strings.ReplaceAll(v, "0x", "0x"))
		}
		emit("shift_start", "numeric", "ShiftStartInt64")
		emit("precision_step_numeric", "document", "DefaultPrecisionStep")
		emit("precision_step_datetime", "document", "DefaultDateTimePrecisionStep")
		// the step literal in NewNumericRangeSearcher: splitInt64Range(minInt64, maxInt64, <lit>)
		fd := c.FindFunc("search/searcher", "", "NewNumericRangeSearcher")
		step, enum := "", ""
		if fd != nil {
			ast.Inspect(fd.Body, func(n ast.Node) bool {
				ce, ok := n.(*ast.CallExpr)
				if !ok {
					return true
				}
				if id, ok := ce.Fun.(*ast.Ident); ok && id.Name == "splitInt64Range" && len(ce.Args) == 3 {
					step = exprText(ce.Args[2])
				}
				if se, ok := ce.Fun.(*ast.SelectorExpr); ok {
					if x, ok := se.X.(*ast.Ident); ok && x.Name == "termRanges" {
						enum = se.Sel.Name
					}
				}
				return true
			})
		}
		if step == "" {
			errs = append(errs, "splitInt64Range call not found in NewNumericRangeSearcher")
		} else {
			fmt.Fprintf(w, "  Definition searcher_split_step : Z := %s.\n", step)
		}
		fmt.Fprintf(w, "  Definition searcher_enumerator : list Z := %s. (* %q *)\n", CoqStr(enum), enum)
		if len(errs) > 0 {
			return fmt.Errorf("%s", strings.Join(errs, "; "))
		}
		return nil
	})
}
