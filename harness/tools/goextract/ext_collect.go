package main

import (
	"fmt"
	"go/ast"
	"strings"
)

// Collector facts the C06 model is parameterised by: the slice/heap store switch in
// getOptimalCollectorStore (threshold literal, comparison operator, which constructor each branch
// calls), PreAllocSizeSkipCap, CheckDoneEvery, and the comparison operators of the three tests in
// MakeTopNDocumentMatchHandler (search-after filter, lowest-match shortcut, lowest update), of the
// slice store's insertion walk and of the heap store's Less.
func init() {
	register("XCollect", func(c *Ctx, w *strings.Builder) error {
		var errs []string
		const dir = "search/collector"
		str := func(name, val string) {
			fmt.Fprintf(w, "  Definition %s : list Z := %s. (* %q *)\n", name, CoqStr(val), val)
		}
		// --- getOptimalCollectorStore: if size+skip > 10 { newStoreHeap } else { newStoreSlice }
		found := false
		if fd := c.FindFunc(dir, "", "getOptimalCollectorStore"); fd != nil {
			ast.Inspect(fd.Body, func(n ast.Node) bool {
				is, ok := n.(*ast.IfStmt)
				if !ok || found {
					return true
				}
				be, ok := is.Cond.(*ast.BinaryExpr)
				if !ok || exprText(be.X) != "size + skip" {
					return true
				}
				thenCall, elseCall := firstCallName(is.Body), ""
				if eb, ok := is.Else.(*ast.BlockStmt); ok {
					elseCall = firstCallName(eb)
				}
				if !strings.HasPrefix(thenCall, "newStore") {
					return true // the preallocation test, not the store switch
				}
				found = true
				fmt.Fprintf(w, "  Definition store_switch_threshold : Z := %s.\n", exprText(be.Y))
				str("store_switch_op", be.Op.String())
				str("store_switch_then", thenCall)
				str("store_switch_else", elseCall)
				return false
			})
		}
		if !found {
			errs = append(errs, "store switch (if size+skip <op> <lit> { newStore… }) not found in getOptimalCollectorStore")
		}
		// --- constants
		if v, ok := c.ConstLit(dir, "PreAllocSizeSkipCap"); ok {
			fmt.Fprintf(w, "  Definition prealloc_size_skip_cap : Z := %s.\n", v)
		} else {
			errs = append(errs, "PreAllocSizeSkipCap not found")
		}
		if v, ok := c.ConstLit(dir, "CheckDoneEvery"); ok {
			v = strings.TrimSuffix(strings.TrimPrefix(v, "uint64("), ")")
			fmt.Fprintf(w, "  Definition check_done_every : Z := %s.\n", v)
		} else {
			errs = append(errs, "CheckDoneEvery not found")
		}
		// --- the handler's three comparisons
		ops := map[string]string{}
		if fd := c.FindFunc(dir, "", "MakeTopNDocumentMatchHandler"); fd != nil {
			ast.Inspect(fd.Body, func(n ast.Node) bool {
				if be, ok := n.(*ast.BinaryExpr); ok {
					ops[exprText(be.X)+" ? "+exprText(be.Y)] = be.Op.String()
				}
				if as, ok := n.(*ast.AssignStmt); ok && len(as.Lhs) == 1 && len(as.Rhs) == 1 {
					ops["assign "+exprText(as.Lhs[0])] = exprText(as.Rhs[0])
				}
				return true
			})
		}
		need := func(coq, key string) {
			if v, ok := ops[key]; ok {
				str(coq, v)
			} else {
				errs = append(errs, "comparison `"+key+"` not found in MakeTopNDocumentMatchHandler")
			}
		}
		need("after_filter_op", "hc.cmp(d, hc.searchAfter) ? 0")
		need("shortcut_op", "hc.cmp(d, hc.lowestMatchOutsideResults) ? 0")
		need("lowest_update_cmp", "assign cmp")
		need("lowest_update_op", "cmp ? 0")
		need("add_call", "assign removed")
		// --- slice store: "cmp := c.compare(doc, c.slice[i-1]); if cmp >= 0 { break }"
		ops = map[string]string{}
		if fd := c.FindFunc(dir, "collectStoreSlice", "add"); fd != nil {
			ast.Inspect(fd.Body, func(n ast.Node) bool {
				if be, ok := n.(*ast.BinaryExpr); ok {
					ops[exprText(be.X)+" ? "+exprText(be.Y)] = be.Op.String()
				}
				if as, ok := n.(*ast.AssignStmt); ok && len(as.Lhs) == 1 && len(as.Rhs) == 1 {
					ops["assign "+exprText(as.Lhs[0])] = exprText(as.Rhs[0])
				}
				return true
			})
		}
		if v, ok := ops["cmp ? 0"]; ok {
			str("slice_add_stop_op", v)
		} else {
			errs = append(errs, "`cmp <op> 0` not found in collectStoreSlice.add")
		}
		// --- heap store: Less(i, j) = "-so < 0" with so := c.compare(c.heap[i], c.heap[j])
		ops = map[string]string{}
		lessSo := ""
		if fd := c.FindFunc(dir, "collectStoreHeap", "Less"); fd != nil {
			ast.Inspect(fd.Body, func(n ast.Node) bool {
				if as, ok := n.(*ast.AssignStmt); ok && len(as.Lhs) == 1 && len(as.Rhs) == 1 && exprText(as.Lhs[0]) == "so" {
					if ce, ok := as.Rhs[0].(*ast.CallExpr); ok {
						var args []string
						for _, a := range ce.Args {
							args = append(args, idxText(a))
						}
						lessSo = exprText(ce.Fun) + "(" + strings.Join(args, ", ") + ")"
					}
				}
				if be, ok := n.(*ast.BinaryExpr); ok {
					ops[exprText(be.X)+" ? "+exprText(be.Y)] = be.Op.String()
				}
				if as, ok := n.(*ast.AssignStmt); ok && len(as.Lhs) == 1 && len(as.Rhs) == 1 {
					ops["assign "+exprText(as.Lhs[0])] = exprText(as.Rhs[0])
				}
				return true
			})
		}
		if v, ok := ops["-so ? 0"]; ok {
			str("heap_less_op", v)
			str("heap_less_so", lessSo)
		} else {
			errs = append(errs, "`-so <op> 0` not found in collectStoreHeap.Less")
		}
		if len(errs) > 0 {
			return fmt.Errorf("%s", strings.Join(errs, "; "))
		}
		return nil
	})
}

// idxText prints x[i] expressions (exprText covers the rest).
func idxText(e ast.Expr) string {
	if ie, ok := e.(*ast.IndexExpr); ok {
		return exprText(ie.X) + "[" + exprText(ie.Index) + "]"
	}
	return exprText(e)
}

// firstCallName returns the name of the first function called in a block ("" if none).
func firstCallName(b *ast.BlockStmt) string {
	name := ""
	ast.Inspect(b, func(n ast.Node) bool {
		if ce, ok := n.(*ast.CallExpr); ok && name == "" {
			name = exprText(ce.Fun)
			return false
		}
		return name == ""
	})
	return name
}
