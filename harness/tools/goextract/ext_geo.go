package main

import (
	"fmt"
	"go/ast"
	"go/token"
	"strings"
)

// Geo facts the C18 model is parameterised by: GeoBits, GeoPrecisionStep, the expressions that
// define the maximum shift / detail level of the cell recursion, the arguments of the top-level
// ComputeGeoRange call, the index-time shift loop bound, geoTolerance and the coordinate bounds
// (as source text), the checkBoundaries argument each query type passes, and — for each of the
// three post-filters — whether its doc-value visitor begins with `if found { return }`.
func init() {
	register("XGeo", func(c *Ctx, w *strings.Builder) error {
		var errs []string
		fail := func(f string, a ...interface{}) { errs = append(errs, fmt.Sprintf(f, a...)) }

		// names the translated expressions may refer to
		names := map[string]string{
			"GeoBits": "geo_bits", "geo.GeoBits": "geo_bits",
			"GeoPrecisionStep": "geo_precision_step", "document.GeoPrecisionStep": "geo_precision_step",
			"geoMaxShift": "geo_max_shift", "geoDetailLevel": "geo_detail_level",
			"GeoBitsShift1": "geo_bits_shift1", "GeoBitsShift1Minus1": "geo_bits_shift1_minus1",
		}
		var tr func(e ast.Expr) (string, bool)
		tr = func(e ast.Expr) (string, bool) {
			switch t := e.(type) {
			case *ast.BasicLit:
				if t.Kind == token.INT {
					return t.Value, true
				}
			case *ast.Ident:
				if n, ok := names[t.Name]; ok {
					return n, true
				}
			case *ast.SelectorExpr:
				if n, ok := names[exprText(t)]; ok {
					return n, true
				}
			case *ast.ParenExpr:
				s, ok := tr(t.X)
				return "(" + s + ")", ok
			case *ast.BinaryExpr:
				x, ok1 := tr(t.X)
				y, ok2 := tr(t.Y)
				if !ok1 || !ok2 {
					return "", false
				}
				switch t.Op {
				case token.SHL:
					return "(Z.shiftl " + x + " " + y + ")", true
				case token.SHR:
					return "(Z.shiftr " + x + " " + y + ")", true
				case token.ADD, token.SUB, token.MUL:
					return "(" + x + " " + t.Op.String() + " " + y + ")", true
				case token.QUO:
					return "(" + x + " / " + y + ")", true
				}
			}
			return "", false
		}
		findVar := func(dir, name string) ast.Expr {
			for _, f := range c.Files(dir) {
				for _, d := range f.Decls {
					gd, ok := d.(*ast.GenDecl)
					if !ok || (gd.Tok != token.CONST && gd.Tok != token.VAR) {
						continue
					}
					for _, s := range gd.Specs {
						vs := s.(*ast.ValueSpec)
						for i, n := range vs.Names {
							if n.Name == name && i < len(vs.Values) {
								return vs.Values[i]
							}
						}
					}
				}
			}
			return nil
		}
		emitExpr := func(coqName, dir, goName string) {
			e := findVar(dir, goName)
			if e == nil {
				fail("%s not found in %s", goName, dir)
				return
			}
			s, ok := tr(e)
			if !ok {
				fail("%s = %s: expression not understood", goName, exprText(e))
				return
			}
			fmt.Fprintf(w, "  Definition %s : Z := %s. (* %s *)\n", coqName, s, exprText(e))
		}
		emitText := func(coqName, dir, goName string) {
			e := findVar(dir, goName)
			if e == nil {
				fail("%s not found in %s", goName, dir)
				return
			}
			fmt.Fprintf(w, "  Definition %s : list Z := %s. (* %q *)\n", coqName, CoqStr(exprText(e)), exprText(e))
		}
		emitExpr("geo_bits", "geo", "GeoBits")
		emitExpr("geo_precision_step", "document", "GeoPrecisionStep")
		emitExpr("geo_bits_shift1", "search/searcher", "GeoBitsShift1")
		emitExpr("geo_bits_shift1_minus1", "search/searcher", "GeoBitsShift1Minus1")
		emitExpr("geo_max_shift", "search/searcher", "geoMaxShift")
		emitExpr("geo_detail_level", "search/searcher", "geoDetailLevel")
		emitText("geo_tolerance_src", "geo", "geoTolerance")
		emitText("lon_scale_src", "geo", "lonScale")
		emitText("lat_scale_src", "geo", "latScale")
		emitText("min_lon_src", "geo", "minLon")
		emitText("min_lat_src", "geo", "minLat")
		emitText("max_lon_src", "geo", "maxLon")
		emitText("max_lat_src", "geo", "maxLat")

		// the top-level call ComputeGeoRange(ctx, <term>, <shift>, ...) in NewGeoBoundingBoxSearcher
		if fd := c.FindFunc("search/searcher", "", "NewGeoBoundingBoxSearcher"); fd != nil {
			done := false
			ast.Inspect(fd.Body, func(n ast.Node) bool {
				ce, ok := n.(*ast.CallExpr)
				if !ok || done {
					return true
				}
				if id, ok := ce.Fun.(*ast.Ident); ok && id.Name == "ComputeGeoRange" && len(ce.Args) >= 3 {
					t, ok1 := tr(ce.Args[1])
					s, ok2 := tr(ce.Args[2])
					if ok1 && ok2 {
						fmt.Fprintf(w, "  Definition range_top_term : Z := %s.\n  Definition range_top_shift : Z := %s.\n", t, s)
						done = true
					}
				}
				return true
			})
			if !done {
				fail("ComputeGeoRange call not found in NewGeoBoundingBoxSearcher")
			}
		} else {
			fail("NewGeoBoundingBoxSearcher not found")
		}

		// GeoPointField.Analyze: `for shift < <bound>`
		if fd := c.FindFunc("document", "GeoPointField", "Analyze"); fd != nil {
			bound := ""
			ast.Inspect(fd.Body, func(n ast.Node) bool {
				fs, ok := n.(*ast.ForStmt)
				if !ok {
					return true
				}
				if be, ok := fs.Cond.(*ast.BinaryExpr); ok && be.Op == token.LSS {
					if id, ok := be.X.(*ast.Ident); ok && id.Name == "shift" {
						bound = exprText(be.Y)
					}
				}
				return true
			})
			if bound == "" {
				fail("shift loop not found in GeoPointField.Analyze")
			} else {
				fmt.Fprintf(w, "  Definition index_shift_bound : Z := %s.\n", bound)
			}
		} else {
			fail("GeoPointField.Analyze not found")
		}

		// checkBoundaries: the last argument of the box-searcher calls made by each query type
		lastBoolArg := func(coqName, dir, recv, fn, callee string) {
			fd := c.FindFunc(dir, recv, fn)
			if fd == nil {
				fail("%s not found", fn)
				return
			}
			vals := map[string]bool{}
			ast.Inspect(fd.Body, func(n ast.Node) bool {
				ce, ok := n.(*ast.CallExpr)
				if !ok || len(ce.Args) == 0 {
					return true
				}
				name := ""
				switch f := ce.Fun.(type) {
				case *ast.Ident:
					name = f.Name
				case *ast.SelectorExpr:
					name = f.Sel.Name
				}
				if name == callee {
					vals[exprText(ce.Args[len(ce.Args)-1])] = true
				}
				return true
			})
			if len(vals) != 1 || !(vals["true"] || vals["false"]) {
				fail("%s: calls of %s do not end in one boolean literal: %v", fn, callee, vals)
				return
			}
			fmt.Fprintf(w, "  Definition %s : bool := %v.\n", coqName, vals["true"])
		}
		lastBoolArg("bbox_query_check_boundaries", "search/query", "GeoBoundingBoxQuery", "Searcher", "NewGeoBoundingBoxSearcher")
		lastBoolArg("distance_check_boundaries", "search/searcher", "", "NewGeoPointDistanceSearcher", "boxSearcher")
		lastBoolArg("polygon_check_boundaries", "search/searcher", "", "NewGeoBoundedPolygonSearcher", "boxSearcher")

		// does the doc-value visitor of a filter builder begin with `if found { return }` ?
		earlyReturn := func(coqName, fn string) {
			fd := c.FindFunc("search/searcher", "", fn)
			if fd == nil {
				fail("%s not found", fn)
				return
			}
			var lit *ast.FuncLit
			ast.Inspect(fd.Body, func(n ast.Node) bool {
				as, ok := n.(*ast.AssignStmt)
				if !ok || len(as.Lhs) != 1 || len(as.Rhs) != 1 {
					return true
				}
				if id, ok := as.Lhs[0].(*ast.Ident); ok && id.Name == "dvVisitor" {
					if fl, ok := as.Rhs[0].(*ast.FuncLit); ok && lit == nil {
						lit = fl
					}
				}
				return true
			})
			if lit == nil {
				fail("%s: dvVisitor function literal not found", fn)
				return
			}
			early := false
			if len(lit.Body.List) > 0 {
				if is, ok := lit.Body.List[0].(*ast.IfStmt); ok && is.Init == nil && is.Else == nil {
					if id, ok := is.Cond.(*ast.Ident); ok && id.Name == "found" && len(is.Body.List) == 1 {
						if rs, ok := is.Body.List[0].(*ast.ReturnStmt); ok && len(rs.Results) == 0 {
							early = true
						}
					}
				}
			}
			// the visitor must still be the one the model describes: it sets found = true somewhere
			sets := false
			ast.Inspect(lit.Body, func(n ast.Node) bool {
				if as, ok := n.(*ast.AssignStmt); ok && len(as.Lhs) == 1 && len(as.Rhs) == 1 {
					if id, ok := as.Lhs[0].(*ast.Ident); ok && id.Name == "found" && exprText(as.Rhs[0]) == "true" {
						sets = true
					}
				}
				return true
			})
			if !sets {
				fail("%s: dvVisitor no longer sets found = true", fn)
				return
			}
			fmt.Fprintf(w, "  Definition %s : bool := %v.\n", coqName, early)
		}
		earlyReturn("rect_filter_early_return", "buildRectFilter")
		earlyReturn("dist_filter_early_return", "buildDistFilter")
		earlyReturn("polygon_filter_early_return", "buildPolygonFilter")

		if len(errs) > 0 {
			return fmt.Errorf("%s", strings.Join(errs, "; "))
		}
		return nil
	})
}
