package main

import (
	"fmt"
	"go/ast"
	"go/build/constraint"
	"go/token"
	"reflect"
	"sort"
	"strconv"
	"strings"
)

// Query codec facts for C17 (module XQuery):
//   - reserved_chars: the const reservedChars of the query-string lexer;
//   - tests: the ordered key tests of query.ParseQuery, each as (condition in DNF over
//     (positive?, key, kind) literals, selected Go type);
//   - emits: per query struct type the top-level JSON keys it marshals: struct tags, or the keys of
//     the local struct / map literal in a hand-written MarshalJSON, as (key, kind, optional).
//
// kinds: 0 unknown/any, 1 number, 2 string, 3 bool, 4 array, 5 object.
func init() {
	register("XQuery", func(c *Ctx, w *strings.Builder) error {
		const dir = "search/query"
		var errs []string
		files := queryFiles(c, dir)

		// ---- reservedChars
		if lit, ok := c.ConstLit(dir, "reservedChars"); ok {
			if s, err := strconv.Unquote(lit); err == nil {
				fmt.Fprintf(w, "  Definition reserved_chars : list Z := %s.\n", CoqStr(s))
			} else {
				errs = append(errs, "reservedChars is not a string literal")
			}
		} else {
			errs = append(errs, "reservedChars not found")
		}

		// ---- ParseQuery tests
		var pq *ast.FuncDecl
		for _, f := range files {
			for _, d := range f.Decls {
				if fd, ok := d.(*ast.FuncDecl); ok && fd.Recv == nil && fd.Name.Name == "ParseQuery" {
					pq = fd
				}
			}
		}
		type lit struct {
			pos  bool
			key  string
			kind int
		}
		type test struct {
			dnf [][]lit
			typ string
		}
		var tests []test
		if pq == nil {
			errs = append(errs, "ParseQuery not found")
		} else {
			vars := map[string]lit{} // bool variable -> positive literal
			var toDNF func(e ast.Expr, neg bool) ([][]lit, bool)
			toDNF = func(e ast.Expr, neg bool) ([][]lit, bool) {
				switch t := e.(type) {
				case *ast.ParenExpr:
					return toDNF(t.X, neg)
				case *ast.Ident:
					l, ok := vars[t.Name]
					if !ok {
						return nil, false
					}
					l.pos = !neg
					return [][]lit{{l}}, true
				case *ast.UnaryExpr:
					if t.Op == token.NOT {
						return toDNF(t.X, !neg)
					}
				case *ast.BinaryExpr:
					a, ok1 := toDNF(t.X, neg)
					b, ok2 := toDNF(t.Y, neg)
					if !ok1 || !ok2 {
						return nil, false
					}
					and := t.Op == token.LAND
					or := t.Op == token.LOR
					if !and && !or {
						return nil, false
					}
					if neg { // De Morgan
						and, or = or, and
					}
					if or {
						return append(a, b...), true
					}
					var out [][]lit
					for _, x := range a {
						for _, y := range b {
							out = append(out, append(append([]lit{}, x...), y...))
						}
					}
					return out, true
				}
				return nil, false
			}
			for _, st := range pq.Body.List {
				switch s := st.(type) {
				case *ast.AssignStmt:
					// _, v := tmp["k"]   |   _, v := tmp["k"].(T)
					if len(s.Lhs) != 2 || len(s.Rhs) != 1 {
						continue
					}
					v, ok := s.Lhs[1].(*ast.Ident)
					if !ok {
						continue
					}
					rhs := s.Rhs[0]
					kind := 0
					if ta, ok := rhs.(*ast.TypeAssertExpr); ok {
						rhs = ta.X
						switch exprText(ta.Type) {
						case "float64":
							kind = 1
						case "string":
							kind = 2
						case "bool":
							kind = 3
						default:
							errs = append(errs, "ParseQuery: unhandled type assertion "+exprText(ta.Type))
						}
					}
					ix, ok := rhs.(*ast.IndexExpr)
					if !ok {
						continue
					}
					if m, ok := ix.X.(*ast.Ident); !ok || m.Name != "tmp" {
						continue
					}
					bl, ok := ix.Index.(*ast.BasicLit)
					if !ok || bl.Kind != token.STRING {
						continue
					}
					k, _ := strconv.Unquote(bl.Value)
					vars[v.Name] = lit{true, k, kind}
				case *ast.IfStmt:
					dnf, ok := toDNF(s.Cond, false)
					if !ok {
						continue // not a key test (len(input) == 0, err != nil, ...)
					}
					typ := ""
					ast.Inspect(s.Body, func(n ast.Node) bool {
						if typ != "" {
							return false
						}
						switch t := n.(type) {
						case *ast.DeclStmt:
							if gd, ok := t.Decl.(*ast.GenDecl); ok && gd.Tok == token.VAR {
								for _, sp := range gd.Specs {
									vs := sp.(*ast.ValueSpec)
									if len(vs.Names) == 1 && vs.Names[0].Name == "rv" && vs.Type != nil {
										typ = exprText(vs.Type)
									}
								}
							}
						case *ast.ReturnStmt:
							if len(t.Results) == 1 {
								if ce, ok := t.Results[0].(*ast.CallExpr); ok {
									if id, ok := ce.Fun.(*ast.Ident); ok && strings.HasSuffix(id.Name, "Parser") {
										typ = strings.TrimSuffix(id.Name, "Parser")
									}
								}
							}
						}
						return true
					})
					if typ == "" {
						errs = append(errs, "ParseQuery: a key test selects no recognisable type")
						continue
					}
					tests = append(tests, test{dnf, typ})
				}
			}
		}
		fmt.Fprintf(w, "  (* ordered key tests of query.ParseQuery: (DNF of (positive, key, kind)), selected type *)\n")
		fmt.Fprintf(w, "  Definition tests : list (list (list (bool * list Z * Z)) * list Z) := [\n")
		for i, t := range tests {
			var cs []string
			for _, conj := range t.dnf {
				var ls []string
				for _, l := range conj {
					ls = append(ls, fmt.Sprintf("(%v, %s, %d)", l.pos, CoqStr(l.key), l.kind))
				}
				cs = append(cs, "["+strings.Join(ls, "; ")+"]")
			}
			sep := ";"
			if i == len(tests)-1 {
				sep = ""
			}
			fmt.Fprintf(w, "    ([%s], %s)%s (* %s *)\n", strings.Join(cs, "; "), CoqStr(t.typ), sep, t.typ)
		}
		fmt.Fprintf(w, "  ].\n")

		// ---- emitted keys per query type
		typeDecls := map[string]ast.Expr{}
		methods := map[string]map[string]*ast.FuncDecl{}
		for _, f := range files {
			for _, d := range f.Decls {
				switch t := d.(type) {
				case *ast.GenDecl:
					if t.Tok == token.TYPE {
						for _, sp := range t.Specs {
							ts := sp.(*ast.TypeSpec)
							typeDecls[ts.Name.Name] = ts.Type
						}
					}
				case *ast.FuncDecl:
					if t.Recv != nil && len(t.Recv.List) > 0 {
						r := baseTypeName(t.Recv.List[0].Type)
						if methods[r] == nil {
							methods[r] = map[string]*ast.FuncDecl{}
						}
						methods[r][t.Name.Name] = t
					}
				}
			}
		}
		isStruct := func(name string) bool {
			_, ok := typeDecls[name].(*ast.StructType)
			return ok
		}
		var kindOf func(e ast.Expr) int
		kindOf = func(e ast.Expr) int {
			switch t := e.(type) {
			case *ast.StarExpr:
				return kindOf(t.X)
			case *ast.ArrayType:
				return 4
			case *ast.MapType:
				return 5
			case *ast.InterfaceType:
				return 0
			case *ast.Ident:
				switch t.Name {
				case "string":
					return 2
				case "int", "int64", "float64", "uint64", "Boost":
					return 1
				case "bool":
					return 3
				case "Query":
					return 5
				}
				if m := methods[t.Name]; m != nil && m["MarshalJSON"] != nil {
					return 0
				}
				if u, ok := typeDecls[t.Name]; ok {
					if _, isS := u.(*ast.StructType); isS {
						return 5
					}
					return kindOf(u)
				}
			}
			return 0
		}
		type ekey struct {
			key      string
			kind     int
			optional bool
		}
		structKeys := func(st *ast.StructType) []ekey {
			var out []ekey
			for _, f := range st.Fields.List {
				if len(f.Names) == 0 {
					continue // embedded
				}
				for _, n := range f.Names {
					if !ast.IsExported(n.Name) {
						continue
					}
					name, omit := n.Name, false
					if f.Tag != nil {
						tv, _ := strconv.Unquote(f.Tag.Value)
						js, ok := reflect.StructTag(tv).Lookup("json")
						if ok {
							parts := strings.Split(js, ",")
							if parts[0] == "-" {
								continue
							}
							if parts[0] != "" {
								name = parts[0]
							}
							for _, o := range parts[1:] {
								if o == "omitempty" {
									omit = true
								}
							}
						}
					}
					// omitempty never omits a struct value
					if id, ok := f.Type.(*ast.Ident); ok && isStruct(id.Name) {
						omit = false
					}
					out = append(out, ekey{name, kindOf(f.Type), omit})
				}
			}
			return out
		}
		var names []string
		for n, u := range typeDecls {
			if _, ok := u.(*ast.StructType); ok && methods[n] != nil && methods[n]["Searcher"] != nil {
				names = append(names, n)
			}
		}
		sort.Strings(names)
		fmt.Fprintf(w, "  (* top-level JSON keys each query type marshals: (key, kind, optional) *)\n")
		fmt.Fprintf(w, "  Definition emits : list (list Z * list (list Z * Z * bool)) := [\n")
		for i, n := range names {
			var keys []ekey
			src := "struct tags"
			if mj := methods[n]["MarshalJSON"]; mj != nil && mj.Body != nil {
				found := false
				ast.Inspect(mj.Body, func(nd ast.Node) bool {
					switch t := nd.(type) {
					case *ast.TypeSpec:
						if st, ok := t.Type.(*ast.StructType); ok && !found {
							keys, found, src = structKeys(st), true, "local struct in MarshalJSON"
						}
					case *ast.CompositeLit:
						if _, ok := t.Type.(*ast.MapType); ok && !found {
							for _, el := range t.Elts {
								if kv, ok := el.(*ast.KeyValueExpr); ok {
									if bl, ok := kv.Key.(*ast.BasicLit); ok && bl.Kind == token.STRING {
										k, _ := strconv.Unquote(bl.Value)
										keys = append(keys, ekey{k, 0, false})
									}
								}
							}
							found, src = true, "map literal in MarshalJSON"
						}
					case *ast.AssignStmt:
						// m["k"] = v after the literal: a conditionally added key
						if found && len(t.Lhs) == 1 {
							if ix, ok := t.Lhs[0].(*ast.IndexExpr); ok {
								if bl, ok := ix.Index.(*ast.BasicLit); ok && bl.Kind == token.STRING {
									k, _ := strconv.Unquote(bl.Value)
									keys = append(keys, ekey{k, 0, true})
								}
							}
						}
					}
					return true
				})
				if !found {
					keys = structKeys(typeDecls[n].(*ast.StructType))
				}
			} else {
				keys = structKeys(typeDecls[n].(*ast.StructType))
			}
			var ks []string
			for _, k := range keys {
				ks = append(ks, fmt.Sprintf("(%s, %d, %v)", CoqStr(k.key), k.kind, k.optional))
			}
			sep := ";"
			if i == len(names)-1 {
				sep = ""
			}
			var plain []string
			for _, k := range keys {
				s := k.key
				if k.optional {
					s += "?"
				}
				plain = append(plain, s)
			}
			fmt.Fprintf(w, "    (%s, [%s])%s (* %s (%s): %s *)\n", CoqStr(n), strings.Join(ks, "; "), sep, n, src, strings.Join(plain, " "))
		}
		fmt.Fprintf(w, "  ].\n")
		if len(errs) > 0 {
			return fmt.Errorf("%s", strings.Join(errs, "; "))
		}
		return nil
	})
}

// queryFiles: the files of a package that are compiled without any build tag.
func queryFiles(c *Ctx, dir string) []*ast.File {
	var names []string
	all := c.Files(dir)
	for n := range all {
		names = append(names, n)
	}
	sort.Strings(names)
	var out []*ast.File
	for _, n := range names {
		f := all[n]
		keep := true
		for _, cg := range f.Comments {
			if cg.Pos() >= f.Package {
				break
			}
			for _, cm := range cg.List {
				if constraint.IsGoBuild(cm.Text) {
					if x, err := constraint.Parse(cm.Text); err == nil {
						keep = x.Eval(func(tag string) bool { return tag == "linux" || tag == "amd64" || tag == "gc" })
					}
				}
			}
		}
		if keep {
			out = append(out, f)
		}
	}
	return out
}
