package main

import (
	"fmt"
	"go/ast"
	"strings"
)

// Cursor facts the C08 machines are parameterised by:
//   - boolean_should_guard: in (*BooleanSearcher).Advance, is every call
//     s.shouldSearcher.Advance(ctx, ID) enclosed in an if whose condition tests that the should
//     cursor trails the target (mentions s.currShould and "Compare(ID) < 0")?  The machine
//     [bool_adv] takes this flag (bl_guard);
//   - disjunction_heap_takeover: the child count above which the heap disjunction is used.
func init() {
	register("XCursor", func(c *Ctx, w *strings.Builder) error {
		var errs []string
		fd := c.FindFunc("search/searcher", "BooleanSearcher", "Advance")
		if fd == nil || fd.Body == nil {
			errs = append(errs, "(*BooleanSearcher).Advance not found")
		} else {
			calls, guarded := 0, 0
			var stack []ast.Node
			ast.Inspect(fd.Body, func(n ast.Node) bool {
				if n == nil {
					stack = stack[:len(stack)-1]
					return true
				}
				stack = append(stack, n)
				ce, ok := n.(*ast.CallExpr)
				if !ok || exprText(ce.Fun) != "s.shouldSearcher.Advance" {
					return true
				}
				calls++
				for i := len(stack) - 2; i >= 0; i-- {
					is, ok := stack[i].(*ast.IfStmt)
					if !ok {
						continue
					}
					// the call must be in the body (not the else branch) of the guarding if
					inBody := false
					if i+1 < len(stack) && stack[i+1] == ast.Node(is.Body) {
						inBody = true
					}
					cond := exprText(is.Cond)
					if inBody && strings.Contains(cond, "s.currShould") && strings.Contains(cond, "Compare(ID) < 0") {
						guarded++
						break
					}
				}
				return true
			})
			if calls == 0 {
				errs = append(errs, "no s.shouldSearcher.Advance call in (*BooleanSearcher).Advance")
			} else {
				fmt.Fprintf(w, "  Definition boolean_should_guard : bool := %v. (* %d of %d s.shouldSearcher.Advance call(s) guarded by \"s.currShould ... Compare(ID) < 0\" *)\n",
					guarded == calls, guarded, calls)
			}
		}
		if v, ok := c.ConstLit("search/searcher", "DisjunctionHeapTakeover"); ok {
			fmt.Fprintf(w, "  Definition disjunction_heap_takeover : Z := %s.\n", v)
		} else {
			errs = append(errs, "DisjunctionHeapTakeover not found")
		}
		if len(errs) > 0 {
			return fmt.Errorf("%s", strings.Join(errs, "; "))
		}
		return nil
	})
}
