package main

import (
	"fmt"
	"go/ast"
	"go/token"
	"reflect"
	"strconv"
	"strings"
)

// Mapping codec facts for C16 (Module XMapping): for IndexMappingImpl and every struct reachable
// from it through its field types (DocumentMapping, FieldMapping, customAnalysis)
//   - every declared field (exported or not),
//   - the marshal table read off the struct tags: (go field, json key, omitempty, kind) in struct order,
//   - whether the struct has a hand-written UnmarshalJSON; if so the `case "key":` list of its key
//     switch with the receiver field(s) each case writes, the assignments to receiver fields made
//     before the key loop (the decode-side defaults, constructor calls and named constants resolved
//     to literals), assignments made after the loop, and whether unknown keys are rejected under
//     MappingJSONStrict; if not, the switch encoding/json derives from the same tags,
//   - the composite literal NewIndexMapping() returns.
// Only data is emitted; what the data must satisfy is stated in coq/Extracted/Obligations_C16.v.

const mappingDir = "mapping"
const bleveModule = "github.com/blevesearch/bleve/v2/"

type mapX struct {
	c    *Ctx
	errs []string
}

func (x *mapX) errf(f string, a ...any) { x.errs = append(x.errs, fmt.Sprintf(f, a...)) }

func (x *mapX) findStruct(name string) (*ast.StructType, *ast.File) {
	for _, f := range x.c.Files(mappingDir) {
		for _, d := range f.Decls {
			gd, ok := d.(*ast.GenDecl)
			if !ok || gd.Tok != token.TYPE {
				continue
			}
			for _, s := range gd.Specs {
				ts := s.(*ast.TypeSpec)
				if ts.Name.Name != name {
					continue
				}
				if st, ok := ts.Type.(*ast.StructType); ok {
					return st, f
				}
			}
		}
	}
	return nil, nil
}

// kindOf renders a Go field type as an xkind term; structs it refers to are appended to *refs.
func (x *mapX) kindOf(e ast.Expr, refs *[]string) string {
	switch t := e.(type) {
	case *ast.Ident:
		switch t.Name {
		case "bool":
			return "XBool"
		case "string":
			return "XString"
		case "int":
			return "XInt"
		}
	case *ast.InterfaceType:
		if t.Methods == nil || len(t.Methods.List) == 0 {
			return "XAny"
		}
	case *ast.StarExpr:
		if id, ok := t.X.(*ast.Ident); ok {
			if st, _ := x.findStruct(id.Name); st != nil {
				*refs = append(*refs, id.Name)
				return "(XPtr " + CoqStr(id.Name) + ")"
			}
		}
	case *ast.ArrayType:
		if t.Len == nil {
			return "(XList " + x.kindOf(t.Elt, refs) + ")"
		}
	case *ast.MapType:
		if k, ok := t.Key.(*ast.Ident); ok && k.Name == "string" {
			// map[string]interface{} is an opaque JSON object for the codec
			if it, ok := t.Value.(*ast.InterfaceType); ok && (it.Methods == nil || len(it.Methods.List) == 0) {
				return "XAny"
			}
			return "(XMap " + x.kindOf(t.Value, refs) + ")"
		}
	}
	return "(XUnsupported " + CoqStr(exprText(e)) + ")"
}

type tagInfo struct {
	key    string
	omit   bool
	skip   bool
	other  []string
	hasTag bool
}

func parseTag(lit *ast.BasicLit) tagInfo {
	var ti tagInfo
	if lit == nil {
		return ti
	}
	raw, err := strconv.Unquote(lit.Value)
	if err != nil {
		return ti
	}
	js, ok := reflect.StructTag(raw).Lookup("json")
	if !ok {
		return ti
	}
	ti.hasTag = true
	if js == "-" {
		ti.skip = true
		return ti
	}
	parts := strings.Split(js, ",")
	ti.key = parts[0]
	for _, o := range parts[1:] {
		if o == "omitempty" {
			ti.omit = true
		} else {
			ti.other = append(ti.other, o)
		}
	}
	return ti
}

func isExported(n string) bool { return n != "" && n[0] >= 'A' && n[0] <= 'Z' }

// valueExpr finds the initialiser expression of a package-level const/var of a repo directory.
func (x *mapX) valueExpr(dir, name string) (ast.Expr, *ast.File) {
	for _, f := range x.c.Files(dir) {
		for _, d := range f.Decls {
			gd, ok := d.(*ast.GenDecl)
			if !ok || (gd.Tok != token.CONST && gd.Tok != token.VAR) {
				continue
			}
			for _, s := range gd.Specs {
				vs := s.(*ast.ValueSpec)
				for i, n := range vs.Names {
					if n.Name == name && i < len(vs.Values) {
						return vs.Values[i], f
					}
				}
			}
		}
	}
	return nil, nil
}

func importDir(f *ast.File, local string) string {
	for _, im := range f.Imports {
		p, _ := strconv.Unquote(im.Path.Value)
		name := p[strings.LastIndex(p, "/")+1:]
		if im.Name != nil {
			name = im.Name.Name
		}
		if name == local && strings.HasPrefix(p, bleveModule) {
			return strings.TrimPrefix(p, bleveModule)
		}
	}
	return ""
}

// structLit finds the composite literal of a struct type a constructor function builds.
func (x *mapX) structLit(fd *ast.FuncDecl) (*ast.CompositeLit, string) {
	var lit *ast.CompositeLit
	var name string
	ast.Inspect(fd.Body, func(n ast.Node) bool {
		if lit != nil {
			return false
		}
		if cl, ok := n.(*ast.CompositeLit); ok {
			if id, ok := cl.Type.(*ast.Ident); ok {
				if st, _ := x.findStruct(id.Name); st != nil {
					lit, name = cl, id.Name
					return false
				}
			}
		}
		return true
	})
	return lit, name
}

// dflt renders a default-value expression as an xdflt term.
func (x *mapX) dflt(e ast.Expr, f *ast.File, dir string, depth int) string {
	unknown := "(XDUnknown " + CoqStr(exprText(e)) + ")"
	if depth > 6 {
		return unknown
	}
	switch t := e.(type) {
	case *ast.BasicLit:
		switch t.Kind {
		case token.STRING:
			if s, err := strconv.Unquote(t.Value); err == nil {
				return "(XDStr " + CoqStr(s) + ")"
			}
		case token.INT:
			if v, err := strconv.ParseInt(t.Value, 0, 64); err == nil {
				return fmt.Sprintf("(XDInt (%d))", v)
			}
		}
	case *ast.ParenExpr:
		return x.dflt(t.X, f, dir, depth+1)
	case *ast.Ident:
		switch t.Name {
		case "true":
			return "(XDBool true)"
		case "false":
			return "(XDBool false)"
		case "nil":
			return "XDNil"
		}
		if v, vf := x.valueExpr(dir, t.Name); v != nil {
			return x.dflt(v, vf, dir, depth+1)
		}
	case *ast.SelectorExpr:
		if p, ok := t.X.(*ast.Ident); ok {
			if d := importDir(f, p.Name); d != "" {
				if v, vf := x.valueExpr(d, t.Sel.Name); v != nil {
					return x.dflt(v, vf, d, depth+1)
				}
			}
		}
	case *ast.UnaryExpr:
		if t.Op == token.AND {
			if cl, ok := t.X.(*ast.CompositeLit); ok {
				return x.dfltLit(cl, f, dir, depth+1)
			}
		}
	case *ast.CallExpr:
		if id, ok := t.Fun.(*ast.Ident); ok {
			if id.Name == "make" && len(t.Args) >= 1 {
				switch t.Args[0].(type) {
				case *ast.MapType:
					if len(t.Args) == 1 {
						return "XDEmpty"
					}
					return "XDEmpty"
				case *ast.ArrayType:
					if len(t.Args) == 2 {
						if bl, ok := t.Args[1].(*ast.BasicLit); ok && bl.Value == "0" {
							return "XDEmpty"
						}
					}
				}
				return unknown
			}
			if dir == mappingDir && len(t.Args) == 0 {
				if fd := x.c.FindFunc(mappingDir, "", id.Name); fd != nil && fd.Body != nil {
					if cl, _ := x.structLit(fd); cl != nil {
						return x.dfltLit(cl, x.fileOf(fd), dir, depth+1)
					}
				}
			}
		}
	}
	return unknown
}

func (x *mapX) fileOf(fd *ast.FuncDecl) *ast.File {
	for _, f := range x.c.Files(mappingDir) {
		for _, d := range f.Decls {
			if d == fd {
				return f
			}
		}
	}
	return nil
}

func (x *mapX) dfltLit(cl *ast.CompositeLit, f *ast.File, dir string, depth int) string {
	id, ok := cl.Type.(*ast.Ident)
	if !ok {
		return "(XDUnknown " + CoqStr(exprText(cl.Type)) + ")"
	}
	var fs []string
	for _, el := range cl.Elts {
		kv, ok := el.(*ast.KeyValueExpr)
		if !ok {
			fs = append(fs, "("+CoqStr("?")+", (XDUnknown "+CoqStr("positional element")+"))")
			continue
		}
		k, _ := kv.Key.(*ast.Ident)
		kn := "?"
		if k != nil {
			kn = k.Name
		}
		fs = append(fs, "("+CoqStr(kn)+", "+x.dflt(kv.Value, f, dir, depth)+")")
	}
	return "(XDNew " + CoqStr(id.Name) + " " + coqList(fs) + ")"
}

// cmt makes a text safe inside a Coq comment (no comment delimiters, balanced quotes).
func cmt(s string) string {
	s = strings.ReplaceAll(s, "(*", "( *")
	s = strings.ReplaceAll(s, "*)", "* )")
	return strings.ReplaceAll(s, "\"", "'")
}

func coqList(xs []string) string {
	if len(xs) == 0 {
		return "[]"
	}
	return "[" + strings.Join(xs, "; ") + "]"
}

func coqBool(b bool) string {
	if b {
		return "true"
	}
	return "false"
}

// recvField returns F for an expression recv.F.
func recvField(e ast.Expr, recv string) (string, bool) {
	se, ok := e.(*ast.SelectorExpr)
	if !ok {
		return "", false
	}
	id, ok := se.X.(*ast.Ident)
	if !ok || id.Name != recv {
		return "", false
	}
	return se.Sel.Name, true
}

// writes lists the receiver fields a statement list writes: `&recv.F` passed to a call, or
// `recv.F = …` / `recv.F op= …` / `recv.F++`.
func writes(stmts []ast.Stmt, recv string) []string {
	var out []string
	for _, s := range stmts {
		ast.Inspect(s, func(n ast.Node) bool {
			switch t := n.(type) {
			case *ast.UnaryExpr:
				if t.Op == token.AND {
					if f, ok := recvField(t.X, recv); ok {
						out = append(out, f)
					}
				}
			case *ast.AssignStmt:
				for _, l := range t.Lhs {
					if f, ok := recvField(l, recv); ok {
						out = append(out, f)
					}
				}
			case *ast.IncDecStmt:
				if f, ok := recvField(t.X, recv); ok {
					out = append(out, f)
				}
			}
			return true
		})
	}
	return out
}

func mentions(n ast.Node, name string) bool {
	found := false
	ast.Inspect(n, func(m ast.Node) bool {
		if id, ok := m.(*ast.Ident); ok && id.Name == name {
			found = true
		}
		return !found
	})
	return found
}

func hasReturn(b *ast.BlockStmt) bool {
	found := false
	ast.Inspect(b, func(m ast.Node) bool {
		if _, ok := m.(*ast.ReturnStmt); ok {
			found = true
		}
		return !found
	})
	return found
}

func (x *mapX) emitStruct(w *strings.Builder, name string, refs *[]string) {
	st, file := x.findStruct(name)
	var all, table, tagProblems []string
	type tabEntry struct{ field, key string }
	var tab []tabEntry
	if st == nil {
		x.errf("struct %s not found", name)
	} else {
		for _, fl := range st.Fields.List {
			if len(fl.Names) == 0 {
				all = append(all, CoqStr(exprText(fl.Type)))
				tagProblems = append(tagProblems, CoqStr("embedded field "+exprText(fl.Type)))
				continue
			}
			ti := parseTag(fl.Tag)
			for _, n := range fl.Names {
				all = append(all, CoqStr(n.Name))
				if !isExported(n.Name) || ti.skip {
					continue
				}
				key := ti.key
				if key == "" {
					key = n.Name
				}
				for _, o := range ti.other {
					tagProblems = append(tagProblems, CoqStr(n.Name+": tag option "+o))
				}
				table = append(table, fmt.Sprintf("(%s, %s, %s, %s) (* %s *)",
					CoqStr(n.Name), CoqStr(key), coqBool(ti.omit), x.kindOf(fl.Type, refs), cmt(fmt.Sprintf("%s '%s' omitempty=%v", n.Name, key, ti.omit))))
				tab = append(tab, tabEntry{n.Name, key})
			}
		}
	}

	var sw, dfl, post []string
	hand, rejects := false, false
	fd := x.c.FindFunc(mappingDir, name, "UnmarshalJSON")
	if fd != nil && fd.Body != nil && fd.Recv != nil && len(fd.Recv.List) == 1 && len(fd.Recv.List[0].Names) == 1 {
		hand = true
		recv := fd.Recv.List[0].Names[0].Name
		ffile := x.fileOf(fd)
		if ffile == nil {
			ffile = file
		}
		seenLoop := false
		for _, s := range fd.Body.List {
			if rs, ok := s.(*ast.RangeStmt); ok && !seenLoop {
				seenLoop = true
				keyVar := ""
				if id, ok := rs.Key.(*ast.Ident); ok {
					keyVar = id.Name
				}
				foundSwitch := false
				for _, bs := range rs.Body.List {
					ss, ok := bs.(*ast.SwitchStmt)
					if !ok {
						if ws := writes([]ast.Stmt{bs}, recv); len(ws) > 0 {
							x.errf("%s.UnmarshalJSON: key loop writes %v outside the key switch", name, ws)
						}
						continue
					}
					if id, ok := ss.Tag.(*ast.Ident); !ok || id.Name != keyVar {
						x.errf("%s.UnmarshalJSON: switch is not over the key variable", name)
						continue
					}
					foundSwitch = true
					for _, cs := range ss.Body.List {
						cc := cs.(*ast.CaseClause)
						ws := writes(cc.Body, recv)
						for _, ke := range cc.List {
							bl, ok := ke.(*ast.BasicLit)
							if !ok || bl.Kind != token.STRING {
								x.errf("%s.UnmarshalJSON: non-literal case %s", name, exprText(ke))
								continue
							}
							k, _ := strconv.Unquote(bl.Value)
							if len(ws) == 0 {
								sw = append(sw, fmt.Sprintf("(%s, %s) (* %s *)", CoqStr(k), CoqStr(""), cmt("case '"+k+"' writes nothing")))
							}
							for _, f := range ws {
								sw = append(sw, fmt.Sprintf("(%s, %s) (* %s *)", CoqStr(k), CoqStr(f), cmt("case '"+k+"': "+recv+"."+f)))
							}
						}
					}
				}
				if !foundSwitch {
					x.errf("%s.UnmarshalJSON: no key switch found in the range loop", name)
				}
				continue
			}
			if !seenLoop {
				if as, ok := s.(*ast.AssignStmt); ok && len(as.Lhs) == len(as.Rhs) {
					for i, l := range as.Lhs {
						if f, ok := recvField(l, recv); ok {
							dfl = append(dfl, fmt.Sprintf("(%s, %s) (* %s *)", CoqStr(f), x.dflt(as.Rhs[i], ffile, mappingDir, 0), cmt(recv+"."+f+" = "+exprText(as.Rhs[i]))))
						}
					}
					continue
				}
				for _, f := range writes([]ast.Stmt{s}, recv) {
					dfl = append(dfl, fmt.Sprintf("(%s, (XDUnknown %s))", CoqStr(f), CoqStr("written by a non-assignment statement")))
				}
				continue
			}
			// after the loop
			if is, ok := s.(*ast.IfStmt); ok && mentions(is.Cond, "MappingJSONStrict") && hasReturn(is.Body) {
				rejects = true
			}
			for _, f := range writes([]ast.Stmt{s}, recv) {
				post = append(post, CoqStr(f))
			}
		}
		if !seenLoop {
			x.errf("%s.UnmarshalJSON: no key loop found", name)
		}
	} else {
		// no hand-written decoder: encoding/json matches keys against the same tags
		for _, te := range tab {
			sw = append(sw, fmt.Sprintf("(%s, %s)", CoqStr(te.key), CoqStr(te.field)))
		}
	}

	fmt.Fprintf(w, "  Definition st_%s : xstruct := {|\n", name)
	fmt.Fprintf(w, "    x_name := %s; (* %s *)\n", CoqStr(name), name)
	fmt.Fprintf(w, "    x_all_fields := %s;\n", coqList(all))
	fmt.Fprintf(w, "    x_marshal := %s;\n", coqListLines(table))
	fmt.Fprintf(w, "    x_tag_problems := %s;\n", coqList(tagProblems))
	fmt.Fprintf(w, "    x_handwritten := %s;\n", coqBool(hand))
	fmt.Fprintf(w, "    x_switch := %s;\n", coqListLines(sw))
	fmt.Fprintf(w, "    x_defaults := %s;\n", coqListLines(dfl))
	fmt.Fprintf(w, "    x_post_assigns := %s;\n", coqList(post))
	fmt.Fprintf(w, "    x_strict_rejects_unknown := %s\n  |}.\n", coqBool(rejects))
}

func coqListLines(xs []string) string {
	if len(xs) == 0 {
		return "[]"
	}
	return "[\n      " + strings.Join(xs, ";\n      ") + "\n    ]"
}

func init() {
	register("XMapping", func(c *Ctx, w *strings.Builder) error {
		x := &mapX{c: c}
		w.WriteString("  Inductive xkind := XBool | XInt | XString | XAny | XPtr (n : list Z) | XList (k : xkind) | XMap (k : xkind)\n" +
			"                   | XUnsupported (go_type : list Z).\n")
		w.WriteString("  Inductive xdflt := XDBool (b : bool) | XDInt (z : Z) | XDStr (s : list Z) | XDEmpty | XDNil\n" +
			"                   | XDNew (n : list Z) (fs : list (list Z * xdflt)) | XDUnknown (text : list Z).\n")
		w.WriteString("  Record xstruct := {\n    x_name : list Z;\n    x_all_fields : list (list Z);\n" +
			"    x_marshal : list (list Z * list Z * bool * xkind);   (* go field, json key, omitempty, kind *)\n" +
			"    x_tag_problems : list (list Z);\n    x_handwritten : bool;\n" +
			"    x_switch : list (list Z * list Z);                   (* case key, receiver field written *)\n" +
			"    x_defaults : list (list Z * xdflt);                  (* receiver field, value set before the key loop *)\n" +
			"    x_post_assigns : list (list Z);\n    x_strict_rejects_unknown : bool }.\n")
		root := "IndexMappingImpl"
		order := []string{root}
		seen := map[string]bool{root: true}
		for i := 0; i < len(order); i++ {
			var refs []string
			x.emitStruct(w, order[i], &refs)
			for _, r := range refs {
				if !seen[r] {
					seen[r] = true
					order = append(order, r)
				}
			}
		}
		var names []string
		for _, n := range order {
			names = append(names, "st_"+n)
		}
		fmt.Fprintf(w, "  Definition structs : list xstruct := %s.\n", coqList(names))
		fmt.Fprintf(w, "  Definition root : list Z := %s. (* %s *)\n", CoqStr(root), root)
		// the constructors whose literals state what an absent key means
		for _, ct := range [][2]string{{"NewIndexMapping", "new_index_mapping"}, {"NewDocumentMapping", "new_document_mapping"}} {
			ctor := "(XDUnknown " + CoqStr(ct[0]+" not found") + ")"
			if fd := c.FindFunc(mappingDir, "", ct[0]); fd != nil && fd.Body != nil {
				if cl, _ := x.structLit(fd); cl != nil {
					ctor = x.dfltLit(cl, x.fileOf(fd), mappingDir, 0)
				}
			} else {
				x.errf("%s not found", ct[0])
			}
			fmt.Fprintf(w, "  Definition %s : xdflt :=\n    %s.\n", ct[1], ctor)
		}
		// the package-level switch that turns unknown keys into errors
		strict := "(XDUnknown " + CoqStr("MappingJSONStrict not found") + ")"
		if v, vf := x.valueExpr(mappingDir, "MappingJSONStrict"); v != nil {
			strict = x.dflt(v, vf, mappingDir, 0)
		}
		fmt.Fprintf(w, "  Definition mapping_json_strict_default : xdflt := %s.\n", strict)
		if len(x.errs) > 0 {
			return fmt.Errorf("%s", strings.Join(x.errs, "; "))
		}
		return nil
	})
}
