package main

import (
	"fmt"
	"go/ast"
	"go/token"
	"strings"
)

// Alias facts the C09 model (coq/Collect/Shards.v) is parameterised by / tied to:
//   - the comparison operator of the trim guard on req.Size in hitsInCurrentPage
//     ("if req.Size <op> 0 && len(hits) > req.Size"), its right operand and its second conjunct;
//   - what copySearchRequest (search_no_knn.go, the build the harness uses) gives the child requests:
//     the expressions for Size, From, Sort, SearchAfter, SearchBefore.
func init() {
	register("XAlias", func(c *Ctx, w *strings.Builder) error {
		var errs []string
		emitStr := func(name, v string) {
			fmt.Fprintf(w, "  Definition %s : list Z := %s. (* %q *)\n", name, CoqStr(v), v)
		}

		// ---- hitsInCurrentPage: the guard of the statement that trims to req.Size
		fd := c.FindFunc(".", "", "hitsInCurrentPage")
		if fd == nil {
			errs = append(errs, "hitsInCurrentPage not found")
		} else {
			found := 0
			ast.Inspect(fd.Body, func(n ast.Node) bool {
				is, ok := n.(*ast.IfStmt)
				if !ok {
					return true
				}
				and, ok := is.Cond.(*ast.BinaryExpr)
				if !ok || and.Op != token.LAND {
					return true
				}
				l, ok := and.X.(*ast.BinaryExpr)
				if !ok || exprText(l.X) != "req.Size" {
					return true
				}
				found++
				if found == 1 {
					emitStr("trim_guard_op", l.Op.String())
					emitStr("trim_guard_rhs", exprText(l.Y))
					emitStr("trim_guard_and", exprText(and.Y))
				}
				return true
			})
			if found != 1 {
				errs = append(errs, fmt.Sprintf("hitsInCurrentPage: expected exactly one `if req.Size <op> .. && ..`, found %d", found))
			}
		}

		// ---- copySearchRequest in search_no_knn.go: the composite literal's fields
		var lit *ast.CompositeLit
		if f := c.Files(".")["search_no_knn.go"]; f != nil {
			for _, d := range f.Decls {
				if fn, ok := d.(*ast.FuncDecl); ok && fn.Name.Name == "copySearchRequest" && fn.Recv == nil {
					ast.Inspect(fn.Body, func(n ast.Node) bool {
						if cl, ok := n.(*ast.CompositeLit); ok && lit == nil && exprText(cl.Type) == "SearchRequest" {
							lit = cl
						}
						return true
					})
				}
			}
		}
		if lit == nil {
			errs = append(errs, "copySearchRequest's SearchRequest literal not found in search_no_knn.go")
		} else {
			vals := map[string]string{}
			for _, e := range lit.Elts {
				if kv, ok := e.(*ast.KeyValueExpr); ok {
					vals[exprText(kv.Key)] = exprText(kv.Value)
				}
			}
			for _, k := range []string{"Size", "From", "Sort", "SearchAfter", "SearchBefore", "Facets", "Fields", "Query"} {
				v, ok := vals[k]
				if !ok {
					errs = append(errs, "copySearchRequest: field "+k+" not set")
					continue
				}
				emitStr("child_"+strings.ToLower(k), v)
			}
		}
		if len(errs) > 0 {
			return fmt.Errorf("%s", strings.Join(errs, "; "))
		}
		return nil
	})
}
