package main

import (
	"fmt"
	"go/ast"
	"go/build/constraint"
	"go/token"
	"sort"
	"strings"
)

// Protocol facts for C11 (Module XProtocol):
//
//	chan_ops   every channel send / receive / select-default inside the scorch functions that make up
//	           the lock/channel protocol: (function, channel expression, kind 0=send 1=recv 2=default,
//	           guarded) where guarded = the operation is a communication clause of a select that also
//	           has a "<-s.closeCh" (or "<-ctx.Done()" / "<-cw.cancelCh") arm AND that arm gets out: when
//	           the select sits in a for loop of the function, the arm's body must end by leaving that
//	           loop (return, or break / continue to a label outside it); a bare "break" only leaves the
//	           select, and the loop would take the closed channel's arm again and again.  The arms on
//	           closeCh / Done / cancelCh / time.After themselves are the guards and are not listed.
//	close_arms (function, ordinal of the select in the function, the arm gets out) for every select
//	           with a closeCh / Done / cancelCh arm.
//	methods    every method of *indexImpl and *indexAliasImpl: (receiver type, name, exported,
//	           takes i.mutex.RLock()/Lock(), tests i.open, methods of the receiver it calls).
//	check_done_every, collect_poll_before, collect_poll_in_loop
//	           the collector's context polling: the constant, whether Collect polls ctx.Done() before
//	           the first Next, and whether the match loop polls it under "totalDocs%CheckDoneEvery == 0".
func init() {
	register("XProtocol", func(c *Ctx, w *strings.Builder) error {
		var errs []string

		// ---------- (a) channel operations ----------
		type fn struct{ recv, name string }
		fns := []fn{
			{"Scorch", "introducerLoop"}, {"Scorch", "introduceSegment"}, {"Scorch", "introducePersist"},
			{"Scorch", "introduceMerge"}, {"Scorch", "persisterLoop"}, {"Scorch", "pausePersisterForMergerCatchUp"},
			{"Scorch", "persistSnapshotDirect"}, {"Scorch", "persistSnapshotMaybeMerge"}, {"Scorch", "persistSnapshot"},
			{"Scorch", "mergeAndPersistInMemorySegments"}, {"Scorch", "mergerLoop"}, {"Scorch", "planMergeAtSnapshot"},
			{"Scorch", "ForceMerge"}, {"Scorch", "prepareSegment"}, {"Scorch", "Close"},
		}
		isGuardChan := func(s string) bool {
			return strings.HasSuffix(s, ".closeCh") || strings.HasSuffix(s, ".Done()") ||
				strings.HasSuffix(s, ".cancelCh") || strings.HasPrefix(s, "time.After(")
		}
		isCloseGuard := func(s string) bool {
			return strings.HasSuffix(s, ".closeCh") || strings.HasSuffix(s, ".Done()") || strings.HasSuffix(s, ".cancelCh")
		}
		// the communication of a select clause: (channel text, kind), ok
		commOf := func(st ast.Stmt) (string, int, bool) {
			switch t := st.(type) {
			case *ast.SendStmt:
				return chanText(t.Chan), 0, true
			case *ast.ExprStmt:
				if u, ok := t.X.(*ast.UnaryExpr); ok && u.Op == token.ARROW {
					return chanText(u.X), 1, true
				}
			case *ast.AssignStmt:
				if len(t.Rhs) == 1 {
					if u, ok := t.Rhs[0].(*ast.UnaryExpr); ok && u.Op == token.ARROW {
						return chanText(u.X), 1, true
					}
				}
			}
			return "", 0, false
		}
		fmt.Fprintf(w, "  (* (function, channel, kind 0=send 1=recv 2=default, guarded by a closeCh/Done/cancelCh arm) *)\n")
		fmt.Fprintf(w, "  Definition chan_ops : list (list Z * list Z * Z * bool) := [\n")
		var rows, armRows []string
		for _, f := range fns {
			fd := c.FindFunc("index/scorch", f.recv, f.name)
			if fd == nil || fd.Body == nil {
				errs = append(errs, "function "+f.name+" not found in index/scorch")
				continue
			}
			emit := func(ch string, kind int, guarded bool) {
				rows = append(rows, fmt.Sprintf("    (%s, %s, %d, %v) (* %s: %s %s *)", CoqStr(f.name), CoqStr(ch), kind, guarded,
					f.name, []string{"send", "recv", "default"}[kind], ch))
			}
			inSelect := map[ast.Node]bool{} // comm statements already handled as part of a select
			leaves := closeArmsLeave(fd, func(st ast.Stmt) bool {
				ch, _, ok := commOf(st)
				return ok && isCloseGuard(ch)
			})
			nsel := 0
			ast.Inspect(fd.Body, func(n ast.Node) bool {
				sel, ok := n.(*ast.SelectStmt)
				if !ok {
					return true
				}
				guarded := false
				for _, cl := range sel.Body.List {
					cc := cl.(*ast.CommClause)
					if cc.Comm != nil {
						if ch, _, ok := commOf(cc.Comm); ok && isCloseGuard(ch) {
							guarded = true
						}
					}
				}
				if guarded {
					armRows = append(armRows, fmt.Sprintf("    (%s, %d, %v)", CoqStr(f.name), nsel, leaves[sel]))
					guarded = leaves[sel]
				}
				nsel++
				for _, cl := range sel.Body.List {
					cc := cl.(*ast.CommClause)
					if cc.Comm == nil {
						emit("default", 2, guarded)
						continue
					}
					inSelect[cc.Comm] = true
					if u := recvExprOf(cc.Comm); u != nil {
						inSelect[u] = true
					}
					if ch, kind, ok := commOf(cc.Comm); ok && !isGuardChan(ch) {
						emit(ch, kind, guarded)
					}
				}
				return true
			})
			ast.Inspect(fd.Body, func(n ast.Node) bool {
				switch t := n.(type) {
				case *ast.SendStmt:
					if !inSelect[t] {
						emit(chanText(t.Chan), 0, false)
					}
				case *ast.UnaryExpr:
					if t.Op == token.ARROW && !inSelect[t] {
						emit(chanText(t.X), 1, false)
					}
				}
				return true
			})
		}
		fmt.Fprintf(w, "%s\n  ].\n", strings.Join(rows, ";\n"))
		fmt.Fprintf(w, "  (* (function, ordinal of the select, its closeCh/Done/cancelCh arm leaves the enclosing loop) *)\n")
		fmt.Fprintf(w, "  Definition close_arms : list (list Z * Z * bool) := [\n%s\n  ].\n", strings.Join(armRows, ";\n"))

		// ---------- (b) exported methods of indexImpl / indexAliasImpl ----------
		fmt.Fprintf(w, "  (* (receiver, method, exported, takes mutex.RLock/Lock, tests open, receiver methods it calls) *)\n")
		fmt.Fprintf(w, "  Definition methods : list (list Z * list Z * bool * bool * bool * list (list Z)) := [\n")
		var mrows []string
		for _, recv := range []string{"indexImpl", "indexAliasImpl"} {
			type m struct {
				name                   string
				exported, locks, tests bool
				calls                  []string
			}
			var ms []m
			for _, f := range c.Files(".") {
				if !inDefaultBuild(f) {
					continue // e.g. search_knn.go (//go:build vectors): not part of the build the harness runs
				}
				for _, d := range f.Decls {
					fd, ok := d.(*ast.FuncDecl)
					if !ok || fd.Recv == nil || len(fd.Recv.List) == 0 || fd.Body == nil {
						continue
					}
					if baseTypeName(fd.Recv.List[0].Type) != recv || len(fd.Recv.List[0].Names) == 0 {
						continue
					}
					rn := fd.Recv.List[0].Names[0].Name
					mm := m{name: fd.Name.Name, exported: fd.Name.IsExported()}
					seen := map[string]bool{}
					ast.Inspect(fd.Body, func(n ast.Node) bool {
						switch t := n.(type) {
						case *ast.CallExpr:
							txt := exprText(t.Fun)
							if txt == rn+".mutex.RLock" || txt == rn+".mutex.Lock" {
								mm.locks = true
							}
							if se, ok := t.Fun.(*ast.SelectorExpr); ok {
								if id, ok := se.X.(*ast.Ident); ok && id.Name == rn && !seen[se.Sel.Name] {
									seen[se.Sel.Name] = true
									mm.calls = append(mm.calls, se.Sel.Name)
								}
							}
						case *ast.IfStmt:
							if strings.Contains(exprText(t.Cond), rn+".open") {
								mm.tests = true
							}
						}
						return true
					})
					sort.Strings(mm.calls)
					ms = append(ms, mm)
				}
			}
			if len(ms) == 0 {
				errs = append(errs, "no exported methods of "+recv+" found")
			}
			sort.Slice(ms, func(i, j int) bool { return ms[i].name < ms[j].name })
			for _, mm := range ms {
				var cs []string
				for _, cname := range mm.calls {
					cs = append(cs, CoqStr(cname))
				}
				mrows = append(mrows, fmt.Sprintf("    (%s, %s, %v, %v, %v, [%s]) (* %s.%s calls %v *)", CoqStr(recv), CoqStr(mm.name),
					mm.exported, mm.locks, mm.tests, strings.Join(cs, "; "), recv, mm.name, mm.calls))
			}
		}
		fmt.Fprintf(w, "%s\n  ].\n", strings.Join(mrows, ";\n"))

		// Scorch.Close: does it wait for the background tasks after closing closeCh?
		if fd := c.FindFunc("index/scorch", "Scorch", "Close"); fd != nil && fd.Body != nil {
			closePos, waitPos := token.NoPos, token.NoPos
			ast.Inspect(fd.Body, func(n ast.Node) bool {
				if ce, ok := n.(*ast.CallExpr); ok {
					txt := exprText(ce.Fun)
					if txt == "close" && len(ce.Args) == 1 && strings.HasSuffix(exprText(ce.Args[0]), ".closeCh") && closePos == token.NoPos {
						closePos = ce.Pos()
					}
					if strings.HasSuffix(txt, ".asyncTasks.Wait") && waitPos == token.NoPos {
						waitPos = ce.Pos()
					}
				}
				return true
			})
			fmt.Fprintf(w, "  Definition close_closes_closeCh : bool := %v.\n", closePos != token.NoPos)
			fmt.Fprintf(w, "  Definition close_waits_async_tasks_after : bool := %v.\n", closePos != token.NoPos && waitPos != token.NoPos && waitPos > closePos)
		} else {
			errs = append(errs, "(*Scorch).Close not found")
		}
		// every "go s.xxxLoop()" in Scorch.Open is preceded by asyncTasks.Add(1), and every loop defers asyncTasks.Done()
		if fd := c.FindFunc("index/scorch", "Scorch", "Open"); fd != nil && fd.Body != nil {
			adds, gos := 0, 0
			ast.Inspect(fd.Body, func(n ast.Node) bool {
				switch t := n.(type) {
				case *ast.CallExpr:
					if strings.HasSuffix(exprText(t.Fun), ".asyncTasks.Add") {
						adds++
					}
				case *ast.GoStmt:
					gos++
				}
				return true
			})
			fmt.Fprintf(w, "  Definition open_go_statements : Z := %d.\n  Definition open_async_adds : Z := %d.\n", gos, adds)
		} else {
			errs = append(errs, "(*Scorch).Open not found")
		}
		loopsDone := 0
		for _, ln := range []string{"introducerLoop", "persisterLoop", "mergerLoop"} {
			if fd := c.FindFunc("index/scorch", "Scorch", ln); fd != nil && fd.Body != nil {
				ast.Inspect(fd.Body, func(n ast.Node) bool {
					if ds, ok := n.(*ast.DeferStmt); ok {
						found := false
						ast.Inspect(ds, func(m ast.Node) bool {
							if ce, ok := m.(*ast.CallExpr); ok && strings.HasSuffix(exprText(ce.Fun), ".asyncTasks.Done") {
								found = true
							}
							return true
						})
						if found {
							loopsDone++
							return false
						}
					}
					return true
				})
			}
		}
		fmt.Fprintf(w, "  Definition loops_deferring_done : Z := %d.\n", loopsDone)

		// ---------- (c) collector ----------
		if v, ok := c.ConstLit("search/collector", "CheckDoneEvery"); ok {
			v = strings.TrimSuffix(strings.TrimPrefix(v, "uint64("), ")")
			fmt.Fprintf(w, "  Definition check_done_every : Z := %s.\n", v)
		} else {
			errs = append(errs, "CheckDoneEvery not found")
		}
		if fd := c.FindFunc("search/collector", "TopNCollector", "Collect"); fd != nil && fd.Body != nil {
			before, inLoop := false, false
			var stack []ast.Node
			ast.Inspect(fd.Body, func(n ast.Node) bool {
				if n == nil {
					stack = stack[:len(stack)-1]
					return true
				}
				stack = append(stack, n)
				sel, ok := n.(*ast.SelectStmt)
				if !ok {
					return true
				}
				hasDone := false
				for _, cl := range sel.Body.List {
					cc := cl.(*ast.CommClause)
					if cc.Comm != nil {
						if ch, _, ok := commOf(cc.Comm); ok && strings.HasSuffix(ch, ".Done()") {
							// the arm must leave the function
							for _, st := range cc.Body {
								if _, ok := st.(*ast.ReturnStmt); ok {
									hasDone = true
								}
							}
						}
					}
				}
				if !hasDone {
					return true
				}
				inFor, underEvery := false, false
				for i := len(stack) - 2; i >= 0; i-- {
					switch t := stack[i].(type) {
					case *ast.ForStmt:
						inFor = true
					case *ast.IfStmt:
						if strings.Contains(exprText(t.Cond), "CheckDoneEvery") {
							underEvery = true
						}
					}
				}
				if inFor && underEvery {
					inLoop = true
				}
				if !inFor {
					before = true
				}
				return true
			})
			fmt.Fprintf(w, "  Definition collect_poll_before : bool := %v.\n  Definition collect_poll_in_loop : bool := %v.\n", before, inLoop)
		} else {
			errs = append(errs, "(*TopNCollector).Collect not found")
		}
		if len(errs) > 0 {
			return fmt.Errorf("%s", strings.Join(errs, "; "))
		}
		return nil
	})
}

// closeArmsLeave tells for every select statement of fd that has a close-guard arm whether that arm
// gets out of the innermost for loop of the function around the select (true when there is none):
// its body must end in a return, in "break L" with L labelling that loop or a statement around it, or
// in "continue L" / "goto L" with L labelling a statement strictly around that loop.  Function
// literals are separate functions.
func closeArmsLeave(fd *ast.FuncDecl, isGuardComm func(ast.Stmt) bool) map[*ast.SelectStmt]bool {
	res := map[*ast.SelectStmt]bool{}
	var stack []ast.Node
	ast.Inspect(fd.Body, func(n ast.Node) bool {
		if n == nil {
			stack = stack[:len(stack)-1]
			return true
		}
		stack = append(stack, n)
		sel, ok := n.(*ast.SelectStmt)
		if !ok {
			return true
		}
		// innermost enclosing for / range (not across a function literal), and the labels around it
		loopAt := -1
		for i := len(stack) - 2; i >= 0; i-- {
			if _, ok := stack[i].(*ast.FuncLit); ok {
				break
			}
			switch stack[i].(type) {
			case *ast.ForStmt, *ast.RangeStmt:
				loopAt = i
			}
			if loopAt >= 0 {
				break
			}
		}
		labelsAtOrAround := map[string]bool{} // labels of the loop itself and of statements around it
		labelsAround := map[string]bool{}     // labels of statements strictly around the loop
		if loopAt >= 0 {
			for i := loopAt - 1; i >= 0; i-- {
				if _, ok := stack[i].(*ast.FuncLit); ok {
					break
				}
				if ls, ok := stack[i].(*ast.LabeledStmt); ok {
					labelsAtOrAround[ls.Label.Name] = true
					if i != loopAt-1 || ls.Stmt != stack[loopAt] {
						labelsAround[ls.Label.Name] = true
					}
				}
			}
		}
		for _, cl := range sel.Body.List {
			cc := cl.(*ast.CommClause)
			if cc.Comm == nil || !isGuardComm(cc.Comm) {
				continue
			}
			out := loopAt < 0
			if !out && len(cc.Body) > 0 {
				switch last := cc.Body[len(cc.Body)-1].(type) {
				case *ast.ReturnStmt:
					out = true
				case *ast.BranchStmt:
					if last.Label != nil {
						switch last.Tok {
						case token.BREAK:
							out = labelsAtOrAround[last.Label.Name]
						case token.CONTINUE, token.GOTO:
							out = labelsAround[last.Label.Name]
						}
					}
				}
			}
			if _, seen := res[sel]; !seen || !out { // several guard arms: all must get out
				res[sel] = out
			}
		}
		return true
	})
	return res
}

// chanText renders a channel expression, including index/call forms exprText does not know.
func chanText(e ast.Expr) string {
	s := exprText(e)
	if strings.HasPrefix(s, "<") {
		return fmt.Sprintf("<expr@%T>", e)
	}
	return s
}

// recvExprOf returns the receive expression of a select communication (so that the second walk
// does not count it again).
func recvExprOf(st ast.Stmt) *ast.UnaryExpr {
	switch t := st.(type) {
	case *ast.ExprStmt:
		if u, ok := t.X.(*ast.UnaryExpr); ok && u.Op == token.ARROW {
			return u
		}
	case *ast.AssignStmt:
		if len(t.Rhs) == 1 {
			if u, ok := t.Rhs[0].(*ast.UnaryExpr); ok && u.Op == token.ARROW {
				return u
			}
		}
	}
	return nil
}

// inDefaultBuild evaluates a file's //go:build line with no optional tag set (the build the
// harness and the pinned suite use; "verif" only adds the hook files, which c.Files skips).
func inDefaultBuild(f *ast.File) bool {
	for _, cg := range f.Comments {
		if cg.Pos() >= f.Package {
			break
		}
		for _, cm := range cg.List {
			if constraint.IsGoBuild(cm.Text) {
				x, err := constraint.Parse(cm.Text)
				if err != nil {
					return true
				}
				return x.Eval(func(tag string) bool { return tag == "verif" || tag == "linux" || tag == "amd64" || tag == "gc" })
			}
		}
	}
	return true
}
