package main

import (
	"fmt"
	"go/ast"
	"go/token"
	"strings"
)

// KV adapter facts the C15 model is parameterised by (module XKv):
//   - a structural fingerprint of moss' incrementBytes (index/upsidedown/store/moss/reader.go) that
//     selects the successor function of the moss prefix iterator model:
//     0 = increment-with-carry (copies the whole input, bumps bytes from the right, stops at the first
//         byte that does not wrap to 0), 1 = strip-trailing-0xff (tests a byte against 0xff, allocates
//         i+1 bytes and bumps the last one), 2 = anything else;
//   - per store, how ExecuteBatch orders the accumulated merges against the set/delete ops:
//     0 = merges loop before the Ops loop (EmulatedBatch: boltdb, gtreap),
//     1 = ops already in the native batch, merged value Put appended before db.Write (goleveldb),
//     2 = ops already in the native batch, merge operands appended as native merge ops (moss),
//     9 = not recognised;
//   - whether the metrics wrapper only delegates (Batch/Writer/Reader/Iterator forward to .o).
func init() {
	register("XKv", func(c *Ctx, w *strings.Builder) error {
		var errs []string
		base := "index/upsidedown/store/"

		// ---- moss incrementBytes fingerprint
		variant := 2
		cmpFF, allocLenIn, allocIPlus1, wrapTest, incInPlace := false, false, false, false, false
		if fd := c.FindFunc(base+"moss", "", "incrementBytes"); fd == nil || fd.Body == nil {
			errs = append(errs, "moss incrementBytes not found")
		} else {
			ast.Inspect(fd.Body, func(n ast.Node) bool {
				switch t := n.(type) {
				case *ast.BinaryExpr:
					if t.Op == token.NEQ || t.Op == token.EQL || t.Op == token.LSS {
						if isIntLit(t.Y, 0xff) || isIntLit(t.X, 0xff) {
							cmpFF = true
						}
						if (t.Op == token.NEQ || t.Op == token.EQL) && (isIntLit(t.Y, 0) || isIntLit(t.X, 0)) {
							if _, ok := t.X.(*ast.IndexExpr); ok {
								wrapTest = true
							}
						}
					}
				case *ast.CallExpr:
					if id, ok := t.Fun.(*ast.Ident); ok && id.Name == "make" && len(t.Args) >= 2 {
						s := exprText(t.Args[1])
						if strings.HasPrefix(s, "len(") {
							allocLenIn = true
						}
						if strings.ReplaceAll(s, " ", "") == "i+1" {
							allocIPlus1 = true
						}
					}
				case *ast.AssignStmt:
					// rv[i] = rv[i] + 1
					if len(t.Lhs) == 1 && len(t.Rhs) == 1 {
						if _, ok := t.Lhs[0].(*ast.IndexExpr); ok {
							if be, ok := t.Rhs[0].(*ast.BinaryExpr); ok && be.Op == token.ADD && isIntLit(be.Y, 1) {
								incInPlace = true
							}
						}
					}
				case *ast.IncDecStmt:
					if _, ok := t.X.(*ast.IndexExpr); ok && t.Tok == token.INC {
						incInPlace = true
					}
				}
				return true
			})
			switch {
			case allocLenIn && !allocIPlus1 && !cmpFF && wrapTest && incInPlace:
				variant = 0
			case allocIPlus1 && !allocLenIn && cmpFF && !wrapTest && incInPlace:
				variant = 1
			}
		}
		fmt.Fprintf(w, "  Definition moss_increment_variant : Z := %d.\n", variant)
		fmt.Fprintf(w, "  Definition moss_increment_features : list bool := [%s]. (* compares with 0xff; make(len(in)); make(i+1); tests wrapped byte against 0; bumps a byte *)\n",
			strings.Join([]string{cb(cmpFF), cb(allocLenIn), cb(allocIPlus1), cb(wrapTest), cb(incInPlace)}, "; "))

		// ---- batch policies
		policy := func(store string) int {
			fd := c.FindFunc(base+store, "Writer", "ExecuteBatch")
			if fd == nil || fd.Body == nil {
				errs = append(errs, store+" Writer.ExecuteBatch not found")
				return 9
			}
			mergesPos, opsPos := token.NoPos, token.NoPos
			putInMerges, nativeMergeInMerges := false, false
			writePos := token.NoPos
			ast.Inspect(fd.Body, func(n ast.Node) bool {
				switch t := n.(type) {
				case *ast.RangeStmt:
					x := exprText(t.X)
					if strings.HasSuffix(x, ".Merges") && mergesPos == token.NoPos {
						mergesPos = t.Pos()
						ast.Inspect(t.Body, func(m ast.Node) bool {
							if ce, ok := m.(*ast.CallExpr); ok {
								f := exprText(ce.Fun)
								if strings.HasSuffix(f, ".batch.Put") {
									putInMerges = true
								}
								if strings.HasSuffix(f, ".batch.Merge") || strings.HasSuffix(f, ".batch.AllocMerge") {
									nativeMergeInMerges = true
								}
							}
							return true
						})
					}
					if strings.HasSuffix(x, ".Ops") && opsPos == token.NoPos {
						opsPos = t.Pos()
					}
				case *ast.CallExpr:
					f := exprText(t.Fun)
					if strings.HasSuffix(f, ".db.Write") || strings.HasSuffix(f, ".ms.ExecuteBatch") {
						writePos = t.Pos()
					}
				}
				return true
			})
			switch {
			case mergesPos != token.NoPos && opsPos != token.NoPos && mergesPos < opsPos && !putInMerges && !nativeMergeInMerges:
				return 0
			case mergesPos != token.NoPos && opsPos == token.NoPos && putInMerges && !nativeMergeInMerges && writePos > mergesPos:
				return 1
			case mergesPos != token.NoPos && opsPos == token.NoPos && nativeMergeInMerges && !putInMerges && writePos > mergesPos:
				return 2
			}
			return 9
		}
		for _, s := range []string{"boltdb", "gtreap", "goleveldb", "moss"} {
			fmt.Fprintf(w, "  Definition batch_policy_%s : Z := %d.\n", s, policy(s))
		}

		// ---- metrics wrapper: pure delegation
		forwards := func(recv, name, callee string) bool {
			fd := c.FindFunc(base+"metrics", recv, name)
			if fd == nil || fd.Body == nil {
				return false
			}
			found := false
			ast.Inspect(fd.Body, func(n ast.Node) bool {
				if ce, ok := n.(*ast.CallExpr); ok && exprText(ce.Fun) == callee {
					found = true
				}
				return true
			})
			return found
		}
		deleg := forwards("Batch", "Set", "b.o.Set") && forwards("Batch", "Delete", "b.o.Delete") &&
			forwards("Batch", "Merge", "b.o.Merge") && forwards("Writer", "ExecuteBatch", "w.o.ExecuteBatch") &&
			forwards("Reader", "Get", "r.o.Get") && forwards("Reader", "MultiGet", "r.o.MultiGet") &&
			forwards("Reader", "PrefixIterator", "r.o.PrefixIterator") && forwards("Reader", "RangeIterator", "r.o.RangeIterator") &&
			forwards("Iterator", "Seek", "i.o.Seek") && forwards("Iterator", "Next", "i.o.Next") &&
			forwards("Iterator", "Current", "i.o.Current") && forwards("Iterator", "Key", "i.o.Key") &&
			forwards("Iterator", "Value", "i.o.Value") && forwards("Iterator", "Valid", "i.o.Valid") &&
			forwards("Store", "Reader", "s.o.Reader") && forwards("Store", "Writer", "s.o.Writer")
		fmt.Fprintf(w, "  Definition metrics_delegates : bool := %s.\n", cb(deleg))

		if len(errs) > 0 {
			return fmt.Errorf("%s", strings.Join(errs, "; "))
		}
		return nil
	})
}

func cb(b bool) string {
	if b {
		return "true"
	}
	return "false"
}

func isIntLit(e ast.Expr, v int64) bool {
	bl, ok := e.(*ast.BasicLit)
	if !ok || bl.Kind != token.INT {
		return false
	}
	var x int64
	if _, err := fmt.Sscanf(strings.ToLower(bl.Value), "0x%x", &x); err == nil {
		return x == v
	}
	if _, err := fmt.Sscanf(bl.Value, "%d", &x); err == nil {
		return x == v
	}
	return false
}
