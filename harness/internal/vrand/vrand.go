// Package vrand is the single PRNG (SplitMix64) every harness random choice derives from,
// so a (seed, tier) pair replays exactly.
package vrand

type R struct{ s uint64 }

// New scrambles the seed first (neighbouring seeds must not give shifted copies of one stream).
func New(seed uint64) *R {
	z := seed + 0x1234567
	z = (z ^ (z >> 30)) * 0xBF58476D1CE4E5B9
	z = (z ^ (z >> 27)) * 0x94D049BB133111EB
	z ^= z >> 31
	return &R{s: z*0xD1342543DE82EF95 + 0x9E3779B97F4A7C15}
}

func (r *R) U64() uint64 {
	r.s += 0x9E3779B97F4A7C15
	z := r.s
	z = (z ^ (z >> 30)) * 0xBF58476D1CE4E5B9
	z = (z ^ (z >> 27)) * 0x94D049BB133111EB
	return z ^ (z >> 31)
}

// Intn returns a value in [0,n).
func (r *R) Intn(n int) int {
	if n <= 0 {
		return 0
	}
	return int(r.U64() % uint64(n))
}

// Range returns a value in [lo,hi].
func (r *R) Range(lo, hi int) int { return lo + r.Intn(hi-lo+1) }

func (r *R) Bool() bool { return r.U64()&1 == 1 }

// Chance returns true with probability num/den.
func (r *R) Chance(num, den int) bool { return r.Intn(den) < num }

func (r *R) I64() int64 { return int64(r.U64()) }

func (r *R) Float() float64 { return float64(r.U64()>>11) / float64(1<<53) }

// Fork derives an independent stream (used per case so that cases replay individually).
func (r *R) Fork() *R { return New(r.U64()) }

func Pick[T any](r *R, xs []T) T { return xs[r.Intn(len(xs))] }

func Shuffle[T any](r *R, xs []T) {
	for i := len(xs) - 1; i > 0; i-- {
		j := r.Intn(i + 1)
		xs[i], xs[j] = xs[j], xs[i]
	}
}
