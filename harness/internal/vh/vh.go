// Package vh is the common run context of every correspondence harness:
// flags, seeded case generation, corpus/replay inputs, parallel execution against the
// implementation, and the cases_*.v / meta.json / cases.jsonl files bin/vcheck consumes.
package vh

import (
	"bufio"
	"crypto/sha1"
	"encoding/hex"
	"encoding/json"
	"flag"
	"fmt"
	"os"
	"path/filepath"
	"sort"
	"strconv"
	"strings"
	"sync"
	"time"

	"verifharness/internal/coqfmt"
	"verifharness/internal/vrand"
)

// Config describes how the Coq side evaluates the cases of one harness.
type Config struct {
	Property string   // "C07"
	Imports  []string // Coq modules: "Numeric.Model", "Numeric.Corr" (under logical root Verif)
	CaseType string   // Coq type of a case, e.g. "Corr.case"
	CheckFn  string   // Coq function case -> bool (true = model and implementation agree)
	// ExplainFn, optional: Coq function case -> X whose vm_compute value is put in replay files.
	ExplainFn string
	Rule      string // how cases are generated and what makes one non-trivial (for evidence)
	ShardSize int    // cases per .v file (default 400)
	Workers   int    // parallel executions (default 8; 1 = sequential)
	Preamble  string // extra Coq text placed before the cases definition
}

// Direct is a violation observed on the implementation alone (panic, hang, watchdog),
// i.e. one that needs no model evaluation to be a failing input.
type Direct struct {
	Kind   string `json:"kind"`
	Detail string `json:"detail"`
}

// Result of executing one input against the implementation.
type Result struct {
	Term       coqfmt.T // the Coq case (input + observed outputs)
	Nontrivial bool     // by the harness' stated rule
	Key        string   // distinctness key; "" = hash of Term
	Class      string   // signature class used by known_findings.json ("" = none)
	Hist       []string // histogram buckets this case falls in
	Direct     *Direct
	Skip       bool // input could not be executed (counts in hist "skipped")
	Traces     int  // number of implementation event traces this case hands to the model (T3)
}

type caseRec struct {
	I      int             `json:"i"`
	Origin string          `json:"origin"` // "corpus:<file>" | "gen" | "replay"
	Class  string          `json:"class,omitempty"`
	Input  json.RawMessage `json:"input"`
	Coq    string          `json:"coq"`
	Direct *Direct         `json:"direct,omitempty"`
}

type Flags struct {
	Seed   uint64
	Tier   string
	Out    string
	Replay string
	Corpus string
	Scale  float64
	Mode   string // harness-specific variant selector
}

func ParseFlags() Flags {
	var f Flags
	flag.Uint64Var(&f.Seed, "seed", 1, "PRNG seed")
	flag.StringVar(&f.Tier, "tier", "quick", "quick|thorough")
	flag.StringVar(&f.Out, "out", "", "output directory")
	flag.StringVar(&f.Replay, "replay", "", "replay file (a JSON object with an \"input\" member)")
	flag.StringVar(&f.Corpus, "corpus", "", "corpus directory (inputs run first)")
	flag.Float64Var(&f.Scale, "scale", 1, "multiply case counts")
	flag.StringVar(&f.Mode, "mode", "", "harness-specific variant")
	flag.Parse()
	if f.Out == "" {
		fmt.Fprintln(os.Stderr, "need -out")
		os.Exit(2)
	}
	return f
}

// N scales a case count by tier and -scale.
func (f Flags) N(quick, thorough int) int {
	n := quick
	if f.Tier == "thorough" {
		n = thorough
	}
	n = int(float64(n) * f.Scale)
	if n < 1 {
		n = 1
	}
	return n
}

type item[In any] struct {
	in     In
	origin string
}

// Main runs a harness: gen produces inputs from the seeded PRNG, exec runs one input
// against the implementation and returns the Coq case.
func Main[In any](cfg Config, gen func(f Flags, r *vrand.R, emit func(In)), exec func(In) Result) {
	f := ParseFlags()
	t0 := time.Now()
	if cfg.ShardSize == 0 {
		cfg.ShardSize = 400
	}
	if cfg.Workers == 0 {
		cfg.Workers = 8
	}
	if err := os.MkdirAll(f.Out, 0o755); err != nil {
		panic(err)
	}
	var items []item[In]
	if f.Replay != "" {
		var rp struct {
			Input json.RawMessage `json:"input"`
		}
		b, err := os.ReadFile(f.Replay)
		if err != nil {
			panic(err)
		}
		if err := json.Unmarshal(b, &rp); err != nil {
			panic(err)
		}
		var in In
		if err := json.Unmarshal(rp.Input, &in); err != nil {
			panic(err)
		}
		items = append(items, item[In]{in, "replay"})
	} else {
		if f.Corpus != "" {
			files, _ := filepath.Glob(filepath.Join(f.Corpus, "*.json"))
			sort.Strings(files)
			for _, fn := range files {
				b, err := os.ReadFile(fn)
				if err != nil {
					continue
				}
				var rp struct {
					Input json.RawMessage `json:"input"`
				}
				if json.Unmarshal(b, &rp) != nil || rp.Input == nil {
					continue
				}
				var in In
				if json.Unmarshal(rp.Input, &in) != nil {
					continue
				}
				items = append(items, item[In]{in, "corpus:" + filepath.Base(fn)})
			}
		}
		r := vrand.New(f.Seed)
		gen(f, r, func(in In) { items = append(items, item[In]{in, "gen"}) })
	}

	results := make([]Result, len(items))
	var wg sync.WaitGroup
	sem := make(chan struct{}, cfg.Workers)
	for i := range items {
		wg.Add(1)
		sem <- struct{}{}
		go func(i int) {
			defer wg.Done()
			defer func() { <-sem }()
			defer func() {
				if e := recover(); e != nil {
					results[i] = Result{Direct: &Direct{Kind: "harness-panic", Detail: fmt.Sprint(e)}, Skip: false}
				}
			}()
			results[i] = exec(items[i].in)
		}(i)
	}
	wg.Wait()

	// write cases
	cj, err := os.Create(filepath.Join(f.Out, "cases.jsonl"))
	if err != nil {
		panic(err)
	}
	cw := bufio.NewWriter(cj)
	hist := map[string]int{}
	traces := 0
	distinct := map[string]bool{}
	shards := []string{}
	var shardTerms []string
	var shardStart int
	nCases := 0
	var directs []caseRec
	var samples []json.RawMessage
	flush := func() {
		if len(shardTerms) == 0 {
			return
		}
		name := fmt.Sprintf("Cases_%s_%d.v", cfg.Property, len(shards))
		var sb strings.Builder
		sb.WriteString("From Coq Require Import ZArith List.\n")
		sb.WriteString("From Verif Require Import Common.Corr")
		for _, m := range cfg.Imports {
			sb.WriteString(" " + m)
		}
		sb.WriteString(".\nImport ListNotations.\nLocal Open Scope Z_scope.\n")
		sb.WriteString(cfg.Preamble)
		sb.WriteString("\nDefinition cases : list (" + cfg.CaseType + ") := [\n")
		sb.WriteString(strings.Join(shardTerms, ";\n"))
		sb.WriteString("\n].\n")
		sb.WriteString("Definition M := Eval vm_compute in Corr.mismatches (" + cfg.CheckFn + ") " + strconv.Itoa(shardStart) + " cases.\nPrint M.\n")
		if err := os.WriteFile(filepath.Join(f.Out, name), []byte(sb.String()), 0o644); err != nil {
			panic(err)
		}
		shards = append(shards, name)
		shardTerms = nil
	}
	for i, res := range results {
		for _, h := range res.Hist {
			hist[h]++
		}
		traces += res.Traces
		inJS, _ := json.Marshal(items[i].in)
		if res.Direct != nil {
			directs = append(directs, caseRec{I: -1, Origin: items[i].origin, Class: res.Class, Input: inJS, Direct: res.Direct})
			hist["direct:"+res.Direct.Kind]++
			if res.Term == "" {
				continue
			}
		}
		if res.Skip {
			hist["skipped"]++
			continue
		}
		idx := nCases
		nCases++
		if len(shardTerms) == 0 {
			shardStart = idx
		}
		shardTerms = append(shardTerms, string(res.Term))
		rec := caseRec{I: idx, Origin: items[i].origin, Class: res.Class, Input: inJS, Coq: string(res.Term)}
		if res.Direct != nil {
			rec.Class = "" // the class belongs to the direct finding, not to a model mismatch of this case
		}
		b, _ := json.Marshal(rec)
		cw.Write(b)
		cw.WriteByte('\n')
		if res.Nontrivial {
			k := res.Key
			if k == "" {
				h := sha1.Sum([]byte(res.Term))
				k = hex.EncodeToString(h[:8])
			}
			distinct[k] = true
		}
		if len(samples) < 3 && (res.Nontrivial || i == len(results)-1) {
			samples = append(samples, inJS)
		}
		if len(shardTerms) >= cfg.ShardSize {
			flush()
		}
	}
	flush()
	cw.Flush()
	cj.Close()
	if len(samples) == 0 && len(items) > 0 {
		b, _ := json.Marshal(items[0].in)
		samples = append(samples, b)
	}

	meta := map[string]any{
		"property":            cfg.Property,
		"seed":                f.Seed,
		"tier":                f.Tier,
		"shards":              shards,
		"imports":             cfg.Imports,
		"case_type":           cfg.CaseType,
		"check_fn":            cfg.CheckFn,
		"explain_fn":          cfg.ExplainFn,
		"preamble":            cfg.Preamble,
		"evaluations":         len(items),
		"model_cases":         nCases,
		"distinct_nontrivial": len(distinct),
		"rule":                cfg.Rule,
		"samples":             samples,
		"hist":                hist,
		"traces_validated":    traces,
		"direct":              directs,
		"impl_wall_s":         time.Since(t0).Seconds(),
	}
	b, _ := json.MarshalIndent(meta, "", " ")
	if err := os.WriteFile(filepath.Join(f.Out, "meta.json"), b, 0o644); err != nil {
		panic(err)
	}
}

// Guard runs fn under a watchdog and converts panics / overruns into Direct results.
// It returns nil when fn completed normally.
func Guard(d time.Duration, what string, fn func()) *Direct {
	done := make(chan *Direct, 1)
	go func() {
		defer func() {
			if e := recover(); e != nil {
				done <- &Direct{Kind: "panic", Detail: what + ": " + fmt.Sprint(e)}
			}
		}()
		fn()
		done <- nil
	}()
	select {
	case r := <-done:
		return r
	case <-time.After(d):
		return &Direct{Kind: "timeout", Detail: fmt.Sprintf("%s: no result within %v", what, d)}
	}
}

// PeekMode returns the value of -mode from the command line before flags are parsed.
func PeekMode() string {
	for i, a := range os.Args {
		if (a == "-mode" || a == "--mode") && i+1 < len(os.Args) {
			return os.Args[i+1]
		}
		if len(a) > 6 && (a[:6] == "-mode=") {
			return a[6:]
		}
	}
	return ""
}
