package vh

// Process isolation of single inputs.  A panic on a goroutine that the library under test
// started itself (scorch's persister workers, merger, ...) cannot be recovered by the harness and
// would take the whole run down, leaving "the harness crashed" without the input that did it.
// A harness that wants such crashes reported as a Direct result WITH the input runs that input
// through Isolate: the harness binary re-invokes itself for the one input.
//
//	func main() {
//		if vh.IsolatedChild(execHere) { return }
//		vh.Main(cfg, gen, func(in In) vh.Result { return vh.Isolate(in, 5*time.Minute) })
//	}

import (
	"context"
	"encoding/json"
	"fmt"
	"os"
	"os/exec"
	"path/filepath"
	"strings"
	"time"
)

const (
	isoInEnv  = "VH_ISOLATE_IN"
	isoOutEnv = "VH_ISOLATE_OUT"
)

// IsolatedChild reports whether this process is an isolation child; if so it has executed its one
// input with exec, written the Result and the caller must simply return from main.
func IsolatedChild[In any](exec func(In) Result) bool {
	inPath, outPath := os.Getenv(isoInEnv), os.Getenv(isoOutEnv)
	if inPath == "" || outPath == "" {
		return false
	}
	b, err := os.ReadFile(inPath)
	if err != nil {
		fmt.Fprintln(os.Stderr, "isolate child:", err)
		os.Exit(3)
	}
	var in In
	if err := json.Unmarshal(b, &in); err != nil {
		fmt.Fprintln(os.Stderr, "isolate child:", err)
		os.Exit(3)
	}
	var res Result
	func() {
		defer func() {
			if e := recover(); e != nil {
				res = Result{Direct: &Direct{Kind: "harness-panic", Detail: fmt.Sprint(e)}}
			}
		}()
		res = exec(in)
	}()
	ob, _ := json.Marshal(res)
	if err := os.WriteFile(outPath+".tmp", ob, 0o644); err != nil {
		fmt.Fprintln(os.Stderr, "isolate child:", err)
		os.Exit(3)
	}
	if err := os.Rename(outPath+".tmp", outPath); err != nil {
		os.Exit(3)
	}
	return true
}

// Isolate runs one input in a child process.  The child's death without a result (an
// unrecoverable panic, a fatal runtime error) is returned as Direct{Kind: "crash"} carrying the
// end of its output; no result within max as Direct{Kind: "timeout"}.
func Isolate[In any](in In, max time.Duration) Result {
	dir, err := os.MkdirTemp("", "vh_iso_")
	if err != nil {
		return Result{Direct: &Direct{Kind: "error", Detail: "isolate: " + err.Error()}}
	}
	defer os.RemoveAll(dir)
	inPath, outPath := filepath.Join(dir, "in.json"), filepath.Join(dir, "out.json")
	b, _ := json.Marshal(in)
	if err := os.WriteFile(inPath, b, 0o644); err != nil {
		return Result{Direct: &Direct{Kind: "error", Detail: "isolate: " + err.Error()}}
	}
	ctx, cancel := context.WithTimeout(context.Background(), max)
	defer cancel()
	cmd := exec.CommandContext(ctx, os.Args[0])
	cmd.Env = append(os.Environ(), isoInEnv+"="+inPath, isoOutEnv+"="+outPath)
	out, runErr := cmd.CombinedOutput()
	if ob, err := os.ReadFile(outPath); err == nil {
		var res Result
		if err := json.Unmarshal(ob, &res); err == nil {
			return res
		}
	}
	if ctx.Err() != nil {
		return Result{Direct: &Direct{Kind: "timeout", Detail: fmt.Sprintf("isolated execution produced no result within %v", max)}}
	}
	return Result{Direct: &Direct{Kind: "crash", Detail: fmt.Sprintf("the process executing this input died (%v): %s", runErr, crashDigest(string(out)))}}
}

// crashDigest keeps the panic message and the first frames of the crashing goroutine.
func crashDigest(out string) string {
	i := strings.Index(out, "panic:")
	if j := strings.Index(out, "fatal error:"); j >= 0 && (i < 0 || j < i) {
		i = j
	}
	if i < 0 {
		if len(out) > 1500 {
			out = out[len(out)-1500:]
		}
		return out
	}
	out = out[i:]
	if len(out) > 1800 {
		out = out[:1800]
	}
	return out
}
