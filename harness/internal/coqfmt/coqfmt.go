// Package coqfmt prints harness data as Coq terms (Z_scope numerals, lists, options,
// constructor applications) for the cases files evaluated by vm_compute.
package coqfmt

import (
	"fmt"
	"strconv"
	"strings"
)

// T is an already formatted Coq term.
type T string

func Z(i int64) T {
	if i < 0 {
		return T("(" + strconv.FormatInt(i, 10) + ")")
	}
	return T(strconv.FormatInt(i, 10))
}

func U(u uint64) T { return T(strconv.FormatUint(u, 10)) }

func Int(i int) T { return Z(int64(i)) }

// Nat prints a small natural number in nat_scope.
func Nat(i int) T { return T(strconv.Itoa(i) + "%nat") }

func Bool(b bool) T {
	if b {
		return "true"
	}
	return "false"
}

// Bytes prints a byte string as a list of Z.
func Bytes(b []byte) T {
	if len(b) == 0 {
		return "[]"
	}
	var sb strings.Builder
	sb.WriteByte('[')
	for i, c := range b {
		if i > 0 {
			sb.WriteByte(';')
		}
		sb.WriteString(strconv.Itoa(int(c)))
	}
	sb.WriteByte(']')
	return T(sb.String())
}

func Str(s string) T { return Bytes([]byte(s)) }

func List(xs []T) T {
	if len(xs) == 0 {
		return "[]"
	}
	ss := make([]string, len(xs))
	for i, x := range xs {
		ss[i] = string(x)
	}
	return T("[" + strings.Join(ss, "; ") + "]")
}

func ListOf[A any](xs []A, f func(A) T) T {
	ts := make([]T, len(xs))
	for i, x := range xs {
		ts[i] = f(x)
	}
	return List(ts)
}

func Some(x T) T { return T("(Some " + string(x) + ")") }

const None T = "None"

func Opt[A any](p *A, f func(A) T) T {
	if p == nil {
		return None
	}
	return Some(f(*p))
}

func Pair(a, b T) T { return T("(" + string(a) + ", " + string(b) + ")") }

func Tuple(xs ...T) T {
	ss := make([]string, len(xs))
	for i, x := range xs {
		ss[i] = string(x)
	}
	return T("(" + strings.Join(ss, ", ") + ")")
}

// App prints a constructor / function application.
func App(head string, args ...T) T {
	if len(args) == 0 {
		return T(head)
	}
	var sb strings.Builder
	sb.WriteByte('(')
	sb.WriteString(head)
	for _, a := range args {
		sb.WriteByte(' ')
		sb.WriteString(string(a))
	}
	sb.WriteByte(')')
	return T(sb.String())
}

func Sprintf(format string, a ...any) T { return T(fmt.Sprintf(format, a...)) }
