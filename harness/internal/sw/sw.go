// Package sw ("scorch workload") holds what the scorch-engine harnesses (C01, C03, C04, C05,
// C12, C13, C14) share: the operation/history types, opening an index in one of the layout
// configurations, applying tagged batches, reading the contents back, and turning a recorded
// event trace into the Coq CTrace case.
package sw

import (
	"context"
	"fmt"
	"os"
	"sort"
	"strconv"
	"time"

	"github.com/blevesearch/bleve/v2"
	"github.com/blevesearch/bleve/v2/index/scorch"
	"github.com/blevesearch/bleve/v2/index/upsidedown"
	_ "github.com/blevesearch/bleve/v2/index/upsidedown/store/goleveldb"
	_ "github.com/blevesearch/bleve/v2/index/upsidedown/store/moss"
	"github.com/blevesearch/bleve/v2/mapping"
	index "github.com/blevesearch/bleve_index_api"

	cf "verifharness/internal/coqfmt"
	"verifharness/internal/strace"
)

type Op struct {
	Kind string `json:"k"` // index | delete | setint | delint
	ID   int    `json:"id"`
	Ver  int64  `json:"v,omitempty"`
}

// Layout describes how an index is opened.
type Layout struct {
	Config  string `json:"config"` // scorch-disk | scorch-mem | udc-gtreap | udc-boltdb | udc-goleveldb | udc-moss
	Opts    int    `json:"opts,omitempty"`
	SegVer  int    `json:"segver,omitempty"`
	Unsafe  bool   `json:"unsafe,omitempty"`
	Keep    int    `json:"keep,omitempty"` // numSnapshotsToKeep (0 = default)
	Mapping string `json:"mapping,omitempty"`
	// explicit persister / merge-planner options (flush.go); when set they replace what Opts says for that option group
	PO *PersisterOpts `json:"po,omitempty"`
	MP *MergePlanOpts `json:"mp,omitempty"`
	// rollback retention beyond numSnapshotsToKeep: "rollbackSamplingInterval" (a duration string,
	// "" = default 0) and "rollbackRetentionFactor" (0 = default)
	Sampling  string  `json:"sampling,omitempty"`
	RetFactor float64 `json:"ret_factor,omitempty"`
}

func DocName(i int) string { return fmt.Sprintf("d%d", i) }
func KeyName(i int) string { return fmt.Sprintf("k%d", i) }

func DocNum(s string) int64 {
	var i int64
	fmt.Sscanf(s, "d%d", &i)
	return i
}

// Vocabulary for document bodies (so searches, facets and highlights have something to do).
var Words = []string{"alpha", "beta", "gamma", "delta", "epsilon", "zeta"}

type Doc struct {
	V    string   `json:"v"`
	Body string   `json:"body"`
	Tag  string   `json:"tag"`
	N    float64  `json:"n"`
	Arr  []string `json:"arr"` // 0-3 stored array elements (length varies between versions of one id)
}

// DocFor derives a deterministic document body from (id, version).
func DocFor(id int, ver int64) Doc {
	h := uint64(id)*2654435761 + uint64(ver)*40503
	nw := 2 + int(h%4)
	body := ""
	for i := 0; i < nw; i++ {
		h = h*6364136223846793005 + 1442695040888963407
		if i > 0 {
			body += " "
		}
		body += Words[(h>>33)%uint64(len(Words))]
	}
	d := Doc{V: strconv.FormatInt(ver, 10), Body: body, Tag: Words[(h>>20)%3], N: float64((h >> 40) % 7), Arr: []string{}}
	for i := 0; i < int((h>>50)%4); i++ {
		d.Arr = append(d.Arr, fmt.Sprintf("e%d-%d", i, ver))
	}
	return d
}

func Mapping() mapping.IndexMapping {
	m := bleve.NewIndexMapping()
	dm := bleve.NewDocumentMapping()
	body := bleve.NewTextFieldMapping()
	body.Analyzer = "standard"
	body.Store = true
	body.IncludeTermVectors = true
	dm.AddFieldMappingsAt("body", body)
	tag := bleve.NewKeywordFieldMapping()
	tag.Store = true
	dm.AddFieldMappingsAt("tag", tag)
	v := bleve.NewKeywordFieldMapping()
	v.Store = true
	dm.AddFieldMappingsAt("v", v)
	n := bleve.NewNumericFieldMapping()
	n.Store = true
	dm.AddFieldMappingsAt("n", n)
	arr := bleve.NewKeywordFieldMapping()
	arr.Store = true
	dm.AddFieldMappingsAt("arr", arr)
	m.DefaultMapping = dm
	return m
}

// Open creates a fresh index for the layout; dir is the scratch directory to remove afterwards
// ("" for in-memory layouts).
func Open(l Layout) (idx bleve.Index, path string, dir string, err error) {
	return OpenWith(l, Mapping())
}

// OpenWith is Open with the caller's index mapping.
func OpenWith(l Layout, m mapping.IndexMapping) (idx bleve.Index, path string, dir string, err error) {
	var kvc map[string]interface{}
	typ, store := scorch.Name, scorch.Name
	needDir := false
	switch l.Config {
	case "scorch-disk":
		needDir = true
		kvc = ScorchConfig(l)
	case "scorch-mem":
	case "udc-gtreap":
		typ, store = upsidedown.Name, "gtreap"
	case "udc-moss":
		typ, store = upsidedown.Name, "moss"
		kvc = map[string]interface{}{}
	case "udc-boltdb", "udc-goleveldb":
		typ, store = upsidedown.Name, l.Config[4:]
		needDir = true
	default:
		return nil, "", "", fmt.Errorf("unknown config %q", l.Config)
	}
	if needDir {
		dir, err = os.MkdirTemp("", "vh_sw_")
		if err != nil {
			return nil, "", "", err
		}
		path = dir + "/idx"
	}
	idx, err = bleve.NewUsing(path, m, typ, store, kvc)
	return idx, path, dir, err
}

// ScorchConfig renders the persister / merge-plan option variant of a layout.
func ScorchConfig(l Layout) map[string]interface{} {
	kvc := map[string]interface{}{}
	switch l.Opts {
	case 1:
		kvc["scorchPersisterOptions"] = map[string]interface{}{"NumPersisterWorkers": 2, "MaxSizeInMemoryMergePerWorker": 1}
	case 2:
		kvc["scorchMergePlanOptions"] = map[string]interface{}{"MaxSegmentsPerTier": 2, "TierGrowth": 2.0, "SegmentsPerMergeTask": 3, "FloorSegmentSize": 1}
	case 3:
		kvc["scorchPersisterOptions"] = map[string]interface{}{"PersisterNapTimeMSec": 1, "PersisterNapUnderNumFiles": 0}
		kvc["scorchMergePlanOptions"] = map[string]interface{}{"MaxSegmentsPerTier": 1, "SegmentsPerMergeTask": 2, "FloorSegmentSize": 1}
	case 5:
		// a napping persister (as recommended for unsafe batches): roots pile up between rounds
		kvc["scorchPersisterOptions"] = map[string]interface{}{"PersisterNapTimeMSec": 25, "PersisterNapUnderNumFiles": 1000}
		kvc["scorchMergePlanOptions"] = map[string]interface{}{"MaxSegmentsPerTier": 1, "SegmentsPerMergeTask": 2, "FloorSegmentSize": 1}
	case 4:
		kvc["scorchPersisterOptions"] = map[string]interface{}{"NumPersisterWorkers": 4, "MaxSizeInMemoryMergePerWorker": 1, "PersisterNapTimeMSec": 5, "PersisterNapUnderNumFiles": 1000}
	}
	if l.PO != nil {
		kvc["scorchPersisterOptions"] = l.PO.config()
	}
	if l.MP != nil {
		kvc["scorchMergePlanOptions"] = l.MP.config()
	}
	if l.SegVer != 0 {
		kvc["forceSegmentType"] = "zap"
		kvc["forceSegmentVersion"] = l.SegVer
	}
	if l.Unsafe {
		kvc["unsafe_batch"] = true
	}
	if l.Keep > 0 {
		kvc["numSnapshotsToKeep"] = l.Keep
	}
	if l.Sampling != "" {
		kvc["rollbackSamplingInterval"] = l.Sampling
	}
	if l.RetFactor > 0 {
		kvc["rollbackRetentionFactor"] = l.RetFactor
	}
	return kvc
}

// Tagger remembers which versions each tagged batch wrote, so that trace events (which carry the
// batch tag in the internal key "__b") can be given their versions.
type Tagger struct {
	Seq  int64
	Vers map[int64]map[string]int64
}

func NewTagger() *Tagger { return &Tagger{Vers: map[int64]map[string]int64{}} }

// Build fills a bleve batch from ops and tags it.
func (t *Tagger) Build(idx bleve.Index, ops []Op, tag bool) (*bleve.Batch, int64, error) {
	t.Seq++
	b := idx.NewBatch()
	vers := map[string]int64{}
	for _, o := range ops {
		switch o.Kind {
		case "index":
			if err := b.Index(DocName(o.ID), DocFor(o.ID, o.Ver)); err != nil {
				return nil, 0, err
			}
			vers[DocName(o.ID)] = o.Ver
		case "delete":
			b.Delete(DocName(o.ID))
			delete(vers, DocName(o.ID))
		case "setint":
			b.SetInternal([]byte(KeyName(o.ID)), []byte(strconv.FormatInt(o.Ver, 10)))
		case "delint":
			b.DeleteInternal([]byte(KeyName(o.ID)))
		}
	}
	if tag {
		b.SetInternal([]byte("__b"), []byte(strconv.FormatInt(t.Seq, 10)))
	}
	t.Vers[t.Seq] = vers
	return b, t.Seq, nil
}

func (t *Tagger) VersionOf(ev *scorch.VerifEvent, id string) (int64, bool) {
	if b, ok := ev.Internal["__b"]; ok {
		if s, err := strconv.ParseInt(string(b), 10, 64); err == nil {
			v, ok := t.Vers[s][id]
			return v, ok
		}
	}
	return -1, false
}

// OpsTerms renders ops as the (doc ops, internal ops) lists of an hstep.
func OpsTerms(ops []Op) (docs, ints []cf.T) {
	for _, o := range ops {
		switch o.Kind {
		case "index":
			docs = append(docs, cf.Pair(cf.Int(o.ID), cf.Some(cf.Z(o.Ver))))
		case "delete":
			docs = append(docs, cf.Pair(cf.Int(o.ID), cf.None))
		case "setint":
			ints = append(ints, cf.Pair(cf.Int(o.ID), cf.Some(cf.Z(o.Ver))))
		case "delint":
			ints = append(ints, cf.Pair(cf.Int(o.ID), cf.None))
		}
	}
	return
}

func OptVer(p *int64) cf.T { return cf.Opt(p, func(v int64) cf.T { return cf.Z(v) }) }

// StoredVersion returns the version a retrieved document claims to be, after checking that ALL
// its stored fields are exactly what was indexed for that (id, version); any deviation (a stale
// array element, a field of another document, ...) yields -2, which no model state predicts.
func StoredVersion(d index.Document) int64 {
	v := int64(-1)
	got := map[string][]string{}
	d.VisitFields(func(f index.Field) {
		val := string(f.Value())
		if nf, ok := f.(index.NumericField); ok {
			if x, err := nf.Number(); err == nil {
				val = strconv.FormatFloat(x, 'g', -1, 64)
			}
		}
		got[f.Name()] = append(got[f.Name()], val)
		if f.Name() == "v" {
			if x, e := strconv.ParseInt(val, 10, 64); e == nil {
				v = x
			}
		}
	})
	if v < 0 {
		return v
	}
	want := DocFor(int(DocNum(d.ID())), v)
	exp := map[string][]string{"v": {want.V}, "body": {want.Body}, "tag": {want.Tag}, "n": {strconv.FormatFloat(want.N, 'g', -1, 64)}}
	if len(want.Arr) > 0 {
		exp["arr"] = want.Arr
	}
	if len(got) != len(exp) {
		return -2
	}
	for k, vs := range exp {
		g := got[k]
		if len(g) != len(vs) {
			return -2
		}
		for i := range vs {
			if g[i] != vs[i] {
				return -2
			}
		}
	}
	return v
}

// Reader is what Observe needs; bleve.Index satisfies it.
type Reader interface {
	DocCount() (uint64, error)
	Document(id string) (index.Document, error)
	Search(req *bleve.SearchRequest) (*bleve.SearchResult, error)
	GetInternal(key []byte) ([]byte, error)
}

// DocVersions reads Document(id) for every id of the universe.
func DocVersions(idx Reader, nids int) ([]*int64, error) {
	out := make([]*int64, nids)
	for i := 0; i < nids; i++ {
		d, err := idx.Document(DocName(i))
		if err != nil {
			return nil, err
		}
		if d != nil {
			v := StoredVersion(d)
			out[i] = &v
		}
	}
	return out, nil
}

func DocVersionTerms(vs []*int64) cf.T {
	var ts []cf.T
	for i, v := range vs {
		ts = append(ts, cf.Pair(cf.Int(i), OptVer(v)))
	}
	return cf.List(ts)
}

// Observe takes the full observation of Scorch/Corr.v's [obs].
func Observe(idx Reader, nids, nkeys int) (cf.T, error) {
	cnt, err := idx.DocCount()
	if err != nil {
		return "", err
	}
	vs, err := DocVersions(idx, nids)
	if err != nil {
		return "", err
	}
	req := bleve.NewSearchRequestOptions(bleve.NewMatchAllQuery(), nids+10, 0, false)
	req.Fields = []string{"v"}
	res, err := idx.Search(req)
	if err != nil {
		return "", err
	}
	type hv struct{ id, v int64 }
	var hs []hv
	for _, h := range res.Hits {
		v := int64(-1)
		if s, ok := h.Fields["v"].(string); ok {
			if x, e := strconv.ParseInt(s, 10, 64); e == nil {
				v = x
			}
		}
		hs = append(hs, hv{DocNum(h.ID), v})
	}
	if int(res.Total) != len(hs) {
		hs = append(hs, hv{-1, int64(res.Total)}) // Total disagrees with the hits: make the comparison fail
	}
	sort.Slice(hs, func(a, b int) bool { return hs[a].id < hs[b].id })
	var ids []string
	for i := 0; i < nids; i++ {
		ids = append(ids, DocName(i))
	}
	ids = append(ids, "nosuchdoc")
	res2, err := idx.Search(bleve.NewSearchRequestOptions(bleve.NewDocIDQuery(ids), nids+10, 0, false))
	if err != nil {
		return "", err
	}
	var dq []int
	for _, h := range res2.Hits {
		dq = append(dq, int(DocNum(h.ID)))
	}
	sort.Ints(dq)
	var ints []cf.T
	for k := 0; k < nkeys; k++ {
		v, err := idx.GetInternal([]byte(KeyName(k)))
		if err != nil {
			return "", err
		}
		var vp *int64
		if v != nil {
			x := strace.ValZ(v)
			vp = &x
		}
		ints = append(ints, cf.Pair(cf.Int(k), OptVer(vp)))
	}
	return cf.App("mkObs", cf.U(cnt), DocVersionTerms(vs),
		cf.ListOf(hs, func(h hv) cf.T { return cf.Pair(cf.Z(h.id), cf.Z(h.v)) }),
		cf.ListOf(dq, cf.Int), cf.List(ints)), nil
}

func ForceMerge(idx bleve.Index) {
	if adv, err := idx.Advanced(); err == nil {
		if sc, ok := adv.(*scorch.Scorch); ok {
			ctx, cancel := context.WithTimeout(context.Background(), 20*time.Second)
			_ = sc.ForceMerge(ctx, nil)
			cancel()
		}
	}
}

func Universe(n int) cf.T {
	u := make([]int, n)
	for i := range u {
		u[i] = i
	}
	return cf.ListOf(u, cf.Int)
}

// TraceCase renders the recorded events of one scorch run as a CTrace case and reports how many
// merges (memory, file) and persists it contains.
func TraceCase(rec *strace.Recorder, tg *Tagger, nids int, final []*int64) (term cf.T, memMerges, fileMerges, persists int) {
	evs := strace.Linearize(rec.Events())
	namer := &strace.Namer{DocID: DocNum}
	terms := strace.Terms(evs, namer, tg.VersionOf)
	for _, e := range evs {
		switch e.Kind {
		case "merge_finish":
			if e.FileMerge {
				fileMerges++
			} else {
				memMerges++
			}
		case "persist_intro":
			persists++
		}
	}
	return cf.App("CTrace", Universe(nids), cf.List(terms), DocVersionTerms(final)), memMerges, fileMerges, persists
}
