package sw

// Non-default persister / merge-planner option layouts as an explicit dimension of a Layout
// (Layout.PO / Layout.MP; nil = whatever Layout.Opts says), a seeded generator for them, and two
// schedule helpers for harnesses that want several unpersisted in-memory segments to be in front
// of the persister in ONE round: PersisterGate (holds the persister between two rounds, bounded)
// and WaitPersisted (bounded wait until the root has been persisted).  Neither helper ever
// contributes to a verdict: they only decide which schedule is explored.

import (
	"sync"
	"time"

	"github.com/blevesearch/bleve/v2"
	"github.com/blevesearch/bleve/v2/index/scorch"

	"verifharness/internal/strace"
	"verifharness/internal/vrand"
)

// PersisterOpts are explicit "scorchPersisterOptions" values (zero fields are left at bleve's default).
type PersisterOpts struct {
	Workers        int     `json:"workers,omitempty"`         // NumPersisterWorkers
	MaxMerge       int     `json:"max_merge,omitempty"`       // MaxSizeInMemoryMergePerWorker (bytes; 0 with Workers<=1 = legacy one-shot flush)
	NapMS          int     `json:"nap_ms,omitempty"`          // PersisterNapTimeMSec
	NapUnderFiles  *int    `json:"nap_under_files,omitempty"` // PersisterNapUnderNumFiles
	PauseThreshold *uint64 `json:"pause_threshold,omitempty"` // MemoryPressurePauseThreshold
}

// NonLegacy says whether these options select the flush-set path of persistSnapshotMaybeMerge
// (several flush batches per persister round) rather than the legacy one-shot in-memory merge.
func (p *PersisterOpts) NonLegacy() bool { return p != nil && (p.Workers > 1 || p.MaxMerge > 0) }

// MergePlanOpts are explicit "scorchMergePlanOptions" values (zero fields = bleve's default).
type MergePlanOpts struct {
	MaxSegmentsPerTier   int     `json:"max_per_tier,omitempty"`
	TierGrowth           float64 `json:"tier_growth,omitempty"`
	SegmentsPerMergeTask int     `json:"per_task,omitempty"`
	FloorSegmentSize     int64   `json:"floor,omitempty"`
	MaxSegmentSize       int64   `json:"max_seg,omitempty"`
	ReclaimDeletesWeight float64 `json:"reclaim,omitempty"`
}

func (p *PersisterOpts) config() map[string]interface{} {
	m := map[string]interface{}{}
	if p.Workers > 0 {
		m["NumPersisterWorkers"] = p.Workers
	}
	if p.MaxMerge > 0 {
		m["MaxSizeInMemoryMergePerWorker"] = p.MaxMerge
	}
	if p.NapMS > 0 {
		m["PersisterNapTimeMSec"] = p.NapMS
	}
	if p.NapUnderFiles != nil {
		m["PersisterNapUnderNumFiles"] = *p.NapUnderFiles
	}
	if p.PauseThreshold != nil {
		m["MemoryPressurePauseThreshold"] = *p.PauseThreshold
	}
	return m
}

func (p *MergePlanOpts) config() map[string]interface{} {
	m := map[string]interface{}{}
	if p.MaxSegmentsPerTier > 0 {
		m["MaxSegmentsPerTier"] = p.MaxSegmentsPerTier
	}
	if p.TierGrowth > 0 {
		m["TierGrowth"] = p.TierGrowth
	}
	if p.SegmentsPerMergeTask > 0 {
		m["SegmentsPerMergeTask"] = p.SegmentsPerMergeTask
	}
	if p.FloorSegmentSize > 0 {
		m["FloorSegmentSize"] = p.FloorSegmentSize
	}
	if p.MaxSegmentSize > 0 {
		m["MaxSegmentSize"] = p.MaxSegmentSize
	}
	if p.ReclaimDeletesWeight > 0 {
		m["ReclaimDeletesWeight"] = p.ReclaimDeletesWeight
	}
	return m
}

// GenPersisterOpts draws persister options.  nonLegacy forces the flush-set path (Workers>1 or
// MaxMerge>0); otherwise about half of the draws are legacy (Workers=1, MaxMerge=0) with other
// non-default values.  MaxMerge spans "every two segments form a flush batch" (1 byte) up to
// "several small segments per flush batch" (a few KB; an in-memory segment of 2-4 tiny documents
// reports a Size() of roughly 1-2 KB), and "everything in one batch" (1 MB).
func GenPersisterOpts(r *vrand.R, nonLegacy bool) *PersisterOpts {
	p := &PersisterOpts{}
	if nonLegacy || r.Bool() {
		p.Workers = r.Range(1, 4)
		p.MaxMerge = vrand.Pick(r, []int{1, 1, 1, 600, 2500, 6000, 1 << 20})
	}
	switch r.Intn(4) {
	case 0: // never nap
	case 1:
		p.NapMS = r.Range(1, 8)
	default:
		p.NapMS = r.Range(10, 40)
	}
	if p.NapMS > 0 {
		n := vrand.Pick(r, []int{1000, 1000, 40, 0})
		p.NapUnderFiles = &n
	}
	if r.Chance(1, 6) {
		// memory-pressure threshold so low that the persister sometimes skips the in-memory merge
		// (safe-batch callers waiting for persistence count as "blocking events")
		t := uint64(r.Range(1, 3))
		p.PauseThreshold = &t
	}
	return p
}

// GenMergePlanOpts draws file-merge planner options (small tiers and floors, so that file merges
// happen on indexes of a few tiny segments).
func GenMergePlanOpts(r *vrand.R) *MergePlanOpts {
	if r.Chance(1, 3) {
		return nil
	}
	m := &MergePlanOpts{
		MaxSegmentsPerTier:   r.Range(1, 4),
		SegmentsPerMergeTask: r.Range(2, 5),
		FloorSegmentSize:     vrand.Pick(r, []int64{1, 1, 2, 50}),
	}
	if r.Bool() {
		m.TierGrowth = vrand.Pick(r, []float64{2.0, 3.0, 10.0})
	}
	if r.Chance(1, 4) {
		m.ReclaimDeletesWeight = vrand.Pick(r, []float64{0.5, 2.0, 8.0})
	}
	if r.Chance(1, 5) {
		m.MaxSegmentSize = int64(r.Range(4, 40))
	}
	return m
}

// GenFlushLayout draws an on-disk scorch layout whose persister uses the flush-set path.
func GenFlushLayout(r *vrand.R) Layout {
	return Layout{Config: "scorch-disk", PO: GenPersisterOpts(r, true), MP: GenMergePlanOpts(r)}
}

// PersisterGate can hold the persister of a recorded index between two of its rounds (at the
// "persist_release_waiters" hook point, where the persister holds no lock and has finished its
// previous round), so that what is introduced meanwhile is in front of it all at once.  A hold
// is bounded by maxHold: a schedule aid, never a deadlock (safe-batch callers waiting for
// persistence are released when the hold ends or expires).
type PersisterGate struct {
	mu      sync.Mutex
	held    chan struct{} // non-nil while holding
	maxHold time.Duration
}

// NewPersisterGate chains the gate in front of whatever rec.OnEvent already does.
func NewPersisterGate(rec *strace.Recorder, maxHold time.Duration) *PersisterGate {
	g := &PersisterGate{maxHold: maxHold}
	prev := rec.OnEvent
	rec.OnEvent = func(ev *scorch.VerifEvent) {
		if ev.Kind == "point" && ev.Name == "persist_release_waiters" {
			g.mu.Lock()
			ch := g.held
			g.mu.Unlock()
			if ch != nil {
				select {
				case <-ch:
				case <-time.After(g.maxHold):
				}
			}
		}
		if prev != nil {
			prev(ev)
		}
	}
	return g
}

func (g *PersisterGate) Hold() {
	g.mu.Lock()
	if g.held == nil {
		g.held = make(chan struct{})
	}
	g.mu.Unlock()
}

func (g *PersisterGate) Release() {
	g.mu.Lock()
	if g.held != nil {
		close(g.held)
		g.held = nil
	}
	g.mu.Unlock()
}

// Epochs returns the current root epoch and the last persisted epoch of a scorch index.
func Epochs(idx bleve.Index) (root, persisted uint64, ok bool) {
	sm, _ := idx.StatsMap()["index"].(map[string]interface{})
	if sm == nil {
		return 0, 0, false
	}
	root, ok1 := sm["CurRootEpoch"].(uint64)
	persisted, ok2 := sm["LastPersistedEpoch"].(uint64)
	return root, persisted, ok1 && ok2
}

// WaitPersisted waits (bounded) until the persister has caught up with the root.  Returns whether it did.
func WaitPersisted(idx bleve.Index, max time.Duration) bool {
	deadline := time.Now().Add(max)
	for {
		root, pers, ok := Epochs(idx)
		if !ok {
			return false
		}
		if pers >= root {
			return true
		}
		if time.Now().After(deadline) {
			return false
		}
		time.Sleep(2 * time.Millisecond)
	}
}

// FlushRounds counts, in a recorded run, the persister rounds whose in-memory merge consisted of
// two or more flush batches, and those among them in which some merged segment was already partly
// obsoleted when the round started.
func FlushRounds(rec *strace.Recorder) (multi, multiDrops int) {
	for _, e := range rec.Events() {
		if e.Kind == "merge_start" && !e.FileMerge && len(e.Tasks) >= 2 {
			multi++
			drops := false
			for _, t := range e.Tasks {
				for _, c := range t.Captured {
					drops = drops || len(c.Deleted) > 0
				}
			}
			if drops {
				multiDrops++
			}
		}
	}
	return
}
