package sw

import (
	"path/filepath"

	bolt "go.etcd.io/bbolt"
)

// NamedFiles reads root.bolt (read-only, as a stranger would) and returns the segment file names
// that committed snapshot buckets name, plus the epochs found.
func NamedFiles(storeDir string) (map[string]bool, []uint64, error) {
	db, err := bolt.Open(filepath.Join(storeDir, "root.bolt"), 0o600, &bolt.Options{ReadOnly: true})
	if err != nil {
		return nil, nil, err
	}
	defer db.Close()
	named := map[string]bool{}
	var epochs []uint64
	err = db.View(func(tx *bolt.Tx) error {
		snaps := tx.Bucket([]byte{'s'})
		if snaps == nil {
			return nil
		}
		return snaps.ForEach(func(k, v []byte) error {
			sb := snaps.Bucket(k)
			if sb == nil {
				return nil
			}
			if len(k) > 0 && k[0] == 't' { // trainer bucket
				return nil
			}
			epochs = append(epochs, decodeUvarintAscending(k))
			return sb.ForEach(func(sk, sv []byte) error {
				seg := sb.Bucket(sk)
				if seg == nil {
					return nil
				}
				if p := seg.Get([]byte{'p'}); p != nil {
					named[string(p)] = true
				}
				return nil
			})
		})
	})
	return named, epochs, err
}

// decodeUvarintAscending mirrors index/scorch/int.go (key encoding of epochs and segment ids).
func decodeUvarintAscending(b []byte) uint64 {
	if len(b) == 0 {
		return 0
	}
	const intMin, intMax, intSmall, intZero = 0x80, 0xfd, 109, 136
	length := int(b[0]) - intZero
	b = b[1:]
	if length <= intSmall {
		return uint64(length)
	}
	length -= intSmall
	if length < 0 || length > 8 || len(b) < length {
		return 0
	}
	var v uint64
	for _, t := range b[:length] {
		v = (v << 8) | uint64(t)
	}
	return v
}
