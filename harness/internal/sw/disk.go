package sw

import (
	"fmt"
	"strconv"
	"strings"

	"github.com/blevesearch/bleve/v2/index/scorch"

	cf "verifharness/internal/coqfmt"
	"verifharness/internal/strace"
)

// Note builds a harness-side marker event that travels in the same stream as the hook events.
// Kinds: ack (Args[0] = batch tag), observe (Args = version+1 per doc id, 0 = absent), crash,
// recover, rollback (Args[0] = epoch), bolt_epochs (Args = epochs), copy_end handled by hooks.
func Note(name string, args ...uint64) *scorch.VerifEvent {
	return &scorch.VerifEvent{Kind: "note", Name: name, Args: args}
}

func ObserveNote(vs []*int64) *scorch.VerifEvent {
	args := make([]uint64, len(vs))
	for i, v := range vs {
		if v != nil {
			args[i] = uint64(*v + 1)
		}
	}
	return Note("observe", args...)
}

type ditem struct {
	fileMerge bool     // merge_start / merge abort: file merge (merger goroutine) or in-memory merge (persister)
	files     []uint64 // merge_start: ids of merged segment files already written
	term      cf.T
	epoch     uint64 // for introducer items: the epoch they published
	intro     bool
}

// DiskTerms linearises the full event stream of one or more sessions of a disk-backed scorch
// (hook events + harness notes, in arrival order) into Coq [dtev] terms:
//   - introducer events keep their order;
//   - a merge_start is placed right after the event that published the epoch it captured;
//   - a persist_prepared is never placed before the event that published its epoch (the hook of
//     an introducer step runs just after the root swap, so another goroutine can see the new root
//     a moment before the event is recorded; with BLEVE_VERIF_LOCKED_INTRO=1, which cmd/c03 sets,
//     the introducer reports under rootLock and this - like the segfile_written rule - never fires:
//     the stats deferred_* count how often the rules were needed);
//   - a zap_remove of the output of a merge that is still open waits for that merge's
//     merge_abandoned (the un-marking precedes the hook point in merge.go);
//   - every event is reported synchronously by the goroutine that performed the step, after the
//     step (zap_remove: before it) and before that goroutine's next step, so the stream order of
//     two events of different goroutines can differ from the order of the steps only if the later
//     reported one was performed without a lock shared with the other; the rules above cover the
//     dependencies dstep checks across goroutines.
func DiskTerms(evs []*scorch.VerifEvent, n *strace.Namer, ver strace.VersionOf) (terms []cf.T, stats map[string]int) {
	return DiskTermsWith(evs, n, ver, nil, 0)
}

// IntKeys is the universe of internal keys an "observe_int" / "rollback_points" / "point_state"
// note reports, in order: k0..k(nkeys-1), the batch tag, the index mapping.
func IntKeys(nkeys int) []string {
	var ks []string
	for i := 0; i < nkeys; i++ {
		ks = append(ks, KeyName(i))
	}
	return append(ks, "__b", "_mapping")
}

// IntArgs encodes GetInternal results for IntKeys(nkeys): 0 = absent, else strace.ValZ(value)+1.
func IntArgs(nkeys int, get func(key []byte) []byte) []uint64 {
	var out []uint64
	for _, k := range IntKeys(nkeys) {
		v := get([]byte(k))
		if v == nil {
			out = append(out, 0)
		} else {
			out = append(out, uint64(strace.ValZ(v))+1)
		}
	}
	return out
}

func intPairs(n *strace.Namer, nkeys int, args []uint64) cf.T {
	var ps []cf.T
	for i, k := range IntKeys(nkeys) {
		if i >= len(args) {
			break
		}
		if args[i] == 0 {
			ps = append(ps, cf.Pair(cf.Z(n.Key(k)), cf.None))
		} else {
			ps = append(ps, cf.Pair(cf.Z(n.Key(k)), cf.Some(cf.Z(int64(args[i])-1))))
		}
	}
	return cf.List(ps)
}

func docPairs(args []uint64) cf.T {
	var ds []cf.T
	for i, a := range args {
		if a == 0 {
			ds = append(ds, cf.Pair(cf.Int(i), cf.None))
		} else {
			ds = append(ds, cf.Pair(cf.Int(i), cf.Some(cf.Z(int64(a)-1))))
		}
	}
	return cf.List(ds)
}

// DiskTermsWith is DiskTerms with the generator's view of the submitted batches: a "submit" note
// (Args[0] = batch tag) becomes XSubmit with the calls batchOf returns for that tag (nil batchOf or
// an unknown tag: the note is dropped and the model rejects the tagged introduction).  nkeys is
// the number of k<i> internal keys observations report (see IntKeys).
func DiskTermsWith(evs []*scorch.VerifEvent, n *strace.Namer, ver strace.VersionOf, batchOf func(tag uint64) ([]Op, bool), nkeys int) (terms []cf.T, stats map[string]int) {
	stats = map[string]int{}
	var out []ditem
	sessionStart := 0              // index in out where the current session begins
	published := map[uint64]bool{} // epochs published in this session
	type pend struct {
		it    ditem
		after uint64
		merge bool
	}
	var pending []pend
	mergedWritten := map[uint64]bool{}
	// while a persist_prepared waits for the event that published its epoch, everything that
	// follows it on other goroutines (commit, acks, purges, ...) waits behind it, in order
	var held []ditem
	holding := false
	var holdDone func() bool       // true once the awaited event has been placed
	knownSids := map[uint64]bool{} // segment ids allocated by events placed so far
	// new segment ids of merges that have started and have neither been introduced nor abandoned
	openMerges := map[uint64]bool{}
	awaitedAbort := uint64(0) // != 0: the hold waits for the merge_abandoned of this segment id
	release := func() {
		if holding && holdDone() {
			out = append(out, held...)
			held = nil
			holding = false
			awaitedAbort = 0
		}
	}
	push := func(it ditem) {
		if holding {
			held = append(held, it)
		} else {
			out = append(out, it)
		}
	}
	insertAfterCreator := func(it ditem, ep uint64) {
		// after the creator of ep and after merge_starts already placed there
		pos := sessionStart
		for i := len(out) - 1; i >= sessionStart; i-- {
			if out[i].intro && out[i].epoch == ep {
				pos = i + 1
				break
			}
		}
		for pos < len(out) && !out[pos].intro && strings.HasPrefix(string(out[pos].term), "(XCore (TMergeStart") {
			pos++
		}
		// ... but never before an earlier step of the merging goroutine itself: a merge that was
		// abandoned before this one was planned
		for i := len(out) - 1; i >= pos; i-- {
			if strings.HasPrefix(string(out[i].term), "(XMergeAbort") && out[i].fileMerge == it.fileMerge {
				pos = i + 1
				break
			}
		}
		out = append(out, ditem{})
		copy(out[pos+1:], out[pos:])
		out[pos] = it
	}
	flush := func() {
		var keep []pend
		for _, p := range pending {
			if published[p.after] {
				if p.merge {
					insertAfterCreator(p.it, p.after)
					for _, id := range p.it.files {
						out = append(out, ditem{term: cf.App("XFile", cf.U(id))})
						stats["file"]++
					}
				} else {
					out = append(out, p.it)
				}
			} else {
				keep = append(keep, p)
			}
		}
		pending = keep
	}
	hasCreator := func(ep uint64) bool {
		if published[ep] {
			return true
		}
		return false
	}
	initialEpoch := uint64(0)
	haveInitial := true // a fresh index starts at epoch 0 with an empty root
	for _, e := range evs {
		switch e.Kind {
		case "introduce", "merge_finish", "persist_intro":
			t, _ := strace.TermOf(e, n, ver)
			out = append(out, ditem{term: cf.App("XCore", t), epoch: e.Epoch, intro: true})
			published[e.Epoch] = true
			stats[e.Kind]++
			flush()
			if e.Kind == "introduce" && e.NewSegID != 0 {
				knownSids[e.NewSegID] = true
			}
			if e.Kind == "merge_finish" {
				for _, task := range e.Tasks {
					delete(openMerges, task.New)
				}
			}
			release()
		case "merge_start":
			t, _ := strace.TermOf(e, n, ver)
			it := ditem{term: cf.App("XCore", t), fileMerge: e.FileMerge}
			stats["merge_start"]++
			// the merged files were written before this event; the model learns the new segment ids
			// from TMergeStart, so their XFile events follow it (a merged file whose merge is never
			// handed to the introducer is garbage the model need not know about)
			for _, task := range e.Tasks {
				knownSids[task.New] = true
				openMerges[task.New] = true
				if mergedWritten[task.New] {
					it.files = append(it.files, task.New)
					delete(mergedWritten, task.New)
				}
			}
			if hasCreator(e.Epoch) || (haveInitial && e.Epoch == initialEpoch) {
				insertAfterCreator(it, e.Epoch)
				for _, id := range it.files {
					out = append(out, ditem{term: cf.App("XFile", cf.U(id))})
					stats["file"]++
				}
			} else {
				pending = append(pending, pend{it, e.Epoch, true})
				stats["deferred_merge_start"]++
			}
		case "persist_prepared":
			var ints []cf.T
			for k, v := range e.Internal {
				if k == "TotBytesWritten" {
					continue // statistics counter the persister adds to every bucket; not index content
				}
				ints = append(ints, cf.Pair(cf.Z(n.Key(k)), cf.Z(strace.ValZ(v))))
			}
			it := ditem{term: cf.App("XPrepare", cf.U(e.Epoch), strace.ProjTerm(e.Root), cf.List(ints))}
			stats["prepare"]++
			if holding || hasCreator(e.Epoch) || (haveInitial && e.Epoch == initialEpoch) {
				push(it)
			} else {
				ep := e.Epoch
				holding = true
				holdDone = func() bool { return published[ep] }
				held = append(held, it)
				stats["deferred_prepare"]++
			}
		case "copy_start":
			push(ditem{term: "XCopyStart"})
			stats["copy"]++
		case "copy_end":
			var ids []uint64
			for _, s := range e.Root {
				ids = append(ids, s.ID)
			}
			push(ditem{term: cf.App("XCopyEnd", cf.ListOf(ids, cf.U))})
		case "point":
			switch e.Name {
			case "segfile_written":
				if len(e.Args) > 0 {
					sid := e.Args[0]
					it := ditem{term: cf.App("XFile", cf.U(sid))}
					stats["file"]++
					if holding || knownSids[sid] {
						push(it)
					} else {
						// the persister wrote the file of a segment whose introduction has not been
						// logged yet (the introducer's hook runs just after the root swap)
						holding = true
						holdDone = func() bool { return knownSids[sid] }
						held = append(held, it)
						stats["deferred_segfile"]++
					}
				}
			case "memmerge_written", "filemerge_written":
				if len(e.Args) > 0 {
					mergedWritten[e.Args[0]] = true
				}
			case "merge_abandoned":
				if len(e.Args) > 0 {
					it := ditem{term: cf.App("XMergeAbort", cf.U(e.Args[0])), fileMerge: len(e.Args) > 1 && e.Args[1] == 1}
					delete(openMerges, e.Args[0])
					stats["merge_abandoned"]++
					if holding && awaitedAbort == e.Args[0] {
						// the purger already acted on this abandonment (see zap_remove): it took effect
						// before the removal that is waiting for it
						out = append(out, it)
						release()
					} else {
						push(it)
					}
				}
			case "persist_before_commit":
				push(ditem{term: "XCommitIntent"})
			case "purge_bolt_begin":
				push(ditem{term: cf.App("XPurgeIntent", cf.ListOf(e.Args, cf.U))})
			case "persist_committed":
				push(ditem{term: "XCommit"})
				stats["commit"]++
			case "purge_bolt_committed":
				push(ditem{term: cf.App("XPurge", cf.ListOf(e.Args, cf.U))})
				stats["purge"]++
			case "zap_remove":
				if len(e.IDs) > 0 {
					id, err := strconv.ParseUint(strings.TrimSuffix(e.IDs[0], ".zap"), 16, 64)
					if err == nil {
						it := ditem{term: cf.App("XRemoveZap", cf.U(id))}
						stats["zap_remove"]++
						if !holding && openMerges[id] {
							// the output of a merge that is still open is being removed: the merging
							// goroutine has un-marked the file (merge.go: unmarkIneligibleForRemoval is
							// called BEFORE the merge_abandoned hook point), the purger saw that under
							// rootLock and got here first.  The removal waits for the abandonment (or,
							// if the merge is introduced after all, for that: then the model rejects it).
							mid := id
							holding = true
							awaitedAbort = mid
							holdDone = func() bool { return !openMerges[mid] }
							held = append(held, it)
							stats["deferred_zap_remove"]++
						} else {
							push(it)
						}
					}
				}
			}
		case "note":
			switch e.Name {
			case "submit":
				// declared before the batch reaches the introducer (whose events are never held back)
				if batchOf != nil && len(e.Args) > 0 {
					if ops, ok := batchOf(e.Args[0]); ok {
						docs, ints := OpsTerms(ops)
						ints = append(ints, cf.Pair(cf.Z(n.Key("__b")), cf.Some(cf.U(e.Args[0]))))
						out = append(out, ditem{term: cf.App("XSubmit", cf.U(e.Args[0]), cf.List(docs), cf.List(ints))})
						stats["submit"]++
					}
				}
			case "observe_int":
				push(ditem{term: cf.App("XObserveInt", intPairs(n, nkeys, e.Args))})
				stats["observe_int"]++
			case "rollback_points":
				// Args: per point its epoch followed by len(IntKeys(nkeys)) encoded values
				w := len(IntKeys(nkeys)) + 1
				var pts []cf.T
				for i := 0; i+w <= len(e.Args); i += w {
					pts = append(pts, cf.Pair(cf.U(e.Args[i]), intPairs(n, nkeys, e.Args[i+1:i+w])))
				}
				out = append(out, ditem{term: cf.App("XRollbackPoints", cf.List(pts))})
				stats["rollback_points"]++
			case "point_state":
				// Args: epoch, number of documents, their versions (+1, 0 = absent), internal values
				if len(e.Args) >= 2 && int(e.Args[1])+2 <= len(e.Args) {
					nd := int(e.Args[1])
					out = append(out, ditem{term: cf.App("XPointState", cf.U(e.Args[0]), docPairs(e.Args[2:2+nd]), intPairs(n, nkeys, e.Args[2+nd:]))})
					stats["point_state"]++
				}
			case "point_write":
				// Args: epoch, new segment id (0 = none), number of documents, their versions afterwards;
				// the calls of the batch that was written are batchOf(^0)
				if batchOf != nil && len(e.Args) >= 3 && int(e.Args[2])+3 <= len(e.Args) {
					ops, _ := batchOf(^uint64(0))
					docs, _ := OpsTerms(ops)
					out = append(out, ditem{term: cf.App("XPointWrite", cf.U(e.Args[0]), cf.U(e.Args[1]), cf.List(docs), docPairs(e.Args[3:3+int(e.Args[2])]))})
					stats["point_write"]++
				}
			case "ack":
				push(ditem{term: cf.App("XAck", cf.U(e.Args[0]))})
				stats["ack"]++
			case "observe":
				var ds []cf.T
				for i, a := range e.Args {
					if a == 0 {
						ds = append(ds, cf.Pair(cf.Int(i), cf.None))
					} else {
						ds = append(ds, cf.Pair(cf.Int(i), cf.Some(cf.Z(int64(a)-1))))
					}
				}
				push(ditem{term: cf.App("XObserve", cf.List(ds))})
			case "crash":
				// events still waiting for their epoch never happened as far as the disk is concerned
				pending = nil
				held = nil
				holding = false
				awaitedAbort = 0
				openMerges = map[uint64]bool{}
				mergedWritten = map[uint64]bool{}
				out = append(out, ditem{term: "XCrash"})
				stats["crash"]++
			case "recover":
				// put in front of the session's events by the parent process (which read the newest
				// snapshot epoch off root.bolt while the index was closed): the background goroutines
				// of a reopened index emit events before Open returns to the child's main goroutine
				pos := len(out)
				for i := len(out) - 1; i >= 0; i-- {
					if out[i].term == "XCrash" {
						pos = i + 1
						break
					}
				}
				// an offline Rollback happens between the end of the process and the reopen
				// (as do the listing of the rollback points and the look at each of them)
				for pos < len(out) && (strings.HasPrefix(string(out[pos].term), "(XRollback") || strings.HasPrefix(string(out[pos].term), "(XPoint")) {
					pos++
				}
				out = append(out, ditem{})
				copy(out[pos+1:], out[pos:])
				out[pos] = ditem{term: "XRecover"}
				sessionStart = pos + 1
				// a new life of the process: segment ids restart above the largest id on disk, so
				// ids that were allocated before the crash but never reached the disk can be reused
				knownSids = map[uint64]bool{}
				published = map[uint64]bool{}
				haveInitial = false
				if len(e.Args) > 0 {
					initialEpoch = e.Args[0]
					haveInitial = true
				}
			case "rollback":
				out = append(out, ditem{term: cf.App("XRollback", cf.U(e.Args[0]))})
			// observations made by harness goroutines keep their place in the stream: while events
			// are held back they wait behind them (what they saw includes the held steps)
			case "unsettled":
				stats["unsettled"]++
			case "bolt_epochs":
				push(ditem{term: cf.App("XBoltEpochs", cf.ListOf(e.Args, cf.U))})
				stats["bolt_epochs"]++
			case "dir_begin":
				push(ditem{term: "XDirBegin"})
			case "dir_end":
				push(ditem{term: cf.App("XDirEnd", cf.ListOf(e.Args, cf.U))})
				stats["listing"]++
			case "quiescent":
				push(ditem{term: cf.App("XQuiescent", cf.ListOf(e.Args, cf.U))})
				stats["quiescent"]++
			case "copy_dest":
				var ds []cf.T
				for i, a := range e.Args[1:] {
					if a == 0 {
						ds = append(ds, cf.Pair(cf.Int(i), cf.None))
					} else {
						ds = append(ds, cf.Pair(cf.Int(i), cf.Some(cf.Z(int64(a)-1))))
					}
				}
				push(ditem{term: cf.App("XCopyDest", cf.U(e.Args[0]), cf.List(ds))})
			}
		}
	}
	for _, p := range pending { // should not happen; keep them so that the model rejects visibly
		out = append(out, p.it)
		stats["unplaced"]++
	}
	for _, it := range out {
		terms = append(terms, it.term)
	}
	_ = fmt.Sprint
	return terms, stats
}
