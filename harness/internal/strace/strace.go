// Package strace records the event traces emitted by the verif-tagged scorch (T3) and
// renders them as Coq [tev] terms for Scorch/Corr.v.
package strace

import (
	"hash/fnv"
	"os"
	"strings"
	"sort"
	"strconv"
	"sync"

	"github.com/blevesearch/bleve/v2/index/scorch"

	cf "verifharness/internal/coqfmt"
)

type Recorder struct {
	Path string
	mu   sync.Mutex
	evs  []*scorch.VerifEvent
	// OnEvent, if set, is called synchronously for every event of this path (after recording).
	OnEvent func(ev *scorch.VerifEvent)
}

var (
	once sync.Once
	regM sync.RWMutex
	reg  = map[string]*Recorder{}
)

func dispatch(ev *scorch.VerifEvent) {
	regM.RLock()
	r := reg[ev.Path]
	if r == nil {
		// a bleve index at <path> keeps its scorch store under <path>/store
		r = reg[strings.TrimSuffix(ev.Path, string(os.PathSeparator)+"store")]
	}
	regM.RUnlock()
	if r == nil {
		return
	}
	r.mu.Lock()
	r.evs = append(r.evs, ev)
	cb := r.OnEvent
	r.mu.Unlock()
	if cb != nil {
		cb(ev)
	}
}

// Start begins recording the events of the scorch index at path.
func Start(path string) *Recorder {
	once.Do(func() { scorch.VerifSetController(dispatch) })
	r := &Recorder{Path: path}
	regM.Lock()
	reg[path] = r
	regM.Unlock()
	return r
}

func (r *Recorder) Stop() {
	regM.Lock()
	delete(reg, r.Path)
	regM.Unlock()
}

func (r *Recorder) Events() []*scorch.VerifEvent {
	r.mu.Lock()
	defer r.mu.Unlock()
	return append([]*scorch.VerifEvent{}, r.evs...)
}

// Linearize orders the introducer events as they happened and places every merge_start right
// after the event that published the root epoch it captured (its linearization point: the
// merge works on the snapshot taken then).  "point" events are dropped.
func Linearize(evs []*scorch.VerifEvent) []*scorch.VerifEvent {
	var intro, starts []*scorch.VerifEvent
	for _, e := range evs {
		switch e.Kind {
		case "introduce", "merge_finish", "persist_intro":
			intro = append(intro, e)
		case "merge_start":
			starts = append(starts, e)
		}
	}
	var out []*scorch.VerifEvent
	used := make([]bool, len(starts))
	emitStarts := func(pred func(e *scorch.VerifEvent) bool) {
		for i, s := range starts {
			if !used[i] && pred(s) {
				out = append(out, s)
				used[i] = true
			}
		}
	}
	first := uint64(0)
	if len(intro) > 0 {
		first = intro[0].Epoch
	}
	emitStarts(func(e *scorch.VerifEvent) bool { return e.Epoch < first || len(intro) == 0 })
	for _, e := range intro {
		out = append(out, e)
		ep := e.Epoch
		emitStarts(func(s *scorch.VerifEvent) bool { return s.Epoch == ep })
	}
	emitStarts(func(*scorch.VerifEvent) bool { return true })
	return out
}

// Namer maps external strings to the integers the Coq model uses.
type Namer struct {
	DocID func(string) int64 // document id -> Z
	keys  map[string]int64
}

func (n *Namer) Key(k string) int64 {
	if n.keys == nil {
		n.keys = map[string]int64{}
	}
	if v, ok := n.keys[k]; ok {
		return v
	}
	if k == "__b" {
		n.keys[k] = 999 // Scorch/DiskCorr.v tag_key
		return 999
	}
	if len(k) > 1 && k[0] == 'k' {
		if i, err := strconv.Atoi(k[1:]); err == nil {
			n.keys[k] = int64(i)
			return int64(i)
		}
	}
	v := int64(1000 + len(n.keys))
	n.keys[k] = v
	return v
}

func ValZ(v []byte) int64 {
	if i, err := strconv.ParseInt(string(v), 10, 62); err == nil {
		return i
	}
	h := fnv.New32a()
	h.Write(v)
	return int64(h.Sum32()) + (1 << 40)
}

func projTerm(root []scorch.VerifSeg) cf.T {
	return cf.ListOf(root, func(s scorch.VerifSeg) cf.T {
		return cf.Tuple(cf.U(s.ID), cf.U(s.Count), delTerm(s.Deleted), cf.Bool(s.File != ""))
	})
}

func delTerm(d []uint32) cf.T {
	return cf.ListOf(d, func(x uint32) cf.T { return cf.Nat(int(x)) })
}

// Version lookup: which version of doc id the batch of an "introduce" event wrote.
type VersionOf func(ev *scorch.VerifEvent, docID string) (ver int64, ok bool)

// Terms renders a linearized trace as Coq [tev] terms.
func Terms(evs []*scorch.VerifEvent, n *Namer, ver VersionOf) []cf.T {
	var out []cf.T
	for _, e := range evs {
		if t, ok := TermOf(e, n, ver); ok {
			out = append(out, t)
		}
	}
	return out
}

// TermOf renders one introducer / merge_start event as a Coq [tev] term.
func TermOf(e *scorch.VerifEvent, n *Namer, ver VersionOf) (cf.T, bool) {
	switch e.Kind {
	case "introduce":
		// batch in the order the model needs: updates in new-segment doc-number order, then deletes
		var b []cf.T
		inNew := map[string]bool{}
		for _, id := range e.NewDocIDs {
			inNew[id] = true
			v, _ := ver(e, id)
			b = append(b, cf.Pair(cf.Z(n.DocID(id)), cf.Some(cf.Z(v))))
		}
		ids := append([]string{}, e.IDs...)
		sort.Strings(ids)
		for _, id := range ids {
			if !inNew[id] {
				b = append(b, cf.Pair(cf.Z(n.DocID(id)), cf.None))
			}
		}
		var iops []cf.T
		var ks []string
		for k := range e.Internal {
			if k != "TotBytesWritten" {
				ks = append(ks, k)
			}
		}
		sort.Strings(ks)
		for _, k := range ks {
			iops = append(iops, cf.Pair(cf.Z(n.Key(k)), cf.Some(cf.Z(ValZ(e.Internal[k])))))
		}
		for _, k := range e.IntDel {
			iops = append(iops, cf.Pair(cf.Z(n.Key(k)), cf.None))
		}
		return cf.App("TIntroduce", cf.U(e.NewSegID), cf.List(b), cf.List(iops), ProjTerm(e.Root), offsTerm(e.Root)), true
	case "merge_start":
		var gs []cf.T
		for _, t := range e.Tasks {
			caps := cf.ListOf(t.Captured, func(s scorch.VerifSeg) cf.T { return cf.Pair(cf.U(s.ID), delTerm(s.Deleted)) })
			gs = append(gs, cf.Pair(cf.U(t.New), caps))
		}
		return cf.App("TMergeStart", cf.Bool(e.FileMerge), cf.List(gs)), true
	case "merge_finish":
		var news []cf.T
		for _, t := range e.Tasks {
			news = append(news, cf.U(t.New))
		}
		return cf.App("TMergeFinish", cf.List(news), ProjTerm(e.Root), offsTerm(e.Root)), true
	case "persist_intro":
		return cf.App("TPersist", cf.ListOf(e.Persisted, cf.U), ProjTerm(e.Root), offsTerm(e.Root)), true
	}
	return "", false
}

func ProjTerm(root []scorch.VerifSeg) cf.T { return projTerm(root) }

func offsTerm(root []scorch.VerifSeg) cf.T {
	return cf.ListOf(root, func(s scorch.VerifSeg) cf.T { return cf.U(s.Offset) })
}
