// C20 correspondence harness: documents with arrays of objects, indexed on scorch with the
// arrays mapped `nested` and with a flat mapping, through an update/delete history; the forest
// of document numbers read back through NestedReader.Ancestors; Index.Search / DocCount /
// Document observed.  The oracle (last-write-wins replay, sem_nested, sem_flat, the mechanism
// model, flatten) is the Coq side (Nested/Corr.v); nothing here computes an expected answer.
package main

import (
	"context"
	"fmt"
	"os"
	"sort"
	"strconv"
	"strings"
	"time"

	"github.com/blevesearch/bleve/v2"
	"github.com/blevesearch/bleve/v2/index/scorch"
	"github.com/blevesearch/bleve/v2/mapping"
	"github.com/blevesearch/bleve/v2/search/query"
	index "github.com/blevesearch/bleve_index_api"

	cf "verifharness/internal/coqfmt"
	"verifharness/internal/vh"
	"verifharness/internal/vrand"
)

// ---- documents (fixed schema; every field is a list of keyword terms) ----

type Sub struct {
	K []string `json:"k"`
	V []string `json:"v"`
}
type Item struct {
	Color []string `json:"color"`
	Size  []string `json:"size"`
	Subs  []Sub    `json:"subs"`
}
type Part struct {
	Name []string `json:"name"`
	Qty  []string `json:"qty"`
}

// array whose NAME extends the name of the array "items" (kind prefixname)
type ItemY struct {
	W []string `json:"w"`
}
type Doc struct {
	Top        []string `json:"top"`
	Tag        []string `json:"tag"`
	ItemsX     []string `json:"itemsx,omitempty"` // top-level field whose name extends "items"
	Items      []Item   `json:"items"`
	Parts      []Part   `json:"parts"`
	ItemsY     []ItemY  `json:"itemsy,omitempty"`
	PartsFirst bool     `json:"parts_first,omitempty"` // order in which the two sibling arrays are walked
	ViaMap     bool     `json:"via_map,omitempty"`     // hand the document over as map[string]interface{} (JSON style)
}

// struct forms: walkDocument visits struct fields in declaration order, so the layout of the
// sub-documents is determined by the input (a Go map would be walked in random key order)
type docItemsFirst struct {
	Top    []string `json:"top"`
	Tag    []string `json:"tag"`
	ItemsX []string `json:"itemsx"`
	Items  []Item   `json:"items"`
	Parts  []Part   `json:"parts"`
	ItemsY []ItemY  `json:"itemsy"`
}
type docPartsFirst struct {
	Top    []string `json:"top"`
	Tag    []string `json:"tag"`
	ItemsX []string `json:"itemsx"`
	Parts  []Part   `json:"parts"`
	Items  []Item   `json:"items"`
	ItemsY []ItemY  `json:"itemsy"`
}

type Op struct {
	Del bool `json:"del,omitempty"`
	ID  int  `json:"id"`
	Doc *Doc `json:"doc,omitempty"`
}

type Q struct {
	K       string   `json:"k"` // term | conj | disj | bool | all
	P       []string `json:"p,omitempty"`
	F       string   `json:"f,omitempty"`
	T       string   `json:"t,omitempty"`
	Qs      []Q      `json:"qs,omitempty"`
	Min     int      `json:"min,omitempty"`
	Must    []Q      `json:"must,omitempty"`
	Should  []Q      `json:"should,omitempty"`
	MustNot []Q      `json:"must_not,omitempty"`
}

type In struct {
	Kind      string `json:"kind"` // ws | xdepth | sibling | disjmin | mustnotonly | prefixname
	ModelOnly bool   `json:"model_only,omitempty"`
	Disk      bool   `json:"disk,omitempty"`
	Opts      int    `json:"opts,omitempty"`
	Reopen    bool   `json:"reopen,omitempty"`
	SortID    bool   `json:"sort_id,omitempty"`
	NIDs      int    `json:"nids"`
	Batches   [][]Op `json:"batches"`
	Merge     []bool `json:"merge,omitempty"` // force merge after batch i (disk)
	Queries   []Q    `json:"queries"`
}

// ---- generation ----

var vocab = map[string][]string{
	"top": {"x", "y"}, "tag": {"t", "u"},
	"color": {"red", "blue"}, "size": {"s", "m"},
	"k": {"a", "b"}, "v": {"1", "2"},
	"name": {"n1", "n2"}, "qty": {"q1", "q2"},
	"itemsx": {"p", "q"}, "w": {"g", "h"},
}

func vals(r *vrand.R, f string) []string {
	v := vocab[f]
	switch r.Intn(7) {
	case 0:
		return nil // missing field
	case 1:
		return []string{v[0], v[1]} // multi-valued
	default:
		return []string{vrand.Pick(r, v)}
	}
}

func count(r *vrand.R, max int) int {
	// 0, 1 and many, biased to small
	switch r.Intn(6) {
	case 0:
		return 0
	case 1, 2:
		return 1
	default:
		return r.Range(2, max)
	}
}

func genDoc(r *vrand.R, prefixNames bool) *Doc {
	d := &Doc{Top: vals(r, "top"), Tag: vals(r, "tag"), PartsFirst: r.Bool()}
	if prefixNames {
		d.ItemsX = vals(r, "itemsx")
		for i := count(r, 2); i > 0; i-- {
			d.ItemsY = append(d.ItemsY, ItemY{W: vals(r, "w")})
		}
	}
	for i := count(r, 3); i > 0; i-- {
		it := Item{Color: vals(r, "color"), Size: vals(r, "size")}
		if r.Chance(2, 3) {
			for j := count(r, 2); j > 0; j-- {
				it.Subs = append(it.Subs, Sub{K: vals(r, "k"), V: vals(r, "v")})
			}
		}
		d.Items = append(d.Items, it)
	}
	if r.Chance(2, 3) {
		for i := count(r, 2); i > 0; i-- {
			d.Parts = append(d.Parts, Part{Name: vals(r, "name"), Qty: vals(r, "qty")})
		}
	}
	// a map is walked in random key order: only when at most one sibling array has elements
	nonEmpty := 0
	for _, n := range []int{len(d.Items), len(d.Parts), len(d.ItemsY)} {
		if n > 0 {
			nonEmpty++
		}
	}
	d.ViaMap = nonEmpty <= 1 && r.Chance(1, 3)
	return d
}

type leafSpec struct {
	p []string
	f string
}

var topLeaves = []leafSpec{{nil, "top"}, {nil, "tag"}}
var itemLeaves = []leafSpec{{[]string{"items"}, "color"}, {[]string{"items"}, "size"}}
var subLeaves = []leafSpec{{[]string{"items", "subs"}, "k"}, {[]string{"items", "subs"}, "v"}}
var partLeaves = []leafSpec{{[]string{"parts"}, "name"}, {[]string{"parts"}, "qty"}}
var nestedGroups = [][]leafSpec{itemLeaves, subLeaves, partLeaves}
var itemsXLeaf = leafSpec{nil, "itemsx"}
var itemsYLeaf = leafSpec{[]string{"itemsy"}, "w"}

func term(r *vrand.R, l leafSpec) Q {
	t := vrand.Pick(r, vocab[l.f])
	if r.Chance(1, 25) {
		t = "zz" // absent term
	}
	return Q{K: "term", P: l.p, F: l.f, T: t}
}

func termsOf(r *vrand.R, group []leafSpec, n int) []Q {
	var qs []Q
	for i := 0; i < n; i++ {
		qs = append(qs, term(r, group[i%len(group)]))
	}
	return qs
}

func anyLeaf(r *vrand.R, topOnly bool) Q {
	if topOnly || r.Chance(1, 4) {
		return term(r, vrand.Pick(r, topLeaves))
	}
	return term(r, vrand.Pick(r, vrand.Pick(r, nestedGroups)))
}

// sameArrayConj: a conjunction all of whose conjuncts address fields of one array
func sameArrayConj(r *vrand.R) Q {
	switch r.Intn(5) {
	case 0: // one items element: a field of its own and one of its sub-array
		return Q{K: "conj", Qs: []Q{term(r, vrand.Pick(r, itemLeaves)), term(r, vrand.Pick(r, subLeaves))}}
	case 1: // conjunct is itself a small disjunction over the same array
		g := vrand.Pick(r, nestedGroups)
		return Q{K: "conj", Qs: []Q{{K: "disj", Min: r.Intn(2), Qs: []Q{term(r, g[0]), term(r, g[0])}}, term(r, g[1])}}
	default:
		g := vrand.Pick(r, nestedGroups)
		return Q{K: "conj", Qs: termsOf(r, g, r.Range(2, 3))}
	}
}

// genWS: queries on which raw-number evaluation is per parent (Model.wellscoped)
func genWS(r *vrand.R, depth int, topOnly bool) Q {
	if depth <= 0 {
		return anyLeaf(r, topOnly)
	}
	sub := func(n int, to bool) []Q {
		var qs []Q
		for i := 0; i < n; i++ {
			qs = append(qs, genWS(r, depth-1, to))
		}
		return qs
	}
	switch r.Intn(10) {
	case 0:
		return anyLeaf(r, topOnly)
	case 1:
		if topOnly {
			return anyLeaf(r, true)
		}
		if r.Chance(1, 3) {
			return Q{K: "all"}
		}
		return sameArrayConj(r)
	case 2, 3:
		if topOnly {
			return Q{K: "conj", Qs: sub(2, true)}
		}
		// a nested conjunction as a clause of a larger query
		qs := []Q{sameArrayConj(r)}
		qs = append(qs, sub(r.Range(1, 2), false)...)
		vrand.Shuffle(r, qs)
		if r.Bool() {
			return Q{K: "conj", Qs: qs}
		}
		return Q{K: "disj", Min: r.Intn(2), Qs: qs}
	case 4:
		return Q{K: "conj", Qs: sub(r.Range(1, 3), topOnly)}
	case 5:
		return Q{K: "disj", Min: r.Intn(2), Qs: sub(r.Range(1, 3), topOnly)}
	case 6:
		n := r.Range(2, 3)
		return Q{K: "disj", Min: r.Range(2, n), Qs: sub(n, true)}
	case 7: // must + optional should
		return Q{K: "bool", Must: sub(r.Range(1, 2), topOnly), Should: sub(r.Intn(3), topOnly)}
	case 8: // should only
		return Q{K: "bool", Should: sub(r.Range(1, 3), topOnly), Min: r.Intn(2)}
	default: // every clause kind, top-level fields only
		q := Q{K: "bool", Must: sub(r.Intn(3), true), Should: sub(r.Intn(3), true), MustNot: sub(r.Range(1, 2), true)}
		if len(q.Should) > 0 {
			q.Min = r.Intn(len(q.Should) + 1)
		}
		if len(q.Must) == 0 && len(q.Should) == 0 {
			q.Must = sub(1, true)
		}
		return q
	}
}

type scope struct {
	depth  int
	leaves []leafSpec
}

var scopes = []scope{{0, topLeaves}, {1, itemLeaves}, {2, subLeaves}, {1, partLeaves}}

func clauseIn(r *vrand.R, s scope) Q {
	if s.depth > 0 && r.Bool() {
		return Q{K: "conj", Qs: termsOf(r, s.leaves, 2)}
	}
	return term(r, vrand.Pick(r, s.leaves))
}

func wrap(r *vrand.R, q Q) Q {
	switch r.Intn(5) {
	case 0:
		return Q{K: "conj", Qs: []Q{term(r, vrand.Pick(r, topLeaves)), q}}
	case 1:
		return Q{K: "disj", Qs: []Q{q, term(r, vrand.Pick(r, topLeaves))}}
	}
	return q
}

// boolean node whose must clause addresses scope a and whose must-not / required should
// addresses scope b
func crossBool(r *vrand.R, a, b scope) Q {
	q := Q{K: "bool", Must: []Q{clauseIn(r, a)}}
	if r.Chance(2, 3) {
		q.MustNot = []Q{clauseIn(r, b)}
	} else {
		q.Should = []Q{clauseIn(r, b)}
		q.Min = 1
	}
	return q
}

func genFinding(r *vrand.R, kind string) Q {
	switch kind {
	case "xdepth":
		for {
			a, b := vrand.Pick(r, scopes), vrand.Pick(r, scopes)
			if a.depth != b.depth {
				return wrap(r, crossBool(r, a, b))
			}
		}
	case "sibling":
		if r.Bool() {
			return wrap(r, crossBool(r, scopes[1], scopes[3]))
		}
		return wrap(r, crossBool(r, scopes[3], scopes[1]))
	case "disjmin":
		for {
			n := r.Range(2, 3)
			var qs []Q
			seen := map[string]bool{}
			for i := 0; i < n; i++ {
				s := vrand.Pick(r, scopes)
				seen[strings.Join(s.leaves[0].p, ".")] = true
				qs = append(qs, clauseIn(r, s))
			}
			if len(seen) < 2 {
				continue
			}
			min := r.Range(2, n)
			if r.Bool() {
				return wrap(r, Q{K: "disj", Min: min, Qs: qs})
			}
			return wrap(r, Q{K: "bool", Should: qs, Min: min})
		}
	case "prefixname":
		// a clause on the array "items" combined with one on a field / array whose name merely
		// starts with "items"
		a := clauseIn(r, vrand.Pick(r, []scope{scopes[1], scopes[2]}))
		other := itemsXLeaf
		if r.Bool() {
			other = itemsYLeaf
		}
		qs := []Q{a, term(r, other)}
		if r.Chance(1, 3) {
			qs = append(qs, anyLeaf(r, true))
		}
		vrand.Shuffle(r, qs)
		if r.Chance(1, 4) {
			return Q{K: "bool", Must: qs}
		}
		return wrap(r, Q{K: "conj", Qs: qs})
	default: // mustnotonly
		q := Q{K: "bool", MustNot: []Q{clauseIn(r, vrand.Pick(r, scopes))}}
		if r.Chance(1, 4) {
			q.MustNot = append(q.MustNot, clauseIn(r, vrand.Pick(r, scopes)))
		}
		if r.Chance(1, 4) {
			q.Must = []Q{{K: "all"}}
		}
		return wrap(r, q)
	}
}

// ---- kind adv / advmin: a nested conjunction that is Advance()d by an enclosing searcher ----
//
// A corpus of 8-14 parents in which one "hot" value per field is frequent, so that elements that
// satisfy a same-chain conjunction completely (often two in a row), parents that hold all its
// terms but in DIFFERENT elements (at the first and at the second nesting level) and partial
// ones are interleaved; top-level fields are sparse, so that an enclosing conjunction / boolean /
// disjunction skips over parents and Advance()s the nested conjunction.

type hotSpec map[string]string // field -> its frequent value

func (h hotSpec) cold(f string) string {
	v := vocab[f]
	if v[0] == h[f] {
		return v[1]
	}
	return v[0]
}

// value of field f in an element: hit = holds the hot value
func (h hotSpec) val(r *vrand.R, f string, hit bool) []string {
	if hit {
		if r.Chance(1, 8) {
			return []string{vocab[f][0], vocab[f][1]}
		}
		return []string{h[f]}
	}
	if r.Chance(1, 5) {
		return nil
	}
	return []string{h.cold(f)}
}

func (h hotSpec) sub(r *vrand.R, k, v bool) Sub { return Sub{K: h.val(r, "k", k), V: h.val(r, "v", v)} }

func (h hotSpec) item(r *vrand.R, c, s bool, subs ...Sub) Item {
	return Item{Color: h.val(r, "color", c), Size: h.val(r, "size", s), Subs: subs}
}

func (h hotSpec) rndItem(r *vrand.R) Item {
	it := h.item(r, r.Chance(3, 5), r.Chance(3, 5))
	for j := r.Intn(3); j > 0; j-- {
		it.Subs = append(it.Subs, h.sub(r, r.Chance(3, 5), r.Chance(3, 5)))
	}
	return it
}

func genAdvDoc(r *vrand.R, h hotSpec) *Doc {
	d := &Doc{PartsFirst: r.Bool()}
	// sparse top-level fields
	if r.Chance(1, 3) {
		d.Top = []string{h["top"]}
	} else if r.Chance(2, 3) {
		d.Top = []string{h.cold("top")}
	}
	if r.Chance(1, 3) {
		d.Tag = []string{h["tag"]}
	} else if r.Bool() {
		d.Tag = []string{h.cold("tag")}
	}
	full := func() Item { return h.item(r, true, true, h.sub(r, true, true)) }
	switch r.Intn(9) {
	case 0: // two (or three) consecutive elements that satisfy every same-chain conjunction
		d.Items = []Item{full(), full()}
		if r.Bool() {
			d.Items = append(d.Items, full())
		}
	case 1: // one such element among others
		d.Items = []Item{h.rndItem(r), full(), h.rndItem(r)}[r.Intn(2) : 2+r.Intn(2)]
	case 2: // all terms present, split over two elements of the outer array
		d.Items = []Item{h.item(r, true, true, h.sub(r, false, false)), h.item(r, false, false, h.sub(r, true, true))}
		if r.Bool() {
			d.Items[0], d.Items[1] = d.Items[1], d.Items[0]
		}
	case 3: // split at the second level: one element, its terms in different sub-elements
		d.Items = []Item{h.item(r, true, true, h.sub(r, true, false), h.sub(r, false, true))}
		if r.Bool() {
			d.Items = append(d.Items, h.item(r, false, r.Bool()))
		}
	case 4: // split both ways
		d.Items = []Item{h.item(r, true, false, h.sub(r, true, false)), h.item(r, false, true, h.sub(r, false, true))}
	case 5: // no element at all / elements without sub-arrays
		for i := r.Intn(3); i > 0; i-- {
			d.Items = append(d.Items, h.item(r, r.Bool(), r.Bool()))
		}
	default:
		for i := r.Range(1, 3); i > 0; i-- {
			d.Items = append(d.Items, h.rndItem(r))
		}
	}
	for i := r.Intn(3); i > 0; i-- {
		d.Parts = append(d.Parts, Part{Name: h.val(r, "name", r.Chance(2, 5)), Qty: h.val(r, "qty", r.Chance(2, 5))})
	}
	return d
}

func (h hotSpec) term(r *vrand.R, l leafSpec) Q {
	t := h[l.f]
	if r.Chance(1, 8) {
		t = h.cold(l.f)
	}
	return Q{K: "term", P: l.p, F: l.f, T: t}
}

// advInner: conjunctions whose conjuncts share an array chain or meet at the parent; all but the
// last two are NestedConjunctionSearchers (their fields sit at different depths)
func advInner(r *vrand.R, h hotSpec) Q {
	it := func() Q { return h.term(r, vrand.Pick(r, itemLeaves)) }
	sb := func() Q { return h.term(r, vrand.Pick(r, subLeaves)) }
	switch r.Intn(9) {
	case 0, 1, 2:
		return Q{K: "conj", Qs: []Q{it(), sb()}}
	case 3:
		qs := []Q{h.term(r, itemLeaves[0]), h.term(r, itemLeaves[1]), sb()}
		vrand.Shuffle(r, qs)
		return Q{K: "conj", Qs: qs}
	case 4:
		return Q{K: "conj", Qs: []Q{it(), {K: "conj", Qs: []Q{h.term(r, subLeaves[0]), h.term(r, subLeaves[1])}}}}
	case 5:
		return Q{K: "conj", Qs: []Q{{K: "disj", Min: r.Intn(2), Qs: []Q{h.term(r, subLeaves[0]), h.term(r, subLeaves[1])}}, it()}}
	case 6: // meets at the parent: sibling arrays
		return Q{K: "conj", Qs: []Q{it(), h.term(r, vrand.Pick(r, partLeaves))}}
	case 7: // two levels and a sibling array
		return Q{K: "conj", Qs: []Q{{K: "conj", Qs: []Q{it(), sb()}}, h.term(r, vrand.Pick(r, partLeaves))}}
	default: // one depth only (plain conjunction over sub-document numbers)
		g := vrand.Pick(r, [][]leafSpec{itemLeaves, subLeaves})
		return Q{K: "conj", Qs: []Q{h.term(r, g[0]), h.term(r, g[1])}}
	}
}

// advOuter: the nested conjunction as a clause next to sparse clauses (kind adv: shapes that are
// combined per parent today)
func advOuter(r *vrand.R, h hotSpec) Q {
	inner := advInner(r, h)
	top := func() Q { return h.term(r, vrand.Pick(r, topLeaves)) }
	var q Q
	switch r.Intn(9) {
	case 0, 1:
		q = Q{K: "conj", Qs: []Q{inner, top()}}
	case 2:
		q = Q{K: "conj", Qs: []Q{inner, h.term(r, topLeaves[0]), h.term(r, topLeaves[1])}}
	case 3:
		q = Q{K: "bool", Must: []Q{inner, top()}}
		if r.Bool() {
			q.Should = []Q{top()}
		}
	case 4: // through a disjunction that is itself Advance()d
		q = Q{K: "conj", Qs: []Q{top(), {K: "disj", Min: r.Intn(2), Qs: []Q{inner, advInner(r, h)}}}}
	case 5: // sparse clause on a sibling array
		q = Q{K: "conj", Qs: []Q{inner, h.term(r, vrand.Pick(r, partLeaves))}}
	case 6:
		q = Q{K: "conj", Qs: []Q{inner, {K: "conj", Qs: []Q{h.term(r, topLeaves[0]), h.term(r, topLeaves[1])}}}}
	case 7:
		q = Q{K: "conj", Qs: []Q{inner, {K: "disj", Min: r.Intn(2), Qs: []Q{h.term(r, topLeaves[0]), h.term(r, topLeaves[1])}}}}
	default: // two nested conjunctions side by side
		q = Q{K: "conj", Qs: []Q{inner, advInner(r, h), top()}}
	}
	if q.K == "conj" {
		vrand.Shuffle(r, q.Qs)
	}
	if r.Chance(1, 6) {
		q = Q{K: "disj", Min: r.Intn(2), Qs: []Q{q, top()}}
	}
	return q
}

// advMin: the nested conjunction as a disjunct of a min >= 2 disjunction / should-only boolean
// that is Advance()d by a sparse conjunct (mechanism-only: min >= 2 across scopes is not combined
// per parent today)
func advMin(r *vrand.R, h hotSpec) Q {
	top := func() Q { return h.term(r, vrand.Pick(r, topLeaves)) }
	qs := []Q{advInner(r, h), advInner(r, h)}
	if r.Bool() {
		qs = append(qs, top())
	}
	vrand.Shuffle(r, qs)
	var d Q
	if r.Bool() {
		d = Q{K: "disj", Min: 2, Qs: qs}
	} else {
		d = Q{K: "bool", Should: qs, Min: 2}
	}
	out := []Q{top(), d}
	vrand.Shuffle(r, out)
	return Q{K: "conj", Qs: out}
}

func genAdvHistory(r *vrand.R, in *In) hotSpec {
	h := hotSpec{}
	for _, f := range []string{"top", "tag", "color", "size", "k", "v", "name", "qty"} {
		h[f] = vrand.Pick(r, vocab[f])
	}
	in.NIDs = r.Range(8, 14)
	ids := make([]int, in.NIDs)
	for i := range ids {
		ids[i] = i
	}
	if r.Chance(1, 3) {
		vrand.Shuffle(r, ids)
	}
	// the corpus in 1-3 batches of distinct ids, then sometimes a few updates / deletes
	nb := r.Range(1, 3)
	per := (in.NIDs + nb - 1) / nb
	for b := 0; b < nb; b++ {
		var ops []Op
		for _, id := range ids[min(b*per, len(ids)):min((b+1)*per, len(ids))] {
			ops = append(ops, Op{ID: id, Doc: genAdvDoc(r, h)})
		}
		if len(ops) > 0 {
			in.Batches = append(in.Batches, ops)
			in.Merge = append(in.Merge, r.Chance(1, 4))
		}
	}
	if r.Chance(1, 3) {
		var ops []Op
		for k := r.Range(1, 3); k > 0; k-- {
			id := r.Intn(in.NIDs)
			if r.Bool() {
				ops = append(ops, Op{Del: true, ID: id})
			} else {
				ops = append(ops, Op{ID: id, Doc: genAdvDoc(r, h)})
			}
		}
		in.Batches = append(in.Batches, ops)
		in.Merge = append(in.Merge, r.Chance(1, 4))
	}
	in.Disk = r.Chance(1, 8)
	in.Opts = r.Intn(4)
	in.Reopen = in.Disk && r.Chance(1, 3)
	in.SortID = r.Chance(1, 4)
	return h
}

func genHistory(r *vrand.R, in *In) {
	prefixNames := in.Kind == "prefixname"
	in.NIDs = r.Range(2, 7)
	nb := r.Range(1, 6)
	for b := 0; b < nb; b++ {
		var ops []Op
		for k := r.Range(1, 4); k > 0; k-- {
			id := r.Intn(in.NIDs)
			if r.Chance(1, 5) {
				ops = append(ops, Op{Del: true, ID: id})
			} else {
				ops = append(ops, Op{ID: id, Doc: genDoc(r, prefixNames)})
			}
		}
		in.Batches = append(in.Batches, ops)
		in.Merge = append(in.Merge, r.Chance(1, 4))
	}
	in.Disk = r.Chance(1, 6)
	in.Opts = r.Intn(4)
	in.Reopen = in.Disk && r.Chance(1, 3)
	in.SortID = r.Chance(1, 4)
}

func gen(f vh.Flags, r *vrand.R, emit func(In)) {
	n := f.N(170, 6800)
	for i := 0; i < n; i++ {
		in := In{Kind: "ws"}
		genHistory(r, &in)
		in.Queries = append(in.Queries, Q{K: "all"}, sameArrayConj(r), Q{K: "conj", Qs: []Q{sameArrayConj(r), anyLeaf(r, true)}})
		for k := 0; k < 7; k++ {
			in.Queries = append(in.Queries, genWS(r, r.Range(1, 3), false))
		}
		emit(in)
	}
	// names that extend the name of a nested array (judged like kind ws)
	for i := 0; i < f.N(12, 480); i++ {
		in := In{Kind: "prefixname"}
		genHistory(r, &in)
		for k := 0; k < 6; k++ {
			in.Queries = append(in.Queries, genFinding(r, "prefixname"))
		}
		emit(in)
	}
	// known-finding shapes: own small kinds, each followed by its mechanism-only twin
	nf := f.N(10, 400)
	for _, kind := range []string{"xdepth", "sibling", "disjmin", "mustnotonly"} {
		for i := 0; i < nf; i++ {
			in := In{Kind: kind}
			genHistory(r, &in)
			for k := 0; k < 6; k++ {
				in.Queries = append(in.Queries, genFinding(r, kind))
			}
			emit(in)
			tw := in
			tw.ModelOnly = true
			emit(tw)
		}
	}
	// a nested conjunction Advance()d by an enclosing searcher, dense corpora (judged like kind ws)
	for i := 0; i < f.N(40, 1600); i++ {
		in := In{Kind: "adv"}
		h := genAdvHistory(r, &in)
		in.Queries = append(in.Queries, advInner(r, h))
		for k := 0; k < 7; k++ {
			in.Queries = append(in.Queries, advOuter(r, h))
		}
		emit(in)
	}
	// the same below a min >= 2 disjunction: mechanism only
	for i := 0; i < f.N(10, 400); i++ {
		in := In{Kind: "advmin", ModelOnly: true}
		h := genAdvHistory(r, &in)
		for k := 0; k < 6; k++ {
			in.Queries = append(in.Queries, advMin(r, h))
		}
		emit(in)
	}
}

// ---- execution ----

func kw() *mapping.FieldMapping {
	fm := bleve.NewKeywordFieldMapping()
	fm.Store = false
	fm.IncludeTermVectors = false
	return fm
}

func buildMapping(nested bool) mapping.IndexMapping {
	m := bleve.NewIndexMapping()
	sub := func() *mapping.DocumentMapping {
		if nested {
			return bleve.NewNestedDocumentStaticMapping()
		}
		return bleve.NewDocumentStaticMapping()
	}
	dm := bleve.NewDocumentStaticMapping()
	dm.AddFieldMappingsAt("top", kw())
	dm.AddFieldMappingsAt("tag", kw())
	items := sub()
	items.AddFieldMappingsAt("color", kw())
	items.AddFieldMappingsAt("size", kw())
	subs := sub()
	subs.AddFieldMappingsAt("k", kw())
	subs.AddFieldMappingsAt("v", kw())
	items.AddSubDocumentMapping("subs", subs)
	parts := sub()
	parts.AddFieldMappingsAt("name", kw())
	parts.AddFieldMappingsAt("qty", kw())
	dm.AddFieldMappingsAt("itemsx", kw())
	itemsy := sub()
	itemsy.AddFieldMappingsAt("w", kw())
	dm.AddSubDocumentMapping("items", items)
	dm.AddSubDocumentMapping("parts", parts)
	dm.AddSubDocumentMapping("itemsy", itemsy)
	m.DefaultMapping = dm
	return m
}

func strs(xs []string) []interface{} {
	rv := make([]interface{}, len(xs))
	for i, x := range xs {
		rv[i] = x
	}
	return rv
}

func (d *Doc) value() interface{} {
	if d.ViaMap {
		m := map[string]interface{}{}
		if d.Top != nil {
			m["top"] = strs(d.Top)
		}
		if d.Tag != nil {
			m["tag"] = strs(d.Tag)
		}
		if d.ItemsX != nil {
			m["itemsx"] = strs(d.ItemsX)
		}
		var itemsy []interface{}
		for _, y := range d.ItemsY {
			itemsy = append(itemsy, map[string]interface{}{"w": strs(y.W)})
		}
		if itemsy != nil {
			m["itemsy"] = itemsy
		}
		var items []interface{}
		for _, it := range d.Items {
			im := map[string]interface{}{"color": strs(it.Color), "size": strs(it.Size)}
			var subs []interface{}
			for _, s := range it.Subs {
				subs = append(subs, map[string]interface{}{"k": strs(s.K), "v": strs(s.V)})
			}
			if subs != nil {
				im["subs"] = subs
			}
			items = append(items, im)
		}
		if items != nil {
			m["items"] = items
		}
		var parts []interface{}
		for _, p := range d.Parts {
			parts = append(parts, map[string]interface{}{"name": strs(p.Name), "qty": strs(p.Qty)})
		}
		if parts != nil {
			m["parts"] = parts
		}
		return m
	}
	if d.PartsFirst {
		return docPartsFirst{Top: d.Top, Tag: d.Tag, ItemsX: d.ItemsX, Parts: d.Parts, Items: d.Items, ItemsY: d.ItemsY}
	}
	return docItemsFirst{Top: d.Top, Tag: d.Tag, ItemsX: d.ItemsX, Items: d.Items, Parts: d.Parts, ItemsY: d.ItemsY}
}

func docName(i int) string { return "d" + strconv.Itoa(i) }

// parent ids are d<n>; anything else (a sub-document id) is reported as -1
func parseID(s string) int64 {
	if len(s) < 2 || s[0] != 'd' {
		return -1
	}
	n, err := strconv.ParseInt(s[1:], 10, 64)
	if err != nil || n < 0 {
		return -1
	}
	return n
}

func buildQuery(q Q) query.Query {
	many := func(qs []Q) []query.Query {
		rv := make([]query.Query, len(qs))
		for i, x := range qs {
			rv[i] = buildQuery(x)
		}
		return rv
	}
	switch q.K {
	case "term":
		t := bleve.NewTermQuery(q.T)
		t.SetField(strings.Join(append(append([]string{}, q.P...), q.F), "."))
		return t
	case "conj":
		return bleve.NewConjunctionQuery(many(q.Qs)...)
	case "disj":
		d := bleve.NewDisjunctionQuery(many(q.Qs)...)
		d.SetMin(float64(q.Min))
		return d
	case "bool":
		b := bleve.NewBooleanQuery()
		if len(q.Must) > 0 {
			b.AddMust(many(q.Must)...)
		}
		if len(q.Should) > 0 {
			b.AddShould(many(q.Should)...)
			b.SetMinShould(float64(q.Min))
		}
		if len(q.MustNot) > 0 {
			b.AddMustNot(many(q.MustNot)...)
		}
		return b
	default:
		return bleve.NewMatchAllQuery()
	}
}

func openIndex(in In, nested bool) (bleve.Index, string, map[string]interface{}, error) {
	m := buildMapping(nested)
	if !nested || !in.Disk {
		idx, err := bleve.NewUsing("", m, scorch.Name, scorch.Name, nil)
		return idx, "", nil, err
	}
	d, err := os.MkdirTemp("", "vh_c20_")
	if err != nil {
		return nil, "", nil, err
	}
	kvc := map[string]interface{}{}
	switch in.Opts {
	case 1:
		kvc["scorchPersisterOptions"] = map[string]interface{}{"NumPersisterWorkers": 2, "MaxSizeInMemoryMergePerWorker": 1}
	case 2:
		kvc["scorchMergePlanOptions"] = map[string]interface{}{"MaxSegmentsPerTier": 2, "TierGrowth": 2.0, "SegmentsPerMergeTask": 3, "FloorSegmentSize": 1}
	case 3:
		kvc["scorchPersisterOptions"] = map[string]interface{}{"PersisterNapTimeMSec": 1, "PersisterNapUnderNumFiles": 0}
		kvc["scorchMergePlanOptions"] = map[string]interface{}{"MaxSegmentsPerTier": 1, "SegmentsPerMergeTask": 2, "FloorSegmentSize": 1}
	}
	idx, err := bleve.NewUsing(d+"/idx", m, scorch.Name, scorch.Name, kvc)
	return idx, d, kvc, err
}

func applyHistory(idx bleve.Index, in In, disk bool) error {
	for bi, ops := range in.Batches {
		if len(ops) == 1 {
			o := ops[0]
			var err error
			if o.Del {
				err = idx.Delete(docName(o.ID))
			} else {
				err = idx.Index(docName(o.ID), o.Doc.value())
			}
			if err != nil {
				return err
			}
		} else {
			b := idx.NewBatch()
			for _, o := range ops {
				if o.Del {
					b.Delete(docName(o.ID))
				} else if err := b.Index(docName(o.ID), o.Doc.value()); err != nil {
					return err
				}
			}
			if err := idx.Batch(b); err != nil {
				return err
			}
		}
		if disk && bi < len(in.Merge) && in.Merge[bi] {
			if adv, err := idx.Advanced(); err == nil {
				if sc, ok := adv.(*scorch.Scorch); ok {
					ctx, cancel := context.WithTimeout(context.Background(), 20*time.Second)
					_ = sc.ForceMerge(ctx, nil)
					cancel()
				}
			}
		}
	}
	return nil
}

type obsQ struct {
	hits  []int64
	total uint64
}

func search(idx bleve.Index, q Q, sortID bool) (obsQ, error) {
	req := bleve.NewSearchRequestOptions(buildQuery(q), 10000, 0, false)
	if sortID {
		req.SortBy([]string{"_id"})
	}
	res, err := idx.Search(req)
	if err != nil {
		return obsQ{}, err
	}
	o := obsQ{total: res.Total}
	for _, h := range res.Hits {
		o.hits = append(o.hits, parseID(h.ID))
	}
	sort.Slice(o.hits, func(i, j int) bool { return o.hits[i] < o.hits[j] })
	return o, nil
}

func zs(xs []int64) cf.T { return cf.ListOf(xs, cf.Z) }

// the vocabulary is defined once per cases file (Preamble) and referred to by name: byte-list
// literals are slow to elaborate
var knownStrings = []string{"top", "tag", "items", "subs", "parts", "color", "size", "k", "v", "name", "qty",
	"x", "y", "t", "u", "red", "blue", "s", "m", "a", "b", "1", "2", "n1", "n2", "q1", "q2", "zz",
	"itemsx", "itemsy", "w", "p", "q", "g", "h"}
var strName = map[string]string{}

func preamble() string {
	var sb strings.Builder
	for _, w := range knownStrings {
		strName[w] = "s_" + w
		sb.WriteString("Definition s_" + w + " : bytes := " + string(cf.Str(w)) + ".\n")
	}
	return sb.String()
}

func str(w string) cf.T {
	if n, ok := strName[w]; ok {
		return cf.T(n)
	}
	return cf.Str(w)
}

func nodeTerm(fields [][2]interface{}, arrays [][2]interface{}) cf.T {
	var fs, as []cf.T
	for _, f := range fields {
		fs = append(fs, cf.App("fld", str(f[0].(string)), cf.ListOf(f[1].([]string), str)))
	}
	for _, a := range arrays {
		as = append(as, cf.App("arr", str(a[0].(string)), cf.List(a[1].([]cf.T))))
	}
	return cf.App("Node", cf.List(fs), cf.List(as))
}

func docTerm(d *Doc) cf.T {
	var items, parts []cf.T
	for _, it := range d.Items {
		var subs []cf.T
		for _, s := range it.Subs {
			subs = append(subs, nodeTerm([][2]interface{}{{"k", s.K}, {"v", s.V}}, nil))
		}
		items = append(items, nodeTerm([][2]interface{}{{"color", it.Color}, {"size", it.Size}},
			[][2]interface{}{{"subs", subs}}))
	}
	for _, p := range d.Parts {
		parts = append(parts, nodeTerm([][2]interface{}{{"name", p.Name}, {"qty", p.Qty}}, nil))
	}
	var itemsy []cf.T
	for _, y := range d.ItemsY {
		itemsy = append(itemsy, nodeTerm([][2]interface{}{{"w", y.W}}, nil))
	}
	arrs := [][2]interface{}{{"items", items}, {"parts", parts}, {"itemsy", itemsy}}
	if d.PartsFirst && !d.ViaMap {
		arrs[0], arrs[1] = arrs[1], arrs[0]
	}
	return nodeTerm([][2]interface{}{{"top", d.Top}, {"tag", d.Tag}, {"itemsx", d.ItemsX}}, arrs)
}

func qTerm(q Q) cf.T {
	many := func(qs []Q) cf.T { return cf.ListOf(qs, qTerm) }
	switch q.K {
	case "term":
		return cf.App("QTerm", cf.ListOf(q.P, str), str(q.F), str(q.T))
	case "conj":
		return cf.App("QConj", many(q.Qs))
	case "disj":
		return cf.App("QDisj", cf.Int(q.Min), many(q.Qs))
	case "bool":
		return cf.App("QBool", many(q.Must), many(q.Should), many(q.MustNot), cf.Int(q.Min))
	default:
		return "QMatchAll"
	}
}

var classOf = map[string]string{
	"xdepth":      "nested-bool-cross-depth",
	"sibling":     "nested-bool-sibling-arrays",
	"disjmin":     "nested-disj-min-cross-scope",
	"mustnotonly": "nested-bool-mustnot-only",
	"prefixname":  "nested-prefix-name",
}

func exec(in In) vh.Result {
	if os.Getenv("C20_TIMING") != "" {
		t0 := time.Now()
		defer func() {
			fmt.Fprintf(os.Stderr, "timing disk=%v opts=%d reopen=%v batches=%d %v\n", in.Disk, in.Opts, in.Reopen, len(in.Batches), time.Since(t0))
		}()
	}
	var res vh.Result
	var dirs []string
	defer func() {
		for _, d := range dirs {
			_ = os.RemoveAll(d)
		}
	}()
	fail := func(err error) vh.Result {
		return vh.Result{Direct: &vh.Direct{Kind: "error", Detail: err.Error()}}
	}
	d := vh.Guard(120*time.Second, "nested history + searches", func() {
		nidx, dir, kvc, err := openIndex(in, true)
		if dir != "" {
			dirs = append(dirs, dir)
		}
		if err != nil {
			res = fail(err)
			return
		}
		defer func() { _ = nidx.Close() }()
		fidx, _, _, err := openIndex(in, false)
		if err != nil {
			res = fail(err)
			return
		}
		defer func() { _ = fidx.Close() }()
		if err := applyHistory(nidx, in, in.Disk); err != nil {
			res = fail(err)
			return
		}
		if err := applyHistory(fidx, in, false); err != nil {
			res = fail(err)
			return
		}
		if in.Reopen && dir != "" {
			if err := nidx.Close(); err != nil {
				res = fail(err)
				return
			}
			nidx, err = bleve.OpenUsing(dir+"/idx", kvc)
			if err != nil {
				res = fail(err)
				return
			}
		}
		// the real forest
		adv, err := nidx.Advanced()
		if err != nil {
			res = fail(err)
			return
		}
		rd, err := adv.Reader()
		if err != nil {
			res = fail(err)
			return
		}
		nr, ok := rd.(index.NestedReader)
		if !ok {
			_ = rd.Close()
			res = fail(fmt.Errorf("index reader is not a NestedReader"))
			return
		}
		it, err := rd.DocIDReaderAll()
		if err != nil {
			_ = rd.Close()
			res = fail(err)
			return
		}
		var forest []cf.T
		nSub := 0
		for {
			id, err := it.Next()
			if err != nil || id == nil {
				break
			}
			anc, err := nr.Ancestors(id, nil)
			if err != nil {
				res = fail(err)
				break
			}
			ext, _ := rd.ExternalID(id)
			var as []int64
			for _, a := range anc {
				as = append(as, int64(a))
			}
			e := parseID(ext)
			if e < 0 {
				nSub++
			}
			forest = append(forest, cf.App("fent", cf.Z(int64(id.Value())), zs(as), cf.Z(e)))
		}
		_ = it.Close()
		_ = rd.Close()
		if res.Direct != nil {
			return
		}
		dcn, err := nidx.DocCount()
		if err != nil {
			res = fail(err)
			return
		}
		dcf, err := fidx.DocCount()
		if err != nil {
			res = fail(err)
			return
		}
		var present []cf.T
		for i := 0; i < in.NIDs; i++ {
			doc, err := nidx.Document(docName(i))
			if err != nil {
				res = fail(err)
				return
			}
			present = append(present, cf.App("pres", cf.Int(i), cf.Bool(doc != nil)))
		}
		var qobs []cf.T
		differ, anyHit := false, false
		for _, q := range in.Queries {
			on, err := search(nidx, q, in.SortID)
			if err != nil {
				res = fail(fmt.Errorf("nested search: %v", err))
				return
			}
			of, err := search(fidx, q, in.SortID)
			if err != nil {
				res = fail(fmt.Errorf("flat search: %v", err))
				return
			}
			if len(on.hits) > 0 {
				anyHit = true
			}
			if fmt.Sprint(on.hits) != fmt.Sprint(of.hits) {
				differ = true
			}
			qobs = append(qobs, cf.App("mkQ", qTerm(q), zs(on.hits), cf.U(on.total), zs(of.hits), cf.U(of.total)))
		}
		var ops []cf.T
		nUpd := 0
		seen := map[int]bool{}
		for _, b := range in.Batches {
			for _, o := range b {
				if o.Del {
					ops = append(ops, cf.App("ODelete", cf.Int(o.ID)))
				} else {
					ops = append(ops, cf.App("OIndex", cf.Int(o.ID), docTerm(o.Doc)))
				}
				if seen[o.ID] {
					nUpd++
				}
				seen[o.ID] = true
			}
		}
		res.Term = cf.App("CHist", cf.Bool(!in.ModelOnly), cf.List(ops), cf.List(forest),
			cf.U(dcn), cf.U(dcf), cf.List(present), cf.List(qobs))
		res.Nontrivial = nSub > 0 && anyHit && (differ || nUpd > 0)
		res.Hist = []string{"kind:" + in.Kind}
		if in.ModelOnly {
			res.Hist = []string{"kind:" + in.Kind + ":model-only"}
		} else {
			res.Class = classOf[in.Kind]
		}
		if in.Disk {
			res.Hist = append(res.Hist, "layout:disk")
			if in.Reopen {
				res.Hist = append(res.Hist, "layout:disk-reopened")
			}
		} else {
			res.Hist = append(res.Hist, "layout:mem")
		}
		if differ {
			res.Hist = append(res.Hist, "nested-differs-from-flat")
		}
		if nUpd > 0 {
			res.Hist = append(res.Hist, "has-update-or-delete")
		}
	})
	if d != nil {
		return vh.Result{Direct: d, Class: ""}
	}
	return res
}

func main() {
	vh.Main(vh.Config{
		Property:  "C20",
		Imports:   []string{"Common.Bytes", "Nested.Model", "Nested.Corr"},
		CaseType:  "Corr.case",
		CheckFn:   "Corr.check",
		ExplainFn: "Corr.explain",
		Rule: "random documents over a tiny vocabulary with arrays of objects (0/1/many elements, items[].subs[] two levels, sibling arrays items/parts, missing and multi-valued fields), " +
			"an update/delete history in 1-6 batches on scorch (in memory, or on disk with forced merges / reopen), the arrays mapped nested and the same history on a flat mapping; " +
			"per history 10 queries: match-all, same-array conjunctions, nested conjunction as a clause of a larger query, conjunction/disjunction/boolean trees over nested and top-level term leaves (kind ws: shapes whose clauses are combined per parent today), " +
			"kind prefixname: conjunctions of a clause on the array items with one on the top-level field itemsx / the array itemsy, whose NAMES extend \"items\"; " +
			"kind adv: corpora of 8-14 parents with one frequent value per field (elements that satisfy a same-chain conjunction completely, often two in a row, " +
			"interleaved with parents holding all its terms in DIFFERENT elements at the first / second nesting level, and sparse top-level fields) and 8 queries whose " +
			"nested conjunction (items.x AND items.subs.y, with sub-conjunctions / disjunctions / sibling arrays) is a clause of an outer conjunction / boolean must / disjunction next to sparse clauses, so that it is Advance()d; " +
			"kind advmin (mechanism only): the same below a min>=2 disjunction / should-only boolean; " +
			"plus four small kinds for the known-finding shapes (boolean across depths, across sibling arrays, disjunction min>=2 across scopes, must-not-only boolean), each with a mechanism-only twin; " +
			"non-trivial: the index holds sub-documents, some query has hits, and nested and flat answers differ or the history updates/deletes a document",
		ShardSize: 16,
		Preamble:  preamble(),
	}, gen, exec)
}
