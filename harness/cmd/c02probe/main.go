package main

import (
	"fmt"

	"github.com/blevesearch/bleve/v2"
	"github.com/blevesearch/bleve/v2/index/scorch"
	"github.com/blevesearch/bleve/v2/search/query"
)

func mk(engine string) bleve.Index {
	m := bleve.NewIndexMapping()
	dm := bleve.NewDocumentMapping()
	fm := bleve.NewTextFieldMapping()
	fm.Analyzer = "keyword"
	dm.AddFieldMappingsAt("f", fm)
	m.DefaultMapping = dm
	var idx bleve.Index
	var err error
	if engine == "scorch" {
		idx, err = bleve.NewUsing("", m, scorch.Name, scorch.Name, nil)
	} else {
		idx, err = bleve.NewMemOnly(m)
	}
	if err != nil {
		panic(err)
	}
	return idx
}

func run(idx bleve.Index, q query.Query) []string {
	req := bleve.NewSearchRequestOptions(q, 100, 0, false)
	res, err := idx.Search(req)
	if err != nil {
		return []string{"ERR " + err.Error()}
	}
	var ids []string
	for _, h := range res.Hits {
		ids = append(ids, h.ID)
	}
	return ids
}

func main() {
	for _, e := range []string{"scorch", "upsidedown"} {
		idx := mk(e)
		words := []string{"abc", "ab", "ca", "xab", "xba", "a", "abcd", "ba", "acb"}
		for _, w := range words {
			idx.Index(w, map[string]interface{}{"f": w})
		}
		for _, t := range []string{"ca", "abc", "ab"} {
			for fz := 1; fz <= 2; fz++ {
				fq := bleve.NewFuzzyQuery(t)
				fq.SetField("f")
				fq.SetFuzziness(fz)
				fmt.Println(e, "fuzzy", t, fz, run(idx, fq))
			}
		}
		for _, rx := range []string{"a|ab", "ab|a", "x(a|ab)", "(a|ab)c", "a(b|bc)d?", "ab?", "[^a]b", "a.*", ""} {
			rq := bleve.NewRegexpQuery(rx)
			rq.SetField("f")
			fmt.Println(e, "regexp", rx, run(idx, rq))
		}
		idx.Close()
	}
}
