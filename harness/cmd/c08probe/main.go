package main

import (
	"context"
	"fmt"

	"github.com/blevesearch/bleve/v2"
	"github.com/blevesearch/bleve/v2/index/scorch"
	"github.com/blevesearch/bleve/v2/search"
	index "github.com/blevesearch/bleve_index_api"
)

func main() {
	m := bleve.NewIndexMapping()
	idx, _ := bleve.NewUsing("", m, scorch.Name, scorch.Name, nil)
	adv, _ := idx.Advanced()
	try := func(label string) {
		defer func() {
			if e := recover(); e != nil {
				fmt.Println(label, "PANIC:", e)
			}
		}()
		rd, _ := adv.Reader()
		defer rd.Close()
		q := bleve.NewTermQuery("x")
		q.SetField("f")
		s, err := q.Searcher(context.Background(), rd, m, search.SearcherOptions{})
		if err != nil {
			panic(err)
		}
		ctx := &search.SearchContext{DocumentMatchPool: search.NewDocumentMatchPool(s.DocumentMatchPoolSize()+10, 0)}
		d, err := s.Advance(ctx, index.NewIndexInternalID(nil, 0))
		fmt.Println(label, "Advance(0) ->", d, err)
	}
	try("empty index")
	idx.Index("a", map[string]interface{}{"f": "x"})
	idx.Delete("a")
	try("index+delete")
	idx.Close()
}
