package main

import (
	"context"
	"fmt"

	"github.com/blevesearch/bleve/v2"
	"github.com/blevesearch/bleve/v2/index/scorch"
	"github.com/blevesearch/bleve/v2/index/upsidedown"
	"github.com/blevesearch/bleve/v2/index/upsidedown/store/gtreap"
	"github.com/blevesearch/bleve/v2/search"
	"github.com/blevesearch/bleve/v2/search/query"
	index "github.com/blevesearch/bleve_index_api"
)

func main() {
	for _, eng := range []string{"scorch", "upsidedown"} {
		m := bleve.NewIndexMapping()
		dm := bleve.NewDocumentMapping()
		fm := bleve.NewTextFieldMapping()
		fm.Analyzer = "keyword"
		dm.AddFieldMappingsAt("f", fm)
		m.DefaultMapping = dm
		var idx bleve.Index
		if eng == "scorch" {
			idx, _ = bleve.NewUsing("", m, scorch.Name, scorch.Name, nil)
		} else {
			idx, _ = bleve.NewUsing("", m, upsidedown.Name, gtreap.Name, nil)
		}
		// docs d0..d5: must term "m" in d0,d3 ; should "s" in d3,d5
		docs := [][]string{{"m"}, {"x"}, {"x"}, {"m", "s"}, {"x"}, {"s"}}
		b := idx.NewBatch()
		for i, d := range docs {
			vals := []interface{}{}
			for _, v := range d {
				vals = append(vals, v)
			}
			b.Index(fmt.Sprintf("d%d", i), map[string]interface{}{"f": vals})
		}
		idx.Batch(b)
		adv, _ := idx.Advanced()
		for _, score := range []string{"", "none"} {
			for _, prog := range [][]int{{-1, -1, -1}, {1, -1}, {2, -1}, {3, -1}} {
				rd, _ := adv.Reader()
				tq := func(t string) query.Query { q := bleve.NewTermQuery(t); q.SetField("f"); return q }
				bq := bleve.NewBooleanQuery()
				bq.AddMust(tq("m"))
				bq.AddShould(tq("s"))
				bq.AddShould(tq("zz"))
				bq.SetMinShould(1)
				s, err := bq.Searcher(context.Background(), rd, m, search.SearcherOptions{Score: score})
				if err != nil {
					panic(err)
				}
				ctx := &search.SearchContext{DocumentMatchPool: search.NewDocumentMatchPool(s.DocumentMatchPoolSize()+10, 0)}
				out := []string{}
				for _, c := range prog {
					var d *search.DocumentMatch
					if c < 0 {
						d, err = s.Next(ctx)
						out = append(out, "N")
					} else {
						var id index.IndexInternalID
						if eng == "scorch" {
							id = index.NewIndexInternalID(nil, uint64(c))
						} else {
							id = index.IndexInternalID(fmt.Sprintf("d%d", c))
						}
						d, err = s.Advance(ctx, id)
						out = append(out, fmt.Sprintf("A%d", c))
					}
					if err != nil {
						panic(err)
					}
					if d == nil {
						out = append(out, "->nil")
					} else {
						ext, _ := rd.ExternalID(d.IndexInternalID)
						out = append(out, "->"+ext)
					}
				}
				fmt.Printf("%s score=%q %T %v\n", eng, score, s, out)
				s.Close()
				rd.Close()
			}
		}
		idx.Close()
	}
}
