package main

import (
	"fmt"
	"sort"
	"strings"
	"sync"
	"time"

	"github.com/blevesearch/bleve/v2"
	_ "github.com/blevesearch/bleve/v2/config"
	"github.com/blevesearch/bleve/v2/index/scorch"
	"github.com/blevesearch/bleve/v2/index/upsidedown"
	"github.com/blevesearch/bleve/v2/index/upsidedown/store/gtreap"
	"github.com/blevesearch/bleve/v2/search/query"

	"verifharness/internal/vh"
	"verifharness/internal/vrand"
)

// ---------------------------------------------------------------- corpora
// A corpus is a deterministic function of its number; the two in-memory indexes (scorch and
// upsidedown/gtreap) over it are built once per process and only read afterwards.

var vocab = []string{"alpha", "beta", "gamma", "delta", "the", "cat", "dog", "fish", "a1", "2016", "42", "3.5",
	"watex", "water", "waters", "quick", "brown", "fox", "über", "日本", "and", "of", "catalog", "dot.com"}

var numVals = []float64{-2, -1, 0, 0.5, 1, 1.5, 2, 3, 3.5, 10, 42, 2016, 0.1, 1e15, -0.25}

var dateBase = time.Date(2020, 1, 1, 0, 0, 0, 0, time.UTC)

type doc struct {
	id string
	f  map[string]interface{}
}

func words(r *vrand.R, lo, hi int) string {
	n := r.Range(lo, hi)
	ws := make([]string, n)
	for i := range ws {
		ws[i] = vrand.Pick(r, vocab)
	}
	return strings.Join(ws, " ")
}

func makeCorpus(k int) []doc {
	r := vrand.New(uint64(k)*7919 + 0xC17)
	n := r.Range(8, 16)
	docs := make([]doc, n)
	for i := range docs {
		f := map[string]interface{}{}
		f["title"] = words(r, 1, 3)
		f["body"] = words(r, 2, 7)
		if r.Chance(3, 4) {
			f["tag"] = vrand.Pick(r, vocab)
		}
		if r.Chance(4, 5) {
			f["n"] = vrand.Pick(r, numVals)
		}
		if r.Chance(4, 5) {
			var t time.Time
			switch r.Intn(4) {
			case 0:
				t = dateBase.Add(time.Duration(r.Range(-3, 3)) * 24 * time.Hour)
			case 1:
				t = dateBase.Add(time.Duration(r.Range(-3, 8)) * time.Second)
			default:
				t = dateBase.Add(time.Duration(r.Range(-10, 40)) * 100 * time.Millisecond)
			}
			f["when"] = t.Format(time.RFC3339Nano)
		}
		if r.Chance(1, 2) {
			f["flag"] = r.Bool()
		}
		if r.Chance(1, 2) {
			f["loc"] = map[string]interface{}{"lon": float64(r.Range(-20, 20)) / 2, "lat": float64(r.Range(-20, 20)) / 2}
		}
		docs[i] = doc{id: fmt.Sprintf("d%02d", i), f: f}
	}
	return docs
}

var engines = []string{"scorch", "upsidedown"}

// ---------------------------------------------------------------- custom date time parsers
// Every index mapping registers these under their names (mapping.AddCustomDateTimeParser); facet
// date ranges and DateRangeStringQuery name them. text renders an instant in the parser's own
// syntax (input generation only - what the bounds mean is decided by bleve alone, both before and
// after the JSON round trip). Only "rfcnano" accepts RFC 3339 text.
type dtParser struct {
	Name    string
	Type    string // "" = a parser bleve registers by itself under Name
	Layouts []string
	text    func(time.Time) string
}

func goLayout(l string) func(time.Time) string {
	return func(t time.Time) string { return t.UTC().Format(l) }
}

var dtParsers = []dtParser{
	{"dmy12", "sanitizedgo", []string{"02/01/2006 3:04PM"}, goLayout("02/01/2006 3:04PM")},
	{"slash", "flexiblego", []string{"2006/01/02 15:04:05", "2006/01/02"}, goLayout("2006/01/02 15:04:05")},
	{"pct", "percentstyle", []string{"%d.%m.%Y %H:%M:%S"}, goLayout("02.01.2006 15:04:05")},
	{"pctfrac", "percentstyle", []string{"%Y%m%d %H%M%S.%N"}, goLayout("20060102 150405.000000000")},
	{"isost", "isostyle", []string{"yyyyMMdd'T'HHmmss"}, goLayout("20060102T150405")},
	{"rfcnano", "flexiblego", []string{time.RFC3339Nano, "2006-01-02"}, goLayout(time.RFC3339Nano)},
	{"unix_milli", "", nil, func(t time.Time) string { return fmt.Sprintf("%d", t.UnixMilli()) }},
	{"unix_sec", "", nil, func(t time.Time) string { return fmt.Sprintf("%d", t.Unix()) }},
}

func dtParserNamed(name string) *dtParser {
	for i := range dtParsers {
		if dtParsers[i].Name == name {
			return &dtParsers[i]
		}
	}
	return nil
}

func registerDateTimeParsers(m interface {
	AddCustomDateTimeParser(string, map[string]interface{}) error
}) error {
	for _, p := range dtParsers {
		if p.Type == "" {
			continue
		}
		ls := make([]interface{}, len(p.Layouts))
		for i, l := range p.Layouts {
			ls[i] = l
		}
		if err := m.AddCustomDateTimeParser(p.Name, map[string]interface{}{"type": p.Type, "layouts": ls}); err != nil {
			return fmt.Errorf("date time parser %s: %v", p.Name, err)
		}
	}
	return nil
}

type idxEntry struct {
	once sync.Once
	idx  bleve.Index
	err  error
}

var idxCache sync.Map

func getIndex(corpus int, engine string) (bleve.Index, error) {
	key := fmt.Sprintf("%d/%s", corpus, engine)
	v, _ := idxCache.LoadOrStore(key, &idxEntry{})
	e := v.(*idxEntry)
	e.once.Do(func() {
		m := bleve.NewIndexMapping()
		m.DefaultMapping.AddFieldMappingsAt("loc", bleve.NewGeoPointFieldMapping())
		if err := registerDateTimeParsers(m); err != nil {
			e.err = err
			return
		}
		var idx bleve.Index
		var err error
		if engine == "upsidedown" {
			idx, err = bleve.NewUsing("", m, upsidedown.Name, gtreap.Name, nil)
		} else {
			idx, err = bleve.NewUsing("", m, scorch.Name, scorch.Name, nil)
		}
		if err != nil {
			e.err = err
			return
		}
		b := idx.NewBatch()
		for _, d := range makeCorpus(corpus) {
			if err := b.Index(d.id, d.f); err != nil {
				e.err = err
				return
			}
		}
		if err := idx.Batch(b); err != nil {
			e.err = err
			return
		}
		e.idx = idx
	})
	return e.idx, e.err
}

// hitSet runs a query for all its hits and returns the sorted ids, or "ERR" when the search
// returned an error (the message is not compared).
func hitSet(idx bleve.Index, q query.Query) string {
	req := bleve.NewSearchRequestOptions(q, 1000, 0, false)
	res, err := idx.Search(req)
	if err != nil {
		return "ERR"
	}
	ids := make([]string, 0, len(res.Hits))
	for _, h := range res.Hits {
		ids = append(ids, h.ID)
	}
	sort.Strings(ids)
	return fmt.Sprintf("%d:%s", res.Total, strings.Join(ids, ","))
}

// sameHits executes two queries on both engines over one corpus; a difference is an
// implementation-alone violation.
func sameHits(corpus int, kind, what string, mk1, mk2 func() query.Query) *vh.Direct {
	for _, eng := range engines {
		idx, err := getIndex(corpus, eng)
		if err != nil {
			return &vh.Direct{Kind: "harness-index", Detail: err.Error()}
		}
		var a, b string
		if d := vh.Guard(30*time.Second, "Index.Search("+what+")", func() {
			a = hitSet(idx, mk1())
			b = hitSet(idx, mk2())
		}); d != nil {
			return d
		}
		if a != b {
			return &vh.Direct{Kind: kind, Detail: fmt.Sprintf("%s on corpus %d (%s): first returns [%s], second returns [%s]", what, corpus, eng, a, b)}
		}
	}
	return nil
}
