package main

import (
	"bytes"
	"encoding/json"
	"fmt"
	"sort"
	"strconv"
	"strings"
	"time"

	"github.com/blevesearch/bleve/v2"
	"github.com/blevesearch/bleve/v2/search"
	"github.com/blevesearch/bleve/v2/search/query"

	cf "verifharness/internal/coqfmt"
	"verifharness/internal/vh"
	"verifharness/internal/vrand"
)

// ---------------------------------------------------------------- directly constructed query of a clause list
var dateLayouts = []string{time.RFC3339Nano, "2006-01-02T15:04:05", "2006-01-02 15:04:05", "2006-01-02"}

func directQuery(cs []Clause) (query.Query, bool) {
	var must, should, mustNot []query.Query
	tr := true
	for _, c := range cs {
		var q query.Query
		setField := func(fq query.FieldableQuery) {
			if c.Field != "" {
				fq.SetField(c.Field)
			}
		}
		switch c.Kind {
		case "match":
			m := query.NewMatchQuery(c.W)
			setField(m)
			q = m
		case "fuzzy":
			m := query.NewMatchQuery(c.W)
			n := 1
			if c.N != "" {
				v, err := strconv.Atoi(c.N)
				if err != nil {
					return nil, false
				}
				n = v
			}
			m.SetFuzziness(n)
			setField(m)
			q = m
		case "phrase":
			m := query.NewMatchPhraseQuery(c.W)
			setField(m)
			q = m
		case "regexp":
			m := query.NewRegexpQuery(c.W)
			setField(m)
			q = m
		case "wildcard":
			m := query.NewWildcardQuery(c.W)
			setField(m)
			q = m
		case "number":
			txt := sdec(c.Neg, *c.Num)
			v, err := strconv.ParseFloat(txt, 64)
			if err != nil {
				return nil, false
			}
			q1 := query.NewMatchQuery(txt)
			q2 := query.NewNumericRangeInclusiveQuery(&v, &v, &tr, &tr)
			setField(q1)
			setField(q2)
			q = query.NewDisjunctionQuery([]query.Query{q1, q2})
		case "cmp":
			v, err := strconv.ParseFloat(sdec(c.Neg, *c.Num), 64)
			if err != nil {
				return nil, false
			}
			incl := c.Op == ">=" || c.Op == "<="
			var m *query.NumericRangeQuery
			if c.Op[0] == '>' {
				m = query.NewNumericRangeInclusiveQuery(&v, nil, &incl, nil)
			} else {
				m = query.NewNumericRangeInclusiveQuery(nil, &v, nil, &incl)
			}
			setField(m)
			q = m
		case "date":
			var t time.Time
			ok := false
			for _, l := range dateLayouts {
				if tt, err := time.Parse(l, c.W); err == nil {
					t, ok = tt, true
					break
				}
			}
			if !ok {
				return nil, false
			}
			incl := c.Op == ">=" || c.Op == "<="
			var m *query.DateRangeQuery
			if c.Op[0] == '>' {
				m = query.NewDateRangeInclusiveQuery(t, time.Time{}, &incl, nil)
			} else {
				m = query.NewDateRangeInclusiveQuery(time.Time{}, t, nil, &incl)
			}
			setField(m)
			q = m
		default:
			return nil, false
		}
		if c.Boost != nil {
			b, err := strconv.ParseFloat(c.Boost.text(), 64)
			if err != nil {
				return nil, false
			}
			q.(query.BoostableQuery).SetBoost(b)
		}
		switch c.Prefix {
		case 0:
			should = append(should, q)
		case 1:
			must = append(must, q)
		default:
			mustNot = append(mustNot, q)
		}
	}
	return query.NewBooleanQueryForQueryString(must, should, mustNot), true
}

// ---------------------------------------------------------------- query trees
type QSpec struct {
	T         string   `json:"t"`
	Field     string   `json:"field,omitempty"`
	Text      string   `json:"text,omitempty"`
	Terms     []string `json:"terms,omitempty"`
	Fuzz      int      `json:"fuzz,omitempty"`
	Auto      bool     `json:"auto,omitempty"`
	Prefix    int      `json:"prefix,omitempty"`
	And       bool     `json:"and,omitempty"`
	Min       *float64 `json:"min,omitempty"`
	Max       *float64 `json:"max,omitempty"`
	IMin      *bool    `json:"imin,omitempty"`
	IMax      *bool    `json:"imax,omitempty"`
	SMin      string   `json:"smin,omitempty"`
	SMax      string   `json:"smax,omitempty"`
	Parser    string   `json:"parser,omitempty"` // date_range_string: name of a date time parser of the mapping
	Start     *int64   `json:"start,omitempty"` // nanoseconds relative to 2020-01-01T00:00:00Z
	End       *int64   `json:"end,omitempty"`
	ZoneMin   int      `json:"zone,omitempty"` // location of the time values: UTC offset in minutes
	Bool      bool     `json:"bool,omitempty"`
	IDs       []string `json:"ids,omitempty"`
	Boost     *float64 `json:"boost,omitempty"`
	Kids      []QSpec  `json:"kids,omitempty"`
	Should    []QSpec  `json:"should,omitempty"`
	MustNot   []QSpec  `json:"must_not,omitempty"`
	Filter    *QSpec   `json:"filter,omitempty"`
	MinShould float64  `json:"min_should,omitempty"`
}

var textFields = []string{"title", "body", "tag", ""}

func optB(r *vrand.R) *bool {
	switch r.Intn(3) {
	case 0:
		return nil
	case 1:
		t := true
		return &t
	}
	f := false
	return &f
}

func lowerWord(r *vrand.R) string {
	w := vrand.Pick(r, vocab)
	if w == "über" && r.Bool() {
		return "Über"
	}
	return w
}

func genLeaf(r *vrand.R) QSpec {
	q := QSpec{}
	switch r.Intn(19) {
	case 17, 18:
		// string bounds in the syntax of a (custom) date time parser registered in the mapping
		q = QSpec{T: "date_range_string", Field: vrand.Pick(r, []string{"when", "when", ""}), IMin: optB(r), IMax: optB(r)}
		q.Parser = genParserName(r)
		if !r.Chance(1, 5) {
			q.SMin = genDateText(r, q.Parser)
		}
		if q.SMin == "" || !r.Chance(1, 4) {
			q.SMax = genDateText(r, q.Parser)
		}
	case 0:
		q = QSpec{T: "term", Text: lowerWord(r), Field: vrand.Pick(r, textFields)}
	case 1, 2:
		q = QSpec{T: "match", Text: words(r, 1, 3), Field: vrand.Pick(r, textFields), Fuzz: vrand.Pick(r, []int{0, 0, 1, 2, 3}),
			Auto: r.Chance(1, 6), Prefix: vrand.Pick(r, []int{0, 0, 1, 2}), And: r.Chance(1, 3)}
	case 3:
		q = QSpec{T: "match_phrase", Text: words(r, 1, 3), Field: vrand.Pick(r, textFields), Fuzz: vrand.Pick(r, []int{0, 0, 1}), Auto: r.Chance(1, 8)}
	case 4:
		n := r.Range(1, 3)
		ts := make([]string, n)
		for i := range ts {
			ts[i] = lowerWord(r)
		}
		q = QSpec{T: "phrase", Terms: ts, Field: vrand.Pick(r, textFields), Fuzz: vrand.Pick(r, []int{0, 0, 1}), Auto: r.Chance(1, 8)}
	case 5:
		w := []rune(lowerWord(r)) // whole runes: JSON strings are valid UTF-8
		q = QSpec{T: "prefix", Text: string(w[:r.Range(1, len(w))]), Field: vrand.Pick(r, textFields)}
	case 6:
		q = QSpec{T: "wildcard", Text: vrand.Pick(r, []string{"wat*", "?at", "c*t?", "*", "a1*", "*a", "do?", "qu*k"}), Field: vrand.Pick(r, textFields)}
	case 7:
		q = QSpec{T: "regexp", Text: vrand.Pick(r, []string{"wat.*", "[a-d].+", "cat|dog", "(", "a.", ".*a", "[0-9]+"}), Field: vrand.Pick(r, textFields)}
	case 8:
		q = QSpec{T: "fuzzy", Text: lowerWord(r), Field: vrand.Pick(r, textFields), Fuzz: vrand.Pick(r, []int{0, 1, 1, 2, 3}),
			Prefix: vrand.Pick(r, []int{0, 0, 1, 3}), Auto: r.Chance(1, 6)}
	case 9:
		q = QSpec{T: "term_range", Field: vrand.Pick(r, textFields), IMin: optB(r), IMax: optB(r)}
		if !r.Chance(1, 5) {
			q.SMin = lowerWord(r)
		}
		if q.SMin == "" || !r.Chance(1, 5) {
			q.SMax = lowerWord(r)
		}
	case 10, 11:
		q = QSpec{T: "numeric_range", Field: vrand.Pick(r, []string{"n", "n", ""}), IMin: optB(r), IMax: optB(r)}
		pick := func() *float64 {
			if r.Chance(1, 5) {
				return nil
			}
			v := vrand.Pick(r, numVals)
			if r.Chance(1, 4) {
				v += vrand.Pick(r, []float64{0.25, -0.25, 1e-9, 1})
			}
			return &v
		}
		q.Min, q.Max = pick(), pick()
		if q.Min == nil && q.Max == nil {
			v := vrand.Pick(r, numVals)
			q.Max = &v
		}
	case 12, 13:
		q = QSpec{T: "date_range", Field: vrand.Pick(r, []string{"when", "when", ""}), IMin: optB(r), IMax: optB(r)}
		pick := func() *int64 {
			if r.Chance(1, 5) {
				return nil
			}
			var v int64
			switch r.Intn(6) {
			case 0: // whole days
				v = int64(r.Range(-3, 3)) * 24 * int64(time.Hour)
			case 1: // whole seconds
				v = int64(r.Range(-3, 8)) * int64(time.Second)
			case 2: // out of the supported range
				v = -int64(r.Range(200, 400)) * 365 * 24 * int64(time.Hour)
			default: // between the 100 ms grid points of the corpus, or on them
				v = int64(r.Range(-20, 80)) * 50 * int64(time.Millisecond)
				if r.Chance(1, 4) {
					v += int64(r.Range(1, 999999))
				}
			}
			return &v
		}
		q.Start, q.End = pick(), pick()
		if q.Start == nil && q.End == nil {
			v := int64(r.Range(-20, 80)) * 50 * int64(time.Millisecond)
			q.Start = &v
		}
		if r.Chance(1, 5) {
			q.ZoneMin = vrand.Pick(r, []int{330, -300, 60})
		}
	case 14:
		q = QSpec{T: "bool_field", Bool: r.Bool(), Field: vrand.Pick(r, []string{"flag", "flag", ""})}
	case 15:
		n := r.Intn(4)
		ids := []string{}
		for i := 0; i < n; i++ {
			ids = append(ids, fmt.Sprintf("d%02d", r.Intn(18)))
		}
		q = QSpec{T: "doc_ids", IDs: ids}
	default:
		switch r.Intn(4) {
		case 0:
			q = QSpec{T: "match_all"}
		case 1:
			q = QSpec{T: "match_none"}
		default:
			q = QSpec{T: "query_string", Text: vrand.Pick(r, []string{"+alpha -beta", "title:cat^2", "n:>1", "watex~1", "\"quick brown\"", "body:wat* n:<=2", "when:>\"2020-01-01T00:00:00.5Z\"", "42", "+the"})}
		}
	}
	if r.Chance(1, 4) {
		b := vrand.Pick(r, []float64{0.5, 1, 2, 3.25, 0, 1e-3})
		q.Boost = &b
	}
	return q
}

// genParserName: "" (the default parser), one of the registered custom parsers, rarely a name
// that is not registered.
func genParserName(r *vrand.R) string {
	switch r.Intn(12) {
	case 0, 1:
		return ""
	case 2:
		return "nosuch"
	}
	return dtParsers[r.Intn(len(dtParsers))].Name
}

// genDateOffset: an instant as nanoseconds relative to dateBase, around the corpus' date values.
func genDateOffset(r *vrand.R) int64 {
	switch r.Intn(6) {
	case 0:
		return int64(r.Range(-3, 3)) * 24 * int64(time.Hour)
	case 1:
		return int64(r.Range(-3, 3)) * int64(time.Minute)
	case 2:
		return int64(r.Range(-3, 8)) * int64(time.Second)
	}
	return int64(r.Range(-20, 80)) * 50 * int64(time.Millisecond)
}

// genDateText: an instant written in the syntax of the named parser; one time in eight in
// another syntax (RFC 3339, which most of the custom parsers reject, or another parser's).
func genDateText(r *vrand.R, parser string) string {
	t := dateBase.Add(time.Duration(genDateOffset(r)))
	p := dtParserNamed(parser)
	if r.Chance(1, 8) {
		if r.Bool() {
			return t.Format(time.RFC3339Nano)
		}
		p = &dtParsers[r.Intn(len(dtParsers))]
	}
	if p == nil { // default parser (dateTimeOptional) or an unregistered name
		return t.Format(vrand.Pick(r, []string{time.RFC3339Nano, time.RFC3339Nano, "2006-01-02T15:04:05", "2006-01-02 15:04:05", "2006-01-02"}))
	}
	return p.text(t)
}

func genKids(r *vrand.R, depth, lo, hi int) []QSpec {
	n := r.Range(lo, hi)
	out := make([]QSpec, n)
	for i := range out {
		out[i] = genQuery(r, depth-1)
	}
	return out
}

func genQuery(r *vrand.R, depth int) QSpec {
	if depth <= 0 || r.Chance(1, 3) {
		return genLeaf(r)
	}
	var q QSpec
	switch r.Intn(4) {
	case 0:
		q = QSpec{T: "conjunction", Kids: genKids(r, depth, 0, 3)}
	case 1:
		q = QSpec{T: "disjunction", Kids: genKids(r, depth, 0, 3), MinShould: float64(r.Intn(3))}
	default:
		q = QSpec{T: "boolean", Kids: genKids(r, depth, 0, 2), Should: genKids(r, depth, 0, 3), MustNot: genKids(r, depth, 0, 2)}
		if r.Chance(1, 3) || len(q.Kids)+len(q.Should)+len(q.MustNot) == 0 {
			f := genQuery(r, depth-1)
			q.Filter = &f
		}
		if len(q.Should) > 0 && r.Bool() {
			q.MinShould = float64(r.Range(1, 2))
		}
	}
	if r.Chance(1, 5) {
		b := vrand.Pick(r, []float64{0.5, 2, 3.25})
		q.Boost = &b
	}
	return q
}

func specTime(s QSpec, v *int64) time.Time {
	if v == nil {
		return time.Time{}
	}
	t := dateBase.Add(time.Duration(*v))
	if s.ZoneMin != 0 {
		t = t.In(time.FixedZone("", s.ZoneMin*60))
	}
	return t
}

func buildAll(ss []QSpec) []query.Query {
	out := make([]query.Query, len(ss))
	for i, s := range ss {
		out[i] = build(s)
	}
	return out
}

// build uses only the public constructors and setters.
func build(s QSpec) query.Query {
	var q query.Query
	fld := func(fq query.FieldableQuery) {
		if s.Field != "" {
			fq.SetField(s.Field)
		}
	}
	switch s.T {
	case "term":
		m := bleve.NewTermQuery(s.Text)
		fld(m)
		q = m
	case "match":
		m := bleve.NewMatchQuery(s.Text)
		fld(m)
		m.SetFuzziness(s.Fuzz)
		m.SetAutoFuzziness(s.Auto)
		m.SetPrefix(s.Prefix)
		if s.And {
			m.SetOperator(query.MatchQueryOperatorAnd)
		}
		q = m
	case "match_phrase":
		m := bleve.NewMatchPhraseQuery(s.Text)
		fld(m)
		m.SetFuzziness(s.Fuzz)
		m.SetAutoFuzziness(s.Auto)
		q = m
	case "phrase":
		m := bleve.NewPhraseQuery(s.Terms, s.Field)
		m.SetFuzziness(s.Fuzz)
		m.SetAutoFuzziness(s.Auto)
		q = m
	case "prefix":
		m := bleve.NewPrefixQuery(s.Text)
		fld(m)
		q = m
	case "wildcard":
		m := bleve.NewWildcardQuery(s.Text)
		fld(m)
		q = m
	case "regexp":
		m := bleve.NewRegexpQuery(s.Text)
		fld(m)
		q = m
	case "fuzzy":
		m := bleve.NewFuzzyQuery(s.Text)
		fld(m)
		m.SetFuzziness(s.Fuzz)
		m.SetPrefix(s.Prefix)
		m.SetAutoFuzziness(s.Auto)
		q = m
	case "term_range":
		m := bleve.NewTermRangeInclusiveQuery(s.SMin, s.SMax, s.IMin, s.IMax)
		fld(m)
		q = m
	case "numeric_range":
		m := bleve.NewNumericRangeInclusiveQuery(s.Min, s.Max, s.IMin, s.IMax)
		fld(m)
		q = m
	case "date_range":
		m := bleve.NewDateRangeInclusiveQuery(specTime(s, s.Start), specTime(s, s.End), s.IMin, s.IMax)
		fld(m)
		q = m
	case "date_range_string":
		m := bleve.NewDateRangeInclusiveStringQuery(s.SMin, s.SMax, s.IMin, s.IMax)
		fld(m)
		if s.Parser != "" {
			m.SetDateTimeParser(s.Parser)
		}
		q = m
	case "bool_field":
		m := bleve.NewBoolFieldQuery(s.Bool)
		fld(m)
		q = m
	case "doc_ids":
		q = bleve.NewDocIDQuery(s.IDs)
	case "match_all":
		q = bleve.NewMatchAllQuery()
	case "match_none":
		q = bleve.NewMatchNoneQuery()
	case "query_string":
		q = bleve.NewQueryStringQuery(s.Text)
	case "conjunction":
		q = bleve.NewConjunctionQuery(buildAll(s.Kids)...)
		if len(s.Kids) == 0 {
			q = query.NewConjunctionQuery([]query.Query{})
		}
	case "disjunction":
		m := bleve.NewDisjunctionQuery(buildAll(s.Kids)...)
		if len(s.Kids) == 0 {
			m = query.NewDisjunctionQuery([]query.Query{})
		}
		m.SetMin(s.MinShould)
		q = m
	case "boolean":
		m := bleve.NewBooleanQuery()
		if len(s.Kids) > 0 {
			m.AddMust(buildAll(s.Kids)...)
		}
		if len(s.Should) > 0 {
			m.AddShould(buildAll(s.Should)...)
			if s.MinShould > 0 {
				m.SetMinShould(s.MinShould)
			}
		}
		if len(s.MustNot) > 0 {
			m.AddMustNot(buildAll(s.MustNot)...)
		}
		if s.Filter != nil {
			m.AddFilter(build(*s.Filter))
		}
		q = m
	default:
		panic("unknown spec type " + s.T)
	}
	if s.Boost != nil {
		q.(query.BoostableQuery).SetBoost(*s.Boost)
	}
	return q
}

// hasSubSecond: some date-range bound in the tree has a non-zero sub-second part.
func hasSubSecond(s QSpec) bool {
	sub := func(v *int64) bool { return v != nil && (*v%int64(time.Second)) != 0 }
	if s.T == "date_range" && (sub(s.Start) || sub(s.End)) {
		return true
	}
	for _, l := range [][]QSpec{s.Kids, s.Should, s.MustNot} {
		for _, k := range l {
			if hasSubSecond(k) {
				return true
			}
		}
	}
	return s.Filter != nil && hasSubSecond(*s.Filter)
}

func countNodes(s QSpec) int {
	n := 1
	for _, l := range [][]QSpec{s.Kids, s.Should, s.MustNot} {
		for _, k := range l {
			n += countNodes(k)
		}
	}
	if s.Filter != nil {
		n += countNodes(*s.Filter)
	}
	return n
}

// walk visits every query node of a tree (public fields only).
func walk(q query.Query, f func(query.Query)) {
	if q == nil {
		return
	}
	f(q)
	switch t := q.(type) {
	case *query.ConjunctionQuery:
		for _, c := range t.Conjuncts {
			walk(c, f)
		}
	case *query.DisjunctionQuery:
		for _, c := range t.Disjuncts {
			walk(c, f)
		}
	case *query.BooleanQuery:
		for _, c := range []query.Query{t.Must, t.Should, t.MustNot, t.Filter} {
			if c != nil {
				walk(c, f)
			}
		}
	}
}

func jsonKind(raw json.RawMessage) int {
	s := bytes.TrimSpace(raw)
	if len(s) == 0 {
		return 0
	}
	switch s[0] {
	case '"':
		return 2
	case 't', 'f':
		return 3
	case '[':
		return 4
	case '{':
		return 5
	case 'n':
		return 6
	}
	return 1
}

func execJSON(in In) vh.Result {
	spec := *in.Q
	class := ""
	if hasSubSecond(spec) {
		class = "daterange-subsecond"
	}
	direct := func(kind, detail string) vh.Result {
		return vh.Result{Class: class, Direct: &vh.Direct{Kind: kind, Detail: detail}}
	}
	q := build(spec)
	// the property speaks about valid queries; validity is the implementation's own Validate()
	if v, ok := q.(query.ValidatableQuery); ok {
		if err := v.Validate(); err != nil {
			return vh.Result{Skip: true, Hist: []string{"json:invalid-by-Validate"}}
		}
	}
	var j1, j2 []byte
	var q2 query.Query
	var err1, errP, err2 error
	if d := vh.Guard(20*time.Second, "json.Marshal / query.ParseQuery", func() {
		j1, err1 = json.Marshal(q)
		if err1 != nil {
			return
		}
		q2, errP = query.ParseQuery(j1)
		if errP != nil {
			return
		}
		j2, err2 = json.Marshal(q2)
	}); d != nil {
		return vh.Result{Class: class, Direct: d}
	}
	if err1 != nil {
		return direct("json-marshal-error", fmt.Sprintf("json.Marshal(%T) failed: %v", q, err1))
	}
	if errP != nil {
		return direct("json-parse-error", fmt.Sprintf("query.ParseQuery rejects the marshalled query %s: %v", j1, errP))
	}
	if err2 != nil {
		return direct("json-marshal-error", fmt.Sprintf("json.Marshal of the parsed query failed: %v", err2))
	}
	// (ii) idempotence
	if !bytes.Equal(j1, j2) {
		return direct("json-not-idempotent", fmt.Sprintf("marshal(parse(marshal q)) differs:\n first  %s\n second %s", j1, j2))
	}
	// (i) same results on both engines. The very objects that were marshalled (q) and parsed (q2)
	// are executed, on every engine, and looked at again afterwards.
	if d := sameHits(in.Corpus, "json-exec-differs", fmt.Sprintf("query %s vs its JSON round trip", trunc(string(j1), 600)),
		func() query.Query { return q },
		func() query.Query { return q2 }); d != nil {
		return vh.Result{Class: class, Direct: d}
	}
	// the query values as they stand after execution: their JSON must parse back to a query with
	// the same results (a changed serialisation alone is only counted)
	infoChanged := false
	for i, x := range []query.Query{q, q2} {
		x := x
		which := []string{"as constructed", "as parsed back"}[i]
		j3, err := json.Marshal(x)
		if err != nil {
			return direct("json-marshal-error", fmt.Sprintf("json.Marshal after executing the query (%s) failed: %v", which, err))
		}
		if bytes.Equal(j1, j3) {
			continue // same JSON as before execution: covered by the comparison above
		}
		infoChanged = true
		p3, err := query.ParseQuery(j3)
		if err != nil {
			return direct("json-parse-error", fmt.Sprintf("after it was executed the query (%s) marshals to %s, which query.ParseQuery rejects: %v", which, j3, err))
		}
		if d := sameHits(in.Corpus, "json-exec-differs", fmt.Sprintf("executed query %s vs its JSON round trip", trunc(string(j3), 600)),
			func() query.Query { return x },
			func() query.Query { return p3 }); d != nil {
			return vh.Result{Class: class, Direct: d}
		}
	}
	// a freshly built / freshly parsed pair, never executed before
	if d := sameHits(in.Corpus, "json-exec-differs", fmt.Sprintf("query %s vs its JSON round trip", trunc(string(j1), 600)),
		func() query.Query { return build(spec) },
		func() query.Query { p, _ := query.ParseQuery(j1); return p }); d != nil {
		return vh.Result{Class: class, Direct: d}
	}
	// (iii) the key set of every node's JSON selects the node's type
	var nodes []cf.T
	var werr error
	walk(q, func(n query.Query) {
		b, err := json.Marshal(n)
		if err != nil {
			werr = err
			return
		}
		var m map[string]json.RawMessage
		if err := json.Unmarshal(b, &m); err != nil {
			werr = err
			return
		}
		keys := make([]string, 0, len(m))
		for k := range m {
			keys = append(keys, k)
		}
		sort.Strings(keys)
		ks := make([]cf.T, len(keys))
		for i, k := range keys {
			ks[i] = cf.Pair(cf.Str(k), cf.Int(jsonKind(m[k])))
		}
		name := strings.TrimPrefix(fmt.Sprintf("%T", n), "*query.")
		nodes = append(nodes, cf.Pair(cf.Str(name), cf.List(ks)))
	})
	if werr != nil {
		return direct("json-marshal-error", werr.Error())
	}
	hist := []string{"json", "json:root=" + spec.T}
	if spec.T == "date_range_string" {
		hist = append(hist, "json:date_range_string:parser="+spec.Parser)
	}
	if infoChanged {
		hist = append(hist, "json:info:serialisation-changed-by-search")
	}
	if class != "" {
		hist = append(hist, "json:daterange-subsecond")
	}
	return vh.Result{Term: cf.App("CDisp", cf.List(nodes)), Class: class, Nontrivial: countNodes(spec) >= 2, Hist: hist}
}

// ---------------------------------------------------------------- search requests
type SortSpec struct {
	By      string  `json:"by"` // id score field geo
	Field   string  `json:"field,omitempty"`
	Desc    bool    `json:"desc,omitempty"`
	Type    int     `json:"type,omitempty"`
	Mode    int     `json:"mode,omitempty"`
	Missing int     `json:"missing,omitempty"`
	Unit    string  `json:"unit,omitempty"`
	Lon     float64 `json:"lon,omitempty"`
	Lat     float64 `json:"lat,omitempty"`
}

type FacetSpec struct {
	Name    string     `json:"name"`
	Field   string     `json:"field"`
	Size    int        `json:"size"`
	Prefix  string     `json:"prefix,omitempty"`
	Pattern string     `json:"pattern,omitempty"`
	Num     [][2]*float64 `json:"num,omitempty"`
	Dates   [][2]*int64   `json:"dates,omitempty"` // ns relative to dateBase
	DateStr bool       `json:"date_str,omitempty"` // add as strings
	DR      []DateRangeSpec `json:"dr,omitempty"`    // date ranges, each with its own way of giving the bounds
}

// DateRangeSpec is one bucket of a date-range facet: time.Time bounds (AddDateTimeRange), string
// bounds for the default parser (AddDateTimeRangeString) or string bounds naming a date time
// parser of the mapping (AddDateTimeRangeStringWithParser).
type DateRangeSpec struct {
	Mode   int     `json:"mode"` // 0 time.Time, 1 strings, 2 strings with parser
	Lo     *int64  `json:"lo,omitempty"`
	Hi     *int64  `json:"hi,omitempty"`
	SLo    *string `json:"slo,omitempty"`
	SHi    *string `json:"shi,omitempty"`
	Parser string  `json:"parser,omitempty"`
}

type ReqSpec struct {
	Q         QSpec       `json:"q"`
	Size      int         `json:"size"`
	From      int         `json:"from"`
	Explain   bool        `json:"explain,omitempty"`
	Sort      []SortSpec  `json:"sort,omitempty"`
	SortStrs  []string    `json:"sort_strs,omitempty"`
	Fields    []string    `json:"fields,omitempty"`
	Facets    []FacetSpec `json:"facets,omitempty"`
	Highlight int         `json:"highlight,omitempty"` // 0 none, 1 default, 2 with style, 3 with fields
	After     []string    `json:"after,omitempty"`
	Before    []string    `json:"before,omitempty"`
	Score     string      `json:"score,omitempty"`
	Locations bool        `json:"locations,omitempty"`
}

var sortFields = []string{"title", "tag", "n", "when", "flag", "body", "missing"}

func genReq(r *vrand.R) ReqSpec {
	rq := ReqSpec{Q: genQuery(r, r.Range(0, 2)), Size: vrand.Pick(r, []int{0, 1, 3, 10, 100}), From: vrand.Pick(r, []int{0, 0, 1, 5}),
		Explain: r.Chance(1, 5), Locations: r.Chance(1, 5)}
	if r.Chance(1, 2) {
		rq.Q = QSpec{T: "match_all"}
	}
	switch r.Intn(4) {
	case 0: // default
	case 1:
		n := r.Range(1, 3)
		for i := 0; i < n; i++ {
			s := vrand.Pick(r, append([]string{"_id", "_score"}, sortFields...))
			if r.Bool() {
				s = "-" + s
			} else if r.Chance(1, 4) {
				s = "+" + s
			}
			rq.SortStrs = append(rq.SortStrs, s)
		}
	default:
		n := r.Range(1, 3)
		for i := 0; i < n; i++ {
			s := SortSpec{By: vrand.Pick(r, []string{"id", "score", "field", "field", "field", "geo"}), Desc: r.Bool()}
			switch s.By {
			case "field":
				s.Field = vrand.Pick(r, sortFields)
				s.Type, s.Mode, s.Missing = r.Intn(4), r.Intn(3), r.Intn(2)
				if r.Chance(1, 3) {
					s.Type, s.Mode, s.Missing = 0, 0, 0
				}
			case "geo":
				s.Field = "loc"
				s.Unit = vrand.Pick(r, []string{"", "km", "mi", "m"})
				s.Lon, s.Lat = float64(r.Range(-10, 10))/2, float64(r.Range(-10, 10))/2
			}
			rq.Sort = append(rq.Sort, s)
		}
	}
	if r.Chance(1, 3) {
		rq.Fields = [][]string{{"*"}, {"title"}, {"title", "n", "when"}, {}}[r.Intn(4)]
	}
	nf := 0
	if r.Chance(1, 2) {
		nf = r.Range(1, 3)
	}
	for i := 0; i < nf; i++ {
		f := FacetSpec{Name: fmt.Sprintf("f%d", i), Size: r.Range(1, 5)}
		switch r.Intn(6) {
		case 4, 5:
			// date ranges whose bounds are given per bucket as time.Time values, as strings for the
			// default parser, or as strings in the syntax of a named parser of the mapping
			f.Field = "when"
			n := r.Range(1, 4)
			mode := r.Intn(4) // 3: mixed
			parser := genParserName(r)
			for k := 0; k < n; k++ {
				d := DateRangeSpec{Mode: mode}
				if mode == 3 {
					d.Mode = r.Intn(3)
				}
				lo, hi := !r.Chance(1, 4), !r.Chance(1, 4)
				if !lo && !hi {
					lo = true
				}
				switch d.Mode {
				case 0:
					if lo {
						v := genDateOffset(r)
						d.Lo = &v
					}
					if hi {
						v := genDateOffset(r)
						d.Hi = &v
					}
				default:
					if d.Mode == 2 {
						d.Parser = parser
						if mode == 3 && r.Bool() {
							d.Parser = genParserName(r)
						}
					}
					if lo {
						v := genDateText(r, d.Parser)
						d.SLo = &v
					}
					if hi {
						v := genDateText(r, d.Parser)
						d.SHi = &v
					}
				}
				f.DR = append(f.DR, d)
			}
		case 0:
			f.Field = vrand.Pick(r, []string{"tag", "title", "body"})
			if r.Chance(1, 3) {
				f.Prefix = vrand.Pick(r, []string{"a", "wat", "c"})
			}
			if r.Chance(1, 4) {
				f.Pattern = vrand.Pick(r, []string{"^[a-c]", "a$", "("})
			}
		case 1:
			f.Field = "n"
			n := r.Range(1, 3)
			for k := 0; k < n; k++ {
				var lo, hi *float64
				if !r.Chance(1, 4) {
					v := vrand.Pick(r, numVals)
					lo = &v
				}
				if !r.Chance(1, 4) {
					v := vrand.Pick(r, numVals)
					hi = &v
				}
				f.Num = append(f.Num, [2]*float64{lo, hi})
			}
		default:
			f.Field = "when"
			f.DateStr = r.Bool()
			n := r.Range(1, 3)
			for k := 0; k < n; k++ {
				var lo, hi *int64
				if !r.Chance(1, 4) {
					v := int64(r.Range(-20, 80)) * 50 * int64(time.Millisecond)
					lo = &v
				}
				if !r.Chance(1, 4) {
					v := int64(r.Range(-20, 80)) * 50 * int64(time.Millisecond)
					hi = &v
				}
				f.Dates = append(f.Dates, [2]*int64{lo, hi})
			}
		}
		rq.Facets = append(rq.Facets, f)
	}
	rq.Highlight = vrand.Pick(r, []int{0, 0, 1, 2, 3})
	if r.Chance(1, 6) {
		rq.Score = "none"
	}
	if r.Chance(1, 3) {
		// paging keys: one value per sort key
		n := len(rq.Sort) + len(rq.SortStrs)
		if n == 0 {
			n = 1
		}
		vals := make([]string, n)
		for i := range vals {
			vals[i] = vrand.Pick(r, []string{"d05", "1.5", "cat", "2020-01-01T00:00:00.5Z", "0.25", ""})
		}
		if r.Chance(1, 8) {
			vals = vals[:len(vals)-1]
		}
		if r.Bool() {
			rq.After = vals
		} else {
			rq.Before = vals
		}
		if !r.Chance(1, 6) {
			rq.From = 0
		}
	}
	return rq
}

func buildReq(s ReqSpec) (*bleve.SearchRequest, error) {
	req := bleve.NewSearchRequestOptions(build(s.Q), s.Size, s.From, s.Explain)
	if len(s.SortStrs) > 0 {
		req.SortBy(s.SortStrs)
	}
	if len(s.Sort) > 0 {
		var so search.SortOrder
		for _, x := range s.Sort {
			switch x.By {
			case "id":
				so = append(so, &search.SortDocID{Desc: x.Desc})
			case "score":
				so = append(so, &search.SortScore{Desc: x.Desc})
			case "field":
				so = append(so, &search.SortField{Field: x.Field, Desc: x.Desc, Type: search.SortFieldType(x.Type),
					Mode: search.SortFieldMode(x.Mode), Missing: search.SortFieldMissing(x.Missing)})
			case "geo":
				g, err := search.NewSortGeoDistance(x.Field, x.Unit, x.Lon, x.Lat, x.Desc)
				if err != nil {
					return nil, err
				}
				so = append(so, g)
			}
		}
		req.SortByCustom(so)
	}
	if s.Fields != nil {
		req.Fields = s.Fields
	}
	for _, f := range s.Facets {
		fr := bleve.NewFacetRequest(f.Field, f.Size)
		if f.Prefix != "" {
			fr.SetPrefixFilter(f.Prefix)
		}
		if f.Pattern != "" {
			fr.SetRegexFilter(f.Pattern)
		}
		for i, nr := range f.Num {
			fr.AddNumericRange(fmt.Sprintf("r%d", i), nr[0], nr[1])
		}
		for i, dr := range f.Dates {
			name := fmt.Sprintf("r%d", i)
			var st, en time.Time
			if dr[0] != nil {
				st = dateBase.Add(time.Duration(*dr[0]))
			}
			if dr[1] != nil {
				en = dateBase.Add(time.Duration(*dr[1]))
			}
			if f.DateStr {
				var sp, ep *string
				if dr[0] != nil {
					x := st.Format(time.RFC3339Nano)
					sp = &x
				}
				if dr[1] != nil {
					x := en.Format(time.RFC3339Nano)
					ep = &x
				}
				fr.AddDateTimeRangeString(name, sp, ep)
			} else {
				fr.AddDateTimeRange(name, st, en)
			}
		}
		for i, d := range f.DR {
			name := fmt.Sprintf("d%d", i)
			switch d.Mode {
			case 0:
				var st, en time.Time
				if d.Lo != nil {
					st = dateBase.Add(time.Duration(*d.Lo))
				}
				if d.Hi != nil {
					en = dateBase.Add(time.Duration(*d.Hi))
				}
				fr.AddDateTimeRange(name, st, en)
			case 1:
				fr.AddDateTimeRangeString(name, strCopy(d.SLo), strCopy(d.SHi))
			default:
				fr.AddDateTimeRangeStringWithParser(name, strCopy(d.SLo), strCopy(d.SHi), d.Parser)
			}
		}
		req.AddFacet(f.Name, fr)
	}
	switch s.Highlight {
	case 1:
		req.Highlight = bleve.NewHighlight()
	case 2:
		req.Highlight = bleve.NewHighlightWithStyle("html")
	case 3:
		req.Highlight = bleve.NewHighlight()
		req.Highlight.AddField("title")
		req.Highlight.AddField("body")
	}
	if s.After != nil {
		req.SetSearchAfter(s.After)
	}
	if s.Before != nil {
		req.SetSearchBefore(s.Before)
	}
	req.Score = s.Score
	req.IncludeLocations = s.Locations
	return req, nil
}

func strCopy(p *string) *string {
	if p == nil {
		return nil
	}
	v := *p
	return &v
}

// resultDigest: everything a caller can observe in a SearchResult except timings and the echoed request.
func resultDigest(idx bleve.Index, req *bleve.SearchRequest) string {
	res, err := idx.Search(req)
	if err != nil {
		return "ERR"
	}
	b, err := json.Marshal(struct {
		Hits     search.DocumentMatchCollection `json:"hits"`
		Total    uint64                         `json:"total"`
		MaxScore float64                        `json:"max_score"`
		Facets   search.FacetResults            `json:"facets"`
		Failed   int                            `json:"failed"`
	}{res.Hits, res.Total, res.MaxScore, res.Facets, res.Status.Failed})
	if err != nil {
		return "MARSHAL-ERR " + err.Error()
	}
	return string(b)
}

func execReq(in In) vh.Result {
	spec := *in.Req
	class := ""
	if hasSubSecond(spec.Q) {
		class = "daterange-subsecond"
	}
	direct := func(kind, detail string) vh.Result {
		return vh.Result{Class: class, Direct: &vh.Direct{Kind: kind, Detail: detail}}
	}
	req, err := buildReq(spec)
	if err != nil {
		return vh.Result{Skip: true}
	}
	if err := req.Validate(); err != nil {
		return vh.Result{Skip: true, Hist: []string{"req:invalid-by-Validate"}}
	}
	var j1, j2 []byte
	var err1, errU, err2 error
	if d := vh.Guard(20*time.Second, "SearchRequest JSON round trip", func() {
		j1, err1 = json.Marshal(req)
		if err1 != nil {
			return
		}
		var r2 bleve.SearchRequest
		if errU = json.Unmarshal(j1, &r2); errU != nil {
			return
		}
		j2, err2 = json.Marshal(&r2)
	}); d != nil {
		return vh.Result{Class: class, Direct: d}
	}
	if err1 != nil {
		return direct("request-marshal-error", err1.Error())
	}
	if errU != nil {
		return direct("request-parse-error", fmt.Sprintf("SearchRequest.UnmarshalJSON rejects %s: %v", j1, errU))
	}
	if err2 != nil {
		return direct("request-marshal-error", err2.Error())
	}
	if !bytes.Equal(j1, j2) {
		return direct("request-json-not-idempotent", fmt.Sprintf("first  %s\nsecond %s", j1, j2))
	}
	// the parsed-back sort order must be the same ordering: compare it attribute by attribute
	// (field, direction, type, mode, missing), which does not depend on the corpus at hand
	{
		var r2 bleve.SearchRequest
		if err := json.Unmarshal(j1, &r2); err == nil {
			if a, b := sortDump(req.Sort), sortDump(r2.Sort); a != b {
				return direct("request-sort-differs", fmt.Sprintf("request %s: sort order before %s, after the JSON round trip %s", trunc(string(j1), 600), a, b))
			}
		}
	}
	// The statement is about request VALUES: whatever value a request has, its JSON parses back to
	// an equivalent request. Two values are looked at per engine: the request as constructed, and
	// the request as it stands after Index.Search has run on it (successfully or not) - requests
	// are reused, and Search is allowed to touch its argument, but the value it leaves behind must
	// still serialise to a request that means the same. ONE request object ("used") goes through
	// all engines. Equivalence = same sort order attribute by attribute + same results when both
	// are executed; a changed serialisation alone is only counted (hist), never reported.
	used, _ := buildReq(spec)
	hist := []string{"req"}
	for _, eng := range engines {
		idx, err := getIndex(in.Corpus, eng)
		if err != nil {
			return vh.Result{Direct: &vh.Direct{Kind: "harness-index", Detail: err.Error()}}
		}
		var a, c, u0, u1, ub string
		var jU, jB []byte
		var errU, errP, errB error
		var sortU, sortB string
		if d := vh.Guard(60*time.Second, "Index.Search(request)", func() {
			// the request as constructed vs its round trip (neither executed before)
			r1, _ := buildReq(spec)
			a = resultDigest(idx, r1)
			var r3 bleve.SearchRequest
			if err := json.Unmarshal(j1, &r3); err != nil {
				c = "UNMARSHAL-ERR " + err.Error()
			} else {
				c = resultDigest(idx, &r3)
			}
			// the request as it stands after execution vs its round trip
			u0 = resultDigest(idx, used)
			jU, errU = json.Marshal(used)
			if errU != nil {
				return
			}
			var r2 bleve.SearchRequest
			if errP = json.Unmarshal(jU, &r2); errP != nil {
				return
			}
			sortU, sortB = sortDump(used.Sort), sortDump(r2.Sort)
			u1 = resultDigest(idx, used)
			ub = resultDigest(idx, &r2)
			jB, errB = json.Marshal(&r2)
		}); d != nil {
			return vh.Result{Class: class, Direct: d}
		}
		where := fmt.Sprintf("request %s on corpus %d (%s)", trunc(string(j1), 800), in.Corpus, eng)
		if a == "ERR" {
			hist = append(hist, "req:search-error")
		}
		if a != c {
			return direct("request-exec-differs", fmt.Sprintf("%s:\n direct     %s\n round trip %s", where, trunc(a, 1500), trunc(c, 1500)))
		}
		after := fmt.Sprintf("%s: after Index.Search ran on it the request serialises as\n %s\n", where, trunc(string(jU), 800))
		if errU != nil {
			return direct("request-marshal-error", where+": after execution: "+errU.Error())
		}
		if errP != nil {
			return direct("request-parse-error", after+" which SearchRequest.UnmarshalJSON rejects: "+errP.Error())
		}
		if sortU != sortB {
			return direct("request-sort-differs", fmt.Sprintf("%s sort order of the executed request %s, after its JSON round trip %s", after, sortU, sortB))
		}
		if u1 != ub {
			return direct("request-exec-differs", fmt.Sprintf("%s the executed request returns\n   %s\n its JSON round trip returns\n   %s", after, trunc(u1, 1500), trunc(ub, 1500)))
		}
		if errB != nil {
			return direct("request-marshal-error", after+" marshalling the parsed-back request: "+errB.Error())
		}
		if !bytes.Equal(jU, jB) {
			return direct("request-json-not-idempotent", fmt.Sprintf("%s first  %s\nsecond %s", after, jU, jB))
		}
		// informational only (not part of C17's statement)
		if !bytes.Equal(j1, jU) {
			hist = append(hist, "req:info:serialisation-changed-by-search")
		}
		if u0 != u1 {
			hist = append(hist, "req:info:second-execution-differs")
		}
	}
	for _, f := range spec.Facets {
		for _, d := range f.DR {
			hist = append(hist, fmt.Sprintf("req:facet-date:mode=%d", d.Mode))
			if d.Mode == 2 {
				hist = append(hist, "req:facet-date:parser="+d.Parser)
			}
		}
		if len(f.Num) > 0 {
			hist = append(hist, "req:facet-numeric")
		}
		if len(f.Num) == 0 && len(f.DR) == 0 && len(f.Dates) == 0 {
			hist = append(hist, "req:facet-terms")
		}
	}
	if spec.After != nil {
		hist = append(hist, "req:search-after")
	}
	if spec.Before != nil {
		hist = append(hist, "req:search-before")
	}
	return vh.Result{Skip: true, Hist: hist}
}


// sortDump renders a sort order attribute by attribute; a nil order is the default (score descending).
func sortDump(so search.SortOrder) string {
	if len(so) == 0 {
		return "[score desc]"
	}
	var parts []string
	for _, x := range so {
		switch t := x.(type) {
		case *search.SortField:
			parts = append(parts, fmt.Sprintf("field(%s desc=%v type=%d mode=%d missing=%d)", t.Field, t.Desc, t.Type, t.Mode, t.Missing))
		case *search.SortDocID:
			parts = append(parts, fmt.Sprintf("id desc=%v", t.Desc))
		case *search.SortScore:
			parts = append(parts, fmt.Sprintf("score desc=%v", t.Desc))
		case *search.SortGeoDistance:
			parts = append(parts, fmt.Sprintf("geo(%s desc=%v unit=%s %v,%v)", t.Field, t.Desc, t.Unit, t.Lon, t.Lat))
		default:
			parts = append(parts, fmt.Sprintf("%T", x))
		}
	}
	return "[" + strings.Join(parts, "; ") + "]"
}
