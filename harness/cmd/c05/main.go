// C05 harness: one logical history, several physical layouts (batch partitions, persister and
// merge-plan options, forced merges in the middle and at the end of the history, in-memory merges
// followed by more batches, close/reopen, older segment formats, memory vs disk) under one of
// several field mappings (term vectors on/off per field; numeric, boolean, datetime and
// multi-valued keyword fields); a family of requests -- every query shape both as a rich scoring
// request and as a Score:"none" request -- must return bit-identical answers on all of them (the
// property itself, an implementation-vs-implementation comparison), every disk layout's event
// trace must be accepted by the Coq scorch model and every layout's final contents must equal the
// replay. Every search runs under a watchdog: a search that does not return is a violation.
package main

import (
	"encoding/json"
	"fmt"
	"math"
	"os"
	"sort"
	"strconv"
	"strings"
	"sync/atomic"
	"time"

	"github.com/blevesearch/bleve/v2"
	"github.com/blevesearch/bleve/v2/index/scorch"
	"github.com/blevesearch/bleve/v2/mapping"
	"github.com/blevesearch/bleve/v2/search"
	"github.com/blevesearch/bleve/v2/search/query"

	cf "verifharness/internal/coqfmt"
	"verifharness/internal/strace"
	"verifharness/internal/sw"
	"verifharness/internal/vh"
	"verifharness/internal/vrand"
)

// Mid is something done between two batches of a layout.
type Mid struct {
	After int    `json:"after"` // number of batches applied before it
	Kind  string `json:"kind"`  // forcemerge (merge all file segments into one) | settle (wait until the persister has flushed / merged the in-memory segments)
}

type LayoutSpec struct {
	Layout     sw.Layout `json:"layout"`
	Cuts       []int     `json:"cuts"` // batch boundaries (indices into Ops); nil = one batch per op
	OneBatch   bool      `json:"one_batch,omitempty"`
	ForceMerge bool      `json:"force_merge,omitempty"`
	Reopen     bool      `json:"reopen,omitempty"`
	// LazyPlan: the background merge planner leaves small segments alone, so the root keeps one
	// segment per batch / per merge product until a merge is forced
	LazyPlan bool  `json:"lazy_plan,omitempty"`
	Mid      []Mid `json:"mid,omitempty"`
}

// Schema is the field-mapping variant (zero value = sw.Mapping() for the fields it defines).
type Schema struct {
	BodyNoTV bool `json:"body_no_tv,omitempty"` // text field "body" without term vectors
	TagNoTV  bool `json:"tag_no_tv,omitempty"`  // keyword field "tag" without term vectors
	KwTV     bool `json:"kw_tv,omitempty"`      // multi-valued keyword field "kw" WITH term vectors
}

type In struct {
	NIDs    int          `json:"nids"`
	Ops     []sw.Op      `json:"ops"`
	Layouts []LayoutSpec `json:"layouts"`
	ReqSeed uint64       `json:"req_seed"`
	Schema  Schema       `json:"schema"`
}

func gen(f vh.Flags, r *vrand.R, emit func(In)) {
	n := f.N(15, 600)
	for k := 0; k < n; k++ {
		var nids, nops int
		var ops []sw.Op
		var ver int64
		if k%3 == 2 {
			// insert-only history: every id written once, nothing deleted or overwritten
			nops = r.Range(6, 26)
			nids = nops
			perm := make([]int, nids)
			for i := range perm {
				perm[i] = i
			}
			vrand.Shuffle(r, perm)
			for i := 0; i < nops; i++ {
				ver++
				ops = append(ops, sw.Op{Kind: "index", ID: perm[i], Ver: ver})
			}
		} else {
			nids = r.Range(5, 12)
			nops = r.Range(8, 40)
			for i := 0; i < nops; i++ {
				ver++
				if r.Chance(3, 4) {
					ops = append(ops, sw.Op{Kind: "index", ID: r.Intn(nids), Ver: ver})
				} else {
					ops = append(ops, sw.Op{Kind: "delete", ID: r.Intn(nids)})
				}
			}
		}
		randCuts := func(den int) []int {
			cuts := []int{}
			for i := 1; i < nops; i++ {
				if r.Chance(1, den) {
					cuts = append(cuts, i)
				}
			}
			return cuts
		}
		// mid-history actions for a layout with nb batches: 1-2 of them, never after the last batch
		mids := func(nb int, kind string) []Mid {
			lo := 1
			if kind == "settle" && nb > 2 {
				lo = 2 // at least two in-memory segments for the persister to merge
			}
			if nb < 2 {
				return nil
			}
			ms := []Mid{{After: r.Range(lo, nb-1), Kind: kind}}
			if nb > 3 && r.Chance(1, 3) {
				a := r.Range(lo, nb-1)
				if a != ms[0].After {
					ms = append(ms, Mid{After: a, Kind: kind})
				}
			}
			return ms
		}
		nb := func(cuts []int) int { return len(cuts) + 1 }
		ls := []LayoutSpec{
			{Layout: sw.Layout{Config: "scorch-mem"}, OneBatch: true},
			{Layout: sw.Layout{Config: "scorch-disk", Opts: 0}},                                              // one batch per op
			{Layout: sw.Layout{Config: "scorch-disk", Opts: r.Range(1, 4), Unsafe: true}, Cuts: randCuts(3)}, // piles of memory segments
			{Layout: sw.Layout{Config: "scorch-disk", Opts: r.Range(1, 4)}, Cuts: randCuts(3), ForceMerge: true},
			{Layout: sw.Layout{Config: "scorch-disk", Opts: r.Intn(5)}, Cuts: randCuts(3), Reopen: true},
		}
		// a file-merge product followed by segments of their own: forced merge(s) in the middle of
		// the history, planner left lazy so that what follows stays as it was written
		c1 := randCuts(2)
		l1 := LayoutSpec{Layout: sw.Layout{Config: "scorch-disk"}, Cuts: c1, LazyPlan: true, Mid: mids(nb(c1), "forcemerge"), ForceMerge: true, Reopen: r.Chance(1, 3)}
		if r.Chance(1, 4) {
			l1.Layout.SegVer = r.Range(11, 16)
		}
		ls = append(ls, l1)
		// an in-memory-merge product followed by more segments: unsafe batches pile up in front of a
		// napping persister (1, 2 or 4 workers), which merges them in memory when it wakes; then more
		c2 := randCuts(2)
		l2 := LayoutSpec{Layout: sw.Layout{Config: "scorch-disk", Opts: vrand.Pick(r, []int{0, 1, 4}), Unsafe: true}, Cuts: c2, LazyPlan: true, Mid: mids(nb(c2), "settle"), ForceMerge: r.Bool()}
		ls = append(ls, l2)
		if r.Chance(1, 2) {
			ls = append(ls, LayoutSpec{Layout: sw.Layout{Config: "scorch-disk", SegVer: r.Range(11, 16)}, Cuts: randCuts(3), ForceMerge: r.Bool()})
		}
		emit(In{NIDs: nids, Ops: ops, Layouts: ls, ReqSeed: r.U64(),
			Schema: Schema{BodyNoTV: r.Chance(1, 3), TagNoTV: r.Chance(1, 2), KwTV: r.Chance(1, 3)}})
	}
}

func batches(in In, l LayoutSpec) [][]sw.Op {
	if l.OneBatch {
		return [][]sw.Op{in.Ops}
	}
	var out [][]sw.Op
	if l.Cuts == nil {
		for _, o := range in.Ops {
			out = append(out, []sw.Op{o})
		}
		return out
	}
	prev := 0
	for _, c := range append(append([]int{}, l.Cuts...), len(in.Ops)) {
		if c > prev {
			out = append(out, in.Ops[prev:c])
		}
		prev = c
	}
	return out
}

// ---------------------------------------------------------------- documents and mapping

// KW is the vocabulary of the multi-valued keyword field "kw": terms sharing prefixes, so that
// term-range, prefix, regexp, wildcard and fuzzy queries expand to several dictionary terms that
// are spread unevenly over the segments.
var KW = []string{"ta", "tab", "tac", "tb", "tba", "tc", "tca", "td", "ua", "ub"}

var whenBase = time.Date(2020, 1, 1, 12, 0, 0, 0, time.UTC)

// docFor = sw.DocFor (the stored fields sw.StoredVersion checks) + unstored fields of the other
// field types: kw (1-2 keywords), flag (boolean), when (datetime), m (numeric, 23 values).
func docFor(id int, ver int64) map[string]interface{} {
	d := sw.DocFor(id, ver)
	h := (uint64(id)+1)*0x9E3779B97F4A7C15 ^ uint64(ver)*0xC2B2AE3D27D4EB4F
	h ^= h >> 29
	h *= 0xBF58476D1CE4E5B9
	h ^= h >> 32
	kws := []string{KW[h%uint64(len(KW))]}
	if (h>>8)%3 == 0 {
		kws = append(kws, KW[(h>>16)%uint64(len(KW))])
	}
	return map[string]interface{}{
		"v": d.V, "body": d.Body, "tag": d.Tag, "n": d.N, "arr": d.Arr,
		"kw":   kws,
		"flag": (h>>24)&1 == 1,
		"when": whenBase.AddDate(0, 0, int((h>>28)%6)).Format(time.RFC3339),
		"m":    float64((h >> 36) % 23),
	}
}

func mappingFor(sc Schema) mapping.IndexMapping {
	m := sw.Mapping()
	dm := m.(*mapping.IndexMappingImpl).DefaultMapping
	dm.Properties["body"].Fields[0].IncludeTermVectors = !sc.BodyNoTV
	dm.Properties["tag"].Fields[0].IncludeTermVectors = !sc.TagNoTV
	kw := bleve.NewKeywordFieldMapping()
	kw.Store, kw.IncludeInAll, kw.IncludeTermVectors = false, false, sc.KwTV
	dm.AddFieldMappingsAt("kw", kw)
	fl := bleve.NewBooleanFieldMapping()
	fl.Store, fl.IncludeInAll = false, false
	dm.AddFieldMappingsAt("flag", fl)
	wh := bleve.NewDateTimeFieldMapping()
	wh.Store, wh.IncludeInAll = false, false
	dm.AddFieldMappingsAt("when", wh)
	mm := bleve.NewNumericFieldMapping()
	mm.Store, mm.IncludeInAll = false, false
	dm.AddFieldMappingsAt("m", mm)
	return m
}

var dictFieldsAll = []string{"body", "tag", "kw", "n", "m", "when", "flag"}

func open(l LayoutSpec, sc Schema) (idx bleve.Index, path, dir string, err error) {
	m := mappingFor(sc)
	switch l.Layout.Config {
	case "scorch-mem":
		idx, err = bleve.NewUsing("", m, scorch.Name, scorch.Name, nil)
		return
	case "scorch-disk":
		kvc := sw.ScorchConfig(l.Layout)
		if l.LazyPlan {
			kvc["scorchMergePlanOptions"] = map[string]interface{}{"MaxSegmentsPerTier": 1000, "FloorSegmentSize": 1}
			if l.Layout.Unsafe {
				po, _ := kvc["scorchPersisterOptions"].(map[string]interface{})
				if po == nil {
					po = map[string]interface{}{}
				}
				po["PersisterNapTimeMSec"] = 15
				po["PersisterNapUnderNumFiles"] = 1000
				kvc["scorchPersisterOptions"] = po
			}
		}
		dir, err = os.MkdirTemp("", "vh_c05_")
		if err != nil {
			return
		}
		path = dir + "/idx"
		idx, err = bleve.NewUsing(path, m, scorch.Name, scorch.Name, kvc)
		return
	}
	return nil, "", "", fmt.Errorf("unknown config %q", l.Layout.Config)
}

// build fills and tags a batch like sw.Tagger.Build, with docFor documents.
func build(t *sw.Tagger, idx bleve.Index, ops []sw.Op, tag bool) (*bleve.Batch, error) {
	t.Seq++
	b := idx.NewBatch()
	vers := map[string]int64{}
	for _, o := range ops {
		switch o.Kind {
		case "index":
			if err := b.Index(sw.DocName(o.ID), docFor(o.ID, o.Ver)); err != nil {
				return nil, err
			}
			vers[sw.DocName(o.ID)] = o.Ver
		case "delete":
			b.Delete(sw.DocName(o.ID))
			delete(vers, sw.DocName(o.ID))
		}
	}
	if tag {
		b.SetInternal([]byte("__b"), []byte(strconv.FormatInt(t.Seq, 10)))
	}
	t.Vers[t.Seq] = vers
	return b, nil
}

func rootSegs(idx bleve.Index) (mem, file int) {
	im, _ := idx.StatsMap()["index"].(map[string]interface{})
	if im == nil {
		return -1, -1
	}
	a, _ := im["num_root_memorysegments"].(uint64)
	b, _ := im["num_root_filesegments"].(uint64)
	return int(a), int(b)
}

// rootEpoch: the epoch of the current root (stored under the root lock together with the root
// swap, so a reader that sees a newer root is ordered after the store).
func rootEpoch(idx bleve.Index) uint64 {
	im, _ := idx.StatsMap()["index"].(map[string]interface{})
	e, _ := im["CurRootEpoch"].(uint64)
	return e
}

// settle waits (bounded) until no in-memory segment is left at the root. Only coverage depends
// on it, never a verdict.
func settle(idx bleve.Index) {
	for i := 0; i < 150; i++ {
		if m, _ := rootSegs(idx); m <= 0 {
			return
		}
		time.Sleep(10 * time.Millisecond)
	}
}

// ---------------------------------------------------------------- requests

type reqSpec struct {
	name    string
	req     *bleve.SearchRequest
	scoring bool
	// fields whose dictionaries a multi-term leaf of the query expands (nil = no such leaf)
	dict []string
}

type shape struct {
	name string
	mk   func() query.Query // a fresh query object per request
	dict []string
}

func shapes(seed uint64) []shape {
	r := vrand.New(seed)
	w := func() string { return vrand.Pick(r, sw.Words) }
	kwf := func() string { return vrand.Pick(r, KW) }
	tagw := func() string { return vrand.Pick(r, sw.Words[:3]) }
	yes, no := true, false
	pb := func(b bool) *bool {
		if b {
			return &yes
		}
		return &no
	}
	term := func(t, f string) query.Query { q := bleve.NewTermQuery(t); q.SetField(f); return q }
	match := func(s string) query.Query { q := bleve.NewMatchQuery(s); q.SetField("body"); return q }
	phrase := func(s string) query.Query { q := bleve.NewMatchPhraseQuery(s); q.SetField("body"); return q }
	numr := func(f string, lo, hi float64, li, hi_ bool) query.Query {
		q := bleve.NewNumericRangeInclusiveQuery(&lo, &hi, pb(li), pb(hi_))
		q.SetField(f)
		return q
	}
	var out []shape
	add := func(name string, dict []string, mk func() query.Query) { out = append(out, shape{name, mk, dict}) }

	// the six shapes of the first version of this harness
	m1 := w() + " " + w()
	add("match2", nil, func() query.Query { return match(m1) })
	t1 := tagw()
	add("term-tag", nil, func() query.Query { return term(t1, "tag") })
	ph, b1, b2, b3 := w()+" "+w(), w(), w(), tagw()
	add("bool", nil, func() query.Query {
		bq := bleve.NewBooleanQuery()
		bq.AddMust(match(b1))
		bq.AddShould(match(b2))
		bq.AddShould(phrase(ph))
		bq.AddMustNot(term(b3, "tag"))
		return bq
	})
	nlo, nhi := float64(r.Range(0, 3)), float64(r.Range(3, 7))
	add("or(numrange-n,phrase)", []string{"n"}, func() query.Query {
		return bleve.NewDisjunctionQuery(numr("n", nlo, nhi, true, false), phrase(ph))
	})
	add("matchall", nil, func() query.Query { return bleve.NewMatchAllQuery() })
	pfx := w()[:2]
	add("prefix-body", []string{"body"}, func() query.Query { q := bleve.NewPrefixQuery(pfx); q.SetField("body"); return q })

	// disjunctions / conjunctions of term leaves on every kind of field
	k1, k2, k3 := kwf(), kwf(), kwf()
	add("or(kw,kw,kw)", nil, func() query.Query {
		return bleve.NewDisjunctionQuery(term(k1, "kw"), term(k2, "kw"), term(k3, "kw"))
	})
	t2, t3 := tagw(), tagw()
	add("or(tag,tag)", nil, func() query.Query { return bleve.NewDisjunctionQuery(term(t2, "tag"), term(t3, "tag")) })
	bw := w()
	add("or(kw,tag,body)", nil, func() query.Query {
		return bleve.NewDisjunctionQuery(term(k2, "kw"), term(t2, "tag"), term(bw, "body"))
	})
	add("or-min2(kw,tag,body,kw)", nil, func() query.Query {
		d := bleve.NewDisjunctionQuery(term(k1, "kw"), term(t3, "tag"), term(bw, "body"), term(k3, "kw"))
		d.SetMin(2)
		return d
	})
	add("and(kw,tag)", nil, func() query.Query { return bleve.NewConjunctionQuery(term(k1, "kw"), term(t2, "tag")) })
	add("and(body,tag)", nil, func() query.Query { return bleve.NewConjunctionQuery(term(bw, "body"), term(t3, "tag")) })
	fb := r.Bool()
	add("boolfield", nil, func() query.Query { q := bleve.NewBoolFieldQuery(fb); q.SetField("flag"); return q })
	add("or(boolfield,kw)", nil, func() query.Query {
		q := bleve.NewBoolFieldQuery(!fb)
		q.SetField("flag")
		return bleve.NewDisjunctionQuery(q, term(k3, "kw"))
	})

	// numeric and date ranges
	n2lo := float64(r.Range(0, 5))
	n2hi := n2lo + float64(r.Range(0, 3))
	add("numrange-n-incl", []string{"n"}, func() query.Query { return numr("n", n2lo, n2hi, true, true) })
	mlo := float64(r.Range(0, 18))
	mhi := mlo + float64(r.Range(1, 12))
	mli, mhi_ := r.Bool(), r.Bool()
	add("numrange-m", []string{"m"}, func() query.Query { return numr("m", mlo, mhi, mli, mhi_) })
	add("and(numrange-m,tag)", []string{"m"}, func() query.Query {
		return bleve.NewConjunctionQuery(numr("m", mlo, mhi, true, true), term(t2, "tag"))
	})
	d0 := r.Range(0, 4)
	d1 := d0 + r.Range(0, 3)
	add("daterange", []string{"when"}, func() query.Query {
		q := bleve.NewDateRangeInclusiveQuery(whenBase.AddDate(0, 0, d0).Add(-time.Hour), whenBase.AddDate(0, 0, d1).Add(time.Hour), pb(true), pb(true))
		q.SetField("when")
		return q
	})

	// dictionary enumerations: term range, prefix, regexp, wildcard, fuzzy
	ra, rb := kwf(), kwf()
	if ra > rb {
		ra, rb = rb, ra
	}
	ria, rib := r.Bool(), r.Bool()
	add("termrange-kw", []string{"kw"}, func() query.Query {
		q := bleve.NewTermRangeInclusiveQuery(ra, rb, pb(ria), pb(rib))
		q.SetField("kw")
		return q
	})
	add("termrange-kw-all", []string{"kw"}, func() query.Query {
		q := bleve.NewTermRangeInclusiveQuery("a", "z", pb(true), pb(true))
		q.SetField("kw")
		return q
	})
	wa, wb := w(), w()
	if wa > wb {
		wa, wb = wb, wa
	}
	add("termrange-body", []string{"body"}, func() query.Query {
		q := bleve.NewTermRangeInclusiveQuery(wa, wb, pb(true), pb(true))
		q.SetField("body")
		return q
	})
	add("termrange-tag", []string{"tag"}, func() query.Query {
		q := bleve.NewTermRangeInclusiveQuery("a", "zz", pb(true), pb(false))
		q.SetField("tag")
		return q
	})
	kp := vrand.Pick(r, []string{"t", "ta", "tb", "tc", "u", ""})
	add("prefix-kw", []string{"kw"}, func() query.Query { q := bleve.NewPrefixQuery(kp); q.SetField("kw"); return q })
	rx := vrand.Pick(r, []string{"t[a-c].*", "t.", ".a.?", "(ta|ub).*", ".*c.*", "[tu]b.*"})
	add("regexp-kw", []string{"kw"}, func() query.Query { q := bleve.NewRegexpQuery(rx); q.SetField("kw"); return q })
	brx := vrand.Pick(r, []string{".*eta", "[a-e].*", ".*l.*a", "(alpha|gamma|zeta)"})
	add("regexp-body", []string{"body"}, func() query.Query { q := bleve.NewRegexpQuery(brx); q.SetField("body"); return q })
	wc := vrand.Pick(r, []string{"t?", "t*a", "*b*", "?a*", "u*", "t??"})
	add("wildcard-kw", []string{"kw"}, func() query.Query { q := bleve.NewWildcardQuery(wc); q.SetField("kw"); return q })
	twc := vrand.Pick(r, []string{"*a", "*et*", "?????"})
	add("wildcard-tag", []string{"tag"}, func() query.Query { q := bleve.NewWildcardQuery(twc); q.SetField("tag"); return q })
	fz, fzn := kwf(), r.Range(1, 2)
	add("fuzzy-kw", []string{"kw"}, func() query.Query {
		q := bleve.NewFuzzyQuery(fz)
		q.SetField("kw")
		q.SetFuzziness(fzn)
		return q
	})
	fzb := w()
	add("fuzzy-body", []string{"body"}, func() query.Query {
		q := bleve.NewFuzzyQuery(fzb)
		q.SetField("body")
		q.SetFuzziness(2)
		return q
	})
	add("or(prefix-kw,term-tag)", []string{"kw"}, func() query.Query {
		q := bleve.NewPrefixQuery("t")
		q.SetField("kw")
		return bleve.NewDisjunctionQuery(q, term(t1, "tag"))
	})
	return out
}

var richSorts = [][]string{
	{"-_score", "_id"}, {"n", "-_id"}, {"-_score", "-n", "_id"}, {"tag", "-n", "_id"}, {"-n", "_id"}, {"n", "_id"},
	{"-m", "_id"}, {"when", "-_score", "_id"}, {"flag", "m", "-_id"},
}
var plainSorts = [][]string{{"_id"}, {"-_score", "_id"}, {"-m", "_id"}, {"tag", "-_id"}, {"when", "n", "_id"}}

func addFacets(req *bleve.SearchRequest, more bool) {
	req.AddFacet("tags", bleve.NewFacetRequest("tag", 5))
	nf := bleve.NewFacetRequest("n", 5)
	lo, mid, hi := 0.0, 3.0, 10.0
	nf.AddNumericRange("low", &lo, &mid)
	nf.AddNumericRange("high", &mid, &hi)
	req.AddFacet("nums", nf)
	if more {
		req.AddFacet("kws", bleve.NewFacetRequest("kw", 4))
		df := bleve.NewFacetRequest("when", 3)
		df.AddDateTimeRange("early", whenBase.AddDate(0, 0, -1), whenBase.AddDate(0, 0, 2))
		df.AddDateTimeRange("late", whenBase.AddDate(0, 0, 2), whenBase.AddDate(0, 0, 9))
		req.AddFacet("whens", df)
	}
}

// requests: every shape twice -- as a rich scoring request (all stored fields, locations,
// highlights, facets) and as a Score:"none" request without locations / highlights (the
// configuration in which scorch's "unadorned" conjunction / disjunction optimisations apply).
func requests(seed uint64) []reqSpec {
	shs := shapes(seed)
	r := vrand.New(seed ^ 0x5bd1e995)
	var reqs []reqSpec
	for i, sh := range shs {
		rich := bleve.NewSearchRequestOptions(sh.mk(), 100, 0, false)
		if i < 6 {
			rich.SortBy(richSorts[i])
		} else {
			rich.SortBy(vrand.Pick(r, richSorts))
		}
		rich.Fields = []string{"*"}
		rich.IncludeLocations = true
		rich.Highlight = bleve.NewHighlight()
		addFacets(rich, i >= 6 && r.Chance(1, 3))
		if sh.name == "prefix-body" || (i >= 6 && r.Chance(1, 6)) {
			rich.Size, rich.From = 3, 1
		}
		reqs = append(reqs, reqSpec{name: sh.name + "/rich", req: rich, scoring: true, dict: sh.dict})

		plain := bleve.NewSearchRequestOptions(sh.mk(), 100, 0, false)
		plain.Score = "none"
		plain.SortBy(vrand.Pick(r, plainSorts))
		switch r.Intn(3) {
		case 0:
			plain.Fields = []string{"v", "n"}
		case 1:
			addFacets(plain, r.Bool())
		}
		if r.Chance(1, 8) {
			plain.Size, plain.From = 4, 2
		}
		reqs = append(reqs, reqSpec{name: sh.name + "/score-none", req: plain, scoring: false, dict: sh.dict})
	}
	return reqs
}

type hitC struct {
	ID        string                      `json:"id"`
	Score     uint64                      `json:"score_bits"`
	Sort      []string                    `json:"sort"`
	Fields    map[string]interface{}      `json:"fields"`
	Locations search.FieldTermLocationMap `json:"locations"`
	Fragments search.FieldFragmentMap     `json:"fragments"`
}

// canon renders an answer canonically.  With noScores it renders what is left of the answer once
// scores are set aside: score values are blanked, and when the request sorts by _score (scoreKeys
// marks those sort positions) the _score sort values are blanked too and the hits are listed by id,
// because their order is then a function of the scores.
func canon(res *bleve.SearchResult, noScores bool, scoreKeys []bool) string {
	type facetC struct {
		Name string      `json:"name"`
		Val  interface{} `json:"val"`
	}
	out := struct {
		Total    uint64   `json:"total"`
		MaxScore uint64   `json:"max_score_bits"`
		Hits     []hitC   `json:"hits"`
		Facets   []facetC `json:"facets"`
	}{Total: res.Total, MaxScore: math.Float64bits(res.MaxScore)}
	if noScores {
		out.MaxScore = 0
	}
	for _, h := range res.Hits {
		hc := hitC{ID: h.ID, Score: math.Float64bits(h.Score), Sort: h.Sort, Fields: h.Fields, Locations: h.Locations, Fragments: h.Fragments}
		if noScores {
			hc.Score = 0
			for i := range scoreKeys {
				if scoreKeys[i] && i < len(hc.Sort) {
					hc.Sort = append([]string{}, hc.Sort...)
					hc.Sort[i] = ""
				}
			}
		}
		out.Hits = append(out.Hits, hc)
	}
	if noScores {
		for _, k := range scoreKeys {
			if k {
				sort.SliceStable(out.Hits, func(i, j int) bool { return out.Hits[i].ID < out.Hits[j].ID })
				break
			}
		}
	}
	var names []string
	for n := range res.Facets {
		names = append(names, n)
	}
	sort.Strings(names)
	for _, n := range names {
		out.Facets = append(out.Facets, facetC{n, res.Facets[n]})
	}
	b, _ := json.Marshal(out)
	return string(b)
}

// wellFormed is the part of the statement one answer can be judged on by itself: no id twice,
// Total = number of hits when the page covers everything.
func wellFormed(rq *bleve.SearchRequest, res *bleve.SearchResult) string {
	seen := map[string]bool{}
	for _, h := range res.Hits {
		if seen[h.ID] {
			return "hit " + h.ID + " returned twice"
		}
		seen[h.ID] = true
	}
	if rq.From == 0 && len(res.Hits) < rq.Size && res.Total != uint64(len(res.Hits)) {
		return fmt.Sprintf("Total=%d but %d hits on an unfilled first page", res.Total, len(res.Hits))
	}
	if res.Total < uint64(len(res.Hits)) {
		return fmt.Sprintf("Total=%d < %d hits", res.Total, len(res.Hits))
	}
	return ""
}

// dictSig: the set of terms the index-level field dictionary enumerates for a field.
func dictSig(idx bleve.Index, field string) (string, error) {
	fd, err := idx.FieldDict(field)
	if err != nil {
		return "", err
	}
	defer fd.Close()
	set := map[string]bool{}
	for {
		e, err := fd.Next()
		if err != nil {
			return "", err
		}
		if e == nil {
			break
		}
		set[e.Term] = true
	}
	ts := make([]string, 0, len(set))
	for t := range set {
		ts = append(ts, strconv.Quote(t))
	}
	sort.Strings(ts)
	return strings.Join(ts, ","), nil
}

// hasStale: some indexed version is no longer live at the end (deleted or overwritten): the only
// histories in which a dictionary can still hold terms of documents that are gone.
func hasStale(ops []sw.Op) bool {
	live := map[int]bool{}
	for _, o := range ops {
		switch o.Kind {
		case "index":
			if live[o.ID] {
				return true
			}
			live[o.ID] = true
		case "delete":
			if live[o.ID] {
				return true
			}
		}
	}
	return false
}

// searchWatchdog bounds every single search. Searches here take milliseconds; the bound is far
// above anything scheduling delays on a loaded machine produce. It is measured in ticks of a
// goroutine of this process that sleeps 10 ms per tick, not in wall time: while the process as a
// whole is not scheduled (starved, stopped) the watchdog does not advance either, and 4000 times
// the ticker got the CPU while a search needing milliseconds of it did not finish means the
// search does not end.
const searchWatchdog = 40 * time.Second

var ticks atomic.Int64

func init() {
	go func() {
		for {
			time.Sleep(10 * time.Millisecond)
			ticks.Add(1)
		}
	}()
}

// guard runs fn under the tick watchdog; panics and overruns become Direct results.
func guard(what string, fn func()) *vh.Direct {
	done := make(chan *vh.Direct, 1)
	go func() {
		defer func() {
			if e := recover(); e != nil {
				done <- &vh.Direct{Kind: "panic", Detail: what + ": " + fmt.Sprint(e)}
			}
		}()
		fn()
		done <- nil
	}()
	start := ticks.Load()
	limit := int64(searchWatchdog / (10 * time.Millisecond))
	for {
		select {
		case r := <-done:
			return r
		case <-time.After(200 * time.Millisecond):
			if ticks.Load()-start >= limit {
				return &vh.Direct{Kind: "timeout", Detail: fmt.Sprintf("%s: no result within %v", what, searchWatchdog)}
			}
		}
	}
}

var hung atomic.Bool // a search of this process never returned: its goroutine spins for good

type view struct {
	name  string
	ans   []string // canonical answers, one per request
	ansNS []string // the same with scores blanked
	dict  map[string]string
	// stable: the root epoch was the same before the first search and after the last dictionary
	// enumeration, i.e. answers and dictionaries were read from one and the same root
	stable bool
}

func exec(in In) vh.Result {
	if hung.Load() {
		// a search goroutine of an earlier input is spinning for ever; the run is a failure already
		// and anything measured from here on would be distorted by it
		return vh.Result{Skip: true}
	}
	reqs := requests(in.ReqSeed)
	fail := func(e error) vh.Result {
		return vh.Result{Direct: &vh.Direct{Kind: "error", Detail: e.Error()}}
	}
	var cases []cf.T
	var views []view
	totMem, totFile := 0, 0
	nTraces := 0
	nonEmpty := 0
	prefixMerged := 0 // views taken on >= 2 root segments of a layout that had a merge before its last batches
	maxSegs := 0
	unstable := 0
	var direct *vh.Direct

	// take one view of the index: all requests + the field dictionaries
	var take1 func(idx bleve.Index, name string, first bool) (view, *vh.Direct, error)
	// Background merges / persists may replace the root while a view is being taken. All roots
	// hold the same contents, so every answer counts whatever root it was computed on; but the
	// dictionaries (which only serve to recognise the known class) must be those the answers were
	// computed from, so the view is retaken until the epoch stands still (progress-bounded: the
	// background work on these tiny indexes ends by itself).
	take := func(idx bleve.Index, name string, first bool) (view, *vh.Direct, error) {
		for try := 0; ; try++ {
			e1 := rootEpoch(idx)
			v, d, err := take1(idx, name, first && try == 0)
			if d != nil || err != nil {
				return v, d, err
			}
			if rootEpoch(idx) == e1 {
				v.stable = true
				return v, nil, nil
			}
			if try >= 60 {
				unstable++
				return v, nil, nil
			}
			time.Sleep(time.Duration(10+5*try) * time.Millisecond)
		}
	}
	take1 = func(idx bleve.Index, name string, first bool) (view, *vh.Direct, error) {
		v := view{name: name, dict: map[string]string{}}
		for _, rs := range reqs {
			var res *bleve.SearchResult
			var err error
			rq := rs.req
			if d := guard("search", func() { res, err = idx.Search(rq) }); d != nil {
				if d.Kind == "timeout" {
					hung.Store(true)
					qj, _ := json.Marshal(rq)
					return v, &vh.Direct{Kind: "search-hang", Detail: fmt.Sprintf("request %s did not return within %v on layout [%s]: %s", rs.name, searchWatchdog, name, qj)}, nil
				}
				return v, d, nil
			}
			if err != nil {
				// an error is an answer too: it must be the same on every layout
				v.ans = append(v.ans, "ERR:"+err.Error())
				v.ansNS = append(v.ansNS, "ERR:"+err.Error())
				continue
			}
			if first && len(res.Hits) > 0 {
				nonEmpty++
			}
			if w := wellFormed(rq, res); w != "" {
				qj, _ := json.Marshal(rq)
				return v, &vh.Direct{Kind: "answer-malformed", Detail: fmt.Sprintf("request %s on layout [%s]: %s: %s", rs.name, name, w, qj)}, nil
			}
			var scoreKeys []bool
			for _, so := range rq.Sort {
				_, isScore := so.(*search.SortScore)
				scoreKeys = append(scoreKeys, isScore)
			}
			v.ans = append(v.ans, canon(res, false, nil))
			v.ansNS = append(v.ansNS, canon(res, true, scoreKeys))
		}
		for _, f := range dictFieldsAll {
			var s string
			var err error
			if d := guard("fielddict", func() { s, err = dictSig(idx, f) }); d != nil {
				if d.Kind == "timeout" {
					hung.Store(true)
					d = &vh.Direct{Kind: "search-hang", Detail: fmt.Sprintf("FieldDict(%s) enumeration did not end within %v on layout [%s]", f, searchWatchdog, name)}
				}
				return v, d, nil
			}
			if err != nil {
				return v, nil, err
			}
			v.dict[f] = s
		}
		return v, nil, nil
	}

	for li, l := range in.Layouts {
		tL := time.Now()
		idx, path, dir, err := open(l, in.Schema)
		if err != nil {
			return fail(err)
		}
		cleanup := func() {
			if dir != "" {
				os.RemoveAll(dir)
			}
		}
		var rec *strace.Recorder
		trace := l.Layout.Config == "scorch-disk" && !l.Reopen
		if trace {
			rec = strace.Start(path)
		}
		stopRec := func() {
			if rec != nil {
				rec.Stop()
				rec = nil
			}
		}
		tg := sw.NewTagger()
		bs := batches(in, l)
		merged := false
		for bi, ops := range bs {
			for _, m := range l.Mid {
				if m.After == bi {
					switch m.Kind {
					case "forcemerge":
						sw.ForceMerge(idx)
						merged = true
					case "settle":
						settle(idx)
						merged = true
					}
				}
			}
			b, err := build(tg, idx, ops, trace)
			if err == nil {
				err = idx.Batch(b)
			}
			if err != nil {
				stopRec()
				idx.Close()
				cleanup()
				return fail(err)
			}
		}
		base := fmt.Sprintf("#%d %s/opts=%d/segver=%d/unsafe=%v/lazyplan=%v/mid=%v/batches=%d", li, l.Layout.Config, l.Layout.Opts, l.Layout.SegVer, l.Layout.Unsafe, l.LazyPlan, l.Mid, len(bs))
		abort := func(d *vh.Direct, err error) vh.Result {
			stopRec()
			if d != nil && d.Kind == "search-hang" {
				// the hung search holds the index's read lock: Close would block for ever
				cleanup()
				return vh.Result{Direct: d}
			}
			idx.Close()
			cleanup()
			if d != nil {
				return vh.Result{Direct: d}
			}
			return fail(err)
		}
		if os.Getenv("VH_TIMING") != "" {
			fmt.Fprintf(os.Stderr, "layout %s: built %v\n", base, time.Since(tL))
		}
		time.Sleep(20 * time.Millisecond)
		mseg, fseg := rootSegs(idx)
		if mseg+fseg > maxSegs {
			maxSegs = mseg + fseg
		}
		if merged && mseg+fseg >= 2 {
			prefixMerged++
		}
		v, d, err := take(idx, base+"/as-built", li == 0)
		if d != nil || err != nil {
			return abort(d, err)
		}
		views = append(views, v)
		if l.ForceMerge {
			sw.ForceMerge(idx)
			v, d, err := take(idx, base+"/force-merged", false)
			if d != nil || err != nil {
				return abort(d, err)
			}
			views = append(views, v)
		}
		if l.Reopen {
			if err := idx.Close(); err != nil {
				cleanup()
				return fail(err)
			}
			idx, err = bleve.Open(path)
			if err != nil {
				cleanup()
				return vh.Result{Direct: &vh.Direct{Kind: "reopen-failed", Detail: err.Error()}}
			}
			v, d, err := take(idx, base+"/reopened", false)
			if d != nil || err != nil {
				return abort(d, err)
			}
			views = append(views, v)
		}
		final, err := sw.DocVersions(idx, in.NIDs)
		if err != nil {
			return abort(nil, err)
		}
		obs, err := sw.Observe(idx, in.NIDs, 0)
		if err != nil {
			return abort(nil, err)
		}
		idx.Close()
		if trace {
			tr, mm, fm, _ := sw.TraceCase(rec, tg, in.NIDs, final)
			stopRec()
			totMem += mm
			totFile += fm
			cases = append(cases, tr)
			nTraces++
		}
		if os.Getenv("VH_TIMING") != "" {
			fmt.Fprintf(os.Stderr, "layout %s: total %v\n", base, time.Since(tL))
		}
		// contents of every layout = replay of the flat operation list
		dops, _ := sw.OpsTerms(in.Ops)
		cases = append(cases, cf.App("CHist", sw.Universe(in.NIDs), "[]", cf.List([]cf.T{cf.App("mkHStep", cf.List(dops), "[]", cf.Some(obs))})))
		cleanup()
	}

	// compare every view with the first one (a single in-memory segment built from one batch)
	stale := hasStale(in.Ops)
	var known *vh.Direct
	for vi := 1; vi < len(views) && direct == nil; vi++ {
		for qi, rs := range reqs {
			const ref = 0
			a, b := views[ref].ans[qi], views[vi].ans[qi]
			if a == b {
				continue
			}
			// The one known class (C05-score-multiterm-stale-dictionary): a SCORING request with a
			// dictionary-expanded leaf, on a history in which some version is no longer live, whose
			// answers differ in nothing but scores, AND the two layouts' dictionaries of a field that
			// leaf expands really enumerate different term sets. Everything else is a violation.
			if rs.scoring && len(rs.dict) > 0 && stale && views[ref].ansNS[qi] == views[vi].ansNS[qi] {
				dictDiffers := !views[vi].stable || !views[ref].stable // dictionaries unknown
				for _, f := range rs.dict {
					if views[ref].dict[f] != views[vi].dict[f] {
						dictDiffers = true
					}
				}
				if dictDiffers {
					if known == nil {
						known = &vh.Direct{Kind: "layout-score-differs", Detail: fmt.Sprintf(
							"request %s (dictionary-expanded multi-term leaf): scores differ between layout [%s] and layout [%s], whose dictionaries of %v hold different term sets (terms of deleted documents); ids, fields, locations, fragments, facets identical, order identical apart from what a sort by _score derives from the scores", rs.name, views[ref].name, views[vi].name, rs.dict)}
					}
					continue
				}
			}
			// point at the first difference
			p := 0
			for p < len(a) && p < len(b) && a[p] == b[p] {
				p++
			}
			if d := os.Getenv("VH_DEBUG"); d != "" {
				os.WriteFile(d+"/a.json", []byte(a), 0o644)
				os.WriteFile(d+"/b.json", []byte(b), 0o644)
			}
			lo := max(0, p-120)
			qj, _ := json.Marshal(rs.req)
			kind := "layout-differs"
			if views[ref].ansNS[qi] == views[vi].ansNS[qi] {
				kind = "layout-score-differs-unexplained"
			}
			direct = &vh.Direct{Kind: kind,
				Detail: fmt.Sprintf("request %s answers differ between layout [%s] and layout [%s]: ...%s  VS  ...%s  request=%s",
					rs.name, views[ref].name, views[vi].name, a[lo:min(len(a), p+160)], b[lo:min(len(b), p+160)], qj)}
			break
		}
	}
	if direct != nil {
		return vh.Result{Direct: direct}
	}
	class := ""
	if known != nil {
		class = "score-multiterm-stale-dictionary"
	}
	hist := []string{"history", fmt.Sprintf("layouts=%d", len(in.Layouts)), fmt.Sprintf("views=%d", len(views)),
		fmt.Sprintf("mem_merges=%d", min(totMem, 6)), fmt.Sprintf("file_merges=%d", min(totFile, 9)),
		fmt.Sprintf("nonempty_requests=%d", nonEmpty/10*10), fmt.Sprintf("views_on_merge_product_plus_later_segments=%d", prefixMerged),
		fmt.Sprintf("max_root_segments=%d", min(maxSegs, 12)/3*3)}
	if unstable > 0 {
		hist = append(hist, "views_with_moving_root")
	}
	if !stale {
		hist = append(hist, "insert_only_history")
	}
	if in.Schema.BodyNoTV {
		hist = append(hist, "schema:body_no_tv")
	}
	if in.Schema.TagNoTV {
		hist = append(hist, "schema:tag_no_tv")
	}
	if in.Schema.KwTV {
		hist = append(hist, "schema:kw_tv")
	}
	return vh.Result{Term: cf.App("CMulti", cf.List(cases)), Nontrivial: totMem+totFile > 0 && nonEmpty*3 >= len(reqs), Direct: known, Class: class, Traces: nTraces, Hist: hist}
}

func main() {
	vh.Main(vh.Config{
		Property:  "C05",
		Imports:   []string{"Common.Bytes", "Scorch.Model", "Scorch.Corr"},
		CaseType:  "Corr.case",
		CheckFn:   "Corr.check",
		ExplainFn: "Corr.explain",
		Rule: "one logical history (8-40 index/delete ops over 5-12 ids, or an insert-only history of 6-26 ids) under a random field mapping (term vectors on/off for the text, keyword and multi-valued keyword fields; numeric, boolean, datetime fields) built in 7-8 physical layouts: single batch in memory; one batch per op on disk; random partitions with memory-merge-heavy persister options and unsafe batches; forced merge; close/reopen; " +
			"forced merges in the middle of the history followed by more batches under a lazy merge planner (a file-merge product followed by plain segments); unsafe batches piling up before a napping persister with 1/2/4 workers, a pause, then more batches (an in-memory-merge product followed by more segments); older zap versions. Views are taken as built, after the final forced merge and after reopen. " +
			"32 query shapes (match / term / boolean with phrase / disjunctions, min-2 disjunction and conjunctions of term leaves over all field kinds / numeric and date ranges / term range, prefix, regexp, wildcard, fuzzy over three fields / match-all), each as a rich scoring request (total sorts; all stored fields, locations, highlights, term, numeric and date facets; some paged) and as a Score:none request without locations, are compared bit-for-bit across all views (scores as IEEE bits); every answer must list no id twice; every search runs under a watchdog (a search that does not return is a violation); " +
			"every disk layout's event trace goes to the Coq model, every layout's final contents to the replay spec. Non-trivial: at least one merge was introduced and at least a third of the requests return hits",
		ShardSize: 1,
		Workers:   6,
	}, gen, exec)
}
