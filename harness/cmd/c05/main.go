// C05 harness: one logical history, several physical layouts (batch partitions, persister and
// merge-plan options, forced merge, close/reopen, older segment formats, memory vs disk); a family
// of rich requests must return bit-identical answers on all of them (the property itself, an
// implementation-vs-implementation comparison), every disk layout's event trace must be accepted
// by the Coq scorch model and every layout's final contents must equal the replay.
package main

import (
	"encoding/json"
	"fmt"
	"math"
	"os"
	"sort"
	"strings"
	"time"

	"github.com/blevesearch/bleve/v2"
	"github.com/blevesearch/bleve/v2/search"
	"github.com/blevesearch/bleve/v2/search/query"

	cf "verifharness/internal/coqfmt"
	"verifharness/internal/strace"
	"verifharness/internal/sw"
	"verifharness/internal/vh"
	"verifharness/internal/vrand"
)

type LayoutSpec struct {
	Layout     sw.Layout `json:"layout"`
	Cuts       []int     `json:"cuts"` // batch boundaries (indices into Ops); nil = one batch per op
	OneBatch   bool      `json:"one_batch,omitempty"`
	ForceMerge bool      `json:"force_merge,omitempty"`
	Reopen     bool      `json:"reopen,omitempty"`
}

type In struct {
	NIDs    int          `json:"nids"`
	Ops     []sw.Op      `json:"ops"`
	Layouts []LayoutSpec `json:"layouts"`
	ReqSeed uint64       `json:"req_seed"`
}

func gen(f vh.Flags, r *vrand.R, emit func(In)) {
	n := f.N(14, 600)
	for k := 0; k < n; k++ {
		nids := r.Range(5, 12)
		nops := r.Range(8, 40)
		var ops []sw.Op
		var ver int64
		for i := 0; i < nops; i++ {
			ver++
			if r.Chance(3, 4) {
				ops = append(ops, sw.Op{Kind: "index", ID: r.Intn(nids), Ver: ver})
			} else {
				ops = append(ops, sw.Op{Kind: "delete", ID: r.Intn(nids)})
			}
		}
		randCuts := func() []int {
			var cuts []int
			for i := 1; i < nops; i++ {
				if r.Chance(1, 3) {
					cuts = append(cuts, i)
				}
			}
			return cuts
		}
		ls := []LayoutSpec{
			{Layout: sw.Layout{Config: "scorch-mem"}, OneBatch: true},
			{Layout: sw.Layout{Config: "scorch-disk", Opts: 0}},                                          // one batch per op
			{Layout: sw.Layout{Config: "scorch-disk", Opts: r.Range(1, 4), Unsafe: true}, Cuts: randCuts()}, // piles of memory segments
			{Layout: sw.Layout{Config: "scorch-disk", Opts: r.Range(1, 4)}, Cuts: randCuts(), ForceMerge: true},
			{Layout: sw.Layout{Config: "scorch-disk", Opts: r.Intn(5)}, Cuts: randCuts(), Reopen: true},
		}
		if r.Chance(1, 2) {
			ls = append(ls, LayoutSpec{Layout: sw.Layout{Config: "scorch-disk", SegVer: r.Range(11, 16)}, Cuts: randCuts(), ForceMerge: r.Bool()})
		}
		emit(In{NIDs: nids, Ops: ops, Layouts: ls, ReqSeed: r.U64()})
	}
}

func batches(in In, l LayoutSpec) [][]sw.Op {
	if l.OneBatch {
		return [][]sw.Op{in.Ops}
	}
	var out [][]sw.Op
	if l.Cuts == nil {
		for _, o := range in.Ops {
			out = append(out, []sw.Op{o})
		}
		return out
	}
	prev := 0
	for _, c := range append(append([]int{}, l.Cuts...), len(in.Ops)) {
		if c > prev {
			out = append(out, in.Ops[prev:c])
		}
		prev = c
	}
	return out
}

// multiTerm[i]: request i contains a dictionary-expanded leaf (numeric range, prefix): its scores
// depend on which terms of deleted-but-unmerged documents are still in the segment dictionaries
// (known finding C05-score-multiterm-stale-dictionary), so only its score-free part is compared
// strictly.
var multiTerm = []bool{false, false, false, true, false, true}

func requests(seed uint64) []*bleve.SearchRequest {
	r := vrand.New(seed)
	w := func() string { return vrand.Pick(r, sw.Words) }
	var reqs []*bleve.SearchRequest
	mk := func(q query.Query, sortBy []string) *bleve.SearchRequest {
		req := bleve.NewSearchRequestOptions(q, 100, 0, false)
		req.SortBy(sortBy)
		req.Fields = []string{"*"}
		req.IncludeLocations = true
		req.Highlight = bleve.NewHighlight()
		req.AddFacet("tags", bleve.NewFacetRequest("tag", 5))
		nf := bleve.NewFacetRequest("n", 5)
		lo, mid, hi := 0.0, 3.0, 10.0
		nf.AddNumericRange("low", &lo, &mid)
		nf.AddNumericRange("high", &mid, &hi)
		req.AddFacet("nums", nf)
		return req
	}
	m := bleve.NewMatchQuery(w() + " " + w())
	m.SetField("body")
	reqs = append(reqs, mk(m, []string{"-_score", "_id"}))
	t := bleve.NewTermQuery(vrand.Pick(r, sw.Words[:3]))
	t.SetField("tag")
	reqs = append(reqs, mk(t, []string{"n", "-_id"}))
	mp := bleve.NewMatchPhraseQuery(w() + " " + w())
	mp.SetField("body")
	bq := bleve.NewBooleanQuery()
	m2 := bleve.NewMatchQuery(w())
	m2.SetField("body")
	bq.AddMust(m2)
	m3 := bleve.NewMatchQuery(w())
	m3.SetField("body")
	bq.AddShould(m3)
	bq.AddShould(mp)
	t2 := bleve.NewTermQuery(vrand.Pick(r, sw.Words[:3]))
	t2.SetField("tag")
	bq.AddMustNot(t2)
	reqs = append(reqs, mk(bq, []string{"-_score", "-n", "_id"}))
	lo, hi := float64(r.Range(0, 3)), float64(r.Range(3, 7))
	nr := bleve.NewNumericRangeQuery(&lo, &hi)
	nr.SetField("n")
	dq := bleve.NewDisjunctionQuery(nr, mp)
	reqs = append(reqs, mk(dq, []string{"tag", "-n", "_id"}))
	reqs = append(reqs, mk(bleve.NewMatchAllQuery(), []string{"-n", "_id"}))
	pq := bleve.NewPrefixQuery(w()[:2])
	pq.SetField("body")
	small := mk(pq, []string{"n", "_id"})
	small.Size = 3
	small.From = 1
	reqs = append(reqs, small)
	return reqs
}

type hitC struct {
	ID        string                 `json:"id"`
	Score     uint64                 `json:"score_bits"`
	Sort      []string               `json:"sort"`
	Fields    map[string]interface{} `json:"fields"`
	Locations search.FieldTermLocationMap `json:"locations"`
	Fragments search.FieldFragmentMap     `json:"fragments"`
}

func canon(res *bleve.SearchResult, noScores bool) string {
	type facetC struct {
		Name string      `json:"name"`
		Val  interface{} `json:"val"`
	}
	out := struct {
		Total    uint64   `json:"total"`
		MaxScore uint64   `json:"max_score_bits"`
		Hits     []hitC   `json:"hits"`
		Facets   []facetC `json:"facets"`
	}{Total: res.Total, MaxScore: math.Float64bits(res.MaxScore)}
	if noScores {
		out.MaxScore = 0
	}
	for _, h := range res.Hits {
		hc := hitC{ID: h.ID, Score: math.Float64bits(h.Score), Sort: h.Sort, Fields: h.Fields, Locations: h.Locations, Fragments: h.Fragments}
		if noScores {
			hc.Score = 0
		}
		out.Hits = append(out.Hits, hc)
	}
	var names []string
	for n := range res.Facets {
		names = append(names, n)
	}
	sort.Strings(names)
	for _, n := range names {
		out.Facets = append(out.Facets, facetC{n, res.Facets[n]})
	}
	b, _ := json.Marshal(out)
	return string(b)
}

func exec(in In) vh.Result {
	reqs := requests(in.ReqSeed)
	fail := func(e error) vh.Result {
		return vh.Result{Direct: &vh.Direct{Kind: "error", Detail: e.Error()}}
	}
	var cases []cf.T
	var answers, answersNS [][]string
	var names []string
	totMem, totFile := 0, 0
	nTraces := 0
	nonEmpty := 0
	for li, l := range in.Layouts {
		idx, path, dir, err := sw.Open(l.Layout)
		if err != nil {
			return fail(err)
		}
		cleanup := func() {
			if dir != "" {
				os.RemoveAll(dir)
			}
		}
		var rec *strace.Recorder
		trace := l.Layout.Config == "scorch-disk" && !l.Reopen
		if trace {
			rec = strace.Start(path)
		}
		tg := sw.NewTagger()
		for _, ops := range batches(in, l) {
			b, _, err := tg.Build(idx, ops, trace)
			if err == nil {
				err = idx.Batch(b)
			}
			if err != nil {
				idx.Close()
				cleanup()
				return fail(err)
			}
		}
		if l.ForceMerge {
			sw.ForceMerge(idx)
		}
		if l.Reopen {
			if err := idx.Close(); err != nil {
				cleanup()
				return fail(err)
			}
			idx, err = bleve.Open(path)
			if err != nil {
				cleanup()
				return vh.Result{Direct: &vh.Direct{Kind: "reopen-failed", Detail: err.Error()}}
			}
		}
		time.Sleep(20 * time.Millisecond)
		var ans, ansNS []string
		for _, rq := range reqs {
			res, err := idx.Search(rq)
			if err != nil {
				idx.Close()
				cleanup()
				return fail(err)
			}
			if li == 0 && len(res.Hits) > 0 {
				nonEmpty++
			}
			ans = append(ans, canon(res, false))
			ansNS = append(ansNS, canon(res, true))
		}
		final, err := sw.DocVersions(idx, in.NIDs)
		if err != nil {
			idx.Close()
			cleanup()
			return fail(err)
		}
		obs, err := sw.Observe(idx, in.NIDs, 0)
		if err != nil {
			idx.Close()
			cleanup()
			return fail(err)
		}
		idx.Close()
		if trace {
			tr, mm, fm, _ := sw.TraceCase(rec, tg, in.NIDs, final)
			rec.Stop()
			totMem += mm
			totFile += fm
			cases = append(cases, tr)
			nTraces++
		}
		// contents of every layout = replay of the flat operation list
		dops, _ := sw.OpsTerms(in.Ops)
		cases = append(cases, cf.App("CHist", sw.Universe(in.NIDs), "[]", cf.List([]cf.T{cf.App("mkHStep", cf.List(dops), "[]", cf.Some(obs))})))
		cleanup()
		answers = append(answers, ans)
		answersNS = append(answersNS, ansNS)
		names = append(names, fmt.Sprintf("%s/opts=%d/segver=%d/unsafe=%v/forcemerge=%v/reopen=%v/batches=%d", l.Layout.Config, l.Layout.Opts, l.Layout.SegVer, l.Layout.Unsafe, l.ForceMerge, l.Reopen, len(batches(in, l))))
	}
	var known *vh.Direct
	for li := 1; li < len(answers); li++ {
		for qi := range reqs {
			if multiTerm[qi] && answersNS[li][qi] == answersNS[0][qi] {
				if answers[li][qi] != answers[0][qi] && known == nil {
					known = &vh.Direct{Kind: "layout-score-differs", Detail: fmt.Sprintf(
						"request #%d (dictionary-expanded multi-term leaf): scores differ between layout [%s] and layout [%s]; ids, order, fields, locations, fragments, facets identical", qi, names[0], names[li])}
				}
				continue
			}
			if answers[li][qi] != answers[0][qi] {
				a, b := answers[0][qi], answers[li][qi]
				// point at the first difference
				p := 0
				for p < len(a) && p < len(b) && a[p] == b[p] {
					p++
				}
				if d := os.Getenv("VH_DEBUG"); d != "" {
					os.WriteFile(d+"/a.json", []byte(a), 0o644)
					os.WriteFile(d+"/b.json", []byte(b), 0o644)
				}
				lo := max(0, p-120)
				return vh.Result{Direct: &vh.Direct{Kind: "layout-differs",
					Detail: fmt.Sprintf("request #%d answers differ between layout [%s] and layout [%s]: ...%s  VS  ...%s",
						qi, names[0], names[li], a[lo:min(len(a), p+160)], b[lo:min(len(b), p+160)])}}
			}
		}
	}
	class := ""
	if known != nil {
		class = "score-multiterm-stale-dictionary"
	}
	return vh.Result{Term: cf.App("CMulti", cf.List(cases)), Nontrivial: totMem+totFile > 0 && nonEmpty >= 3, Direct: known, Class: class, Traces: nTraces,
		Hist: []string{"history", fmt.Sprintf("layouts=%d", len(in.Layouts)), fmt.Sprintf("mem_merges=%d", min(totMem, 6)), fmt.Sprintf("file_merges=%d", min(totFile, 9)), fmt.Sprintf("nonempty_requests=%d", nonEmpty)}}
}

var _ = strings.TrimSpace

func main() {
	vh.Main(vh.Config{
		Property:  "C05",
		Imports:   []string{"Common.Bytes", "Scorch.Model", "Scorch.Corr"},
		CaseType:  "Corr.case",
		CheckFn:   "Corr.check",
		ExplainFn: "Corr.explain",
		Rule: "one logical history (8-40 index/delete ops over 5-12 ids) built in 5-6 physical layouts: single batch in memory; one batch per op on disk; random partitions with memory-merge-heavy persister options and unsafe batches; forced merge; close/reopen; older zap versions. " +
			"Six rich requests (match / term / boolean with phrase / disjunction with numeric range / match-all / paged prefix; total sorts; all stored fields, locations, highlights, terms and numeric facets) are compared bit-for-bit across layouts (scores as IEEE bits); " +
			"every disk layout's event trace goes to the Coq model, every layout's final contents to the replay spec. Non-trivial: at least one merge was introduced and at least 3 requests return hits",
		ShardSize: 1,
		Workers:   6,
	}, gen, exec)
}
