// C04 harness: writers, searchers, long-lived readers, the persister, the merger and forced
// merges run concurrently on one index, with seeded delays injected at the verif hook points.
// Every observation is taken from ONE snapshot and sent to the Coq checker (whole batches only,
// never older than what had been acknowledged, never going backwards per client); long-lived
// readers must answer identically at the end of their life; the scorch event trace must be
// accepted by the Coq model.
package main

import (
	"fmt"
	"os"
	"strconv"
	"sync"
	"sync/atomic"
	"time"

	"github.com/blevesearch/bleve/v2"
	"github.com/blevesearch/bleve/v2/index/scorch"
	index "github.com/blevesearch/bleve_index_api"

	cf "verifharness/internal/coqfmt"
	"verifharness/internal/strace"
	"verifharness/internal/sw"
	"verifharness/internal/vh"
	"verifharness/internal/vrand"
)

type In struct {
	Layout    sw.Layout `json:"layout"`
	Writers   int       `json:"writers"`
	Family    int       `json:"family"` // documents per writer
	Batches   int       `json:"batches"`
	Searchers int       `json:"searchers"`
	Holders   int       `json:"holders"`
	Merges    int       `json:"merges"`
	DelaySeed uint64    `json:"delay_seed"`
	DelayUS   int       `json:"delay_us"`
	// churn writers (trace runs): Churners goroutines (0 = 1) issue batches of 1..ChurnOps (0 = 2)
	// updates/deletes over a shared family of ChurnIDs (0 = 6) documents, concurrently with each other
	Churners int `json:"churners,omitempty"`
	ChurnOps int `json:"churn_ops,omitempty"`
	ChurnIDs int `json:"churn_ids,omitempty"`
	// StallUS > 0: the persister is delayed by up to StallUS between two of its rounds (half of the
	// rounds), so that the segments of several concurrent / unsafe batches are in front of it at once
	StallUS int `json:"stall_us,omitempty"`
	// StraddleUS > 0: a quarter of the batches wait (up to StraddleUS) between their optimistic pass over
	// the root (prepareSegment) and their introduction until some merge has been introduced, and
	// merges are forced for the whole run: batches that straddle a merge introduction
	StraddleUS int `json:"straddle_us,omitempty"`
	// Ser != nil: the writers-on-the-same-documents scenario of ser.go (the fields above are unused)
	Ser *SerSpec `json:"ser,omitempty"`
}

func gen(f vh.Flags, r *vrand.R, emit func(In)) {
	n := f.N(16, 400)
	for k := 0; k < n; k++ {
		in := In{Writers: r.Range(2, 3), Family: r.Range(2, 3), Batches: r.Range(8, 25), Searchers: r.Range(1, 3),
			Holders: r.Range(1, 2), Merges: r.Range(2, 10), DelaySeed: r.U64(), DelayUS: vrand.Pick(r, []int{50, 300, 1500})}
		switch k % 8 {
		case 1, 4, 7:
			// the persister's flush-set path and other generated non-default persister / merge-planner
			// options, with several churn writers issuing multi-document batches over one small family:
			// many unpersisted, partly obsoleted segments per persister round
			in.Layout = sw.GenFlushLayout(r)
			if r.Chance(1, 4) {
				in.Layout.PO = sw.GenPersisterOpts(r, false)
			}
			in.Layout.Unsafe = r.Bool()
			in.Churners, in.ChurnOps, in.ChurnIDs = r.Range(2, 4), r.Range(2, 4), r.Range(5, 9)
			in.StallUS = vrand.Pick(r, []int{5000, 12000, 30000})
			in.Batches = r.Range(8, 16)
		case 5:
			in.Layout = sw.Layout{Config: vrand.Pick(r, []string{"udc-gtreap", "udc-moss", "udc-boltdb"})}
			if in.Layout.Config == "udc-boltdb" {
				in.Holders = 0 // a held bolt read transaction blocks writers that need to grow the file (bbolt behaviour)
			}
		case 2:
			in.Layout = sw.Layout{Config: "scorch-mem"}
		default:
			in.Layout = sw.Layout{Config: "scorch-disk", Opts: r.Intn(5), Unsafe: r.Chance(1, 3)}
			in.StraddleUS = vrand.Pick(r, []int{0, 3000, 10000})
		}
		emit(in)
	}
	for k, ns := 0, f.N(14, 800); k < ns; k++ {
		emit(genSer(r))
	}
}

// waitProgress waits for finished; it gives up (false) only when the progress counter has not moved
// for stall: a slow machine makes a run long, only a hang makes it stop moving.
func waitProgress(finished <-chan struct{}, progress *int64, stall time.Duration) bool {
	last, lastAt := atomic.LoadInt64(progress), time.Now()
	for {
		select {
		case <-finished:
			return true
		case <-time.After(200 * time.Millisecond):
		}
		if p := atomic.LoadInt64(progress); p != last {
			last, lastAt = p, time.Now()
		} else if time.Since(lastAt) > stall {
			return false
		}
	}
}

type obsRec struct {
	client    int
	acked     []int64
	submitted []int64
	seen      [][]*int64
	ints      []*int64
}

func optV(p *int64) cf.T { return sw.OptVer(p) }

func (o obsRec) term() cf.T {
	return cf.App("mkCObs", cf.Int(o.client), cf.ListOf(o.acked, cf.Z), cf.ListOf(o.submitted, cf.Z),
		cf.ListOf(o.seen, func(vs []*int64) cf.T { return cf.ListOf(vs, optV) }), cf.ListOf(o.ints, optV))
}

// exec runs every scorch-disk input in a child process: a failure inside the persister's
// in-memory merge or the merger is a panic on a goroutine scorch started, which nothing in this
// process could recover (the run would end as "harness crashed" without the input).
func exec(in In) vh.Result {
	if os.Getenv("VH_TIMING") != "" {
		t0 := time.Now()
		defer func() {
			fmt.Fprintf(os.Stderr, "TIMING %.2fs %s ser=%v po=%v straddle=%d stall=%d batches=%d churners=%d\n", time.Since(t0).Seconds(), in.Layout.Config, in.Ser != nil, in.Layout.PO != nil, in.StraddleUS, in.StallUS, in.Batches, in.Churners)
		}()
	}
	if in.Layout.Config == "scorch-disk" {
		return vh.Isolate(in, 12*time.Minute)
	}
	return execHere(in)
}

func execHere(in In) vh.Result {
	if in.Ser != nil {
		return execSer(in)
	}
	idx, path, dir, err := sw.Open(in.Layout)
	if dir != "" {
		defer os.RemoveAll(dir)
	}
	if err != nil {
		return vh.Result{Direct: &vh.Direct{Kind: "error", Detail: "open: " + err.Error()}}
	}
	trace := in.Layout.Config == "scorch-disk"
	var rec *strace.Recorder
	if trace {
		rec = strace.Start(path)
		defer rec.Stop()
		if in.DelayUS > 0 || in.StallUS > 0 || in.StraddleUS > 0 {
			var dmu sync.Mutex
			var mergeIntros int64
			dr := vrand.New(in.DelaySeed)
			rec.OnEvent = func(ev *scorch.VerifEvent) {
				if ev.Kind == "merge_finish" {
					atomic.AddInt64(&mergeIntros, 1)
				}
				straddle := false
				dmu.Lock()
				d := dr.Intn(max(in.DelayUS, 1))
				skip := dr.Chance(2, 3)
				// widen the windows in which a merge is in flight or a batch has computed its
				// optimistic obsoletions but has not been introduced yet (no lock is held at these points)
				name := ev.Kind
				if ev.Kind == "point" {
					name = ev.Name
				}
				switch name {
				case "merge_start", "memmerge_written", "filemerge_written":
					if dr.Chance(1, 2) {
						d, skip = 2000+dr.Intn(8000), false
					}
				case "batch_send":
					if dr.Chance(1, 4) {
						d, skip = 500+dr.Intn(4000), false
					}
					if in.StraddleUS > 0 && dr.Chance(1, 4) {
						straddle = true
					}
				case "persist_release_waiters":
					if in.StallUS > 0 && dr.Chance(1, 2) {
						d, skip = in.StallUS/4+dr.Intn(in.StallUS), false
					}
				}
				dmu.Unlock()
				if straddle {
					// no lock is held here and the introducer does not depend on this batch: bounded wait
					seen, deadline := atomic.LoadInt64(&mergeIntros), time.Now().Add(time.Duration(in.StraddleUS)*time.Microsecond)
					for atomic.LoadInt64(&mergeIntros) == seen && time.Now().Before(deadline) {
						time.Sleep(100 * time.Microsecond)
					}
				}
				if !skip {
					time.Sleep(time.Duration(d) * time.Microsecond)
				}
			}
		}
	}
	W, F := in.Writers, in.Family
	// besides the W observed families there is a "churn" family of 6 documents that one extra
	// writer updates or deletes one or two at a time: its segments carry PARTIAL deletions (the
	// observed families always obsolete a whole segment at once), which is what the deleted-since
	// bookkeeping of merges has to get right.  It is judged through the event trace only.
	churn, churners, churnOps := 6, 1, 2
	if in.ChurnIDs > 0 {
		churn = in.ChurnIDs
	}
	if in.Churners > 0 {
		churners = in.Churners
	}
	if in.ChurnOps > 0 {
		churnOps = in.ChurnOps
	}
	nids := W*F + churn
	acked := make([]int64, W)
	submitted := make([]int64, W)
	var tgMu sync.Mutex
	tg := sw.NewTagger()
	var obsMu sync.Mutex
	var obs []obsRec
	var firstErr atomic.Value
	var direct atomic.Value
	fail := func(e error) {
		if e != nil {
			firstErr.CompareAndSwap(nil, e.Error())
		}
	}
	snap := func(a []int64) []int64 {
		o := make([]int64, W)
		for i := range o {
			o[i] = atomic.LoadInt64(&a[i])
		}
		return o
	}
	var wg sync.WaitGroup
	done := make(chan struct{})
	var progress int64 // batches acknowledged so far (all writers): the watchdog's notion of "still alive"
	// writers
	for w := 0; w < W; w++ {
		wg.Add(1)
		go func(w int) {
			defer wg.Done()
			for j := int64(1); j <= int64(in.Batches); j++ {
				var ops []sw.Op
				for f := 0; f < F; f++ {
					ops = append(ops, sw.Op{Kind: "index", ID: w*F + f, Ver: j})
				}
				ops = append(ops, sw.Op{Kind: "setint", ID: w, Ver: j})
				tgMu.Lock()
				b, _, err := tg.Build(idx, ops, trace)
				tgMu.Unlock()
				if err != nil {
					fail(err)
					return
				}
				atomic.StoreInt64(&submitted[w], j)
				if err := idx.Batch(b); err != nil {
					fail(err)
					return
				}
				atomic.StoreInt64(&acked[w], j)
				atomic.AddInt64(&progress, 1)
			}
		}(w)
	}
	for c := 0; trace && c < churners; c++ {
		wg.Add(1)
		go func(c int) {
			defer wg.Done()
			cr := vrand.New(in.DelaySeed ^ 0x5bd1e995 + uint64(c)*0x9e3779b97f4a7c15)
			nb := int64(2 * in.Batches)
			if churners > 1 {
				nb = int64(in.Batches)
			}
			for j := int64(1); j <= nb; j++ {
				var ops []sw.Op
				for k := cr.Range(1, churnOps); k > 0; k-- {
					id := W*F + cr.Intn(churn)
					if cr.Chance(1, 4) {
						ops = append(ops, sw.Op{Kind: "delete", ID: id})
					} else {
						ops = append(ops, sw.Op{Kind: "index", ID: id, Ver: int64(1000*(c+1)) + j})
					}
				}
				tgMu.Lock()
				b, _, err := tg.Build(idx, ops, true)
				tgMu.Unlock()
				if err != nil {
					fail(err)
					return
				}
				if err := idx.Batch(b); err != nil {
					fail(err)
					return
				}
				atomic.AddInt64(&progress, 1)
			}
		}(c)
	}
	// searchers: one Search = one snapshot
	var rg sync.WaitGroup
	for s := 0; s < in.Searchers; s++ {
		rg.Add(1)
		go func(client int) {
			defer rg.Done()
			for {
				select {
				case <-done:
					return
				default:
				}
				a := snap(acked)
				req := bleve.NewSearchRequestOptions(bleve.NewMatchAllQuery(), nids+5, 0, false)
				req.Fields = []string{"v"}
				res, err := idx.Search(req)
				if err != nil {
					fail(err)
					return
				}
				sub := snap(submitted)
				seen := make([][]*int64, W)
				for w := range seen {
					seen[w] = make([]*int64, F)
				}
				for _, h := range res.Hits {
					i := int(sw.DocNum(h.ID))
					v := int64(-1)
					if s, ok := h.Fields["v"].(string); ok {
						v, _ = strconv.ParseInt(s, 10, 64)
					}
					if i >= 0 && i < W*F {
						seen[i/F][i%F] = &v
					}
				}
				// a search does not return internal values: derive the expected key from the family
				ints := make([]*int64, W)
				for w := range ints {
					ints[w] = seen[w][0]
				}
				obsMu.Lock()
				obs = append(obs, obsRec{client, a, sub, seen, ints})
				obsMu.Unlock()
				time.Sleep(200 * time.Microsecond)
			}
		}(s)
	}
	// holders: a reader held for a while must answer identically at the end of its life
	readAll := func(r index.IndexReader) (string, [][]*int64, []*int64, error) {
		cnt, err := r.DocCount()
		if err != nil {
			return "", nil, nil, err
		}
		sig := fmt.Sprintf("count=%d", cnt)
		seen := make([][]*int64, W)
		for w := range seen {
			seen[w] = make([]*int64, F)
			for f := 0; f < F; f++ {
				d, err := r.Document(sw.DocName(w*F + f))
				if err != nil {
					return "", nil, nil, err
				}
				if d != nil {
					v := sw.StoredVersion(d)
					seen[w][f] = &v
					sig += fmt.Sprintf(" d%d=%d", w*F+f, v)
				} else {
					sig += fmt.Sprintf(" d%d=nil", w*F+f)
				}
			}
		}
		ints := make([]*int64, W)
		for w := range ints {
			b, err := r.GetInternal([]byte(sw.KeyName(w)))
			if err != nil {
				return "", nil, nil, err
			}
			if b != nil {
				v := strace.ValZ(b)
				ints[w] = &v
			}
			sig += fmt.Sprintf(" k%d=%s", w, b)
		}
		dr, err := r.DocIDReaderAll()
		if err != nil {
			return "", nil, nil, err
		}
		n := 0
		for {
			id, err := dr.Next()
			if err != nil || id == nil {
				break
			}
			n++
		}
		dr.Close()
		sig += fmt.Sprintf(" ids=%d", n)
		return sig, seen, ints, nil
	}
	for h := 0; h < in.Holders; h++ {
		rg.Add(1)
		go func(client int) {
			defer rg.Done()
			hr := vrand.New(in.DelaySeed + uint64(client))
			for {
				select {
				case <-done:
					return
				default:
				}
				adv, err := idx.Advanced()
				if err != nil {
					fail(err)
					return
				}
				a := snap(acked)
				r, err := adv.Reader()
				if err != nil {
					fail(err)
					return
				}
				sub := snap(submitted)
				sig1, seen, ints, err := readAll(r)
				if err != nil {
					r.Close()
					fail(err)
					return
				}
				time.Sleep(time.Duration(hr.Range(1, 30)) * time.Millisecond)
				sig2, _, _, err := readAll(r)
				r.Close()
				if err != nil {
					fail(err)
					return
				}
				if sig1 != sig2 {
					direct.CompareAndSwap(nil, &vh.Direct{Kind: "reader-view-changed", Detail: fmt.Sprintf("a held index reader answered %q and later %q", sig1, sig2)})
				}
				obsMu.Lock()
				obs = append(obs, obsRec{100 + client, a, sub, seen, ints})
				obsMu.Unlock()
			}
		}(h)
	}
	// forced merges
	if trace && in.Merges > 0 {
		rg.Add(1)
		go func() {
			defer rg.Done()
			nm := in.Merges
			if in.StraddleUS > 0 {
				nm = 60 // until the writers are done
			}
			for m := 0; m < nm; m++ {
				pause := 2 * time.Millisecond
				if m >= in.Merges {
					pause = 5 * time.Millisecond
				}
				select {
				case <-done:
					return
				case <-time.After(pause):
				}
				sw.ForceMerge(idx)
			}
		}()
	}
	wdone := make(chan struct{})
	go func() { wg.Wait(); close(wdone) }()
	if !waitProgress(wdone, &progress, 90*time.Second) {
		close(done)
		return vh.Result{Direct: &vh.Direct{Kind: "timeout", Detail: "no batch call returned for 90s while writers were still running (deadlock or lost wake-up?)"}}
	}
	time.Sleep(5 * time.Millisecond)
	close(done)
	rg.Wait()
	if e := firstErr.Load(); e != nil {
		idx.Close()
		return vh.Result{Direct: &vh.Direct{Kind: "error", Detail: e.(string)}}
	}
	final, err := sw.DocVersions(idx, nids)
	idx.Close()
	if err != nil {
		return vh.Result{Direct: &vh.Direct{Kind: "error", Detail: err.Error()}}
	}
	cases := []cf.T{cf.App("CConc", cf.ListOf(obs, func(o obsRec) cf.T { return o.term() }))}
	hist := []string{"run:" + in.Layout.Config, fmt.Sprintf("obs=%d", len(obs)/20*20)}
	mm, fm := 0, 0
	if trace {
		var tr cf.T
		tr, mm, fm, _ = sw.TraceCase(rec, tg, nids, final)
		cases = append(cases, tr)
		hist = append(hist, fmt.Sprintf("mem_merges=%d", min(mm, 6)), fmt.Sprintf("file_merges=%d", min(fm, 6)))
		if in.Layout.PO != nil {
			multi, multiDrops := sw.FlushRounds(rec)
			hist = append(hist, "flush", fmt.Sprintf("flush:nonlegacy=%v", in.Layout.PO.NonLegacy()), fmt.Sprintf("flush:rounds_with_2+_flush_batches=%d", min(multi, 4)),
				fmt.Sprintf("flush:such_rounds_with_partly_obsoleted_segments=%d", min(multiDrops, 4)))
		}
	}
	// distinct in-flight observations: some family strictly between acked and submitted, or mid-history
	mid := 0
	for _, o := range obs {
		for w := 0; w < W; w++ {
			if o.seen[w][0] != nil && *o.seen[w][0] > 0 && *o.seen[w][0] < int64(in.Batches) {
				mid++
				break
			}
		}
	}
	res := vh.Result{Term: cf.App("CBase", cf.App("CMulti", cf.List(cases))), Nontrivial: mid >= 3 && (!trace || mm+fm > 0), Hist: hist}
	if trace {
		res.Traces = 1
	}
	if d := direct.Load(); d != nil {
		res.Direct = d.(*vh.Direct)
	}
	return res
}

func main() {
	if vh.IsolatedChild(execHere) {
		return
	}
	vh.Main(vh.Config{
		Property:  "C04",
		Imports:   []string{"Common.Bytes", "Scorch.Model", "Scorch.Corr", "Scorch.Ser", "Scorch.ConcCorr"},
		CaseType:  "ConcCorr.case",
		CheckFn:   "ConcCorr.check",
		ExplainFn: "ConcCorr.explain",
		Rule: "2-3 writers (each rewriting its own family of 2-3 documents and its internal key with the batch number, 8-25 batches), 1-3 searchers, 1-2 long-lived reader holders and forced merges run concurrently on scorch-disk (5 persister/merge option variants, safe and unsafe batches, seeded delays of up to 1.5 ms injected at the hook points), scorch-mem and upsidedown; " +
			"3 of 8 runs use generated non-default persister options (1-4 workers, MaxSizeInMemoryMergePerWorker 1 byte - 1 MB: the flush-set path, naps, memory-pressure threshold) and merge-planner options with 2-4 concurrent churn writers (batches of 1-4 updates/deletes over one family of 5-9 documents) and a persister stalled for up to 6-38 ms between rounds; " +
			"in two thirds of the option-variant disk runs a quarter of the batches wait (up to 3-10 ms) between their optimistic pass over the root and their introduction until a merge has been introduced, with merges forced throughout the run; " +
			"every observation comes from one Search or one held reader; non-trivial: at least 3 observations fall strictly inside the history and (for disk runs) a merge was introduced during the run; " +
			"plus serialisability runs (CSer): 2-5 goroutines whose batches touch the same 1-3 documents (0-2 of them issuing 1-3 large batches that also rewrite 6-20 private documents, the others 3-7 tiny batches; standard analyzer or one slowed by 100-800 us per document) on upsidedown over gtreap/boltdb/goleveldb, scorch-mem and scorch-disk, observed by 1-3 index-reader clients and optionally a match-all search client (up to 60 observations each) and once after all calls returned; non-trivial: at least 3 observations taken while batches were in flight",
		ShardSize: 1,
		Workers:   3,
	}, gen, exec)
}
